import CalVerif.Prim.Res
/-! Model of the BIFF8 string readers of `/repo/src/xls.rs` (property C12), code page 1200.

    Mirrors, function by function:
      `RecordIter::next`            → `nextRecord` (+ `gather` for the CONTINUE loop), `records`
      `Record::continue_record`     → `continueRecord`
      `Record::skip`                → `skip`
      `XlsEncoding::decode_to`      → `decodeTo` (cfb.rs; `high_byte = Some(_)`, UTF-16LE) followed by `decodeUtf16`
      `read_dbcs`                   → `readDbcs`
      `read_rich_extended_string`   → `readRich`
      `parse_sst`                   → `parseSst`
      `parse_short_string`          → `parseShortString`
      `parse_string`                → `parseString`
      hook `verif::sst_from_stream` → `sstFromStream`

    Text is a list of Unicode scalar values (`List Nat`). `decode_to` hands every *segment*
    (the characters of one fragment) separately to encoding_rs; `read_dbcs` gathers the units of all segments
    (`widen_to`) and decodes them once. `decodeUtf16` is what `UTF_16LE.decode_without_bom_handling` does to a
    sequence of code units (pairs combined, unpaired surrogates → U+FFFD). encoding_rs itself is trusted, not
    modelled further.

    A `Record`'s `cont: Option<Vec<&[u8]>>` is a plain `List Bytes` here: `None` and `Some(vec![])`
    behave identically (`continue_record` returns `false` for both) and `RecordIter` never produces `Some(vec![])`. -/

namespace Biff

abbrev Bytes := List UInt8

/-- `utils::read_u16` on a slice known to hold ≥ 2 bytes -/
def u16 (s : Bytes) : Nat := (s.getD 0 0).toNat + 256 * (s.getD 1 0).toNat

/-- `utils::read_u32` / the bit pattern of `read_i32` on a slice known to hold ≥ 4 bytes -/
def u32 (s : Bytes) : Nat :=
  (s.getD 0 0).toNat + 256 * (s.getD 1 0).toNat + 65536 * (s.getD 2 0).toNat + 16777216 * (s.getD 3 0).toNat

/-- `s.len() >= n`, looking at no more than `n` elements (streams are megabytes long) -/
def hasLen (s : Bytes) (n : Nat) : Bool :=
  match n with
  | 0 => true
  | n + 1 => !(s.drop n).isEmpty

/-- `Record { typ, data, cont }` -/
structure Rec where
  typ : Nat
  data : Bytes
  cont : List Bytes
  deriving Repr, DecidableEq

/-- the reader state that the string functions mutate: `r.data`, `r.cont` -/
structure Rd where
  data : Bytes
  cont : List Bytes
  deriving Repr, DecidableEq

/-- `Record::continue_record`: `none` = returned `false` (state unchanged) -/
def continueRecord (r : Rd) : Option Rd :=
  match r.cont with
  | [] => none
  | f :: fs => some ⟨f, fs⟩

/-! ### UTF-16 → scalar values (encoding_rs `decode_without_bom_handling` for UTF-16LE, per segment) -/

def isHigh (u : Nat) : Bool := 0xD800 ≤ u && u < 0xDC00
def isLow (u : Nat) : Bool := 0xDC00 ≤ u && u < 0xE000

def decodeUtf16 : List Nat → List Nat
  | [] => []
  | [u] => if isHigh u || isLow u then [0xFFFD] else [u]
  | u :: v :: rest =>
    if isHigh u then
      if isLow v then (0x10000 + (u - 0xD800) * 0x400 + (v - 0xDC00)) :: decodeUtf16 rest
      else 0xFFFD :: decodeUtf16 (v :: rest)
    else if isLow u then 0xFFFD :: decodeUtf16 (v :: rest)
    else u :: decodeUtf16 (v :: rest)

/-- little-endian 16-bit units of an even-length byte string (a trailing odd byte is dropped, never produced by `decodeTo`) -/
def units16 : Bytes → List Nat
  | a :: b :: rest => (a.toNat + 256 * b.toNat) :: units16 rest
  | _ => []

/-- `XlsEncoding::decode_to(stream, len, s, Some(high_byte))` under UTF-16LE:
    returns (code units handed to the decoder, `l` = characters read, `ub` = bytes consumed).
    8-bit ("compressed") bytes are zero-extended to units (`bytes[2*i] = *sce`). -/
def decodeTo (stream : Bytes) (len : Nat) (highByte : Bool) : List Nat × Nat × Nat :=
  if highByte then
    let l := min (stream.length / 2) len
    (units16 (stream.take (2 * l)), l, 2 * l)
  else
    let l := min stream.length len
    ((stream.take l).map (·.toNat), l, l)

def flagHigh (b : UInt8) : Bool := b.toNat % 2 = 1

/-- the loop of `read_dbcs`: `len` characters still owed, `highByte` the packing of the current segment.
    One loop iteration per call; the recursion is structural in `cont` (every further iteration
    consumes one CONTINUE fragment, whose first byte is a fresh flag byte; an empty one ends the read with `EoStream`).
    Returns the UTF-16 code units gathered over all the fragments (`widen_to` appends them to `wide`, 8-bit
    characters zero-extended): they are decoded once, after the loop (`readRichAt`), so that a surrogate pair cut
    by the end of a record is still one character (since the fix for finding D43; before it every segment was
    decoded on its own). -/
def readDbcs (len : Nat) (highByte : Bool) (data : Bytes) (cont : List Bytes) : Res (List Nat × Rd) :=
  if len = 0 then .ok ([], ⟨data, cont⟩)
  else
    let d := decodeTo data len highByte
    let txt := d.1
    let data' := data.drop d.2.2
    if len - d.2.1 = 0 then .ok (txt, ⟨data', cont⟩)
    else
      match cont with
      | [] => .err "EoStream:dbcs"
      | [] :: _ => .err "EoStream:dbcs"   -- `r.continue_record() && !r.data.is_empty()` (guard added by the D31-b fix)
      | (b :: rest) :: fs => do
        let (t, r) ← readDbcs (len - d.2.1) (flagHigh b) rest fs
        pure (txt ++ t, r)

/-- `Record::skip(len)`. One call = the loop iterations spent in one fragment: if the current
    fragment holds `len` bytes they are dropped, otherwise it is used up and the loop goes on in the next
    CONTINUE fragment (`ContinueRecordTooShort` when there is none). Empty fragments are stepped over. -/
def skip (len : Nat) (data : Bytes) (cont : List Bytes) : Res Rd :=
  if len = 0 then .ok ⟨data, cont⟩
  else if len ≤ data.length then .ok ⟨data.drop len, cont⟩
  else
    match cont with
    | [] => .err "ContinueRecordTooShort"
    | f :: fs => skip (len - data.length) f fs

/-- `read_i32(..) as usize` on a 64-bit target: negative values sign-extend -/
def i32AsUsize (v : Nat) : Nat := if v < 2147483648 then v else 18446744069414584320 + v

/-- `read_rich_extended_string` once the fragment holding the string header has been fetched -/
def readRichAt (r : Rd) : Res (List Nat × Rd) :=
  if r.data.length < 3 then .err s!"Len:rich extended string:3:{r.data.length}"
  else
    let cch := u16 r.data
    let flags := (r.data.getD 2 0).toNat
    let data := r.data.drop 3
    let highByte := flags % 2 == 1
    let rich := flags / 8 % 2 == 1
    let ext := flags / 4 % 2 == 1
    -- cRun / cbExtRst must sit in the same fragment as the rest of the header (length checks added by the
    -- robustness fix; the pinned code slice-indexed the remaining fragment and panicked)
    if rich && data.length < 2 then .err s!"Len:rich extended string:2:{data.length}"
    else
      let cRun := if rich then u16 data else 0
      let data := if rich then data.drop 2 else data
      if ext && data.length < 4 then .err s!"Len:rich extended string:4:{data.length}"
      else
        let cbExt := if ext then i32AsUsize (u32 data) else 0
        let data := if ext then data.drop 4 else data
        do
          let (us, r) ← readDbcs cch highByte data r.cont
          let s := decodeUtf16 us   -- `encoding.decode_wide(&wide)` at the end of `read_dbcs`
          let r ← skip (cRun * 4) r.data r.cont
          let r ← skip cbExt r.data r.cont
          pure (s, r)

/-- `read_rich_extended_string` (XLUnicodeRichExtendedString).
    First line of the Rust function: `r.data.is_empty() && !r.continue_record() || r.data.len() < 3`. -/
def readRich (r : Rd) : Res (List Nat × Rd) :=
  match (if r.data.isEmpty then continueRecord r else some r) with
  | none => .err "Len:rich extended string:3:0"
  | some r => readRichAt r

/-- the `for _ in 0..len` loop of `parse_sst` -/
def readStrings : Nat → Rd → Res (List (List Nat))
  | 0, _ => .ok []
  | n + 1, r => do
    let (s, r) ← readRich r
    let ss ← readStrings n r
    pure (s :: ss)

/-- `parse_sst`: cstTotal (ignored), cstUnique, then that many strings. A negative cstUnique is an `Err`
    (`try_into()` mapped to `XlsError::Len`); the capacity reserved for the result is bounded by the bytes
    of the record (`len.min(avail / 3 + 1)`), which has no observable effect and is not modelled. -/
def parseSst (r : Rec) : Res (List (List Nat)) :=
  if r.data.length < 8 then .err s!"Len:sst:8:{r.data.length}"
  else
    let n := u32 (r.data.drop 4)
    if 2147483648 ≤ n then .err s!"Len:sst count:0:{n}"
    else readStrings n ⟨r.data.drop 8, r.cont⟩

/-! ### Record framing -/

/-- the `while self.stream.len() > 4 && read_u16(self.stream) == 0x003C` loop; `fuel` bounds the iterations.
    Returns the gathered CONTINUE payloads and the rest of the stream. -/
def gather : Nat → Bytes → Res (List Bytes × Bytes)
  | 0, _ => .outOfFuel
  | fuel + 1, s =>
    if hasLen s 5 && u16 s = 0x3C then
      let len := u16 (s.drop 2)
      if !hasLen s (len + 4) then .err "EoStream:continue record length"
      else do
        let (fs, rest) ← gather fuel (s.drop (len + 4))
        pure ((s.take (len + 4)).drop 4 :: fs, rest)
    else .ok ([], s)

/-- `RecordIter::next`: `none` = end of stream. (`cont` is `Some(..)` exactly when the gathered list is non-empty.) -/
def nextRecord (s : Bytes) : Option (Res (Rec × Bytes)) :=
  if !hasLen s 4 then
    if s.isEmpty then none else some (.err "EoStream:record type and length")
  else
    let t := u16 s
    let len := u16 (s.drop 2)
    if !hasLen s (len + 4) then some (.err "EoStream:record length")
    else
      let d := (s.take (len + 4)).drop 4
      let next := s.drop (len + 4)
      some (do
        let (cont, rest) ← gather (next.length / 4 + 1) next
        pure (⟨t, d, cont⟩, rest))

/-- all records of a stream (the `for r in RecordIter { stream }` loop, stopping at the first error) -/
def records : Nat → Bytes → Res (List Rec)
  | 0, _ => .outOfFuel
  | fuel + 1, s =>
    match nextRecord s with
    | none => .ok []
    | some x => do
      let (r, rest) ← x
      let rs ← records fuel rest
      pure (r :: rs)

/-- hook `verif::sst_from_stream`: the first SST (0x00FC) record met while iterating is parsed; a framing
    error before it is returned as such -/
def sstFromStream : Nat → Bytes → Res (List (List Nat))
  | 0, _ => .outOfFuel
  | fuel + 1, s =>
    match nextRecord s with
    | none => .err "NoSst"
    | some x => do
      let (r, rest) ← x
      if r.typ = 0xFC then parseSst r else sstFromStream fuel rest

/-- hook `verif::c12_skip`: `skip n` on the first record; the fragments left afterwards -/
def skipFirst (s : Bytes) (n : Nat) : Res (List Bytes) :=
  match nextRecord s with
  | none => .err "NoRecord"
  | some x => do
    let (r, _) ← x
    let r ← skip n r.data r.cont
    pure (r.data :: r.cont)

/-! ### Strings that live inside one record -/

/-- `parse_short_string` (ShortXLUnicodeString; `biff8 = false` stands for BIFF5: no flag byte, `high_byte = None`.
    `XlsEncoding::high_byte(None)` answers `Some(false)` — the bytes are the low halves of 16-bit units — exactly
    for the UTF-16 code pages (1200, which is the one modelled here, and 1201) and `None` — the bytes go to the
    code-page decoder as they are — for every other encoding, single-, double- or multi-byte (since fix 1eaf680,
    finding D44; before it every multi-byte encoding was widened). Other code pages are not modelled:
    their decoders belong to encoding_rs; the harness (stage I) exercises 1252, 65001, 932, 936, 949, 950.) -/
def parseShortString (data : Bytes) (biff8 : Bool) : Res (List Nat) :=
  if data.length < 2 then .err s!"Len:short string:2:{data.length}"
  else
    let cch := (data.getD 0 0).toNat
    let data := data.drop 1
    let highByte := if biff8 then flagHigh (data.getD 0 0) else false
    let data := if biff8 then data.drop 1 else data
    .ok (decodeUtf16 (decodeTo data cch highByte).1)

/-- `parse_string` (XLUnicodeString): cch u16, (BIFF8) flags byte, characters.
    `minLen` is the length check of the code (4 before the D36 fix; 3 for BIFF8 / 2 for BIFF5 after). -/
def parseStringWith (minLen : Nat) (r : Bytes) (biff8 : Bool) : Res (List Nat) :=
  if r.length < minLen then .err s!"Len:string:{minLen}:{r.length}"
  else
    let cch := u16 r
    let highByte := if biff8 then flagHigh (r.getD 2 0) else false
    let start := if biff8 then 3 else 2
    .ok (decodeUtf16 (decodeTo (r.drop start) cch highByte).1)

/-- `parse_string` as it stands in /repo (after the D36 fix: `min_len` = 2 up to BIFF5, 3 from BIFF8 on) -/
def parseString (r : Bytes) (biff8 : Bool) : Res (List Nat) := parseStringWith (if biff8 then 3 else 2) r biff8

end Biff
