import CalVerif.Prim.Res
/-! Model of the reader objects (`Xlsx`, `Xlsb`, `Xls`, `Ods`, and `Sheets` which dispatches to them)
    as a state machine over an *immutable* file.

    What the Rust structs hold that a call can change (everything else is filled by `new` and never
    written again):
      * `options.header_row`            — written by `with_header_row`
      * `merged_regions : Option<…>`    — xlsx only, written by `load_merged_regions` when `None`
      * `tables : Option<…>`            — xlsx only, written by `load_tables` when `None`
    Every read re-opens its zip part / re-reads the parsed sheet and builds a fresh cell reader.

    The file's content is abstracted as pure functions (`FileSem`): what a *freshly opened* reader
    returns for each call. The model says which state each public method reads and writes. -/

namespace Reader

/-- `HeaderRow` -/
inductive Hdr where
  | firstNonEmpty
  | row (n : Nat)
  deriving DecidableEq, Repr

/-- canonical observable result of a call (text form used on the wire) -/
abbrev Out := String

/-- the immutable file, as the results a fresh reader gives -/
structure FileSem where
  /-- xls / ods build every range when the file is opened and `worksheets()` returns those stored ranges,
      ignoring the header-row option; xlsx / xlsb read each sheet through `worksheet_range` -/
  eager : Bool
  sheets : List String
  /-- the reader's sheet table: sheet name ↦ part (xlsx/xlsb: `Vec<(name, path)>` searched front to back with
      `find`; xls/ods: a map keyed by name). A sheet of another kind than worksheet may be listed in
      `sheets` (the metadata order) without an entry here. -/
  parts : List (String × String)
  /-- reading the cells of a PART under a header-row option (canonical dump; read errors included) -/
  partRange : String → Hdr → Out
  /-- reading the formulas of a part -/
  partFormula : String → Out
  /-- cell-by-cell `Data::from(DataRef)` on a dump -/
  toOwned : Out → Out
  mergeCells : String → Out
  mergedAll : Out
  mergedBySheet : String → Out
  tableNames : Out
  /-- table metadata lookup: sheet and window, or an error text -/
  tableMeta : String → Except Out (String × Out)
  /-- `range.range(start,end)` of a dump by a window -/
  window : Out → Out → Out
  vba : Out
  metadata : Out
  /-- is this result of a range read an `Err(..)` (the lazy readers' `worksheets()` drops such sheets: `.ok()?`) -/
  failed : Out → Bool := (fun _ => false)
  /-- `load_merged_regions()` on this file: `none` = `Ok(())`; `some e` = the error it returns (a `mergeCell` whose
      `ref` does not parse …) — the cache is then left unset, as if the call had not been made -/
  loadMergedErr : Option Out := none
  /-- `load_tables()` on this file, likewise -/
  loadTablesErr : Option Out := none

structure State where
  hdr : Hdr := .firstNonEmpty
  mergedLoaded : Bool := false
  tablesLoaded : Bool := false
  deriving DecidableEq, Repr

inductive Op where
  | withHeaderRow (h : Hdr)
  | range (name : String)
  | rangeRef (name : String)
  | rangeAt (n : Nat)
  | worksheets
  | formula (name : String)
  | mergeCells (name : String)
  | loadMerged
  | mergedRegions
  | mergedBySheet (name : String)
  | loadTables
  | tableNames
  | tableByName (name : String)
  | vba
  | sheetNames
  | metadata
  deriving Repr

def notLoaded : Out := "panic:not-loaded"
def unknownSheet : Out := "none"
def worksheetNotFound : Out := "err:WorksheetNotFound"

/-- sheet lookup by name: the first entry of the table with that name -/
def lookupSheet (F : FileSem) (name : String) : Option String :=
  (F.parts.find? (fun e => e.1 == name)).map (·.2)

/-- `worksheet_range_ref(name)`: an unknown name is `WorksheetNotFound`, never another sheet -/
def FileSem.rangeRef (F : FileSem) (name : String) (h : Hdr) : Out :=
  match lookupSheet F name with
  | some part => F.partRange part h
  | none => worksheetNotFound

/-- `worksheet_formula(name)` -/
def FileSem.formula (F : FileSem) (name : String) : Out :=
  match lookupSheet F name with
  | some part => F.partFormula part
  | none => worksheetNotFound

/-- `worksheet_range`: the owned path is the ref path converted cell by cell -/
def rangeOut (F : FileSem) (h : Hdr) (name : String) : Out := F.toOwned (F.rangeRef name h)

/-- `worksheets()`: every sheet name with its range under the option in force; a sheet whose read fails has no
    entry (`filter_map(|n| self.worksheet_range(&n).ok()…)`) -/
def worksheetsOut (F : FileSem) (h : Hdr) : Out :=
  let h' := if F.eager then .firstNonEmpty else h
  "&".intercalate (F.sheets.filterMap fun n =>
    if F.failed (rangeOut F h' n) then none else some (n ++ "=" ++ rangeOut F h' n))

/-- one public call: new state and observable result -/
def step (F : FileSem) (s : State) : Op → State × Out
  | .withHeaderRow h => ({ s with hdr := h }, "unit")
  | .range name => (s, rangeOut F s.hdr name)
  | .rangeRef name => (s, F.rangeRef name s.hdr)
  | .rangeAt n => (s, match F.sheets[n]? with
      | some name => rangeOut F s.hdr name
      | none => unknownSheet)
  | .worksheets => (s, worksheetsOut F s.hdr)
  | .formula name => (s, F.formula name)
  | .mergeCells name => (s, F.mergeCells name)
  | .loadMerged => (match F.loadMergedErr with
      | none => ({ s with mergedLoaded := true }, "unit")
      | some e => (s, e))
  | .mergedRegions => (s, if s.mergedLoaded then F.mergedAll else notLoaded)
  | .mergedBySheet name => (s, if s.mergedLoaded then F.mergedBySheet name else notLoaded)
  | .loadTables => (match F.loadTablesErr with
      | none => ({ s with tablesLoaded := true }, "unit")
      | some e => (s, e))
  | .tableNames => (s, if s.tablesLoaded then F.tableNames else notLoaded)
  | .tableByName name => (s,
      if s.tablesLoaded then
        match F.tableMeta name with
        | .ok (sheet, win) => F.window (rangeOut F s.hdr sheet) win
        | .error e => e
      else notLoaded)
  | .vba => (s, F.vba)
  | .sheetNames => (s, ",".intercalate F.sheets)
  | .metadata => (s, F.metadata)

/-- run a history from a state, collecting the outputs -/
def run (F : FileSem) : State → List Op → State × List Out
  | s, [] => (s, [])
  | s, op :: rest =>
    let (s1, o) := step F s op
    let (s2, os) := run F s1 rest
    (s2, o :: os)

/-! ### what "a function only of the file, the arguments and the option in force" means -/

/-- the header-row option in force after a history (the last `with_header_row`, default otherwise) -/
def hdrAfter : Hdr → List Op → Hdr
  | h, [] => h
  | _, .withHeaderRow h' :: rest => hdrAfter h' rest
  | h, _ :: rest => hdrAfter h rest

def isLoadMerged : Op → Bool
  | .loadMerged => true
  | _ => false

def isLoadTables : Op → Bool
  | .loadTables => true
  | _ => false

/-- the state a history leads to, computed without looking at any read: the last option set, and whether a load
    was called that this file lets succeed -/
def stateAfter (F : FileSem) (s : State) (ops : List Op) : State :=
  { hdr := hdrAfter s.hdr ops,
    mergedLoaded := s.mergedLoaded || (F.loadMergedErr.isNone && ops.any isLoadMerged),
    tablesLoaded := s.tablesLoaded || (F.loadTablesErr.isNone && ops.any isLoadTables) }

/-- the result of a call on a *freshly opened* reader brought to the same option/loaded flags:
    by definition a function of the file, the call and those three settings only -/
def pureResult (F : FileSem) (s : State) (op : Op) : Out := (step F s op).2

end Reader
