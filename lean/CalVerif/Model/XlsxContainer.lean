import CalVerif.Model.Metadata
/-! Model of the container glue of `Xlsx` (`/repo/src/xlsx/mod.rs`): from the archive to the part that is opened
    for a sheet name.

    * `readRelationships`  ↔ `Xlsx::read_relationships` (on the events of `xl/_rels/workbook.xml.rels`)
    * `Meta.readWorkbookXlsx` (C16's model) ↔ `Xlsx::read_workbook` — the join `<sheet r:id>` → relationship → part path
    * `findEntry`          ↔ `xml_reader`: the first archive entry whose name equals the path ignoring ASCII case
    * `sheetTable`         ↔ the part of `Xlsx::new` that fills `self.sheets` / `metadata.sheets`
    * `openSheet`          ↔ `worksheet_cells_reader`: first sheet with that name → its path → `xml_reader`

    Boundary: the archive is the list of its entry names in central-directory order (what `ZipArchive::file_names`
    iterates) with, per entry, the XML events of its content; `zip` (finding and inflating an entry by its exact
    name) and quick-xml (bytes → events) are trusted. Events are C16's `Meta.Ev` (names and values as `String`s;
    attribute values as they stand in the file — `read_relationships` does not unescape `Id` / `Target`, so values
    containing entity references are outside the tie). -/

namespace XlsxContainer
open Meta

/-! ### `read_relationships` -/

/-- the `for a in e.attributes()` loop of the `Relationship` arm: every `Id` attribute extends `id`
    (`id.extend_from_slice`), a `Target` attribute replaces `target`; `Type`, `TargetMode` and all others are
    ignored -/
def relAttrs : List (String × String) → String × String → String × String
  | [], acc => acc
  | (k, v) :: rest, (id, tg) =>
    if k = "Id" then relAttrs rest (id ++ v, tg)
    else if k = "Target" then relAttrs rest (id, v)
    else relAttrs rest (id, tg)

/-- the event loop. `relationships.insert(id, target)` on a `BTreeMap`: a later relationship with the same id
    replaces the earlier one — modelled by putting the newest entry first, so that `List.lookup` is `BTreeMap::get` -/
def relsLoop : List Ev → List (String × String) → Res (List (String × String))
  | [], _ => .err "XmlEof:Relationships"
  | ev :: rest, acc =>
    match ev with
    | .start n attrs =>
      if localName n = "Relationship" then relsLoop rest (relAttrs attrs ("", "") :: acc) else relsLoop rest acc
    | .end_ n => if localName n = "Relationships" then .ok acc else relsLoop rest acc
    | _ => relsLoop rest acc

/-- `Xlsx::read_relationships` on the events of the part: relationship id → target -/
def readRelationships (evs : List Ev) : Res (List (String × String)) := relsLoop evs []

/-! ### `xml_reader`: part lookup -/

/-- `u8::to_ascii_lowercase` on a character -/
def lowerChar (c : Char) : Char :=
  if 65 ≤ c.toNat ∧ c.toNat ≤ 90 then Char.ofNat (c.toNat + 32) else c

/-- `str::eq_ignore_ascii_case` -/
def eqIgnoreAsciiCase (a b : String) : Bool := a.toList.map lowerChar == b.toList.map lowerChar

/-- `zip.file_names().find(|n| n.eq_ignore_ascii_case(path))`: the first entry, in archive order -/
def findEntry (names : List String) (path : String) : Option String :=
  names.find? (fun n => eqIgnoreAsciiCase n path)

/-- an archive: entry names in central-directory order; the events of an entry read as workbook / relationships
    XML; the content of an entry read as a sheet (left abstract: `α` = the events C01's reader works on) -/
structure Archive (α : Type) where
  names : List String
  xml : String → List Ev
  content : String → α

/-! ### `Xlsx::new` (sheet list) and `worksheet_cells_reader` -/

/-- the `(name, path)` list `read_workbook` leaves in `self.sheets`, with the metadata of each sheet.
    `read_relationships` fails without its part (`FileNotFound`); `read_workbook` without `xl/workbook.xml` returns
    `Ok(())` and there are no sheets. -/
def sheetTable {α : Type} (a : Archive α) : Res (List (Sheet String × String)) :=
  match findEntry a.names "xl/_rels/workbook.xml.rels" with
  | none => .err "FileNotFound"
  | some relsEntry =>
    match readRelationships (a.xml relsEntry) with
    | .ok rels =>
      match findEntry a.names "xl/workbook.xml" with
      | none => .ok []
      | some wbEntry =>
        match readWorkbookXlsx rels (a.xml wbEntry) with
        | .ok (wb, paths) => .ok (wb.sheets.zip (paths.map String.ofList))
        | .err e => .err e
        | .panic e => .panic e
        | .outOfFuel => .outOfFuel
    | .err e => .err e
    | .panic e => .panic e
    | .outOfFuel => .outOfFuel

/-- `worksheet_cells_reader(name)`: the first sheet with this name, its path, the entry `xml_reader` finds for
    the path; `WorksheetNotFound` when there is no such sheet or no such entry. Result: the entry that is read. -/
def openSheetEntry {α : Type} (a : Archive α) (name : String) : Res String :=
  match sheetTable a with
  | .ok table =>
    match table.find? (fun s => s.1.name == name) with
    | none => .err "WorksheetNotFound"
    | some s =>
      match findEntry a.names s.2 with
      | none => .err "WorksheetNotFound"
      | some entry => .ok entry
  | .err e => .err e
  | .panic e => .panic e
  | .outOfFuel => .outOfFuel

/-- the content handed to the cell reader for the sheet named `name` -/
def openSheet {α : Type} (a : Archive α) (name : String) : Res α :=
  match openSheetEntry a name with
  | .ok entry => .ok (a.content entry)
  | .err e => .err e
  | .panic e => .panic e
  | .outOfFuel => .outOfFuel

end XlsxContainer
