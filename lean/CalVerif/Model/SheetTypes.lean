/-! Mirrors of `enum SheetType { WorkSheet, DialogSheet, MacroSheet, ChartSheet, Vba }` and
    `enum SheetVisible { Visible, Hidden, VeryHidden }` (`src/lib.rs`), property C16. Kept in an
    import-free file so that the generated code tables (`Gen/SheetCodes.lean`) can refer to them; the
    translator checks on every run that the Rust enums still have exactly these variants, in this order. -/

inductive SheetType where
  | workSheet
  | dialogSheet
  | macroSheet
  | chartSheet
  | vba
  deriving DecidableEq, Repr, Inhabited

inductive SheetVisible where
  | visible
  | hidden
  | veryHidden
  deriving DecidableEq, Repr, Inhabited

namespace SheetType

/-- canonical wire name = the Rust variant name -/
def tag : SheetType → String
  | workSheet => "WorkSheet"
  | dialogSheet => "DialogSheet"
  | macroSheet => "MacroSheet"
  | chartSheet => "ChartSheet"
  | vba => "Vba"

def all : List SheetType := [workSheet, dialogSheet, macroSheet, chartSheet, vba]

end SheetType

namespace SheetVisible

def tag : SheetVisible → String
  | visible => "Visible"
  | hidden => "Hidden"
  | veryHidden => "VeryHidden"

def all : List SheetVisible := [visible, hidden, veryHidden]

end SheetVisible
