import CalVerif.Prim.Res
import CalVerif.Model.Range
/-! Model of the merge-region and table geometry code (property C17).

    Rust sources mirrored:
    * `/repo/src/xlsx/mod.rs`: `get_row_and_optional_column`, `get_row_column`, `get_dimension`,
      `read_merged_regions` (per sheet and over the sheet list), `read_merge_cells`,
      `worksheet_merge_cells`, `merged_regions_by_sheet`, `read_table_metadata` (relationship scan,
      table part scan, the geometry arithmetic AFTER the fix of ledger row D17), `table_names`,
      `table_names_in_sheet`, `get_table_meta`, `table_by_name` (`range.range(start, end)`);
    * `/repo/src/xls.rs`: `parse_merge_cells` and the MERGEDCELLS arm of the sheet record loop.

    Conventions. Byte strings are `List UInt8`; element and attribute *names* are `List Char`
    (ASCII identifiers, possibly with a namespace prefix `p:name`); attribute *values* are bytes: the
    raw bytes between the quotes, except `displayName` of `table` and `name` of `tableColumn`, which
    the code unescapes with quick-xml (`decode_and_unescape_value`, after the fix found by C17) — for
    these two the model receives the unescaped value; no other value read here can contain an escape
    in a file that declares geometry (`ref`, counts, `Target`, `Type`). The XML layer
    (quick-xml with `expand_empty_elements`) is not modelled: the model starts at the event list, an
    end of list is `Event::Eof`. `u32`/`u16` values are `Nat`, every Rust operation that can overflow
    is explicit.

    `Mode`: the code of `get_row_and_optional_column` / `get_dimension` exists in two variants in this
    project's history: plain `u32` arithmetic (panics under `overflow-checks`, the harness profile) and the
    saturating arithmetic of planned fix 0027 (ledger D30-a/c, property C06). The model takes the variant
    as a parameter, the harness detects which one the tree has (two probes) and every theorem of
    `Props/C17` holds for both.

    NOTE (duplication): `get_row_and_optional_column`/`get_dimension` also belong to C01
    (`Model/XlsxCells.lean`, not available when this file was written) and C15 (`Model/SharedFormula.lean`,
    over `List Char`, without the overflow points). They are defined here over bytes with the overflow
    points, in the namespace `Geometry`. -/

namespace Geometry

abbrev Bytes := List UInt8

def U32 : Nat := 4294967296
def U16 : Nat := 65536

/-- which arithmetic the tree has (see the header) -/
structure Mode where
  /-- `get_row_and_optional_column` accumulates with `saturating_*` -/
  satArith : Bool
  /-- `get_dimension` computes the spans with `saturating_sub` -/
  satDim : Bool
  deriving Repr, DecidableEq

/-- `a + b` in `u32` -/
def addU (m : Mode) (a b : Nat) : Res Nat :=
  if a + b < U32 then .ok (a + b) else if m.satArith then .ok (U32 - 1) else .panic "u32 add overflow"

/-- `a * b` in `u32` -/
def mulU (m : Mode) (a b : Nat) : Res Nat :=
  if a * b < U32 then .ok (a * b) else if m.satArith then .ok (U32 - 1) else .panic "u32 mul overflow"

/-- rectangle `Dimensions { start: (sr, sc), end: (er, ec) }` -/
structure Rect where
  sr : Nat
  sc : Nat
  er : Nat
  ec : Nat
  deriving Repr, DecidableEq

/-- `Dimensions::contains` -/
def Rect.contains (d : Rect) (row col : Nat) : Bool :=
  row ≥ d.sr && row ≤ d.er && col ≥ d.sc && col ≤ d.ec

/-! ### A1 references -/

/-- loop state of `get_row_and_optional_column` -/
structure RC where
  row : Nat
  col : Nat
  pow : Nat
  readrow : Bool
  deriving Repr, DecidableEq

/-- the two letter arms: `k = c - b'A'` (or `c - b'a'`) -/
def rcLetter (m : Mode) (s : RC) (k : Nat) : Res RC :=
  if s.readrow ∧ s.row = 0 then .err "RangeWithoutRowComponent"
  else
    let pow := if s.readrow then 1 else s.pow
    match mulU m (k + 1) pow with
    | .ok t =>
      match addU m s.col t with
      | .ok col =>
        match mulU m pow 26 with
        | .ok pow' => .ok { row := s.row, col := col, pow := pow', readrow := false }
        | .err e => .err e | .panic e => .panic e | .outOfFuel => .outOfFuel
      | .err e => .err e | .panic e => .panic e | .outOfFuel => .outOfFuel
    | .err e => .err e | .panic e => .panic e | .outOfFuel => .outOfFuel

/-- the digit arm: `d = c - b'0'` -/
def rcDigit (m : Mode) (s : RC) (d : Nat) : Res RC :=
  if ¬ s.readrow then .err "NumericColumn"
  else
    match mulU m d s.pow with
    | .ok t =>
      match addU m s.row t with
      | .ok row =>
        match mulU m s.pow 10 with
        | .ok pow' => .ok { s with row := row, pow := pow' }
        | .err e => .err e | .panic e => .panic e | .outOfFuel => .outOfFuel
      | .err e => .err e | .panic e => .panic e | .outOfFuel => .outOfFuel
    | .err e => .err e | .panic e => .panic e | .outOfFuel => .outOfFuel

/-- one iteration of `for c in range.iter().rev()` -/
def rcStep (m : Mode) (s : RC) (c : UInt8) : Res RC :=
  if 48 ≤ c.toNat ∧ c.toNat ≤ 57 then rcDigit m s (c.toNat - 48)
  else if 65 ≤ c.toNat ∧ c.toNat ≤ 90 then rcLetter m s (c.toNat - 65)
  else if 97 ≤ c.toNat ∧ c.toNat ≤ 122 then rcLetter m s (c.toNat - 97)
  else .err "Alphanumeric"

def rcFold (m : Mode) : Bytes → RC → Res RC
  | [], s => .ok s
  | c :: cs, s =>
    match rcStep m s c with
    | .ok s' => rcFold m cs s'
    | .err e => .err e
    | .panic e => .panic e
    | .outOfFuel => .outOfFuel

/-- `get_row_and_optional_column` -/
def getRowAndOptionalColumn (m : Mode) (range : Bytes) : Res (Nat × Option Nat) :=
  match rcFold m range.reverse ⟨0, 0, 1, true⟩ with
  | .ok s =>
    if s.row = 0 then .err "RangeWithoutRowComponent"
    else .ok (s.row - 1, if s.col = 0 then none else some (s.col - 1))
  | .err e => .err e
  | .panic e => .panic e
  | .outOfFuel => .outOfFuel

/-- `get_row_column` -/
def getRowColumn (m : Mode) (range : Bytes) : Res (Nat × Nat) :=
  match getRowAndOptionalColumn m range with
  | .ok (row, some col) => .ok (row, col)
  | .ok (_, none) => .err "RangeWithoutColumnComponent"
  | .err e => .err e
  | .panic e => .panic e
  | .outOfFuel => .outOfFuel

/-- `dimension.split(|c| *c == b':')` -/
def splitColon : Bytes → List Bytes
  | [] => [[]]
  | c :: cs =>
    if c = 58 then [] :: splitColon cs
    else match splitColon cs with
      | p :: ps => (c :: p) :: ps
      | [] => [[c]]

/-- `.map(get_row_column).collect::<Result<Vec<_>, _>>()`: stops at the first part that fails -/
def parseParts (m : Mode) : List Bytes → Res (List (Nat × Nat))
  | [] => .ok []
  | p :: ps =>
    match getRowColumn m p with
    | .ok x =>
      match parseParts m ps with
      | .ok xs => .ok (x :: xs)
      | .err e => .err e
      | .panic e => .panic e
      | .outOfFuel => .outOfFuel
    | .err e => .err e
    | .panic e => .panic e
    | .outOfFuel => .outOfFuel

/-- `get_dimension`. The spans `parts[1].0 - parts[0].0`, `parts[1].1 - parts[0].1` are only used for
    a warning; in the plain-arithmetic variant they panic on a reversed reference (ledger D30-c). The
    result keeps both corners as written. -/
def getDimension (m : Mode) (dimension : Bytes) : Res Rect :=
  match parseParts m (splitColon dimension) with
  | .ok [a] => .ok ⟨a.1, a.2, a.1, a.2⟩
  | .ok [a, b] =>
    if ¬ m.satDim ∧ (b.1 < a.1 ∨ b.2 < a.2) then .panic "u32 sub overflow"
    else .ok ⟨a.1, a.2, b.1, b.2⟩
  | .ok _ => .err "DimensionCount"
  | .err e => .err e
  | .panic e => .panic e
  | .outOfFuel => .outOfFuel

/-! ### XML events -/

/-- One quick-xml event (`expand_empty_elements = true`: no `Empty`). `text`/`other` (comments,
    declarations, processing instructions) are ignored by every function modelled here. -/
inductive Ev where
  | start (name : List Char) (attrs : List (List Char × Bytes))
  | end_ (name : List Char)
  | text (t : Bytes)
  | other
  deriving Repr, DecidableEq

/-- `QName::local_name`: the part after the first `:` -/
def localName (n : List Char) : List Char :=
  match n.dropWhile (· ≠ ':') with
  | [] => n
  | _ :: rest => rest

def nMergeCell : List Char := ['m', 'e', 'r', 'g', 'e', 'C', 'e', 'l', 'l']
def nMergeCells : List Char := ['m', 'e', 'r', 'g', 'e', 'C', 'e', 'l', 'l', 's']
def nRef : List Char := ['r', 'e', 'f']
def nTable : List Char := ['t', 'a', 'b', 'l', 'e']
def nTableColumn : List Char := ['t', 'a', 'b', 'l', 'e', 'C', 'o', 'l', 'u', 'm', 'n']
def nDisplayName : List Char := ['d', 'i', 's', 'p', 'l', 'a', 'y', 'N', 'a', 'm', 'e']
def nHeaderRowCount : List Char := ['h', 'e', 'a', 'd', 'e', 'r', 'R', 'o', 'w', 'C', 'o', 'u', 'n', 't']
def nTotalsRowCount : List Char := ['t', 'o', 't', 'a', 'l', 's', 'R', 'o', 'w', 'C', 'o', 'u', 'n', 't']
def nInsertRow : List Char := ['i', 'n', 's', 'e', 'r', 't', 'R', 'o', 'w']
def nName : List Char := ['n', 'a', 'm', 'e']
def nRelationship : List Char := ['R', 'e', 'l', 'a', 't', 'i', 'o', 'n', 's', 'h', 'i', 'p']
def nRelationships : List Char := ['R', 'e', 'l', 'a', 't', 'i', 'o', 'n', 's', 'h', 'i', 'p', 's']
def nId : List Char := ['I', 'd']
def nTarget : List Char := ['T', 'a', 'r', 'g', 'e', 't']
def nType : List Char := ['T', 'y', 'p', 'e']

/-- first attribute whose (qualified) key is `key`: `get_attribute` / the `for attribute … break` loop -/
def attr? (attrs : List (List Char × Bytes)) (key : List Char) : Option Bytes :=
  (attrs.find? (fun a => a.1 = key)).map (·.2)

/-! ### xlsx merged regions -/

/-- the event loop of `read_merged_regions` for one sheet part: every `mergeCell` start element (by local
    name, wherever it is) that has a `ref` attribute contributes `get_dimension(ref)`; stops at Eof -/
def regionsOfSheet (m : Mode) : List Ev → Res (List Rect)
  | [] => .ok []
  | .start n attrs :: rest =>
    if localName n = nMergeCell then
      match attr? attrs nRef with
      | some v =>
        match getDimension m v with
        | .ok d =>
          match regionsOfSheet m rest with
          | .ok ds => .ok (d :: ds)
          | .err e => .err e | .panic e => .panic e | .outOfFuel => .outOfFuel
        | .err e => .err e | .panic e => .panic e | .outOfFuel => .outOfFuel
      | none => regionsOfSheet m rest
    else regionsOfSheet m rest
  | _ :: rest => regionsOfSheet m rest

/-- a sheet as `read_merged_regions` sees it: name, part path, and the events of the part (`none`: the
    part is not in the archive — `xml_reader` returns `None`, the sheet is skipped) -/
structure SheetPart where
  name : Bytes
  path : Bytes
  events : Option (List Ev)

/-- `read_merged_regions`: `(sheet name, sheet path, region)` in sheet order, then document order -/
def mergedRegions (m : Mode) : List SheetPart → Res (List (Bytes × Bytes × Rect))
  | [] => .ok []
  | s :: rest =>
    match s.events with
    | none => mergedRegions m rest
    | some evs =>
      match regionsOfSheet m evs with
      | .ok ds =>
        match mergedRegions m rest with
        | .ok more => .ok (ds.map (fun d => (s.name, s.path, d)) ++ more)
        | .err e => .err e | .panic e => .panic e | .outOfFuel => .outOfFuel
      | .err e => .err e | .panic e => .panic e | .outOfFuel => .outOfFuel

/-- `merged_regions_by_sheet` -/
def mergedRegionsBySheet (all : List (Bytes × Bytes × Rect)) (name : Bytes) : List (Bytes × Bytes × Rect) :=
  all.filter (fun s => s.1 = name)

/-- `read_merge_cells`: from just after `<mergeCells>` up to its end tag -/
def readMergeCells (m : Mode) : List Ev → Res (List Rect)
  | [] => .err "XmlEof"
  | .start n attrs :: rest =>
    if localName n = nMergeCell then
      match attr? attrs nRef with
      | some v =>
        match getDimension m v with
        | .ok d =>
          match readMergeCells m rest with
          | .ok ds => .ok (d :: ds)
          | .err e => .err e | .panic e => .panic e | .outOfFuel => .outOfFuel
        | .err e => .err e | .panic e => .panic e | .outOfFuel => .outOfFuel
      | none => readMergeCells m rest
    else readMergeCells m rest
  | .end_ n :: rest => if localName n = nMergeCells then .ok [] else readMergeCells m rest
  | _ :: rest => readMergeCells m rest

/-- the event loop of `worksheet_merge_cells`: the first `mergeCells` element decides; an `Err` of
    `read_merge_cells` is swallowed (`if let Ok(cells)`), a panic is not -/
def worksheetMergeCells (m : Mode) : List Ev → Res (List Rect)
  | [] => .ok []
  | .start n _ :: rest =>
    if localName n = nMergeCells then
      match readMergeCells m rest with
      | .ok ds => .ok ds
      | .err _ => .ok []
      | .panic e => .panic e
      | .outOfFuel => .outOfFuel
    else worksheetMergeCells m rest
  | _ :: rest => worksheetMergeCells m rest

/-! ### xls MERGEDCELLS -/

/-- `read_u16(&r[off..])`: the slice `r[off..]` panics when `off > len`, `[..2]` when fewer than 2 bytes remain -/
def readU16At (r : Bytes) (off : Nat) : Res Nat :=
  match r.drop off with
  | a :: b :: _ => .ok (a.toNat + 256 * b.toNat)
  | _ => .panic "slice index out of range"

/-- the `for i in 0..count` loop of `parse_merge_cells` with `k` iterations left (`usize` arithmetic; the
    slices cannot fail after the length check, the model keeps them as they are written) -/
def mcLoop (r : Bytes) : Nat → Nat → Res (List Rect)
  | 0, _ => .ok []
  | k + 1, i =>
      let off := 2 + i * 8
      match readU16At r off with
      | .ok rf =>
        match readU16At r (off + 2) with
        | .ok rl =>
          match readU16At r (off + 4) with
          | .ok cf =>
            match readU16At r (off + 6) with
            | .ok cl =>
              match mcLoop r k (i + 1) with
              | .ok ds => .ok (⟨rf, cf, rl, cl⟩ :: ds)
              | .err e => .err e | .panic e => .panic e | .outOfFuel => .outOfFuel
            | .err e => .err e | .panic e => .panic e | .outOfFuel => .outOfFuel
          | .err e => .err e | .panic e => .panic e | .outOfFuel => .outOfFuel
        | .err e => .err e | .panic e => .panic e | .outOfFuel => .outOfFuel
      | .err e => .err e | .panic e => .panic e | .outOfFuel => .outOfFuel

/-- `parse_merge_cells(r, &mut merge_cells)`: the regions this record appends. A record shorter than the
    `2 + 8·count` bytes it announces is `XlsError::Len` (robustness fix b5774ce, ledger D31; the pinned code
    sliced unchecked and panicked) -/
def parseMergeCells (r : Bytes) : Res (List Rect) :=
  if r.length < 2 then .err "Len:merge cells"
  else
    match readU16At r 0 with
    | .ok count =>
      if r.length < 2 + 8 * count then .err "Len:merge cells" else mcLoop r count 0
    | .err e => .err e | .panic e => .panic e | .outOfFuel => .outOfFuel

/-- the MERGEDCELLS (0x00E5) and EOF (0x000A) arms of the sheet record loop of `parse_workbook` over
    the `(type, payload)` records of a sheet substream. Every other record type is skipped here: their
    parsers do not touch `merge_cells` (they can fail on malformed payloads, which this function does
    not model — the cell records belong to C02). -/
def sheetMergeCells : List (Nat × Bytes) → Res (List Rect)
  | [] => .ok []
  | (typ, data) :: rest =>
    if typ = 0x000A then .ok []
    else if typ = 0x00E5 then
      match parseMergeCells data with
      | .ok ds =>
        match sheetMergeCells rest with
        | .ok more => .ok (ds ++ more)
        | .err e => .err e | .panic e => .panic e | .outOfFuel => .outOfFuel
      | .err e => .err e | .panic e => .panic e | .outOfFuel => .outOfFuel
    else sheetMergeCells rest

/-! ### xlsx tables -/

/-- `str::parse::<u32>()`: optional `+`, at least one digit, digits only, value < 2^32 -/
def parseU32Digits : Bytes → Nat → Res Nat
  | [], acc => .ok acc
  | c :: cs, acc =>
    if 48 ≤ c.toNat ∧ c.toNat ≤ 57 then
      let v := acc * 10 + (c.toNat - 48)
      if v < U32 then parseU32Digits cs v else .err "ParseInt"
    else .err "ParseInt"

def parseU32 (s : Bytes) : Res Nat :=
  match s with
  | [] => .err "ParseInt"
  | c :: cs =>
    if c = 43 then (if cs = [] then .err "ParseInt" else parseU32Digits cs 0)
    else parseU32Digits s 0

/-- `InnerTableMetadata` -/
structure TableMeta where
  displayName : Bytes := []
  refCells : Bytes := []
  headerRowCount : Nat := 1
  insertRow : Bool := false
  totalsRowCount : Nat := 0
  deriving Repr, DecidableEq

/-- the attribute loop of the `table` start element (`insertRow`: anything but `0` / `false` is true) -/
def tableAttrs : List (List Char × Bytes) → TableMeta → Res TableMeta
  | [], t => .ok t
  | (k, v) :: rest, t =>
    if k = nDisplayName then tableAttrs rest { t with displayName := v }
    else if k = nRef then tableAttrs rest { t with refCells := v }
    else if k = nHeaderRowCount then
      match parseU32 v with
      | .ok n => tableAttrs rest { t with headerRowCount := n }
      | .err e => .err e | .panic e => .panic e | .outOfFuel => .outOfFuel
    else if k = nInsertRow then
      tableAttrs rest { t with insertRow := decide (v ≠ [48] ∧ v ≠ [102, 97, 108, 115, 101]) }
    else if k = nTotalsRowCount then
      match parseU32 v with
      | .ok n => tableAttrs rest { t with totalsRowCount := n }
      | .err e => .err e | .panic e => .panic e | .outOfFuel => .outOfFuel
    else tableAttrs rest t

/-- the event loop over a table part: metadata of the `table` element and the `name` of every
    `tableColumn`, up to the `table` end tag -/
def readTablePart : List Ev → TableMeta → List Bytes → Res (TableMeta × List Bytes)
  | [], _, _ => .err "XmlEof"
  | .start n attrs :: rest, t, cols =>
    if localName n = nTable then
      match tableAttrs attrs t with
      | .ok t' => readTablePart rest t' cols
      | .err e => .err e | .panic e => .panic e | .outOfFuel => .outOfFuel
    else if localName n = nTableColumn then
      readTablePart rest t (cols ++ (attrs.filter (fun a => a.1 = nName)).map (·.2))
    else readTablePart rest t cols
  | .end_ n :: rest, t, cols =>
    if localName n = nTable then .ok (t, cols) else readTablePart rest t cols
  | _ :: rest, t, cols => readTablePart rest t cols

/-- the canonical empty data rectangle (rows `1 … 0`) `read_table_metadata` stores for a table without a
    data row -/
def emptyRect (d : Rect) : Rect := ⟨1, d.sc, 0, d.ec⟩

/-- the geometry arithmetic at the end of `read_table_metadata` on an already parsed reference (after fix
    D17 and the robustness fix found by C06/C17): `start.0.checked_add(header)`,
    `end.0.checked_sub(totals)`, then `checked_sub(insert_row as u32)`; when one of them fails or the rows
    left are reversed the table has no data row and gets the empty rectangle. Never panics. -/
def tableDimsOf (d : Rect) (hdr totals : Nat) (insertRow : Bool) : Rect :=
  let ins := if insertRow then 1 else 0
  if d.sr + hdr < U32 ∧ totals + ins ≤ d.er ∧ d.sr + hdr ≤ d.er - totals - ins then
    ⟨d.sr + hdr, d.sc, d.er - totals - ins, d.ec⟩
  else emptyRect d

/-- `get_dimension(ref)` followed by the geometry arithmetic -/
def tableDims (m : Mode) (ref : Bytes) (hdr totals : Nat) (insertRow : Bool) : Res Rect :=
  match getDimension m ref with
  | .ok d => .ok (tableDimsOf d hdr totals insertRow)
  | .err e => .err e | .panic e => .panic e | .outOfFuel => .outOfFuel

/-- `str::rfind('/')` -/
def rfindSlash (s : Bytes) : Option Nat :=
  let n := (s.reverse.takeWhile (· ≠ 47)).length
  if n = s.length then none else some (s.length - 1 - n)

/-- the relationship-type URI of a table part -/
def tableRelType : Bytes :=
  [104, 116, 116, 112, 58, 47, 47, 115, 99, 104, 101, 109, 97, 115, 46, 111, 112, 101, 110, 120, 109, 108,
   102, 111, 114, 109, 97, 116, 115, 46, 111, 114, 103, 47, 111, 102, 102, 105, 99, 101, 68, 111, 99, 117,
   109, 101, 110, 116, 47, 50, 48, 48, 54, 47, 114, 101, 108, 97, 116, 105, 111, 110, 115, 104, 105, 112,
   115, 47, 116, 97, 98, 108, 101]

/-- `rel_path = format!("{}/_rels{}.rels", base_folder, file_name)` with `(base_folder, file_name) =
    sheet_path.split_at(rfind('/'))` -/
def relsPathOf (sheetPath : Bytes) : Res (Bytes × Bytes) :=
  match rfindSlash sheetPath with
  | none => .panic "should be in a folder"
  | some i =>
    let base := sheetPath.take i
    let file := sheetPath.drop i
    .ok (base, base ++ [47, 95, 114, 101, 108, 115] ++ file ++ [46, 114, 101, 108, 115])

/-- what one table relationship contributes to `table_locations`: `../x` is resolved against the parent
    of the sheet's folder (the package root when the sheet part sits directly in `xl/`: fix d0ab106, the
    pinned code panicked there), an absolute part name `/xl/…` loses its leading slash (fix found by C17), any
    other target is taken as an archive entry name -/
def tableLocation (base target : Bytes) : Res (Option Bytes) :=
  if target.take 3 = [46, 46, 47] then
    match rfindSlash base with
    | none => .ok (some (target.drop 3))
    | some i => .ok (some (base.take i ++ target.drop 2))
  else if target = [] then .ok none
  else if target.take 1 = [47] then .ok (some (target.drop 1))
  else .ok (some target)

/-- the attribute loop of a `Relationship` element: `(target, table_type)` -/
def relAttrs : List (List Char × Bytes) → Bytes → Bool → Bytes × Bool
  | [], tg, ty => (tg, ty)
  | (k, v) :: rest, tg, ty =>
    if k = nId then relAttrs rest tg ty
    else if k = nTarget then relAttrs rest v ty
    else if k = nType then relAttrs rest tg (decide (v = tableRelType))
    else relAttrs rest tg ty

/-- the event loop over a sheet's `.rels` part: table part locations in document order -/
def tableLocations (base : Bytes) : List Ev → Res (List Bytes)
  | [] => .err "XmlEof"
  | .start n attrs :: rest =>
    if localName n = nRelationship then
      let (tg, ty) := relAttrs attrs [] false
      if ty then
        match tableLocation base tg with
        | .ok loc =>
          match tableLocations base rest with
          | .ok more => .ok (loc.toList ++ more)
          | .err e => .err e | .panic e => .panic e | .outOfFuel => .outOfFuel
        | .err e => .err e | .panic e => .panic e | .outOfFuel => .outOfFuel
      else tableLocations base rest
    else tableLocations base rest
  | .end_ n :: rest => if localName n = nRelationships then .ok [] else tableLocations base rest
  | _ :: rest => tableLocations base rest

/-- `u8::eq_ignore_ascii_case` on byte strings -/
def lowerByte (c : UInt8) : UInt8 := if 65 ≤ c.toNat ∧ c.toNat ≤ 90 then c + 32 else c
def eqIgnoreCase (a b : Bytes) : Bool := a.map lowerByte = b.map lowerByte

/-- `xml_reader(zip, path)`: the first archive entry whose name matches case-insensitively -/
def findPart (parts : List (Bytes × List Ev)) (path : Bytes) : Option (List Ev) :=
  (parts.find? (fun p => eqIgnoreCase p.1 path)).map (·.2)

/-- one entry of `Xlsx::tables`: `(name, sheet name, column names, data dimensions)` -/
structure TableEntry where
  name : Bytes
  sheet : Bytes
  columns : List Bytes
  dims : Rect
  deriving Repr, DecidableEq

/-- the `for table_file in table_locations` loop -/
def readTables (m : Mode) (parts : List (Bytes × List Ev)) (sheet : Bytes) : List Bytes → Res (List TableEntry)
  | [] => .ok []
  | loc :: rest =>
    match findPart parts loc with
    | none => readTables m parts sheet rest
    | some evs =>
      match readTablePart evs {} [] with
      | .ok (t, cols) =>
        match tableDims m t.refCells t.headerRowCount t.totalsRowCount t.insertRow with
        | .ok d =>
          match readTables m parts sheet rest with
          | .ok more => .ok (⟨t.displayName, sheet, cols, d⟩ :: more)
          | .err e => .err e | .panic e => .panic e | .outOfFuel => .outOfFuel
        | .err e => .err e | .panic e => .panic e | .outOfFuel => .outOfFuel
      | .err e => .err e | .panic e => .panic e | .outOfFuel => .outOfFuel

/-- `read_table_metadata` over the sheet list `(name, path)` and the archive's XML parts -/
def readTableMetadata (m : Mode) (parts : List (Bytes × List Ev)) : List (Bytes × Bytes) → Res (List TableEntry)
  | [] => .ok []
  | (name, path) :: rest =>
    match relsPathOf path with
    | .ok (base, rels) =>
      match findPart parts rels with
      | none => readTableMetadata m parts rest
      | some evs =>
        match tableLocations base evs with
        | .ok locs =>
          match readTables m parts name locs with
          | .ok ts =>
            match readTableMetadata m parts rest with
            | .ok more => .ok (ts ++ more)
            | .err e => .err e | .panic e => .panic e | .outOfFuel => .outOfFuel
          | .err e => .err e | .panic e => .panic e | .outOfFuel => .outOfFuel
        | .err e => .err e | .panic e => .panic e | .outOfFuel => .outOfFuel
    | .err e => .err e | .panic e => .panic e | .outOfFuel => .outOfFuel

/-- `table_names` -/
def tableNames (ts : List TableEntry) : List Bytes := ts.map (·.name)
/-- `table_names_in_sheet` -/
def tableNamesInSheet (ts : List TableEntry) (sheet : Bytes) : List Bytes :=
  (ts.filter (fun t => t.sheet = sheet)).map (·.name)
/-- `get_table_meta`: the first entry with that name -/
def getTableMeta (ts : List TableEntry) (name : Bytes) : Res TableEntry :=
  match ts.find? (fun t => t.name = name) with
  | some t => .ok t
  | none => .err "TableNotFound"

/-- `table_by_name`: `Range::default()` for an empty or reversed rectangle (robustness fix), else
    `range.range(dimensions.start, dimensions.end)` on the sheet's range -/
def tableData {α : Type} [Inhabited α] (range : Range.Rng α) (d : Rect) : Res (Range.Rng α) :=
  if d.sr > d.er ∨ d.sc > d.ec then .ok Range.empty else Range.range range d.sr d.sc d.er d.ec

/-- `Table<T>` (`/repo/src/lib.rs`); its getters `name()`, `sheet_name()`, `columns()`, `data()` are the
    four projections -/
structure Table (α : Type) where
  name : Bytes
  sheetName : Bytes
  columns : List Bytes
  data : Range.Rng α

/-- `impl From<Table<T>> for Range<T>`: `table.data` -/
def Table.toRange {α : Type} (t : Table α) : Range.Rng α := t.data

/-- `table_by_name` and `table_by_name_ref` (the same code over `worksheet_range` resp.
    `worksheet_range_ref`, here the parameter `sheetRange`): `get_table_meta(name)?`, the sheet's range `?`,
    then the data window, wrapped with the metadata -/
def tableByName {α : Type} [Inhabited α] (ts : List TableEntry) (sheetRange : Bytes → Res (Range.Rng α))
    (name : Bytes) : Res (Table α) :=
  match getTableMeta ts name with
  | .ok e =>
    match sheetRange e.sheet with
    | .ok r =>
      match tableData r e.dims with
      | .ok d => .ok ⟨e.name, e.sheet, e.columns, d⟩
      | .err x => .err x | .panic x => .panic x | .outOfFuel => .outOfFuel
    | .err x => .err x | .panic x => .panic x | .outOfFuel => .outOfFuel
  | .err x => .err x | .panic x => .panic x | .outOfFuel => .outOfFuel

/-- `Xlsx::worksheet_merge_cells(name)`: the first sheet with that name (`None` if there is none), its part
    (`None` if the archive lacks it), then the event loop -/
def worksheetMergeCellsByName (m : Mode) (sheets : List SheetPart) (name : Bytes) : Option (Res (List Rect)) :=
  match sheets.find? (fun s => s.name = name) with
  | none => none
  | some s => s.events.map (worksheetMergeCells m)

/-- `worksheet_merge_cells_at(n)` of `Xlsx` and of `Xls`: the name of the `n`-th sheet of the metadata, then
    the lookup by name -/
def worksheetMergeCellsAt {κ β : Type} (names : List κ) (byName : κ → Option β) (n : Nat) : Option β :=
  names[n]?.bind byName

end Geometry
