/-! Mirror of `enum CellErrorType` (`src/lib.rs`), variants in declaration order. Kept in its own import-free file
    so that the generated table (`Gen/XlsxErrors.lean`) can refer to it; the translator checks on every run that the
    Rust enum still has exactly these variants, in this order. -/

inductive CellErrorType where
  | div0
  | nA
  | name
  | null
  | num
  | ref
  | value
  | gettingData
  deriving DecidableEq, Repr, Inhabited

namespace CellErrorType

/-- index of the variant in declaration order (the canonical wire form `E:<code>`) -/
def code : CellErrorType → Nat
  | div0 => 0 | nA => 1 | name => 2 | null => 3 | num => 4 | ref => 5 | value => 6 | gettingData => 7

end CellErrorType
