import CalVerif.Prim.Res
import CalVerif.Model.Range
import CalVerif.Model.BiffStrings
import CalVerif.Model.Formats
import CalVerif.Model.De
/-! Model of the BIFF8 cell-record layer of `/repo/src/xls.rs` (property C02).

    Mirrors, function by function:
      `rk_num`                         → `rkNum` (the 32-bit RK word), `rkNumAt` (ixfe + word inside a record)
      `format_excel_f64/i64`           → `fmtF64`, `fmtI64` (formats.rs)
      `parse_number` `parse_rk` `parse_mul_rk` `parse_bool_err` `parse_err` `parse_label`
      `parse_label_sst` `parse_dimensions` `parse_merge_cells` `parse_formula_value`
                                       → `parseNumber` … `parseFormulaValue`
      the worksheet `match r.typ` of `parse_workbook` → `step`; the `for record in records` loop with its
      `record?` and `break` at EOF     → `items` (lazy `RecordIter`) + `sheetLoop`; `Range::from_sparse` is
      `Range.fromSparse` (Model/Range.lean), called on the cells and then on the `formulas` vector
      (`formulaCells`, `withFormulaRange`: only its panic is observable here). The per-sheet loop carries the
      workbook-wide scan counter of fix edc415f: `sheetLoopS`, `sheetRangeS`, `workbookSheets`.
    Framing (`RecordIter::next` with CONTINUE gathering) and `parse_string` are the definitions of
    Model/BiffStrings.lean (`Biff.nextRecord`, `Biff.parseStringWith`), shared with C12.

    Floats are 64-bit patterns (`Nat`). `v as f64` is `De.intToF64` (Model/De.lean: the exact bit-level
    i64 → f64 conversion, round to nearest even). `x / 100.0` is NOT modelled (IEEE division): it is the
    field of `FOps`, every definition and theorem is parametric in it and the driver instantiates it with
    the native operation. `CellFormat`, `DtKind` and the wrap decision are C10's (`Model/CellFormat.lean`,
    `Model/Formats.lean`): `fmtF64`/`fmtI64` are `Formats.formatF64`/`formatI64` on `Nat` bit patterns
    (`fmtF64_formatF64`, `fmtI64_formatI64` in Props/C02).

    Text is a list of Unicode scalar values (see BiffStrings). Code page 1200 (the only legal one in BIFF8). -/

namespace BiffCells
open Biff

/-- the float operation of `rk_num` that is not modelled, on bit patterns -/
structure FOps where
  /-- `x / 100.0` -/
  div100 : Nat → Nat

/-- `v as f64` for an `i64`: the exact conversion of Model/De.lean -/
def i2f (v : Int) : Nat := De.intToF64 v

/-- `CellErrorType` -/
inductive ErrKind where
  | null | div0 | value | ref | name | num | na | gettingData
  deriving Repr, DecidableEq

/-- `ExcelDateTimeType`, as in C10's model -/
abbrev DtKind := Formats.DtKind

/-- `Data` (the variants the xls reader produces) -/
inductive Val where
  | empty
  | int (v : Int)
  | float (bits : Nat)
  | str (s : List Nat)
  | bool (b : Bool)
  | error (k : ErrKind)
  | dt (bits : Nat) (k : DtKind) (is1904 : Bool)
  deriving Repr, DecidableEq

instance : Inhabited Val := ⟨.empty⟩

/-- `Cell<Data>`: (row, col, value) — the element type `Range.fromSparse` takes -/
abbrev Cell := Nat × Nat × Val

/-- what the sheet loop reads besides the records -/
structure Env where
  ops : FOps
  /-- `self.formats`: the `CellFormat` of every XF record, index = ixfe -/
  fmts : List CellFormat
  is1904 : Bool
  /-- the shared string table -/
  strings : List (List Nat)

/-! ### byte readers (`utils::read_*` on a slice whose length was checked by the caller) -/

def byteAt (b : Bytes) (i : Nat) : Nat := (b.getD i 0).toNat
def u16At (b : Bytes) (i : Nat) : Nat := u16 (b.drop i)
def u32At (b : Bytes) (i : Nat) : Nat := u32 (b.drop i)
/-- `read_f64` as a bit pattern -/
def u64At (b : Bytes) (i : Nat) : Nat := u32At b i + 4294967296 * u32At b (i + 4)

/-! ### number typing -/

/-- `format_excel_f64` -/
def fmtF64 (bits : Nat) (fmt : Option CellFormat) (is1904 : Bool) : Val :=
  match fmt with
  | some .dateTime => .dt bits .dateTime is1904
  | some .timeDelta => .dt bits .timeDelta is1904
  | _ => .float bits

/-- `format_excel_i64`: a date/time format turns the integer into the serial `value as f64` -/
def fmtI64 (v : Int) (fmt : Option CellFormat) (is1904 : Bool) : Val :=
  match fmt with
  | some .dateTime => .dt (i2f v) .dateTime is1904
  | some .timeDelta => .dt (i2f v) .timeDelta is1904
  | _ => .int v

/-- result of RK decoding before number-format typing -/
inductive Num where
  | int (v : Int)
  | float (bits : Nat)
  deriving Repr, DecidableEq

/-- `rk_num` on the RK word `w` (little-endian `rk[2..6]`), before the format is applied.
    `b0` is `rk[2]`: `d100 = rk[2] & 1`, `is_int = rk[2] & 2`, `v[4] &= 0xFC`.
    Integer arm: `read_i32(..) >> 2` (arithmetic shift), `v % 100 != 0` and `v / 100` are Rust's
    truncating `%` and `/`. Float arm: the word is the high half of a double whose low half is zero. -/
def rkNum (ops : FOps) (w : Nat) : Num :=
  let b0 := w % 256
  let d100 := (b0 &&& 1) != 0
  let isInt := (b0 &&& 2) != 0
  let m := (b0 &&& 0xFC) + 256 * (w / 256)
  if isInt then
    let i32 : Int := if m < 2147483648 then (m : Int) else (m : Int) - 4294967296
    let v : Int := i32 >>> 2
    if d100 && Int.tmod v 100 != 0 then .float (ops.div100 (i2f v))
    else .int (if d100 then Int.tdiv v 100 else v)
  else
    let bits := m * 4294967296
    .float (if d100 then ops.div100 bits else bits)

/-- `format_excel_f64` / `format_excel_i64` applied to the decoded RK value -/
def fmtNum (n : Num) (fmt : Option CellFormat) (is1904 : Bool) : Val :=
  match n with
  | .int v => fmtI64 v fmt is1904
  | .float b => fmtF64 b fmt is1904

/-- `rk_num(&r[off..off+6], formats, is_1904)`: ixfe then the RK word -/
def rkNumAt (env : Env) (b : Bytes) (off : Nat) : Val :=
  fmtNum (rkNum env.ops (u32At b (off + 2))) env.fmts[u16At b off]? env.is1904

/-! ### cell records -/

/-- `parse_number` -/
def parseNumber (env : Env) (r : Bytes) : Res Cell :=
  if r.length < 14 then .err "Len:number"
  else .ok (u16At r 0, u16At r 2, fmtF64 (u64At r 6) env.fmts[u16At r 4]? env.is1904)

/-- `parse_err` -/
def parseErr (e : Nat) : Res Val :=
  if e = 0x00 then .ok (.error .null)
  else if e = 0x07 then .ok (.error .div0)
  else if e = 0x0F then .ok (.error .value)
  else if e = 0x17 then .ok (.error .ref)
  else if e = 0x1D then .ok (.error .name)
  else if e = 0x24 then .ok (.error .num)
  else if e = 0x2A then .ok (.error .na)
  else if e = 0x2B then .ok (.error .gettingData)
  else .err "Unrecognized:error"

/-- `parse_bool_err` -/
def parseBoolErr (r : Bytes) : Res Cell :=
  if r.length < 8 then .err "Len:BoolErr"
  else if byteAt r 7 = 0 then .ok (u16At r 0, u16At r 2, .bool (byteAt r 6 != 0))
  else if byteAt r 7 = 1 then
    match parseErr (byteAt r 6) with
    | .ok v => .ok (u16At r 0, u16At r 2, v)
    | .err e => .err e
    | .panic s => .panic s
    | .outOfFuel => .outOfFuel
  else .err "Unrecognized:fError"

/-- `parse_rk` -/
def parseRk (env : Env) (r : Bytes) : Res Cell :=
  if r.length < 10 then .err "Len:rk"
  else .ok (u16At r 0, u16At r 2, rkNumAt env r 4)

/-- the `for rk in r[4..r.len() - 2].chunks(6)` loop of `parse_mul_rk`, `n` chunks from offset `off` -/
def mulRkLoop (env : Env) (r : Bytes) (row : Nat) : Nat → Nat → Nat → List Cell
  | 0, _, _ => []
  | n + 1, off, col => (row, col, rkNumAt env r off) :: mulRkLoop env r row n (off + 6) (col + 1)

/-- `parse_mul_rk` (after the D31 fix: `col_last < col_first` and a length that disagrees are `Len` errors) -/
def parseMulRk (env : Env) (r : Bytes) : Res (List Cell) :=
  if r.length < 6 then .err "Len:rk"
  else
    let colFirst := u16At r 2
    let colLast := u16At r (r.length - 2)
    if colLast < colFirst ∨ r.length ≠ 6 + 6 * (colLast + 1 - colFirst) then .err "Len:rk"
    else .ok (mulRkLoop env r (u16At r 0) (colLast + 1 - colFirst) 4 colFirst)

/-- `parse_label` (BIFF8; `parse_string` after the D36 fix: an XLUnicodeString is at least 3 bytes) -/
def parseLabel (r : Bytes) : Res Cell :=
  if r.length < 6 then .err "Len:label"
  else
    match parseStringWith 3 (r.drop 6) true with
    | .ok s => .ok (u16At r 0, u16At r 2, .str s)
    | .err _ => .err "Len:string"
    | .panic s => .panic s
    | .outOfFuel => .outOfFuel

/-- `parse_label_sst`: an index beyond the table gives no cell (an empty shared string is a `String("")` cell
    since fix b90dd43; the pinned code dropped it) -/
def parseLabelSst (env : Env) (r : Bytes) : Res (Option Cell) :=
  if r.length < 10 then .err "Len:label sst"
  else
    match env.strings[u32At r 6]? with
    | some s => .ok (some (u16At r 0, u16At r 2, .str s))
    | none => .ok none

/-- `parse_dimensions`: only its error matters for the cells (the result feeds `Vec::reserve`) -/
def parseDimensions (r : Bytes) : Res (Nat × Nat × Nat × Nat) :=
  if r.length = 10 then
    let (rf, rl, cf, cl) := (u16At r 0, u16At r 2, u16At r 4, u16At r 6)
    if 1 ≤ rl ∧ 1 ≤ cl then .ok (rf, cf, rl - 1, cl - 1) else .ok (rf, cf, rf, cf)
  else if r.length = 14 then
    let (rf, rl, cf, cl) := (u32At r 0, u32At r 4, u16At r 8, u16At r 10)
    if 1 ≤ rl ∧ 1 ≤ cl then .ok (rf, cf, rl - 1, cl - 1) else .ok (rf, cf, rf, cf)
  else .err "Len:dimensions"

/-- `parse_merge_cells` reads `2 + 8·count` bytes; a record shorter than that is `XlsError::Len` (length
    checks added by the robustness fix for ledger D31 — the pinned code slice-indexed and panicked) -/
def parseMergeCells (r : Bytes) : Res Unit :=
  if r.length < 2 then .err "Len:merge cells"
  else if r.length < 2 + 8 * u16At r 0 then .err "Len:merge cells"
  else .ok ()

/-- `parse_formula_value` on the 8 bytes `r.data[6..14]` of a FORMULA record (at offset 6 of `r`).
    `none` = string result, delivered by the STRING record that follows. -/
def parseFormulaValue (r : Bytes) : Res (Option Val) :=
  if byteAt r 12 = 0xFF ∧ byteAt r 13 = 0xFF then
    if byteAt r 6 = 0 then .ok none
    else if byteAt r 6 = 1 then .ok (some (.bool (byteAt r 8 != 0)))
    else if byteAt r 6 = 2 then
      match parseErr (byteAt r 8) with
      | .ok v => .ok (some v)
      | .err e => .err e
      | .panic s => .panic s
      | .outOfFuel => .outOfFuel
    else if byteAt r 6 = 3 then .ok (some (.str []))
    else .err "Unrecognized:error"
  else .ok (some (.float (u64At r 6)))

/-- a numeric cached result is typed by the cell's XF like NUMBER / RK cells (`format_excel_f64`);
    booleans, errors and strings are kept as they are -/
def typeCached (env : Env) (ixfe : Nat) : Val → Val
  | .float b => fmtF64 b env.fmts[ixfe]? env.is1904
  | v => v

/-- the state of the worksheet loop: `cells` (in push order) and `fmla_pos` -/
structure St where
  cells : List Cell
  fmla : Nat × Nat
  deriving Repr

/-- one arm of the worksheet `match r.typ`. (The FORMULA arm also hands `r.data[20..]` to `parse_formula`,
    whose result only feeds the formula range: a record too short for its own `cce` makes `parse_formula`
    return `XlsError::Len` (checked since the robustness fix), which the arm swallows into the formula text
    "Unrecognised formula …" — the cell range is unaffected. The token decoder itself belongs to C14 and is
    assumed not to panic on the rgce the generators emit.) -/
def step (env : Env) (st : St) (r : Rec) : Res St :=
  if r.typ = 0x0200 then
    match parseDimensions r.data with
    | .ok _ => .ok st
    | .err e => .err e
    | .panic s => .panic s
    | .outOfFuel => .outOfFuel
  else if r.typ = 0x0203 then
    match parseNumber env r.data with
    | .ok c => .ok { st with cells := st.cells ++ [c] }
    | .err e => .err e
    | .panic s => .panic s
    | .outOfFuel => .outOfFuel
  else if r.typ = 0x0204 then
    match parseLabel r.data with
    | .ok c => .ok { st with cells := st.cells ++ [c] }
    | .err e => .err e
    | .panic s => .panic s
    | .outOfFuel => .outOfFuel
  else if r.typ = 0x0205 then
    match parseBoolErr r.data with
    | .ok c => .ok { st with cells := st.cells ++ [c] }
    | .err e => .err e
    | .panic s => .panic s
    | .outOfFuel => .outOfFuel
  else if r.typ = 0x0207 then
    match parseStringWith 3 r.data true with
    | .ok s => .ok { st with cells := st.cells ++ [(st.fmla.1, st.fmla.2, .str s)] }
    | .err _ => .err "Len:string"
    | .panic s => .panic s
    | .outOfFuel => .outOfFuel
  else if r.typ = 0x027E then
    match parseRk env r.data with
    | .ok c => .ok { st with cells := st.cells ++ [c] }
    | .err e => .err e
    | .panic s => .panic s
    | .outOfFuel => .outOfFuel
  else if r.typ = 0x00FD then
    match parseLabelSst env r.data with
    | .ok (some c) => .ok { st with cells := st.cells ++ [c] }
    | .ok none => .ok st
    | .err e => .err e
    | .panic s => .panic s
    | .outOfFuel => .outOfFuel
  else if r.typ = 0x00BD then
    match parseMulRk env r.data with
    | .ok cs => .ok { st with cells := st.cells ++ cs }
    | .err e => .err e
    | .panic s => .panic s
    | .outOfFuel => .outOfFuel
  else if r.typ = 0x00E5 then
    match parseMergeCells r.data with
    | .ok _ => .ok st
    | .err e => .err e
    | .panic s => .panic s
    | .outOfFuel => .outOfFuel
  else if r.typ = 0x0006 then
    if r.data.length < 20 then .err "Len:Formula"
    else
      let pos := (u16At r.data 0, u16At r.data 2)
      match parseFormulaValue r.data with
      | .ok v =>
        match v with
        | some v => .ok { cells := st.cells ++ [(pos.1, pos.2, typeCached env (u16At r.data 4) v)], fmla := pos }
        | none => .ok { st with fmla := pos }
      | .err e => .err e
      | .panic s => .panic s
      | .outOfFuel => .outOfFuel
  else .ok st

/-! ### the record iterator and the worksheet loop -/

/-- what `RecordIter` yields: a record, or an `Err` item (then the loop's `record?` returns) -/
inductive Item where
  | record : Rec → Item
  | fail : Res Unit → Item
  deriving Repr

/-- `RecordIter` unfolded lazily; every record consumes at least 4 bytes, `fuel` bounds the count -/
def itemsF : Nat → Bytes → List Item
  | 0, _ => [.fail .outOfFuel]
  | fuel + 1, s =>
    match nextRecord s with
    | none => []
    | some (.ok (r, rest)) => .record r :: itemsF fuel rest
    | some (.err e) => [.fail (.err e)]
    | some (.panic e) => [.fail (.panic e)]
    | some .outOfFuel => [.fail .outOfFuel]

def items (s : Bytes) : List Item := itemsF (s.length / 4 + 1) s

def failAs {α : Type} : Res Unit → Res α
  | .ok _ => .err "unreachable"
  | .err e => .err e
  | .panic s => .panic s
  | .outOfFuel => .outOfFuel

/-- `for record in records { let r = record?; match r.typ { …, 0x000A => break, … } }` -/
def sheetLoop (env : Env) : List Item → St → Res (List Cell)
  | [], st => .ok st.cells
  | .fail e :: _, _ => failAs e
  | .record r :: rest, st =>
    if r.typ = 0x000A then .ok st.cells
    else
      match step env st r with
      | .ok st' => sheetLoop env rest st'
      | .err e => .err e
      | .panic s => .panic s
      | .outOfFuel => .outOfFuel

/-- the cells of a worksheet, from its records -/
def decodeSheet (env : Env) (its : List Item) : Res (List Cell) :=
  sheetLoop env its ⟨[], (0, 0)⟩

/-- the worksheet's `Range<Data>`: `Range::from_sparse(cells)` -/
def rangeOf (cells : Res (List Cell)) : Res (Range.Rng Val) :=
  match cells with
  | .ok cs => Range.fromSparse cs
  | .err e => .err e
  | .panic s => .panic s
  | .outOfFuel => .outOfFuel

/-- the `formulas` vector of the loop: one entry (the position; the text is C14's business) per FORMULA record
    that was processed, i.e. before EOF. Only meaningful when the loop itself succeeded. -/
def formulaCells : List Item → List (Nat × Nat × Nat)
  | [] => []
  | .fail _ :: _ => []
  | .record r :: rest =>
    if r.typ = 0x000A then []
    else if r.typ = 0x0006 then (u16At r.data 0, u16At r.data 2, 1) :: formulaCells rest
    else formulaCells rest

/-- `let range = Range::from_sparse(cells); let formula = Range::from_sparse(formulas);` — the second call
    cannot change the cell range but it can panic (FORMULA records out of row order) -/
def withFormulaRange (its : List Item) (r : Res (Range.Rng Val)) : Res (Range.Rng Val) :=
  match r with
  | .ok rng =>
    match (Range.fromSparse (formulaCells its) : Res (Range.Rng Nat)) with
    | .ok _ => .ok rng
    | .err e => .err e
    | .panic s => .panic s
    | .outOfFuel => .outOfFuel
  | other => other

/-- a worksheet substream (from its BOF, as `&stream[pos..]`) to its range — the sheet loop WITHOUT the scan
    counter of `parse_workbook` (see `sheetRangeS` / `workbookSheets` below, which mirror the code with it).
    `sheetRangeS_eq` (Lemmas/BiffScan.lean): the two agree whenever the budget is not exhausted, which a single
    substream (`n + s.length ≤ limit`) can never do. -/
def sheetRange (env : Env) (s : Bytes) : Res (Range.Rng Val) :=
  withFormulaRange (items s) (rangeOf (decodeSheet env (items s)))

/-! ### the scan counter of `parse_workbook` (fix edc415f)

    `let scan_limit = stream.len().saturating_mul(8).saturating_add(1 << 16); let mut scanned = 0usize;` then, in
    the record loop of EVERY sheet, right after `let r = record?;` and before the `match r.typ` (so the EOF record
    counts too): `scanned = scanned.saturating_add(r.data.len() + 4); if scanned > scan_limit { return Err(EoStream(..)) }`.
    `usize` saturation is out of reach (a stream of 2^60 bytes): plain `Nat` arithmetic. -/

/-- `r.data.len() + 4`: the first fragment and the header, CONTINUE fragments are not counted -/
def recCost (r : Rec) : Nat := r.data.length + 4

/-- `scan_limit` -/
def scanLimit (streamLen : Nat) : Nat := 8 * streamLen + 65536

/-- the worksheet loop with the counter threaded: returns the cells and the counter -/
def sheetLoopS (env : Env) (limit : Nat) : List Item → St → Nat → Res (List Cell × Nat)
  | [], st, n => .ok (st.cells, n)
  | .fail e :: _, _, _ => failAs e
  | .record r :: rest, st, n =>
    if n + recCost r > limit then .err "EoStream:overlapping sheet substreams"
    else if r.typ = 0x000A then .ok (st.cells, n + recCost r)
    else
      match step env st r with
      | .ok st' => sheetLoopS env limit rest st' (n + recCost r)
      | .err e => .err e
      | .panic s => .panic s
      | .outOfFuel => .outOfFuel

/-- one sheet of `parse_workbook`: the loop, then the two `from_sparse` calls; the counter goes on to the next sheet -/
def sheetRangeS (env : Env) (limit : Nat) (s : Bytes) (n : Nat) : Res (Range.Rng Val × Nat) :=
  match sheetLoopS env limit (items s) ⟨[], (0, 0)⟩ n with
  | .ok (cells, n') =>
    match withFormulaRange (items s) (Range.fromSparse cells) with
    | .ok r => .ok (r, n')
    | .err e => .err e
    | .panic m => .panic m
    | .outOfFuel => .outOfFuel
  | .err e => .err e
  | .panic m => .panic m
  | .outOfFuel => .outOfFuel

/-- `for (pos, name) in sheet_names { let sh = stream.get(pos..).ok_or(EoStream("sheet substream offset"))?; … }`:
    the ranges of all sheets in BoundSheet8 order, the counter shared by all of them -/
def sheetsFrom (env : Env) (stream : Bytes) : List Nat → Nat → Res (List (Range.Rng Val))
  | [], _ => .ok []
  | pos :: ps, n =>
    if stream.length < pos then .err "EoStream:sheet substream offset"
    else
      match sheetRangeS env (scanLimit stream.length) (stream.drop pos) n with
      | .ok (r, n') =>
        match sheetsFrom env stream ps n' with
        | .ok rs => .ok (r :: rs)
        | .err e => .err e
        | .panic m => .panic m
        | .outOfFuel => .outOfFuel
      | .err e => .err e
      | .panic m => .panic m
      | .outOfFuel => .outOfFuel

/-- the sheet part of `parse_workbook`: `offsets` = the lbPlyPos of the BoundSheet8 records, in their order -/
def workbookSheets (env : Env) (stream : Bytes) (offsets : List Nat) : Res (List (Range.Rng Val)) :=
  sheetsFrom env stream offsets 0

/-! #### work: how many times the body of the record loop runs (a cost model of the same recursion) -/

/-- number of records the loop of one sheet takes from `RecordIter` and counts (the one that trips the limit included) -/
def sheetLoopWork (env : Env) (limit : Nat) : List Item → St → Nat → Nat
  | [], _, _ => 0
  | .fail _ :: _, _, _ => 0
  | .record r :: rest, st, n =>
    1 + (if n + recCost r > limit then 0
         else if r.typ = 0x000A then 0
         else
           match step env st r with
           | .ok st' => sheetLoopWork env limit rest st' (n + recCost r)
           | _ => 0)

/-- … over all sheets, stopping where `sheetsFrom` stops -/
def sheetsWork (env : Env) (stream : Bytes) : List Nat → Nat → Nat
  | [], _ => 0
  | pos :: ps, n =>
    if stream.length < pos then 0
    else
      sheetLoopWork env (scanLimit stream.length) (items (stream.drop pos)) ⟨[], (0, 0)⟩ n +
        (match sheetRangeS env (scanLimit stream.length) (stream.drop pos) n with
         | .ok (_, n') => sheetsWork env stream ps n'
         | _ => 0)

end BiffCells
