import CalVerif.Model.Metadata
import CalVerif.Model.Xlsb
import CalVerif.Model.Biff
import CalVerif.Model.XlsxCells
import CalVerif.Spec.XlsxSheet
/-! "Open, then read a sheet": the composition of the workbook-level model (this property, `Model/Metadata.lean`) with
    the cell-reader models of C03 (xlsb), C02 (xls) and C01 (xlsx). The point is where the cell readers take the
    date-system flag from: from the state that opening the workbook produced, as in the code —

      xlsb  `Xlsb::new` → `read_workbook` sets `self.is_1904`; `worksheet_range` → `worksheet_cells_reader(name)` →
            `XlsbCellsReader::new(iter, &self.formats, &self.strings, …, self.is_1904)`
      xls   `Xls::new` → `parse_workbook`: the globals loop sets `self.is_1904`, then every sheet substream
            `&stream[pos..]` is read with `parse_number / parse_rk / parse_mul_rk (r, &self.formats, self.is_1904)`
      xlsx  `Xlsx::new` → `read_workbook` sets `self.is_1904`; `worksheet_range` → `worksheet_cells_reader(name)` →
            `XlsxCellReader::new(xml, strings, formats, is_1904)`; the value typing `format_excel_f64_ref(v, fmt, is_1904)`

    The style tables (`formats`), shared strings and, for xlsx, `str::parse::<f64>` come from other parts of the
    file (C10, C12/C19, std) and are parameters here. -/

namespace Meta

/-- the context `worksheet_cells_reader` builds for the xlsb cell reader -/
def xlsbCtx (wb : Workbook Text) (formats : List Nat) (strings : List (List Nat)) : Xlsb.Ctx :=
  ⟨formats, strings, wb.is1904⟩

/-- `Xlsb::new` (workbook part) then `worksheet_range` of the sheet whose part holds `part` -/
def openReadXlsb (pf : Bytes → List Text → List (Text × Text) → Res Text) (rels : List (Text × String))
    (workbookBin : Bytes) (formats : List Nat) (strings : List (List Nat)) (part : Bytes) : Res (Range.Rng Xlsb.Val) :=
  match readWorkbookXlsb pf rels workbookBin with
  | .ok (wb, _) => Xlsb.decodeSheet (xlsbCtx wb formats strings) part
  | .err e => .err e
  | .panic e => .panic e
  | .outOfFuel => .outOfFuel

/-- the environment the xls sheet loop reads its cells in -/
def xlsEnv (wb : Workbook Text) (ops : BiffCells.FOps) (fmts : List CellFormat) (strings : List (List Nat)) : BiffCells.Env :=
  ⟨ops, fmts, wb.is1904, strings⟩

/-- `parse_workbook`: the globals, then the substream of the sheet declared at stream offset `pos` -/
def openReadXls (pd : Bytes → Res (Option Nat × Text)) (stream : Bytes) (ops : BiffCells.FOps) (fmts : List CellFormat)
    (strings : List (List Nat)) (pos : Nat) : Res (Range.Rng BiffCells.Val) :=
  match parseWorkbookXls pd stream with
  | .ok wb => BiffCells.sheetRange (xlsEnv wb ops fmts strings) (stream.drop pos)
  | .err e => .err e
  | .panic e => .panic e
  | .outOfFuel => .outOfFuel

/-- what the xlsx cell reader takes from outside the sheet part when it types a number -/
def xlsxEnv (wb : Workbook String) (parse : XlsxCells.Bytes → Option UInt64) : XlsxSheet.NumEnv := ⟨parse, wb.is1904⟩

/-- `Xlsx::new` (workbook part) then `worksheet_range` of a sheet part given as events, each cell seen as `Data`
    (`toData`: the number typing `format_excel_f64_ref(v, fmt, is_1904)`) at position `(p, q)` -/
def openReadXlsx (rels : List (String × String)) (workbookEvents : List Ev) (cfg : XlsxCells.Cfg)
    (parse : XlsxCells.Bytes → Option UInt64) (sheetEvents : List XlsxCells.Ev) (p q : Nat) : Res XlsxSheet.Data :=
  match readWorkbookXlsx rels workbookEvents with
  | .ok (wb, _) =>
    match XlsxCells.worksheetRange cfg sheetEvents with
    | .ok rg => XlsxSheet.toData (xlsxEnv wb parse) (rg.valAt p q)
    | .err e => .err e
    | .panic e => .panic e
    | .outOfFuel => .outOfFuel
  | .err e => .err e
  | .panic e => .panic e
  | .outOfFuel => .outOfFuel

end Meta
