import CalVerif.Model.Range
/-! Model of the double-ended iterators of `calamine::Range` (`/repo/src/lib.rs`: `Cells`, `UsedCells`, `Rows`).

    `Cells` and `UsedCells` hold `inner: Enumerate<slice::Iter<T>>` and the width; std's `Enumerate<slice::Iter>`
    is a window of `(index, &value)` pairs that shrinks from either end. The state here is exactly that window
    (the not-yet-consumed pairs); the coordinates `(i / width, i % width)` are computed when an item is yielded,
    as in the Rust code. `Rows` holds `Option<slice::Chunks>`: the window of not-yet-consumed rows.

    `next` / `next_back` return the yielded item and the new state (`&mut self` → state passing). -/

namespace Range

variable {α : Type} [Inhabited α]

/-- `slice.iter().enumerate()` collected, starting at index `i` -/
def enumFrom : Nat → List α → List (Nat × α)
  | _, [] => []
  | i, v :: rest => (i, v) :: enumFrom (i + 1) rest

structure CellIt (α : Type) where
  width : Nat
  rest : List (Nat × α)

/-- `Range::cells` / `Range::used_cells`: `self.inner.iter().enumerate()` + `self.width()` -/
def cellsIter (r : Rng α) : CellIt α := ⟨r.width, enumFrom 0 r.inner⟩

/-- the closure of `next` / `next_back`: `(i / self.width, i % self.width, v)` -/
def CellIt.yield (it : CellIt α) (p : Nat × α) : Nat × Nat × α := (p.1 / it.width, p.1 % it.width, p.2)

/-- `Cells::next` -/
def CellIt.next (it : CellIt α) : Option (Nat × Nat × α) × CellIt α :=
  match it.rest with
  | [] => (none, it)
  | p :: tl => (some (it.yield p), { it with rest := tl })

/-- `Cells::next_back` -/
def CellIt.nextBack (it : CellIt α) : Option (Nat × Nat × α) × CellIt α :=
  match it.rest.getLast? with
  | none => (none, it)
  | some p => (some (it.yield p), { it with rest := it.rest.dropLast })

/-- `ExactSizeIterator::len` / `size_hint` of `Cells` -/
def CellIt.len (it : CellIt α) : Nat := it.rest.length

/-- `UsedCells::next`: `self.inner.by_ref().find(|(_, v)| v != &T::default())` — the skipped pairs are consumed;
    when nothing is found the window is exhausted -/
def CellIt.nextUsed [DecidableEq α] (it : CellIt α) : Option (Nat × Nat × α) × CellIt α :=
  match it.rest.dropWhile (fun p => decide (p.2 = default)) with
  | [] => (none, { it with rest := [] })
  | p :: tl => (some (it.yield p), { it with rest := tl })

/-- `UsedCells::next_back`: `rfind` -/
def CellIt.nextBackUsed [DecidableEq α] (it : CellIt α) : Option (Nat × Nat × α) × CellIt α :=
  match it.rest.reverse.dropWhile (fun p => decide (p.2 = default)) with
  | [] => (none, { it with rest := [] })
  | p :: tl => (some (it.yield p), { it with rest := tl.reverse })

/-- a consumption history: `true` = `next`, `false` = `next_back`; the trace records what each call returned -/
def CellIt.consume (nx nb : CellIt α → Option (Nat × Nat × α) × CellIt α) :
    List Bool → CellIt α → List (Bool × Option (Nat × Nat × α)) × CellIt α
  | [], it => ([], it)
  | d :: ds, it =>
    let (o, it') := if d then nx it else nb it
    let (tr, itf) := CellIt.consume nx nb ds it'
    ((d, o) :: tr, itf)

/-- items a trace yielded from the front, in call order -/
def fronts {β : Type} (tr : List (Bool × Option β)) : List β :=
  tr.filterMap fun x => if x.1 then x.2 else none

/-- items a trace yielded from the back, in call order -/
def backs {β : Type} (tr : List (Bool × Option β)) : List β :=
  tr.filterMap fun x => if x.1 then none else x.2

/-- one call on a double-ended iterator. None of the three iterators overrides `nth` / `nth_back`, so std's default
    applies: `advance_by(k)` (that is `k` calls of `next`, results dropped) followed by one `next` -/
inductive Act where
  | next | nextBack | nth (k : Nat) | nthBack (k : Nat)

/-- the `next` / `next_back` calls an action stands for, with a flag: is the result handed to the caller -/
def Act.expand : Act → List (Bool × Bool)
  | .next => [(true, true)]
  | .nextBack => [(false, true)]
  | .nth k => List.replicate k (true, false) ++ [(true, true)]
  | .nthBack k => List.replicate k (false, false) ++ [(false, true)]

/-- what the caller sees of a trace of primitive calls: the results of the flagged calls -/
def visible {β : Type} (flags : List Bool) (tr : List (Bool × Option β)) : List (Bool × Option β) :=
  (tr.zip flags).filterMap fun x => if x.2 then some x.1 else none

/-! `Rows`: `Option<Chunks>`; the window of remaining rows -/

/-- `Rows::next` / `Rows::next_back` on the window of remaining rows (`slice::Chunks` is a double-ended,
    exact-size iterator over the chunks of `Range::rows`) -/
def rowsConsume : List Bool → List (List α) → List (Bool × Option (List α)) × List (List α)
  | [], w => ([], w)
  | true :: ds, [] => let (tr, wf) := rowsConsume ds []; ((true, none) :: tr, wf)
  | true :: ds, x :: tl => let (tr, wf) := rowsConsume ds tl; ((true, some x) :: tr, wf)
  | false :: ds, w =>
    match w.getLast? with
    | none => let (tr, wf) := rowsConsume ds w; ((false, none) :: tr, wf)
    | some x => let (tr, wf) := rowsConsume ds w.dropLast; ((false, some x) :: tr, wf)

end Range
