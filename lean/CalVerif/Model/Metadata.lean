import CalVerif.Prim.Res
import CalVerif.Model.SheetTypes
import CalVerif.Gen.SheetCodes
import CalVerif.Model.BiffStrings
import CalVerif.Model.Xlsb
/-! Model of the workbook-level metadata readers (property C16): sheet list (name, kind, visibility) in
    workbook order, defined names, date-system flag.

    Mirrors, function by function:
      `xls.rs`       `parse_sheet_metadata`            → `parseSheetMetadata`  (tables: `Gen.xlsVisTable`, `Gen.xlsKindTable`, `Gen.xlsVisMask`)
                     `read_unicode_string_no_cch`      → `readUnicodeStringNoCch` (after fix D35; `…D35` = the pinned snapshot)
                     `parse_bof`                       → `parseBof`
                     the Lbl / ExternSheet arms        → `parseLbl`, `parseExternSheet`
                     the globals loop of `parse_workbook` → `xlsStep`, `xlsGlobals`; the defined-name post-processing → `resolveName`;
                                                          the whole → `parseWorkbookXls`
      `xlsb/mod.rs`  `read_workbook` first loop        → `bundleSh`, `xlsbLoop1` (after fix 889c07c, finding C16-a; `…Pinned` = the pinned snapshot)
                     second loop (BrtExternSheet, BrtName) → `externLoop`, `brtName`, `xlsbLoop2With`; the whole → `readWorkbookXlsb`
      `xlsx/mod.rs`  `read_workbook`                   → `xlsxLoop` over an XML event list (quick-xml trusted; after fixes D22, D23, D27;
                                                          `xlsxLoopD22` = the pinned `workbookPr` test)
      `ods.rs`       `parse_content` (metadata part), `read_named_expressions` → `odsLoop` over an XML event list

    Shared layers are imported, not re-modelled: BIFF record framing and short strings (`Biff.nextRecord`,
    `Biff.parseShortString`, `Biff.parseSst`, `Biff.decodeUtf16`; C12), XLSB varint framing and wide strings
    (`Xlsb.readType`, `Xlsb.fillBuffer`, `Xlsb.wideStr`; C03).

    The formula decoders are NOT part of this model (owner: C14): `parse_defined_names` (xls) and
    `parse_formula` (xlsb) are *parameters* (`parseDn`, `parseFmla`); every theorem holds for any value of them.

    Text: xls/xlsb strings are lists of Unicode scalar values (`Text = List Nat`), xlsx/ods strings are
    `String`s (attribute values and character data as quick-xml hands them over, i.e. unescaped).
    Code page: 1200 only (a CODEPAGE record with another value is outside the model: `err "unmodelled:codepage"`).
    Strings are decoded without BOM sniffing, as the code does since d1e0258 (`XlsEncoding::decode_to`) and the
    `decode_without_bom_handling` in xlsb `wide_str`; the one place that still sniffs is the relationship id of
    BrtBundleSh (`UTF_16LE.decode(relid)`), where the model assumes ids that do not start with U+FEFF / U+FFFE. -/

namespace Meta

abbrev Bytes := List UInt8
/-- decoded text of the binary formats: Unicode scalar values -/
abbrev Text := List Nat

/-- `lib.rs Sheet { name, typ, visible }` -/
structure Sheet (α : Type) where
  name : α
  typ : SheetType
  visible : SheetVisible
  deriving Repr, DecidableEq

/-- what the `Reader` trait reports: `sheets_metadata()`, `defined_names()`, and the flag handed to the cell readers -/
structure Workbook (α : Type) where
  sheets : List (Sheet α)
  names : List (α × α)
  is1904 : Bool
  deriving Repr, DecidableEq

def byteAt (b : Bytes) (i : Nat) : Nat := (b.getD i 0).toNat

def unrec (typ : String) (v : String) : String := s!"Unrecognized:{typ}:{v}"

def ofString (s : String) : Text := s.toList.map Char.toNat

/-- `i16::from_le_bytes` of the first two bytes -/
def i16 (b : Bytes) : Int := if Biff.u16 b < 32768 then (Biff.u16 b : Int) else (Biff.u16 b : Int) - 65536

/-! ## xls -/

/-- `parse_sheet_metadata` (BoundSheet8): `(lbPlyPos, Sheet)`; NUL characters are removed from the name -/
def parseSheetMetadata (data : Bytes) (biff8 : Bool) : Res (Nat × Sheet Text) :=
  if data.length < 6 then .err s!"Len:BoundSheet8:6:{data.length}"
  else
    let hs := byteAt data 4 &&& Gen.xlsVisMask
    match Gen.xlsVisTable.lookup hs with
    | none => .err (unrec "BoundSheet8:hsState" (toString hs))
    | some vis =>
      match Gen.xlsKindTable.lookup (byteAt data 5) with
      | none => .err (unrec "BoundSheet8:dt" (toString (byteAt data 5)))
      | some typ =>
        match Biff.parseShortString (data.drop 6) biff8 with
        | .ok name => .ok (Biff.u32 data, ⟨name.filter (· != 0), typ, vis⟩)
        | .err e => .err e
        | .panic e => .panic e
        | .outOfFuel => .outOfFuel

/-- `read_unicode_string_no_cch(encoding, buf, len, s)`: flag byte, then `len` characters of 1 or 2 bytes.
    `wideBytes = true` is the code after fix D35 (`2 * len` bytes for an uncompressed string);
    `false` is the pinned snapshot, which sliced `len` bytes whatever the width. -/
def readUnicodeStringNoCchWith (wideBytes : Bool) (buf : Bytes) (len : Nat) : Res Text :=
  match buf with
  | [] => .panic "read_unicode_string_no_cch: buf[0]"
  | f :: rest =>
    let high := Biff.flagHigh f
    let bytes := if high && wideBytes then 2 * len else len
    if rest.length < bytes then .panic "read_unicode_string_no_cch: buf[1..=bytes]"
    else .ok (Biff.decodeUtf16 (Biff.decodeTo (rest.take bytes) len high).1)

def readUnicodeStringNoCch : Bytes → Nat → Res Text := readUnicodeStringNoCchWith true
/-- the pinned snapshot (ledger D35) -/
def readUnicodeStringNoCchD35 : Bytes → Nat → Res Text := readUnicodeStringNoCchWith false

/-- `parse_bof`: `true` = `Biff::Biff8` (all that the string readers distinguish) -/
def parseBof (data : Bytes) : Res Bool :=
  if data.length < 2 then .err s!"Len:BOF:2:{data.length}"
  else
    let v := Biff.u16 data
    let dt := if data.length ≥ 4 then Biff.u16 (data.drop 2) else 0
    if v = 0x0200 ∨ v = 0x0002 ∨ v = 0x0007 ∨ v = 0x0300 ∨ v = 0x0400 ∨ v = 0x0500 then .ok false
    else if v = 0 then .ok (decide (dt ≠ 0x1000))
    else .ok true

/-- the Lbl arm (0x0018): `(name, parse_defined_names(rgce))`; BIFF-aware since 4ee8ca8 (code page 1200 assumed for BIFF5).
    `nameReader` = `read_unicode_string_no_cch`. -/
def parseLblWith (nameReader : Bytes → Nat → Res Text) (parseDn : Bytes → Res (Option Nat × Text))
    (biff8 : Bool) (data : Bytes) : Res (Text × Option Nat × Text) :=
  if data.length < 14 then .err s!"Len:Lbl:14:{data.length}"
  else
    let cch := byteAt data 3
    let cce := Biff.u16 (data.drop 4)
    if biff8 && data.length < 15 then .err s!"Len:Lbl:15:{data.length}"
    else
      -- BIFF8: flag byte + cch characters of 1 or 2 bytes; up to BIFF5: cch code-page bytes, no flag byte (4ee8ca8)
      let nameEnd := if biff8 then 15 + (if byteAt data 14 % 2 = 1 then 2 * cch else cch) else 14 + cch
      if data.length < max nameEnd cce then .err s!"Len:Lbl:{max nameEnd cce}:{data.length}"
      else
        let name : Res Text :=
          if biff8 then nameReader (data.drop 14) cch
          else .ok (Biff.decodeUtf16 (Biff.decodeTo ((data.drop 14).take cch) cch false).1)
        match name with
        | .ok name =>
          match parseDn (data.drop (data.length - cce)) with
          | .ok f => .ok (name, f)
          | .err e => .err e
          | .panic e => .panic e
          | .outOfFuel => .outOfFuel
        | .err e => .err e
        | .panic e => .panic e
        | .outOfFuel => .outOfFuel

/-- `r.data[2..].chunks_exact(6).take(cxti).map(|xti| Xti { …, itab_first: read_i16(&xti[2..4]), … })`:
    the `itab_first` of every entry; a trailing chunk shorter than 6 bytes is ignored (since e1c36a3) -/
def xtiLoop : Nat → Bytes → Res (List Int)
  | 0, _ => .ok []
  | n + 1, d =>
    if d.length < 6 then .ok []
    else
      match xtiLoop n (d.drop 6) with
      | .ok l => .ok (i16 (d.drop 2) :: l)
      | .err e => .err e
      | .panic e => .panic e
      | .outOfFuel => .outOfFuel

/-- the ExternSheet arm (0x0017) -/
def parseExternSheet (data : Bytes) : Res (List Int) :=
  if data.length < 2 then .err s!"Len:ExternSheet:2:{data.length}"
  else xtiLoop (Biff.u16 data) (data.drop 2)

/-- the state the globals loop accumulates -/
structure XlsSt where
  /-- `sheet_names` / `self.metadata.sheets` (same order, same names): `(pos, sheet)` -/
  sheets : List (Nat × Sheet Text) := []
  is1904 : Bool := false
  biff8 : Bool := true
  /-- `defined_names`: `(name, (ixti, formula))` -/
  names : List (Text × Option Nat × Text) := []
  /-- `xtis` (only `itab_first` is ever used) -/
  xtis : List Int := []
  deriving Repr, DecidableEq

def liftUnit {α β : Type} (r : Res α) (k : α → Res β) : Res β :=
  match r with
  | .ok a => k a
  | .err e => .err e
  | .panic e => .panic e
  | .outOfFuel => .outOfFuel

/-- one iteration of `for record in records { match r.typ { … } }`; `none` = `break` (EOF record) -/
def xlsStep (nameReader : Bytes → Nat → Res Text) (parseDn : Bytes → Res (Option Nat × Text))
    (st : XlsSt) (r : Biff.Rec) : Res (Option XlsSt) :=
  if r.typ = 0x002F then .err "Password"
  else if r.typ = 0x0042 then
    if r.data.length < 2 then .err s!"Len:CodePage:2:{r.data.length}" else
    if Biff.u16 r.data = 1200 then .ok (some st) else .err "unmodelled:codepage"
  else if r.typ = 0x0022 then
    if r.data.length < 2 then .err s!"Len:Date1904:2:{r.data.length}" else
    .ok (some (if Biff.u16 r.data = 1 then { st with is1904 := true } else st))
  else if r.typ = 0x041E then
    if r.data.length < 5 then .err s!"Len:format:5:{r.data.length}" else .ok (some st)
  else if r.typ = 0x00E0 then
    if r.data.length < 4 then .err s!"Len:xf:4:{r.data.length}" else .ok (some st)
  else if r.typ = 0x0085 then
    liftUnit (parseSheetMetadata r.data st.biff8) fun s => .ok (some { st with sheets := st.sheets ++ [s] })
  else if r.typ = 0x0809 then
    liftUnit (parseBof r.data) fun b => .ok (some { st with biff8 := b })
  else if r.typ = 0x0018 then
    liftUnit (parseLblWith nameReader parseDn st.biff8 r.data) fun n => .ok (some { st with names := st.names ++ [n] })
  else if r.typ = 0x0017 then
    liftUnit (parseExternSheet r.data) fun x => .ok (some { st with xtis := st.xtis ++ x })
  else if r.typ = 0x00FC then
    liftUnit (Biff.parseSst r) fun _ => .ok (some st)
  else if r.typ = 0x000A then .ok none
  else .ok (some st)

/-- the globals loop: records are taken one at a time (`RecordIter::next`), a framing error ends the open with
    that error, the EOF record or the end of the stream ends the loop -/
def xlsGlobals (nameReader : Bytes → Nat → Res Text) (parseDn : Bytes → Res (Option Nat × Text)) :
    Nat → Bytes → XlsSt → Res XlsSt
  | 0, _, _ => .outOfFuel
  | fuel + 1, s, st =>
    match Biff.nextRecord s with
    | none => .ok st
    | some (.ok (r, rest)) =>
      match xlsStep nameReader parseDn st r with
      | .ok (some st') => xlsGlobals nameReader parseDn fuel rest st'
      | .ok none => .ok st
      | .err e => .err e
      | .panic e => .panic e
      | .outOfFuel => .outOfFuel
    | some (.err e) => .err e
    | some (.panic e) => .panic e
    | some .outOfFuel => .outOfFuel

def refText : Text := [35, 82, 69, 70]  -- "#REF"

/-- `xtis.get(i).and_then(|xti| sheet_names.get(xti.itab_first as usize)).map_or("#REF", |sh| &sh.1)` -/
def xtiSheet (xtis : List Int) (sheets : List (Nat × Sheet Text)) (i : Nat) : Text :=
  match xtis[i]? with
  | none => refText
  | some it => if it < 0 then refText else ((sheets[it.toNat]?).map (·.2.name)).getD refText

/-- `format!("{sh}!{f}")` for a name whose formula starts with a 3-D reference -/
def resolveName (xtis : List Int) (sheets : List (Nat × Sheet Text)) : Text × Option Nat × Text → Text × Text
  | (n, none, f) => (n, f)
  | (n, some i, f) => (n, xtiSheet xtis sheets i ++ 33 :: f)

/-- `parse_workbook` as far as the metadata goes. The per-sheet loop is represented by its first step only
    (`stream.get(pos..)`: an offset beyond the stream is an `EoStream` error); the cell records of the sheets belong to C02. -/
def parseWorkbookXlsWith (nameReader : Bytes → Nat → Res Text) (parseDn : Bytes → Res (Option Nat × Text))
    (stream : Bytes) : Res (Workbook Text) :=
  match xlsGlobals nameReader parseDn (stream.length + 1) stream {} with
  | .ok st =>
    if st.sheets.any (fun s => decide (stream.length < s.1)) then .err "EoStream:sheet substream offset"
    else .ok ⟨st.sheets.map (·.2), st.names.map (resolveName st.xtis st.sheets), st.is1904⟩
  | .err e => .err e
  | .panic e => .panic e
  | .outOfFuel => .outOfFuel

def parseWorkbookXls := parseWorkbookXlsWith readUnicodeStringNoCch
/-- the pinned snapshot (before fix D35) -/
def parseWorkbookXlsD35 := parseWorkbookXlsWith readUnicodeStringNoCchD35

/-! ## paths → sheet kind (xlsx and xlsb) -/

/-- the text after the first `/` -/
def afterSlash : List Char → Option (List Char)
  | [] => none
  | c :: cs => if c = '/' then some cs else afterSlash cs

/-- `path.split('/').nth(1)` -/
def seg1 (path : List Char) : Option (List Char) := (afterSlash path).map (·.takeWhile (· != '/'))

/-- `match path.split('/').nth(1) { Some("worksheets") => …, _ => Err }` -/
def kindOfPath (tbl : List (String × SheetType)) (path : List Char) : Option SheetType :=
  match seg1 path with
  | none => none
  | some s => tbl.lookup (String.ofList s)

/-! ## xlsb -/

def u32At (b : Bytes) (i : Nat) : Nat := Xlsb.u32le (b.drop i)

/-- `wide_str` followed by the UTF-16LE decoding: `(text, str_len)` -/
def wideText (buf : Bytes) : Res (Text × Nat) :=
  match Xlsb.wideStr buf with
  | .ok (us, n) => .ok (Biff.decodeUtf16 us, n)
  | .err e => .err e
  | .panic e => .panic e
  | .outOfFuel => .outOfFuel

/-- target → part path (xlsx `read_workbook`, and xlsb since `fix: xlsb absolute relationship targets`): `/xl/…` loses its slash, `xl/…` is kept, anything else gets `xl/` in front -/
def xlsxPath (r : List Char) : List Char :=
  if "/xl/".toList.isPrefixOf r then r.drop 1
  else if "xl/".toList.isPrefixOf r then r
  else "xl/".toList ++ r

/-- (Since the C03/C06 `fix:` commits on `read_workbook` and `fill_buffer` every record shorter than the fixed
    part of its layout, and a relationship id missing from workbook.bin.rels, is `Err(Unrecognized{typ: "<record>:len"
    | "BrtBundleSh:relId", ..})` instead of a slice / map-index panic; `fill_buffer` leaves exactly the payload in
    the buffer, no stale tail.)
    The BrtBundleSh arm (0x009C) on the record payload (`buf[..len]`, the buffer holds exactly the payload in
    the first loop): `none` = the record has no relationship id (`rel_len == 0xFFFFFFFF`) and is skipped.
    `rels`: relationship id → target (`xl/_rels/workbook.bin.rels`). -/
def bundleSh (rels : List (Text × String)) (buf : Bytes) : Res (Option (Sheet Text × List Char)) :=
  if buf.length < 12 then .err (unrec "BrtBundleSh:len" (toString buf.length))
  else
    let relLen := u32At buf 8
    if relLen = 0xFFFFFFFF then .ok none
    else
      if buf.length < 12 + relLen * 2 then .err (unrec "BrtBundleSh:len" (toString buf.length))
      else
        let relid := Biff.decodeUtf16 (Xlsb.units ((buf.drop 12).take (relLen * 2)))
        match rels.lookup relid with
        | none => .err (unrec "BrtBundleSh:relId" (toString relid.length))
        | some target =>
          let path := xlsxPath target.toList
          match Gen.xlsbVisTable.lookup (Xlsb.u32le buf) with
          | none => .err (unrec "BoundSheet8:hsState" (toString (Xlsb.u32le buf)))
          | some vis =>
            match kindOfPath Gen.xlsbKindTable path with
            | none => .err (unrec "BoundSheet8:dt" (String.ofList path))
            | some typ =>
              match wideText (buf.drop (12 + relLen * 2)) with
              | .ok (name, _) => .ok (some (⟨name, typ, vis⟩, path))
              | .err e => .err e
              | .panic e => .panic e
              | .outOfFuel => .outOfFuel

structure XlsbSt where
  /-- `self.metadata.sheets` zipped with the path of `self.sheets` -/
  sheets : List (Sheet Text × List Char) := []
  is1904 : Bool := false
  deriving Repr, DecidableEq

/-- `let _ = iter.fill_buffer(&mut buf)?` on a cleared buffer, keeping only the unread bytes -/
def skipPayload (r : Bytes) : Res Bytes :=
  match Xlsb.fillBuffer [] r with
  | .ok (_, _, r') => .ok r'
  | .err e => .err e
  | .panic e => .panic e
  | .outOfFuel => .outOfFuel

/-- first loop of `read_workbook` (up to BrtEndBundleShs): `(state, unread bytes)`.
    `skipUnknown = true` is the code after fix C16-a (889c07c): every record's payload is consumed (`fill_buffer`), also for
    record ids the loop does not interpret and for BrtEndBundleShs itself.
    `skipUnknown = false` is the pinned snapshot: only BrtWbProp and BrtBundleSh consumed their payload; after any
    other record id the next byte was read as a record id again. -/
def xlsbLoop1With (skipUnknown : Bool) (rels : List (Text × String)) : Nat → Bytes → XlsbSt → Res (XlsbSt × Bytes)
  | 0, _, _ => .outOfFuel
  | fuel + 1, bs, st =>
    match Xlsb.readType bs with
    | .ok (typ, r) =>
      if typ = 0x0099 then
        match Xlsb.fillBuffer [] r with
        | .ok (_, buf, r') =>
          if buf.isEmpty then .err (unrec "BrtWbProp:len" "0")
          else xlsbLoop1With skipUnknown rels fuel r' { st with is1904 := byteAt buf 0 % 2 = 1 }
        | .err e => .err e
        | .panic e => .panic e
        | .outOfFuel => .outOfFuel
      else if typ = 0x009C then
        match Xlsb.fillBuffer [] r with
        | .ok (_, buf, r') =>
          match bundleSh rels buf with
          | .ok (some s) => xlsbLoop1With skipUnknown rels fuel r' { st with sheets := st.sheets ++ [s] }
          | .ok none => xlsbLoop1With skipUnknown rels fuel r' st
          | .err e => .err e
          | .panic e => .panic e
          | .outOfFuel => .outOfFuel
        | .err e => .err e
        | .panic e => .panic e
        | .outOfFuel => .outOfFuel
      else if typ = 0x0090 then
        if skipUnknown then
          match skipPayload r with
          | .ok r' => .ok (st, r')
          | .err e => .err e
          | .panic e => .panic e
          | .outOfFuel => .outOfFuel
        else .ok (st, r)
      else
        if skipUnknown then
          match skipPayload r with
          | .ok r' => xlsbLoop1With skipUnknown rels fuel r' st
          | .err e => .err e
          | .panic e => .panic e
          | .outOfFuel => .outOfFuel
        else xlsbLoop1With skipUnknown rels fuel r st
    | .err e => .err e
    | .panic e => .panic e
    | .outOfFuel => .outOfFuel

def xlsbLoop1 := xlsbLoop1With true
/-- the pinned snapshot (finding C16-a) -/
def xlsbLoop1Pinned := xlsbLoop1With false

def extText (s : String) : Text := ofString s

/-- one XTI of BrtExternSheet: `match read_i32(&xti[4..8]) { -2 => "#ThisWorkbook", -1 => "#InvalidWorkSheet",
    p if 0 ≤ p < sheets.len() => sheets[p].0, _ => "#Unknown" }` -/
def externName (sheets : List (Sheet Text × List Char)) (xti : Bytes) : Text :=
  let p := u32At xti 4
  if p = 0xFFFFFFFE then extText "#ThisWorkbook"
  else if p = 0xFFFFFFFF then extText "#InvalidWorkSheet"
  else if p < 0x80000000 then ((sheets[p]?).map (·.1.name)).getD (extText "#Unknown")
  else extText "#Unknown"

/-- `buf[4..].chunks(12).map(…).take(cxti)` (`buf` may carry stale bytes of earlier records behind the payload) -/
def externLoop (sheets : List (Sheet Text × List Char)) : Nat → Bytes → Res (List Text)
  | 0, _ => .ok []
  | n + 1, d =>
    if d.isEmpty then .ok []
    else if d.length < 8 then .err (unrec "BrtExternSheet:len" (toString d.length))
    else
      match externLoop sheets n (d.drop 12) with
      | .ok l => .ok (externName sheets (d.take 12) :: l)
      | .err e => .err e
      | .panic e => .panic e
      | .outOfFuel => .outOfFuel

/-- the BrtName arm (0x0027) on `buf` (payload length `len`): `(name, rgce)` -/
def brtName (buf : Bytes) (len : Nat) : Res (Text × Bytes) :=
  if len < 9 then .err (unrec "BrtName:len" (toString len))
  else
    match wideText ((buf.take len).drop 9) with
    | .ok (name, strLen) =>
      if buf.length < 9 + strLen + 4 then .err (unrec "BrtName:len" (toString len))
      else
        let rgceLen := u32At buf (9 + strLen)
        if buf.length < 13 + strLen + rgceLen then .err (unrec "BrtName:len" (toString len))
        else .ok (name, (buf.drop (13 + strLen)).take rgceLen)
    | .err e => .err e
    | .panic e => .panic e
    | .outOfFuel => .outOfFuel

def isAfterNames (t : Nat) : Bool :=
  t = 0x009D || t = 0x0225 || t = 0x018D || t = 0x0180 || t = 0x009A || t = 0x0252 || t = 0x0229 || t = 0x009B || t = 0x0084

/-- second loop of `read_workbook`: BrtExternSheet, BrtName, until one of the records that follow the names.
    `buf` is not cleared between records here (stale tail kept, as `fill_buffer` does).
    `skipUnknown`: as in `xlsbLoop1With` (after fix C16-a (889c07c) the `_` arm consumes the payload).
    `parseFmla rgce extern_sheets defined_names` = `parse_formula` (C14). -/
def xlsbLoop2With (skipUnknown : Bool) (parseFmla : Bytes → List Text → List (Text × Text) → Res Text) (sheets : List (Sheet Text × List Char)) :
    Nat → Bytes → Bytes → List Text → List (Text × Text) → Res (List (Text × Text))
  | 0, _, _, _, _ => .outOfFuel
  | fuel + 1, bs, buf, ext, names =>
    match Xlsb.readType bs with
    | .ok (typ, r) =>
      if typ = 0x016A then
        match Xlsb.fillBuffer buf r with
        | .ok (_, buf', r') =>
          if buf'.length < 4 then .err (unrec "BrtExternSheet:len" (toString buf'.length))
          else
            match externLoop sheets (Xlsb.u32le buf') (buf'.drop 4) with
            | .ok ext' => xlsbLoop2With skipUnknown parseFmla sheets fuel r' buf' ext' names
            | .err e => .err e
            | .panic e => .panic e
            | .outOfFuel => .outOfFuel
        | .err e => .err e
        | .panic e => .panic e
        | .outOfFuel => .outOfFuel
      else if typ = 0x0027 then
        match Xlsb.fillBuffer buf r with
        | .ok (len, buf', r') =>
          match brtName buf' len with
          | .ok (name, rgce) =>
            match parseFmla rgce ext names with
            | .ok f => xlsbLoop2With skipUnknown parseFmla sheets fuel r' buf' ext (names ++ [(name, f)])
            | .err e => .err e
            | .panic e => .panic e
            | .outOfFuel => .outOfFuel
          | .err e => .err e
          | .panic e => .panic e
          | .outOfFuel => .outOfFuel
        | .err e => .err e
        | .panic e => .panic e
        | .outOfFuel => .outOfFuel
      else if isAfterNames typ then .ok names
      else
        if skipUnknown then
          match Xlsb.fillBuffer buf r with
          | .ok (_, buf', r') => xlsbLoop2With skipUnknown parseFmla sheets fuel r' buf' ext names
          | .err e => .err e
          | .panic e => .panic e
          | .outOfFuel => .outOfFuel
        else xlsbLoop2With skipUnknown parseFmla sheets fuel r buf ext names
    | .err e => .err e
    | .panic e => .panic e
    | .outOfFuel => .outOfFuel

/-- `Xlsb::read_workbook` on the bytes of `xl/workbook.bin` -/
def readWorkbookXlsbWith (skipUnknown : Bool) (parseFmla : Bytes → List Text → List (Text × Text) → Res Text) (rels : List (Text × String))
    (bs : Bytes) : Res (Workbook Text × List (List Char)) :=
  match xlsbLoop1With skipUnknown rels (bs.length + 1) bs {} with
  | .ok (st, rest) =>
    match xlsbLoop2With skipUnknown parseFmla st.sheets (rest.length + 1) rest [] [] [] with
    | .ok names => .ok (⟨st.sheets.map (·.1), names, st.is1904⟩, st.sheets.map (·.2))
    | .err e => .err e
    | .panic e => .panic e
    | .outOfFuel => .outOfFuel
  | .err e => .err e
  | .panic e => .panic e
  | .outOfFuel => .outOfFuel

def readWorkbookXlsb := readWorkbookXlsbWith true
/-- the pinned snapshot (finding C16-a) -/
def readWorkbookXlsbPinned := readWorkbookXlsbWith false

/-! ## XML events (xlsx, ods) -/

/-- one event as quick-xml reports it with `expand_empty_elements = true`; attribute values and text unescaped.
    `other` = comment, processing instruction, declaration, doctype (ignored by every loop modelled here
    except `read_named_expressions`). The end of the list is the `Eof` event. -/
inductive Ev where
  | start (name : String) (attrs : List (String × String))
  | text (s : String)
  | end_ (name : String)
  | other
  /-- `Event::CData`: the content of a `<![CDATA[…]]>` section -/
  | cdata (s : String)
  deriving Repr, DecidableEq

/-- the text after the first `:` -/
def afterColon : List Char → Option (List Char)
  | [] => none
  | c :: cs => if c = ':' then some cs else afterColon cs

/-- quick-xml `QName::local_name` -/
def localName (n : String) : String :=
  match afterColon n.toList with
  | some r => String.ofList r
  | none => n

/-! ### xlsx `read_workbook` -/

structure SheetAcc where
  name : String := ""
  path : List Char := []
  visible : SheetVisible := .visible
  deriving Repr, DecidableEq

/-- quick-xml `QName::prefix` of a name that has one: the text before the first `:` -/
def prefixOf (n : String) : String := String.ofList (n.toList.takeWhile (· != ':'))

/-- the attribute of `<sheet>` that carries the relationship id: any prefixed attribute with local name `id`
    (`key.prefix()` is `Some(p)`, after fix D23) whose prefix is not `xmlns` — `xmlns:id="…"` declares a prefix named
    `id` (after fix f69fe90, finding C01-k1 / C16-f) -/
def relIdKey (k : String) : Prop := (afterColon k.toList).isSome = true ∧ prefixOf k ≠ "xmlns" ∧ localName k = "id"

instance (k : String) : Decidable (relIdKey k) := by unfold relIdKey; infer_instance

/-- the test before f69fe90: the prefix was not looked at -/
def relIdKeyOld (k : String) : Prop := (afterColon k.toList).isSome = true ∧ localName k = "id"

/-- the `for a in e.attributes()` loop of the `<sheet>` arm. The relationship id is the attribute with a prefix
    and local name `id` (`relIdKey`). -/
def sheetAttrs (rels : List (String × String)) : List (String × String) → SheetAcc → Res SheetAcc
  | [], acc => .ok acc
  | (k, v) :: rest, acc =>
    if k = "name" then sheetAttrs rels rest { acc with name := v }
    else if k = "state" then
      match Gen.xlsxVisTable.lookup v with
      | some vis => sheetAttrs rels rest { acc with visible := vis }
      | none => .err (unrec "sheet:state" v)
    else if relIdKey k then
      match rels.lookup v with
      | some t => sheetAttrs rels rest { acc with path := xlsxPath t.toList }
      | none => .err "RelationshipNotFound"
    else sheetAttrs rels rest acc

/-- the whole `<sheet>` arm: `(Sheet, path)` -/
def xlsxSheet (rels : List (String × String)) (attrs : List (String × String)) : Res (Sheet String × List Char) :=
  match sheetAttrs rels attrs {} with
  | .ok acc =>
    match kindOfPath Gen.xlsxKindTable acc.path with
    | some typ => .ok (⟨acc.name, typ, acc.visible⟩, acc.path)
    | none => .err (unrec "sheet:type" (String.ofList acc.path))
  | .err e => .err e
  | .panic e => .panic e
  | .outOfFuel => .outOfFuel

structure XlsxSt where
  sheets : List (Sheet String × List Char) := []
  names : List (String × String) := []
  is1904 : Bool := false
  /-- inside `<definedName name=…>`: (name, the element's qualified name, text collected so far) -/
  cur : Option (String × String × String) := none
  /-- inside `xml.read_to_end_into(e.name(), …)` of the `extLst` arm: (qualified name to close, nesting depth) -/
  skip : Option (String × Nat) := none
  deriving Repr, DecidableEq

/-- `["1", "true"].contains(value)` for `date1904`, `false` without the attribute -/
def date1904Attr (attrs : List (String × String)) : Bool :=
  match attrs.lookup "date1904" with
  | some v => v = "1" || v = "true"
  | none => false

/-- the three versions of the `workbookPr` / `extLst` handling this model knows -/
structure XlsxCfg where
  /-- the test of the `workbookPr` arm on the element name -/
  prMatch : String → Bool
  /-- the subtree of an `extLst` element is skipped (`read_to_end_into`; fix 4dbff9e) -/
  skipExt : Bool
  /-- a `workbookPr` without `date1904` leaves the flag alone (fix 4dbff9e); before, it reset the flag to `false` -/
  keepFlag : Bool
  /-- CDATA sections inside `<definedName>` are part of its text (the fix completing 31ef0e8, finding C16-d); before,
      the inner loop ignored `Event::CData` -/
  cdataNames : Bool

/-- the value of `self.is_1904` after a `workbookPr` start tag -/
def date1904Upd (keep : Bool) (old : Bool) (attrs : List (String × String)) : Bool :=
  if keep then
    match attrs.lookup "date1904" with
    | some v => v = "1" || v = "true"
    | none => old
  else date1904Attr attrs

/-- `read_workbook`: the outer `loop { match xml.read_event_into … }`, the inner loop of the `definedName` arm
    (`cur ≠ none`) and quick-xml's `read_to_end_into` of the `extLst` arm (`skip ≠ none`: nested start tags of the
    same qualified name are counted) as one pass over the events. -/
def xlsxLoopWith (cfg : XlsxCfg) (rels : List (String × String)) : List Ev → XlsxSt → Res XlsxSt
  | [], st => if st.skip.isSome then .err "Xml:missing end tag" else .err "XmlEof:workbook"
  | ev :: rest, st =>
    match st.skip with
    | some (q, depth) =>
      match ev with
      | .start n _ => if n = q then xlsxLoopWith cfg rels rest { st with skip := some (q, depth + 1) } else xlsxLoopWith cfg rels rest st
      | .end_ n =>
        if n = q then
          if depth = 0 then xlsxLoopWith cfg rels rest { st with skip := none }
          else xlsxLoopWith cfg rels rest { st with skip := some (q, depth - 1) }
        else xlsxLoopWith cfg rels rest st
      | _ => xlsxLoopWith cfg rels rest st
    | none =>
    match st.cur with
    | some (nm, q, val) =>
      match ev with
      | .text t => xlsxLoopWith cfg rels rest { st with cur := some (nm, q, val ++ t) }
      | .cdata t =>
        if cfg.cdataNames then xlsxLoopWith cfg rels rest { st with cur := some (nm, q, val ++ t) }
        else xlsxLoopWith cfg rels rest st
      | .end_ n =>
        if n = q then xlsxLoopWith cfg rels rest { st with names := st.names ++ [(nm, val)], cur := none }
        else xlsxLoopWith cfg rels rest st
      | _ => xlsxLoopWith cfg rels rest st
    | none =>
      match ev with
      | .start n attrs =>
        if cfg.skipExt ∧ localName n = "extLst" then xlsxLoopWith cfg rels rest { st with skip := some (n, 0) }
        else if localName n = "sheet" then
          match xlsxSheet rels attrs with
          | .ok s => xlsxLoopWith cfg rels rest { st with sheets := st.sheets ++ [s] }
          | .err e => .err e
          | .panic e => .panic e
          | .outOfFuel => .outOfFuel
        else if cfg.prMatch n then xlsxLoopWith cfg rels rest { st with is1904 := date1904Upd cfg.keepFlag st.is1904 attrs }
        else if localName n = "definedName" then
          match attrs.lookup "name" with
          | some nm => xlsxLoopWith cfg rels rest { st with cur := some (nm, n, "") }
          | none => xlsxLoopWith cfg rels rest st
        else xlsxLoopWith cfg rels rest st
      | .end_ n => if localName n = "workbook" then .ok st else xlsxLoopWith cfg rels rest st
      | _ => xlsxLoopWith cfg rels rest st

/-- the code as it is (after fixes D22 60648c6, 4dbff9e and 5d9aab9): `local_name() == b"workbookPr"`, `extLst` skipped,
    the flag assigned only when the attribute is present, CDATA counted as defined-name text -/
def cfgNow : XlsxCfg := ⟨fun n => localName n == "workbookPr", true, true, true⟩
/-- between 60648c6 and 4dbff9e (the regression, finding C16-b): local name, no skipping, flag reset -/
def cfgD22Fix : XlsxCfg := ⟨fun n => localName n == "workbookPr", false, false, false⟩
/-- the pinned snapshot (ledger D22): `e.name() == b"workbookPr"` -/
def cfgPinned : XlsxCfg := ⟨fun n => n == "workbookPr", false, false, false⟩

def xlsxLoop := xlsxLoopWith cfgNow
def xlsxLoopD22 := xlsxLoopWith cfgPinned

def xlsxFinish (r : Res XlsxSt) : Res (Workbook String × List (List Char)) :=
  match r with
  | .ok st => .ok (⟨st.sheets.map (·.1), st.names, st.is1904⟩, st.sheets.map (·.2))
  | .err e => .err e
  | .panic e => .panic e
  | .outOfFuel => .outOfFuel

/-- `Xlsx::read_workbook` on the events of `xl/workbook.xml`; `rels`: relationship id → target -/
def readWorkbookXlsx (rels : List (String × String)) (evs : List Ev) : Res (Workbook String × List (List Char)) :=
  xlsxFinish (xlsxLoop rels evs {})

def readWorkbookXlsxD22 (rels : List (String × String)) (evs : List Ev) : Res (Workbook String × List (List Char)) :=
  xlsxFinish (xlsxLoopD22 rels evs {})

/-- the reader before 5d9aab9 (finding C16-d): CDATA sections inside `<definedName>` ignored -/
def readWorkbookXlsxNoCData (rels : List (String × String)) (evs : List Ev) : Res (Workbook String × List (List Char)) :=
  xlsxFinish (xlsxLoopWith ⟨fun n => localName n == "workbookPr", true, true, false⟩ rels evs {})

/-- the reader between the D22 fix and 4dbff9e (finding C16-b) -/
def readWorkbookXlsxD22Fix (rels : List (String × String)) (evs : List Ev) : Res (Workbook String × List (List Char)) :=
  xlsxFinish (xlsxLoopWith cfgD22Fix rels evs {})

/-! ### ods `parse_content` (metadata part) -/

inductive OdsMode where
  | top
  /-- inside `read_table` (everything up to `</table:table>` belongs to C04) -/
  | table
  /-- inside `read_named_expressions`, with the names collected so far -/
  | named (acc : List (String × String))
  deriving Repr, DecidableEq

structure OdsSt where
  sheets : List (Sheet String) := []
  names : List (String × String) := []
  /-- `styles: HashMap<Option<String>, SheetVisible>`, latest insertion first (an insert replaces) -/
  styles : List (String × SheetVisible) := []
  styleName : Option String := none
  mode : OdsMode := .top
  deriving Repr, DecidableEq

/-- the attribute loop of a `table:named-range` / `table:named-expression` element -/
def namedAttrs : List (String × String) → String × String → String × String
  | [], acc => acc
  | (k, v) :: rest, acc =>
    if k = "table:name" then namedAttrs rest (v, acc.2)
    else if k = "table:cell-range-address" ∨ k = "table:expression" then namedAttrs rest (acc.1, v)
    else namedAttrs rest acc

def isNamedElem (n : String) : Bool := n = "table:named-range" || n = "table:named-expression"

/-- `parse_content`, `read_table` (as a skip) and `read_named_expressions` as one pass over the events.
    The end of the list is `Eof`: normal end at top level, `Mismatch` inside `read_named_expressions`,
    `Eof("table:table")` inside `read_table` (after d6b5c9c; the pinned snapshot never left that loop). -/
def odsLoop : List Ev → OdsSt → Res OdsSt
  | [], st =>
    match st.mode with
    | .top => .ok st
    | .table => .err "Eof:table:table"
    | .named _ => .err "Mismatch:table:named-expressions"
  | ev :: rest, st =>
    match st.mode with
    | .table =>
      match ev with
      | .end_ n => if n = "table:table" then odsLoop rest { st with mode := .top } else odsLoop rest st
      | _ => odsLoop rest st
    | .named acc =>
      match ev with
      | .start n attrs =>
        if isNamedElem n then odsLoop rest { st with mode := .named (acc ++ [namedAttrs attrs ("", "")]) }
        else .err "Mismatch:table:named-expressions"
      | .end_ n =>
        if isNamedElem n then odsLoop rest st
        else if n = "table:named-expressions" then odsLoop rest { st with names := acc, mode := .top }
        else .err "Mismatch:table:named-expressions"
      | _ => .err "Mismatch:table:named-expressions"
    | .top =>
      match ev with
      | .start n attrs =>
        if n = "style:style" then odsLoop rest { st with styleName := attrs.lookup "style:name" }
        else if st.styleName.isSome ∧ n = "style:table-properties" then
          match attrs.lookup "table:display" with
          | none => odsLoop rest { st with styles := (st.styleName.getD "", SheetVisible.visible) :: st.styles }
          | some v =>
            if v = "true" then odsLoop rest { st with styles := (st.styleName.getD "", SheetVisible.visible) :: st.styles }
            else if v = "false" then odsLoop rest { st with styles := (st.styleName.getD "", SheetVisible.hidden) :: st.styles }
            else .err "ParseBool"
        else if n = "table:table" then
          let vis :=
            match attrs.lookup "table:style-name" with
            | none => SheetVisible.visible
            | some s => (st.styles.lookup s).getD SheetVisible.visible
          match attrs.lookup "table:name" with
          | some name => odsLoop rest { st with sheets := st.sheets ++ [⟨name, .workSheet, vis⟩], mode := .table }
          | none => odsLoop rest st
        else if n = "table:named-expressions" then odsLoop rest { st with mode := .named [] }
        else odsLoop rest st
      | _ => odsLoop rest st

/-- `Ods::new` as far as the metadata goes, on the events of `content.xml` (no date-system flag in ods) -/
def parseContentOds (evs : List Ev) : Res (Workbook String) :=
  match odsLoop evs {} with
  | .ok st => .ok ⟨st.sheets, st.names, false⟩
  | .err e => .err e
  | .panic e => .panic e
  | .outOfFuel => .outOfFuel

end Meta
