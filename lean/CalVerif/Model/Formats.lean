import CalVerif.Prim.Res
import CalVerif.Model.CellFormat
import CalVerif.Gen.FormatTables
/-! # Model of `src/formats.rs`

    * `detect`          ↔ `detect_custom_number_format` (the number-format scanner)
    * `builtinById`     ↔ `builtin_format_by_id`   (body = the generated table `Gen.builtinByIdTable`)
    * `builtinByCode`   ↔ `builtin_format_by_code` (body = the generated table `Gen.builtinByCodeTable`)
    * `formatF64/I64`   ↔ `format_excel_f64(_ref)` / `format_excel_i64` (the wrap decision)

    The scanner keeps the Rust state variables one to one (`escaped, is_quote, brackets : usize, prev, hms, ap`)
    and `step` tests the arms of the Rust `match (s, escaped, is_quote, ap, brackets)` in source order.
    `detect` is the code as it is in /repo now (after the ledger fix D14, which moved the two in-quote arms
    in front of the escape arm, and fix 8b86d6e, which widened the bracket counter); `detectD14` is the arm ORDER
    of the pinned snapshot (with today's counter), kept so that the defect stays a checked statement
    (`Props/C10.d14_witness`) and the harness can tell the two apart. -/

namespace Formats

/-! ## character classes used by the arms -/

/-- Rust `char::to_ascii_lowercase` -/
def asciiLower (c : Char) : Char :=
  if 65 ≤ c.toNat ∧ c.toNat ≤ 90 then Char.ofNat (c.toNat + 32) else c

/-- Rust `char::eq_ignore_ascii_case` -/
def eqIgnoreAsciiCase (a b : Char) : Bool := asciiLower a == asciiLower b

/-- `'_' | '\\'` -/
def isEscChar (c : Char) : Bool := c == '_' || c == '\\'
/-- `'a' | 'A'` -/
def isAChar (c : Char) : Bool := c == 'a' || c == 'A'
/-- `'p' | 'm' | '/' | 'P' | 'M'` -/
def isPmChar (c : Char) : Bool := c == 'p' || c == 'm' || c == '/' || c == 'P' || c == 'M'
/-- `'d' | 'm' | 'h' | 'y' | 's' | 'D' | 'M' | 'H' | 'Y' | 'S'` -/
def isDateChar (c : Char) : Bool :=
  c == 'd' || c == 'm' || c == 'h' || c == 'y' || c == 's' || c == 'D' || c == 'M' || c == 'H' || c == 'Y' || c == 'S'
/-- `matches!(s, 'm' | 'h' | 's' | 'M' | 'H' | 'S')` -/
def isHmsChar (c : Char) : Bool := c == 'm' || c == 'h' || c == 's' || c == 'M' || c == 'H' || c == 'S'

/-! ## scanner state -/

structure St where
  escaped : Bool
  isQuote : Bool
  /-- `usize` nesting depth. It is incremented at most once per character and a `&str` has at most `isize::MAX`
      bytes, so `brackets += 1` cannot overflow: modelled as an unbounded `Nat` (until fix 8b86d6e this was a `u8`
      that overflowed on the 256th unclosed `[`, ledger D30-b) -/
  brackets : Nat
  prev : Char
  hms : Bool
  ap : Bool
  deriving DecidableEq, Repr

/-- the `let mut` initialisers -/
def St.init : St := { escaped := false, isQuote := false, brackets := 0, prev := ' ', hms := false, ap := false }

/-- what one loop iteration does -/
inductive Step where
  | cont (st : St)
  | ret (f : CellFormat)
  deriving DecidableEq, Repr

/-- arms after the escape / quote arms (identical in both arm orders), followed by `prev = s` -/
def stepTail (st : St) (s : Char) : Step :=
  -- ('"', _, _, _, _) => is_quote = true
  if s = '"' then .cont { st with isQuote := true, prev := s }
  -- (';', ..) => return CellFormat::Other
  else if s = ';' then .ret .other
  -- ('[', ..) => brackets += 1
  else if s = '[' then .cont { st with brackets := st.brackets + 1, prev := s }
  -- (']', .., 1) if hms => return CellFormat::TimeDelta
  else if s = ']' ∧ st.brackets = 1 ∧ st.hms = true then .ret .timeDelta
  -- (']', ..) => brackets = brackets.saturating_sub(1)
  else if s = ']' then .cont { st with brackets := st.brackets - 1, prev := s }
  -- ('a' | 'A', _, _, false, 0) => ap = true
  else if isAChar s = true ∧ st.ap = false ∧ st.brackets = 0 then .cont { st with ap := true, prev := s }
  -- ('p' | 'm' | '/' | 'P' | 'M', _, _, true, 0) => return CellFormat::DateTime
  else if isPmChar s = true ∧ st.ap = true ∧ st.brackets = 0 then .ret .dateTime
  -- ('d' | 'm' | 'h' | 'y' | 's' | 'D' | 'M' | 'H' | 'Y' | 'S', _, _, false, 0) => return CellFormat::DateTime
  else if isDateChar s = true ∧ st.ap = false ∧ st.brackets = 0 then .ret .dateTime
  -- _ => if hms && s.eq_ignore_ascii_case(&prev) {} else { hms = prev == '[' && matches!(s, 'm'|'h'|'s'|'M'|'H'|'S') }
  else
    .cont { st with
      hms := if st.hms = true ∧ eqIgnoreAsciiCase s st.prev = true then st.hms
             else (st.prev == '[' && isHmsChar s)
      prev := s }

/-- one iteration of `for s in format.chars() { match (s, escaped, is_quote, ap, brackets) {…}; prev = s }`
    — the arm order of the current /repo (after fix D14) -/
def step (st : St) (s : Char) : Step :=
  -- (_, true, ..) => escaped = false
  if st.escaped = true then .cont { st with escaped := false, prev := s }
  -- ('"', _, true, _, _) => is_quote = false
  else if s = '"' ∧ st.isQuote = true then .cont { st with isQuote := false, prev := s }
  -- (_, _, true, _, _) => ()
  else if st.isQuote = true then .cont { st with prev := s }
  -- ('_' | '\\', ..) => escaped = true
  else if isEscChar s = true then .cont { st with escaped := true, prev := s }
  else stepTail st s

/-- the arm order of the pinned snapshot (ledger D14): the escape arm came before the two in-quote arms -/
def stepD14 (st : St) (s : Char) : Step :=
  if st.escaped = true then .cont { st with escaped := false, prev := s }
  else if isEscChar s = true then .cont { st with escaped := true, prev := s }
  else if s = '"' ∧ st.isQuote = true then .cont { st with isQuote := false, prev := s }
  else if st.isQuote = true then .cont { st with prev := s }
  else stepTail st s

/-- the loop, from an arbitrary state; falling out of the loop returns `CellFormat::Other` -/
def scanWith (stp : St → Char → Step) : St → List Char → Res CellFormat
  | _, [] => .ok .other
  | st, c :: cs =>
    match stp st c with
    | .cont st' => scanWith stp st' cs
    | .ret f => .ok f

def scan : St → List Char → Res CellFormat := scanWith step

/-- `detect_custom_number_format(format)` over `format.chars()` -/
def detect (format : List Char) : Res CellFormat := scan St.init format

/-- the pinned snapshot's scanner (before fix D14) -/
def detectD14 (format : List Char) : Res CellFormat := scanWith stepD14 St.init format

/-! ## built-in ids -/

/-- first arm whose pattern list contains `id`, else the wildcard arm -/
def lookupId (tbl : List (List UInt8 × CellFormat)) (dflt : CellFormat) (id : List UInt8) : CellFormat :=
  match tbl.find? (fun row => row.1 == id) with
  | some row => row.2
  | none => dflt

/-- first arm with a range containing `code`, else the wildcard arm -/
def lookupCode (tbl : List (Nat × Nat × CellFormat)) (dflt : CellFormat) (code : Nat) : CellFormat :=
  match tbl.find? (fun row => decide (row.1 ≤ code ∧ code ≤ row.2.1)) with
  | some row => row.2.2
  | none => dflt

/-- `builtin_format_by_id(id: &[u8])` -/
def builtinById (id : List UInt8) : CellFormat := lookupId Gen.builtinByIdTable Gen.builtinByIdDefault id

/-- `builtin_format_by_code(code: u16)` -/
def builtinByCode (code : Nat) : CellFormat := lookupCode Gen.builtinByCodeTable Gen.builtinByCodeDefault code

/-! ## value wrapping -/

/-- `ExcelDateTimeType` (only the two variants `formats.rs` produces) -/
inductive DtKind where
  | dateTime
  | timeDelta
  deriving DecidableEq, Repr

/-- the `f64` stored in an `ExcelDateTime`, carried opaquely: either the bit pattern the caller passed in
    (`format_excel_f64`) or `value as f64` of the `i64` the caller passed in (`format_excel_i64`) -/
inductive Serial where
  | bits (b : UInt64)
  | ofI64 (v : Int)
  deriving DecidableEq, Repr

/-- the `Data` variants these functions can return -/
inductive NumData where
  | int (v : Int)
  | float (bits : UInt64)
  | dateTime (value : Serial) (kind : DtKind) (is1904 : Bool)
  deriving DecidableEq, Repr

/-- `format_excel_f64(value, format, is_1904)` (= `format_excel_f64_ref(..).into()`) -/
def formatF64 (value : UInt64) (format : Option CellFormat) (is1904 : Bool) : NumData :=
  match format with
  | some .dateTime => .dateTime (.bits value) .dateTime is1904
  | some .timeDelta => .dateTime (.bits value) .timeDelta is1904
  | _ => .float value

/-- `format_excel_i64(value, format, is_1904)` -/
def formatI64 (value : Int) (format : Option CellFormat) (is1904 : Bool) : NumData :=
  match format with
  | some .dateTime => .dateTime (.ofI64 value) .dateTime is1904
  | some .timeDelta => .dateTime (.ofI64 value) .timeDelta is1904
  | _ => .int value

/-! ## the per-workbook style tables: cell-XF index → `CellFormat`

    The three readers build `formats: Vec<CellFormat>` from the workbook's number-format definitions and the list
    of cell XFs; a numeric cell with style index `i` is then wrapped with `formats.get(i)`. The builders are
    modelled over the already-parsed inputs (ids, format strings, XF list). -/

/-- `BTreeMap::insert` for every definition in file order, then `get`: the last definition of a key wins -/
def lastDef {κ α : Type} [BEq κ] : List (κ × α) → κ → Option α
  | [], _ => none
  | d :: ds, k =>
    match lastDef ds k with
    | some v => some v
    | none => if d.1 == k then some d.2 else none

/-- `Xlsx::read_styles` (`src/xlsx/mod.rs`): `numFmts` = the `(numFmtId, formatCode)` attributes of the `<numFmt>`
    elements (an empty `formatCode` is not recorded), `cellXfs` = the `numFmtId` attribute of every `<xf>` of
    `<cellXfs>` (`none` = attribute absent). A custom definition takes precedence over the built-in table; the
    format string is scanned when an XF refers to it. -/
def xlsxStyles (numFmts : List (List UInt8 × List Char)) : List (Option (List UInt8)) → Res (List CellFormat)
  | [] => .ok []
  | xf :: xfs =>
    let one : Res CellFormat :=
      match xf with
      | none => .ok .other
      | some id =>
        match lastDef (numFmts.filter (fun d => !d.2.isEmpty)) id with
        | some fmt => detect fmt
        | none => .ok (builtinById id)
    match one with
    | .ok f =>
      match xlsxStyles numFmts xfs with
      | .ok fs => .ok (f :: fs)
      | r => r
    | .err e => .err e
    | .panic m => .panic m
    | .outOfFuel => .outOfFuel

/-- every definition is scanned when its record is read (`BrtFmt` / `FORMAT`), used or not -/
def detectAll : List (Nat × List Char) → Res (List (Nat × CellFormat))
  | [] => .ok []
  | d :: ds =>
    match detect d.2 with
    | .ok f =>
      match detectAll ds with
      | .ok fs => .ok ((d.1, f) :: fs)
      | r => r
    | .err e => .err e
    | .panic m => .panic m
    | .outOfFuel => .outOfFuel

/-- `Xlsb::read_styles` (`src/xlsb/mod.rs`): `fmts` = the `BrtFmt` records `(ifmt, string)`, `xfs` = the `iFmt` of every
    `BrtXF`. The BUILT-IN table takes precedence: only an id the built-in table calls `Other` is looked up among
    the custom definitions. -/
def xlsbStyles (fmts : List (Nat × List Char)) (xfs : List Nat) : Res (List CellFormat) :=
  match detectAll fmts with
  | .ok defs =>
    .ok (xfs.map fun code =>
      match builtinByCode code with
      | .other => (lastDef defs code).getD .other
      | f => f)
  | .err e => .err e
  | .panic m => .panic m
  | .outOfFuel => .outOfFuel

/-- `Xls::parse_workbook` (`src/xls.rs`, records FORMAT 0x041E and XF 0x00E0): `formats` = `(ifmt, string)` of the
    FORMAT records, `xfs` = the `ifmt` of every XF record. A custom definition takes precedence over the built-in
    table. -/
def xlsStyles (formats : List (Nat × List Char)) (xfs : List Nat) : Res (List CellFormat) :=
  match detectAll formats with
  | .ok defs =>
    .ok (xfs.map fun code =>
      match lastDef defs code with
      | some f => f
      | none => builtinByCode code)
  | .err e => .err e
  | .panic m => .panic m
  | .outOfFuel => .outOfFuel

/-! ## the spelling of a `numFmtId` attribute (`src/xlsx/mod.rs`, `format_id`, fix 6b28a55) -/

def isDigitByte (b : UInt8) : Bool := 48 ≤ b.toNat && b.toNat ≤ 57

/-- `format_id(v)`: an all-digit id loses its leading zeros (one digit of an all-zero id is kept); an empty text or a
    text that is not all ASCII digits is returned unchanged -/
def formatId (v : List UInt8) : List UInt8 :=
  if v.isEmpty || !v.all isDigitByte then v
  else v.drop (min (v.takeWhile (· == 48)).length (v.length - 1))

/-- `read_styles` on the attribute texts as they stand in the file: the `<numFmt>` key on insert, the `<xf>` id at
    the lookup and at the built-in table all go through `format_id` -/
def xlsxStylesRaw (numFmts : List (List UInt8 × List Char)) (xfs : List (Option (List UInt8))) : Res (List CellFormat) :=
  xlsxStyles (numFmts.map fun d => (formatId d.1, d.2)) (xfs.map (Option.map formatId))

/-! ## the style index of an xlsx cell (`src/xlsx/cells_reader.rs`, `read_v`) -/

/-- `atoi_simd::parse::<usize>(text)` on a 64-bit target: a non-empty run of ASCII digits (no sign, no blanks) whose
    value fits 64 bits; anything else is an error. (Texts of more than 20 bytes are outside what the correspondence
    run compares.) -/
def parseUsize (t : List UInt8) : Option Nat :=
  if t.isEmpty || !t.all (fun b => 48 ≤ b.toNat && b.toNat ≤ 57) then none
  else
    let v := t.foldl (fun acc b => acc * 10 + (b.toNat - 48)) 0
    if v < 18446744073709551616 then some v else none

/-- the format a `<c>` element's number is wrapped with: no `s` attribute → `Some(&CellFormat::Other)`; an `s` that
    parses → `formats.get(id)` (`none` when the index is past the table: the number stays plain); an `s` that does
    not parse → `unwrap_or(0)`, i.e. the format of XF 0 -/
def xlsxCellFormat (formats : List CellFormat) (s : Option (List UInt8)) : Option CellFormat :=
  match s with
  | none => some .other
  | some t => formats[(parseUsize t).getD 0]?

end Formats
