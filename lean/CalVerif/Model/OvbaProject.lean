import CalVerif.Model.Cfb
import CalVerif.Model.Ovba
/-! `VbaProject::new` = `Cfb::new` followed by `VbaProject::from_cfb` (models of C13 and C18 composed), and the
    accessors `get_module_raw` / `get_module`.

    The streams are looked up with the reader state right after `Cfb::new` (`Cfb.lookupOf`, stateless): a lookup does
    not depend on what was read before (since /repo 3eeaae6 also when the root entry gives the mini stream an unpadded
    length: mini sectors are served from memory only).

    Stream names: `from_cfb` decodes the MODULESTREAMNAME bytes with the project's encoding and looks the
    resulting string up in the compound-file directory. `decodeName` stands for that decoder (encoding_rs,
    trusted); nothing here depends on what it is. The text decoder of `get_module` is `decodeWith enc raw`
    (encoding_rs as well), selected by the encoding object `XlsEncoding::from_codepage(cp)` = `encodingOf cp`. -/

namespace Ovba

/-- `codepage::to_encoding` (crate codepage 0.1.3, arrays `CODE_PAGES` / `ENCODINGS`): code page id ↦ name of the
    encoding_rs encoding. Third-party data, transcribed; the harness compares it with
    `XlsEncoding::from_codepage` (success and encoding name) on all 65536 ids at every run. -/
def codepageTable : List (Nat × String) :=
  [(65001, "UTF-8"), (1200, "UTF-16LE"), (1252, "windows-1252"), (1251, "windows-1251"), (936, "GBK"),
   (932, "Shift_JIS"), (949, "EUC-KR"), (1250, "windows-1250"), (1256, "windows-1256"), (1254, "windows-1254"),
   (950, "Big5"), (874, "windows-874"), (1255, "windows-1255"), (1253, "windows-1253"), (1257, "windows-1257"),
   (1258, "windows-1258"), (20932, "EUC-JP"), (28592, "ISO-8859-2"), (28605, "ISO-8859-15"), (28597, "ISO-8859-7"),
   (20866, "KOI8-R"), (54936, "gb18030"), (28595, "ISO-8859-5"), (38598, "ISO-8859-8-I"), (28594, "ISO-8859-4"),
   (28596, "ISO-8859-6"), (50221, "ISO-2022-JP"), (21866, "KOI8-U"), (28603, "ISO-8859-13"), (28593, "ISO-8859-3"),
   (1201, "UTF-16BE"), (866, "IBM866"), (28600, "ISO-8859-10"), (28598, "ISO-8859-8"), (10000, "macintosh"),
   (10017, "x-mac-cyrillic"), (28604, "ISO-8859-14"), (28606, "ISO-8859-16"), (951, "Big5"), (10007, "x-mac-cyrillic"),
   (20936, "GBK"), (20949, "EUC-KR"), (21010, "UTF-16LE"), (28591, "windows-1252"), (28599, "windows-1254"),
   (28601, "windows-874"), (50220, "ISO-2022-JP"), (50222, "ISO-2022-JP"), (50225, "replacement"),
   (50227, "replacement"), (51936, "GBK"), (51949, "EUC-KR"), (52936, "replacement")]

/-- `XlsEncoding::from_codepage(cp)`: the encoding object (by name), `none` = `CodePageNotFound` -/
def encodingOf (cp : Nat) : Option String := (codepageTable.find? (·.1 == cp)).map (·.2)

/-- an opened project: `VbaProject { references, modules, encoding }` (`modules` in `dir` order; the `BTreeMap`
    keeps the last entry of a repeated name) -/
structure VbaProjectSt where
  codepage : Nat
  references : List Ref
  modules : List (Bytes × Bytes)
  deriving Repr, DecidableEq

/-- `VbaProject::new(reader, len)` -/
def vbaProjectNew (decodeName : Bytes → List Char) (file : Bytes) (len : Nat) : Res VbaProjectSt := do
  let (c, rd) ← Cfb.new file len
  let (cp, refs, ms) ← project (Cfb.lookupOf c rd "dir".toList) (fun n => Cfb.lookupOf c rd (decodeName n))
  .ok { codepage := cp, references := refs, modules := ms }

/-- `VbaProject::get_module_raw(name)` (name given as the bytes of the MODULENAME record) -/
def getModuleRaw (vp : VbaProjectSt) (name : Bytes) : Res Bytes :=
  match vp.modules.reverse.lookup name with
  | some raw => .ok raw
  | none => .err "modulenotfound"

/-- `VbaProject::get_module(name)`: `self.encoding.decode_all(data)` with the encoding selected when the project was
    opened; `decodeWith enc bytes` is encoding_rs' decoder of encoding `enc` (trusted, opaque here) -/
def getModule (decodeWith : String → Bytes → String) (vp : VbaProjectSt) (name : Bytes) : Res String := do
  let raw ← getModuleRaw vp name
  match encodingOf vp.codepage with
  | some enc => .ok (decodeWith enc raw)
  | none => .err "codepage"          -- unreachable for an opened project (`from_codepage` succeeded)

end Ovba
