import CalVerif.Model.XlsxCells
import CalVerif.Model.Range
import CalVerif.Model.SharedFormula
import CalVerif.Prim.Utf8
/-! Model of `XlsxCellReader::next_formula` and `Xlsx::worksheet_formula` (`/repo/src/xlsx/cells_reader.rs`,
    `/repo/src/xlsx/mod.rs`) over the XML event list of a worksheet part (C14, stored-text formulas).

    The outer loop is the same `<row>` / `<c>` cursor as `next_cell` (`XlsxCells.step`, mode `rows`): a row's `r`
    sets the row cursor, `</row>` advances it and resets the column cursor, a cell's `r` sets its position and the
    column cursor, a cell without `r` sits at the cursor; `</c>` advances the column cursor.  Inside `<c>` every
    child start tag goes through `read_formula`: `<is>` / `<v>` are skipped (`read_to_end_into`), `<f>` collects its
    character data up to the first end tag with the same qualified name; the last `<f>` wins.
    Shared formulas (`<f t="shared" si=".." [ref=".."]>`, property C15): the text of the element is collected like
    any `<f>`, then the shared branch of `next_formula` runs on it (`finishShared`): `si` is mandatory and numeric, a
    `ref` makes the cell the master of group `si` (stored in the `formulas` map: text, declared range, position), no
    `ref` makes it a follower whose text is `replace_cell_names(master, position − master position)` when it lies in
    the declared range. The map and the rewriting are those of `Model/SharedFormula.lean` (strings there are
    `List Char`: the element text is UTF-8 decoded as `unescape()` does, the result encoded again).
    A `t="shared"` attribute on `<v>`/`<is>` (not a formula) is outside the model (`err`). -/

namespace XlsxFormula
open XlsxCells

def tShared : Bytes := [115, 104, 97, 114, 101, 100]   -- "shared"
#guard tShared == asciiBytes "shared"

inductive Mode where
  /-- outer loop of `next_formula` -/
  | rows
  /-- inner loop after `<c>`: position, current `value: Option<String>` -/
  | cell (pos : Nat × Nat) (value : Option Bytes)
  /-- `read_formula`, `b"f"`: collecting text until an end tag with the same qualified name -/
  | inF (pos : Nat × Nat) (name : Bytes) (acc : Bytes)
  /-- `read_formula`, `b"f"` of an element with `t="shared"`: collecting text; `attrs` are the attributes of the
      `<f>`, `value` the cell's value so far -/
  | inShared (pos : Nat × Nat) (value : Option Bytes) (name : Bytes) (attrs : Attrs) (acc : Bytes)
  /-- `read_formula`, `b"is" | b"v"`: `read_to_end_into(name)` -/
  | skip (pos : Nat × Nat) (value : Option Bytes) (name : Bytes) (depth : Nat)
  /-- `next_formula` returned `Ok(None)` -/
  | done
  deriving Repr, DecidableEq

/-- reader state: mode, `row_index`, `col_index`, the cells returned so far (latest first), the `formulas` map
    of shared-formula groups -/
structure St where
  mode : Mode
  row : Nat
  col : Nat
  out : List (Nat × Nat × Bytes)
  formulas : SharedFormula.Table
  deriving Repr

def nSiAttr : Bytes := [115, 105]   -- "si"
#guard nSiAttr == asciiBytes "si"

/-- the shared branch of `next_formula`, run when `</f>` of an `<f t="shared" …>` is reached with the collected
    text `acc` (already `value = Some(text)`): attribute handling in source order -/
def finishShared (st : St) (pos : Nat × Nat) (attrs : Attrs) (acc : Bytes) : Res St :=
  match Utf8.utf8Decode acc with
  | none => .err "Xml"
  | some text =>
    match getAttr attrs nSiAttr with
    | none => .err "si attribute"
    | some sb =>
      match atoiUsize sb with
      | none => .err "si attribute"
      | some si =>
        match getAttr attrs nRef with
        | some rb =>
          match getDimension rb with
          | .ok d =>
            .ok { st with mode := .cell pos (some acc),
                          formulas := st.formulas.store si ⟨text, ⟨d.sr, d.sc, d.er, d.ec⟩, pos⟩ }
          | .err e => .err e
          | .panic s => .panic s
          | .outOfFuel => .outOfFuel
        | none =>
          match st.formulas.lookup si with
          | some g =>
            match g.offsetOf pos with
            | some off =>
              match SharedFormula.replaceCellNames g.text off with
              | .ok v => .ok { st with mode := .cell pos (some (Utf8.utf8Encode v)) }
              | .err e => .err e
              | .panic s => .panic s
              | .outOfFuel => .outOfFuel
            | none => .ok { st with mode := .cell pos (some acc) }
          | none => .ok { st with mode := .cell pos (some acc) }

def step (st : St) (ev : Ev) : Res St :=
  match st.mode with
  | .done => .ok st
  | .rows =>
    match ev with
    | .start n attrs =>
      if localName n = nRow then
        match getAttr attrs nR with
        | some range =>
          match getRow range with
          | .ok row => .ok { st with row := row }
          | .err e => .err e
          | .panic s => .panic s
          | .outOfFuel => .outOfFuel
        | none => .ok st
      else if localName n = nC then
        match getAttr attrs nR with
        | some range =>
          match getRowColumn range with
          | .ok (row, col) => .ok { st with col := col, mode := .cell (row, col) none }
          | .err e => .err e
          | .panic s => .panic s
          | .outOfFuel => .outOfFuel
        | none => .ok { st with mode := .cell (st.row, st.col) none }
      else .ok st
    | .stop n =>
      if localName n = nRow then .ok { st with row := satAdd st.row 1, col := 0 }
      else if localName n = nSheetData then .ok { st with mode := .done }
      else .ok st
    | _ => .ok st
  | .cell pos value =>
    match ev with
    | .start n attrs =>
      if ¬ (localName n = nIs ∨ localName n = nV ∨ localName n = nF) then .err "UnexpectedNode"
      else if getAttr attrs nT = some tShared then
        (if localName n = nF then .ok { st with mode := .inShared pos value n attrs [] }
         else .err "shared attribute on a value element")
      else if localName n = nF then .ok { st with mode := .inF pos n [] }
      else .ok { st with mode := .skip pos value n 0 }
    | .stop n =>
      if localName n = nC then
        .ok { st with mode := .rows, col := satAdd st.col 1, out := (pos.1, pos.2, value.getD []) :: st.out }
      else .ok st
    | _ => .ok st
  | .inF pos name acc =>
    match ev with
    | .text s => .ok { st with mode := .inF pos name (acc ++ s) }
    | .stop n => if n = name then .ok { st with mode := .cell pos (some acc) } else .ok st
    | _ => .ok st
  | .inShared pos value name attrs acc =>
    match ev with
    | .text s => .ok { st with mode := .inShared pos value name attrs (acc ++ s) }
    | .stop n => if n = name then finishShared st pos attrs acc else .ok st
    | _ => .ok st
  | .skip pos value name depth =>
    match ev with
    | .start n _ => if n = name then .ok { st with mode := .skip pos value name (depth + 1) } else .ok st
    | .stop n =>
      if n = name then
        (if depth = 0 then .ok { st with mode := .cell pos value }
         else .ok { st with mode := .skip pos value name (depth - 1) })
      else .ok st
    | _ => .ok st

/-- the error reported when the events run out in this mode -/
def eofErr : Mode → String
  | .done => "-"
  | .skip _ _ _ _ => "Xml"
  | _ => "XmlEof"

/-- all cells `next_formula` yields (stream order) until `Ok(None)`; an error aborts `worksheet_formula` -/
def run : List Ev → St → Res (List (Nat × Nat × Bytes))
  | [], st => if st.mode = .done then .ok st.out.reverse else .err (eofErr st.mode)
  | ev :: rest, st =>
    match step st ev with
    | .ok st' => if st'.mode = .done then .ok st'.out.reverse else run rest st'
    | .err e => .err e
    | .panic s => .panic s
    | .outOfFuel => .outOfFuel

def initSt : St := ⟨.rows, 0, 0, [], []⟩

/-- `worksheet_formula` before `Range::from_sparse`: the `(row, col, text)` of every `<c>`, in stream order
    (`text = ""` for a cell without `<f>`); `NotAWorksheet` gives no cells -/
def readFormulas (evs : List Ev) : Res (List (Nat × Nat × Bytes)) :=
  match readerNew evs default false with
  | .ok (_, rest) => run rest initSt
  | .err e => if e = "NotAWorksheet" then .ok [] else .err e
  | .panic s => .panic s
  | .outOfFuel => .outOfFuel

/-- the cells `worksheet_formula` hands to `Range::from_sparse`: those with a non-empty text -/
def formulaCells (evs : List Ev) : Res (List (Nat × Nat × Bytes)) :=
  match readFormulas evs with
  | .ok cells => .ok (cells.filter fun c => c.2.2 ≠ [])
  | .err e => .err e
  | .panic s => .panic s
  | .outOfFuel => .outOfFuel

/-- `Xlsx::worksheet_formula`: `Range::from_sparse` of the cells with a non-empty text (default cell `""`) -/
def worksheetFormula (evs : List Ev) : Res (Range.Rng Bytes) :=
  match formulaCells evs with
  | .ok cells => Range.fromSparse cells
  | .err e => .err e
  | .panic s => .panic s
  | .outOfFuel => .outOfFuel

end XlsxFormula
