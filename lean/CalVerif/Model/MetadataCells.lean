import CalVerif.Model.Metadata
import CalVerif.Model.Formats
/-! How the date-system flag of the workbook reaches the numeric cells (property C16, with C10's model of
    `format_excel_f64` / `format_excel_i64`).

    In all three Excel readers the flag decoded from the workbook part is stored in `self.is_1904` before any
    sheet is read and handed unchanged to every numeric cell:
      xls   `parse_number / parse_rk / parse_mul_rk (r, &self.formats, self.is_1904)`  → `format_excel_f64/i64(v, format, is_1904)`
      xlsb  `XlsbCellsReader::new(…, self.is_1904)`                                   → `format_excel_f64_ref(v, cell_format(..), self.is_1904)`
      xlsx  `XlsxCellReader::new(xml, strings, formats, self.is_1904)`                → `read_v(…, is_1904)` → `format_excel_f64_ref`
    (ods has no date system: dates are ISO strings.)  The cell readers themselves belong to C01–C03; this file
    only states the hand-over. -/

namespace Meta

/-- a numeric cell holding the f64 `v` under the cell format `fmt`, read from workbook `wb` -/
def floatCell {α : Type} (wb : Workbook α) (fmt : Option CellFormat) (v : UInt64) : Formats.NumData :=
  Formats.formatF64 v fmt wb.is1904

/-- a numeric cell holding an integer (RK integer paths) -/
def intCell {α : Type} (wb : Workbook α) (fmt : Option CellFormat) (v : Int) : Formats.NumData :=
  Formats.formatI64 v fmt wb.is1904

/-- the `is_1904` of a value, if it is an `ExcelDateTime` -/
def flagOf : Formats.NumData → Option Bool
  | .dateTime _ _ f => some f
  | _ => none

end Meta
