import CalVerif.Prim.Utf8
import CalVerif.Model.Formats
import CalVerif.Model.Xlsb
import CalVerif.Model.BiffStrings
/-! # Decoders of the style tables: bytes / records / XML events → the `formats: Vec<CellFormat>` of a workbook

    `Model/Formats.lean` builds the per-workbook table from already-decoded lists (`xlsxStyles`, `xlsbStyles`,
    `xlsStyles`). This file models the decoding in front of them:

    * xls  — `parse_xf`, `parse_format` (`src/xls.rs`) and the FORMAT / XF arms of the globals loop of `parse_workbook`
      (records in, stopping at the EOF record);
    * xlsb — the record loop of `Xlsb::read_styles` (`src/xlsb/mod.rs`) over the bytes of `xl/styles.bin`
      (framing primitives from `Model/Xlsb.lean`);
    * xlsx — the event loop of `Xlsx::read_styles` (`src/xlsx/mod.rs`) over the XML events of `xl/styles.xml`
      (quick-xml with `expand_empty_elements`, attribute values unescaped).

    Strings: xls (code page 1200, as every BIFF8 writer declares) and xlsb text is UTF-16LE decoded lossily
    (`decode_without_bom_handling`: an unpaired surrogate becomes U+FFFD). -/

namespace Formats

abbrev Bytes := List UInt8

/-! ## UTF-16 code units → characters (encoding_rs UTF-16LE, lossy) -/

def utf16Decode : List Nat → List Char
  | [] => []
  | [u] => if 0xD800 ≤ u ∧ u < 0xE000 then [Char.ofNat 0xFFFD] else [Char.ofNat u]
  | u :: v :: rest =>
    if 0xD800 ≤ u ∧ u < 0xDC00 then
      if 0xDC00 ≤ v ∧ v < 0xE000 then
        Char.ofNat (0x10000 + (u - 0xD800) * 1024 + (v - 0xDC00)) :: utf16Decode rest
      else Char.ofNat 0xFFFD :: utf16Decode (v :: rest)
    else if 0xDC00 ≤ u ∧ u < 0xE000 then Char.ofNat 0xFFFD :: utf16Decode (v :: rest)
    else Char.ofNat u :: utf16Decode (v :: rest)

/-! ## xls: FORMAT (0x041E) and XF (0x00E0) records -/

/-- `parse_xf(r)`: the `ifmt` field (bytes 2..4) of an XF record -/
def xlsParseXf (data : Bytes) : Res Nat :=
  if data.length < 4 then .err "Len:xf" else .ok (Biff.u16 (data.drop 2))

/-- `parse_format(r, encoding)` up to the scan: `(ifmt, format string)`. Layout: `ifmt` u16, `cch` u16, a flag byte
    (bit 0 = 16-bit characters), then at most `cch` characters — as many as the record holds (`decode_to` clamps;
    CONTINUE fragments are not followed). This is the BIFF8 layout; the reader applies it to every FORMAT record. -/
def xlsParseFormat (data : Bytes) : Res (Nat × List Char) :=
  if data.length < 5 then .err "Len:format"
  else
    let cch := Biff.u16 (data.drop 2)
    let high := Biff.flagHigh (data.getD 4 0)
    .ok (Biff.u16 data, utf16Decode (Biff.decodeTo (data.drop 5) cch high).1)

/-- the FORMAT / XF arms of the `for record in records` loop over the workbook globals: every other record type
    is another arm's business; the loop ends at the EOF record (0x000A) or with the stream -/
def xlsStyleFold : List (Nat × Bytes) → List (Nat × List Char) → List Nat → Res (List (Nat × List Char) × List Nat)
  | [], defs, xfs => .ok (defs, xfs)
  | (typ, data) :: rest, defs, xfs =>
    if typ = 0x000A then .ok (defs, xfs)
    else if typ = 0x041E then
      match xlsParseFormat data with
      | .ok d => xlsStyleFold rest (defs ++ [d]) xfs
      | .err e => .err e
      | .panic m => .panic m
      | .outOfFuel => .outOfFuel
    else if typ = 0x00E0 then
      match xlsParseXf data with
      | .ok x => xlsStyleFold rest defs (xfs ++ [x])
      | .err e => .err e
      | .panic m => .panic m
      | .outOfFuel => .outOfFuel
    else xlsStyleFold rest defs xfs

/-- `self.formats` of an `Xls` whose globals hold the records `recs` (as far as FORMAT and XF decide) -/
def xlsStylesOfRecords (recs : List (Nat × Bytes)) : Res (List CellFormat) :=
  match xlsStyleFold recs [] [] with
  | .ok (defs, xfs) => xlsStyles defs xfs
  | .err e => .err e
  | .panic m => .panic m
  | .outOfFuel => .outOfFuel

/-- the same over the bytes of the Workbook stream: records are framed by `RecordIter` (`Biff.nextRecord`) one at a
    time until the EOF record of the globals substream; a framing error before it is returned -/
def xlsStyleStream : Nat → Bytes → List (Nat × List Char) → List Nat → Res (List (Nat × List Char) × List Nat)
  | 0, _, _, _ => .outOfFuel
  | fuel + 1, s, defs, xfs =>
    match Biff.nextRecord s with
    | none => .ok (defs, xfs)
    | some (.ok (r, rest)) =>
      if r.typ = 0x000A then .ok (defs, xfs)
      else if r.typ = 0x041E then
        match xlsParseFormat r.data with
        | .ok d => xlsStyleStream fuel rest (defs ++ [d]) xfs
        | .err e => .err e
        | .panic m => .panic m
        | .outOfFuel => .outOfFuel
      else if r.typ = 0x00E0 then
        match xlsParseXf r.data with
        | .ok x => xlsStyleStream fuel rest defs (xfs ++ [x])
        | .err e => .err e
        | .panic m => .panic m
        | .outOfFuel => .outOfFuel
      else xlsStyleStream fuel rest defs xfs
    | some (.err e) => .err e
    | some (.panic m) => .panic m
    | some .outOfFuel => .outOfFuel

def xlsStylesOfStream (s : Bytes) : Res (List CellFormat) :=
  match xlsStyleStream (s.length + 1) s [] [] with
  | .ok (defs, xfs) => xlsStyles defs xfs
  | .err e => .err e
  | .panic m => .panic m
  | .outOfFuel => .outOfFuel

/-! ## xlsb: the record loop of `read_styles` -/

/-- `for _ in 0..len { next_skip_blocks(0x002C, &[], buf); … }` after BrtBeginFmts: `count` BrtFmt records are
    looked for, whatever lies in between is skipped -/
def xlsbFmtLoop : Nat → Bytes → List (Nat × List Char) → Res (List (Nat × List Char) × Bytes)
  | 0, bs, defs => .ok (defs, bs)
  | n + 1, bs, defs =>
    match Xlsb.nextSkipBlocks 0x002C [] (bs.length + 1) [] bs with
    | .ok (_, buf, r) =>
      if buf.length < 2 then .err "Len:BrtFmt"
      else
        match Xlsb.wideStr (buf.drop 2) with
        | .ok (units, _) => xlsbFmtLoop n r (defs ++ [(Xlsb.u16le buf, utf16Decode units)])
        | .err e => .err e
        | .panic m => .panic m
        | .outOfFuel => .outOfFuel
    | .err e => .err e
    | .panic m => .panic m
    | .outOfFuel => .outOfFuel

/-- the same for BrtXF (0x002F) after BrtBeginCellXFs: the `iFmt` field is bytes 2..4 -/
def xlsbXfLoop : Nat → Bytes → List Nat → Res (List Nat)
  | 0, _, xfs => .ok xfs
  | n + 1, bs, xfs =>
    match Xlsb.nextSkipBlocks 0x002F [] (bs.length + 1) [] bs with
    | .ok (_, buf, r) =>
      if buf.length < 4 then .err "Len:BrtXF"
      else xlsbXfLoop n r (xfs ++ [Xlsb.u16le (buf.drop 2)])
    | .err e => .err e
    | .panic m => .panic m
    | .outOfFuel => .outOfFuel

/-- the outer `loop { match iter.read_type()? { … } }`: BrtBeginFmts (0x0267) and BrtBeginCellXFs (0x0269) are
    interpreted, the payload of every other record is skipped (so the BrtXF records of the cellStyleXfs block, the
    fonts, fills, borders are inert); the loop ends after the cell XFs. A part that ends before a BrtBeginCellXFs
    is an I/O error. -/
def xlsbStylesLoop : Nat → Bytes → List (Nat × List Char) → Res (List (Nat × List Char) × List Nat)
  | 0, _, _ => .outOfFuel
  | fuel + 1, bs, defs =>
    match Xlsb.readType bs with
    | .ok (typ, r) =>
      match Xlsb.fillBuffer [] r with
      | .ok (_, buf, r') =>
        if typ = 0x0267 then
          if buf.length < 4 then .err "Len:BrtBeginFmts"
          else
            match xlsbFmtLoop (Xlsb.u32le buf) r' defs with
            | .ok (defs', r'') => xlsbStylesLoop fuel r'' defs'
            | .err e => .err e
            | .panic m => .panic m
            | .outOfFuel => .outOfFuel
        else if typ = 0x0269 then
          if buf.length < 4 then .err "Len:BrtBeginCellXFs"
          else
            match xlsbXfLoop (Xlsb.u32le buf) r' [] with
            | .ok xfs => .ok (defs, xfs)
            | .err e => .err e
            | .panic m => .panic m
            | .outOfFuel => .outOfFuel
        else xlsbStylesLoop fuel r' defs
      | .err e => .err e
      | .panic m => .panic m
      | .outOfFuel => .outOfFuel
    | .err e => .err e
    | .panic m => .panic m
    | .outOfFuel => .outOfFuel

/-- `self.formats` of an `Xlsb` whose `xl/styles.bin` is `bs` -/
def xlsbStylesOfBytes (bs : Bytes) : Res (List CellFormat) :=
  match xlsbStylesLoop (bs.length + 1) bs [] with
  | .ok (defs, xfs) => xlsbStyles defs xfs
  | .err e => .err e
  | .panic m => .panic m
  | .outOfFuel => .outOfFuel

/-! ## xlsx: the event loop of `read_styles` -/

/-- an XML event of `xl/styles.xml` as quick-xml reports it (empty elements expanded): names are qualified names,
    attribute values the unescaped UTF-8 bytes. `other` = text, comment, declaration, processing instruction. The
    end of the list is `Eof`. -/
inductive SEv where
  | start (name : List Char) (attrs : List (List Char × Bytes))
  | end_ (name : List Char)
  | other
  deriving Repr, DecidableEq

def afterColon : List Char → Option (List Char)
  | [] => none
  | c :: cs => if c = ':' then some cs else afterColon cs

/-- `QName::local_name`: the part after the first `:`, the whole name when there is none -/
def localName (n : List Char) : List Char := (afterColon n).getD n

def attr (k : String) (attrs : List (List Char × Bytes)) : Option Bytes :=
  match attrs.find? (fun a => a.1 == k.toList) with
  | some a => some a.2
  | none => none

/-- where the reader stands: the outer loop, the inner loop of `<numFmts>`, the inner loop of `<cellXfs>` -/
inductive SMode where
  | top
  | numFmts
  | cellXfs
  deriving Repr, DecidableEq

/-- `read_styles`: `defs` = `number_formats` so far (an empty `formatCode` is not recorded; keys are `format_id` of the
    attribute text, and so is the id an `<xf>` is looked up with), `fmts` = `self.formats`
    so far. An `<xf>` is classified when it is met, with the definitions read SO FAR (a `<numFmts>` block written
    after `<cellXfs>` comes too late). `<xf>` / `<numFmt>` outside their block (cellStyleXfs, dxfs) are not looked
    at. Elements are recognised by local name, attributes by their full name. A `formatCode` that is not UTF-8 is
    a decoding error. -/
def xlsxStylesLoop : SMode → List SEv → List (Bytes × List Char) → List CellFormat → Res (List CellFormat)
  | .top, [], _, _ => .err "XmlEof:styleSheet"
  | .numFmts, [], _, _ => .err "XmlEof:numFmts"
  | .cellXfs, [], _, _ => .err "XmlEof:cellXfs"
  | .top, ev :: rest, defs, fmts =>
    match ev with
    | .start n _ =>
      if localName n = "numFmts".toList then xlsxStylesLoop .numFmts rest defs fmts
      else if localName n = "cellXfs".toList then xlsxStylesLoop .cellXfs rest defs fmts
      else xlsxStylesLoop .top rest defs fmts
    | .end_ n => if localName n = "styleSheet".toList then .ok fmts else xlsxStylesLoop .top rest defs fmts
    | .other => xlsxStylesLoop .top rest defs fmts
  | .numFmts, ev :: rest, defs, fmts =>
    match ev with
    | .start n attrs =>
      if localName n = "numFmt".toList then
        let id := (attr "numFmtId" attrs).getD []
        match attr "formatCode" attrs with
        | none => xlsxStylesLoop .numFmts rest defs fmts
        | some code =>
          match Utf8.utf8Decode (code.map (·.toNat)) with
          | none => .err "Encoding"
          | some cs => xlsxStylesLoop .numFmts rest (if cs.isEmpty then defs else defs ++ [(formatId id, cs)]) fmts
      else xlsxStylesLoop .numFmts rest defs fmts
    | .end_ n => if localName n = "numFmts".toList then xlsxStylesLoop .top rest defs fmts else xlsxStylesLoop .numFmts rest defs fmts
    | .other => xlsxStylesLoop .numFmts rest defs fmts
  | .cellXfs, ev :: rest, defs, fmts =>
    match ev with
    | .start n attrs =>
      if localName n = "xf".toList then
        match xlsxStyles defs [(attr "numFmtId" attrs).map formatId] with
        | .ok cls => xlsxStylesLoop .cellXfs rest defs (fmts ++ cls)
        | .err e => .err e
        | .panic m => .panic m
        | .outOfFuel => .outOfFuel
      else xlsxStylesLoop .cellXfs rest defs fmts
    | .end_ n => if localName n = "cellXfs".toList then xlsxStylesLoop .top rest defs fmts else xlsxStylesLoop .cellXfs rest defs fmts
    | .other => xlsxStylesLoop .cellXfs rest defs fmts

/-- `self.formats` of an `Xlsx` whose `xl/styles.xml` yields the events `evs` -/
def xlsxStylesOfEvents (evs : List SEv) : Res (List CellFormat) := xlsxStylesLoop .top evs [] []

end Formats
