/-! Model of format auto-detection (`/repo/src/auto.rs`): `open_workbook_auto_from_rs` tries the four readers in a
    fixed order and keeps the first that opens; `open_workbook_auto` dispatches on the file extension first and falls
    back to the same trial order only for an unknown extension.

    What each reader's `new` says about the bytes is an input (`Accepts`): the readers are modelled by their owners
    (C01–C04, C13, C20); this file models the choice. -/

namespace Auto

inductive Fmt where | xls | xlsx | xlsb | ods
  deriving DecidableEq, Repr

/-- for each format: does that format's `Reader::new` return `Ok` on the bytes -/
structure Accepts where
  xls : Bool
  xlsx : Bool
  xlsb : Bool
  ods : Bool
  deriving DecidableEq, Repr

def Accepts.of (a : Accepts) : Fmt → Bool
  | .xls => a.xls | .xlsx => a.xlsx | .xlsb => a.xlsb | .ods => a.ods

/-- the order of the `if let Ok(..) … else if let Ok(..)` chain -/
def trialOrder : List Fmt := [.xls, .xlsx, .xlsb, .ods]

/-- `open_workbook_auto_from_rs`: `some f` = `Ok(Sheets::f(..))`, `none` = `Err("Cannot detect file format")` -/
def fromRs (a : Accepts) : Option Fmt := trialOrder.find? a.of

inductive Outcome where
  | opened (f : Fmt)
  /-- the extension named a reader and that reader refused the bytes: its error is returned, no other is tried -/
  | readerError (f : Fmt)
  | cannotDetect
  deriving DecidableEq, Repr

/-- the extension table of `open_workbook_auto` (case-sensitive `match` on `path.extension()`) -/
def byExtension (ext : Option String) : Option Fmt :=
  match ext with
  | some "xls" | some "xla" => some .xls
  | some "xlsx" | some "xlsm" | some "xlam" => some .xlsx
  | some "xlsb" => some .xlsb
  | some "ods" => some .ods
  | _ => none

/-- `open_workbook_auto` -/
def fromPath (ext : Option String) (a : Accepts) : Outcome :=
  match byExtension ext with
  | some f => if a.of f then .opened f else .readerError f
  | none => match fromRs a with
    | some f => .opened f
    | none => .cannotDetect

end Auto
