/-! Mirror of `enum CellFormat { Other, DateTime, TimeDelta }` (`src/formats.rs`). Kept in its own
    import-free file so that the generated tables (`Gen/FormatTables.lean`) can refer to it; the translator
    checks on every run that the Rust enum still has exactly these three variants, in this order. -/

inductive CellFormat where
  | other
  | dateTime
  | timeDelta
  deriving DecidableEq, Repr, Inhabited

namespace CellFormat

/-- canonical wire name = the Rust variant name -/
def tag : CellFormat → String
  | other => "Other"
  | dateTime => "DateTime"
  | timeDelta => "TimeDelta"

end CellFormat
