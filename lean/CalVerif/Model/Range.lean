import CalVerif.Prim.Res
/-! Model of `calamine::Range<T>` (`/repo/src/lib.rs`): the flat row-major vector and the same
    index arithmetic as the Rust code. Coordinates are `u32` in Rust; here `Nat` with the
    overflow points (`overflow-checks` on) made explicit as `panic`.

    Each definition names the Rust function it mirrors. `&mut self` becomes state passing. -/

namespace Range

structure Rng (α : Type) where
  sr : Nat
  sc : Nat
  er : Nat
  ec : Nat
  inner : List α
  deriving Repr

variable {α : Type} [Inhabited α]

def U32 : Nat := 4294967296

/-- `is_empty` -/
def Rng.isEmpty (r : Rng α) : Bool := r.inner.length = 0
/-- `width` -/
def Rng.width (r : Rng α) : Nat := if r.inner.length = 0 then 0 else r.ec - r.sc + 1
/-- `height` -/
def Rng.height (r : Rng α) : Nat := if r.inner.length = 0 then 0 else r.er - r.sr + 1
/-- `start` -/
def Rng.start (r : Rng α) : Option (Nat × Nat) := if r.inner.length = 0 then none else some (r.sr, r.sc)
/-- `end` -/
def Rng.end_ (r : Rng α) : Option (Nat × Nat) := if r.inner.length = 0 then none else some (r.er, r.ec)

/-- `Range::empty` -/
def empty : Rng α := ⟨0, 0, 0, 0, []⟩

/-- `Range::new`: `assert!(start <= end)` compares the tuples lexicographically; the element
    count is computed in `u32`. -/
def new (sr sc er ec : Nat) : Res (Rng α) :=
  if ¬ (sr < er ∨ (sr = er ∧ sc ≤ ec)) then .panic "invalid range bounds"
  else if ec < sc then .panic "u32 sub overflow"
  else if er - sr + 1 ≥ U32 ∨ ec - sc + 1 ≥ U32 then .panic "u32 add overflow"
  else if (er - sr + 1) * (ec - sc + 1) ≥ U32 then .panic "u32 mul overflow"
  else .ok ⟨sr, sc, er, ec, List.replicate ((er - sr + 1) * (ec - sc + 1)) default⟩

/-- number of chunks `slice.chunks(w)` yields (w > 0) -/
def nChunks (len w : Nat) : Nat := (len + w - 1) / w

/-- `for sce in inner.chunks(w) { data.extend(sce); data.extend(empty) }` with `k` chunks:
    every old row followed by `extra` defaults -/
def padRows (w extra : Nat) : Nat → List α → List α
  | 0, _ => []
  | k+1, l => l.take w ++ List.replicate extra default ++ padRows w extra k (l.drop w)

/-- the resizing `match` of `Range::set_value` -/
def grow (r : Rng α) (row col : Nat) : Rng α :=
  if r.ec < col then
    let h := if r.er < row then row - r.sr + 1 else r.height
    let w := col - r.sc + 1
    { r with er := (if r.er < row then row else r.er), ec := col,
             inner := padRows r.width (w - r.width) (nChunks r.inner.length r.width) r.inner
                      ++ List.replicate (w * (h - r.height)) default }
  else if r.er < row then
    { r with er := row, inner := r.inner ++ List.replicate ((row - r.er) * r.width) default }
  else r

/-- `Range::set_value` (absolute position). Panics on an empty range (index / `chunks(0)`) and on
    a position before the start corner (`assert!`). -/
def setValue (r : Rng α) (row col : Nat) (v : α) : Res (Rng α) :=
  if ¬ (r.sr ≤ row ∧ r.sc ≤ col) then .panic "absolute_position out of bounds"
  else if r.inner.length = 0 then .panic "empty range"
  else if r.ec < col ∧ (col - r.sc + 1 ≥ U32 ∨ (r.er < row ∧ row - r.sr + 1 ≥ U32)) then .panic "u32 add overflow"
  else
    let idx := (row - (grow r row col).sr) * (grow r row col).width + (col - (grow r row col).sc)
    if idx < (grow r row col).inner.length then
      .ok { grow r row col with inner := (grow r row col).inner.set idx v }
    else .panic "index out of bounds"

/-- `Range::get` (relative position) -/
def get (r : Rng α) (row col : Nat) : Option α :=
  if col ≥ r.width ∨ row ≥ r.height then none else r.inner[row * r.width + col]?

/-- `Range::get_value` (absolute position) -/
def getValue (r : Rng α) (row col : Nat) : Option α :=
  if row ≥ r.sr ∧ row ≤ r.er ∧ col ≥ r.sc ∧ col ≤ r.ec then get r (row - r.sr) (col - r.sc) else none

/-- `Index<(usize, usize)>`: asserts both coordinates, then indexes the vector -/
def index (r : Rng α) (row col : Nat) : Res α :=
  if ¬ (col < r.width ∧ row < r.height) then .panic "index out of bounds"
  else match r.inner[row * r.width + col]? with
    | some v => .ok v
    | none => .panic "index out of bounds"

/-- `Index<usize>` / `IndexMut<usize>` (a whole row): `&self.inner[index * width .. (index + 1) * width]` — slice
    indexing panics when the end exceeds the length; on an EMPTY range the width is 0 and every index yields the
    empty slice -/
def indexRow (r : Rng α) (i : Nat) : Res (List α) :=
  if (i + 1) * r.width ≤ r.inner.length then .ok ((r.inner.drop (i * r.width)).take r.width)
  else .panic "range end index out of range for slice"

/-- `IndexMut<(usize, usize)>` followed by an assignment: same assertion as `Index`, then the cell is overwritten;
    the rectangle never changes -/
def indexSet (r : Rng α) (row col : Nat) (v : α) : Res (Rng α) :=
  if ¬ (col < r.width ∧ row < r.height) then .panic "index out of bounds"
  else if row * r.width + col < r.inner.length then .ok { r with inner := r.inner.set (row * r.width + col) v }
  else .panic "index out of bounds"

/-- `slice.chunks(w)` with `k` chunks -/
def chunksN (w : Nat) : Nat → List α → List (List α)
  | 0, _ => []
  | k+1, l => l.take w :: chunksN w k (l.drop w)

/-- `Range::rows` collected -/
def rows (r : Rng α) : List (List α) :=
  if r.inner.length = 0 then [] else chunksN r.width (nChunks r.inner.length r.width) r.inner

/-- `Range::headers` before the `to_string` of each cell: the first row, `None` for an empty range -/
def firstRow (r : Rng α) : Option (List α) := (rows r).head?

/-- `Range::cells` collected: `(i / width, i % width, v)` -/
def cellsFrom (w : Nat) : Nat → List α → List (Nat × Nat × α)
  | _, [] => []
  | i, v :: rest => (i / w, i % w, v) :: cellsFrom w (i + 1) rest

def cells (r : Rng α) : List (Nat × Nat × α) := cellsFrom r.width 0 r.inner

/-- `Range::used_cells` collected -/
def usedCells [DecidableEq α] (r : Rng α) : List (Nat × Nat × α) :=
  (cells r).filter (fun c => c.2.2 ≠ default)

/-- `other_row[dOff .. dOff+n].clone_from_slice(&self_row[sOff .. sOff+n])` on the flat vectors -/
def copySlice (dst src : List α) (dOff sOff n : Nat) : List α :=
  dst.take dOff ++ (src.drop sOff).take n ++ dst.drop (dOff + n)

/-- the zip loop of `Range::range`: rows `k-1 … 0` of the overlap -/
def copyRows (src : List α) (dw sw dr sr_ dc sc_ nc : Nat) : Nat → List α → List α
  | 0, dst => dst
  | k+1, dst =>
    copyRows src dw sw dr sr_ dc sc_ nc k (copySlice dst src ((dr + k) * dw + dc) ((sr_ + k) * sw + sc_) nc)

/-- `Range::range` -/
def range (r : Rng α) (sr sc er ec : Nat) : Res (Rng α) :=
  match (new sr sc er ec : Res (Rng α)) with
  | .ok other =>
    if r.inner.length = 0 then .ok other
    else
      let startRow := max r.sr sr
      let endRow := min r.er er
      let startCol := max r.sc sc
      let endCol := min r.ec ec
      if startRow > endRow ∨ startCol > endCol then .ok other
      else
        let data := copyRows r.inner other.width r.width (startRow - sr) (startRow - r.sr)
            (startCol - sc) (startCol - r.sc) (endCol + 1 - startCol) (endRow + 1 - startRow) other.inner
        .ok { other with inner := data }
  | .err e => .err e
  | .panic s => .panic s
  | .outOfFuel => .outOfFuel

/-- `Range::from_sparse`; a cell is `(row, col, value)`. The placement loop
    `if let Some(v) = v.get_mut(idx) { *v = c.val }` on the flat vector. -/
def sparseStep (rs cs cols len : Nat) (v : List α) (c : Nat × Nat × α) : List α :=
  let idx := (c.1 - rs) * cols + (c.2.1 - cs)
  if idx < len then v.set idx c.2.2 else v

/-- `Range::from_sparse` (after fix D40): all four bounds are the minimum / maximum over all cells, found in
    one loop; the cells may come in any order. The Rust loop starts the minima from `u32::MAX`, which is ≥ every
    `u32` coordinate — the same as starting from the first cell's coordinate, which is what the model does (so
    that the minimum is exact for every `Nat`, not only below 2^32); the maxima start from `0` as in the code. -/
def fromSparse (cells : List (Nat × Nat × α)) : Res (Rng α) :=
  match cells with
  | [] => .ok empty
  | c0 :: _ =>
    let rs := cells.foldl (fun m c => if c.1 < m then c.1 else m) c0.1
    let re := cells.foldl (fun m c => if c.1 > m then c.1 else m) 0
    let cs := cells.foldl (fun m c => if c.2.1 < m then c.2.1 else m) c0.2.1
    let ce := cells.foldl (fun m c => if c.2.1 > m then c.2.1 else m) 0
    if ce - cs + 1 ≥ U32 then .panic "u32 add overflow"
    else if re - rs + 1 ≥ U32 then .panic "u32 add overflow"
    else
      let cols := ce - cs + 1
      let rows := re - rs + 1
      let len := cols * rows
      .ok ⟨rs, cs, re, ce, cells.foldl (sparseStep rs cs cols len) (List.replicate len default)⟩

/-! ### the abstract view -/

/-- the data invariant of `Range` -/
structure Inv (r : Rng α) : Prop where
  len : r.inner.length = r.height * r.width
  ord : r.inner.length ≠ 0 → r.sr ≤ r.er ∧ r.sc ≤ r.ec

/-- value at an absolute position, default outside the rectangle:
    `get_value(p).cloned().unwrap_or_default()` -/
def Rng.valAt (r : Rng α) (row col : Nat) : α :=
  if r.inner.length ≠ 0 ∧ r.sr ≤ row ∧ row ≤ r.er ∧ r.sc ≤ col ∧ col ≤ r.ec then
    r.inner.getD ((row - r.sr) * r.width + (col - r.sc)) default
  else default

/-- the value carried by the *last* cell of `cells` that sits at position `(p, q)`, if any -/
def lastAt (cells : List (Nat × Nat × α)) (p q : Nat) : Option α :=
  (cells.reverse.find? (fun c => decide (c.1 = p ∧ c.2.1 = q))).map (·.2.2)

/-! ### operation histories -/

/-- one operation of the public API that constructs or mutates a `Range` -/
inductive Op (α : Type) where
  | new (sr sc er ec : Nat)
  | empty
  | fromSparse (cells : List (Nat × Nat × α))
  | setValue (row col : Nat) (v : α)
  | range (sr sc er ec : Nat)

/-- apply one operation to the current range (constructors replace it) -/
def step (r : Rng α) : Op α → Res (Rng α)
  | .new sr sc er ec => new sr sc er ec
  | .empty => .ok empty
  | .fromSparse cells => fromSparse cells
  | .setValue row col v => setValue r row col v
  | .range sr sc er ec => range r sr sc er ec

/-- run a history from a given range; stops at the first panic -/
def runFrom (r : Rng α) : List (Op α) → Res (Rng α)
  | [] => .ok r
  | op :: ops =>
    match step r op with
    | .ok r' => runFrom r' ops
    | .err e => .err e
    | .panic s => .panic s
    | .outOfFuel => .outOfFuel

/-- run a history from `Range::empty()` -/
def run (ops : List (Op α)) : Res (Rng α) := runFrom empty ops

/-- `s ≤ e` componentwise and the element count (and both spans) fit `u32` -/
def rectPre (sr sc er ec : Nat) : Prop :=
  sr ≤ er ∧ sc ≤ ec ∧ er - sr + 1 < U32 ∧ ec - sc + 1 < U32 ∧ (er - sr + 1) * (ec - sc + 1) < U32

/-- the precondition of `from_sparse` (after fix D40 the cells may come in any order): all coordinates are
    `u32` and the row / column spans `+ 1` fit `u32` -/
def sparsePre (cells : List (Nat × Nat × α)) : Prop :=
  (∀ c ∈ cells, c.1 < U32 ∧ c.2.1 < U32) ∧
  (∀ c ∈ cells, ∀ c' ∈ cells, c'.1 - c.1 + 1 < U32 ∧ c'.2.1 - c.2.1 + 1 < U32)

/-- the precondition `from_sparse` documented before fix D40 (cells sorted by row: every row lies between the
    first's and the last's) together with the `u32` bounds; implies `sparsePre`, and under it the row bounds
    are the first and the last cell's rows -/
def sparsePreSorted (cells : List (Nat × Nat × α)) : Prop :=
  match cells with
  | [] => True
  | c0 :: _ =>
    (∀ c ∈ cells, c0.1 ≤ c.1 ∧ c.1 ≤ (cells.getLast?.getD c0).1 ∧ c.1 < U32 ∧ c.2.1 < U32) ∧
    (cells.getLast?.getD c0).1 - c0.1 + 1 < U32 ∧
    (∀ c ∈ cells, ∀ c' ∈ cells, c'.2.1 - c.2.1 + 1 < U32)

/-- the documented precondition of each operation relative to the current range -/
def Pre (r : Rng α) : Op α → Prop
  | .new sr sc er ec => rectPre sr sc er ec
  | .empty => True
  | .fromSparse cells => sparsePre cells
  | .setValue row col _ =>
    r.inner.length ≠ 0 ∧ r.sr ≤ row ∧ r.sc ≤ col ∧ row - r.sr + 1 < U32 ∧ col - r.sc + 1 < U32
  | .range sr sc er ec => rectPre sr sc er ec

instance (sr sc er ec : Nat) : Decidable (rectPre sr sc er ec) := by unfold rectPre; exact inferInstance
instance (cells : List (Nat × Nat × α)) : Decidable (sparsePre cells) := by
  unfold sparsePre; exact inferInstance
instance (cells : List (Nat × Nat × α)) : Decidable (sparsePreSorted cells) := by
  unfold sparsePreSorted; cases cells <;> exact inferInstance
instance (r : Rng α) (op : Op α) : Decidable (Pre r op) := by
  cases op <;> unfold Pre <;> exact inferInstance

/-- every operation of the history meets its precondition in the state it is applied to -/
def Safe (r : Rng α) : List (Op α) → Prop
  | [] => True
  | op :: ops => Pre r op ∧ ∀ r', step r op = .ok r' → Safe r' ops

end Range
