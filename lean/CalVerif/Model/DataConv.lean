import CalVerif.Model.Range
/-! Model of the two cell value types and their conversion (`/repo/src/datatype.rs`): `DataRef` (borrowed; what
    `worksheet_range_ref` yields), `Data` (owned; what `worksheet_range` yields), `impl From<DataRef> for Data`, and the
    `DataType` accessors of both (`is_*`, `get_*`, `as_string`, `as_i64`, `as_f64`).

    Floats are their bit patterns; `ExcelDateTime` is its three fields. What std / `atoi_simd` / `fast_float2` compute
    (`f64::to_string`, `as i64`, the two string parsers) are parameters (`Std`): the theorems hold for every choice. -/

namespace DataConv

abbrev Str := List Char

/-- `ExcelDateTime { value, datetime_type, is_1904 }` -/
structure Edt where
  bits : Nat
  isDuration : Bool
  is1904 : Bool
  deriving DecidableEq, Repr

/-- `DataRef<'a>` -/
inductive DataRef where
  | int (v : Int)
  | float (bits : Nat)
  | string (s : Str)
  | sharedString (s : Str)
  | bool (b : Bool)
  | dateTime (d : Edt)
  | dateTimeIso (s : Str)
  | durationIso (s : Str)
  | error (kind : Nat)
  | empty
  deriving DecidableEq, Repr

/-- `Data` -/
inductive Data where
  | int (v : Int)
  | float (bits : Nat)
  | string (s : Str)
  | bool (b : Bool)
  | dateTime (d : Edt)
  | dateTimeIso (s : Str)
  | durationIso (s : Str)
  | error (kind : Nat)
  | empty
  deriving DecidableEq, Repr

instance : Inhabited DataRef := ⟨.empty⟩
instance : Inhabited Data := ⟨.empty⟩

/-- `impl From<DataRef<'a>> for Data` -/
def toData : DataRef → Data
  | .int v => .int v
  | .float b => .float b
  | .string s => .string s
  | .sharedString s => .string s
  | .bool b => .bool b
  | .dateTime d => .dateTime d
  | .dateTimeIso s => .dateTimeIso s
  | .durationIso s => .durationIso s
  | .error k => .error k
  | .empty => .empty

/-- what the accessors take from std and the two number-parsing crates -/
structure Std where
  floatToString : Nat → Str
  intToString : Int → Str
  floatAsI64 : Nat → Int
  intAsF64 : Int → Nat
  boolAsF64 : Bool → Nat
  atoiI64 : Str → Option Int
  parseF64 : Str → Option Nat

/-- every observation the `DataType` trait offers, as one record -/
structure View where
  isEmpty : Bool
  isInt : Bool
  isFloat : Bool
  isBool : Bool
  isString : Bool
  isDurationIso : Bool
  isDateTime : Bool
  isDateTimeIso : Bool
  isError : Bool
  getInt : Option Int
  getFloat : Option Nat
  getBool : Option Bool
  getString : Option Str
  getDateTime : Option Edt
  getDateTimeIso : Option Str
  getDurationIso : Option Str
  getError : Option Nat
  asString : Option Str
  asI64 : Option Int
  asF64 : Option Nat
  deriving DecidableEq, Repr

/-- `impl DataType for DataRef<'_>` -/
def viewRef (σ : Std) (v : DataRef) : View :=
  { isEmpty := v == .empty
    isInt := match v with | .int _ => true | _ => false
    isFloat := match v with | .float _ => true | _ => false
    isBool := match v with | .bool _ => true | _ => false
    isString := match v with | .string _ | .sharedString _ => true | _ => false
    isDurationIso := match v with | .durationIso _ => true | _ => false
    isDateTime := match v with | .dateTime _ => true | _ => false
    isDateTimeIso := match v with | .dateTimeIso _ => true | _ => false
    isError := match v with | .error _ => true | _ => false
    getInt := match v with | .int x => some x | _ => none
    getFloat := match v with | .float x => some x | _ => none
    getBool := match v with | .bool x => some x | _ => none
    getString := match v with | .string s | .sharedString s => some s | _ => none
    getDateTime := match v with | .dateTime d => some d | _ => none
    getDateTimeIso := match v with | .dateTimeIso s => some s | _ => none
    getDurationIso := match v with | .durationIso s => some s | _ => none
    getError := match v with | .error k => some k | _ => none
    asString := match v with
      | .float x => some (σ.floatToString x) | .int x => some (σ.intToString x)
      | .string s | .sharedString s => some s | _ => none
    asI64 := match v with
      | .int x => some x | .float x => some (σ.floatAsI64 x) | .bool b => some (if b then 1 else 0)
      | .string s | .sharedString s => σ.atoiI64 s | _ => none
    asF64 := match v with
      | .int x => some (σ.intAsF64 x) | .float x => some x | .bool b => some (σ.boolAsF64 b)
      | .string s | .sharedString s => σ.parseF64 s | _ => none }

/-- `impl DataType for Data` -/
def viewData (σ : Std) (v : Data) : View :=
  { isEmpty := v == .empty
    isInt := match v with | .int _ => true | _ => false
    isFloat := match v with | .float _ => true | _ => false
    isBool := match v with | .bool _ => true | _ => false
    isString := match v with | .string _ => true | _ => false
    isDurationIso := match v with | .durationIso _ => true | _ => false
    isDateTime := match v with | .dateTime _ => true | _ => false
    isDateTimeIso := match v with | .dateTimeIso _ => true | _ => false
    isError := match v with | .error _ => true | _ => false
    getInt := match v with | .int x => some x | _ => none
    getFloat := match v with | .float x => some x | _ => none
    getBool := match v with | .bool x => some x | _ => none
    getString := match v with | .string s => some s | _ => none
    getDateTime := match v with | .dateTime d => some d | _ => none
    getDateTimeIso := match v with | .dateTimeIso s => some s | _ => none
    getDurationIso := match v with | .durationIso s => some s | _ => none
    getError := match v with | .error k => some k | _ => none
    asString := match v with
      | .float x => some (σ.floatToString x) | .int x => some (σ.intToString x) | .string s => some s | _ => none
    asI64 := match v with
      | .int x => some x | .float x => some (σ.floatAsI64 x) | .bool b => some (if b then 1 else 0)
      | .string s => σ.atoiI64 s | _ => none
    asF64 := match v with
      | .int x => some (σ.intAsF64 x) | .float x => some x | .bool b => some (σ.boolAsF64 b)
      | .string s => σ.parseF64 s | _ => none }

/-- `Xlsx::worksheet_range` / `Xlsb::worksheet_range`: the borrowed range with every cell converted; corners kept -/
def toOwnedRange (r : Range.Rng DataRef) : Range.Rng Data := { r with inner := r.inner.map toData }

end DataConv
