import CalVerif.Prim.Res
/-! Model of the XLSX shared-formula machinery (property C15).

    Rust sources mirrored (the code in the tree AFTER the fixes of ledger rows D11, D12, D13):
    * `/repo/src/xlsx/mod.rs`: `get_row_and_optional_column`, `get_row_column`, `get_dimension`,
      `column_number_to_name`, `coordinate_to_name`, `offset_cell_ref` (was `offset_cell_name`),
      `is_name_char`, `replace_cell_names`;
    * `/repo/src/xlsx/cells_reader.rs`: the `formulas` table of `XlsxCellReader` and the
      shared-formula branch of `next_formula`; `Xlsx::worksheet_formula` (drops empty formulas).

    Conventions. Rust strings are `List Char` here (Rust iterates `char`s; where the Rust code
    scans UTF-8 *bytes* — `offset_cell_ref`, `get_row_and_optional_column` — every test it makes is
    an ASCII class test, which fails on each byte of a non-ASCII character exactly as the model's
    test fails on the character itself). `u32`/`i64` values are `Nat`/`Int`: on the call path
    modelled here a name has at most 3 letters and 7 digits, so the `u32` accumulators of
    `get_row_and_optional_column` stay below 10^8 and cannot overflow; `offset_cell_ref` adds the
    offset with `checked_add`, which differs from unbounded addition only on results far outside
    the sheet (both give `None`).

    `get_row_and_optional_column` accumulates with saturating `u32` arithmetic; the model uses
    unbounded `Nat`, which is the same function for names of at most 6 letters and 9 digits (the
    harness never writes longer names into a `ref` attribute).

    NOTE (duplication): the A1 helpers (`getRowAndOptionalColumn`, `columnNumberToName`,
    `coordinateToName`, `getDimension`) are also modelled by property C01 in `Model/XlsxCells.lean`
    (over byte lists `List Nat`, with the saturation made explicit). That file did not exist when this
    one was written and works on another representation; the helpers are therefore defined locally
    over `List Char` in the namespace `SharedFormula`, and both copies are tied to the same Rust
    functions by their own correspondence runs. -/

namespace SharedFormula

def MAX_ROWS : Nat := 1048576
def MAX_COLUMNS : Nat := 16384

/-! ### A1 names -/

/-- loop state of `get_row_and_optional_column` -/
structure RC where
  row : Nat
  col : Nat
  pow : Nat
  readrow : Bool
  deriving Repr, DecidableEq

/-- the letter arms of the `match` in `get_row_and_optional_column` (`k = c - b'A'` or `c - b'a'`) -/
def rcLetter (s : RC) (k : Nat) : Res RC :=
  if s.readrow then
    if s.row = 0 then .err "RangeWithoutRowComponent"
    else .ok { row := s.row, col := s.col + (k + 1) * 1, pow := 1 * 26, readrow := false }
  else .ok { s with col := s.col + (k + 1) * s.pow, pow := s.pow * 26 }

/-- one iteration of `for c in range.iter().rev()` in `get_row_and_optional_column` -/
def rcStep (s : RC) (c : Char) : Res RC :=
  if c.isDigit then
    if s.readrow then .ok { s with row := s.row + (c.toNat - 48) * s.pow, pow := s.pow * 10 }
    else .err "NumericColumn"
  else if c.isUpper then rcLetter s (c.toNat - 65)
  else if c.isLower then rcLetter s (c.toNat - 97)
  else .err "Alphanumeric"

def rcFold : List Char → RC → Res RC
  | [], s => .ok s
  | c :: cs, s =>
    match rcStep s c with
    | .ok s' => rcFold cs s'
    | .err e => .err e
    | .panic e => .panic e
    | .outOfFuel => .outOfFuel

/-- `get_row_and_optional_column` -/
def getRowAndOptionalColumn (range : List Char) : Res (Nat × Option Nat) :=
  match rcFold range.reverse ⟨0, 0, 1, true⟩ with
  | .ok s =>
    if s.row = 0 then .err "RangeWithoutRowComponent"
    else .ok (s.row - 1, if s.col = 0 then none else some (s.col - 1))
  | .err e => .err e
  | .panic e => .panic e
  | .outOfFuel => .outOfFuel

/-- `get_row_column` -/
def getRowColumn (range : List Char) : Res (Nat × Nat) :=
  match getRowAndOptionalColumn range with
  | .ok (row, some col) => .ok (row, col)
  | .ok (_, none) => .err "RangeWithoutColumnComponent"
  | .err e => .err e
  | .panic e => .panic e
  | .outOfFuel => .outOfFuel

/-- the `while num > 0` loop of `column_number_to_name`; the letters in push order (least
    significant first). `fuel = num` is always enough (`(num - 1) / 26 < num`). -/
def colLoop : Nat → Nat → List Char
  | 0, _ => []
  | f + 1, num => if num > 0 then Char.ofNat ((num - 1) % 26 + 65) :: colLoop f ((num - 1) / 26) else []

/-- `column_number_to_name` -/
def columnNumberToName (num : Nat) : Res (List Char) :=
  if num ≥ MAX_COLUMNS then .err "column number overflow"
  else .ok (colLoop (num + 1) (num + 1)).reverse

/-- decimal digits of `n`, least significant first (`n > 0`) -/
def decLoop : Nat → Nat → List Char
  | 0, _ => []
  | f + 1, n => if n = 0 then [] else Char.ofNat (48 + n % 10) :: decLoop f (n / 10)

/-- `u32::to_string` (Rust `std`, trusted; compared with the real one by the correspondence run) -/
def natToString (n : Nat) : List Char :=
  if n = 0 then ['0'] else (decLoop n n).reverse

/-- `coordinate_to_name` -/
def coordinateToName (cell : Nat × Nat) : Res (List Char) :=
  match columnNumberToName cell.2 with
  | .ok col => .ok (col ++ natToString (cell.1 + 1))
  | .err e => .err e
  | .panic e => .panic e
  | .outOfFuel => .outOfFuel

/-- rectangle `Dimensions { start: (sr, sc), end: (er, ec) }` -/
structure Rect where
  sr : Nat
  sc : Nat
  er : Nat
  ec : Nat
  deriving Repr, DecidableEq

/-- `Dimensions::contains` -/
def Rect.contains (d : Rect) (row col : Nat) : Bool :=
  row ≥ d.sr && row ≤ d.er && col ≥ d.sc && col ≤ d.ec

/-- `dimension.split(|c| *c == b':')` -/
def splitColon : List Char → List (List Char)
  | [] => [[]]
  | c :: cs =>
    if c = ':' then [] :: splitColon cs
    else match splitColon cs with
      | p :: ps => (c :: p) :: ps
      | [] => [[c]]

/-- `get_dimension`. The differences `parts[1].0 - parts[0].0` are `saturating_sub` and only feed
    a `warn!`; a reversed rectangle is returned as it is written (it then contains no cell). -/
def getDimension (dimension : List Char) : Res Rect :=
  match splitColon dimension with
  | [a] =>
    match getRowColumn a with
    | .ok p => .ok ⟨p.1, p.2, p.1, p.2⟩
    | .err e => .err e
    | .panic e => .panic e
    | .outOfFuel => .outOfFuel
  | [a, b] =>
    match getRowColumn a with
    | .ok p =>
      match getRowColumn b with
      | .ok q =>
        .ok ⟨p.1, p.2, q.1, q.2⟩
      | .err e => .err e
      | .panic e => .panic e
      | .outOfFuel => .outOfFuel
    | .err e => .err e
    | .panic e => .panic e
    | .outOfFuel => .outOfFuel
  | l =>
    -- `.collect::<Result<Vec<_>, _>>()?` reports the first part that does not parse
    match l.findSome? (fun p => match getRowColumn p with | .ok _ => none | r => some r) with
    | some (.err e) => .err e
    | some (.panic e) => .panic e
    | _ => .err "DimensionCount"

/-! ### reference rewriting (after D13) -/

/-- `is_name_char`: characters of cell references, function names, sheet names, defined names
    and numbers: ASCII letters and digits, `$`, `_`, `.`, and every non-ASCII character -/
def isNameChar (c : Char) : Bool :=
  c.isAlphanum || c.toNat ≥ 128 || c = '$' || c = '_' || c = '.'

/-- strip one leading `$`: (`b.first() == Some(&b'$')`, rest) -/
def stripDollar : List Char → Bool × List Char
  | '$' :: t => (true, t)
  | t => (false, t)

/-- the scanning half of `offset_cell_ref`: split `token` as `$?` letters{1,3} `$?` digits{1,7};
    result (col_abs, letters, row_abs, digits) -/
def scanRef (token : List Char) : Option (Bool × List Char × Bool × List Char) :=
  let a := stripDollar token
  let letters := a.2.takeWhile Char.isAlpha
  let b := stripDollar (a.2.dropWhile Char.isAlpha)
  let digits := b.2.takeWhile Char.isDigit
  if letters.length = 0 ∨ letters.length > 3 then none
  else if b.2.dropWhile Char.isDigit ≠ [] ∨ digits.length = 0 ∨ digits.length > 7 then none
  else some (a.1, letters, b.1, digits)

/-- the computing half of `offset_cell_ref` -/
def moveRef (colAbs : Bool) (letters : List Char) (rowAbs : Bool) (digits : List Char)
    (offset : Int × Int) : Option (List Char) :=
  match getRowColumn (letters ++ digits) with
  | .ok (row, col) =>
    -- the token itself must be a cell of the sheet
    if row ≥ MAX_ROWS ∨ col ≥ MAX_COLUMNS then none else
    let row' : Int := (row : Int) + (if rowAbs then 0 else offset.1)
    let col' : Int := (col : Int) + (if colAbs then 0 else offset.2)
    if row' < 0 ∨ row' ≥ (MAX_ROWS : Int) ∨ col' < 0 ∨ col' ≥ (MAX_COLUMNS : Int) then none else
    match coordinateToName (row'.toNat, col'.toNat) with
    | .ok name =>
      -- `name.iter().position(|c| c.is_ascii_digit())?` splits the name before its first digit
      let colPart := name.takeWhile (fun c => !c.isDigit)
      let rowPart := name.dropWhile (fun c => !c.isDigit)
      if rowPart = [] then none else
      some ((if colAbs then ['$'] else []) ++ colPart ++ (if rowAbs then ['$'] else []) ++ rowPart)
    | _ => none
  | _ => none

/-- `offset_cell_ref`: advance a cell reference (`A1`, `$A1`, `A$1`, `$A$1`) by the offset; only
    the relative components move. `none` if `token` is not a cell reference of the sheet or the
    result would leave the sheet. -/
def offsetCellRef (token : List Char) (offset : Int × Int) : Option (List Char) :=
  match scanRef token with
  | some (colAbs, letters, rowAbs, digits) => moveRef colAbs letters rowAbs digits offset
  | none => none

/-- the inner `for (_, q) in chars.by_ref()` loop: copies up to and including the closing quote
    (or to the end of the text); returns (copied, remaining input) -/
def copyQuoted (q : Char) : List Char → List Char × List Char
  | [] => ([], [])
  | c :: cs =>
    if c = q then ([c], cs)
    else ((c :: (copyQuoted q cs).1), (copyQuoted q cs).2)

/-- the inner loop after `[`: copies a structured-reference specifier (or an external-workbook index)
    up to and including the `]` that closes it, or to the end of the text. `depth` counts the open
    brackets (≥ 1); inside, `'` escapes the next character (`'[`, `']`, `'#`, `''`): `esc` says that
    the previous character was such a `'` (the Rust code fetches the escaped character with a second
    `chars.next()`). Returns (copied, remaining input). -/
def copyBracketAux : Bool → Nat → List Char → List Char × List Char
  | _, _, [] => ([], [])
  | true, depth, c :: cs => (c :: (copyBracketAux false depth cs).1, (copyBracketAux false depth cs).2)
  | false, depth, c :: cs =>
    if c = '\'' then (c :: (copyBracketAux true depth cs).1, (copyBracketAux true depth cs).2)
    else if c = '[' then (c :: (copyBracketAux false (depth + 1) cs).1, (copyBracketAux false (depth + 1) cs).2)
    else if c = ']' then
      if depth ≤ 1 then ([c], cs)
      else (c :: (copyBracketAux false (depth - 1) cs).1, (copyBracketAux false (depth - 1) cs).2)
    else (c :: (copyBracketAux false depth cs).1, (copyBracketAux false depth cs).2)

def copyBracket (depth : Nat) (cs : List Char) : List Char × List Char := copyBracketAux false depth cs

/-- `matches!(chars.peek(), Some('(') | Some('!') | Some('['))` -/
def nextIsCallOrSheet : List Char → Bool
  | '(' :: _ => true
  | '!' :: _ => true
  | '[' :: _ => true
  | _ => false

/-- the `while let Some((start, c)) = chars.next()` loop of `replace_cell_names`.
    One unit of fuel per outer iteration; `fuel = s.length` always suffices. -/
def replaceGo (offset : Int × Int) : Nat → List Char → Res (List Char)
  | _, [] => .ok []
  | 0, _ :: _ => .outOfFuel
  | f + 1, c :: cs =>
    if c = '"' ∨ c = '\'' then
      -- string literals and quoted sheet names are copied as they are
      match replaceGo offset f (copyQuoted c cs).2 with
      | .ok rest => .ok (c :: (copyQuoted c cs).1 ++ rest)
      | r => r
    else if c = '[' then
      -- structured-reference specifiers (`Table1[Q1]`) and workbook indices (`[1]Sheet1!A1`) too
      match replaceGo offset f (copyBracket 1 cs).2 with
      | .ok rest => .ok (c :: (copyBracket 1 cs).1 ++ rest)
      | r => r
    else if isNameChar c then
      -- longest run of name characters
      let token := c :: cs.takeWhile isNameChar
      let after := cs.dropWhile isNameChar
      let out :=
        match offsetCellRef token offset with
        | some cell => if nextIsCallOrSheet after then token else cell
        | none => token
      match replaceGo offset f after with
      | .ok rest => .ok (out ++ rest)
      | r => r
    else
      match replaceGo offset f cs with
      | .ok rest => .ok (c :: rest)
      | r => r

/-- `replace_cell_names` (returns `Ok` on every input after D13) -/
def replaceCellNames (s : List Char) (offset : Int × Int) : Res (List Char) :=
  replaceGo offset s.length s

/-! ### the `formulas` table and `next_formula` (after D11, D12 and the map-by-`si` repair) -/

/-- one value of `formulas: BTreeMap<usize, (String, FormulaMap)>` with
    `FormulaMap = (Dimensions, (u32, u32))`: master text, declared range, master position -/
structure Group where
  text : List Char
  ref : Rect
  master : Nat × Nat
  deriving Repr, DecidableEq

/-- the map `si ↦ group` as an association list with at most one entry per key; its size is the
    number of groups declared so far, whatever the values of `si` -/
abbrev Table := List (Nat × Group)

/-- `formulas.insert(si, g)` (replaces an earlier group with the same `si`) -/
def Table.store (t : Table) (si : Nat) (g : Group) : Table :=
  (si, g) :: t.filter (fun p => p.1 != si)

/-- `formulas.get(&si)` -/
def Table.lookup (t : Table) (si : Nat) : Option Group :=
  match t.find? (fun p => p.1 == si) with
  | some p => some p.2
  | none => none

/-- the offset of a member cell: `reference.contains(pos)` then `pos - master` (as `i64`).
    This is the "offset map" of the group, given as a function of the position. -/
def Group.offsetOf (g : Group) (pos : Nat × Nat) : Option (Int × Int) :=
  if g.ref.contains pos.1 pos.2 then
    some ((pos.1 : Int) - (g.master.1 : Int), (pos.2 : Int) - (g.master.2 : Int))
  else none

/-- attributes of an `<f t="shared" …>` element: `si` (`none`: missing or not a number ⇒ `Err`),
    `ref` already parsed by `get_dimension` -/
structure SharedAttr where
  si : Option Nat
  ref : Option Rect
  deriving Repr, DecidableEq

/-! NOTE: `worksheet_formula` reads no reader option: in particular it does not depend on the header-row
    option (`with_header_row`), which only concerns `worksheet_range`; the model therefore has no such input. -/

/-- one `<c>` element as `next_formula` sees it: position, and the `<f>` child if any
    (text, shared attributes when `t="shared"`) -/
structure CellIn where
  pos : Nat × Nat
  f : Option (List Char × Option SharedAttr)
  deriving Repr, DecidableEq

/-- the body of `next_formula` for one `<c>` element: new table and the cell's formula text
    (`value.unwrap_or_default()`) -/
def cellFormula (t : Table) (cell : CellIn) : Res (Table × List Char) :=
  match cell.f with
  | none => .ok (t, [])
  | some (text, none) => .ok (t, text)
  | some (text, some sh) =>
    match sh.si with
    | none => .err "si attribute"
    | some si =>
      match sh.ref with
      | some reference =>
        -- master: stored under its `si`, whatever the order of appearance
        .ok (t.store si ⟨text, reference, cell.pos⟩, text)
      | none =>
        match t.lookup si with
        | some g =>
          match g.offsetOf cell.pos with
          | some off =>
            match replaceCellNames g.text off with
            | .ok v => .ok (t, v)
            | .err e => .err e
            | .panic e => .panic e
            | .outOfFuel => .outOfFuel
          | none => .ok (t, text)
        | none => .ok (t, text)

/-- `while let Some(cell) = next_formula()? { if !cell.val.is_empty() { cells.push(cell) } }`
    of `worksheet_formula`: the non-empty formulas in document order -/
def sheetFormulas : Table → List CellIn → Res (List ((Nat × Nat) × List Char))
  | _, [] => .ok []
  | t, c :: cs =>
    match cellFormula t c with
    | .ok (t', v) =>
      match sheetFormulas t' cs with
      | .ok rest => .ok (if v = [] then rest else (c.pos, v) :: rest)
      | r => r
    | .err e => .err e
    | .panic e => .panic e
    | .outOfFuel => .outOfFuel

/-- an `<f>` element with its raw attributes: `si` already parsed as a number (`none`: missing or
    not a number), `ref` as the attribute text -/
structure CellRaw where
  pos : Nat × Nat
  f : Option (List Char × Option (Option Nat × Option (List Char)))
  deriving Repr, DecidableEq

/-- attribute handling of `next_formula` in source order: `si` first (`Err` when absent), then
    `get_dimension(ref)?` -/
def CellRaw.parse (c : CellRaw) : Res CellIn :=
  match c.f with
  | none => .ok ⟨c.pos, none⟩
  | some (text, none) => .ok ⟨c.pos, some (text, none)⟩
  | some (text, some (si, ref)) =>
    match si with
    | none => .err "si attribute"
    | some si =>
      match ref with
      | none => .ok ⟨c.pos, some (text, some ⟨some si, none⟩)⟩
      | some r =>
        match getDimension r with
        | .ok d => .ok ⟨c.pos, some (text, some ⟨some si, some d⟩)⟩
        | .err e => .err e
        | .panic e => .panic e
        | .outOfFuel => .outOfFuel

/-- `worksheet_formula` over raw cells -/
def sheetFormulasRaw : Table → List CellRaw → Res (List ((Nat × Nat) × List Char))
  | _, [] => .ok []
  | t, c :: cs =>
    match c.parse with
    | .ok ci =>
      match cellFormula t ci with
      | .ok (t', v) =>
        match sheetFormulasRaw t' cs with
        | .ok rest => .ok (if v = [] then rest else (c.pos, v) :: rest)
        | r => r
      | .err e => .err e
      | .panic e => .panic e
      | .outOfFuel => .outOfFuel
    | .err e => .err e
    | .panic e => .panic e
    | .outOfFuel => .outOfFuel

end SharedFormula
