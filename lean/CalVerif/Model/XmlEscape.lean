import CalVerif.Prim.Res
/-! Model of quick-xml 0.37's text / attribute-value unescaping (`quick_xml::escape::unescape`, reached from
    calamine through `BytesText::unescape()` and `Attribute::decode_and_unescape_value`), property C19.

    Source mirrored: `src/escape.rs` of quick-xml 0.37.5 — `unescape_with` (with `resolve_predefined_entity`,
    feature `escape-html` off), `parse_number`, `from_str_radix`.  The function works on the positions of `&`
    and `;` only (both ASCII), so the model is stated over characters:

    * outside a reference every character is copied, `;` included;
    * `&` opens a reference; the next `&` or `;` must be a `;` (`UnterminatedEntity` otherwise, also at the end);
    * `&#…;` is a character reference: `x` (lower case only) selects radix 16, otherwise radix 10; a leading
      `+` / `-` is `UnexpectedSign`; empty, a non-digit or a value ≥ 2^32 is `InvalidNumber`; code 0 is
      `IllegalCharacter`; a surrogate or a value > 0x10FFFF is `InvalidCodepoint`; **every other scalar value is
      accepted**, also those outside the XML `Char` production (`&#1;`, `&#xFFFE;`);
    * otherwise the name must be one of `lt gt amp apos quot` (`UnrecognizedEntity` otherwise).
    The first error met from the left is returned. -/

namespace XmlEscape

def isDec (c : Char) : Bool := 48 ≤ c.toNat && c.toNat ≤ 57
def isHex (c : Char) : Bool :=
  isDec c || (97 ≤ c.toNat && c.toNat ≤ 102) || (65 ≤ c.toNat && c.toNat ≤ 70)

/-- value of a digit character (`char::to_digit`) -/
def digitVal (c : Char) : Nat :=
  if c.toNat ≤ 57 then c.toNat - 48 else if c.toNat ≤ 70 then c.toNat - 55 else c.toNat - 87

def numVal (radix : Nat) (ds : List Char) : Nat := ds.foldl (fun a d => a * radix + digitVal d) 0

/-- `from_str_radix(src, radix)` of escape.rs: sign check, then `u32::from_str_radix` -/
def fromStrRadix (src : List Char) (radix : Nat) : Res Nat :=
  match src with
  | [] => .err "InvalidCharRef(InvalidNumber)"
  | c :: _ =>
    if c = '+' ∨ c = '-' then .err "InvalidCharRef(UnexpectedSign)"
    else if src.all (if radix = 16 then isHex else isDec) ∧ numVal radix src < 4294967296 then .ok (numVal radix src)
    else .err "InvalidCharRef(InvalidNumber)"

/-- a Unicode scalar value (`char::from_u32` succeeds) -/
def isScalar (n : Nat) : Bool := n < 0xD800 || (0xDFFF < n && n < 0x110000)

/-- `parse_number`, first half: radix selection (`x`, lower case only) and number parsing -/
def parseCode (num : List Char) : Res Nat :=
  match num with
  | 'x' :: hex => fromStrRadix hex 16
  | _ => fromStrRadix num 10

/-- `parse_number`, second half: 0 is refused, then `char::from_u32` -/
def checkCode : Res Nat → Res Char
  | .ok n =>
    if n = 0 then .err "InvalidCharRef(IllegalCharacter)"
    else if isScalar n then .ok (Char.ofNat n)
    else .err "InvalidCharRef(InvalidCodepoint)"
  | .err e => .err e
  | .panic e => .panic e
  | .outOfFuel => .outOfFuel

def parseNumber (num : List Char) : Res Char := checkCode (parseCode num)

/-- `resolve_xml_entity` -/
def resolveEntity (name : List Char) : Option (List Char) :=
  if name = ['l', 't'] then some ['<']
  else if name = ['g', 't'] then some ['>']
  else if name = ['a', 'm', 'p'] then some ['&']
  else if name = ['a', 'p', 'o', 's'] then some ['\'']
  else if name = ['q', 'u', 'o', 't'] then some ['"']
  else none

/-- what stands for the reference `&pat;` -/
def resolve (pat : List Char) : Res (List Char) :=
  match pat with
  | '#' :: num =>
    match parseNumber num with
    | .ok c => .ok [c]
    | .err e => .err e
    | .panic e => .panic e
    | .outOfFuel => .outOfFuel
  | _ =>
    match resolveEntity pat with
    | some v => .ok v
    | none => .err "UnrecognizedEntity"

/-- prepend to a successful result -/
def prepend (s : List Char) : Res (List Char) → Res (List Char)
  | .ok r => .ok (s ++ r)
  | e => e

/-- the replacement of a reference followed by the unescaped rest; an error of the reference comes first -/
def thenRest (x : Res (List Char)) (rest : Res (List Char)) : Res (List Char) :=
  match x with
  | .ok s => prepend s rest
  | .err e => .err e
  | .panic e => .panic e
  | .outOfFuel => .outOfFuel

/-- the scan: `none` = outside a reference, `some pat` = inside one, `pat` = the characters since the `&` -/
def unesc : Option (List Char) → List Char → Res (List Char)
  | none, [] => .ok []
  | some _, [] => .err "UnterminatedEntity"
  | none, c :: r => if c = '&' then unesc (some []) r else prepend [c] (unesc none r)
  | some pat, c :: r =>
    if c = ';' then thenRest (resolve pat) (unesc none r)
    else if c = '&' then .err "UnterminatedEntity"
    else unesc (some (pat ++ [c])) r

/-- `quick_xml::escape::unescape` -/
def unescape (raw : List Char) : Res (List Char) := unesc none raw

end XmlEscape
