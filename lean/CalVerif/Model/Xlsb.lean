import CalVerif.Prim.Res
import CalVerif.Model.Range
import CalVerif.Gen.BErrTables
/-! Model of the XLSB record reader and worksheet cell reader
    (`/repo/src/xlsb/mod.rs`: `RecordIter::{read_type, fill_buffer, next_skip_blocks}`, `wide_str`,
    `read_shared_strings`, `cell_format`; `/repo/src/xlsb/cells_reader.rs`: `XlsbCellsReader::new`,
    `next_cell`, `parse_dimensions`; the collecting loop of `worksheet_range_ref` and `Range::from_sparse`).

    Model boundary: the byte string of a part after unzip. Strings are lists of UTF-16 code units (the
    `encoding_rs` decoding step is not modelled). f64 values are 64-bit patterns; the two float operations of
    the RK path (`/ 100.0`, `i64 as f64`) are the named functions `fdiv100`, `i2f`, executed natively by the
    driver and opaque in theorems. Allocation sizes are not modelled. -/

namespace Xlsb

abbrev Bytes := List UInt8

/-! ### little-endian readers (`utils::read_u32` etc. panic on short slices) -/

def u16le (b : Bytes) : Nat := (b.getD 0 0).toNat + 256 * (b.getD 1 0).toNat

def u32le (b : Bytes) : Nat :=
  (b.getD 0 0).toNat + 256 * (b.getD 1 0).toNat + 65536 * (b.getD 2 0).toNat + 16777216 * (b.getD 3 0).toNat

def u64le (b : Bytes) : Nat := u32le b + 4294967296 * u32le (b.drop 4)

/-! ### record framing -/

/-- `RecordIter::read_type`: one byte, or two when the high bit of the first is set (7 bits each, low first;
    the high bit of the second byte is ignored). End of data = I/O error. -/
def readType : Bytes → Res (Nat × Bytes)
  | [] => .err "io"
  | b :: rest =>
    if b.toNat < 128 then .ok (b.toNat, rest)
    else match rest with
      | [] => .err "io"
      | b2 :: rest' => .ok (b.toNat % 128 + (b2.toNat % 128) * 128, rest')

/-- the `for i in 1..4` loop of `fill_buffer`: continue while the previous byte has its high bit set -/
def readLenGo : Nat → Nat → Nat → UInt8 → Bytes → Res (Nat × Bytes)
  | 0, _, acc, _, bs => .ok (acc, bs)
  | f+1, i, acc, prev, bs =>
    if prev.toNat < 128 then .ok (acc, bs)
    else match bs with
      | [] => .err "io"
      | b :: r => readLenGo f (i + 1) (acc + (b.toNat % 128) * 2 ^ (7 * i)) b r

/-- the length varint of `fill_buffer`: 1 to 4 bytes, 7 bits each, low group first; the high bit of the
    fourth byte is ignored -/
def readLen : Bytes → Res (Nat × Bytes)
  | [] => .err "io"
  | b :: r => readLenGo 3 1 (b.toNat % 128) b r

/-- `RecordIter::fill_buffer(buf)`: `(len, buf', rest)`. The buffer is cleared and filled with exactly the `len`
    payload bytes (`take(len).read_to_end`, so that the allocation follows the bytes present; before
    `fix: xlsb fill_buffer …` the buffer was resized to the declared length first and kept the tail of earlier,
    longer records). The old buffer is an argument only because it is one in the code. -/
def fillBuffer (_buf : Bytes) (bs : Bytes) : Res (Nat × Bytes × Bytes) :=
  match readLen bs with
  | .ok (len, r) =>
    -- fewer than `len` bytes left (tested on the prefix, so that reading a record costs its own size)
    if (r.take len).length < len then .err "io"
    else .ok (len, r.take len, r.drop len)
  | .err e => .err e
  | .panic s => .panic s
  | .outOfFuel => .outOfFuel

/-- `read_type` then `fill_buffer` on a cleared buffer: `(type, payload, rest)` -/
def readRecord (bs : Bytes) : Res (Nat × Bytes × Bytes) :=
  match readType bs with
  | .ok (t, r) =>
    match readLen r with
    | .ok (len, r') => if (r'.take len).length < len then .err "io" else .ok (t, r'.take len, r'.drop len)
    | .err e => .err e
    | .panic s => .panic s
    | .outOfFuel => .outOfFuel
  | .err e => .err e
  | .panic s => .panic s
  | .outOfFuel => .outOfFuel

/-- all records of a part (a part ending inside a record is an I/O error) -/
def recordsGo : Nat → Bytes → Res (List (Nat × Bytes))
  | 0, _ => .outOfFuel
  | _+1, [] => .ok []
  | f+1, b :: bs =>
    match readRecord (b :: bs) with
    | .ok (t, p, rest) =>
      match recordsGo f rest with
      | .ok l => .ok ((t, p) :: l)
      | .err e => .err e
      | .panic s => .panic s
      | .outOfFuel => .outOfFuel
    | .err e => .err e
    | .panic s => .panic s
    | .outOfFuel => .outOfFuel

def records (bs : Bytes) : Res (List (Nat × Bytes)) := recordsGo (bs.length + 1) bs

/-- the inner `while self.read_type()? != end { fill_buffer }` of `next_skip_blocks`: `(buf, rest)` -/
def skipToEnd (endT : Nat) : Nat → Bytes → Bytes → Res (Bytes × Bytes)
  | 0, _, _ => .outOfFuel
  | f+1, buf, bs =>
    match readType bs with
    | .ok (t, r) =>
      if t = endT then .ok (buf, r)
      else match fillBuffer buf r with
        | .ok (_, buf', r') => skipToEnd endT f buf' r'
        | .err e => .err e
        | .panic s => .panic s
        | .outOfFuel => .outOfFuel
    | .err e => .err e
    | .panic s => .panic s
    | .outOfFuel => .outOfFuel

/-- `bounds.iter().find(|b| b.0 == typ).and_then(|b| b.1)` -/
def blockEnd (bounds : List (Nat × Option Nat)) (t : Nat) : Option Nat :=
  (bounds.find? (fun b => b.1 == t)).bind (·.2)

/-- `RecordIter::next_skip_blocks(record_type, bounds, buf)`: `(len, buf', rest)` -/
def nextSkipBlocks (target : Nat) (bounds : List (Nat × Option Nat)) : Nat → Bytes → Bytes → Res (Nat × Bytes × Bytes)
  | 0, _, _ => .outOfFuel
  | f+1, buf, bs =>
    match readType bs with
    | .ok (t, r) =>
      match fillBuffer buf r with
      | .ok (len, buf1, r1) =>
        if t = target then .ok (len, buf1, r1)
        else match blockEnd bounds t with
          | some e =>
            match skipToEnd e f buf1 r1 with
            | .ok (buf2, r2) =>
              match fillBuffer buf2 r2 with
              | .ok (_, buf3, r3) => nextSkipBlocks target bounds f buf3 r3
              | .err e => .err e
              | .panic s => .panic s
              | .outOfFuel => .outOfFuel
            | .err e => .err e
            | .panic s => .panic s
            | .outOfFuel => .outOfFuel
          | none => nextSkipBlocks target bounds f buf1 r1
      | .err e => .err e
      | .panic s => .panic s
      | .outOfFuel => .outOfFuel
    | .err e => .err e
    | .panic s => .panic s
    | .outOfFuel => .outOfFuel

/-! ### strings -/

/-- UTF-16LE code units of a byte string (a trailing odd byte is dropped) -/
def units : Bytes → List Nat
  | a :: b :: rest => (a.toNat + 256 * b.toNat) :: units rest
  | _ => []

/-- `wide_str(buf, &mut str_len)`: `(code units, str_len)` -/
def wideStr (buf : Bytes) : Res (List Nat × Nat) :=
  if buf.length < 4 then .err "WideStr"
  else if buf.length < 4 + u32le buf * 2 then .err "WideStr"
  else .ok (units ((buf.drop 4).take (u32le buf * 2)), 4 + u32le buf * 2)

/-- the `for _ in 0..len` loop of `read_shared_strings` -/
def sstItems : Nat → Nat → Bytes → Bytes → List (List Nat) → Res (List (List Nat))
  | 0, _, _, _, acc => .ok acc.reverse
  | n+1, fuel, buf, bs, acc =>
    match nextSkipBlocks 0x0013 [(0x0023, some 0x0024)] fuel buf bs with
    | .ok (_, buf', rest) =>
      if buf'.length < 1 then .err "Unrecognized"
      else match wideStr (buf'.drop 1) with
        | .ok (s, _) => sstItems n fuel buf' rest (s :: acc)
        | .err e => .err e
        | .panic s => .panic s
        | .outOfFuel => .outOfFuel
    | .err e => .err e
    | .panic s => .panic s
    | .outOfFuel => .outOfFuel

/-- `read_shared_strings` on the bytes of `xl/sharedStrings.bin` -/
def readSharedStrings (bs : Bytes) : Res (List (List Nat)) :=
  match nextSkipBlocks 0x009F [] (bs.length + 1) [] bs with
  | .ok (_, buf, rest) =>
    if buf.length < 8 then .err "Unrecognized"
    else sstItems (u32le (buf.drop 4)) (bs.length + 1) buf rest []
  | .err e => .err e
  | .panic s => .panic s
  | .outOfFuel => .outOfFuel

/-! ### values -/

/-- `Data` / `DataRef` as far as the xlsb reader produces it -/
inductive Val where
  | empty
  | int (i : Int)
  | float (bits : Nat)
  | str (units : List Nat)
  | bool (b : Bool)
  /-- `DateTime(ExcelDateTime::new(value, DateTime | TimeDelta, is_1904))` -/
  | dateTime (bits : Nat) (timeDelta : Bool) (is1904 : Bool)
  /-- `Error(CellErrorType)`, kept as the BErr code -/
  | error (code : Nat)
  deriving DecidableEq, Repr

instance : Inhabited Val := ⟨.empty⟩

/-- a NaN pattern: exponent all ones, mantissa non-zero -/
def isNaN64 (b : Nat) : Bool := (b / 4503599627370496) % 2048 = 2047 && b % 4503599627370496 ≠ 0

/-- `x / 100.0` on bit patterns (native IEEE division; opaque to the kernel). A NaN operand is propagated with
    its quiet bit set, payload kept — what the division instruction does on x86-64 and AArch64; written out
    because Lean's `Float.toBits` does not keep NaN payloads. -/
def fdiv100 (bits : Nat) : Nat :=
  if isNaN64 bits then
    (if (bits / 2251799813685248) % 2 = 1 then bits else bits + 2251799813685248)
  else ((Float.ofBits bits.toUInt64) / 100.0).toBits.toNat

/-- `v as f64` for an `i64` (native conversion; opaque to the kernel) -/
def i2f (i : Int) : Nat := (Float.ofInt i).toBits.toNat

/-- what the reader knows besides the sheet part -/
structure Ctx where
  /-- `Xlsb::formats`: per cell XF 0 = Other, 1 = DateTime, 2 = TimeDelta -/
  formats : List Nat
  /-- `Xlsb::strings` -/
  strings : List (List Nat)
  is1904 : Bool

/-- `cell_format(formats, buf)`: `formats.get(iStyleRef)`, iStyleRef = 24 bits at `buf[4..7]` -/
def cellFormat (fmts : List Nat) (buf : Bytes) : Option Nat :=
  fmts[(buf.getD 4 0).toNat + 256 * (buf.getD 5 0).toNat + 65536 * (buf.getD 6 0).toNat]?

/-- `format_excel_f64_ref(v, cell_format(formats, buf), is_1904)` -/
def formatF64 (ctx : Ctx) (buf : Bytes) (bits : Nat) : Val :=
  match cellFormat ctx.formats buf with
  | some 1 => .dateTime bits false ctx.is1904
  | some 2 => .dateTime bits true ctx.is1904
  | _ => .float bits

/-- `read_i32(rk) >> 2`: the 30-bit signed integer in bits 2..32 of an RK word -/
def rkInt (w : Nat) : Int := if w < 2147483648 then ((w / 4 : Nat) : Int) else ((w / 4 : Nat) : Int) - 1073741824

/-- the f64 pattern of a non-integer RK word: the word with its two flag bits cleared is the high half -/
def rkFloatBits (w : Nat) : Nat := (w - w % 4) * 4294967296

/-- the BrtCellRk arm of `next_cell` (after `fix: xlsb integer RK cells ignored their date/time style`) -/
def rkVal (ctx : Ctx) (buf : Bytes) : Val :=
  let w := u32le (buf.drop 8)
  let d100 := w % 2 = 1
  let isInt := (w / 2) % 2 = 1
  if isInt then
    if d100 then formatF64 ctx buf (fdiv100 (i2f (rkInt w)))
    else match cellFormat ctx.formats buf with
      | some 1 => formatF64 ctx buf (i2f (rkInt w))
      | some 2 => formatF64 ctx buf (i2f (rkInt w))
      | _ => .int (rkInt w)
  else
    formatF64 ctx buf (if d100 then fdiv100 (rkFloatBits w) else rkFloatBits w)

/-- the BErr codes `next_cell` accepts: the arms of its `match self.buf[8]`, translated from the source on every
    run (`Gen.xlsbErrTable`, tools/extract_tables.py) -/
def isErrCode (c : Nat) : Bool := (Gen.xlsbErrTable.lookup c).isSome

/-- what one record means to the cell loop -/
inductive Step where
  /-- a cell record: `(col, value)` -/
  | value (col : Nat) (v : Val)
  /-- BrtRowHdr -/
  | row (r : Nat)
  /-- BrtEndSheetData -/
  | stop
  /-- any other record -/
  | skip
  /-- `Err(..)` or a panic -/
  | fail (r : Res Unit)
  deriving Repr

/-- The `match self.typ { … }` of `next_cell` on one record `(typ, buf)`, followed by
    `let col = read_u32(&self.buf)` for a value record. The `min_len` test in front of the `match` (a record
    shorter than the fixed part of its layout is `Err(Unrecognized)`; these were slice panics before
    `fix: xlsb cell records shorter than their layout …`) is written inside the arm it belongs to. -/
def interpret (ctx : Ctx) (typ : Nat) (buf : Bytes) : Step :=
  if typ = 0x0002 then
    -- BrtCellRk: 12 bytes
    if buf.length < 12 then .fail (.err "Unrecognized")
    else .value (u32le buf) (rkVal ctx buf)
  else if typ = 0x0003 ∨ typ = 0x000B then
    -- BrtCellError | BrtFmlaError: 9 bytes
    if buf.length < 9 then .fail (.err "Unrecognized")
    else if isErrCode (buf.getD 8 0).toNat then .value (u32le buf) (.error (buf.getD 8 0).toNat)
    else .fail (.err "CellError")
  else if typ = 0x0004 ∨ typ = 0x000A then
    -- BrtCellBool | BrtFmlaBool: 9 bytes
    if buf.length < 9 then .fail (.err "Unrecognized")
    else .value (u32le buf) (.bool ((buf.getD 8 0).toNat ≠ 0))
  else if typ = 0x0005 ∨ typ = 0x0009 then
    -- BrtCellReal | BrtFmlaNum: 16 bytes
    if buf.length < 16 then .fail (.err "Unrecognized")
    else .value (u32le buf) (formatF64 ctx buf (u64le (buf.drop 8)))
  else if typ = 0x0006 ∨ typ = 0x0008 then
    -- BrtCellSt | BrtFmlaString: 8 bytes, then `wide_str`
    if buf.length < 8 then .fail (.err "Unrecognized")
    else match wideStr (buf.drop 8) with
      | .ok (s, _) => .value (u32le buf) (.str s)
      | .err e => .fail (.err e)
      | .panic s => .fail (.panic s)
      | .outOfFuel => .fail .outOfFuel
  else if typ = 0x0007 then
    -- BrtCellIsst: 12 bytes (index checked since `fix: xlsb shared string index out of range panicked`)
    if buf.length < 12 then .fail (.err "Unrecognized")
    else match ctx.strings[u32le (buf.drop 8)]? with
      | some s => .value (u32le buf) (.str s)
      | none => .fail (.err "Unrecognized")
  else if typ = 0x0000 then
    -- BrtRowHdr: 4 bytes
    if buf.length < 4 then .fail (.err "Unrecognized") else .row (u32le buf)
  else if typ = 0x0092 then .stop
  else .skip

/-- The loop of `worksheet_range_ref` over `next_cell` (both loops merged): the cells in record order.
    A row number above 0x100000 ends the sheet like BrtEndSheetData. -/
def readCells (ctx : Ctx) : Nat → Bytes → Nat → Res (List (Nat × Nat × Val))
  | 0, _, _ => .outOfFuel
  | f+1, bs, row =>
    match readRecord bs with
    | .ok (typ, buf, rest) =>
      match interpret ctx typ buf with
      | .value col v =>
        match readCells ctx f rest row with
        | .ok l => .ok ((row, col, v) :: l)
        | .err e => .err e
        | .panic s => .panic s
        | .outOfFuel => .outOfFuel
      | .row r => if r > 0x00100000 then .ok [] else readCells ctx f rest r
      | .stop => .ok []
      | .skip => readCells ctx f rest row
      | .fail (.err e) => .err e
      | .fail (.panic s) => .panic s
      | .fail _ => .outOfFuel
    | .err e => .err e
    | .panic s => .panic s
    | .outOfFuel => .outOfFuel

/-- `parse_dimensions`: `(start row, start col, end row, end col)` -/
def parseDimensions (buf : Bytes) : Nat × Nat × Nat × Nat :=
  (u32le buf, u32le (buf.drop 8), u32le (buf.drop 4), u32le (buf.drop 12))

/-- `Dimensions::len`: `(end − start) + 1` per axis with saturating subtraction (each at most 2^32), multiplied
    in `u64` with `saturating_mul` (2^32 · 2^32 does not fit; an overflow panic before
    `fix: Dimensions::len multiplied 2^32 rows by 2^32 columns …`). Only used to reserve capacity. -/
def dimLen (d : Nat × Nat × Nat × Nat) : Res Nat :=
  .ok (min ((d.2.2.1 - d.1 + 1) * (d.2.2.2 - d.2.1 + 1)) 18446744073709551615)

/-- `XlsbCellsReader::new`: skip to BrtWsDim, read the dimensions, skip to BrtBeginSheetData.
    Result: `(dimensions, rest)` -/
def newReader (bs : Bytes) : Res ((Nat × Nat × Nat × Nat) × Bytes) :=
  match nextSkipBlocks 0x0094 [(0x0081, none), (0x0093, none)] (bs.length + 1) [] bs with
  | .ok (_, buf, rest) =>
    if buf.length < 16 then .err "Unrecognized"
    else
      match nextSkipBlocks 0x0091 [(0x0085, some 0x0086), (0x0025, some 0x0026), (0x01E5, none), (0x0186, some 0x0187)]
          (bs.length + 1) buf rest with
      | .ok (_, _, rest') => .ok (parseDimensions buf, rest')
      | .err e => .err e
      | .panic s => .panic s
      | .outOfFuel => .outOfFuel
  | .err e => .err e
  | .panic s => .panic s
  | .outOfFuel => .outOfFuel

/-- The reading part of `worksheet_range_ref` (default header row): reader construction, `dimensions().len()`,
    the cell loop; cells with an empty value are dropped (`next_cell` produces none). -/
def sheetCells (ctx : Ctx) (bs : Bytes) : Res (List (Nat × Nat × Val)) :=
  match newReader bs with
  | .ok (dims, rest) =>
    match dimLen dims with
    | .ok _ =>
      match readCells ctx (bs.length + 1) rest 0 with
      | .ok cells => .ok (cells.filter (fun c => c.2.2 ≠ Val.empty))
      | .err e => .err e
      | .panic s => .panic s
      | .outOfFuel => .outOfFuel
    | .err e => .err e
    | .panic s => .panic s
    | .outOfFuel => .outOfFuel
  | .err e => .err e
  | .panic s => .panic s
  | .outOfFuel => .outOfFuel

/-- `worksheet_range_ref`: the cells read, then `Range::from_sparse` -/
def decodeSheet (ctx : Ctx) (bs : Bytes) : Res (Range.Rng Val) :=
  match sheetCells ctx bs with
  | .ok cells => Range.fromSparse cells
  | .err e => .err e
  | .panic s => .panic s
  | .outOfFuel => .outOfFuel

end Xlsb
