import CalVerif.Model.OdsRange
import CalVerif.Model.OdsCell
import CalVerif.Model.XmlText
/-! Model of `read_table` (`/repo/src/ods.rs`) from row / cell EVENTS to the two ranges of a sheet: the
    composition of `get_datatype` (attribute loop: `Model/OdsCell.lean`; text content of string cells:
    `XmlText.odsCellText` of `Model/XmlText.lean`), `read_row` (`readRowK`) and `get_range`.

    A cell event summarises one `table:table-cell` / `table:covered-table-cell` element: its kind, its
    attributes as `OdsCell.Attr`, its `table:number-columns-repeated` count (1 when absent) and the XML events
    that follow its start tag up to and including its end tag. A row event is `table:number-rows-repeated`
    (1 when absent) and the cell events. Not modelled here: parsing of the two repeat attributes, XML
    tokenisation. -/
namespace OdsSheet
open OdsRange OdsCell

instance : Inhabited Val := ⟨.empty⟩

/-- the bytes of a cell text as a `String` (the Rust `String` is built from valid UTF-8 pieces) -/
def txtToString (t : XmlText.Txt) : String := (String.fromUTF8? ⟨t.toArray⟩).getD ""

structure CellEv where
  kind : CellKind
  attrs : List Attr
  count : Nat
  children : List XmlText.Ev

/-- `get_datatype` on one cell element: `(value, formula)`; `Data::is_empty()` is `value = .empty`,
    an absent formula is `""` -/
def typeCell (ev : CellEv) : Res (Val × String) :=
  match getDatatype ev.attrs with
  | none => .err "ParseFloat"
  | some o =>
    if o.useText then
      match XmlText.odsCellText ev.children with
      | .ok (t, _) => .ok (.str (txtToString t), o.formula)
      | .err e => .err e
      | .panic s => .panic s
      | .outOfFuel => .outOfFuel
    else .ok (o.val, o.formula)

/-- the cells of one row in document order; the first failure aborts (`?`) -/
def typeRow : List CellEv → Res (List (CellKind × (Val × String) × Nat))
  | [] => .ok []
  | ev :: rest =>
    match typeCell ev with
    | .ok vf =>
      match typeRow rest with
      | .ok l => .ok ((ev.kind, vf, ev.count) :: l)
      | .err e => .err e
      | .panic s => .panic s
      | .outOfFuel => .outOfFuel
    | .err e => .err e
    | .panic s => .panic s
    | .outOfFuel => .outOfFuel

def typeRows : List (Nat × List CellEv) → Res (List (RowRunK (Val × String)))
  | [] => .ok []
  | (k, evs) :: rest =>
    match typeRow evs with
    | .ok row =>
      match typeRows rest with
      | .ok l => .ok ((k, row) :: l)
      | .err e => .err e
      | .panic s => .panic s
      | .outOfFuel => .outOfFuel
    | .err e => .err e
    | .panic s => .panic s
    | .outOfFuel => .outOfFuel

/-- `read_table`: `(get_range(cells, …), get_range(formulas, …))` -/
def readTable (rows : List (Nat × List CellEv)) : Res (Range.Rng Val × Range.Rng String) :=
  match typeRows rows with
  | .ok typed =>
    match getRange (collectKV typed), getRange (collectKF typed) with
    | .ok v, .ok f => .ok (v, f)
    | .ok _, other => match other with | .err e => .err e | .panic s => .panic s | _ => .outOfFuel
    | .err e, _ => .err e
    | .panic s, _ => .panic s
    | .outOfFuel, _ => .outOfFuel
  | .err e => .err e
  | .panic s => .panic s
  | .outOfFuel => .outOfFuel

end OdsSheet
