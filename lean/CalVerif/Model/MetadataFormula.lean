import CalVerif.Model.Metadata
import CalVerif.Model.Ptg
/-! The formula decoders of C14's model (`Model/Ptg.lean`) in the shape the metadata model takes them as parameters
    (`parseDn` for the xls Lbl formula, `parseFmla` for the xlsb BrtName formula): text as scalar values.
    Used by the driver of C16 and by the instantiated theorems `defined_names_xls_decoded` (Props/C16). -/

namespace Meta

def textOfChars (l : List Char) : Text := l.map Char.toNat
def charsOfText (t : Text) : List Char := t.map Char.ofNat

/-- `parse_defined_names` (C14's model `Ptg.definedNameXls`) -/
def pdC14 (rgce : Bytes) : Res (Option Nat × Text) :=
  match Ptg.definedNameXls rgce with
  | .ok (i, t) => .ok (i, textOfChars t)
  | .err e => .err e
  | .panic e => .panic e
  | .outOfFuel => .outOfFuel

/-- xlsb `parse_formula` (C14's model `Ptg.parseFormulaXlsb`); PtgNum is not used in defined names here -/
def pfC14 (rgce : Bytes) (ext : List Text) (names : List (Text × Text)) : Res Text :=
  let ctx : Ptg.Ctx := { sheets := ext.map charsOfText, names := names.map (charsOfText ·.1), xtis := [], fmtNum := fun _ => "<num>".toList }
  match Ptg.parseFormulaXlsb ctx rgce with
  | .ok t => .ok (textOfChars t)
  | .err e => .err e
  | .panic e => .panic e
  | .outOfFuel => .outOfFuel

end Meta
