import CalVerif.Model.Range
/-! Model of the header-row windowing of the four readers.

    * eager (`xls.rs`, `ods.rs` `worksheet_range`): the sheet's range was built when the file was
      opened; `HeaderRow::Row(n)` re-windows it with `Range::range`.
    * lazy (`xlsx/mod.rs`, `xlsb/mod.rs` `worksheet_range_ref`): cells are streamed from the part,
      empty ones dropped, rows `< n` dropped, an empty anchor cell `(n, first kept column)` is
      prepended when the first kept row is not `n`, then `Range::from_sparse`. -/
namespace HeaderRow
open Range

variable {α : Type} [Inhabited α]

/-- `HeaderRow` -/
inductive Hdr where
  | firstNonEmpty
  | row (n : Nat)
  deriving DecidableEq, Repr

/-- xls / ods `worksheet_range` on the range built at open time -/
def windowEager (r : Rng α) : Hdr → Res (Rng α)
  | .firstNonEmpty => .ok r
  | .row n =>
    if r.inner.length = 0 then .ok r                 -- `start()`/`end()` are `None`
    else if n > r.er then .ok empty                  -- header row after the last row: nothing to read
    else range r n r.sc r.er r.ec

/-- the cells the lazy readers keep -/
def keepLazy [DecidableEq α] (cells : List (Nat × Nat × α)) : Hdr → List (Nat × Nat × α)
  | .firstNonEmpty => cells.filter (fun c => c.2.2 ≠ default)
  | .row n =>
    let kept := cells.filter (fun c => c.2.2 ≠ default ∧ c.1 ≥ n)
    match kept with
    | [] => []
    | c :: _ => if c.1 ≠ n then (n, c.2.1, default) :: kept else kept

/-- xlsx / xlsb `worksheet_range_ref` over the streamed cells -/
def windowLazy [DecidableEq α] (cells : List (Nat × Nat × α)) (h : Hdr) : Res (Rng α) :=
  fromSparse (keepLazy cells h)

end HeaderRow
