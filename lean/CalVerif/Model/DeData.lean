import CalVerif.Model.De
import CalVerif.Model.DataConv
/-! Model of the serde pieces around `Data` that sit on top of the cell deserializer:

    * `impl Deserialize for Data` (`/repo/src/datatype.rs`): `DataVisitor` as `dataVisitor : Val → VisitOut`
      (which `Data` variant each `visit_*` builds; serde's default forwarding `visit_i8…i32 → visit_i64`,
      `visit_u8…u32 → visit_u64`, `visit_f32 → visit_f64`, `visit_char → visit_str` included), and
      `dataOfCell` = `Data::deserialize(cell.to_cell_deserializer(pos))`.
    * the helper family of `/repo/src/lib.rs`: `deserialize_as_i64_or_none`, `…_i64_or_string`,
      `…_f64_or_none`, `…_f64_or_string` as functions of the cell. The `DataType` accessors they apply are the
      ones of `Model/DataConv.lean` (`viewData`), with its `Std` parameter (what std / `atoi_simd` /
      `fast_float2` compute). The date/time/duration/datetime helpers have the same shape with the accessors
      of C11 (`Dates.lean`) and are not repeated here.
    * `RangeDeserializerBuilder::with_deserialize_headers::<T>()`. -/

namespace De

/-! ### `impl Deserialize for Data` -/

/-- what `DataVisitor` does with a `visit_*` call -/
inductive VisitOut where
  /-- `Ok(data)` -/
  | data (d : Data)
  /-- `visit_some(deserializer)`: `Deserialize::deserialize(deserializer)` — `Data` is deserialized again from
      the deserializer handed over -/
  | again
  /-- the visitor does not implement this call: serde's default `Err(invalid_type(..))` (a `DeError::Custom`) -/
  | invalidType
  deriving Repr, DecidableEq

/-- `v as f64` for `v : f32` (exact) -/
def f32ToF64 (bits : Nat) : Nat :=
  let s : Nat := bits / 2 ^ 31 % 2
  let e : Nat := bits / 2 ^ 23 % 256
  let m : Nat := bits % 2 ^ 23
  let sign := if s = 1 then 2 ^ 63 else 0
  if e = 255 then sign + 0x7FF0000000000000 + m * 2 ^ 29
  else if e = 0 then sign + roundFloat 53 (-1022) 11 m (-149)
  else sign + roundFloat 53 (-1022) 11 (2 ^ 23 + m) ((e : Int) - 150)

/-- `DataVisitor` (with serde's default forwarding between the integer / float / char calls). `u64` values
    are stored `as i64` (two's-complement wrap above `i64::MAX`). -/
def dataVisitor : Val → VisitOut
  | .bool b => .data (.bool b)
  | .int t v => .data (.int (if t.signed then v else wrapInt .i64 v))
  | .f32 b => .data (.float (f32ToF64 b))
  | .f64 b => .data (.float b)
  | .str s => .data (.string s)
  | .char c => .data (.string [c])
  | .unit => .data .empty
  | .none => .data .empty
  | .some => .again
  | .bytes _ => .invalidType
  | .newtype => .invalidType
  | .enum _ => .invalidType

/-- `Data::deserialize(cell.to_cell_deserializer(pos))`: `deserialize_any`, then the visitor -/
def dataOfCell (d : Data) (pos : Pos) : DRes Data :=
  match convAny d pos with
  | .ok v =>
    (match dataVisitor v with
     | .data x => .ok x
     | .again => .err (.custom "unreachable: deserialize_any never calls visit_some")
     | .invalidType => .err (.custom "invalid type"))
  | .err e => .err e
  | .panic s => .panic s

/-- `Option::<Data>::deserialize(cell deserializer)`: `deserialize_option`, then `visit_none` or
    `visit_some(self)` → `Data::deserialize(self)` -/
def optDataOfCell (d : Data) (pos : Pos) : DRes (Option Data) :=
  match convOption d with
  | .ok .none => .ok none
  | .ok _ => (dataOfCell d pos).map some
  | .err e => .err e
  | .panic s => .panic s

/-- the image of a cell under `Data::deserialize` (what "round-trips through serde" means per variant) -/
def serdeImage : Data → Data
  | .dateTime b => .float b
  | .dateTimeIso s => .string s
  | .durationIso s => .string s
  | d => d

/-! ### the `deserialize_as_*` helpers -/

/-- the model `Data` as the `Data` of `Model/DataConv.lean` (the `ExcelDateTime` fields other than the value are
    not kept by `De.Data`; `dataOfCell` never returns a `dateTime`) -/
def toConv : Data → DataConv.Data
  | .int v => .int v
  | .float b => .float b
  | .string s => .string s
  | .bool b => .bool b
  | .dateTime b => .dateTime ⟨b, false, false⟩
  | .dateTimeIso s => .dateTimeIso s
  | .durationIso s => .durationIso s
  | .error k => .error k
  | .empty => .empty

/-- `Display for CellErrorType` -/
def errorText : Nat → Str
  | 0 => "#DIV/0!".toList | 1 => "#N/A".toList | 2 => "#NAME?".toList | 3 => "#NULL!".toList
  | 4 => "#NUM!".toList | 5 => "#REF!".toList | 6 => "#VALUE!".toList | _ => "#DATA!".toList

/-- `Display for Data` (`data.to_string()`) -/
def displayData (σ : DataConv.Std) : Data → Str
  | .int v => σ.intToString v
  | .float b => σ.floatToString b
  | .string s => s
  | .bool b => boolToStr b
  | .dateTime b => σ.floatToString b
  | .dateTimeIso s => s
  | .durationIso s => s
  | .error k => errorText k
  | .empty => []

/-- `deserialize_as_i64_or_none(cell deserializer)`: `Ok(Data::deserialize(d)?.as_i64())` -/
def asI64OrNone (σ : DataConv.Std) (d : Data) (pos : Pos) : DRes (Option Int) :=
  (dataOfCell d pos).map fun x => (DataConv.viewData σ (toConv x)).asI64

/-- `deserialize_as_i64_or_string`: `Ok(data.as_i64().ok_or_else(|| data.to_string()))` -/
def asI64OrString (σ : DataConv.Std) (d : Data) (pos : Pos) : DRes (Except Str Int) :=
  (dataOfCell d pos).map fun x =>
    match (DataConv.viewData σ (toConv x)).asI64 with
    | some v => .ok v
    | none => .error (displayData σ x)

/-- `deserialize_as_f64_or_none` -/
def asF64OrNone (σ : DataConv.Std) (d : Data) (pos : Pos) : DRes (Option Nat) :=
  (dataOfCell d pos).map fun x => (DataConv.viewData σ (toConv x)).asF64

/-- `deserialize_as_f64_or_string` -/
def asF64OrString (σ : DataConv.Std) (d : Data) (pos : Pos) : DRes (Except Str Nat) :=
  (dataOfCell d pos).map fun x =>
    match (DataConv.viewData σ (toConv x)).asF64 with
    | some v => .ok v
    | none => .error (displayData σ x)

/-! ### `with_deserialize_headers` -/

/-- `RangeDeserializerBuilder::with_deserialize_headers::<T>()`: `T::deserialize` is run on a probe
    deserializer that only records the `fields` argument of `deserialize_struct` (`fields = none`: `T` asks for
    something else — a tuple, a sequence, a map — and `serialized_names.unwrap_or_default()` is empty);
    then `Self::with_headers(headers)`. -/
def withDeserializeHeaders (fields : Option (List Str)) : Headers := .custom (fields.getD [])

/-! ### the builder as a value: sequences of configuration calls -/

/-- `RangeDeserializerBuilder::new()` / `Default` -/
def builderNew : Headers := .all

/-- `RangeDeserializerBuilder::has_headers(&mut self, yes)`: overwrites the header mode, whatever it was (a
    selection made by `with_headers` / `with_deserialize_headers` is dropped) -/
def hasHeaders (_b : Headers) (yes : Bool) : Headers := if yes then .all else .none

/-- a builder obtained from a constructor (`new()`, `with_headers(sel)`, `with_deserialize_headers::<T>()`) followed
    by `has_headers` calls -/
def builderCalls (start : Headers) (calls : List Bool) : Headers := calls.foldl hasHeaders start

end De
