import CalVerif.Prim.Res
import CalVerif.Model.CellFormat
import CalVerif.Model.CellError
import CalVerif.Gen.XlsxErrors
import CalVerif.Model.Range
/-! Model of the xlsx worksheet reader (`/repo/src/xlsx/mod.rs`, `/repo/src/xlsx/cells_reader.rs`).

    Boundary: the XML **event list** of a part, as quick-xml reports it with the configuration of
    `xml_reader` (`expand_empty_elements = true`: no `Empty` event; `trim_text(false)`; end names unchecked).
    quick-xml (text → events, entity unescaping), `zip`, and `f64::from_str` are trusted: a number is kept as
    an opaque token (`Val.num`), resolved by the harness with the same `str::parse::<f64>` the code calls.

    Bytes are `Nat` (0..255) so that `omega` can reason about the reference arithmetic.
    Nested `loop`s over the one shared event stream become the modes of one step function (`Mode`, `SMode`),
    each named after the Rust loop it stands for; a run is a left fold over the events. -/

namespace XlsxCells

abbrev Bytes := List Nat

def U32 : Nat := 4294967296
def maxColumns : Nat := 16384   -- `MAX_COLUMNS`

/-! ### byte-string constants (ASCII codes) -/
def nRow : Bytes := [114, 111, 119]   -- "row"
def nC : Bytes := [99]   -- "c"
def nV : Bytes := [118]   -- "v"
def nIs : Bytes := [105, 115]   -- "is"
def nF : Bytes := [102]   -- "f"
def nT : Bytes := [116]   -- "t"
def nR : Bytes := [114]   -- "r"
def nRPh : Bytes := [114, 80, 104]   -- "rPh"
def nSi : Bytes := [115, 105]   -- "si"
def nSst : Bytes := [115, 115, 116]   -- "sst"
def nSheetData : Bytes := [115, 104, 101, 101, 116, 68, 97, 116, 97]   -- "sheetData"
def nDimension : Bytes := [100, 105, 109, 101, 110, 115, 105, 111, 110]   -- "dimension"
def nRef : Bytes := [114, 101, 102]   -- "ref"
def nS : Bytes := [115]   -- "s"
def tB : Bytes := [98]   -- "b"
def tE : Bytes := [101]   -- "e"
def tD : Bytes := [100]   -- "d"
def tStr : Bytes := [115, 116, 114]   -- "str"
def tN : Bytes := [110]   -- "n"

/-- ASCII bytes of a string literal (used by the driver and by the `#guard`s below only) -/
def asciiBytes (s : String) : Bytes := s.toList.map Char.toNat

#guard nRow == asciiBytes "row" && nC == asciiBytes "c" && nV == asciiBytes "v" && nIs == asciiBytes "is"
#guard nF == asciiBytes "f" && nT == asciiBytes "t" && nR == asciiBytes "r" && nRPh == asciiBytes "rPh"
#guard nSi == asciiBytes "si" && nSst == asciiBytes "sst" && nSheetData == asciiBytes "sheetData"
#guard nDimension == asciiBytes "dimension" && nRef == asciiBytes "ref" && nS == asciiBytes "s"
#guard tB == asciiBytes "b" && tE == asciiBytes "e" && tD == asciiBytes "d" && tStr == asciiBytes "str" && tN == asciiBytes "n"

/-! ### A1 references -/

/-- `a.saturating_add(b)` on `u32` -/
def satAdd (a b : Nat) : Nat := if a + b < U32 then a + b else U32 - 1
/-- `a.saturating_mul(b)` on `u32` -/
def satMul (a b : Nat) : Nat := if a * b < U32 then a * b else U32 - 1

/-- the `for c in range.iter().rev()` loop of `get_row_and_optional_column`; the list is the reference
    *reversed*. State = `(row, col, pow, readrow)`; result = final `(row, col)`. -/
def a1Loop : List Nat → Nat → Nat → Nat → Bool → Res (Nat × Nat)
  | [], row, col, _, _ => .ok (row, col)
  | c :: cs, row, col, pow, readrow =>
    if 48 ≤ c ∧ c ≤ 57 then
      if readrow then a1Loop cs (satAdd row (satMul (c - 48) pow)) col (satMul pow 10) true
      else .err "NumericColumn"
    else if 65 ≤ c ∧ c ≤ 90 then
      if readrow then
        if row = 0 then .err "RangeWithoutRowComponent"
        else a1Loop cs row (satAdd col (satMul (c - 65 + 1) 1)) (satMul 1 26) false
      else a1Loop cs row (satAdd col (satMul (c - 65 + 1) pow)) (satMul pow 26) false
    else if 97 ≤ c ∧ c ≤ 122 then
      if readrow then
        if row = 0 then .err "RangeWithoutRowComponent"
        else a1Loop cs row (satAdd col (satMul (c - 97 + 1) 1)) (satMul 1 26) false
      else a1Loop cs row (satAdd col (satMul (c - 97 + 1) pow)) (satMul pow 26) false
    else .err "Alphanumeric"

/-- `get_row_and_optional_column`: 0-based `(row, Some col)`; `None` when the reference has no letters -/
def getRowCol (range : Bytes) : Res (Nat × Option Nat) :=
  match a1Loop range.reverse 0 0 1 true with
  | .ok (row, col) =>
    if row = 0 then .err "RangeWithoutRowComponent"
    else .ok (row - 1, if col = 0 then none else some (col - 1))
  | .err e => .err e
  | .panic s => .panic s
  | .outOfFuel => .outOfFuel

/-- `get_row_column` -/
def getRowColumn (range : Bytes) : Res (Nat × Nat) :=
  match getRowCol range with
  | .ok (row, some col) => .ok (row, col)
  | .ok (_, none) => .err "RangeWithoutColumnComponent"
  | .err e => .err e
  | .panic s => .panic s
  | .outOfFuel => .outOfFuel

/-- `get_row` -/
def getRow (range : Bytes) : Res Nat :=
  match getRowCol range with
  | .ok (row, _) => .ok row
  | .err e => .err e
  | .panic s => .panic s
  | .outOfFuel => .outOfFuel

/-- `slice.split(|c| *c == b':')` -/
def splitColon : Bytes → List Bytes
  | [] => [[]]
  | c :: cs =>
    if c = 58 then [] :: splitColon cs
    else match splitColon cs with
      | [] => [[c]]
      | p :: ps => (c :: p) :: ps

/-- `.map(get_row_column).collect::<Result<Vec<_>, _>>()`: left to right, stops at the first failure -/
def mapParts : List Bytes → Res (List (Nat × Nat))
  | [] => .ok []
  | p :: ps =>
    match getRowColumn p with
    | .ok x =>
      match mapParts ps with
      | .ok xs => .ok (x :: xs)
      | .err e => .err e
      | .panic s => .panic s
      | .outOfFuel => .outOfFuel
    | .err e => .err e
    | .panic s => .panic s
    | .outOfFuel => .outOfFuel

structure Dims where
  sr : Nat
  sc : Nat
  er : Nat
  ec : Nat
  deriving Repr, DecidableEq, Inhabited

/-- `get_dimension` (the row/column differences are only logged; computed with `saturating_sub`) -/
def getDimension (dimension : Bytes) : Res Dims :=
  match mapParts (splitColon dimension) with
  | .ok [] => .err "DimensionCount"
  | .ok [p] => .ok ⟨p.1, p.2, p.1, p.2⟩
  | .ok [p, q] => .ok ⟨p.1, p.2, q.1, q.2⟩
  | .ok _ => .err "DimensionCount"
  | .err e => .err e
  | .panic s => .panic s
  | .outOfFuel => .outOfFuel

/-- `Dimensions::len` (`/repo/src/lib.rs`): `(end.0.saturating_sub(start.0) as u64 + 1) * (end.1.saturating_sub(start.1) as u64 + 1)`;
    it only sizes a `Vec::reserve` (when below 100 000) and has no observable effect -/
def dimLen (d : Dims) : Nat := (d.er - d.sr + 1) * (d.ec - d.sc + 1)

/-- the `while num > 0 { col.push((num-1)%26+65); num = (num-1)/26 }` loop of `column_number_to_name`
    (letters least-significant first) -/
def colLE (n : Nat) : Bytes :=
  if h : n = 0 then [] else ((n - 1) % 26 + 65) :: colLE ((n - 1) / 26)
termination_by n
decreasing_by omega

/-- `column_number_to_name` -/
def columnNumberToName (num : Nat) : Res Bytes :=
  if num ≥ maxColumns then .err "Unexpected" else .ok (colLE (num + 1)).reverse

/-- decimal digits of `n`, least-significant first (`u32::to_string` reversed) -/
def decLE (n : Nat) : Bytes :=
  if h : n < 10 then [48 + n] else (48 + n % 10) :: decLE (n / 10)
termination_by n
decreasing_by omega

/-- `coordinate_to_name((row, col))`; `cell.0 + 1` is a `u32` addition -/
def coordToName (row col : Nat) : Res Bytes :=
  match columnNumberToName col with
  | .ok name => if row + 1 ≥ U32 then .panic "u32 add overflow" else .ok (name ++ (decLE (row + 1)).reverse)
  | .err e => .err e
  | .panic s => .panic s
  | .outOfFuel => .outOfFuel

/-! ### events -/

abbrev Attrs := List (Bytes × Bytes)

inductive Ev where
  | start (name : Bytes) (attrs : Attrs)
  /-- character data after entity unescaping; a CDATA section inside `<v>`/`<t>` is character data too
      (`Event::CData`, appended like `Event::Text` since the D24 fix) and is presented to the model as `text` -/
  | text (s : Bytes)
  | stop (name : Bytes)
  /-- comment, processing instruction, declaration, doctype: every reading loop ignores them -/
  | other
  deriving Repr, DecidableEq, Inhabited

/-- `QName::local_name`: the part after the first `:` -/
def localName (n : Bytes) : Bytes :=
  match n.dropWhile (· ≠ 58) with
  | [] => n
  | _ :: rest => rest

/-- `get_attribute(atts, QName(key))`: the raw value of the first attribute with exactly this (qualified) name -/
def getAttr (attrs : Attrs) (key : Bytes) : Option Bytes :=
  (attrs.find? (fun a => a.1 == key)).map (·.2)

/-- `atoi_simd::parse::<usize>`: 1..20 ASCII digits (no sign, no blanks), value below 2^64 -/
def atoiUsize (s : Bytes) : Option Nat :=
  if s.length = 0 ∨ s.length > 20 ∨ ¬ s.all (fun c => 48 ≤ c ∧ c ≤ 57) then none
  else
    let v := s.foldl (fun acc c => acc * 10 + (c - 48)) 0
    if v < 18446744073709551616 then some v else none

/-! ### values -/

/-- `DataRef` as the reader produces it. `num text fmt strict` stands for `text.parse::<f64>()` pushed through
    `format_excel_f64_ref(_, fmt, is_1904)`; if the text does not parse: an error when `strict` (`t="n"`),
    else `String(text)`. -/
inductive Val where
  | empty
  | str (s : Bytes)
  | shared (s : Bytes)
  | bool (b : Bool)
  | error (kind : CellErrorType)
  | dateIso (s : Bytes)
  | num (text : Bytes) (fmt : CellFormat) (strict : Bool)
  deriving Repr, DecidableEq

instance : Inhabited Val := ⟨.empty⟩

/-- `impl FromStr for CellErrorType` (`src/xlsx/mod.rs`): the arms are the generated table
    `Gen.xlsxErrorFromStr`, re-extracted from the source on every run -/
def parseError (v : Bytes) : Option CellErrorType := (Gen.xlsxErrorFromStr.find? (fun e => e.1 == v)).map (·.2)

/-- what the reader is given besides the events -/
structure Cfg where
  strings : List Bytes
  formats : List CellFormat
  deriving Repr

/-- `read_v`: the typing table -/
def readV (cfg : Cfg) (cattrs : Attrs) (v : Bytes) : Res Val :=
  let fmt : CellFormat := match getAttr cattrs nS with
    | some style => cfg.formats.getD ((atoiUsize style).getD 0) .other
    | none => .other
  match getAttr cattrs nT with
  | some t =>
    if t = nS then
      match cfg.strings[(atoiUsize v).getD 0]? with
      | some s => .ok (.shared s)
      | none => .err "Unexpected"
    else if t = tB then .ok (.bool (v ≠ [48]))
    else if t = tE then
      match parseError v with
      | some code => .ok (.error code)
      | none => .err "CellError"
    else if t = tD then .ok (.dateIso v)
    else if t = tStr then .ok (.str v)
    else if t = tN then (if v = [] then .ok .empty else .ok (.num v fmt true))
    else if t = nIs then .err "Unexpected"
    else .err "CellTAttribute"
  | none => .ok (.num v fmt false)

/-! ### `read_string` -/

/-- the loops of `read_string` -/
inductive SMode where
  /-- main loop: `rich_buffer`, `is_phonetic_text` -/
  | main (rich : Option Bytes) (phon : Bool)
  /-- inner loop collecting the text of `<t>` until the end tag with the same (qualified) name -/
  | inT (rich : Option Bytes) (phon : Bool) (tname : Bytes) (acc : Bytes)
  /-- `xml.read_to_end_into(closing)` after a plain `<t>`: nesting depth of same-named elements -/
  | toEnd (depth : Nat) (value : Bytes)
  deriving Repr, DecidableEq

inductive SRes where
  | cont (m : SMode)
  | ret (v : Option Bytes)
  deriving Repr, DecidableEq

/-- one event of `read_string(xml, closing)`; `closing` is the qualified name of the opening element -/
def strStep (closing : Bytes) : SMode → Ev → SRes
  | .main rich phon, ev =>
    match ev with
    | .start n _ =>
      if localName n = nR then .cont (.main (some (rich.getD [])) phon)
      else if localName n = nRPh then .cont (.main rich true)
      else if localName n = nT ∧ phon = false then .cont (.inT rich phon n [])
      else .cont (.main rich phon)
    | .stop n =>
      if n = closing then .ret rich
      else if localName n = nRPh then .cont (.main rich false)
      else .cont (.main rich phon)
    | _ => .cont (.main rich phon)
  | .inT rich phon tname acc, ev =>
    match ev with
    | .text s => .cont (.inT rich phon tname (acc ++ s))
    | .stop n =>
      if n = tname then
        match rich with
        | some r => .cont (.main (some (r ++ acc)) phon)
        | none => .cont (.toEnd 0 acc)
      else .cont (.inT rich phon tname acc)
    | _ => .cont (.inT rich phon tname acc)
  | .toEnd depth value, ev =>
    match ev with
    | .start n _ => if n = closing then .cont (.toEnd (depth + 1) value) else .cont (.toEnd depth value)
    | .stop n =>
      if n = closing then (if depth = 0 then .ret (some value) else .cont (.toEnd (depth - 1) value))
      else .cont (.toEnd depth value)
    | _ => .cont (.toEnd depth value)

/-- the error `read_string` returns when the events run out in this mode -/
def strEof : SMode → String
  | .main _ _ => "XmlEof"
  | .inT _ _ _ _ => "XmlEof"
  | .toEnd _ _ => "Xml"

/-! ### shared strings -/

/-- `Xlsx::read_shared_strings`: `none` = between items, `some (closing, m)` = inside `read_string` -/
def sstLoop : List Ev → Option (Bytes × SMode) → List Bytes → Res (List Bytes)
  | [], none, _ => .err "XmlEof"
  | [], some (_, m), _ => .err (strEof m)
  | ev :: rest, none, acc =>
    match ev with
    | .start n _ => if localName n = nSi then sstLoop rest (some (n, .main none false)) acc else sstLoop rest none acc
    | .stop n => if localName n = nSst then .ok acc.reverse else sstLoop rest none acc
    | _ => sstLoop rest none acc
  | ev :: rest, some (closing, m), acc =>
    match strStep closing m ev with
    | .cont m' => sstLoop rest (some (closing, m')) acc
    | .ret v => sstLoop rest none (v.getD [] :: acc)

def readSharedStrings (evs : List Ev) : Res (List Bytes) := sstLoop evs none []

/-! ### `XlsxCellReader` -/

/-- `XlsxCellReader::new`: scan up to `<sheetData>`; returns the dimensions and the remaining events -/
def readerNew : List Ev → Dims → Bool → Res (Dims × List Ev)
  | [], _, sawType => if sawType then .err "NotAWorksheet" else .err "XmlEof"
  | ev :: rest, dims, sawType =>
    match ev with
    | .start n attrs =>
      if localName n = nDimension then
        match getAttr attrs nRef with
        | some rdim =>
          match getDimension rdim with
          | .ok d => readerNew rest d sawType
          | .err e => .err e
          | .panic s => .panic s
          | .outOfFuel => .outOfFuel
        | none => .err "UnexpectedNode"
      else if localName n = nSheetData then .ok (dims, rest)
      else readerNew rest dims true
    | _ => readerNew rest dims sawType

/-- the loops of `next_cell` / `read_value` -/
inductive Mode where
  /-- outer loop of `next_cell` -/
  | rows
  /-- inner loop of `next_cell` after `<c>`: position, the attributes of `<c>`, current `value` -/
  | cell (pos : Nat × Nat) (cattrs : Attrs) (value : Val)
  /-- `read_value`, `b"v"`: collecting text until the end tag with the same qualified name -/
  | inV (pos : Nat × Nat) (cattrs : Attrs) (vname : Bytes) (acc : Bytes)
  /-- `read_value`, `b"f"`: `read_to_end_into(name)`, then `value = Empty` -/
  | inF (pos : Nat × Nat) (cattrs : Attrs) (name : Bytes) (depth : Nat)
  /-- `read_value`, `b"is"`: inside `read_string(xml, closing)` -/
  | inIs (pos : Nat × Nat) (cattrs : Attrs) (closing : Bytes) (m : SMode)
  /-- `next_cell` returned `Ok(None)` (`</sheetData>`) -/
  | done
  deriving Repr, DecidableEq

/-- reader state: mode, `row_index`, `col_index`, the cells returned so far (latest first) -/
structure St where
  mode : Mode
  row : Nat
  col : Nat
  out : List (Nat × Nat × Val)
  deriving Repr

/-- one event of the `next_cell` machinery (`row_index`/`col_index` advance with `saturating_add`) -/
def step (cfg : Cfg) (st : St) (ev : Ev) : Res St :=
  match st.mode with
  | .done => .ok st
  | .rows =>
    match ev with
    | .start n attrs =>
      if localName n = nRow then
        match getAttr attrs nR with
        | some range =>
          match getRow range with
          | .ok row => .ok { st with row := row }
          | .err e => .err e
          | .panic s => .panic s
          | .outOfFuel => .outOfFuel
        | none => .ok st
      else if localName n = nC then
        match getAttr attrs nR with
        | some range =>
          match getRowColumn range with
          | .ok (row, col) => .ok { st with col := col, mode := .cell (row, col) attrs .empty }
          | .err e => .err e
          | .panic s => .panic s
          | .outOfFuel => .outOfFuel
        | none => .ok { st with mode := .cell (st.row, st.col) attrs .empty }
      else .ok st
    | .stop n =>
      if localName n = nRow then
        .ok { st with row := satAdd st.row 1, col := 0 }
      else if localName n = nSheetData then .ok { st with mode := .done }
      else .ok st
    | _ => .ok st
  | .cell pos cattrs value =>
    match ev with
    | .start n _ =>
      if localName n = nIs then .ok { st with mode := .inIs pos cattrs n (.main none false) }
      else if localName n = nV then .ok { st with mode := .inV pos cattrs n [] }
      else if localName n = nF then .ok { st with mode := .inF pos cattrs n 0 }
      else .err "UnexpectedNode"
    | .stop n =>
      if localName n = nC then
        .ok { st with mode := .rows, col := satAdd st.col 1, out := (pos.1, pos.2, value) :: st.out }
      else .ok st
    | _ => .ok st
  | .inV pos cattrs vname acc =>
    match ev with
    | .text s => .ok { st with mode := .inV pos cattrs vname (acc ++ s) }
    | .stop n =>
      if n = vname then
        match readV cfg cattrs acc with
        | .ok v => .ok { st with mode := .cell pos cattrs v }
        | .err e => .err e
        | .panic s => .panic s
        | .outOfFuel => .outOfFuel
      else .ok st
    | _ => .ok st
  | .inF pos cattrs name depth =>
    match ev with
    | .start n _ => if n = name then .ok { st with mode := .inF pos cattrs name (depth + 1) } else .ok st
    | .stop n =>
      if n = name then
        (if depth = 0 then .ok { st with mode := .cell pos cattrs .empty }
         else .ok { st with mode := .inF pos cattrs name (depth - 1) })
      else .ok st
    | _ => .ok st
  | .inIs pos cattrs closing m =>
    match strStep closing m ev with
    | .cont m' => .ok { st with mode := .inIs pos cattrs closing m' }
    | .ret (some s) => .ok { st with mode := .cell pos cattrs (.str s) }
    | .ret none => .ok { st with mode := .cell pos cattrs .empty }

/-- the error reported when the events run out in this mode -/
def eofErr : Mode → String
  | .rows => "XmlEof"
  | .cell _ _ _ => "XmlEof"
  | .inV _ _ _ _ => "XmlEof"
  | .inF _ _ _ _ => "Xml"
  | .inIs _ _ _ m => strEof m
  | .done => "-"

/-- run the reader over the events after `<sheetData>`: the cells returned before it stopped, in stream
    order, and how it stopped (`ok ()` = `Ok(None)` reached at `</sheetData>`) -/
def run (cfg : Cfg) : List Ev → St → List (Nat × Nat × Val) × Res Unit
  | [], st => (st.out.reverse, if st.mode = .done then .ok () else .err (eofErr st.mode))
  | ev :: rest, st =>
    match step cfg st ev with
    | .ok st' => if st'.mode = .done then (st'.out.reverse, .ok ()) else run cfg rest st'
    | .err e => (st.out.reverse, .err e)
    | .panic s => (st.out.reverse, .panic s)
    | .outOfFuel => (st.out.reverse, .outOfFuel)

def initSt : St := ⟨.rows, 0, 0, []⟩

/-- all cells `next_cell` yields on a worksheet part (positions 0-based), or the failure -/
def readCells (cfg : Cfg) (evs : List Ev) : Res (Dims × List (Nat × Nat × Val)) :=
  match readerNew evs default false with
  | .ok (dims, rest) =>
    match run cfg rest initSt with
    | (cells, .ok ()) => .ok (dims, cells)
    | (_, .err e) => .err e
    | (_, .panic s) => .panic s
    | (_, .outOfFuel) => .outOfFuel
  | .err e => .err e
  | .panic s => .panic s
  | .outOfFuel => .outOfFuel

/-- `worksheet_range_ref` (default `HeaderRow::FirstNonEmptyRow`): `Empty` cells are skipped, the rest goes
    to `Range::from_sparse`. A part without `<sheetData>` (`NotAWorksheet`) gives the empty range. -/
def worksheetRange (cfg : Cfg) (evs : List Ev) : Res (Range.Rng Val) :=
  match readerNew evs default false with
  | .ok (_, rest) =>
    match run cfg rest initSt with
    | (cells, .ok ()) => Range.fromSparse (cells.filter (fun c => c.2.2 ≠ .empty))
    | (_, .err e) => .err e
    | (_, .panic s) => .panic s
    | (_, .outOfFuel) => .outOfFuel
  | .err e => if e = "NotAWorksheet" then .ok Range.empty else .err e
  | .panic s => .panic s
  | .outOfFuel => .outOfFuel

end XlsxCells
