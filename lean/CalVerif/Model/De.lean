import CalVerif.Prim.Res
import CalVerif.Model.Range
/-! Model of `/repo/src/de.rs` (serde deserialization of a `Range<Data>`).

    * `Data` mirrors `calamine::Data` as far as `DataDeserializer` looks at it (floats are opaque
      IEEE-754 bit patterns; strings are `List Char`).
    * `RangeDeserializer` is a state machine: `new` (with `Headers::None | All | Custom`), `next`,
      `sizeHint`.
    * `RowDeserializer` is modelled by the EVENT STREAM its `SeqAccess` / `MapAccess` hand to a serde
      visitor: `seqEvents` / `mapEvents`. serde's own visitors (derive, tuples, `Vec`, `HashMap`) are not
      modelled.
    * `DataDeserializer` is the table `convert : Data → Pos → Target → DRes Val` (what `visit_*` call the
      visitor receives for each `deserialize_*` request).

    Trusted `std` pieces that are not modelled (`f64::to_string`, `str::parse::<f64/f32>`) are the
    fields of the parameter `Std`; every theorem holds for every `Std`. Everything else (integer
    parsing, `as` casts between integers and floats, `str::trim`) is modelled exactly. -/

namespace De
open Range (Rng)

abbrev Str := List Char
abbrev Pos := Nat × Nat

def U32 : Nat := 4294967296

/-- `calamine::Data`; `error k`: `k` = index of the `CellErrorType` variant (Div0, NA, Name, Null, Num,
    Ref, Value, GettingData); `dateTime bits`: only `ExcelDateTime::value` is looked at by `de.rs`. -/
inductive Data where
  | int (v : Int)
  | float (bits : Nat)
  | string (s : Str)
  | bool (b : Bool)
  | dateTime (bits : Nat)
  | dateTimeIso (s : Str)
  | durationIso (s : Str)
  | error (kind : Nat)
  | empty
  deriving Repr, DecidableEq

instance : Inhabited Data := ⟨.empty⟩

/-- `ToCellDeserializer::is_empty` for `Data` -/
def Data.isEmpty : Data → Bool
  | .empty => true
  | _ => false

/-- `DeError` (the text of `Custom` messages is not modelled, only a class tag) -/
inductive DeErr where
  | cellError (kind : Nat) (pos : Pos)
  | unexpectedEndOfRow (pos : Pos)
  | headerNotFound (name : Str)
  | custom (cls : String)
  deriving Repr, DecidableEq

/-- outcome of a call into `de.rs`: `Ok`, `Err(DeError)`, or unwinding -/
inductive DRes (α : Type) where
  | ok (a : α)
  | err (e : DeErr)
  | panic (site : String)
  deriving Repr, DecidableEq

namespace DRes
@[inline] def bind {α β : Type} (x : DRes α) (f : α → DRes β) : DRes β :=
  match x with
  | ok a => f a
  | err e => err e
  | panic s => panic s
instance : Monad DRes where
  pure := ok
  bind := bind
@[simp] theorem bind_ok {α β : Type} (a : α) (f : α → DRes β) : (ok a >>= f) = f a := rfl
@[simp] theorem bind_err {α β : Type} (e : DeErr) (f : α → DRes β) : ((err e : DRes α) >>= f) = err e := rfl
@[simp] theorem bind_panic {α β : Type} (s : String) (f : α → DRes β) : ((panic s : DRes α) >>= f) = panic s := rfl
@[simp] theorem pure_eq {α : Type} (a : α) : (pure a : DRes α) = ok a := rfl
def map {α β : Type} (f : α → β) : DRes α → DRes β
  | ok a => ok (f a)
  | err e => err e
  | panic s => panic s
/-- the shared outcome type (error reduced to its class) -/
def toRes {α : Type} : DRes α → Res α
  | ok a => .ok a
  | err (.cellError _ _) => .err "CellError"
  | err (.unexpectedEndOfRow _) => .err "UnexpectedEndOfRow"
  | err (.headerNotFound _) => .err "HeaderNotFound"
  | err (.custom _) => .err "Custom"
  | panic s => .panic s
end DRes

/-- `iter.map(f).collect::<Result<Vec<_>, _>>()`: stops at the first failure -/
def mapMD {α β : Type} (f : α → DRes β) : List α → DRes (List β)
  | [] => .ok []
  | a :: rest =>
    match f a with
    | .ok b => (match mapMD f rest with
      | .ok bs => .ok (b :: bs)
      | .err e => .err e
      | .panic s => .panic s)
    | .err e => .err e
    | .panic s => .panic s

/-- the parts of Rust's `std` that are trusted, not modelled -/
structure Std where
  /-- `f64::to_string` (`Display`) of the float with this bit pattern -/
  fmtF64 : Nat → Str
  /-- `str::parse::<f64>()`: bits of the result, `none` on `Err` -/
  parseF64 : Str → Option Nat
  /-- `str::parse::<f32>()` -/
  parseF32 : Str → Option Nat

/-! ### strings -/

/-- `char::is_whitespace` (Unicode `White_Space`) -/
def isWs (c : Char) : Bool :=
  let n := c.toNat
  (9 ≤ n && n ≤ 13) || n == 32 || n == 0x85 || n == 0xA0 || n == 0x1680 || (0x2000 ≤ n && n ≤ 0x200A)
    || n == 0x2028 || n == 0x2029 || n == 0x202F || n == 0x205F || n == 0x3000

/-- `str::trim` -/
def trim (s : Str) : Str := ((s.dropWhile isWs).reverse.dropWhile isWs).reverse

/-- `i64::to_string` -/
def intToStr (v : Int) : Str :=
  if v < 0 then '-' :: Nat.toDigits 10 v.natAbs else Nat.toDigits 10 v.natAbs

/-- `bool::to_string` -/
def boolToStr (b : Bool) : Str := if b then "true".toList else "false".toList

def digitVal (c : Char) : Option Nat :=
  if 48 ≤ c.toNat ∧ c.toNat ≤ 57 then some (c.toNat - 48) else none

def parseDigits : Str → Nat → Option Nat
  | [], acc => some acc
  | c :: cs, acc =>
    match digitVal c with
    | some d => parseDigits cs (acc * 10 + d)
    | none => none

/-- `<iN/uN as FromStr>::from_str` (`from_str_radix(s, 10)`): optional `+`, `-` only for signed types,
    at least one digit, ASCII digits only, range check. -/
def parseInt (signed : Bool) (lo hi : Int) (s : Str) : Option Int :=
  match s with
  | [] => none
  | [c] => if c = '+' ∨ c = '-' then none else
      (match parseDigits [c] 0 with
       | some n => if lo ≤ (n : Int) ∧ (n : Int) ≤ hi then some (n : Int) else none
       | none => none)
  | c :: cs =>
    let neg := c = '-' ∧ signed
    let ds := if c = '+' ∨ neg then cs else c :: cs
    match parseDigits ds 0 with
    | none => none
    | some n =>
      let v : Int := if neg then - (n : Int) else (n : Int)
      if lo ≤ v ∧ v ≤ hi then some v else none

/-! ### numeric casts (`as`) -/

inductive NumTy where
  | i8 | i16 | i32 | i64 | u8 | u16 | u32 | u64 | f32 | f64
  deriving Repr, DecidableEq

def NumTy.bits : NumTy → Nat
  | .i8 | .u8 => 8
  | .i16 | .u16 => 16
  | .i32 | .u32 | .f32 => 32
  | .i64 | .u64 | .f64 => 64

def NumTy.signed : NumTy → Bool
  | .i8 | .i16 | .i32 | .i64 => true
  | _ => false

def NumTy.isFloat : NumTy → Bool
  | .f32 | .f64 => true
  | _ => false

def NumTy.lo (t : NumTy) : Int := if t.signed then - (2 ^ (t.bits - 1) : Nat) else 0
def NumTy.hi (t : NumTy) : Int := if t.signed then (2 ^ (t.bits - 1) : Nat) - 1 else (2 ^ t.bits : Nat) - 1

/-- `v as iN/uN` for `v : i64`: two's-complement truncation -/
def wrapInt (t : NumTy) (v : Int) : Int :=
  let m : Int := (2 ^ t.bits : Nat)
  let u := v % m
  if t.signed ∧ u ≥ (2 ^ (t.bits - 1) : Nat) then u - m else u

def clampInt (lo hi v : Int) : Int := if v < lo then lo else if v > hi then hi else v

/-- `f as iN/uN` for `f : f64` given by its bits: truncation toward zero, saturating, NaN ↦ 0 -/
def f64ToInt (t : NumTy) (bits : Nat) : Int :=
  let s : Nat := bits / 2 ^ 63 % 2
  let e : Nat := bits / 2 ^ 52 % 2048
  let m : Nat := bits % 2 ^ 52
  if e = 2047 ∧ m ≠ 0 then 0
  else
    let mag : Nat :=
      if e = 2047 then 2 ^ 64
      else if e < 1023 then 0
      else if e ≥ 1075 then (if e - 1075 > 12 then 2 ^ 64 else (2 ^ 52 + m) * 2 ^ (e - 1075))
      else (2 ^ 52 + m) / 2 ^ (1075 - e)
    clampInt t.lo t.hi (if s = 1 then - (mag : Int) else (mag : Int))

/-- position of the highest set bit (`n > 0`) -/
def log2 (n : Nat) : Nat := Nat.log2 n

/-- round-half-to-even of `m / 2^sh` -/
def rneShift (m sh : Nat) : Nat :=
  if sh = 0 then m
  else
    let q := m / 2 ^ sh
    let r := m % 2 ^ sh
    let half := 2 ^ (sh - 1)
    if r > half ∨ (r = half ∧ q % 2 = 1) then q + 1 else q

/-- IEEE-754 round-to-nearest-even of the positive real `m · 2^e` into a binary format with `p`
    significand bits (hidden bit included) and minimal normal exponent `emin`; result = the bits below
    the sign bit. `expBits` is the width of the exponent field. -/
def roundFloat (p : Nat) (emin : Int) (expBits : Nat) (m : Nat) (e : Int) : Nat :=
  if m = 0 then 0
  else
    let k : Int := (log2 m : Nat)
    let qmin : Int := emin - ((p : Int) - 1)          -- exponent of the smallest quantum
    let qe : Int := if k + e - ((p : Int) - 1) < qmin then qmin else k + e - ((p : Int) - 1)
    let sh : Int := qe - e
    let q : Nat := if sh ≤ 0 then m * 2 ^ (-sh).toNat else rneShift m sh.toNat
    let bits : Nat := (qe - qmin).toNat * 2 ^ (p - 1) + q
    let inf : Nat := (2 ^ expBits - 1) * 2 ^ (p - 1)
    if bits ≥ inf then inf else bits

/-- `v as f64` for `v : i64` -/
def intToF64 (v : Int) : Nat :=
  (if v < 0 then 2 ^ 63 else 0) + roundFloat 53 (-1022) 11 v.natAbs 0

/-- `v as f32` for `v : i64` -/
def intToF32 (v : Int) : Nat :=
  (if v < 0 then 2 ^ 31 else 0) + roundFloat 24 (-126) 8 v.natAbs 0

/-- canonical quiet NaN of `f32` (the payload of a NaN produced by a cast is not modelled) -/
def f32NaN : Nat := 0x7FC00000

/-- `f as f32` for `f : f64` -/
def f64ToF32 (bits : Nat) : Nat :=
  let s : Nat := bits / 2 ^ 63 % 2
  let e : Nat := bits / 2 ^ 52 % 2048
  let m : Nat := bits % 2 ^ 52
  if e = 2047 ∧ m ≠ 0 then f32NaN
  else
    let sign := if s = 1 then 2 ^ 31 else 0
    if e = 2047 then sign + 0x7F800000
    else if e = 0 then sign + roundFloat 24 (-126) 8 m (-1074)
    else sign + roundFloat 24 (-126) 8 (2 ^ 52 + m) ((e : Int) - 1075)

/-- `f != 0.` on the bit pattern: false exactly for `+0.0` and `-0.0` (NaN compares unequal) -/
def f64NonZero (bits : Nat) : Bool := bits % 2 ^ 63 != 0

/-! ### `DataDeserializer` -/

inductive Target where
  | any | bool | num (t : NumTy) | char | str | string | bytes | byteBuf | option | unit
  | unitStruct | newtypeStruct | seq | tuple | tupleStruct | map | struct | enum | identifier | ignoredAny
  deriving Repr, DecidableEq

/-- the `visit_*` call a visitor receives. `int t v` = `visit_i8 … visit_u64`; `bytes s` = `visit_bytes(s.as_bytes())`;
    `some` / `newtype` = `visit_some(self)` / `visit_newtype_struct(self)`: the visitor is handed the same
    cell deserializer again; `enum s` = `visit_enum(s.into_deserializer())`. -/
inductive Val where
  | bool (b : Bool)
  | int (t : NumTy) (v : Int)
  | f32 (bits : Nat)
  | f64 (bits : Nat)
  | str (s : Str)
  | bytes (s : Str)
  | char (c : Char)
  | unit
  | none
  | some
  | newtype
  | enum (s : Str)
  deriving Repr, DecidableEq

/-- `deserialize_any` -/
def convAny (d : Data) (pos : Pos) : DRes Val :=
  match d with
  | .string s => .ok (.str s)
  | .float b => .ok (.f64 b)
  | .bool b => .ok (.bool b)
  | .int v => .ok (.int .i64 v)
  | .empty => .ok .unit
  | .dateTime b => .ok (.f64 b)
  | .dateTimeIso s => .ok (.str s)
  | .durationIso s => .ok (.str s)
  | .error k => .err (.cellError k pos)

/-- `deserialize_str` (= `deserialize_string`): the string handed to `visit_str` -/
def strOf (std : Std) (d : Data) (pos : Pos) : DRes Str :=
  match d with
  | .string s => .ok s
  | .empty => .ok []
  | .float b => .ok (std.fmtF64 b)
  | .int v => .ok (intToStr v)
  | .bool b => .ok (boolToStr b)
  | .dateTime b => .ok (std.fmtF64 b)
  | .dateTimeIso s => .ok s
  | .durationIso s => .ok s
  | .error k => .err (.cellError k pos)

/-- `deserialize_bytes` (= `deserialize_byte_buf`) -/
def convBytes (d : Data) (pos : Pos) : DRes Val :=
  match d with
  | .string s => .ok (.bytes s)
  | .empty => .ok (.bytes [])
  | .error k => .err (.cellError k pos)
  | _ => .err (.custom "bytes")

/-- `deserialize_bool` -/
def convBool (d : Data) (pos : Pos) : DRes Val :=
  match d with
  | .bool b => .ok (.bool b)
  | .string s =>
    if s = "TRUE".toList ∨ s = "true".toList ∨ s = "True".toList then .ok (.bool true)
    else if s = "FALSE".toList ∨ s = "false".toList ∨ s = "False".toList then .ok (.bool false)
    else .err (.custom "bool")
  | .empty => .ok (.bool false)
  | .float b => .ok (.bool (f64NonZero b))
  | .int v => .ok (.bool (v != 0))
  | .dateTime b => .ok (.bool (f64NonZero b))
  | .dateTimeIso _ => .ok (.bool true)
  | .durationIso _ => .ok (.bool true)
  | .error k => .err (.cellError k pos)

/-- `deserialize_char`: `s.len() == 1` is the BYTE length, i.e. a single ASCII character -/
def convChar (d : Data) (pos : Pos) : DRes Val :=
  match d with
  | .string [c] => if c.toNat < 128 then .ok (.char c) else .err (.custom "char")
  | .error k => .err (.cellError k pos)
  | _ => .err (.custom "char")

/-- `deserialize_unit` -/
def convUnit (d : Data) (pos : Pos) : DRes Val :=
  match d with
  | .empty => .ok .unit
  | .error k => .err (.cellError k pos)
  | _ => .err (.custom "unit")

/-- `deserialize_option` -/
def convOption (d : Data) : DRes Val :=
  match d with
  | .empty => .ok .none
  | _ => .ok .some

/-- `deserialize_enum` -/
def convEnum (d : Data) (pos : Pos) : DRes Val :=
  match d with
  | .string s => .ok (.enum s)
  | .error k => .err (.cellError k pos)
  | _ => .err (.custom "enum")

/-- `deserialize_num!` -/
def convNum (std : Std) (t : NumTy) (d : Data) (pos : Pos) : DRes Val :=
  match d with
  | .float b =>
    (match t with
     | .f64 => .ok (.f64 b)
     | .f32 => .ok (.f32 (f64ToF32 b))
     | _ => .ok (.int t (f64ToInt t b)))
  | .int v =>
    (match t with
     | .f64 => .ok (.f64 (intToF64 v))
     | .f32 => .ok (.f32 (intToF32 v))
     | _ => .ok (.int t (wrapInt t v)))
  | .string s =>
    (match t with
     | .f64 => (match std.parseF64 s with | Option.some b => .ok (.f64 b) | Option.none => .err (.custom "num"))
     | .f32 => (match std.parseF32 s with | Option.some b => .ok (.f32 b) | Option.none => .err (.custom "num"))
     | _ => (match parseInt t.signed t.lo t.hi s with
             | Option.some v => .ok (.int t v)
             | Option.none => .err (.custom "num")))
  | .error k => .err (.cellError k pos)
  | _ => .err (.custom "num")

/-- `impl Deserializer for DataDeserializer`: which `visit_*` the visitor receives for which request -/
def convert (std : Std) (d : Data) (pos : Pos) : Target → DRes Val
  | .any | .unitStruct | .seq | .tuple | .tupleStruct | .map | .struct | .identifier | .ignoredAny => convAny d pos
  | .str | .string => (strOf std d pos).map Val.str
  | .bytes | .byteBuf => convBytes d pos
  | .bool => convBool d pos
  | .char => convChar d pos
  | .unit => convUnit d pos
  | .option => convOption d
  | .newtypeStruct => .ok .newtype
  | .enum => convEnum d pos
  | .num t => convNum std t d pos

/-! ### `RowDeserializer` -/

/-- `RowDeserializer::cell_pos`: absolute position of the cell at relative column `i`
    (`self.pos.1.saturating_add(i as u32)`) -/
def cellPos (pos : Pos) (i : Nat) : Pos := (pos.1, min (pos.2 + i % U32) (U32 - 1))

/-- `SeqAccess::next_element_seed`, all calls: the cell deserializers handed to the seeds, in order.
    `panic` = `self.cells[*i]` out of bounds. -/
def seqEvents (colIdx : List Nat) (row : List Data) (pos : Pos) : List (DRes (Data × Pos)) :=
  colIdx.map fun i =>
    match row[i]? with
    | some d => .ok (d, cellPos pos i)
    | none => .panic "index out of bounds"

/-- `MapAccess::next_key_seed` / `next_value_seed`, all calls: (key handed to the key seed, cell
    deserializer handed to the value seed). Empty cells are skipped. -/
def mapEvents (headers : List Str) (colIdx : List Nat) (row : List Data) (pos : Pos) :
    List (DRes (Str × Data × Pos)) :=
  colIdx.filterMap fun i =>
    match row[i]? with
    | none => some (.panic "index out of bounds")
    | some d =>
      if d.isEmpty then none
      else match headers[i]? with
        | none => some (.panic "index out of bounds")
        | some h => some (.ok (h, d, cellPos pos i))

/-- what the record type asks the row deserializer for: `deserialize_map`/`deserialize_struct` (`map`) or
    anything else (`seq`: `deserialize_any`, seq, tuple, … all forward to `visit_seq`) -/
inductive Shape where
  | seq | map
  deriving Repr, DecidableEq

/-- the access object handed to the record's visitor. `seq hint evs`: `visit_seq`, `hint` =
    `SeqAccess::size_hint` before the first element; `map evs`: `visit_map`. -/
inductive Item where
  | seq (hint : Nat) (evs : List (DRes (Data × Pos)))
  | map (evs : List (DRes (Str × Data × Pos)))
  deriving Repr, DecidableEq

/-- `impl Deserializer for RowDeserializer` -/
def rowItem (colIdx : List Nat) (headers : Option (List Str)) (row : List Data) (pos : Pos) : Shape → Item
  | .seq => .seq colIdx.length (seqEvents colIdx row pos)
  | .map =>
    match headers with
    | some hs => .map (mapEvents hs colIdx row pos)
    | none => .seq colIdx.length (seqEvents colIdx row pos)

/-! ### `RangeDeserializer` -/

inductive Headers where
  | none
  | all
  | custom (names : List Str)
  deriving Repr, DecidableEq

structure DeState where
  colIdx : List Nat
  headers : Option (List Str)
  /-- the `Rows` iterator: rows not yet deserialized -/
  rows : List (List Data)
  /-- `current_pos`: position of the first cell of the next row -/
  cur : Pos
  deriving Repr, DecidableEq

/-- `Vec::<String>::deserialize(RowDeserializer::new(&all_indexes, None, row, current_pos))`:
    every cell through `deserialize_string`, stopping at the first error -/
def headerRow (std : Std) (row : List Data) (pos : Pos) : DRes (List Str) :=
  mapMD (fun ev => match ev with
      | .ok (d, p) => strOf std d p
      | .err e => .err e
      | .panic s => .panic s)
    (seqEvents (List.range row.length) row pos)

/-- `headers.iter().map(|h| h.as_ref().trim()).map(|h| all_headers.iter().position(|x| x.trim() == h)
      .ok_or_else(|| HeaderNotFound(h.to_owned()))).collect::<Result<Vec<_>, _>>()` -/
def customIdx (allHeaders : List Str) (names : List Str) : DRes (List Nat) :=
  mapMD (fun n =>
      match allHeaders.findIdx? (fun h => trim h == trim n) with
      | some i => .ok i
      | none => .err (.headerNotFound (trim n)))
    names

/-- `current_pos.0 = current_pos.0.saturating_add(1)` -/
def nextRowPos (p : Pos) : Pos := (min (p.1 + 1) (U32 - 1), p.2)

/-- `RangeDeserializer::new` -/
def new (std : Std) (cfg : Headers) (r : Rng Data) : DRes DeState :=
  let rows := Range.rows r
  let cur : Pos := r.start.getD (0, 0)
  match cfg with
  | .none => .ok { colIdx := List.range r.width, headers := none, rows := rows, cur := cur }
  | .all =>
    (match rows with
     | [] => .ok { colIdx := [], headers := none, rows := [], cur := cur }
     | row :: rest =>
       match headerRow std row cur with
       | .ok hs => .ok { colIdx := List.range row.length, headers := some hs, rows := rest, cur := nextRowPos cur }
       | .err e => .err e
       | .panic s => .panic s)
  | .custom names =>
    (match rows with
     | [] => .ok { colIdx := [], headers := none, rows := [], cur := cur }
     | row :: rest =>
       match headerRow std row cur with
       | .ok hs =>
         (match customIdx hs names with
          | .ok idx => .ok { colIdx := idx, headers := some hs, rows := rest, cur := nextRowPos cur }
          | .err e => .err e
          | .panic s => .panic s)
       | .err e => .err e
       | .panic s => .panic s)

/-- `Iterator::next` (the record type asks for `sh`) -/
def next (st : DeState) (sh : Shape) : Option Item × DeState :=
  match st.rows with
  | [] => (none, st)
  | row :: rest =>
    (some (rowItem st.colIdx st.headers row st.cur sh), { st with rows := rest, cur := nextRowPos st.cur })

/-- `Iterator::size_hint`: `self.rows.len()` (`Rows` is an `ExactSizeIterator`) -/
def sizeHint (st : DeState) : Nat × Option Nat := (st.rows.length, some st.rows.length)

/-- the state after `k` calls to `next` -/
def nextN (sh : Shape) : Nat → DeState → DeState
  | 0, st => st
  | k + 1, st => nextN sh k (next st sh).2

/-- the results of the first `k` calls to `next` -/
def items (sh : Shape) : Nat → DeState → List (Option Item)
  | 0, _ => []
  | k + 1, st => (next st sh).1 :: items sh k (next st sh).2

/-- `Iterator::nth` (the default method: `RangeDeserializer` does not override it): `n` items are
    pulled with `next` and dropped, the following one is returned -/
def nth (st : DeState) (sh : Shape) : Nat → Option Item × DeState
  | 0 => next st sh
  | n + 1 => nth (next st sh).2 sh n

/-- `Range::deserialize` = `RangeDeserializerBuilder::new().from_range(self)` (default: `Headers::All`) -/
def rangeDeserialize (std : Std) (r : Rng Data) : DRes DeState := new std .all r

/-! ### a recording visitor (what the harness observes)

    The record visitor asks each cell deserializer for the target given by a cyclic schedule and
    stops at the first error, as every serde visitor does (`?`). -/

/-- outcome of visiting one cell with target `t`; for `option`/`newtypeStruct` the visitor goes on to ask
    the re-offered deserializer for `any` -/
def visitCell (std : Std) (d : Data) (pos : Pos) (t : Target) : DRes (List Val) :=
  match convert std d pos t with
  | .ok .some => (match convAny d pos with | .ok v => .ok [.some, v] | .err e => .err e | .panic s => .panic s)
  | .ok .newtype => (match convAny d pos with | .ok v => .ok [.newtype, v] | .err e => .err e | .panic s => .panic s)
  | .ok v => .ok [v]
  | .err e => .err e
  | .panic s => .panic s

def nthTarget (sched : List Target) (i : Nat) : Target :=
  if sched.length = 0 then .any else sched.getD (i % sched.length) .any

/-- values seen before the first failure, and the failure if any -/
def recordSeq (std : Std) (sched : List Target) : Nat → List (DRes (Data × Pos)) → List (List Val) × Option (DRes Unit)
  | _, [] => ([], none)
  | i, ev :: rest =>
    match ev with
    | .ok (d, p) =>
      (match visitCell std d p (nthTarget sched i) with
       | .ok vs => let (a, b) := recordSeq std sched (i + 1) rest; (vs :: a, b)
       | .err e => ([], some (.err e))
       | .panic s => ([], some (.panic s)))
    | .err e => ([], some (.err e))
    | .panic s => ([], some (.panic s))

def recordMap (std : Std) (sched : List Target) : Nat → List (DRes (Str × Data × Pos)) →
    List (Str × List Val) × Option (DRes Unit)
  | _, [] => ([], none)
  | i, ev :: rest =>
    match ev with
    | .ok (k, d, p) =>
      (match visitCell std d p (nthTarget sched i) with
       | .ok vs => let (a, b) := recordMap std sched (i + 1) rest; ((k, vs) :: a, b)
       | .err e => ([(k, [])], some (.err e))
       | .panic s => ([(k, [])], some (.panic s)))
    | .err e => ([], some (.err e))
    | .panic s => ([], some (.panic s))

end De
