import CalVerif.Prim.Res
import CalVerif.Model.Cfb
import CalVerif.Model.BiffStrings
/-! Model of the password-protection checks of the four readers (property C20). The decision logic is
    stated outright, mirroring the control flow of

      `/repo/src/xlsx/mod.rs` `check_for_password_protected`   → `ooxmlCheck`   (`Xlsx::new`)
      `/repo/src/xlsb/mod.rs` `check_for_password_protected`   → `ooxmlCheck`   (`Xlsb::new`; the two functions are
                                                                  identical up to the error type)
      `/repo/src/xls.rs` `parse_workbook`, globals `match`      → `xlsGlobals` (records), `xlsGlobalsStream` (bytes)
                                                                  (after the fix D24: `0x002F => Err(Password)`
                                                                  for every `wEncryptionType`)
      `/repo/src/ods.rs` `check_for_password_protected`         → `odsManifest` (`outer` / `inner` event loops)

    What a check can do is an `Outcome`:
      `password`  – returned the reader's `…Error::Password`
      `pass`      – the check let the file through (`Ok(())`; the reader goes on: zip path, sheet substreams …)
      `err e`     – returned another error
      `panic`     – unwound
      `fuel`      – the model's loop budget ran out (never happens with the budgets used here) -/

namespace Password

abbrev Bytes := List UInt8

inductive Outcome where
  | password
  | pass
  | err (e : String)
  | panic
  | fuel
  deriving Repr, DecidableEq

def Outcome.tag : Outcome → String
  | .password => "password"
  | .pass => "pass"
  | .err e => "err:" ++ e
  | .panic => "panic"
  | .fuel => "fuel"

/-! ## xlsx / xlsb: compound-file sniff -/

def encryptedPackage : List Char := "EncryptedPackage".toList

/-- `check_for_password_protected(reader)` of `xlsx/mod.rs` and `xlsb/mod.rs`:
    ```
    if let Ok(cfb) = Cfb::new(reader, offset_end) {
        if cfb.has_directory("EncryptedPackage") { return Err(Password); }
    };
    Ok(())
    ```
    Every *error* of `Cfb::new` (not a compound file, truncated, bad chain …) is swallowed and the zip path is
    taken; a compound file without an `EncryptedPackage` entry also takes the zip path (where it fails as "not a
    zip"); a panic inside `Cfb::new` propagates. -/
def ooxmlCheck (file : Bytes) : Outcome :=
  match Cfb.new file file.length with
  | .ok (c, _) => if Cfb.hasDirectory c encryptedPackage then .password else .pass
  | .err _ => .pass
  | .panic _ => .panic
  | .outOfFuel => .fuel

/-! ## xls: FILEPASS in the workbook globals -/

def FILEPASS : Nat := 0x002F
def EOF : Nat := 0x000A

/-- What the arms of the globals `match` other than FILEPASS and EOF do to the control flow for one record:
    `none` = the arm falls through to the next record (`_ => ()`, or a parser that succeeded), `some o` = the arm
    left `parse_workbook` with `o` (`?` on a record parser's error, an indexing panic in the `Lbl` arm …).
    Those arms belong to other properties (C02, C10, C12, C16); every theorem of C20 holds for *every* such
    function. -/
abbrev Arms := Biff.Rec → Option Outcome

/-- all arms fall through (well-formed records) -/
def Arms.quiet : Arms := fun _ => none

/-- the `for record in records { match r.typ { … } }` loop over the globals substream, given the records:
    `0x002F => return Err(XlsError::Password)`, `0x000A => break`, end of stream = end of loop. -/
def xlsGlobals (arms : Arms) : List Biff.Rec → Outcome
  | [] => .pass
  | r :: rest =>
    if r.typ = FILEPASS then .password
    else if r.typ = EOF then .pass
    else match arms r with
      | some o => o
      | none => xlsGlobals arms rest

/-- the same loop over the bytes of the `Workbook` stream: `RecordIter::next` (model `Biff.nextRecord`, C12)
    yields the records lazily, `record?` returns a framing error. `fuel` bounds the iterations
    (`stream.length + 1` always suffices: every record consumes at least four bytes). -/
def xlsGlobalsStream (arms : Arms) : Nat → Bytes → Outcome
  | 0, _ => .fuel
  | fuel + 1, s =>
    match Biff.nextRecord s with
    | none => .pass
    | some (.ok (r, rest)) =>
      if r.typ = FILEPASS then .password
      else if r.typ = EOF then .pass
      else match arms r with
        | some o => o
        | none => xlsGlobalsStream arms fuel rest
    | some (.err e) => .err e
    | some (.panic _) => .panic
    | some .outOfFuel => .fuel

/-! ### the whole of `Xls::new` up to the end of the globals loop -/

def workbookName : List Char := "Workbook".toList
def bookName : List Char := "Book".toList
def vbaName : List Char := "_VBA_PROJECT_CUR".toList

/-- `cfb.get_stream("Workbook", r).or_else(|_| cfb.get_stream("Book", r))`. (`or_else` retries on *every* error of the
    first lookup; the model retries from the state before the first lookup, which is exact when the first lookup
    failed with "not found" — the only case the generator produces — and an approximation when a `Workbook` entry
    exists but its chain is broken.) -/
def workbookStream (c : Cfb.CfbSt) (rd : Bytes) : Res Bytes :=
  match Cfb.getStream c workbookName rd with
  | .ok (x, _, _) => .ok x
  | .err _ =>
    match Cfb.getStream c bookName rd with
    | .ok (x, _, _) => .ok x
    | .err e => .err e
    | .panic e => .panic e
    | .outOfFuel => .outOfFuel
  | .panic e => .panic e
  | .outOfFuel => .outOfFuel

/-- `Xls::new_with_options`: `Cfb::new(..)?`, the VBA project if the container has one (C18's subject: reported as
    `err "unmodelled:vba"`), the workbook stream, then the globals loop. Everything after the loop (formats, defined
    names, sheet substreams) can no longer produce `Password` and is `pass` here. -/
def xlsOpen (arms : Arms) (file : Bytes) : Outcome :=
  match Cfb.new file file.length with
  | .ok (c, rd) =>
    if Cfb.hasDirectory c vbaName then .err "unmodelled:vba"
    else
      match workbookStream c rd with
      | .ok s => xlsGlobalsStream arms (s.length + 1) s
      | .err e => .err ("cfb:" ++ e)
      | .panic _ => .panic
      | .outOfFuel => .fuel
  | .err e => .err ("cfb:" ++ e)
  | .panic _ => .panic
  | .outOfFuel => .fuel

/-- `Xls::new_with_options(reader, XlsOptions { force_codepage, header_row })`. `header_row` is only stored (it is read
    by `worksheet_range`). `force_codepage = Some(cp)` replaces the default 1200 in
    `XlsEncoding::from_codepage(codepage)?`, which `parse_workbook` evaluates after the workbook stream is loaded and
    BEFORE the record loop: an id the `codepage` crate does not know (`cpOk = false`) fails there, for every
    workbook, encrypted or not; with a known id (`cpOk = true`; always the case without the option) the forced
    code page only changes how the other arms decode text, which is the `arms` parameter. -/
def xlsOpenWith (cpOk : Bool) (arms : Arms) (file : Bytes) : Outcome :=
  match Cfb.new file file.length with
  | .ok (c, rd) =>
    if Cfb.hasDirectory c vbaName then .err "unmodelled:vba"
    else
      match workbookStream c rd with
      | .ok s => if cpOk then xlsGlobalsStream arms (s.length + 1) s else .err "cfb:codepage"
      | .err e => .err ("cfb:" ++ e)
      | .panic _ => .panic
      | .outOfFuel => .fuel
  | .err e => .err ("cfb:" ++ e)
  | .panic _ => .panic
  | .outOfFuel => .fuel

/-! ## ods: `manifest:encryption-data` in `META-INF/manifest.xml` -/

/-- the quick-xml events the loops distinguish (`expand_empty_elements = true`: there is no `Empty` event);
    the end of the list is `Event::Eof` (returned again on every further read) -/
inductive Ev where
  /-- `Event::Start` with this raw qualified name -/
  | start (qname : String)
  /-- `End`, `Text`, `CData`, `Comment`, `Decl`, `PI`, `DocType` -/
  | other
  /-- `Err(e)`: the tokenizer rejected the input here -/
  | error
  deriving Repr, DecidableEq

def fileEntry : String := "manifest:file-entry"
def encryptionData : String := "manifest:encryption-data"

/-- the inner `loop` (entered after a `manifest:file-entry` start tag; it runs to `Eof`, not to the end tag) -/
def inner : List Ev → Outcome
  | [] => .pass
  | .start n :: rest => if n = encryptionData then .password else inner rest
  | .error :: _ => .err "xml"
  | .other :: rest => inner rest

/-- the outer `loop` of `check_for_password_protected` -/
def outer : List Ev → Outcome
  | [] => .pass
  | .start n :: rest => if n = fileEntry then inner rest else outer rest
  | .error :: _ => .err "xml"
  | .other :: rest => outer rest

def odsManifest (events : List Ev) : Outcome := outer events

end Password
