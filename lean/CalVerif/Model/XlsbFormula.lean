import CalVerif.Model.Xlsb
import CalVerif.Model.Ptg
/-! Model of the xlsb formula cells (C14): `XlsbCellsReader::next_formula`, `formula_rgce`
    (`/repo/src/xlsb/cells_reader.rs`) and `Xlsb::worksheet_formula` (`/repo/src/xlsb/mod.rs`).

    Record framing, `XlsbCellsReader::new` (`newReader`) and `Dimensions::len` are C03's (`Model/Xlsb.lean`);
    the token decoder is `Ptg.parseFormulaXlsb`.  What is new here: which records are formula cells
    (BrtFmlaString 8, BrtFmlaNum 9, BrtFmlaBool 10, BrtFmlaError 11), where the `CellParsedFormula` starts in each
    of them (after the variable-length cached value and the 2-byte `grbitFlags`), the `cce`-long `rgce` slice, the
    row cursor (BrtRowHdr), the end conditions, and that `worksheet_formula` keeps the cells with a non-empty text.
    Errors are the `Debug` texts of the code's errors (`short_record`), or the decoder's. -/

namespace XlsbFormula
open Xlsb

/-- `short_record(typ, len)` = `XlsbError::Unrecognized { typ, val: len.to_string() }` -/
def shortRecord (typ : String) (len : Nat) : String :=
  "Unrecognized { typ: \"" ++ typ ++ "\", val: \"" ++ toString len ++ "\" }"

/-- `formula_rgce(buf, off)`: the `cce` bytes after the 4-byte `cce` that starts at offset `off`
    (`off = None` when the offset computation overflowed `usize`; it cannot on a 64-bit target) -/
def formulaRgce (buf : Bytes) (off : Option Nat) : Res Bytes :=
  match off with
  | none => .err (shortRecord "BrtFmla:len" buf.length)
  | some o =>
    -- `buf.get(o..)`
    if o > buf.length then .err (shortRecord "BrtFmla:len" buf.length)
    else
      let formula := buf.drop o
      if formula.length < 4 then .err (shortRecord "BrtFmla:len" buf.length)
      else
        let cce := u32le formula
        -- `formula.get(4..cce + 4)`
        if cce + 4 > formula.length then .err (shortRecord "BrtFmla:len" buf.length)
        else .ok ((formula.drop 4).take cce)

/-- what one record means to the formula loop -/
inductive FStep where
  /-- a formula cell: the `rgce` to decode (the column is `read_u32(&buf)`) -/
  | cell (rgce : Bytes)
  | row (r : Nat)
  | stop
  | skip
  | fail (e : String)
  deriving Repr

/-- the `match self.typ { … }` of `next_formula` up to the call of `parse_formula` -/
def finterpret (typ : Nat) (buf : Bytes) : FStep :=
  if typ = 0x0008 then
    -- BrtFmlaString: Cell (8), cch (4), 2·cch bytes of text, grbitFlags (2)
    if buf.length < 12 then .fail (shortRecord "BrtFmla:len" buf.length)
    else match formulaRgce buf (some (2 * u32le (buf.drop 8) + 14)) with
      | .ok rg => .cell rg
      | .err e => .fail e
      | _ => .fail "unreachable"
  else if typ = 0x0009 then
    -- BrtFmlaNum: Cell (8), f64 (8), grbitFlags (2)
    match formulaRgce buf (some 18) with
    | .ok rg => .cell rg
    | .err e => .fail e
    | _ => .fail "unreachable"
  else if typ = 0x000A ∨ typ = 0x000B then
    -- BrtFmlaBool | BrtFmlaError: Cell (8), one byte, grbitFlags (2)
    match formulaRgce buf (some 11) with
    | .ok rg => .cell rg
    | .err e => .fail e
    | _ => .fail "unreachable"
  else if typ = 0x0000 then
    if buf.length < 4 then .fail (shortRecord "BrtRowHdr:len" buf.length) else .row (u32le buf)
  else if typ = 0x0092 then .stop
  else .skip

/-- the loop of `worksheet_formula` over `next_formula`: `(row, col, text)` of every formula cell in record order;
    an error of the framing, of a record layout or of the token decoder aborts the whole call (`?`).
    A row number above 0x100000 ends the sheet like BrtEndSheetData. -/
def readFormulas (ctx : Ptg.Ctx) : Nat → Bytes → Nat → Res (List (Nat × Nat × List Char))
  | 0, _, _ => .outOfFuel
  | f+1, bs, row =>
    match readRecord bs with
    | .ok (typ, buf, rest) =>
      match finterpret typ buf with
      | .cell rgce =>
        match Ptg.parseFormulaXlsb ctx rgce with
        | .ok text =>
          match readFormulas ctx f rest row with
          | .ok l => .ok ((row, u32le buf, text) :: l)
          | .err e => .err e
          | .panic s => .panic s
          | .outOfFuel => .outOfFuel
        | .err e => .err e
        | .panic s => .panic s
        | .outOfFuel => .outOfFuel
      | .row r => if r > 0x00100000 then .ok [] else readFormulas ctx f rest r
      | .stop => .ok []
      | .skip => readFormulas ctx f rest row
      | .fail e => .err e
    | .err e => .err e
    | .panic s => .panic s
    | .outOfFuel => .outOfFuel

/-- the cells `worksheet_formula` hands to `Range::from_sparse`: reader construction, `dimensions().len()`, the
    formula loop, cells with an empty text dropped -/
def sheetFormulas (ctx : Ptg.Ctx) (bs : Bytes) : Res (List (Nat × Nat × List Char)) :=
  match newReader bs with
  | .ok (dims, rest) =>
    match dimLen dims with
    | .ok _ =>
      match readFormulas ctx (bs.length + 1) rest 0 with
      | .ok cells => .ok (cells.filter (fun c => c.2.2 ≠ []))
      | .err e => .err e
      | .panic s => .panic s
      | .outOfFuel => .outOfFuel
    | .err e => .err e
    | .panic s => .panic s
    | .outOfFuel => .outOfFuel
  | .err e => .err e
  | .panic s => .panic s
  | .outOfFuel => .outOfFuel

/-- `Xlsb::worksheet_formula` on the bytes of the worksheet part -/
def worksheetFormula (ctx : Ptg.Ctx) (bs : Bytes) : Res (Range.Rng (List Char)) :=
  match sheetFormulas ctx bs with
  | .ok cells => Range.fromSparse cells
  | .err e => .err e
  | .panic s => .panic s
  | .outOfFuel => .outOfFuel

end XlsbFormula
