/-! Model of the attribute loop of `get_datatype` (`/repo/src/ods.rs`): how a `table:table-cell` element's
    attributes determine the cell's `Data` and formula. Text assembly from the `text:p` children (used when
    the type is string and no value attribute is present) is not part of this model (`useText`).

    Trusted, not modelled: `f64::from_str` (the parsed bits are an input), XML attribute unescaping. -/

namespace OdsCell

/-- the `Data` variants `get_datatype` can produce (floats by bit pattern) -/
inductive Val where
  | empty
  | float (bits : Nat)
  | str (s : String)
  | bool (b : Bool)
  | dateIso (s : String)
  | durIso (s : String)
  deriving Repr, DecidableEq

/-- one attribute of the cell element, in document order -/
inductive Attr where
  /-- `office:value="…"`; `parsed` = the `f64` bits `str::parse` returns, `none` = parse error -/
  | value (parsed : Option Nat)
  /-- `office:string-value` (unescaped) -/
  | stringValue (s : String)
  /-- `office:date-value` (unescaped) -/
  | dateValue (s : String)
  /-- `office:time-value` (unescaped) -/
  | timeValue (s : String)
  /-- `office:boolean-value` (raw bytes) -/
  | boolValue (raw : String)
  /-- `office:value-type` (raw bytes) -/
  | valueType (raw : String)
  /-- `table:formula` (unescaped) -/
  | formula (s : String)
  /-- any other attribute (style, repeat counts, spans, currency …) -/
  | other
  deriving Repr, DecidableEq

/-- loop state: `val`, `is_value_set`, `is_string`, `formula` -/
structure St where
  val : Val := .empty
  isValueSet : Bool := false
  isString : Bool := false
  formula : String := ""
  deriving Repr, DecidableEq

/-- one iteration of `for a in atts`; `none` = `Err(ParseFloat)` -/
def step (s : St) : Attr → Option St
  | .value parsed =>
    if s.isValueSet then some s
    else match parsed with
      | some bits => some { s with val := .float bits, isValueSet := true }
      | none => none
  | .stringValue t => if s.isValueSet then some s else some { s with val := .str t, isValueSet := true }
  | .dateValue t => if s.isValueSet then some s else some { s with val := .dateIso t, isValueSet := true }
  | .timeValue t => if s.isValueSet then some s else some { s with val := .durIso t, isValueSet := true }
  | .boolValue raw =>
    if s.isValueSet then some s
    else some { s with val := .bool (raw = "TRUE" || raw = "true"), isValueSet := true }
  | .valueType raw => if s.isValueSet then some s else some { s with isString := raw = "string" }
  | .formula f => some { s with formula := f }
  | .other => some s

def loop : St → List Attr → Option St
  | s, [] => some s
  | s, a :: rest => match step s a with
    | some s' => loop s' rest
    | none => none

/-- result of `get_datatype`: the value, the formula, and whether the value is taken from the element's
    text content instead (`!is_value_set && is_string`) -/
structure Out where
  val : Val
  formula : String
  useText : Bool
  deriving Repr, DecidableEq

def getDatatype (attrs : List Attr) : Option Out :=
  match loop {} attrs with
  | none => none
  | some s => some ⟨s.val, s.formula, !s.isValueSet && s.isString⟩

/-- does the attribute carry a value? -/
def Attr.isValue : Attr → Bool
  | .value _ | .stringValue _ | .dateValue _ | .timeValue _ | .boolValue _ => true
  | _ => false

/-- the value a value-carrying attribute stands for -/
def Attr.valOf : Attr → Val
  | .value (some bits) => .float bits
  | .stringValue t => .str t
  | .dateValue t => .dateIso t
  | .timeValue t => .durIso t
  | .boolValue raw => .bool (raw = "TRUE" || raw = "true")
  | _ => .empty

def Attr.formulaOf : Attr → Option String
  | .formula f => some f
  | _ => none

end OdsCell
