import CalVerif.Model.Rels
import CalVerif.Model.Metadata
import CalVerif.Model.Xlsb
/-! The container glue of the xlsb reader (`src/xlsb/mod.rs`): what `Xlsb::new` and `worksheet_range` do between
    the zip archive and the part-level models.

    * `RecordIter::from_zip(zip, path)`: the part named `path` (`zip.by_name`, exact name) — `partOf`; the zip
      container itself is trusted: an archive is the list of its (name, bytes) entries;
    * `read_relationships`: `Rels.readRels Rels.xlsbCfg` on the events of `xl/_rels/workbook.bin.rels` (an absent
      part is the empty map) — `relsOf`;
    * the join in `read_workbook`: BrtBundleSh's relationship id (UTF-16, decoded, compared as UTF-8 bytes with
      the `Id` attribute) → `Target` → `xl/<Target>` → sheet kind from the folder: C16's `Meta.readWorkbookXlsb`,
      fed with the relationship table `relsTable` (ids as texts: `relsTable_lookup` shows that looking a decoded
      id up in it is the byte comparison the code makes);
    * `read_shared_strings` on `xl/sharedStrings.bin` when the part exists;
    * `worksheet_cells_reader(name)`: first sheet of that name → its path → `from_zip` — `sheetPart`;
    * `worksheet_range(name)` — `worksheetRange`.
    `read_styles` is C10's (`formats` is an input), `parse_formula` C14's (`pf`, as in C16's model). -/

namespace XlsbBook
open Meta

abbrev Bytes := Xlsb.Bytes
/-- a zip archive as the reader sees it: entry name ↦ uncompressed bytes -/
abbrev Parts := List (List Char × Bytes)

/-- `zip.by_name(path)`; `None` = `ZipError::FileNotFound` -/
def partOf (parts : Parts) (path : List Char) : Option Bytes := parts.lookup path

/-- one relationship for the join: the id as a text (scalar values), the target as a string; `none` when the
    id bytes are not UTF-8 (such an entry can never equal the UTF-8 bytes of a decoded BrtBundleSh id) -/
def relEntry (r : Rels.B × Rels.B) : Option (Text × String) :=
  match Utf8.utf8Decode r.1, Utf8.utf8Decode r.2 with
  | some k, some t => some (k.map Char.toNat, String.ofList t)
  | _, _ => none

def relsTable (rels : List (Rels.B × Rels.B)) : List (Text × String) := rels.filterMap relEntry

/-- `read_relationships`: the part may be absent -/
def relsOf (relsEvents : Option (List Rels.Ev)) : Res (List (Rels.B × Rels.B)) :=
  match relsEvents with
  | none => .ok []
  | some evs => Rels.readRels Rels.xlsbCfg evs

/-- what `Xlsb::new` leaves in the reader -/
structure Book where
  wb : Workbook Text
  /-- `self.sheets`: part path per sheet, parallel to `wb.sheets` -/
  paths : List (List Char)
  strings : List (List Nat)
  deriving Repr

def wbPath : List Char := "xl/workbook.bin".toList
def sstPath : List Char := "xl/sharedStrings.bin".toList

/-- `read_shared_strings`: an absent part is an empty table -/
def stringsOf (parts : Parts) : Res (List (List Nat)) :=
  match partOf parts sstPath with
  | none => .ok []
  | some b => Xlsb.readSharedStrings b

/-- `Xlsb::new` without the style table: shared strings, relationships, workbook -/
def openBook (pf : Bytes → List Text → List (Text × Text) → Res Text) (parts : Parts)
    (relsEvents : Option (List Rels.Ev)) : Res Book :=
  match stringsOf parts with
  | .ok strs =>
    match relsOf relsEvents with
    | .ok rels =>
      match partOf parts wbPath with
      | none => .err "FileNotFound"
      | some b =>
        match readWorkbookXlsb pf (relsTable rels) b with
        | .ok (wb, paths) => .ok ⟨wb, paths, strs⟩
        | .err e => .err e
        | .panic s => .panic s
        | .outOfFuel => .outOfFuel
    | .err e => .err e
    | .panic s => .panic s
    | .outOfFuel => .outOfFuel
  | .err e => .err e
  | .panic s => .panic s
  | .outOfFuel => .outOfFuel

/-- `worksheet_cells_reader(name)` up to the record iterator: `self.sheets.iter().find(|(n, _)| n == name)`, then
    `RecordIter::from_zip(&mut self.zip, &path)` -/
def sheetPart (bk : Book) (parts : Parts) (name : Text) : Res Bytes :=
  match (bk.wb.sheets.zip bk.paths).find? (fun p => p.1.name == name) with
  | none => .err "WorksheetNotFound"
  | some (_, path) =>
    match partOf parts path with
    | none => .err "FileNotFound"
    | some b => .ok b

/-- `worksheet_range(name)`: the cells of the part the name resolves to, read under the book's string table and
    date system (`formats`: the style table, C10) -/
def worksheetRange (formats : List Nat) (bk : Book) (parts : Parts) (name : Text) : Res (Range.Rng Xlsb.Val) :=
  match sheetPart bk parts name with
  | .ok b => Xlsb.decodeSheet ⟨formats, bk.strings, bk.wb.is1904⟩ b
  | .err e => .err e
  | .panic s => .panic s
  | .outOfFuel => .outOfFuel

end XlsbBook
