import CalVerif.Lemmas.Ptg
/-! # C14 — formulas are reported with the A1 text the token stream encodes

    Theorems about the model of the two token decoders (`Model/Ptg.lean`) against the grammar, renderer
    and encoders of `Spec/Formula.lean`.  -/

namespace C14
open Ptg Formula

/-! ## the generated function table (re-proved against /repo/src/utils.rs on every run) -/

/-- `FTAB`, `FTAB_ARGC` and `FTAB_LEN` agree on the number of functions (485) -/
theorem ftab_shape : Gen.ftab.size = Gen.ftabArgc.size ∧ Gen.ftab.size = Gen.ftabLen ∧ Gen.ftabLen = 485 := by
  decide +kernel

/-! ## column letters -/

/-- `push_column` writes exactly the letters whose bijective base-26 value is the column: reading them
    back gives the column, for EVERY column (not only the 16384 a sheet has) -/
theorem col_letters (n : Nat) : parseCol (pushColumn n) = n := by
  unfold parseCol pushColumn
  rw [foldl_letters]; omega

/-- different columns get different letters -/
theorem pushColumn_injective (m n : Nat) (h : pushColumn m = pushColumn n) : m = n := by
  have := congrArg parseCol h
  simpa [col_letters] using this

/-- the loop of `push_column` computes the textbook spreadsheet column name -/
theorem pushColumn_eq_colName (n : Nat) : pushColumn n = colName n := Ptg.pushColumn_eq_colName n

/-- closed form, one letter: A..Z -/
theorem pushColumn_one (n : Nat) (h : n < 26) : pushColumn n = [Char.ofNat (65 + n)] := by
  rw [pushColumn_eq_colName, colName]; simp [h]

/-- closed form, two letters: AA..ZZ are the columns 26..701 -/
theorem pushColumn_two (n : Nat) (h1 : 26 ≤ n) (h2 : n < 702) :
    pushColumn n = [Char.ofNat (65 + (n / 26 - 1)), Char.ofNat (65 + n % 26)] := by
  rw [pushColumn_eq_colName, colName]
  have : ¬ n < 26 := by omega
  simp only [this, if_false]
  rw [colName]
  have : n / 26 - 1 < 26 := by omega
  simp [this]

/-- closed form, three letters: AAA..ZZZ are the columns 702..18277; in particular every column a
    sheet can have (`n < 16384`, last = XFD) has one of the three forms -/
theorem pushColumn_three (n : Nat) (h1 : 702 ≤ n) (h2 : n < 18278) :
    pushColumn n = [Char.ofNat (65 + ((n / 26 - 1) / 26 - 1)), Char.ofNat (65 + (n / 26 - 1) % 26),
      Char.ofNat (65 + n % 26)] := by
  rw [pushColumn_eq_colName, colName]
  have : ¬ n < 26 := by omega
  simp only [this, if_false]
  rw [colName]
  have : ¬ n / 26 - 1 < 26 := by omega
  simp only [this, if_false]
  rw [colName]
  have : (n / 26 - 1) / 26 - 1 < 26 := by omega
  simp [this]

example : pushColumn 0 = "A".toList ∧ pushColumn 25 = "Z".toList ∧ pushColumn 26 = "AA".toList ∧
    pushColumn 255 = "IV".toList ∧ pushColumn 701 = "ZZ".toList ∧ pushColumn 702 = "AAA".toList ∧
    pushColumn 16383 = "XFD".toList := by
  refine ⟨?_, ?_, ?_, ?_, ?_, ?_, ?_⟩ <;> simp [pushColumn_one, pushColumn_two, pushColumn_three] <;> decide

end C14
