import CalVerif.Lemmas.PtgXlsb
import CalVerif.Lemmas.PtgPanics
import CalVerif.Lemmas.PtgSpecEnv
import CalVerif.Lemmas.XlsxFormula
import CalVerif.Lemmas.XlsbFormula
import CalVerif.Props.C05
/-! # C14 — formulas are reported with the A1 text the token stream encodes

    Theorems about the model of the two token decoders (`Model/Ptg.lean`: `pushColumn`, `cellRef`,
    `decodeXls`/`decodeXlsb`, `applyAct`, `runXls`/`runXlsb`, `parseFormulaXls`/`parseFormulaXlsb`)
    against the grammar, the A1 renderer and the byte encoders of `Spec/Formula.lean`
    (`Expr`, `renderA1`, `toRpn`, `encodeXls`/`encodeXlsb`).  Helper lemmas: `Lemmas/Ptg*.lean`.

    Shape of the main result (compiler correctness, in three layers):
      1. `stack_machine_correct` — the stack-of-offsets machine run on the reverse-Polish edits of an
         expression appends exactly `renderA1 e` and pushes exactly one offset, whatever precedes and follows;
      2. `decode_encode_token_xls/xlsb` — decoding the bytes of a token yields that token's edit and consumes
         exactly its bytes (all columns < 2^14, `$` exactly on the absolute components, rows 2^16 / 2^32,
         the three operand classes);
      3. `parse_formula_xls_correct` / `parse_formula_xlsb_correct` — hence the whole decoder returns
         `Ok(renderA1 e)` on the encoding of every expression of the grammar.
    Not covered by a theorem: the position part of the property (formula records at their cells; file level),
    PtgAttrSpace / PtgExp / PtgArray / PtgNameX / PtgMemFunc / PtgExtend (outside the grammar the property
    lists; modelled and exercised by the correspondence run), Rust's `Display` for f64 (a parameter). -/

namespace C14
open Ptg Formula

/-! ## the generated function table (re-proved against /repo/src/utils.rs on every run) -/

/-- `FTAB`, `FTAB_ARGC` and `FTAB_LEN` agree on the number of functions (485) -/
theorem ftab_shape : Gen.ftab.size = Gen.ftabArgc.size ∧ Gen.ftab.size = Gen.ftabLen ∧ Gen.ftabLen = 485 := by
  decide +kernel

/-! ## column letters -/

/-- `push_column` writes exactly the letters whose bijective base-26 value is the column: reading them
    back gives the column, for EVERY column (not only the 16384 a sheet has) -/
theorem col_letters (n : Nat) : parseCol (pushColumn n) = n := by
  unfold parseCol pushColumn
  rw [foldl_letters]; omega

/-- different columns get different letters -/
theorem pushColumn_injective (m n : Nat) (h : pushColumn m = pushColumn n) : m = n := by
  have := congrArg parseCol h
  simpa [col_letters] using this

/-- the loop of `push_column` computes the textbook spreadsheet column name -/
theorem pushColumn_eq_colName (n : Nat) : pushColumn n = colName n := Ptg.pushColumn_eq_colName n

/-- closed form, one letter: A..Z -/
theorem pushColumn_one (n : Nat) (h : n < 26) : pushColumn n = [Char.ofNat (65 + n)] := by
  rw [pushColumn_eq_colName, colName]; simp [h]

/-- closed form, two letters: AA..ZZ are the columns 26..701 -/
theorem pushColumn_two (n : Nat) (h1 : 26 ≤ n) (h2 : n < 702) :
    pushColumn n = [Char.ofNat (65 + (n / 26 - 1)), Char.ofNat (65 + n % 26)] := by
  rw [pushColumn_eq_colName, colName]
  have : ¬ n < 26 := by omega
  simp only [this, if_false]
  rw [colName]
  have : n / 26 - 1 < 26 := by omega
  simp [this]

/-- closed form, three letters: AAA..ZZZ are the columns 702..18277; in particular every column a
    sheet can have (`n < 16384`, last = XFD) has one of the three forms -/
theorem pushColumn_three (n : Nat) (h1 : 702 ≤ n) (h2 : n < 18278) :
    pushColumn n = [Char.ofNat (65 + ((n / 26 - 1) / 26 - 1)), Char.ofNat (65 + (n / 26 - 1) % 26),
      Char.ofNat (65 + n % 26)] := by
  rw [pushColumn_eq_colName, colName]
  have : ¬ n < 26 := by omega
  simp only [this, if_false]
  rw [colName]
  have : ¬ n / 26 - 1 < 26 := by omega
  simp only [this, if_false]
  rw [colName]
  have : (n / 26 - 1) / 26 - 1 < 26 := by omega
  simp [this]

example : pushColumn 0 = "A".toList ∧ pushColumn 25 = "Z".toList ∧ pushColumn 26 = "AA".toList ∧
    pushColumn 255 = "IV".toList ∧ pushColumn 701 = "ZZ".toList ∧ pushColumn 702 = "AAA".toList ∧
    pushColumn 16383 = "XFD".toList := by
  refine ⟨?_, ?_, ?_, ?_, ?_, ?_, ?_⟩ <;> simp [pushColumn_one, pushColumn_two, pushColumn_three] <;> decide

/-! ## references: `$` exactly on the absolute components -/

/-- `push_cell_ref` on the wire field of a reference (column in bits 0–13, bit 14 = column relative,
    bit 15 = row relative) prints `$` before the column iff the column is absolute, the column's letters,
    `$` before the row iff the row is absolute, and the 1-based row — for every column below 2^14 -/
theorem ref_text_flags (a : CellRef) (h : a.col < 16384) :
    cellRef a.row (colRel a) =
      (if a.colAbs then ['$'] else []) ++ colName a.col ++ (if a.rowAbs then ['$'] else []) ++ natText (a.row + 1) :=
  cellRef_colRel a.row a h rfl

example : cellRef 0 (colRel ⟨0, 1, true, false⟩) = "$B1".toList := by
  have h := ref_text_flags ⟨0, 1, true, false⟩ (by decide)
  rw [colName] at h
  rw [h]; decide

example : cellRef 4 (colRel ⟨4, 255, false, true⟩) = "IV$5".toList := by
  have h := ref_text_flags ⟨4, 255, false, true⟩ (by decide)
  rw [← pushColumn_eq_colName, pushColumn_two 255 (by decide) (by decide)] at h
  rw [h]; decide

/-! ## strings -/

/-- a string literal's UTF-16 code units decode back to its characters (surrogate pairs included) -/
theorem utf16_roundtrip (s : List Char) : decodeUtf16 (utf16Units s) = s := decodeUtf16_utf16Units s

/-! ## layer 1: the stack machine -/

/-- Compiler correctness of the stack-of-offsets algorithm: running the edits of the reverse-Polish form
    of `e` from ANY state appends exactly the A1 text of `e` to the buffer and pushes exactly one offset
    (the old buffer length); nothing below on the stack is touched and the run continues with `rest`.
    Hypothesis: arities match (`arityOk`: a PtgFunc node has as many arguments as FTAB_ARGC says, function
    indices < 485). Covers operands, unary ±, %, parentheses, SUM attribute, all binary operators and
    fixed/variable-arity functions with their arguments in order, comma separated. -/
theorem stack_machine_correct (env : Env) (chk : Bool) (e : Expr) (h : e.arityOk)
    (buf : List Char) (stk : List Nat) (rest : List Act) :
    runActs ((toRpn e).map (actOf env chk) ++ rest) ⟨buf, stk⟩ =
      runActs rest ⟨buf ++ renderA1 env e, stk ++ [buf.length]⟩ :=
  machine_correct env chk e h buf stk rest

/-- a complete token list leaves the text and a one-element stack -/
theorem stack_machine_result (env : Env) (chk : Bool) (e : Expr) (h : e.arityOk) :
    runActs ((toRpn e).map (actOf env chk)) ⟨[], []⟩ = .ok ⟨renderA1 env e, [0]⟩ := by
  have := machine_correct env chk e h [] [] []
  simpa [runActs] using this

/-- non-vacuity: `SUM($AB1+2,-(x))`-shaped tree has matching arities (SUM = index 4 is variable-arity) -/
example : (Expr.funcVar 0 4 [.bin 3 (.ref 0 ⟨0, 27, true, false⟩) (.int 2), .uminus (.paren (.name 1 0))]).arityOk := by
  simp [Expr.arityOk, argsOk]; decide +kernel

/-! ## layer 2: bytes ↔ tokens -/

/-- BIFF8: decoding the encoding of any well-formed token (followed by anything) yields the token's edit
    and leaves exactly the bytes after it. `wf true`: rows < 2^16, columns < 2^14, `ixti`/ints < 2^16,
    class ∈ {0,1,2}, strings < 256 units (8-bit form only for Latin-1 text), function index < 485. -/
theorem decode_encode_token_xls (ctx : Ctx) (stkEmpty : Bool) (t : Tok) (hwf : t.wf true) (rest : Bytes) :
    decodeTokXls ctx stkEmpty (encXls t ++ rest) = .ok (actOf (envOfXls ctx) true t, rest) :=
  decode_encode_xls ctx stkEmpty t hwf rest

/-- xlsb: same statement (rows < 2^32, strings < 2^16 units); 3-D tokens index inside the
    extern-sheet table (outside it the decoder prints `#REF`) -/
theorem decode_encode_token_xlsb (ctx : Ctx) (t : Tok) (hwf : t.wf false) (hs : t.sheetOk ctx.sheets.length)
    (rest : Bytes) :
    decodeTokXlsb ctx (encXlsb t ++ rest) = .ok (actOf (envOfXlsb ctx) false t, rest) :=
  decode_encode_xlsb ctx t hwf hs rest

/-- the sheet a BIFF8 3-D reference names is found through the XTI table: `sheets[xtis[ixti].itab_first]` -/
theorem sheet_via_xti (ctx : Ctx) (ixti : Nat) (it : Int) (name : List Char)
    (h1 : ctx.xtis[ixti]? = some it) (h2 : 0 ≤ it) (h3 : ctx.sheets[it.toNat]? = some name) :
    (envOfXls ctx).sheet ixti = name := by
  have : ¬ it < 0 := by omega
  simp [envOfXls, sheetXls, h1, this, h3]

/-- defined names are looked up by the 1-based index the token stores -/
theorem name_lookup (ctx : Ctx) (i : Nat) (name : List Char) (h : ctx.names[i]? = some name) :
    (envOfXls ctx).name i = name ∧ (envOfXlsb ctx).name i = name := by
  simp [envOfXls, envOfXlsb, h]

/-! ## layer 3: the decoders on encoded expressions -/

/-- **xls**: for every expression of the grammar whose tokens fit the BIFF8 fields and whose encoding fits the
    16-bit `cce`, `parse_formula` applied to `cce ++ encoding` returns exactly the A1 text
    (sheet names via the XTI table: `sheet_via_xti`; names: `name_lookup`). -/
theorem parse_formula_xls_correct (ctx : Ctx) (e : Expr) (harity : e.arityOk)
    (hwf : ∀ t ∈ toRpn e, t.wf true) (hlen : (encodeXls (toRpn e)).length < 65536) :
    parseFormulaXls ctx (frameXls (encodeXls (toRpn e))) = .ok (renderA1 (envOfXls ctx) e) :=
  parseFormulaXls_frame ctx e harity hwf hlen

/-- **xlsb**: same for the xlsb token encoding (no length prefix; 32-bit rows) -/
theorem parse_formula_xlsb_correct (ctx : Ctx) (e : Expr) (harity : e.arityOk)
    (hwf : ∀ t ∈ toRpn e, t.wf false ∧ t.sheetOk ctx.sheets.length) :
    parseFormulaXlsb ctx (encodeXlsb (toRpn e)) = .ok (renderA1 (envOfXlsb ctx) e) :=
  parseFormulaXlsb_encode ctx e harity hwf

/-- the statements above cover streams with the inert PtgAttr tokens a real writer emits around functions
    (`Expr.inert`: PtgAttrIf / PtgAttrGoto / PtgAttrSemi …, and PtgAttrChoose with any `cOffset`): here
    `CHOOSE(1,2,3)` exactly as Excel tokenises it — selector, PtgAttrChoose(cOffset = 2, 3 offsets), each
    alternative followed by PtgAttrGoto, PtgFuncVar(3, CHOOSE) — satisfies their hypotheses in both encodings
    (the xlsb decoder mis-skipped PtgAttrChoose unless `cOffset = 3` before fix 792e6c9) -/
example :
    let e : Expr := .funcVar 0 100 [.inert (.attrChoose [6, 10, 14]) (.int 1), .inert (.attrSkip 8 3) (.int 2),
      .inert (.attrSkip 8 0) (.int 3)]
    e.arityOk ∧ (∀ t ∈ toRpn e, t.wf true) ∧ (∀ t ∈ toRpn e, t.wf false ∧ t.sheetOk 0) ∧
    renderA1 ⟨fun _ => [], fun _ => [], fun _ => []⟩ e = "CHOOSE(1,2,3)".toList := by
  intro e
  have hl : Gen.ftabLen = 485 := by decide +kernel
  refine ⟨by simp [e, Expr.arityOk, argsOk, Tok.isInert, hl], ?_, ?_, by decide +kernel⟩
  · intro t ht
    simp [e, toRpn, toRpnArgs] at ht
    rcases ht with rfl | rfl | rfl | rfl | rfl | rfl | rfl <;> simp [Tok.wf, hl]
  · intro t ht
    simp [e, toRpn, toRpnArgs] at ht
    rcases ht with rfl | rfl | rfl | rfl | rfl | rfl | rfl <;> simp [Tok.wf, Tok.sheetOk, hl]

/-- the loop budget used by `parseFormulaXls` (one unit per token, `rgce.length` units) is never exhausted
    on encoded expressions: the run of a token list needs exactly `toks.length` units -/
theorem fuel_suffices_xls (ctx : Ctx) (toks : List Tok) (hwf : ∀ t ∈ toks, t.wf true) (st : St) :
    runXls ctx (encodeXls toks).length (encodeXls toks) st =
      runActs (toks.map (actOf (envOfXls ctx) true)) st := by
  have hge := encodeXls_length_ge toks
  have h := runXls_encode ctx toks hwf ((encodeXls toks).length - toks.length) [] st
  rw [List.append_nil, show toks.length + ((encodeXls toks).length - toks.length) = (encodeXls toks).length by omega] at h
  rw [h]
  cases runActs (toks.map (actOf (envOfXls ctx) true)) st <;> simp [runXls_nil]

/-- non-vacuity of the hypotheses of layer 3: a concrete mixed expression satisfies them in both encodings -/
example :
    let e : Expr := .funcVar 0 4 [.bin 3 (.ref 0 ⟨0, 27, true, false⟩) (.int 2),
      .uminus (.paren (.ref3d 1 0 ⟨4, 255, false, true⟩)), .str true "Жы".toList]
    (∀ t ∈ toRpn e, t.wf true) ∧ (∀ t ∈ toRpn e, t.wf false ∧ t.sheetOk 1) := by
  intro e
  have hl : Gen.ftabLen = 485 := by decide +kernel
  constructor
  · intro t ht
    simp [e, toRpn, toRpnArgs] at ht
    rcases ht with rfl | rfl | rfl | rfl | rfl | rfl | rfl | rfl | rfl <;>
      simp [Tok.wf, CellRef.wf, hl, utf16Units] <;> decide
  · intro t ht
    simp [e, toRpn, toRpnArgs] at ht
    rcases ht with rfl | rfl | rfl | rfl | rfl | rfl | rfl | rfl | rfl <;>
      simp [Tok.wf, Tok.sheetOk, CellRef.wf, hl, utf16Units] <;> decide

/-! ## the final statements against the spec-level context -/

/-- **xls, spec form.** Workbook context = sheet names, defined names, XTI table (`itab_first` per entry).
    For every expression of the grammar whose fields fit BIFF8, whose 3-D references and names resolve
    (`refsOk`) and whose encoding fits `cce`, the decoder returns the A1 text in which a 3-D reference names the
    sheet `sheets[xtis[ixti]]` and a name token names `names[idx]` (`specEnv`, written from the property). -/
theorem parse_formula_xls_spec (sheets names : List (List Char)) (xtis : List Int) (fmt : Nat → List Char)
    (e : Expr) (harity : e.arityOk) (hwf : ∀ t ∈ toRpn e, t.wf true)
    (hrefs : ∀ t ∈ toRpn e, t.refsOk sheets names xtis) (hlen : (encodeXls (toRpn e)).length < 65536) :
    parseFormulaXls ⟨sheets, names, xtis, fmt⟩ (frameXls (encodeXls (toRpn e))) =
      .ok (renderA1 (specEnv sheets names xtis fmt) e) := by
  rw [parse_formula_xls_correct _ e harity hwf hlen]
  congr 1
  exact renderA1_congr _ _ e (fun t ht => tok_agree_xls sheets names xtis fmt t (hrefs t ht))

/-- **xlsb, spec form.** The decoder receives the extern-sheet table the workbook reader resolved
    (`resolveExtern`: one sheet name per XTI entry); same conclusion. -/
theorem parse_formula_xlsb_spec (sheets names : List (List Char)) (xtis : List Int) (fmt : Nat → List Char)
    (e : Expr) (harity : e.arityOk) (hwf : ∀ t ∈ toRpn e, t.wf false)
    (hrefs : ∀ t ∈ toRpn e, t.refsOk sheets names xtis) :
    parseFormulaXlsb ⟨resolveExtern sheets xtis, names, [], fmt⟩ (encodeXlsb (toRpn e)) =
      .ok (renderA1 (specEnv sheets names xtis fmt) e) := by
  rw [parse_formula_xlsb_correct _ e harity
    (fun t ht => ⟨hwf t ht, (tok_agree_xlsb sheets names xtis fmt t (hrefs t ht)).2⟩)]
  congr 1
  exact renderA1_congr _ _ e (fun t ht => (tok_agree_xlsb sheets names xtis fmt t (hrefs t ht)).1)

/-- non-vacuity: `Data!IV$5` with XTI table [1, 0] and sheets [S1, Data] resolves -/
example : (Tok.ref3d 1 0 ⟨4, 255, false, true⟩).refsOk ["S1".toList, "Data".toList] [] [1, 0] :=
  ⟨1, rfl, by decide, by decide⟩

/-! ## xlsx: the formula is the stored text, at the cell's position -/

section Xlsx
open XlsxCells XlsxSheet XlsxFormula

/-- **formula_positions_xlsx.** For every well-formed logical sheet (C01's `XlsxSheet.Sheet`: rows and columns
    increasing, inside the grid) and EVERY legal layout (C01 `Layout.Legal`) — `r` written or omitted on any row and any
    cell wherever the format allows it, either letter case, prefixes per element, attribute order and inert extra
    attributes, text in pieces, comments / white space between elements, foreign siblings, any or no `<dimension>` — `next_formula` returns
    exactly one entry per stored cell, in row-major order, at that cell's position, holding the text of its `<f>`
    child verbatim (`""` when it has none). -/
theorem formula_positions_xlsx (s : Sheet) (lay : Layout) (hl : lay.Legal) (hwf : s.WF) :
    readFormulas (renderSheet s lay) = .ok (formulasOf s) ∧
    (formulasOf s).map (fun c => (c.1, c.2.1)) = s.flatMap (fun row => row.2.map fun cell => (row.1, cell.1)) := by
  refine ⟨readFormulas_render s lay hl hwf, ?_⟩
  simp only [formulasOf, rowFormulas, List.map_flatMap, List.map_map]
  rfl

/-- formulas are reported at the positions the value reader (`next_cell`, C01 `cursor_positions`) reports the same
    cells at: the two cursors agree on every encoded sheet -/
theorem formula_cursor_agrees_with_values (cfg : Cfg) (s : Sheet) (lay : Layout) (hl : lay.Legal) (hwf : s.WF)
    (hok : s.ContentOk cfg) :
    ∃ dims cells fcells, readCells cfg (renderSheet s lay) = .ok (dims, cells) ∧
      readFormulas (renderSheet s lay) = .ok fcells ∧
      cells.map (fun c => (c.1, c.2.1)) = fcells.map (fun c => (c.1, c.2.1)) := by
  refine ⟨_, _, _, readCells_render cfg s lay hl hwf hok, readFormulas_render s lay hl hwf, ?_⟩
  simp only [cellsOf, formulasOf, rowFormulas, List.map_flatMap, List.map_map]
  rfl

/-- what `worksheet_formula` builds its range from does not depend on the layout: the stored cells that have a
    non-empty formula text (`Range::from_sparse` of them is the bounding rectangle with `""` elsewhere: C05) -/
theorem worksheet_formula_layout_independent (s : Sheet) (lay lay' : Layout) (hl : lay.Legal) (hl' : lay'.Legal)
    (hwf : s.WF) :
    worksheetFormula (renderSheet s lay) = worksheetFormula (renderSheet s lay') ∧
    worksheetFormula (renderSheet s lay) = Range.fromSparse ((formulasOf s).filter fun c => c.2.2 ≠ []) := by
  simp only [worksheetFormula, formulaCells, readFormulas_render s lay hl hwf, readFormulas_render s lay' hl' hwf,
    and_self]

/-- the plainest layout (nothing optional written, one text piece, no extra markup) is legal -/
def plainLayout : Layout :=
  { pfx := false, rowPfx := fun _ => false, cellPfx := fun _ _ => false, dim := none,
    rowExplicit := fun _ => false, cellExplicit := fun _ _ => false, cellLower := fun _ _ => false,
    cellArrange := fun _ _ a => a, rowArrange := fun _ a => a, split := fun _ _ t => [t],
    beforeDim := [], afterDim := [], after := [], gapRow := fun _ => [], gapCell := fun _ _ => [],
    gapRowEnd := fun _ => [], gapEnd := [] }

theorem plainLayout_legal : plainLayout.Legal where
  dim := by intro d hd; simp [plainLayout] at hd
  cellAttr := by intros; rfl
  rowAttr := by intros; rfl
  split := by intro r c t; simp [plainLayout]
  head := ⟨by intro ev h; simp [plainLayout] at h, by intro ev h; simp [plainLayout] at h⟩
  gaps := ⟨by intro r ev h; simp [plainLayout] at h, by intro r c ev h; simp [plainLayout] at h,
    by intro r ev h; simp [plainLayout] at h, by intro ev h; simp [plainLayout] at h⟩

/-- non-vacuity, and the shape that separates a correct cursor from a wrong one: two rows, the second without
    `r`, cells without `r`; the second formula is at column 0 of row 1, not after the first row's last column -/
example :
    let s : Sheet := [(0, [(0, ⟨.blank, none, some [66, 49]⟩), (1, ⟨.num [49] false, none, none⟩)]),
                      (1, [(0, ⟨.blank, none, some [65, 49]⟩)])]
    readFormulas (renderSheet s plainLayout) = .ok [(0, 0, [66, 49]), (0, 1, []), (1, 0, [65, 49])] := by
  intro s
  have hwf : s.WF := by simp [s, Sheet.WF, Increasing]
  rw [(formula_positions_xlsx s plainLayout plainLayout_legal hwf).1]
  rfl

end Xlsx

/-! ## xlsb: formula cells of a worksheet part (`next_formula`, `formula_rgce`, `worksheet_formula`) -/

section XlsbCells
open Xlsb XlsbFormula

/-- **no panic** (C06 re-exports): reading the formula cells of ANY byte string as a worksheet part — record
    framing, `XlsbCellsReader::new`, the four BrtFmla* layouts, the `rgce` slice, the token decoder — returns a
    cell list or an error -/
theorem sheetFormulas_no_panic (ctx : Ptg.Ctx) (bs : Xlsb.Bytes) (m : String) : sheetFormulas ctx bs ≠ .panic m :=
  sheetFormulas_ne_panic ctx bs m

/-- **termination**: with one unit of fuel per byte of the part (plus one) the formula loop never runs out: every
    iteration consumes a record of at least two bytes -/
theorem sheetFormulas_total (ctx : Ptg.Ctx) (bs : Xlsb.Bytes) : sheetFormulas ctx bs ≠ .outOfFuel :=
  sheetFormulas_ne_fuel ctx bs

/-- `Xlsb::worksheet_formula` on arbitrary bytes: never out of fuel, and a panic can only be `Range::from_sparse`'s
    (hostile coordinates: C05 / C06 known finding), never the reader's -/
theorem worksheetFormulaXlsb_total (ctx : Ptg.Ctx) (bs : Xlsb.Bytes) :
    worksheetFormula ctx bs ≠ .outOfFuel ∧
    ∀ m, worksheetFormula ctx bs = .panic m → ∃ cells, sheetFormulas ctx bs = .ok cells ∧ Range.fromSparse cells = .panic m := by
  unfold worksheetFormula
  cases h : sheetFormulas ctx bs with
  | ok cells => exact ⟨fromSparse_ne_fuel cells, fun m hm => ⟨cells, rfl, hm⟩⟩
  | err e => exact ⟨by simp, fun m hm => by cases hm⟩
  | panic s => exact absurd h (sheetFormulas_ne_panic ctx bs s)
  | outOfFuel => exact absurd h (sheetFormulas_ne_fuel ctx bs)

/-- **formula record layout**: in each of the four formula records (cached string / number / bool / error) written
    by the encoder, `formula_rgce` cuts out exactly the expression's token bytes — after the Cell structure, the
    variable-length cached value and `grbitFlags`, ignoring the trailing `rgcb` — and the column is the record's -/
theorem fmla_record_rgce (col style : Nat) (content : Content) (flags : Nat) (rgce rgcb : Xlsb.Bytes)
    (hcol : col < 4294967296) (hwf : content.WF) (hf : content.hasFmla = true) (hlen : rgce.length < 4294967296) :
    let c : CellRec := ⟨col, style, content, some (fmlaBytes flags rgce rgcb)⟩
    finterpret c.recId c.payload = .cell rgce ∧ u32le c.payload = col ∧ (8 ≤ c.recId ∧ c.recId ≤ 11) :=
  finterpret_fcell col style content flags rgce rgcb hcol hwf hf hlen

/-- **sheet round trip** (cells): for every described worksheet part — any prologue, sheet data made of row headers,
    constant cells, ignorable records and formula cells (any of the four cached-value kinds, any flags, any `rgcb`,
    an expression of the C14 grammar) in any interleaving, every record framed with a 1- or 2-byte id and a
    1..4-byte length — `worksheet_formula` collects exactly the formula cells whose text is not empty, each at
    (current row header, record column) with the A1 text of its expression -/
theorem xlsb_formula_cells_roundtrip (ctx : Ptg.Ctx) (pre1 pre2 : List Seg) (dims : Xlsb.Bytes) (dw : Bool) (dl : Nat)
    (bp : Xlsb.Bytes) (bw : Bool) (bl : Nat) (data : List FFramed) (ew : Bool) (el : Nat) (post : Xlsb.Bytes)
    (h1 : ∀ s ∈ pre1, s.OK 0x0094 bounds1) (h2 : ∀ s ∈ pre2, s.OK 0x0091 bounds2)
    (hd : 16 ≤ dims.length ∧ dims.length < 268435456) (hb : bp.length < 268435456)
    (hok : ∀ d ∈ data, d.item.OK ctx.sheets.length) :
    sheetFormulas ctx (sheetBytes pre1 dims dw dl pre2 bp bw bl (data.map FFramed.toFramed) ew el post)
      = .ok (keptFormulas (envOfXlsb ctx) (data.map (·.item))) :=
  sheetFormulas_enc ctx pre1 pre2 dims dw dl bp bw bl data ew el post h1 h2 hd hb hok

/-- **sheet round trip** (range): … and the range `worksheet_formula` returns is empty iff there is no such cell,
    otherwise it is exactly their bounding rectangle (every cell inside, every side touched) and holds at every
    position the text of the (last) formula cell addressing it and `""` everywhere else; in particular, when no two
    formula cells share a position, every formula is read back at its cell -/
theorem xlsb_worksheet_formula_roundtrip (ctx : Ptg.Ctx) (pre1 pre2 : List Seg) (dims : Xlsb.Bytes) (dw : Bool) (dl : Nat)
    (bp : Xlsb.Bytes) (bw : Bool) (bl : Nat) (data : List FFramed) (ew : Bool) (el : Nat) (post : Xlsb.Bytes)
    (h1 : ∀ s ∈ pre1, s.OK 0x0094 bounds1) (h2 : ∀ s ∈ pre2, s.OK 0x0091 bounds2)
    (hd : 16 ≤ dims.length ∧ dims.length < 268435456) (hb : bp.length < 268435456)
    (hok : ∀ d ∈ data, d.item.OK ctx.sheets.length)
    (hS : ∀ c ∈ keptFormulas (envOfXlsb ctx) (data.map (·.item)), c.1 < 1048576 ∧ c.2.1 < 16384) :
    let S := keptFormulas (envOfXlsb ctx) (data.map (·.item))
    ∃ r, worksheetFormula ctx (sheetBytes pre1 dims dw dl pre2 bp bw bl (data.map FFramed.toFramed) ew el post) = .ok r ∧
      Range.Inv r ∧ (r.inner.length = 0 ↔ S = []) ∧
      (∀ c ∈ S, r.sr ≤ c.1 ∧ c.1 ≤ r.er ∧ r.sc ≤ c.2.1 ∧ c.2.1 ≤ r.ec) ∧
      (S ≠ [] → (∃ c ∈ S, c.1 = r.sr) ∧ (∃ c ∈ S, c.1 = r.er) ∧ (∃ c ∈ S, c.2.1 = r.sc) ∧ (∃ c ∈ S, c.2.1 = r.ec)) ∧
      (∀ p q, r.valAt p q = (Range.lastAt S p q).getD []) ∧
      (S.Pairwise (fun a b => ¬ (a.1 = b.1 ∧ a.2.1 = b.2.1)) → ∀ c ∈ S, r.valAt c.1 c.2.1 = c.2.2) ∧
      (∀ p q, (∀ c ∈ S, ¬ (c.1 = p ∧ c.2.1 = q)) → r.valAt p q = []) := by
  intro S
  unfold worksheetFormula
  rw [sheetFormulas_enc ctx pre1 pre2 dims dw dl bp bw bl data ew el post h1 h2 hd hb hok]
  simp only
  change ∀ c ∈ S, c.1 < 1048576 ∧ c.2.1 < 16384 at hS
  have hpre : Range.sparsePre S :=
    ⟨fun c hc => by have := hS c hc; unfold Range.U32; omega,
     fun c hc c' hc' => by have := hS c hc; have := hS c' hc'; unfold Range.U32; omega⟩
  obtain ⟨r, hr⟩ := Range.fromSparse_of_pre S hpre
  obtain ⟨hinv, hemp⟩ := Range.inv_fromSparse S r hr
  have hval : ∀ p q, r.valAt p q = (Range.lastAt S p q).getD [] := by
    by_cases hne : S = []
    · intro p q
      rw [Range.fromSparse_untouched S r hr p q (by rw [hne]; exact fun c hc => nomatch hc), hne]
      rfl
    · exact (Range.fromSparse_spec_any S hne r hr).2.2.2.2.2.2
  refine ⟨r, hr, hinv, hemp, ?_, ?_, hval, ?_, ?_⟩
  · by_cases hne : S = []
    · rw [hne]; exact fun c hc => nomatch hc
    · exact (Range.fromSparse_spec_any S hne r hr).2.1
  · intro hne
    obtain ⟨_, _, t1, t2, t3, t4, _⟩ := Range.fromSparse_spec_any S hne r hr
    exact ⟨t1, t2, t3, t4⟩
  · intro hdist c hc
    obtain ⟨l1, l2, hl⟩ := List.append_of_mem hc
    rw [hval, hl, Range.lastAt_append_cons l1 l2 c]
    · rfl
    · intro c' hc' hpos
      have := List.pairwise_append.mp (hl ▸ hdist)
      exact (List.pairwise_cons.mp this.2.1).1 c' hc' ⟨hpos.1.symm, hpos.2.symm⟩
  · intro p q hno
    rw [hval]
    have : Range.lastAt S p q = none := by
      unfold Range.lastAt
      rw [Option.map_eq_none_iff, List.find?_eq_none]
      intro c hc
      simpa using hno c (List.mem_reverse.mp hc)
    rw [this]; rfl

/-- non-vacuity: row 5, a number cell with `=A1+2` behind a cached 1.5 and a string-cached `=CHOOSE(…)`-free `=B2`
    are legal items -/
example :
    let it1 : FItem := .fcell 3 0 (.real 4609434218613702656) 0 (.bin 3 (.ref 0 ⟨0, 0, false, false⟩) (.int 2)) []
    let it2 : FItem := .fcell 7 0 (.str [120, 121]) 8 (.ref 1 ⟨1, 1, false, false⟩) [1, 2, 3]
    it1.OK 0 ∧ it2.OK 0 ∧ (FItem.row 5 []).OK 0 := by
  intro it1 it2
  refine ⟨?_, ?_, by simp [FItem.OK]⟩
  · refine ⟨by decide, by simp [Content.WF], rfl, by simp [Formula.Expr.arityOk], ?_, by simp, by decide⟩
    intro t ht
    simp [Formula.toRpn] at ht
    rcases ht with rfl | rfl | rfl <;> simp [Formula.Tok.wf, Formula.Tok.sheetOk, Formula.CellRef.wf]
  · refine ⟨by decide, by simp [Content.WF], rfl, by simp [Formula.Expr.arityOk], ?_, by simp, by decide⟩
    intro t ht
    simp [Formula.toRpn] at ht
    subst ht
    simp [Formula.Tok.wf, Formula.Tok.sheetOk, Formula.CellRef.wf]

end XlsbCells

/-! ## offsets: the stack of string offsets never goes wrong -/

/-- `Inv`: the stack is sorted and every entry is inside the buffer.  Every edit preserves it, and from such a
    state NO edit panics: `split_off`, `insert`, `*s -= start` and the `fargs[w0..w1]` slices of both
    `parse_formula`s can never fail, whatever the token stream (this is also what makes character offsets and
    Rust's UTF-8 byte offsets interchangeable in the model: every offset used is a former buffer length and the
    text before it is never edited afterwards) -/
theorem offsets_never_panic (a : Act) (s : St) (h : Inv s) :
    (∀ s', applyAct a s = .ok s' → Inv s') ∧ (∀ m, applyAct a s ≠ .panic m) :=
  ⟨(applyAct_inv a s h).1, fun m hm => (applyAct_inv a s h).2 m hm⟩

/-- **xls decoder is total** (C06 re-exports this): for ANY context and ANY byte string, `parse_formula` returns
    `Ok` or `Err` — it never panics: every token's length is checked (`rgce_need`), `FTAB` is read with `get`,
    a zero name index is `#REF!`, and the offset edits cannot fail (`offsets_never_panic`) -/
theorem parseFormulaXls_no_panic (ctx : Ctx) (rgce : Bytes) (m : String) : parseFormulaXls ctx rgce ≠ .panic m :=
  (parseFormulaXls_total ctx rgce).1 m

/-- … and the loop budget `rgce.length` the model gives the `while` loop is never exhausted: every arm consumes
    its token (so the Rust loop terminates after at most `rgce.len()` iterations) -/
theorem parseFormulaXls_fuel (ctx : Ctx) (rgce : Bytes) : parseFormulaXls ctx rgce ≠ .outOfFuel :=
  (parseFormulaXls_total ctx rgce).2

/-- **xlsb decoder is total**, nested PtgMemFunc sub-formulas included; an extern-sheet index outside the table
    is `#REF` -/
theorem parseFormulaXlsb_no_panic (ctx : Ctx) (rgce : Bytes) (m : String) : parseFormulaXlsb ctx rgce ≠ .panic m :=
  (parseFormulaXlsb_total ctx rgce).1 m

theorem parseFormulaXlsb_fuel (ctx : Ctx) (rgce : Bytes) : parseFormulaXlsb ctx rgce ≠ .outOfFuel :=
  (parseFormulaXlsb_total ctx rgce).2

/-- **bounded recursion** (C06 re-exports this): PtgMemFunc sub-expressions are parsed by a recursive call on the
    Rust call stack; `depthUsed` follows the same control flow as the decoder and returns the deepest `depth`
    argument of any call made.  From the top-level call it never exceeds `maxMemDepth` = 64, whatever the bytes:
    at most 65 frames of `parse_formula_nested` are ever on the stack (deeper nesting is an `Err`) -/
theorem parseFormulaXlsb_depth_bounded (ctx : Ctx) (rgce : Bytes) :
    depthUsed ctx 0 rgce.length rgce ⟨[], []⟩ ≤ maxMemDepth ∧ maxMemDepth = 64 :=
  ⟨depthUsed_top ctx rgce, rfl⟩

/-- `parse_defined_names` (xls Lbl formulas) is total too -/
theorem definedNameXls_no_panic (rgce : Bytes) (m : String) : definedNameXls rgce ≠ .panic m :=
  (definedNameXls_total rgce).1 m

example : Inv ⟨"A1+B2".toList, [0, 3]⟩ := by
  constructor
  · simp
  · intro x hx; simp at hx; rcases hx with rfl | rfl <;> decide

end C14
