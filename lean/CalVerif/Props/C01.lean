import CalVerif.Lemmas.XlsxSheet
import CalVerif.Props.C05
/-! # C01 — XLSX: every cell reads back at its position, with its value and type
    Property theorems only (helper lemmas: `Lemmas/XlsxA1.lean`, `Lemmas/XlsxSheet.lean`).
    Model: `Model/XlsxCells.lean` (reader on XML events); encoder: `Spec/XlsxSheet.lean`. -/
namespace XlsxCells
open XlsxSheet

/-! ## cell references -/

/-- `column_number_to_name` writes, for every legal column, letters whose bijective base-26 value is the
    1-based column number (and refuses every other column) -/
theorem col_name_roundtrip (c : Nat) (hc : c < 16384) :
    ∃ name, columnNumberToName c = .ok name ∧ valLE26 65 name.reverse = c + 1 ∧ ∀ x ∈ name, 65 ≤ x ∧ x ≤ 90 := by
  refine ⟨(colLE (c + 1)).reverse, ?_, ?_, ?_⟩
  · unfold columnNumberToName maxColumns
    rw [if_neg (by omega)]
  · rw [List.reverse_reverse, valLE26_colLE]
  · intro x hx; exact colLE_letters _ x (List.mem_reverse.mp hx)

theorem col_name_domain (c : Nat) : (columnNumberToName c).isOk = decide (c < 16384) := by
  unfold columnNumberToName maxColumns
  by_cases h : c ≥ 16384
  · have : ¬ c < 16384 := by omega
    simp [h, this, Res.isOk]
  · have : c < 16384 := by omega
    simp [h, this, Res.isOk]

/-- `coordinate_to_name` writes the reference `refName` (upper-case letters, 1-based decimal row) -/
theorem coord_name (r c : Nat) (hr : r < 1048576) (hc : c < 16384) :
    coordToName r c = .ok (refName false r c) := by
  unfold coordToName columnNumberToName maxColumns
  rw [if_neg (by omega)]
  have h : ¬ (r + 1 ≥ U32) := by simp only [U32]; omega
  simp only [if_neg h]
  simp [refName, colLetters, dec]

/-- every position of the grid A1..XFD1048576, written as a reference (upper- or lower-case letters),
    reads back as exactly that position -/
theorem a1_roundtrip (lower : Bool) (r c : Nat) (hr : r < 1048576) (hc : c < 16384) :
    getRowCol (refName lower r c) = .ok (r, some c) :=
  getRowCol_refName lower r c (by simp only [U32]; omega) (by simp only [U32]; omega)

/-- `get_row_and_optional_column ∘ coordinate_to_name = id` on the grid -/
theorem a1_roundtrip_coord (r c : Nat) (hr : r < 1048576) (hc : c < 16384) :
    ∃ name, coordToName r c = .ok name ∧ getRowCol name = .ok (r, some c) :=
  ⟨_, coord_name r c hr hc, a1_roundtrip false r c hr hc⟩

/-- a row reference (`<row r="n">`) reads back as row `n-1` with no column -/
theorem row_roundtrip (r : Nat) (hr : r < 1048576) : getRowCol (dec (r + 1)) = .ok (r, none) :=
  getRowCol_dec r (by simp only [U32]; omega)

/-- two positions never share a reference, whatever the case of the letters -/
theorem a1_injective (l l' : Bool) (r c r' c' : Nat) (hr : r < 1048576) (hc : c < 16384)
    (hr' : r' < 1048576) (hc' : c' < 16384) (h : refName l r c = refName l' r' c') : r = r' ∧ c = c' := by
  have h1 := a1_roundtrip l r c hr hc
  have h2 := a1_roundtrip l' r' c' hr' hc'
  rw [h, h2] at h1
  injection h1 with h1
  injection h1 with ha hb
  injection hb with hb
  exact ⟨ha.symm, hb.symm⟩

/-- (after ledger D30-a) no byte string makes `get_row_and_optional_column` panic: it returns a position
    or an error. Before the fix, 7 letters or 10 digits overflowed `u32`. -/
theorem a1_no_panic (s : Bytes) : (∃ v, getRowCol s = .ok v) ∨ (∃ e, getRowCol s = .err e) :=
  getRowCol_total s

/-- the `ref` of a `<dimension>`/`<mergeCell>` written for any rectangle of the grid reads back as it -/
theorem dimension_roundtrip (d : Dims) (h1 : d.sr < 1048576) (h2 : d.sc < 16384) (h3 : d.er < 1048576)
    (h4 : d.ec < 16384) : getDimension (dimRef d) = .ok d :=
  getDimension_dimRef d (by simp only [U32]; omega) (by simp only [U32]; omega) (by simp only [U32]; omega)
    (by simp only [U32]; omega)

/-- (after ledger D30-c) `get_dimension` never panics — reversed rectangles included -/
theorem dimension_no_panic (s : Bytes) : (∃ v, getDimension s = .ok v) ∨ (∃ e, getDimension s = .err e) := by
  unfold getDimension
  rcases mapParts_total (splitColon s) with ⟨v, h⟩ | ⟨e, h⟩
  · rw [h]
    match v with
    | [] => exact Or.inr ⟨_, rfl⟩
    | [p] => exact Or.inl ⟨_, rfl⟩
    | [p, q] => exact Or.inl ⟨_, rfl⟩
    | _ :: _ :: _ :: _ => exact Or.inr ⟨_, rfl⟩
  · rw [h]; exact Or.inr ⟨_, rfl⟩

/-! ## the reader on an encoded sheet -/

/-- **cursor_positions**: for every well-formed logical sheet and *every* layout (explicit or implicit row
    and cell references wherever the format allows them, either letter case, with or without an element
    prefix, any or no `<dimension>`), the cells `next_cell` returns are exactly the cells of the sheet, in
    row-major order, each at its position — and each with the value of the documented mapping (`expect`). -/
theorem cursor_positions (cfg : Cfg) (s : Sheet) (lay : Layout) (hwf : s.WF) (hok : s.ContentOk cfg)
    (hdim : lay.DimOk) :
    ∃ dims cells, readCells cfg (renderSheet s lay) = .ok (dims, cells) ∧
      cells.map (fun c => (c.1, c.2.1)) = s.flatMap (fun row => row.2.map fun cell => (row.1, cell.1)) ∧
      cells = cellsOf cfg s := by
  refine ⟨_, _, readCells_render cfg s lay hwf hok hdim, ?_, rfl⟩
  simp only [cellsOf, List.map_flatMap, List.map_map]
  rfl

/-- **typing** (the `read_v` table on an encoded cell): whatever the reference/prefix choices, a cell with
    content `c` reads as `expect`: blank → `Empty`; number → the number token with the format of its style
    (`t="n"` with empty text → `Empty`); `t="s"` → the `idx`-th shared string; inline and `t="str"` →
    `String`; `t="b"` → `Bool`; `t="e"` → the error of that literal; `t="d"` → `DateTimeIso`. -/
theorem typing (cfg : Cfg) (lay : Layout) (r c cur : Nat) (cs : CellSpec) (hr : r < 1048576) (hc : c < 16384)
    (hok : cs.content.Ok cfg) (out : List (Nat × Nat × Val)) :
    steps cfg ⟨.rows, r, cur, out⟩ (renderCell lay r c cur cs) = .ok ⟨.rows, r, c + 1, (r, c, expect cfg cs) :: out⟩ ∧
    expect cfg cs = (match cs.content with
      | .blank => .empty
      | .num t tn => if tn ∧ t = [] then .empty else .num t (styleFmt cfg cs.style) tn
      | .shared idx => .shared (cfg.strings.getD idx [])
      | .inline s => .str s
      | .fstr s => .str s
      | .bool b => .bool b
      | .err k => .error k
      | .iso s => .dateIso s) :=
  ⟨steps_cell cfg lay r c cur cs hr hc hok out, rfl⟩

/-- the range read from an encoded sheet does not depend on the layout -/
theorem xlsx_encoding_independent (cfg : Cfg) (s : Sheet) (lay lay' : Layout) (hwf : s.WF) (hok : s.ContentOk cfg)
    (hdim : lay.DimOk) (hdim' : lay'.DimOk) :
    worksheetRange cfg (renderSheet s lay) = worksheetRange cfg (renderSheet s lay') := by
  rw [worksheetRange_render cfg s lay hwf hok hdim, worksheetRange_render cfg s lay' hwf hok hdim']

/-- **xlsx_range_spec**: `worksheet_range` of an encoded sheet is the tight bounding rectangle of the
    non-`Empty` cells (empty range when there is none), it holds at every stored position the expected value
    of that cell, and `Empty` everywhere else — independently of the layout, in particular of `<dimension>`. -/
theorem xlsx_range_spec (cfg : Cfg) (s : Sheet) (lay : Layout) (hwf : s.WF) (hok : s.ContentOk cfg) (hdim : lay.DimOk) :
    let all := cellsOf cfg s
    let ne := all.filter (fun c => c.2.2 ≠ .empty)
    (ne = [] → worksheetRange cfg (renderSheet s lay) = .ok Range.empty) ∧
    (ne ≠ [] → ∃ rg, worksheetRange cfg (renderSheet s lay) = .ok rg ∧ rg.inner.length ≠ 0 ∧
      (∀ c ∈ ne, rg.sr ≤ c.1 ∧ c.1 ≤ rg.er ∧ rg.sc ≤ c.2.1 ∧ c.2.1 ≤ rg.ec) ∧
      (∃ c ∈ ne, c.1 = rg.sr) ∧ (∃ c ∈ ne, c.1 = rg.er) ∧ (∃ c ∈ ne, c.2.1 = rg.sc) ∧ (∃ c ∈ ne, c.2.1 = rg.ec) ∧
      (∀ c ∈ all, rg.valAt c.1 c.2.1 = c.2.2) ∧
      (∀ p q, (∀ c ∈ all, ¬ (c.1 = p ∧ c.2.1 = q)) → rg.valAt p q = .empty)) := by
  intro all ne
  rw [worksheetRange_render cfg s lay hwf hok hdim]
  have hall_p : all.Pairwise Lex := cellsOf_pairwise cfg s 0 hwf.1 hwf.2
  have hall_b := cellsOf_mem cfg s 0 hwf.1 hwf.2
  have hne_p : ne.Pairwise Lex := hall_p.filter _
  have hsub : ∀ c ∈ ne, c ∈ all ∧ c.2.2 ≠ .empty := by
    intro c hc
    have := List.mem_filter.mp hc
    exact ⟨this.1, by simpa using this.2⟩
  constructor
  · intro h
    show Range.fromSparse ne = _
    rw [h]; rfl
  · intro hne
    show ∃ rg, Range.fromSparse ne = .ok rg ∧ _
    have hlast := lex_last hne_p hne
    have hhead := lex_head hne_p hne
    -- the documented precondition of `from_sparse` holds
    have hpre : Range.sparsePreSorted ne := by
      cases hcase : ne with
      | nil => exact absurd hcase hne
      | cons c0 rest =>
        have hl : (c0 :: rest).getLast?.getD c0 = (c0 :: rest).getLast (by simp) := by
          rw [List.getLast?_eq_some_getLast (by simp)]; rfl
        simp only [Range.sparsePreSorted, hl]
        have hlast' : ∀ c ∈ c0 :: rest, c.1 ≤ ((c0 :: rest).getLast (by simp)).1 := by
          intro c hc; have := hlast c (by rw [hcase]; exact hc); simpa [hcase] using this
        have hhead' : ∀ c ∈ c0 :: rest, c0.1 ≤ c.1 := by
          intro c hc; have := hhead c (by rw [hcase]; exact hc); simpa [hcase] using this
        have hb : ∀ c ∈ c0 :: rest, c.1 < 1048576 ∧ c.2.1 < 16384 := by
          intro c hc
          have := hall_b c (hsub c (by rw [hcase]; exact hc)).1
          exact ⟨this.2.1, this.2.2⟩
        have hlastmem := List.getLast_mem (l := c0 :: rest) (by simp)
        refine ⟨fun c hc => ⟨hhead' c hc, hlast' c hc, ?_, ?_⟩, ?_, fun c hc c' hc' => ?_⟩
        · have := hb c hc; simp only [Range.U32]; omega
        · have := hb c hc; simp only [Range.U32]; omega
        · have := hb _ hlastmem; simp only [Range.U32]; omega
        · have := hb c hc; have := hb c' hc'; simp only [Range.U32]; omega
    obtain ⟨rg, hrg⟩ := Range.fromSparse_of_pre ne (Range.sparsePre_of_old ne hpre)
    obtain ⟨hlen, hsr, her, hbox, hec, hsc, _⟩ := Range.fromSparse_spec ne hne rg hrg (Range.rowsBetween_of_old ne hne hpre)
    have hcolU : ∀ c ∈ ne, c.2.1 < Range.U32 := by
      intro c hc; have := hall_b c (hsub c hc).1; simp only [Range.U32]; omega
    have her' : ∀ c ∈ ne, c.1 ≤ rg.er := by intro c hc; rw [her]; exact hlast c hc
    refine ⟨rg, hrg, hlen, ?_, ⟨_, List.head_mem hne, hsr.symm⟩, ⟨_, List.getLast_mem hne, her.symm⟩, hsc hcolU, hec, ?_, ?_⟩
    · intro c hc
      have := hbox c hc
      exact ⟨this.1, her' c hc, this.2.1, this.2.2⟩
    · intro c hc
      by_cases hv : c.2.2 = .empty
      · -- a blank cell: no non-empty cell shares its position
        rw [hv]
        apply Range.fromSparse_untouched ne rg hrg
        intro x hx hpos
        obtain ⟨hxall, hxne⟩ := hsub x hx
        obtain ⟨l1, l2, hsplit⟩ := List.append_of_mem hc
        obtain ⟨hu1, hu2⟩ := lex_unique hall_p l1 l2 c hsplit
        have hxm : x ∈ l1 ++ c :: l2 := by rw [← hsplit]; exact hxall
        simp only [List.mem_append, List.mem_cons] at hxm
        rcases hxm with hxm | rfl | hxm
        · exact hu1 x hxm hpos
        · exact hxne hv
        · exact hu2 x hxm hpos
      · have hcne : c ∈ ne := List.mem_filter.mpr ⟨hc, by simpa using hv⟩
        obtain ⟨l1, l2, hsplit⟩ := List.append_of_mem hcne
        obtain ⟨_, hu2⟩ := lex_unique hne_p l1 l2 c hsplit
        rw [hsplit] at hrg
        exact Range.fromSparse_last_wins l1 l2 c rg hrg (fun x hx => hu2 x hx)
    · intro p q hfree
      apply Range.fromSparse_untouched ne rg hrg
      intro x hx
      exact hfree x (hsub x hx).1

/-! ## robustness of the modelled reader (C06 overlap; after ledger D30-a/c/d and D39) -/

/-- on *any* event list — malformed references, reversed dimensions, out-of-range shared-string indices,
    unknown cell types, cursors at the `u32` limit — `XlsxCellReader::new` + `next_cell` return cells and then
    `Ok(None)` or an error; they never panic. (`Range::from_sparse` on what they return is C05/C06's.) -/
theorem reader_no_panic (cfg : Cfg) (evs : List Ev) :
    (∃ v, readCells cfg evs = .ok v) ∨ (∃ e, readCells cfg evs = .err e) := by
  unfold readCells
  rcases readerNew_total evs default false with ⟨⟨d, rest⟩, h⟩ | ⟨e, h⟩
  · rw [h]; simp only
    rcases run_total cfg rest initSt with h2 | ⟨e, h2⟩
    · cases hr : run cfg rest initSt with
      | mk cells res =>
        rw [hr] at h2; simp only at h2; subst h2
        exact Or.inl ⟨_, rfl⟩
    · cases hr : run cfg rest initSt with
      | mk cells res =>
        rw [hr] at h2; simp only at h2; subst h2
        exact Or.inr ⟨_, rfl⟩
  · rw [h]; exact Or.inr ⟨_, rfl⟩

/-! ## shared strings -/

/-- **sst_alignment** (after ledger D20, D21): whatever the element prefix, the `i`-th string of the table is
    the text of the `i`-th `<si>` — an item without text (`<si/>`, or phonetic-only) is the empty string and
    does not shift the later indices; rich text is the concatenation of its runs, phonetic runs excluded. -/
theorem sst_alignment (p : Bool) (items : List SstItem) :
    readSharedStrings (renderSst p items) = .ok (items.map SstItem.text) := by
  unfold readSharedStrings renderSst
  simp only [List.append_assoc, List.cons_append, List.nil_append]
  rw [sstLoop]
  simp only [ln_sst, nSst_ne_nSi, if_false]
  rw [sstLoop_items]
  simp [sstLoop]

example : readSharedStrings (renderSst true [.plain [97], .emptyElem, .rich [[98], [], [99]] (some [80]), .rich [] none]) =
    .ok [[97], [], [98, 99], []] := sst_alignment _ _

/-! ## a non-trivial instance of the hypotheses -/

def exCfg : Cfg := ⟨[[104, 105], []], [.other, .dateTime]⟩
/-- rows 1, 10 and 1048576; implicit and explicit references; a blank styled cell; a date-styled number;
    the empty shared string; an inline string in XFD1048576 -/
def exSheet : Sheet :=
  [(0, [(0, ⟨.num [49] false, none, none⟩), (1, ⟨.shared 1, none, none⟩), (26, ⟨.blank, some [49], none⟩)]),
   (9, [(702, ⟨.num [52, 52, 49, 57, 55] true, some [49], some [65, 49]⟩), (703, ⟨.bool true, none, none⟩)]),
   (1048575, [(16383, ⟨.inline [120], none, none⟩)])]
def exLayout : Layout :=
  ⟨true, some ⟨5, 5, 6, 6⟩, fun r => r == 9, fun _ c => c == 1, fun _ c => c == 16383⟩

example : exSheet.WF ∧ exSheet.ContentOk exCfg ∧ exLayout.DimOk := by
  refine ⟨⟨by simp [exSheet, Increasing], ?_⟩, ?_, ?_⟩
  · intro row hrow
    simp only [exSheet, List.mem_cons, List.not_mem_nil, or_false] at hrow
    rcases hrow with rfl | rfl | rfl <;> simp [Increasing]
  · intro row hrow cell hcell
    simp only [exSheet, List.mem_cons, List.not_mem_nil, or_false] at hrow
    rcases hrow with rfl | rfl | rfl <;>
      · simp only [List.mem_cons, List.not_mem_nil, or_false] at hcell
        rcases hcell with rfl | rfl | rfl <;> simp [Content.Ok, exCfg]
  · intro d hd
    simp only [exLayout, Option.some.injEq] at hd
    subst hd
    simp

#guard (readCells exCfg (renderSheet exSheet exLayout)).isOk

example : getRowCol (refName true 1048575 16383) = .ok (1048575, some 16383) :=
  a1_roundtrip true 1048575 16383 (by omega) (by omega)
#guard refName true 1048575 16383 == [120, 102, 100, 49, 48, 52, 56, 53, 55, 54]   -- "xfd1048576"

end XlsxCells
