import CalVerif.Lemmas.XlsxA1
/-! # C01 — XLSX: every cell reads back at its position, with its value and type
    Property theorems only (helper lemmas: `Lemmas/XlsxA1.lean`, `Lemmas/XlsxSheet.lean`).
    Model: `Model/XlsxCells.lean` (reader on XML events); encoder: `Spec/XlsxSheet.lean`. -/
namespace XlsxCells
open XlsxSheet

/-! ## cell references -/

/-- `column_number_to_name` writes, for every legal column, letters whose bijective base-26 value is the
    1-based column number (and refuses every other column) -/
theorem col_name_roundtrip (c : Nat) (hc : c < 16384) :
    ∃ name, columnNumberToName c = .ok name ∧ valLE26 65 name.reverse = c + 1 ∧ ∀ x ∈ name, 65 ≤ x ∧ x ≤ 90 := by
  refine ⟨(colLE (c + 1)).reverse, ?_, ?_, ?_⟩
  · unfold columnNumberToName maxColumns
    rw [if_neg (by omega)]
  · rw [List.reverse_reverse, valLE26_colLE]
  · intro x hx; exact colLE_letters _ x (List.mem_reverse.mp hx)

theorem col_name_domain (c : Nat) : (columnNumberToName c).isOk = decide (c < 16384) := by
  unfold columnNumberToName maxColumns
  by_cases h : c ≥ 16384
  · have : ¬ c < 16384 := by omega
    simp [h, this, Res.isOk]
  · have : c < 16384 := by omega
    simp [h, this, Res.isOk]

/-- `coordinate_to_name` writes the reference `refName` (upper-case letters, 1-based decimal row) -/
theorem coord_name (r c : Nat) (hr : r < 1048576) (hc : c < 16384) :
    coordToName r c = .ok (refName false r c) := by
  unfold coordToName columnNumberToName maxColumns
  rw [if_neg (by omega)]
  have h : ¬ (r + 1 ≥ U32) := by simp only [U32]; omega
  simp only [if_neg h]
  simp [refName, colLetters, dec]

/-- every position of the grid A1..XFD1048576, written as a reference (upper- or lower-case letters),
    reads back as exactly that position -/
theorem a1_roundtrip (lower : Bool) (r c : Nat) (hr : r < 1048576) (hc : c < 16384) :
    getRowCol (refName lower r c) = .ok (r, some c) :=
  getRowCol_refName lower r c (by simp only [U32]; omega) (by simp only [U32]; omega)

/-- `get_row_and_optional_column ∘ coordinate_to_name = id` on the grid -/
theorem a1_roundtrip_coord (r c : Nat) (hr : r < 1048576) (hc : c < 16384) :
    ∃ name, coordToName r c = .ok name ∧ getRowCol name = .ok (r, some c) :=
  ⟨_, coord_name r c hr hc, a1_roundtrip false r c hr hc⟩

/-- a row reference (`<row r="n">`) reads back as row `n-1` with no column -/
theorem row_roundtrip (r : Nat) (hr : r < 1048576) : getRowCol (dec (r + 1)) = .ok (r, none) :=
  getRowCol_dec r (by simp only [U32]; omega)

/-- two positions never share a reference, whatever the case of the letters -/
theorem a1_injective (l l' : Bool) (r c r' c' : Nat) (hr : r < 1048576) (hc : c < 16384)
    (hr' : r' < 1048576) (hc' : c' < 16384) (h : refName l r c = refName l' r' c') : r = r' ∧ c = c' := by
  have h1 := a1_roundtrip l r c hr hc
  have h2 := a1_roundtrip l' r' c' hr' hc'
  rw [h, h2] at h1
  injection h1 with h1
  injection h1 with ha hb
  injection hb with hb
  exact ⟨ha.symm, hb.symm⟩

/-- (after ledger D30-a) no byte string makes `get_row_and_optional_column` panic: it returns a position
    or an error. Before the fix, 7 letters or 10 digits overflowed `u32`. -/
theorem a1_no_panic (s : Bytes) : (∃ v, getRowCol s = .ok v) ∨ (∃ e, getRowCol s = .err e) :=
  getRowCol_total s

/-- the `ref` of a `<dimension>`/`<mergeCell>` written for any rectangle of the grid reads back as it -/
theorem dimension_roundtrip (d : Dims) (h1 : d.sr < 1048576) (h2 : d.sc < 16384) (h3 : d.er < 1048576)
    (h4 : d.ec < 16384) : getDimension (dimRef d) = .ok d :=
  getDimension_dimRef d (by simp only [U32]; omega) (by simp only [U32]; omega) (by simp only [U32]; omega)
    (by simp only [U32]; omega)

/-- (after ledger D30-c) `get_dimension` never panics — reversed rectangles included -/
theorem dimension_no_panic (s : Bytes) : (∃ v, getDimension s = .ok v) ∨ (∃ e, getDimension s = .err e) := by
  unfold getDimension
  rcases mapParts_total (splitColon s) with ⟨v, h⟩ | ⟨e, h⟩
  · rw [h]
    match v with
    | [] => exact Or.inr ⟨_, rfl⟩
    | [p] => exact Or.inl ⟨_, rfl⟩
    | [p, q] => exact Or.inl ⟨_, rfl⟩
    | _ :: _ :: _ :: _ => exact Or.inr ⟨_, rfl⟩
  · rw [h]; exact Or.inr ⟨_, rfl⟩

example : getRowCol (refName true 1048575 16383) = .ok (1048575, some 16383) :=
  a1_roundtrip true 1048575 16383 (by omega) (by omega)
#guard refName true 1048575 16383 == [120, 102, 100, 49, 48, 52, 56, 53, 55, 54]   -- "xfd1048576"

end XlsxCells
