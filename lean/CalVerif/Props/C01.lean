import CalVerif.Model.XlsxCells
import CalVerif.Spec.XlsxSheet
/-! # C01 — XLSX: every cell reads back at its position, with its value and type
    Property theorems only. -/
namespace XlsxCells

/-- `column_number_to_name` accepts exactly the columns below `MAX_COLUMNS` -/
theorem colname_domain (c : Nat) : (columnNumberToName c).isOk = decide (c < 16384) := by
  unfold columnNumberToName maxColumns
  by_cases h : c ≥ 16384
  · have : ¬ c < 16384 := by omega
    simp [h, this, Res.isOk]
  · have : c < 16384 := by omega
    simp [h, this, Res.isOk]

end XlsxCells
