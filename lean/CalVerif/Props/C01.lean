import CalVerif.Lemmas.XlsxSheet
import CalVerif.Props.C05
import CalVerif.Props.C10
import CalVerif.Lemmas.XlsxContainer
/-! # C01 — XLSX: every cell reads back at its position, with its value and type
    Property theorems only (helper lemmas and by-definition remarks: `Lemmas/XlsxA1.lean`, `Lemmas/XlsxSheet.lean`).
    Model: `Model/XlsxCells.lean` (reader on XML events); logical sheet, documented mapping `expectData`, layouts and
    the encoder `renderSheet`: `Spec/XlsxSheet.lean`. Numbers: C10's `Formats.formatF64` / `style_lookup_xlsx`;
    the range: C05's `fromSparse_spec_any`. -/
namespace XlsxCells
open XlsxSheet

/-! ## cell references -/

/-- `column_number_to_name` writes, for every legal column, letters whose bijective base-26 value is the
    1-based column number (and refuses every other column) -/
theorem col_name_roundtrip (c : Nat) (hc : c < 16384) :
    ∃ name, columnNumberToName c = .ok name ∧ valLE26 65 name.reverse = c + 1 ∧ ∀ x ∈ name, 65 ≤ x ∧ x ≤ 90 := by
  refine ⟨(colLE (c + 1)).reverse, ?_, ?_, ?_⟩
  · unfold columnNumberToName maxColumns
    rw [if_neg (by omega)]
  · rw [List.reverse_reverse, valLE26_colLE]
  · intro x hx; exact colLE_letters _ x (List.mem_reverse.mp hx)

theorem col_name_domain (c : Nat) : (columnNumberToName c).isOk = decide (c < 16384) := by
  unfold columnNumberToName maxColumns
  by_cases h : c ≥ 16384
  · have : ¬ c < 16384 := by omega
    simp [h, this, Res.isOk]
  · have : c < 16384 := by omega
    simp [h, this, Res.isOk]

/-- `coordinate_to_name` writes the reference `refName` (upper-case letters, 1-based decimal row) -/
theorem coord_name (r c : Nat) (hr : r < 1048576) (hc : c < 16384) :
    coordToName r c = .ok (refName false r c) := by
  unfold coordToName columnNumberToName maxColumns
  rw [if_neg (by omega)]
  have h : ¬ (r + 1 ≥ U32) := by simp only [U32]; omega
  simp only [if_neg h]
  simp [refName, colLetters, dec]

/-- every position of the grid A1..XFD1048576, written as a reference (upper- or lower-case letters),
    reads back as exactly that position -/
theorem a1_roundtrip (lower : Bool) (r c : Nat) (hr : r < 1048576) (hc : c < 16384) :
    getRowCol (refName lower r c) = .ok (r, some c) :=
  getRowCol_refName lower r c (by simp only [U32]; omega) (by simp only [U32]; omega)

/-- `get_row_and_optional_column ∘ coordinate_to_name = id` on the grid -/
theorem a1_roundtrip_coord (r c : Nat) (hr : r < 1048576) (hc : c < 16384) :
    ∃ name, coordToName r c = .ok name ∧ getRowCol name = .ok (r, some c) :=
  ⟨_, coord_name r c hr hc, a1_roundtrip false r c hr hc⟩

/-- a row reference (`<row r="n">`) reads back as row `n-1` with no column -/
theorem row_roundtrip (r : Nat) (hr : r < 1048576) : getRowCol (dec (r + 1)) = .ok (r, none) :=
  getRowCol_dec r (by simp only [U32]; omega)

/-- two positions never share a reference, whatever the case of the letters -/
theorem a1_injective (l l' : Bool) (r c r' c' : Nat) (hr : r < 1048576) (hc : c < 16384)
    (hr' : r' < 1048576) (hc' : c' < 16384) (h : refName l r c = refName l' r' c') : r = r' ∧ c = c' := by
  have h1 := a1_roundtrip l r c hr hc
  have h2 := a1_roundtrip l' r' c' hr' hc'
  rw [h, h2] at h1
  injection h1 with h1
  injection h1 with ha hb
  injection hb with hb
  exact ⟨ha.symm, hb.symm⟩

/-- (after ledger D30-a) no byte string makes `get_row_and_optional_column` panic: it returns a position
    or an error. Before the fix, 7 letters or 10 digits overflowed `u32`. -/
theorem a1_no_panic (s : Bytes) : (∃ v, getRowCol s = .ok v) ∨ (∃ e, getRowCol s = .err e) :=
  getRowCol_total s

/-- the `ref` of a `<dimension>`/`<mergeCell>` written for any rectangle of the grid reads back as it -/
theorem dimension_roundtrip (d : Dims) (h1 : d.sr < 1048576) (h2 : d.sc < 16384) (h3 : d.er < 1048576)
    (h4 : d.ec < 16384) : getDimension (dimRef d) = .ok d :=
  getDimension_dimRef d (by simp only [U32]; omega) (by simp only [U32]; omega) (by simp only [U32]; omega)
    (by simp only [U32]; omega)

/-- (after ledger D30-c) `get_dimension` never panics — reversed rectangles included -/
theorem dimension_no_panic (s : Bytes) : (∃ v, getDimension s = .ok v) ∨ (∃ e, getDimension s = .err e) := by
  unfold getDimension
  rcases mapParts_total (splitColon s) with ⟨v, h⟩ | ⟨e, h⟩
  · rw [h]
    match v with
    | [] => exact Or.inr ⟨_, rfl⟩
    | [p] => exact Or.inl ⟨_, rfl⟩
    | [p, q] => exact Or.inl ⟨_, rfl⟩
    | _ :: _ :: _ :: _ => exact Or.inr ⟨_, rfl⟩
  · rw [h]; exact Or.inr ⟨_, rfl⟩

/-! ## error literals -/

/-- the arms of `CellErrorType::from_str` (translated from `/repo/src/xlsx/mod.rs` on every run) are exactly the
    error values of ECMA-376 Part 1 §18.17.3, each mapped to its kind; `documentedErrors` is written from the
    standard, independently of the code -/
theorem error_literals_documented : Gen.xlsxErrorFromStr = documentedErrors := by decide

/-- reading the literal of a kind gives that kind; no other text is an error value -/
theorem error_literal_roundtrip (k : CellErrorType) (hk : k ≠ .gettingData) : parseError (errLiteral k) = some k :=
  parseError_literal k hk

theorem error_literal_only (v : Bytes) (k : CellErrorType) (h : parseError v = some k) : (v, k) ∈ documentedErrors := by
  unfold parseError at h
  rw [error_literals_documented] at h
  cases hf : documentedErrors.find? (fun e => e.1 == v) with
  | none => rw [hf] at h; cases h
  | some e =>
    rw [hf] at h; simp only [Option.map_some, Option.some.injEq] at h
    have hm := List.mem_of_find?_eq_some hf
    have he := List.find?_some hf
    simp only [beq_iff_eq] at he
    subst h; subst he
    exact hm

/-! ## the reader on an encoded sheet -/

/-- **cursor_positions**: for every well-formed logical sheet and *every legal layout* — explicit or implicit row
    and cell references wherever the format allows them, either letter case, prefixes per frame / row / cell, any
    order of the attributes of `<row>` and `<c>` and any inert extra attributes, `<v>`/`<t>` text in pieces, any or
    no `<dimension>`, ignorable sibling elements before and after `<sheetData>`, white space and comments between
    rows and cells, `<f>` before the value — the cells `next_cell` returns are exactly the cells of the sheet, in
    row-major order, each at its position with the value of `expect`. -/
theorem cursor_positions (cfg : Cfg) (s : Sheet) (lay : Layout) (hl : lay.Legal) (hwf : s.WF) (hok : s.ContentOk cfg) :
    readCells cfg (renderSheet s lay) = .ok (lay.dim.getD default, cellsOf cfg s) :=
  readCells_render cfg s lay hl hwf hok

/-- **typing** (the `read_v` table on an encoded cell): under every legal layout a cell with content `c` makes
    the reader return `expect`: blank → `Empty`; number → the number token with the format of its style
    (`t="n"` with empty text → `Empty`); `t="s"` → the `idx`-th shared string; inline and `t="str"` → `String`;
    `t="b"` → `Bool`; `t="e"` → the kind of that literal; `t="d"` → `DateTimeIso` (`Lemmas.expect_table`). -/
theorem typing (cfg : Cfg) (lay : Layout) (hl : lay.Legal) (r c cur : Nat) (cs : CellSpec) (hr : r < 1048576)
    (hc : c < 16384) (hok : cs.content.Ok cfg) (out : List (Nat × Nat × Val)) :
    steps cfg ⟨.rows, r, cur, out⟩ (renderCell lay r c cur cs) = .ok ⟨.rows, r, c + 1, (r, c, expect cfg cs) :: out⟩ :=
  steps_cell cfg lay hl r c cur cs hr hc hok out

/-! ## from the reader's values to `Data`: the documented mapping -/

/-- what the caller sees of a cell is the **documented mapping** `expectData`, stated on the logical cell alone:
    `Data = toData (reader's value)`, with `text.parse::<f64>()` (parameter `env.parse`) and C10's `formatF64` -/
theorem cell_data (env : NumEnv) (cfg : Cfg) (cs : CellSpec)
    (hnum : ∀ t, cs.content = .num t true → t ≠ [] → env.parse t ≠ none) :
    toData env (expect cfg cs) = .ok (expectData env cfg cs) :=
  toData_expect env cfg cs hnum

/-- **shared versus inline versus formula strings**: the same text stored in the shared string table (index `i`,
    `strings[i] = s`), inline (`<is><t>s</t></is>`) or as a formula result (`t="str"`) reads as the same
    `Data.String s` — whatever style or formula the three cells carry -/
theorem xlsx_string_storage_independent (env : NumEnv) (cfg : Cfg) (i : Nat) (s : Bytes)
    (h : cfg.strings[i]? = some s) (st st' st'' f f' f'' : Option Bytes) :
    toData env (expect cfg ⟨.shared i, st, f⟩) = .ok (.string s) ∧
    toData env (expect cfg ⟨.inline s, st', f'⟩) = .ok (.string s) ∧
    toData env (expect cfg ⟨.fstr s, st'', f''⟩) = .ok (.string s) ∧
    expectData env cfg ⟨.shared i, st, f⟩ = expectData env cfg ⟨.inline s, st', f'⟩ ∧
    expectData env cfg ⟨.inline s, st', f'⟩ = expectData env cfg ⟨.fstr s, st'', f''⟩ := by
  simp [expect, expectData, toData, List.getD_eq_getElem?_getD, h]

/-- **numbers**: a numeric cell (text accepted by `f64::from_str`, bits `b`) reads as `DateTime` exactly when the
    format of its style is a date/time or an elapsed-time format, as `Float` otherwise; the value is the parsed
    number itself in all three cases (`formatF64` of C10) -/
theorem numeric_cell_by_style (env : NumEnv) (cfg : Cfg) (t : Bytes) (tn : Bool) (style f : Option Bytes) (b : UInt64)
    (ht : t ≠ []) (hp : env.parse t = some b) :
    expectData env cfg ⟨.num t tn, style, f⟩ = .num (Formats.formatF64 b (some (styleFmt cfg style)) env.is1904) ∧
    (styleFmt cfg style = .other → expectData env cfg ⟨.num t tn, style, f⟩ = .num (.float b)) ∧
    (styleFmt cfg style = .dateTime →
      expectData env cfg ⟨.num t tn, style, f⟩ = .num (.dateTime (.bits b) .dateTime env.is1904)) ∧
    (styleFmt cfg style = .timeDelta →
      expectData env cfg ⟨.num t tn, style, f⟩ = .num (.dateTime (.bits b) .timeDelta env.is1904)) := by
  have h0 : ¬ (tn = true ∧ t = []) := fun h => ht h.2
  refine ⟨?_, ?_, ?_, ?_⟩
  · simp only [expectData, h0, if_false, hp]
    cases styleFmt cfg style <;> rfl
  all_goals
    intro hs
    simp [expectData, h0, hp, hs]

/-- the style attribute written in decimal selects the `i`-th cell format (`Other` past the end of the table) -/
theorem style_index (cfg : Cfg) (i : Nat) (hi : i < 10 ^ 19) :
    styleFmt cfg (some (dec i)) = cfg.formats.getD i .other := by
  simp [styleFmt, atoiUsize_dec i hi]

/-- the class of the format an `<xf>` refers to: a custom definition first (`classify`, the grammar-level class of
    C10), the built-in table otherwise, `Other` when the `numFmtId` attribute is absent -/
def xfClass (defs : List (List UInt8 × NumFmt.Fmt)) : Option (List UInt8) → CellFormat
  | none => .other
  | some id =>
    match Formats.lastDef defs id with
    | some f => NumFmt.classify f
    | none => Formats.builtinById id

/-- composition with C10 (`style_lookup_xlsx`): when the format table is what `read_styles` builds from the
    workbook's custom number formats `defs` and the `numFmtId`s of `<cellXfs>` (`none` = attribute absent), a
    numeric cell with `s="i"` is typed by the class of the format the `i`-th `<xf>` refers to -/
theorem numeric_cell_style_lookup (cfg : Cfg) (defs : List (List UInt8 × NumFmt.Fmt)) (hwf : ∀ d ∈ defs, NumFmt.WF d.2)
    (hne : ∀ d ∈ defs, NumFmt.render d.2 ≠ []) (xfs : List (Option (List UInt8)))
    (hfmt : Formats.xlsxStyles (defs.map fun d => (d.1, NumFmt.render d.2)) xfs = .ok cfg.formats)
    (i : Nat) (hi : i < 10 ^ 19) (xf : Option (List UInt8)) (hxf : xfs[i]? = some xf) :
    styleFmt cfg (some (dec i)) = xfClass defs xf := by
  rw [style_index cfg i hi]
  have := Formats.style_lookup_xlsx defs hwf hne xfs
  rw [hfmt] at this
  injection this with this
  have h2 : cfg.formats = xfs.map (xfClass defs) := by
    rw [this]; apply List.map_congr_left; intro x _; cases x <;> rfl
  rw [h2, List.getD_eq_getElem?_getD, List.getElem?_map, hxf]
  rfl

/-! ## the range -/

/-- **xlsx_range_spec**: `worksheet_range` of an encoded sheet is the tight bounding rectangle of the cells whose
    documented value is not `Empty` (the empty range when there is none); seen through `toData` it holds at every
    stored position the documented value of that cell (`expectData`: Float / DateTime by style, String, Bool,
    Error, DateTimeIso, Empty) and `Empty` everywhere else — for every legal layout. -/
theorem xlsx_range_spec (env : NumEnv) (cfg : Cfg) (s : Sheet) (lay : Layout) (hl : lay.Legal) (hwf : s.WF)
    (hok : s.ContentOk cfg) (hnum : s.NumOk env) :
    let D := dataOf env cfg s
    ((∀ c ∈ D, c.2.2 = .empty) → worksheetRange cfg (renderSheet s lay) = .ok Range.empty) ∧
    ((∃ c ∈ D, c.2.2 ≠ .empty) → ∃ rg, worksheetRange cfg (renderSheet s lay) = .ok rg ∧ rg.inner.length ≠ 0 ∧
      (∀ c ∈ D, c.2.2 ≠ .empty → rg.sr ≤ c.1 ∧ c.1 ≤ rg.er ∧ rg.sc ≤ c.2.1 ∧ c.2.1 ≤ rg.ec) ∧
      (∃ c ∈ D, c.2.2 ≠ .empty ∧ c.1 = rg.sr) ∧ (∃ c ∈ D, c.2.2 ≠ .empty ∧ c.1 = rg.er) ∧
      (∃ c ∈ D, c.2.2 ≠ .empty ∧ c.2.1 = rg.sc) ∧ (∃ c ∈ D, c.2.2 ≠ .empty ∧ c.2.1 = rg.ec) ∧
      (∀ c ∈ D, toData env (rg.valAt c.1 c.2.1) = .ok c.2.2) ∧
      (∀ p q, (∀ c ∈ D, ¬ (c.1 = p ∧ c.2.1 = q)) → toData env (rg.valAt p q) = .ok .empty)) := by
  intro D
  obtain ⟨hv1, hv2⟩ := range_val_spec cfg s lay hl hwf hok
  have link := data_val_link env cfg s hnum
  -- a reader cell and its data cell are empty together
  have hemp : ∀ (c : Nat × Nat × Val) (x : Nat × Nat × Data), toData env c.2.2 = .ok x.2.2 → (x.2.2 = .empty ↔ c.2.2 = .empty) :=
    fun c x h => toData_empty_iff env c.2.2 x.2.2 h
  -- from a reader cell to its data cell
  have fwd : ∀ c ∈ cellsOf cfg s, ∃ x ∈ D, x.1 = c.1 ∧ x.2.1 = c.2.1 ∧ toData env c.2.2 = .ok x.2.2 := by
    intro c hc
    obtain ⟨row, hrow, cell, hcell, rfl⟩ := (mem_cellsOf cfg s c).mp hc
    refine ⟨(row.1, cell.1, expectData env cfg cell.2), (mem_dataOf env cfg s _).mpr ⟨row, hrow, cell, hcell, rfl⟩, rfl, rfl, ?_⟩
    exact toData_expect env cfg cell.2 (fun t ht hne => hnum row hrow cell hcell t ht hne)
  constructor
  · intro h
    apply hv1
    intro c hc
    obtain ⟨x, hx, _, _, h3⟩ := fwd c hc
    exact (hemp c x h3).mp (h x hx)
  · rintro ⟨x0, hx0, hx0ne⟩
    obtain ⟨c0, hc0, _, _, h03⟩ := (link x0).mp hx0
    obtain ⟨rg, hrg, hlen, hbox, a1, a2, a3, a4, hval, hfree⟩ :=
      hv2 ⟨c0, hc0, fun h => hx0ne ((hemp c0 x0 h03).mpr h)⟩
    have back : ∀ c ∈ cellsOf cfg s, c.2.2 ≠ .empty → ∃ x ∈ D, x.2.2 ≠ .empty ∧ x.1 = c.1 ∧ x.2.1 = c.2.1 := by
      intro c hc hne
      obtain ⟨x, hx, e1, e2, h3⟩ := fwd c hc
      exact ⟨x, hx, fun h => hne ((hemp c x h3).mp h), e1, e2⟩
    refine ⟨rg, hrg, hlen, ?_, ?_, ?_, ?_, ?_, ?_, ?_⟩
    · intro x hx hxne
      obtain ⟨c, hc, e1, e2, h3⟩ := (link x).mp hx
      have := hbox c hc (fun h => hxne ((hemp c x h3).mpr h))
      rw [e1, e2] at this; exact this
    · obtain ⟨c, hc, hne, e⟩ := a1
      obtain ⟨x, hx, hxne, e1, _⟩ := back c hc hne
      exact ⟨x, hx, hxne, by rw [e1, e]⟩
    · obtain ⟨c, hc, hne, e⟩ := a2
      obtain ⟨x, hx, hxne, e1, _⟩ := back c hc hne
      exact ⟨x, hx, hxne, by rw [e1, e]⟩
    · obtain ⟨c, hc, hne, e⟩ := a3
      obtain ⟨x, hx, hxne, _, e2⟩ := back c hc hne
      exact ⟨x, hx, hxne, by rw [e2, e]⟩
    · obtain ⟨c, hc, hne, e⟩ := a4
      obtain ⟨x, hx, hxne, _, e2⟩ := back c hc hne
      exact ⟨x, hx, hxne, by rw [e2, e]⟩
    · intro x hx
      obtain ⟨c, hc, e1, e2, h3⟩ := (link x).mp hx
      rw [← e1, ← e2, hval c hc]; exact h3
    · intro p q hfreeD
      rw [hfree p q]
      · rfl
      · intro c hc hpos
        obtain ⟨x, hx, e1, e2, _⟩ := fwd c hc
        exact hfreeD x hx (by rw [e1, e2]; exact hpos)

/-- **xlsx_encoding_independent**: two encodings of the same logical data — different layouts, and different
    *storage* of the cells (shared vs inline vs formula strings, `t="n"` or not, other string tables, other style
    tables selecting formats of the same class, blank cells stored or not …): any two (sheet, configuration, layout)
    triples with the same documented data `dataOf` — read as the same range: same bounds, same `Data` everywhere. -/
theorem xlsx_encoding_independent (env : NumEnv) (cfg cfg' : Cfg) (s s' : Sheet) (lay lay' : Layout)
    (hl : lay.Legal) (hl' : lay'.Legal) (hwf : s.WF) (hwf' : s'.WF) (hok : s.ContentOk cfg) (hok' : s'.ContentOk cfg')
    (hnum : s.NumOk env) (hnum' : s'.NumOk env) (hsame : dataOf env cfg s = dataOf env cfg' s') :
    ∃ rg rg', worksheetRange cfg (renderSheet s lay) = .ok rg ∧ worksheetRange cfg' (renderSheet s' lay') = .ok rg' ∧
      rg.start = rg'.start ∧ rg.end_ = rg'.end_ ∧
      ∀ p q, ∃ d, toData env (rg.valAt p q) = .ok d ∧ toData env (rg'.valAt p q) = .ok d := by
  obtain ⟨e1, n1⟩ := xlsx_range_spec env cfg s lay hl hwf hok hnum
  obtain ⟨e2, n2⟩ := xlsx_range_spec env cfg' s' lay' hl' hwf' hok' hnum'
  rw [← hsame] at e2 n2
  by_cases hany : ∃ c ∈ dataOf env cfg s, c.2.2 ≠ .empty
  · obtain ⟨rg, h1, l1, box1, ⟨a, ha, han, ea⟩, ⟨b, hb, hbn, eb⟩, ⟨c, hc, hcn, ec⟩, ⟨d, hd, hdn, ed⟩, v1, f1⟩ := n1 hany
    obtain ⟨rg', h2, l2, box2, ⟨a', ha', han', ea'⟩, ⟨b', hb', hbn', eb'⟩, ⟨c', hc', hcn', ec'⟩, ⟨d', hd', hdn', ed'⟩, v2, f2⟩ :=
      n2 hany
    -- tight bounding boxes of the same cells coincide
    have hsr : rg.sr = rg'.sr := by
      have := box2 a ha han; have := box1 a' ha' han'; omega
    have her : rg.er = rg'.er := by
      have := box2 b hb hbn; have := box1 b' hb' hbn'; omega
    have hsc : rg.sc = rg'.sc := by
      have := box2 c hc hcn; have := box1 c' hc' hcn'; omega
    have hec : rg.ec = rg'.ec := by
      have := box2 d hd hdn; have := box1 d' hd' hdn'; omega
    refine ⟨rg, rg', h1, h2, by simp [Range.Rng.start, l1, l2, hsr, hsc], by simp [Range.Rng.end_, l1, l2, her, hec], ?_⟩
    intro p q
    by_cases hpq : ∃ x ∈ dataOf env cfg s, x.1 = p ∧ x.2.1 = q
    · obtain ⟨x, hx, rfl, rfl⟩ := hpq
      exact ⟨x.2.2, v1 x hx, v2 x hx⟩
    · have hfree : ∀ x ∈ dataOf env cfg s, ¬ (x.1 = p ∧ x.2.1 = q) := fun x hx h => hpq ⟨x, hx, h⟩
      exact ⟨.empty, f1 p q hfree, f2 p q hfree⟩
  · have hall : ∀ c ∈ dataOf env cfg s, c.2.2 = .empty := by
      intro c hc
      by_cases h : c.2.2 = .empty
      · exact h
      · exact absurd ⟨c, hc, h⟩ hany
    refine ⟨Range.empty, Range.empty, e1 hall, e2 hall, rfl, rfl, fun p q => ⟨.empty, ?_, ?_⟩⟩ <;>
      simp [Range.Rng.valAt, Range.empty, toData] <;> rfl

/-! ## robustness of the modelled reader (C06 overlap; after ledger D30-a/c/d and D39) -/

/-- on *any* event list — malformed references, reversed dimensions, out-of-range shared-string indices,
    unknown cell types, cursors at the `u32` limit — `XlsxCellReader::new` + `next_cell` return cells and then
    `Ok(None)` or an error; they never panic. (`Range::from_sparse` on what they return is C05/C06's.) -/
theorem reader_no_panic (cfg : Cfg) (evs : List Ev) :
    (∃ v, readCells cfg evs = .ok v) ∨ (∃ e, readCells cfg evs = .err e) := by
  unfold readCells
  rcases readerNew_total evs default false with ⟨⟨d, rest⟩, h⟩ | ⟨e, h⟩
  · rw [h]; simp only
    rcases run_total cfg rest initSt with h2 | ⟨e, h2⟩
    · cases hr : run cfg rest initSt with
      | mk cells res =>
        rw [hr] at h2; simp only at h2; subst h2
        exact Or.inl ⟨_, rfl⟩
    · cases hr : run cfg rest initSt with
      | mk cells res =>
        rw [hr] at h2; simp only at h2; subst h2
        exact Or.inr ⟨_, rfl⟩
  · rw [h]; exact Or.inr ⟨_, rfl⟩

/-! ## shared strings -/

/-- **sst_alignment** (after ledger D20, D21): whatever the element prefix, the `i`-th string of the table is
    the text of the `i`-th `<si>` — an item without text (`<si/>`, or phonetic-only) is the empty string and
    does not shift the later indices; rich text is the concatenation of its runs, phonetic runs excluded. -/
theorem sst_alignment (p : Bool) (items : List SstItem) :
    readSharedStrings (renderSst p items) = .ok (items.map SstItem.text) := by
  unfold readSharedStrings renderSst
  simp only [List.append_assoc, List.cons_append, List.nil_append]
  rw [sstLoop]
  simp only [ln_sst, nSst_ne_nSi, if_false]
  rw [sstLoop_items]
  simp [sstLoop]

example : readSharedStrings (renderSst true [.plain [97], .emptyElem, .rich [[98], [], [99]] (some [80]), .rich [] none]) =
    .ok [[97], [], [98, 99], []] := sst_alignment _ _

/-! ## a non-trivial instance of the hypotheses -/

def exCfg : Cfg := ⟨[[104, 105], []], [.other, .dateTime]⟩
/-- rows 1, 10 and 1048576; implicit and explicit references; a blank styled cell; a date-styled number;
    the empty shared string; an inline string in XFD1048576 -/
def exSheet : Sheet :=
  [(0, [(0, ⟨.num [49] false, none, none⟩), (1, ⟨.shared 1, none, none⟩), (26, ⟨.blank, some [49], none⟩)]),
   (9, [(702, ⟨.num [52, 52, 49, 57, 55] true, some [49], some [65, 49]⟩), (703, ⟨.bool true, none, none⟩)]),
   (1048575, [(16383, ⟨.inline [120], none, none⟩)])]
/-- prefix on the frame and on odd rows; `r` omitted where legal; attributes of every `<c>` reversed with an inert
    `cm`, rows with `spans` in front; text cut into single bytes; `<sheetPr>`/`<sheetViews>` before, `<extLst>` after;
    a comment before every row -/
def exLayout : Layout :=
  { pfx := true, rowPfx := fun r => r % 2 == 1, cellPfx := fun _ c => c % 2 == 0, dim := some ⟨5, 5, 6, 6⟩,
    rowExplicit := fun r => r == 9, cellExplicit := fun _ c => c == 1, cellLower := fun _ c => c == 16383,
    cellArrange := fun _ _ a => ([99, 109], [49]) :: a.reverse,
    rowArrange := fun _ a => (asciiBytes "spans", asciiBytes "1:3") :: a,
    split := fun _ _ t => t.map fun b => [b],
    beforeDim := [.start (asciiBytes "sheetPr") [], .stop (asciiBytes "sheetPr")],
    afterDim := [.start (asciiBytes "sheetViews") [], .start (asciiBytes "sheetView") [], .stop (asciiBytes "sheetView"),
                 .stop (asciiBytes "sheetViews")],
    after := [.start (asciiBytes "extLst") [], .start nSheetData [], .stop nSheetData, .stop (asciiBytes "extLst")],
    gapRow := fun _ => [.other], gapCell := fun _ _ => [.text [10, 32]], gapRowEnd := fun _ => [], gapEnd := [.text [10]] }

example : exSheet.WF ∧ exSheet.ContentOk exCfg ∧ exLayout.Legal ∧ exSheet.NumOk ⟨fun t => if t = [49] then some 0x3FF0000000000000 else if t = [52, 52, 49, 57, 55] then some 0x40E594A000000000 else none, true⟩ := by
  refine ⟨⟨by simp [exSheet, Increasing], ?_⟩, ?_, ?_, ?_⟩
  · intro row hrow
    simp only [exSheet, List.mem_cons, List.not_mem_nil, or_false] at hrow
    rcases hrow with rfl | rfl | rfl <;> simp [Increasing]
  · intro row hrow cell hcell
    simp only [exSheet, List.mem_cons, List.not_mem_nil, or_false] at hrow
    rcases hrow with rfl | rfl | rfl <;>
      · simp only [List.mem_cons, List.not_mem_nil, or_false] at hcell
        rcases hcell with rfl | rfl | rfl <;> simp [Content.Ok, exCfg]
  · refine ⟨?_, ?_, ?_, ?_, ?_, ?_⟩
    · intro d hd
      simp only [exLayout, Option.some.injEq] at hd
      subst hd; simp
    · intro r c base k hnd hk
      have hx : ([99, 109] : Bytes) ≠ k := by rcases hk with rfl | rfl | rfl <;> decide
      show getAttr (([99, 109], [49]) :: base.reverse) k = getAttr base k
      rw [getAttr_cons_ne _ _ _ _ hx, getAttr_reverse base k hnd]
    · intro r base _
      exact getAttr_cons_ne _ _ _ _ (by decide)
    · intro r c t
      show (t.map fun b => [b]).flatten = t
      induction t with
      | nil => rfl
      | cons b bs ih => simp [ih]
    · constructor <;>
        · intro ev hev n a he
          simp only [exLayout, List.mem_cons, List.not_mem_nil, or_false] at hev
          rcases hev with rfl | rfl | rfl | rfl <;> (cases he <;> decide)
    · refine ⟨fun r ev hev => ?_, fun r c ev hev => ?_, fun r ev hev => ?_, fun ev hev => ?_⟩
      · simp only [exLayout, List.mem_singleton] at hev; exact Or.inl hev
      · simp only [exLayout, List.mem_singleton] at hev; exact Or.inr ⟨_, hev⟩
      · simp [exLayout] at hev
      · simp only [exLayout, List.mem_singleton] at hev; exact Or.inr ⟨_, hev⟩
  · intro row hrow cell hcell t ht hne
    simp only [exSheet, List.mem_cons, List.not_mem_nil, or_false] at hrow
    rcases hrow with rfl | rfl | rfl <;>
      · simp only [List.mem_cons, List.not_mem_nil, or_false] at hcell
        rcases hcell with rfl | rfl | rfl <;> simp at ht <;> (try (obtain ⟨rfl, _⟩ := ht)) <;> simp

#guard (readCells exCfg (renderSheet exSheet exLayout)) ==
  .ok (⟨5, 5, 6, 6⟩, cellsOf exCfg exSheet)

example : getRowCol (refName true 1048575 16383) = .ok (1048575, some 16383) :=
  a1_roundtrip true 1048575 16383 (by omega) (by omega)
#guard refName true 1048575 16383 == [120, 102, 100, 49, 48, 52, 56, 53, 55, 54]   -- "xfd1048576"

end XlsxCells

/-! ## from the archive to the part of the sheet named `n` (container glue)

    `Model/XlsxContainer.lean`: `read_relationships`, the join in `read_workbook` (C16's `Meta.readWorkbookXlsx`),
    `xml_reader`'s case-insensitive entry lookup, `worksheet_cells_reader`'s lookup by sheet name. `zip` (finding and
    inflating an entry by its exact name) and quick-xml stay trusted. -/

namespace XlsxContainer
open Meta MetaEnc XlsxCells XlsxSheet

/-- `read_relationships` returns a map or an error on every event list (for `Props/C06`) -/
theorem relationships_total (evs : List Meta.Ev) :
    (∃ r, readRelationships evs = .ok r) ∨ (∃ e, readRelationships evs = .err e) :=
  relsLoop_total evs []

/-- the sheet list of `Xlsx::new` is total on every archive: whatever the entry names and the events of the
    relationships and workbook parts, it is a table or an error, never a panic (for `Props/C06`) -/
theorem sheet_table_total {α : Type} (a : Archive α) :
    (∃ t, sheetTable a = .ok t) ∨ (∃ e, sheetTable a = .err e) := by
  unfold sheetTable
  split
  · exact Or.inr ⟨_, rfl⟩
  · rcases relationships_total (a.xml _) with ⟨r, h⟩ | ⟨e, h⟩
    · rw [h]; simp only
      split
      · exact Or.inl ⟨_, rfl⟩
      · rcases readWorkbookXlsx_total r (a.xml _) with ⟨⟨wb, p⟩, h2⟩ | ⟨e, h2⟩
        · rw [h2]; exact Or.inl ⟨_, rfl⟩
        · rw [h2]; exact Or.inr ⟨_, rfl⟩
    · rw [h]; exact Or.inr ⟨_, rfl⟩

/-- opening a sheet by name is total: the content of one entry, or an error (for `Props/C06`) -/
theorem open_sheet_total {α : Type} (a : Archive α) (name : String) :
    (∃ c, openSheet a name = .ok c) ∨ (∃ e, openSheet a name = .err e) := by
  have hentry : (∃ c, openSheetEntry a name = .ok c) ∨ (∃ e, openSheetEntry a name = .err e) := by
    unfold openSheetEntry
    rcases sheet_table_total a with ⟨t, h⟩ | ⟨e, h⟩
    · rw [h]; simp only
      split
      · exact Or.inr ⟨_, rfl⟩
      · split
        · exact Or.inr ⟨_, rfl⟩
        · exact Or.inl ⟨_, rfl⟩
    · rw [h]; exact Or.inr ⟨_, rfl⟩
  unfold openSheet
  rcases hentry with ⟨c, h⟩ | ⟨e, h⟩
  · rw [h]; exact Or.inl ⟨_, rfl⟩
  · rw [h]; exact Or.inr ⟨_, rfl⟩

/-- **relationships_roundtrip**: whatever the element prefix, the order of the attributes and the further
    attributes (`Type`, `TargetMode`, …) of each `<Relationship>`, the map holds every relationship of the part;
    when an id occurs twice the later one wins (`List.lookup` on the reversed file order) -/
theorem relationships_roundtrip (lay : PLayout) (hq : QOkOn ["Relationships", "Relationship"] lay.relQ)
    (ha : ∀ id tg, relAttrs (lay.relAttrsOf id tg) ("", "") = (id, tg)) :
    readRelationships (relsEvents lay) = .ok lay.rels.reverse :=
  readRelationships_package lay hq ha

/-- **sheet_table_package**: for every consistent package and every legal physical layout, `Xlsx::new` lists the
    sheets in document order, each with its name, kind and visibility and with the part path its relationship
    target names: `worksheets/sheet1.xml`, `/xl/worksheets/sheet1.xml` and `xl/worksheets/sheet1.xml` all give
    `xl/worksheets/sheet1.xml` (`partPath`) -/
theorem sheet_table_package {α : Type} [Inhabited α] (sheets : List (PSheet α)) (lay : PLayout) (h : PackageOk sheets lay) :
    sheetTable (archiveOf sheets lay) =
      .ok (sheets.map fun s => (⟨s.x.name, s.x.kind, s.x.vis⟩, partPath s.x.target)) :=
  sheetTable_package sheets lay h

/-- **sheet_part_resolution**: the part opened for the sheet named `n` is the part that holds that sheet's cells —
    whatever the relationship-id spelling and the place of its namespace declaration, the `Target` form, the further
    relationships, the case of the entry names and their order in the archive -/
theorem sheet_part_resolution {α : Type} [Inhabited α] (sheets : List (PSheet α)) (lay : PLayout) (h : PackageOk sheets lay)
    (s : PSheet α) (hs : s ∈ sheets) :
    openSheetEntry (archiveOf sheets lay) s.x.name = .ok s.entry ∧ openSheet (archiveOf sheets lay) s.x.name = .ok s.body :=
  ⟨openSheetEntry_package sheets lay h s hs, openSheet_package sheets lay h s hs⟩

/-- a name that no sheet carries is `WorksheetNotFound` -/
theorem unknown_sheet_name {α : Type} [Inhabited α] (sheets : List (PSheet α)) (lay : PLayout) (h : PackageOk sheets lay)
    (name : String) (hn : ∀ s ∈ sheets, s.x.name ≠ name) :
    openSheet (archiveOf sheets lay) name = .err "WorksheetNotFound" := by
  unfold openSheet openSheetEntry
  rw [sheetTable_package sheets lay h]
  have : (sheets.map fun s => ((⟨s.x.name, s.x.kind, s.x.vis⟩ : Sheet String), partPath s.x.target)).find?
      (fun s => s.1.name == name) = none := by
    rw [List.find?_eq_none]
    intro y hy
    obtain ⟨s, hs, rfl⟩ := List.mem_map.mp hy
    simpa using hn s hs
  simp only [this]

/-- **named_sheet_cells** — "the cells of the part" (C01's reader theorems) are "the cells of the SHEET NAMED n":
    in a package whose sheet `s` stores the logical sheet `S` under the layout `λ`, opening the sheet by its name
    and running the cell reader gives exactly the cells of `S` (`cursor_positions`), and the range of
    `xlsx_range_spec` -/
theorem named_sheet_cells (cfg : Cfg) (sheets : List (PSheet (List XlsxCells.Ev))) (play : PLayout)
    (h : PackageOk sheets play) (s : PSheet (List XlsxCells.Ev)) (hs : s ∈ sheets)
    (S : Sheet) (lay : Layout) (hbody : s.body = renderSheet S lay) (hl : lay.Legal) (hwf : S.WF) (hok : S.ContentOk cfg) :
    (match openSheet (archiveOf sheets play) s.x.name with
      | .ok evs => readCells cfg evs
      | .err e => .err e | .panic e => .panic e | .outOfFuel => .outOfFuel) = .ok (lay.dim.getD default, cellsOf cfg S) ∧
    (match openSheet (archiveOf sheets play) s.x.name with
      | .ok evs => worksheetRange cfg evs
      | .err e => .err e | .panic e => .panic e | .outOfFuel => .outOfFuel) = worksheetRange cfg (renderSheet S lay) := by
  rw [(sheet_part_resolution sheets play h s hs).2, hbody]
  exact ⟨cursor_positions cfg S lay hl hwf hok, rfl⟩

/-! non-trivial instance: two sheets (a hidden one); prefix `x:` in the workbook part, none in the `.rels` part;
    `rel:id` with its namespace declared on `<sheets>`; an absolute and a relative `Target`; a styles relationship
    and a superseded duplicate of `rId2` in between; attributes of `<Relationship>` in the order Type, Target, Id,
    TargetMode; entry names in other letter cases, archive order unrelated to the sheet order -/

def exPLayout : PLayout :=
  { q := fun n => "x:" ++ n, ridKey := "rel:id",
    wbAttrs := [("xmlns:x", "http://schemas.openxmlformats.org/spreadsheetml/2006/main")],
    sheetsAttrs := [("xmlns:rel", "http://schemas.openxmlformats.org/officeDocument/2006/relationships")],
    sheetExtra := fun _ => [("xmlns:q", "urn:other")],
    relQ := id, relRootAttrs := [("xmlns", "http://schemas.openxmlformats.org/package/2006/relationships")],
    relAttrsOf := fun i t => [("Type", "…/worksheet"), ("Target", t), ("Id", i), ("TargetMode", "Internal")],
    rels := [("rId2", "worksheets/old.xml"), ("rId9", "styles.xml"), ("rId2", "/xl/worksheets/sheet2.xml"), ("rId1", "worksheets/sheet1.xml")],
    wbEntry := "xl/Workbook.xml", relsEntry := "XL/_RELS/WORKBOOK.XML.RELS",
    names := ["xl/worksheets/Sheet2.xml", "[Content_Types].xml", "XL/_RELS/WORKBOOK.XML.RELS", "xl/styles.xml",
              "xl/WORKSHEETS/SHEET1.XML", "xl/Workbook.xml"] }

def exS1 : PSheet Nat := ⟨⟨"First", "1", .visible, false, "rId1", "worksheets/sheet1.xml", .workSheet⟩, "xl/WORKSHEETS/SHEET1.XML", 11⟩
def exS2 : PSheet Nat :=
  ⟨⟨"Second & last", "2", .hidden, true, "rId2", "/xl/worksheets/sheet2.xml", .workSheet⟩, "xl/worksheets/Sheet2.xml", 22⟩
def exPSheets : List (PSheet Nat) := [exS1, exS2]

theorem q_x_ok (names : List String) : QOkOn names (fun n => "x:" ++ n) := by
  intro n _
  simp [Meta.localName, Meta.afterColon, String.toList_append]

example : PackageOk exPSheets exPLayout ∧ openSheet (archiveOf exPSheets exPLayout) "Second & last" = .ok 22 := by
  have hok : PackageOk exPSheets exPLayout := by
    refine ⟨q_x_ok _, by intro n hn; simp only [List.mem_cons, List.not_mem_nil, or_false] at hn; rcases hn with rfl | rfl <;> decide,
      ⟨by decide, by decide⟩, ?_, ?_, ?_, ?_, ?_, by decide, by decide, by decide, ?_, by decide, by decide⟩
    · intro s kv hkv
      simp only [exPLayout, List.mem_singleton] at hkv
      subst hkv; exact ⟨by decide, by decide, by decide⟩
    · intro i t; simp [exPLayout, relAttrs]
    · intro s hs
      simp only [exPSheets, List.mem_cons, List.not_mem_nil, or_false] at hs
      rcases hs with rfl | rfl <;> decide
    · intro s hs
      simp only [exPSheets, List.mem_cons, List.not_mem_nil, or_false] at hs
      rcases hs with rfl | rfl <;> decide
    · intro s hs
      simp only [exPSheets, List.mem_cons, List.not_mem_nil, or_false] at hs
      rcases hs with rfl | rfl <;> decide
    · intro s hs
      simp only [exPSheets, List.mem_cons, List.not_mem_nil, or_false] at hs
      rcases hs with rfl | rfl <;> decide
  exact ⟨hok, (sheet_part_resolution exPSheets exPLayout hok exS2 (by simp [exPSheets])).2⟩

end XlsxContainer
