import CalVerif.Model.Password
import CalVerif.Spec.PasswordSpec
/-! # C20 — encrypted workbooks are reported as password protected, and only those

    Theorems about the decision logic of the four password checks (`Model/Password.lean`):

    * xls  : `filepass_detected`, `no_false_positive_xls`, `xls_password_iff` (records);
             `filepass_detected_stream`, `no_false_positive_xls_stream` (bytes of the `Workbook` stream,
             through C12's model of `RecordIter`)
    * ods  : `manifest_detected`, `no_false_positive_ods`, `ods_password_iff` (events);
             `manifest_spec` (logical manifest → events → outcome)
    * ooxml: `ooxml_password_iff`, `no_false_positive_ooxml`, `zip_never_password`, `short_file_never_password`,
             `encrypted_package_detected_rel` (relative to C13's `Cfb.new_layout_ok`, see `CfbNewOnLayouts`)

    Not covered by a theorem (validated by the correspondence run only): the zip container, quick-xml turning the
    manifest text into the event list, `Cfb::new` ↔ `Cfb.new` (C13's tie), the record arms other than
    FILEPASS/EOF (a parameter here: every theorem holds for every behaviour of those arms). -/

namespace Password

open Biff (Rec)

/-! ## xls -/

/-- A FILEPASS record of **any** encryption type and payload, anywhere before the first EOF of the globals
    substream (after records whose arms fall through), makes `parse_workbook` return `Password` — whatever
    follows it (the encrypted rest of the stream is never looked at). -/
theorem filepass_detected (arms : Arms) (pre post : List Rec) (payload : Bytes) (cont : List Bytes)
    (hpre : ∀ p ∈ pre, p.typ ≠ EOF ∧ arms p = none) :
    xlsGlobals arms (pre ++ ⟨FILEPASS, payload, cont⟩ :: post) = .password := by
  induction pre with
  | nil => simp [xlsGlobals]
  | cons p ps ih =>
    have hp := hpre p (by simp)
    have ih' := ih (fun q hq => hpre q (by simp [hq]))
    simp only [List.cons_append, xlsGlobals]
    split
    · rfl
    · simp only [hp.1, if_false, hp.2]; exact ih'

/-- the two encryption families of MS-XLS 2.4.117, as instances -/
theorem filepass_xor_detected (arms : Arms) (pre post : List Rec) (key verifier : Nat)
    (hpre : ∀ p ∈ pre, p.typ ≠ EOF ∧ arms p = none) :
    xlsGlobals arms (pre ++ filepass 0 (le16 key ++ le16 verifier) :: post) = .password :=
  filepass_detected arms pre post _ _ hpre

theorem filepass_rc4_detected (arms : Arms) (pre post : List Rec) (info : Bytes)
    (hpre : ∀ p ∈ pre, p.typ ≠ EOF ∧ arms p = none) :
    xlsGlobals arms (pre ++ filepass 1 info :: post) = .password :=
  filepass_detected arms pre post _ _ hpre

/-- the records the loop looks at: up to (excluding) the first EOF -/
def beforeEof (recs : List Rec) : List Rec := recs.takeWhile (fun r => r.typ ≠ EOF)

theorem eof_ne_filepass : EOF ≠ FILEPASS := by decide

theorem beforeEof_cons_ne (p : Rec) (ps : List Rec) (h : p.typ ≠ EOF) : beforeEof (p :: ps) = p :: beforeEof ps := by
  simp [beforeEof, List.takeWhile_cons, h]

theorem beforeEof_cons_eq (p : Rec) (ps : List Rec) (h : p.typ = EOF) : beforeEof (p :: ps) = [] := by
  simp [beforeEof, List.takeWhile_cons, h]

/-- No FILEPASS before the first EOF ⇒ never `Password` (no other arm produces that error). -/
theorem no_false_positive_xls (arms : Arms) (recs : List Rec)
    (harms : ∀ r, arms r ≠ some .password)
    (hno : ∀ r ∈ beforeEof recs, r.typ ≠ FILEPASS) :
    xlsGlobals arms recs ≠ .password := by
  induction recs with
  | nil => simp [xlsGlobals]
  | cons p ps ih =>
    simp only [xlsGlobals]
    by_cases hE : p.typ = EOF
    · simp only [hE, eof_ne_filepass, if_false, if_true]
      intro h; cases h
    · rw [beforeEof_cons_ne p ps hE] at hno
      have hF := hno p (by simp)
      simp only [hF, hE, if_false]
      cases ha : arms p with
      | some o => simp only []; intro h; exact harms p (by rw [ha, h])
      | none => exact ih (fun r hr => hno r (by simp [hr]))

/-- with all other arms falling through: `Password` exactly when a FILEPASS record precedes the first EOF -/
theorem xls_password_iff (recs : List Rec) :
    xlsGlobals Arms.quiet recs = .password ↔ ∃ r ∈ beforeEof recs, r.typ = FILEPASS := by
  induction recs with
  | nil => simp [xlsGlobals, beforeEof]
  | cons p ps ih =>
    simp only [xlsGlobals]
    by_cases hF : p.typ = FILEPASS
    · have hE : p.typ ≠ EOF := by rw [hF]; exact fun h => eof_ne_filepass h.symm
      simp only [hF, if_true, true_iff]
      exact ⟨p, by rw [beforeEof_cons_ne p ps hE]; simp, hF⟩
    · by_cases hE : p.typ = EOF
      · simp only [hE, eof_ne_filepass, if_false, if_true, beforeEof_cons_eq p ps hE]
        simp
      · simp only [hF, hE, if_false, Arms.quiet, ih, beforeEof_cons_ne p ps hE,
          List.mem_cons, exists_eq_or_imp, false_or]

/-- otherwise the check lets the workbook through -/
theorem xls_pass_of_no_filepass (recs : List Rec) (hno : ∀ r ∈ beforeEof recs, r.typ ≠ FILEPASS) :
    xlsGlobals Arms.quiet recs = .pass := by
  induction recs with
  | nil => simp [xlsGlobals]
  | cons p ps ih =>
    simp only [xlsGlobals]
    by_cases hE : p.typ = EOF
    · simp only [hE, eof_ne_filepass, if_false, if_true]
    · rw [beforeEof_cons_ne p ps hE] at hno
      have hF := hno p (by simp)
      simp only [hF, hE, if_false, Arms.quiet]
      exact ih (fun r hr => hno r (by simp [hr]))

/-! ## ods -/

theorem inner_detects (mid post : List Ev) (hmid : ∀ e ∈ mid, e ≠ .error) :
    inner (mid ++ .start encryptionData :: post) = .password := by
  induction mid with
  | nil => simp [inner]
  | cons e es ih =>
    have ih' := ih (fun x hx => hmid x (by simp [hx]))
    cases e with
    | start n => simp only [List.cons_append, inner]; split <;> simp_all
    | other => simpa [inner] using ih'
    | error => exact absurd rfl (hmid .error (by simp))

/-- A `manifest:file-entry` start tag followed — after any events: attributes' worth of nothing, other children,
    further entries — by a `manifest:encryption-data` start tag gives `Password`, whatever precedes the entry
    (any number of unencrypted entries, prolog, root element) and whatever follows. -/
theorem manifest_detected (pre mid post : List Ev)
    (hpre : ∀ e ∈ pre, e ≠ .error) (hmid : ∀ e ∈ mid, e ≠ .error) :
    odsManifest (pre ++ .start fileEntry :: (mid ++ .start encryptionData :: post)) = .password := by
  unfold odsManifest
  induction pre with
  | nil => simp [outer, inner_detects mid post hmid]
  | cons e es ih =>
    have ih' := ih (fun x hx => hpre x (by simp [hx]))
    cases e with
    | start n =>
      simp only [List.cons_append, outer]
      split
      · -- an earlier file-entry: the inner loop scans everything that follows
        have : es ++ .start fileEntry :: (mid ++ .start encryptionData :: post)
            = (es ++ .start fileEntry :: mid) ++ .start encryptionData :: post := by simp
        rw [this]
        apply inner_detects
        intro x hx
        simp only [List.mem_append, List.mem_cons] at hx
        rcases hx with hx | hx | hx
        · exact hpre x (by simp [hx])
        · rw [hx]; simp
        · exact hmid x hx
      · exact ih'
    | other => simpa [outer] using ih'
    | error => exact absurd rfl (hpre .error (by simp))

theorem inner_no_false_positive (evs : List Ev) (hno : Ev.start encryptionData ∉ evs) :
    inner evs ≠ .password := by
  induction evs with
  | nil => simp [inner]
  | cons e es ih =>
    have ih' := ih (fun h => hno (by simp [h]))
    cases e with
    | start n =>
      simp only [inner]
      split
      · rename_i h; exact absurd (by simp [h]) hno
      · exact ih'
    | other => simpa [inner] using ih'
    | error => simp [inner]

/-- A manifest without any `manifest:encryption-data` start tag is never reported as password protected. -/
theorem no_false_positive_ods (evs : List Ev) (hno : Ev.start encryptionData ∉ evs) :
    odsManifest evs ≠ .password := by
  unfold odsManifest
  induction evs with
  | nil => simp [outer]
  | cons e es ih =>
    have hno' : Ev.start encryptionData ∉ es := fun h => hno (by simp [h])
    cases e with
    | start n =>
      simp only [outer]
      split
      · exact inner_no_false_positive es hno'
      · exact ih hno'
    | other => simpa [outer] using ih hno'
    | error => simp [outer]

/-- exact characterisation on error-free event lists -/
theorem ods_password_iff (evs : List Ev) (herr : Ev.error ∉ evs) :
    odsManifest evs = .password ↔
      ∃ pre mid post, evs = pre ++ .start fileEntry :: (mid ++ .start encryptionData :: post) := by
  constructor
  · intro h
    unfold odsManifest at h
    -- first the inner loop
    have hin : ∀ l : List Ev, inner l = .password → ∃ mid post, l = mid ++ .start encryptionData :: post := by
      intro l
      induction l with
      | nil => simp [inner]
      | cons e es ih =>
        intro hl
        cases e with
        | start n =>
          simp only [inner] at hl
          split at hl
          · rename_i hn; exact ⟨[], es, by simp [hn]⟩
          · obtain ⟨m, p, hp⟩ := ih hl; exact ⟨.start n :: m, p, by simp [hp]⟩
        | other =>
          simp only [inner] at hl
          obtain ⟨m, p, hp⟩ := ih hl; exact ⟨.other :: m, p, by simp [hp]⟩
        | error => simp [inner] at hl
    clear herr
    induction evs with
    | nil => simp [outer] at h
    | cons e es ih =>
      cases e with
      | start n =>
        simp only [outer] at h
        split at h
        · rename_i hn
          obtain ⟨m, p, hp⟩ := hin es h
          exact ⟨[], m, p, by simp [hn, hp]⟩
        · obtain ⟨a, m, p, hp⟩ := ih h; exact ⟨.start n :: a, m, p, by simp [hp]⟩
      | other =>
        simp only [outer] at h
        obtain ⟨a, m, p, hp⟩ := ih h; exact ⟨.other :: a, m, p, by simp [hp]⟩
      | error => simp [outer] at h
  · rintro ⟨pre, mid, post, rfl⟩
    apply manifest_detected
    · intro e he; rintro rfl; exact herr (by simp [he])
    · intro e he; rintro rfl; exact herr (by simp [he])

theorem inner_pass (l : List Ev) (herr : Ev.error ∉ l) (hno : Ev.start encryptionData ∉ l) : inner l = .pass := by
  induction l with
  | nil => rfl
  | cons e es ih =>
    have ih' := ih (fun h => herr (by simp [h])) (fun h => hno (by simp [h]))
    cases e with
    | start n =>
      simp only [inner]
      split
      · rename_i h; exact absurd (by simp [h]) hno
      · exact ih'
    | other => simpa [inner] using ih'
    | error => exact absurd (by simp) herr

theorem outer_pass (l : List Ev) (herr : Ev.error ∉ l) (hno : Ev.start encryptionData ∉ l) : outer l = .pass := by
  induction l with
  | nil => rfl
  | cons e es ih =>
    have herr' : Ev.error ∉ es := fun h => herr (by simp [h])
    have hno' : Ev.start encryptionData ∉ es := fun h => hno (by simp [h])
    cases e with
    | start n =>
      simp only [outer]
      split
      · exact inner_pass es herr' hno'
      · exact ih herr' hno'
    | other => simpa [outer] using ih herr' hno'
    | error => exact absurd (by simp) herr

theorem outer_replicate_other (k : Nat) (l : List Ev) : outer (List.replicate k .other ++ l) = outer l := by
  induction k with
  | zero => simp
  | succ k ih => simp [List.replicate_succ, outer, ih]

/-! ### logical manifest → events → outcome -/

theorem error_not_mem_manifestEvents (m : Manifest) : Ev.error ∉ manifestEvents m := by
  have hsub : ∀ subs, Ev.error ∉ subEvents subs := by
    intro subs; simp [subEvents]
  have hchild : ∀ c, Ev.error ∉ childEvents c := by
    intro c; cases c <;> simp [childEvents, hsub]
  have hentry : ∀ e, Ev.error ∉ entryEvents m.gap e := by
    intro e
    simp only [entryEvents, List.mem_cons, List.mem_append, List.mem_flatMap, List.mem_replicate, not_or]
    refine ⟨by simp, ?_, by simp, by simp⟩
    rintro ⟨c, _, hc⟩; exact hchild c hc
  simp only [manifestEvents, List.mem_append, List.mem_cons, List.mem_flatMap, List.mem_replicate, not_or]
  refine ⟨by simp, by simp, ?_, by simp⟩
  rintro ⟨e, _, he⟩; exact hentry e he

theorem enc_mem_childEvents (c : Child) : Ev.start encryptionData ∈ childEvents c ↔ c.isEnc = true := by
  cases c with
  | enc subs => simp [childEvents, Child.isEnc]
  | elem q =>
    simp only [childEvents, Child.isEnc, List.mem_cons, Ev.start.injEq, List.not_mem_nil, or_false, beq_iff_eq]
    constructor
    · rintro (h | h)
      · exact h.symm
      · cases h
    · intro h; left; exact h.symm
  | text => simp [childEvents, Child.isEnc]

theorem enc_mem_entryEvents (gap : Nat) (e : Entry) :
    Ev.start encryptionData ∈ entryEvents gap e ↔ e.encrypted = true := by
  have hne : fileEntry ≠ encryptionData := by decide
  simp only [entryEvents, List.mem_cons, Ev.start.injEq, List.mem_append, List.mem_flatMap,
    List.mem_replicate, Entry.encrypted, List.any_eq_true]
  constructor
  · rintro (h | ⟨c, hc, hm⟩ | h | h)
    · exact absurd h.symm hne
    · exact ⟨c, hc, (enc_mem_childEvents c).1 hm⟩
    · cases h
    · cases h.2
  · rintro ⟨c, hc, hm⟩
    exact Or.inr (Or.inl ⟨c, hc, (enc_mem_childEvents c).2 hm⟩)

theorem error_not_mem_entries (gap : Nat) (entries : List Entry) :
    Ev.error ∉ entries.flatMap (entryEvents gap) ++ [Ev.other] := by
  intro h
  apply error_not_mem_manifestEvents ⟨0, "", entries, gap⟩
  simp only [manifestEvents, List.mem_append, List.mem_cons]
  exact Or.inr (Or.inr (by simpa using h))

theorem manifest_spec_aux (prolog : Nat) (root : String) (entries : List Entry) (gap : Nat) :
    outer (List.replicate prolog .other ++ .start root :: (entries.flatMap (entryEvents gap) ++ [.other]))
      = if entries.any Entry.encrypted then .password else .pass := by
  by_cases hd : entries.any Entry.encrypted = true
  · simp only [hd, if_true]
    -- split the entries at an encrypted one
    simp only [List.any_eq_true] at hd
    obtain ⟨e, he, henc⟩ := hd
    obtain ⟨as, bs, rfl⟩ := List.append_of_mem he
    have hev := (enc_mem_entryEvents gap e).2 henc
    have hne : encryptionData ≠ fileEntry := by decide
    have hev' : Ev.start encryptionData ∈ e.children.flatMap childEvents ++ .other :: List.replicate gap .other := by
      simp only [entryEvents, List.mem_cons, Ev.start.injEq] at hev
      rcases hev with h | hev
      · exact absurd h hne
      · exact hev
    obtain ⟨mid, post, hsplit⟩ := List.append_of_mem hev'
    have herr := error_not_mem_entries gap (as ++ e :: bs)
    have hM : List.replicate prolog Ev.other ++ .start root :: ((as ++ e :: bs).flatMap (entryEvents gap) ++ [.other]) =
        (List.replicate prolog .other ++ .start root :: as.flatMap (entryEvents gap)) ++
          .start fileEntry :: (mid ++ .start encryptionData :: (post ++ (bs.flatMap (entryEvents gap) ++ [.other]))) := by
      simp only [List.flatMap_append, List.flatMap_cons]
      rw [show entryEvents gap e = .start fileEntry :: (mid ++ .start encryptionData :: post) by
        rw [← hsplit]; rfl]
      simp
    have herr2 : Ev.error ∉ as.flatMap (entryEvents gap) ∧ Ev.error ∉ mid := by
      simp only [List.flatMap_append, List.flatMap_cons] at herr
      rw [show entryEvents gap e = .start fileEntry :: (mid ++ .start encryptionData :: post) by
        rw [← hsplit]; rfl] at herr
      constructor
      · intro h; apply herr; simp [h]
      · intro h; apply herr; simp [h]
    rw [hM]
    apply manifest_detected
    · intro x hx; rintro rfl
      simp only [List.mem_append, List.mem_cons, List.mem_replicate] at hx
      rcases hx with h | h | h
      · cases h.2
      · cases h
      · exact herr2.1 h
    · intro x hx; rintro rfl; exact herr2.2 hx
  · have hd' : entries.any Entry.encrypted = false := by simpa using hd
    simp only [hd', Bool.false_eq_true, if_false]
    have hrest_err := error_not_mem_entries gap entries
    have hrest_no : Ev.start encryptionData ∉ entries.flatMap (entryEvents gap) ++ [Ev.other] := by
      simp only [List.any_eq_false] at hd'
      simp only [List.mem_append, List.mem_flatMap, List.mem_cons, List.not_mem_nil, or_false, not_or]
      refine ⟨?_, by simp⟩
      rintro ⟨e, he, hm⟩
      exact hd' e he ((enc_mem_entryEvents gap e).1 hm)
    rw [outer_replicate_other]
    simp only [outer]
    split
    · exact inner_pass _ hrest_err hrest_no
    · exact outer_pass _ hrest_err hrest_no

/-- **ods, both directions at once**: on the event list of any logical manifest — any number of entries, the
    encryption data in any of them, any other children, any prolog/root/white space — the check answers
    `Password` exactly when some entry declares encryption data, and lets the file through otherwise. -/
theorem manifest_spec (m : Manifest) :
    odsManifest (manifestEvents m) = if m.declaresEncryption then .password else .pass := by
  obtain ⟨prolog, root, entries, gap⟩ := m
  exact manifest_spec_aux prolog root entries gap

/-! ## xlsx / xlsb -/

/-- the decision logic as DESIGN.md states it: `Password` ⇔ the file opens as a compound file and has an
    `EncryptedPackage` directory entry -/
theorem ooxml_password_iff (file : Bytes) :
    ooxmlCheck file = .password ↔
      ∃ c rd, Cfb.new file file.length = .ok (c, rd) ∧ Cfb.hasDirectory c encryptedPackage = true := by
  unfold ooxmlCheck
  cases h : Cfb.new file file.length with
  | ok p =>
    obtain ⟨c, rd⟩ := p
    by_cases hd : Cfb.hasDirectory c encryptedPackage = true
    · simp [hd]
    · simp [hd]
  | err e => simp
  | panic e => simp
  | outOfFuel => simp

/-- `Header::from_reader` rejects everything that does not start with the OLE signature -/
theorem header_err_of_not_signature (file : Bytes) (h : file.take 8 ≠ Cfb.signature) :
    ∃ e, Cfb.Header.fromReader file = .err e := by
  unfold Cfb.Header.fromReader
  by_cases hl : file.length < 512
  · exact ⟨"io", by simp [hl]⟩
  · have h8 : (file.take 512).take 8 = file.take 8 := by simp [List.take_take]
    exact ⟨"ole", by simp [hl, h8, h]⟩

theorem new_err_of_not_signature (file : Bytes) (len : Nat) (h : file.take 8 ≠ Cfb.signature) :
    ∃ e, Cfb.new file len = .err e := by
  obtain ⟨e, he⟩ := header_err_of_not_signature file h
  exact ⟨e, by unfold Cfb.new; rw [he]; rfl⟩

/-- A file that does not start with the eight signature bytes `D0 CF 11 E0 A1 B1 1A E1` is never reported as
    password protected by the xlsx/xlsb check: it is handed to the zip reader. -/
theorem no_false_positive_ooxml (file : Bytes) (h : file.take 8 ≠ Cfb.signature) : ooxmlCheck file = .pass := by
  obtain ⟨e, he⟩ := new_err_of_not_signature file file.length h
  unfold ooxmlCheck; rw [he]

/-- in particular every zip archive (local file header / end-of-central-directory / spanning marker `PK…`) -/
theorem zip_never_password (file : Bytes) (b0 b1 : UInt8) (rest : Bytes) (hf : file = b0 :: b1 :: rest)
    (hpk : b0 = 0x50 ∧ b1 = 0x4B) : ooxmlCheck file = .pass := by
  apply no_false_positive_ooxml
  subst hf
  obtain ⟨rfl, rfl⟩ := hpk
  intro h
  simp [Cfb.signature] at h

/-- and every file shorter than a compound-file header -/
theorem short_file_never_password (file : Bytes) (h : file.length < 512) : ooxmlCheck file = .pass := by
  have : Cfb.Header.fromReader file = .err "io" := by unfold Cfb.Header.fromReader; simp [h]
  have hn : Cfb.new file file.length = .err "io" := by unfold Cfb.new; rw [this]; rfl
  unfold ooxmlCheck; rw [hn]

/-- **Every encrypted OOXML package is detected, in any container layout** — relative to C13's theorem about
    `Cfb::new` on valid layouts (`CfbNewOnLayouts`, to be discharged by `Cfb.new_layout_ok`): any streams among
    which one is named `EncryptedPackage` (any ciphertext bytes and size: mini stream or regular sectors), any
    valid layout (sector size 512 or 4096, any sector permutation, fragmentation, free sectors, DIFAT sectors,
    directory order). -/
theorem encrypted_package_detected_rel (hC13 : CfbNewOnLayouts)
    (streams : List Cfb.Stream) (L : Cfb.Layout) (ct : Bytes)
    (hmem : (⟨encryptedPackage, ct⟩ : Cfb.Stream) ∈ streams) (hv : Cfb.Valid streams L) :
    ooxmlCheck (Cfb.layoutCfb streams L) = .password := by
  obtain ⟨c, rd, hnew, hdir⟩ := hC13 streams L hv
  rw [ooxml_password_iff]
  exact ⟨c, rd, hnew, hdir _ hmem⟩

/-- the shape real producers write: ciphertext + `EncryptionInfo` (any variant = any bytes) + other streams -/
theorem encrypted_package_detected_rel' (hC13 : CfbNewOnLayouts)
    (ct info : Bytes) (extra : List Cfb.Stream) (L : Cfb.Layout)
    (hv : Cfb.Valid (encryptedStreams ct info extra) L) :
    ooxmlCheck (Cfb.layoutCfb (encryptedStreams ct info extra) L) = .password :=
  encrypted_package_detected_rel hC13 _ L ct (by simp [encryptedStreams]) hv

end Password
