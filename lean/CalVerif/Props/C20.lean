import CalVerif.Model.Password
import CalVerif.Spec.PasswordSpec
import CalVerif.Lemmas.Password
import CalVerif.Lemmas.PasswordCfb
/-! # C20 — encrypted workbooks are reported as password protected, and only those

    Theorems about the decision logic of the four password checks (`Model/Password.lean`); helper lemmas are in
    `Lemmas/Password.lean`.

    * xls, records : `filepass_detected` (+ `filepass_xor_detected`, `filepass_rc4_detected`),
                     `no_false_positive_xls`, `xls_password_iff`, `xls_pass_of_no_filepass`
    * xls, stream  : `filepass_detected_stream`, `no_false_positive_xls_stream`, `stream_fuel_suffices`
                     (bytes of the `Workbook` stream, through C12's model of `RecordIter::next`)
    * xls, file    : `xls_file_filepass_detected`, `xls_file_no_false_positive`, `xls_not_a_compound_file`
                     (stated on the outcome of the container stage), `xls_file_filepass_detected_layout`
                     (over every valid container layout, from C13's round-trip)
    * ods          : `manifest_detected`, `no_false_positive_ods`, `ods_password_iff` (event lists),
                     `manifest_spec` (logical manifest → events → outcome, both directions)
    * xlsx / xlsb  : `ooxml_password_iff`, `no_false_positive_ooxml`, `zip_never_password`,
                     `short_file_never_password`; over every valid container layout (C13's encoder `layoutCfb`):
                     `encrypted_package_detected`, `encrypted_streams_detected`, `plain_compound_file_never_password`
                     (from the `_rel` forms + C13's `new_layout_good` / `hasDirectory_layout` / `getStream_layout`,
                     see `Lemmas/PasswordCfb.lean`)

    Not covered by a theorem (validated by the correspondence run only): the zip container, quick-xml turning the
    manifest text into the event list, `Cfb::new` ↔ `Cfb.new` (C13's tie), the record arms other than
    FILEPASS/EOF (a parameter here: every theorem holds for every behaviour of those arms). -/

namespace Password

open Biff (Rec)

/-! ## xls -/

/-- A FILEPASS record of **any** encryption type and payload, anywhere before the first EOF of the globals
    substream (after records whose arms fall through), makes `parse_workbook` return `Password` — whatever
    follows it (the encrypted rest of the stream is never looked at). -/
theorem filepass_detected (arms : Arms) (pre post : List Rec) (payload : Bytes) (cont : List Bytes)
    (hpre : ∀ p ∈ pre, p.typ ≠ EOF ∧ arms p = none) :
    xlsGlobals arms (pre ++ ⟨FILEPASS, payload, cont⟩ :: post) = .password := by
  induction pre with
  | nil => simp [xlsGlobals]
  | cons p ps ih =>
    have hp := hpre p (by simp)
    have ih' := ih (fun q hq => hpre q (by simp [hq]))
    simp only [List.cons_append, xlsGlobals]
    split
    · rfl
    · simp only [hp.1, if_false, hp.2]; exact ih'

/-- the two encryption families of MS-XLS 2.4.117, as instances -/
theorem filepass_xor_detected (arms : Arms) (pre post : List Rec) (key verifier : Nat)
    (hpre : ∀ p ∈ pre, p.typ ≠ EOF ∧ arms p = none) :
    xlsGlobals arms (pre ++ filepass 0 (le16 key ++ le16 verifier) :: post) = .password :=
  filepass_detected arms pre post _ _ hpre

theorem filepass_rc4_detected (arms : Arms) (pre post : List Rec) (info : Bytes)
    (hpre : ∀ p ∈ pre, p.typ ≠ EOF ∧ arms p = none) :
    xlsGlobals arms (pre ++ filepass 1 info :: post) = .password :=
  filepass_detected arms pre post _ _ hpre

/-- No FILEPASS before the first EOF ⇒ never `Password` (no other arm produces that error). -/
theorem no_false_positive_xls (arms : Arms) (recs : List Rec)
    (harms : ∀ r, arms r ≠ some .password)
    (hno : ∀ r ∈ beforeEof recs, r.typ ≠ FILEPASS) :
    xlsGlobals arms recs ≠ .password := by
  induction recs with
  | nil => simp [xlsGlobals]
  | cons p ps ih =>
    simp only [xlsGlobals]
    by_cases hE : p.typ = EOF
    · simp only [hE, eof_ne_filepass, if_false, if_true]
      intro h; cases h
    · rw [beforeEof_cons_ne p ps hE] at hno
      have hF := hno p (by simp)
      simp only [hF, hE, if_false]
      cases ha : arms p with
      | some o => simp only []; intro h; exact harms p (by rw [ha, h])
      | none => exact ih (fun r hr => hno r (by simp [hr]))

/-- with all other arms falling through: `Password` exactly when a FILEPASS record precedes the first EOF -/
theorem xls_password_iff (recs : List Rec) :
    xlsGlobals Arms.quiet recs = .password ↔ ∃ r ∈ beforeEof recs, r.typ = FILEPASS := by
  induction recs with
  | nil => simp [xlsGlobals, beforeEof]
  | cons p ps ih =>
    simp only [xlsGlobals]
    by_cases hF : p.typ = FILEPASS
    · have hE : p.typ ≠ EOF := by rw [hF]; exact fun h => eof_ne_filepass h.symm
      simp only [hF, if_true, true_iff]
      exact ⟨p, by rw [beforeEof_cons_ne p ps hE]; simp, hF⟩
    · by_cases hE : p.typ = EOF
      · simp only [hE, eof_ne_filepass, if_false, if_true, beforeEof_cons_eq p ps hE]
        simp
      · simp only [hF, hE, if_false, Arms.quiet, ih, beforeEof_cons_ne p ps hE,
          List.mem_cons, exists_eq_or_imp, false_or]

/-- otherwise the check lets the workbook through -/
theorem xls_pass_of_no_filepass (recs : List Rec) (hno : ∀ r ∈ beforeEof recs, r.typ ≠ FILEPASS) :
    xlsGlobals Arms.quiet recs = .pass := by
  induction recs with
  | nil => simp [xlsGlobals]
  | cons p ps ih =>
    simp only [xlsGlobals]
    by_cases hE : p.typ = EOF
    · simp only [hE, eof_ne_filepass, if_false, if_true]
    · rw [beforeEof_cons_ne p ps hE] at hno
      have hF := hno p (by simp)
      simp only [hF, hE, if_false, Arms.quiet]
      exact ih (fun r hr => hno r (by simp [hr]))

/-! ### the same on the bytes of the `Workbook` stream -/

/-- **FILEPASS is detected on the stream bytes.** The globals substream starts with the framing of any records
    whose arms fall through and that are not EOF (BOF, WriteProtect, InterfaceHdr, CodePage …), then a FILEPASS
    record with **any** payload (any `wEncryptionType`, any length below 2^16, even none), then **arbitrary
    bytes** `tail` — the encrypted remainder of the file — subject only to not starting with a CONTINUE header
    (which `RecordIter` would glue to the FILEPASS record). The loop returns `Password` without looking at `tail`. -/
theorem filepass_detected_stream (arms : Arms) (pre : List Rec) (payload tail : Bytes) (fuel : Nat)
    (hpre : ∀ p ∈ pre, Plain p ∧ p.typ ≠ EOF ∧ arms p = none)
    (hpay : payload.length < 65536) (htail : NoContHead tail) (hfuel : pre.length + 1 < fuel) :
    xlsGlobalsStream arms fuel (frameAll pre ++ frame1 FILEPASS payload ++ tail) = .password := by
  have hfa : frameAll pre ++ frame1 FILEPASS payload = frameAll (pre ++ [⟨FILEPASS, payload, []⟩]) := by
    simp [frameAll]
  have hplain : ∀ r ∈ pre ++ [(⟨FILEPASS, payload, []⟩ : Rec)], Plain r := by
    intro r hr
    simp only [List.mem_append, List.mem_singleton] at hr
    rcases hr with hr | rfl
    · exact (hpre r hr).1
    · exact ⟨by simp [FILEPASS], by simp [FILEPASS], hpay, rfl⟩
  rw [hfa, stream_eq_records arms _ tail fuel hplain htail
    (Or.inl ⟨⟨FILEPASS, payload, []⟩, by simp, Or.inr rfl⟩) (by simp; omega)]
  exact filepass_detected arms pre [] payload [] (fun p hp => (hpre p hp).2)

/-- **No false positive on the stream bytes**: a well-framed globals substream (plain records, terminated by an EOF
    record or by the end of the stream) without a FILEPASS record before its first EOF is never `Password`. -/
theorem no_false_positive_xls_stream (arms : Arms) (recs : List Rec) (tail : Bytes) (fuel : Nat)
    (harms : ∀ r, arms r ≠ some .password)
    (hplain : ∀ r ∈ recs, Plain r) (htail : NoContHead tail)
    (hend : (∃ r ∈ recs, r.typ = EOF) ∨ tail = []) (hfuel : recs.length < fuel)
    (hno : ∀ r ∈ beforeEof recs, r.typ ≠ FILEPASS) :
    xlsGlobalsStream arms fuel (frameAll recs ++ tail) ≠ .password := by
  rw [stream_eq_records arms recs tail fuel hplain htail
    (hend.imp (fun ⟨r, hr, he⟩ => ⟨r, hr, Or.inl he⟩) id) hfuel]
  exact no_false_positive_xls arms recs harms hno

/-- the fuel the driver uses (`stream.length + 1`) is enough for every framing of plain records -/
theorem stream_fuel_suffices (recs : List Rec) (tail : Bytes) :
    recs.length < (frameAll recs ++ tail).length + 1 := by
  induction recs with
  | nil => simp [frameAll]
  | cons r rs ih =>
    rw [frameAll_cons]
    simp only [List.length_append, List.length_cons, frame1, le16_length] at ih ⊢
    omega

/-! ### … and on the bytes of the file -/

/-- **End to end for xls**, stated on the outcome of the container stage (which is what C13's round-trip theorem
    provides for every valid layout): if the compound file opens, has no VBA project storage, and its `Workbook`
    stream reads back as `frameAll pre ++ FILEPASS ++ tail`, then `Xls::new` returns `Password`. -/
theorem xls_file_filepass_detected (arms : Arms) (file : Bytes) (c c' : Cfb.CfbSt) (rd rd' : Bytes)
    (pre : List Rec) (payload tail : Bytes)
    (hnew : Cfb.new file file.length = .ok (c, rd))
    (hvba : Cfb.hasDirectory c vbaName = false)
    (hget : Cfb.getStream c workbookName rd = .ok (frameAll pre ++ frame1 FILEPASS payload ++ tail, c', rd'))
    (hpre : ∀ p ∈ pre, Plain p ∧ p.typ ≠ EOF ∧ arms p = none)
    (hpay : payload.length < 65536) (htail : NoContHead tail) :
    xlsOpen arms file = .password := by
  unfold xlsOpen
  simp only [hnew, hvba, Bool.false_eq_true, if_false, workbookStream, hget]
  apply filepass_detected_stream arms pre payload tail _ hpre hpay htail
  have := stream_fuel_suffices (pre ++ [⟨FILEPASS, payload, []⟩]) tail
  have hfa : frameAll (pre ++ [(⟨FILEPASS, payload, []⟩ : Rec)]) = frameAll pre ++ frame1 FILEPASS payload := by
    simp [frameAll]
  rw [hfa] at this
  simpa using this

/-- the same over container layouts, relative to C13's round-trip (`CfbReadsLayouts`): a `Workbook` stream carrying a
    FILEPASS record, next to any other streams (except a VBA project), in **any** valid layout -/
theorem xls_file_filepass_detected_rel (hC13 : CfbReadsLayouts) (arms : Arms)
    (streams : List Cfb.Stream) (L : Cfb.Layout) (pre : List Rec) (payload tail : Bytes)
    (hv : Cfb.Valid streams L)
    (hwb : (⟨workbookName, frameAll pre ++ frame1 FILEPASS payload ++ tail⟩ : Cfb.Stream) ∈ streams)
    (hvba : ∀ s ∈ streams, s.name ≠ vbaName)
    (hpre : ∀ p ∈ pre, Plain p ∧ p.typ ≠ EOF ∧ arms p = none)
    (hpay : payload.length < 65536) (htail : NoContHead tail) :
    xlsOpen arms (Cfb.layoutCfb streams L) = .password := by
  obtain ⟨c, rd, hnew, hdir, hget⟩ := hC13 streams L hv
  obtain ⟨c', rd', hg⟩ := hget _ hwb
  have hnov : Cfb.hasDirectory c vbaName = false := by
    cases h : Cfb.hasDirectory c vbaName with
    | false => rfl
    | true =>
      rcases hdir vbaName h with h1 | h1 | ⟨s, hs, hn⟩
      · exact absurd h1 (by decide)
      · exact absurd h1 (by decide)
      · exact absurd hn (hvba s hs)
  exact xls_file_filepass_detected arms _ c c' rd rd' pre payload tail hnew hnov hg hpre hpay htail

/-- conversely: a compound file whose `Workbook` stream is a well-framed globals substream without FILEPASS before
    its first EOF is never reported as password protected by `Xls::new` (nor is anything that fails earlier). -/
theorem xls_file_no_false_positive (arms : Arms) (file : Bytes) (c c' : Cfb.CfbSt) (rd rd' : Bytes)
    (recs : List Rec) (tail : Bytes)
    (hnew : Cfb.new file file.length = .ok (c, rd))
    (hget : Cfb.getStream c workbookName rd = .ok (frameAll recs ++ tail, c', rd'))
    (harms : ∀ r, arms r ≠ some .password)
    (hplain : ∀ r ∈ recs, Plain r) (htail : NoContHead tail)
    (hend : (∃ r ∈ recs, r.typ = EOF) ∨ tail = [])
    (hno : ∀ r ∈ beforeEof recs, r.typ ≠ FILEPASS) :
    xlsOpen arms file ≠ .password := by
  unfold xlsOpen
  simp only [hnew, workbookStream, hget]
  split
  · intro h; cases h
  · exact no_false_positive_xls_stream arms recs tail _ harms hplain htail hend (stream_fuel_suffices recs tail) hno

theorem xls_not_a_compound_file (arms : Arms) (file : Bytes) (e : String)
    (h : Cfb.new file file.length = .err e) : xlsOpen arms file = .err ("cfb:" ++ e) := by
  unfold xlsOpen; rw [h]

/-- the options of `Xls::new_with_options` do not change the verdict: with any code page the reader knows (forced or
    not) and any header row, the outcome is that of `Xls::new` — in particular `Password` for every workbook the
    theorems above cover — and a forced code page the reader does not know is rejected before the records are looked
    at, the same for encrypted and plain workbooks (so never `Password`) -/
theorem xls_options_irrelevant (arms : Arms) (file : Bytes) : xlsOpenWith true arms file = xlsOpen arms file := by
  unfold xlsOpenWith xlsOpen
  cases Cfb.new file file.length with
  | ok p =>
    obtain ⟨c, rd⟩ := p
    simp only []
    split
    · rfl
    · cases workbookStream c rd <;> simp
  | err e => rfl
  | panic e => rfl
  | outOfFuel => rfl

theorem xls_unknown_codepage_never_password (arms : Arms) (file : Bytes) : xlsOpenWith false arms file ≠ .password := by
  unfold xlsOpenWith
  cases Cfb.new file file.length with
  | ok p =>
    obtain ⟨c, rd⟩ := p
    simp only []
    split
    · intro h; cases h
    · cases workbookStream c rd <;> simp
  | err e => intro h; cases h
  | panic e => intro h; cases h
  | outOfFuel => intro h; cases h

/-! ## ods -/

/-- A `manifest:file-entry` start tag followed — after any events: attributes' worth of nothing, other children,
    further entries — by a `manifest:encryption-data` start tag gives `Password`, whatever precedes the entry
    (any number of unencrypted entries, prolog, root element) and whatever follows. -/
theorem manifest_detected (pre mid post : List Ev)
    (hpre : ∀ e ∈ pre, e ≠ .error) (hmid : ∀ e ∈ mid, e ≠ .error) :
    odsManifest (pre ++ .start fileEntry :: (mid ++ .start encryptionData :: post)) = .password :=
  outer_detects pre mid post hpre hmid

/-- A manifest without any `manifest:encryption-data` start tag is never reported as password protected. -/
theorem no_false_positive_ods (evs : List Ev) (hno : Ev.start encryptionData ∉ evs) :
    odsManifest evs ≠ .password := by
  unfold odsManifest
  induction evs with
  | nil => simp [outer]
  | cons e es ih =>
    have hno' : Ev.start encryptionData ∉ es := fun h => hno (by simp [h])
    cases e with
    | start n =>
      simp only [outer]
      split
      · exact inner_no_false_positive es hno'
      · exact ih hno'
    | other => simpa [outer] using ih hno'
    | error => simp [outer]

/-- exact characterisation on error-free event lists -/
theorem ods_password_iff (evs : List Ev) (herr : Ev.error ∉ evs) :
    odsManifest evs = .password ↔
      ∃ pre mid post, evs = pre ++ .start fileEntry :: (mid ++ .start encryptionData :: post) := by
  constructor
  · intro h
    unfold odsManifest at h
    -- first the inner loop
    have hin : ∀ l : List Ev, inner l = .password → ∃ mid post, l = mid ++ .start encryptionData :: post := by
      intro l
      induction l with
      | nil => simp [inner]
      | cons e es ih =>
        intro hl
        cases e with
        | start n =>
          simp only [inner] at hl
          split at hl
          · rename_i hn; exact ⟨[], es, by simp [hn]⟩
          · obtain ⟨m, p, hp⟩ := ih hl; exact ⟨.start n :: m, p, by simp [hp]⟩
        | other =>
          simp only [inner] at hl
          obtain ⟨m, p, hp⟩ := ih hl; exact ⟨.other :: m, p, by simp [hp]⟩
        | error => simp [inner] at hl
    clear herr
    induction evs with
    | nil => simp [outer] at h
    | cons e es ih =>
      cases e with
      | start n =>
        simp only [outer] at h
        split at h
        · rename_i hn
          obtain ⟨m, p, hp⟩ := hin es h
          exact ⟨[], m, p, by simp [hn, hp]⟩
        · obtain ⟨a, m, p, hp⟩ := ih h; exact ⟨.start n :: a, m, p, by simp [hp]⟩
      | other =>
        simp only [outer] at h
        obtain ⟨a, m, p, hp⟩ := ih h; exact ⟨.other :: a, m, p, by simp [hp]⟩
      | error => simp [outer] at h
  · rintro ⟨pre, mid, post, rfl⟩
    apply manifest_detected
    · intro e he; rintro rfl; exact herr (by simp [he])
    · intro e he; rintro rfl; exact herr (by simp [he])

/-! ### logical manifest → events → outcome -/

/-- **ods, both directions at once**: on the event list of any logical manifest — any number of entries, the
    encryption data in any of them, any other children, any prolog/root/white space — the check answers
    `Password` exactly when some entry declares encryption data, and lets the file through otherwise. -/
theorem manifest_spec (m : Manifest) :
    odsManifest (manifestEvents m) = if m.declaresEncryption then .password else .pass := by
  obtain ⟨prolog, root, entries, gap⟩ := m
  exact manifest_spec_aux prolog root entries gap

/-! ## xlsx / xlsb -/

/-- the decision logic as DESIGN.md states it: `Password` ⇔ the file opens as a compound file and has an
    `EncryptedPackage` directory entry -/
theorem ooxml_password_iff (file : Bytes) :
    ooxmlCheck file = .password ↔
      ∃ c rd, Cfb.new file file.length = .ok (c, rd) ∧ Cfb.hasDirectory c encryptedPackage = true := by
  unfold ooxmlCheck
  cases h : Cfb.new file file.length with
  | ok p =>
    obtain ⟨c, rd⟩ := p
    by_cases hd : Cfb.hasDirectory c encryptedPackage = true
    · simp [hd]
    · simp [hd]
  | err e => simp
  | panic e => simp
  | outOfFuel => simp

/-- A file that does not start with the eight signature bytes `D0 CF 11 E0 A1 B1 1A E1` is never reported as
    password protected by the xlsx/xlsb check: it is handed to the zip reader. -/
theorem no_false_positive_ooxml (file : Bytes) (h : file.take 8 ≠ Cfb.signature) : ooxmlCheck file = .pass := by
  obtain ⟨e, he⟩ := new_err_of_not_signature file file.length h
  unfold ooxmlCheck; rw [he]

/-- in particular every zip archive (local file header / end-of-central-directory / spanning marker `PK…`) -/
theorem zip_never_password (file : Bytes) (b0 b1 : UInt8) (rest : Bytes) (hf : file = b0 :: b1 :: rest)
    (hpk : b0 = 0x50 ∧ b1 = 0x4B) : ooxmlCheck file = .pass := by
  apply no_false_positive_ooxml
  subst hf
  obtain ⟨rfl, rfl⟩ := hpk
  intro h
  simp [Cfb.signature] at h

/-- and every file shorter than a compound-file header -/
theorem short_file_never_password (file : Bytes) (h : file.length < 512) : ooxmlCheck file = .pass := by
  have : Cfb.Header.fromReader file = .err "io" := by unfold Cfb.Header.fromReader; simp [h]
  have hn : Cfb.new file file.length = .err "io" := by unfold Cfb.new; rw [this]; rfl
  unfold ooxmlCheck; rw [hn]

/-- **Every encrypted OOXML package is detected, in any container layout** — relative to C13's theorem about
    `Cfb::new` on valid layouts (`CfbNewOnLayouts`, to be discharged by `Cfb.new_layout_ok`): any streams among
    which one is named `EncryptedPackage` (any ciphertext bytes and size: mini stream or regular sectors), any
    valid layout (sector size 512 or 4096, any sector permutation, fragmentation, free sectors, DIFAT sectors,
    directory order). -/
theorem encrypted_package_detected_rel (hC13 : CfbNewOnLayouts)
    (streams : List Cfb.Stream) (L : Cfb.Layout) (ct : Bytes)
    (hmem : (⟨encryptedPackage, ct⟩ : Cfb.Stream) ∈ streams) (hv : Cfb.Valid streams L) :
    ooxmlCheck (Cfb.layoutCfb streams L) = .password := by
  obtain ⟨c, rd, hnew, hdir⟩ := hC13 streams L hv
  rw [ooxml_password_iff]
  exact ⟨c, rd, hnew, hdir _ hmem⟩

/-- the shape real producers write: ciphertext + `EncryptionInfo` (any variant = any bytes) + other streams -/
theorem encrypted_streams_detected_rel (hC13 : CfbNewOnLayouts)
    (ct info : Bytes) (extra : List Cfb.Stream) (L : Cfb.Layout)
    (hv : Cfb.Valid (encryptedStreams ct info extra) L) :
    ooxmlCheck (Cfb.layoutCfb (encryptedStreams ct info extra) L) = .password :=
  encrypted_package_detected_rel hC13 _ L ct (by simp [encryptedStreams]) hv

/-! ### … discharged with C13's round-trip theorems: unconditional statements over all valid layouts -/

/-- **Every encrypted OOXML package is detected, in any container layout**: for all streams among which one is named
    `EncryptedPackage` (any cipher-text bytes and size — mini stream or regular sectors — any `EncryptionInfo`
    variant, any further streams) and every valid layout (sector size 512 or 4096, any sector permutation and
    fragmentation, free sectors, any number of FAT and DIFAT sectors, any directory order with unused entries, any
    mini-sector allocation, any padding) the xlsx/xlsb check answers `Password`. -/
theorem encrypted_package_detected (streams : List Cfb.Stream) (L : Cfb.Layout) (ct : Bytes)
    (hmem : (⟨encryptedPackage, ct⟩ : Cfb.Stream) ∈ streams) (hv : Cfb.Valid streams L) :
    ooxmlCheck (Cfb.layoutCfb streams L) = .password :=
  encrypted_package_detected_rel cfbNewOnLayouts streams L ct hmem hv

theorem encrypted_streams_detected (ct info : Bytes) (extra : List Cfb.Stream) (L : Cfb.Layout)
    (hv : Cfb.Valid (encryptedStreams ct info extra) L) :
    ooxmlCheck (Cfb.layoutCfb (encryptedStreams ct info extra) L) = .password :=
  encrypted_streams_detected_rel cfbNewOnLayouts ct info extra L hv

/-- conversely, a compound file (any valid layout) none of whose streams is named `EncryptedPackage` — an xls
    workbook, a VBA project, an encrypted package under a differently spelled name — is handed to the zip reader -/
theorem plain_compound_file_never_password (streams : List Cfb.Stream) (L : Cfb.Layout)
    (hno : ∀ s ∈ streams, s.name ≠ encryptedPackage) (hv : Cfb.Valid streams L) :
    ooxmlCheck (Cfb.layoutCfb streams L) = .pass := by
  obtain ⟨c, rd, hnew, hdir, _⟩ := cfbReadsLayouts streams L hv
  unfold ooxmlCheck
  rw [hnew]
  cases h : Cfb.hasDirectory c encryptedPackage with
  | false => simp [h]
  | true =>
    rcases hdir _ h with h1 | h1 | ⟨s, hs, hn⟩
    · exact absurd h1 (by decide)
    · exact absurd h1 (by decide)
    · exact absurd hn (hno s hs)

/-- **End to end for xls, over all container layouts**: a `Workbook` stream whose globals carry a FILEPASS record,
    next to any other streams except a VBA project, in any valid layout, makes `Xls::new` return `Password`. -/
theorem xls_file_filepass_detected_layout (arms : Arms)
    (streams : List Cfb.Stream) (L : Cfb.Layout) (pre : List Rec) (payload tail : Bytes)
    (hv : Cfb.Valid streams L)
    (hwb : (⟨workbookName, frameAll pre ++ frame1 FILEPASS payload ++ tail⟩ : Cfb.Stream) ∈ streams)
    (hvba : ∀ s ∈ streams, s.name ≠ vbaName)
    (hpre : ∀ p ∈ pre, Plain p ∧ p.typ ≠ EOF ∧ arms p = none)
    (hpay : payload.length < 65536) (htail : NoContHead tail) :
    xlsOpen arms (Cfb.layoutCfb streams L) = .password :=
  xls_file_filepass_detected_rel cfbReadsLayouts arms streams L pre payload tail hv hwb hvba hpre hpay htail

/-! ## non-vacuity: concrete instances meeting the hypotheses -/

/-- BOF, WriteProtect, then FILEPASS of XOR type (key 0x1234, verifier 0xABCD), then six bytes of cipher text that do
    not even frame as a record: the hypotheses of `filepass_detected_stream` hold and it yields `Password` -/
example :
    xlsGlobalsStream Arms.quiet 10
      (frameAll [⟨0x0809, [0, 6, 5, 0], []⟩, ⟨0x0086, [], []⟩] ++ frame1 FILEPASS [0, 0, 0x34, 0x12, 0xCD, 0xAB]
        ++ [0x42, 0, 9, 0, 0x99, 0x77]) = .password :=
  filepass_detected_stream Arms.quiet _ _ _ 10 (by decide) (by decide) (by simp [NoContHead, Biff.u16]) (by decide)

/-- the same workbook without the FILEPASS record (CodePage, then EOF) is let through -/
example :
    xlsGlobalsStream Arms.quiet 10
      (frameAll [⟨0x0809, [0, 6, 5, 0], []⟩, ⟨0x0042, [0xB0, 4], []⟩, ⟨EOF, [], []⟩] ++ [9, 8, 7]) ≠ .password :=
  no_false_positive_xls_stream Arms.quiet _ _ 10 (by simp [Arms.quiet]) (by decide) (by simp [NoContHead])
    (Or.inl ⟨⟨EOF, [], []⟩, by simp, rfl⟩) (by decide) (by decide)

/-- FILEPASS of RC4 type after three other records at the record level; an arm that fails *after* it is irrelevant -/
example :
    xlsGlobals (fun r => if r.typ = 0x00FC then some (.err "sst") else none)
      ([⟨0x0809, [], []⟩, ⟨0x00E1, [0xB0, 4], []⟩, ⟨0x00C1, [0, 0], []⟩] ++ filepass 1 [1, 0, 1, 0] :: [⟨0x00FC, [], []⟩])
      = .password :=
  filepass_rc4_detected _ _ _ _ (by decide)

/-- a manifest with three entries, the second one encrypted (and a decoy element in the first) -/
def exManifest : Manifest :=
  { prolog := 1, root := "manifest:manifest", gap := 1,
    entries := [⟨[.elem "manifest:encryption-dat"]⟩,
                ⟨[.text, .enc ["manifest:algorithm", "manifest:key-derivation"], .elem "loext:x"]⟩,
                ⟨[]⟩] }

example : odsManifest (manifestEvents exManifest) = .password := by rw [manifest_spec]; rfl
example : odsManifest (manifestEvents { exManifest with entries := [⟨[.elem "manifest:encryption-dat"]⟩, ⟨[]⟩] }) = .pass := by
  rw [manifest_spec]; rfl

/-- a zip local-file header is never taken for an encrypted package -/
example : ooxmlCheck [0x50, 0x4B, 3, 4, 20, 0, 0, 0, 8, 0] = .pass :=
  zip_never_password _ 0x50 0x4B _ rfl ⟨rfl, rfl⟩

/-- an encrypted package (8 bytes of cipher text, an agile `EncryptionInfo` header) in a valid version-3 layout:
    the hypothesis `Valid` of `encrypted_package_detected_rel` is satisfiable, and on this instance the conclusion
    holds outright (kernel evaluation of the model on the 2560 bytes of the file), without C13's theorem -/
def exStreams : List Cfb.Stream := encryptedStreams [1, 2, 3, 4, 5, 6, 7, 8] [4, 0, 4, 0] []
def exLayout : Cfb.Layout :=
  { v4 := false
    main := ⟨#[.fat 0, .data 0 0, .data 1 0, .data 2 0], #[#[1], #[2], #[3], #[], #[]]⟩
    fatIds := #[0]
    difIds := #[]
    mini := ⟨#[.data 0 0, .data 1 0], #[#[0], #[1]]⟩
    dirOrder := [some 1, none, some 0]
    fill := 0 }

example : Cfb.Valid exStreams exLayout := by decide +kernel
example : ooxmlCheck (Cfb.layoutCfb exStreams exLayout) = .password := by decide +kernel

end Password
