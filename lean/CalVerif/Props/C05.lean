import CalVerif.Lemmas.Range
import CalVerif.Lemmas.RangeIter
/-! # C05 — Range stays a consistent rectangle under every sequence of operations
    Property theorems only (helper lemmas live in `Lemmas/Range.lean`). -/
namespace Range
set_option linter.unusedSectionVars false
variable {α : Type} [Inhabited α]

/-! ## one-step invariant preservation -/

theorem inv_empty : Inv (empty : Rng α) := by
  constructor <;> simp [empty, Rng.height, Rng.width]

theorem inv_new (sr sc er ec : Nat) (r : Rng α) (h : new sr sc er ec = .ok r) :
    Inv r ∧ r.inner.length ≠ 0 ∧ r.sr = sr ∧ r.sc = sc ∧ r.er = er ∧ r.ec = ec := by
  unfold new at h
  split at h; · cases h
  split at h; · cases h
  split at h; · cases h
  split at h; · cases h
  rename_i h1 h2 _ _
  injection h with h; subst h
  have ho1 : sr ≤ er := by omega
  have ho2 : sc ≤ ec := by omega
  refine ⟨mkInv _ _ _ _ _ ho1 ho2 (by simp), ?_, rfl, rfl, rfl, rfl⟩
  simp only [List.length_replicate]
  exact Nat.ne_of_gt (Nat.mul_pos (by omega) (by omega))

theorem inv_grow (r : Rng α) (row col : Nat) (hi : Inv r) (hne : r.inner.length ≠ 0)
    (hpre : r.sr ≤ row ∧ r.sc ≤ col) :
    Inv (grow r row col) ∧ (grow r row col).inner.length ≠ 0 ∧ (grow r row col).sr = r.sr ∧
    (grow r row col).sc = r.sc ∧ (grow r row col).er = max r.er row ∧ (grow r row col).ec = max r.ec col := by
  obtain ⟨hord1, hord2⟩ := hi.ord hne
  have hw : r.width = r.ec - r.sc + 1 := hi.width_eq hne
  have hh : r.height = r.er - r.sr + 1 := hi.height_eq hne
  have hlen := hi.len
  have hwpos : 0 < r.width := by omega
  have hnc : nChunks r.inner.length r.width = r.height := by rw [hlen]; exact nChunks_mul _ _ hwpos
  unfold grow
  by_cases hc : r.ec < col
  · simp only [hc, if_true]
    rw [hnc]
    have hpl := padRows_length r.width (col - r.sc + 1 - r.width) r.height r.inner hlen
    have hwe : r.width + (col - r.sc + 1 - r.width) = col - r.sc + 1 := by omega
    by_cases hr : r.er < row
    · simp only [hr, if_true]
      have hL : (padRows r.width (col - r.sc + 1 - r.width) r.height r.inner ++
          List.replicate ((col - r.sc + 1) * (row - r.sr + 1 - r.height)) default).length =
          (row - r.sr + 1) * (col - r.sc + 1) := by
        rw [List.length_append, hpl, List.length_replicate, hwe, Nat.mul_comm (col - r.sc + 1), ← Nat.add_mul]
        congr 1; omega
      refine ⟨mkInv _ _ _ _ _ (by omega) (by omega) hL, ?_, ?_⟩
      · simp only [hL]; exact Nat.ne_of_gt (Nat.mul_pos (by omega) (by omega))
      · (try simp only [true_and]); omega
    · simp only [hr, if_false]
      have hL : (padRows r.width (col - r.sc + 1 - r.width) r.height r.inner ++
          List.replicate ((col - r.sc + 1) * (r.height - r.height)) default).length =
          (r.er - r.sr + 1) * (col - r.sc + 1) := by
        rw [List.length_append, hpl, List.length_replicate, hwe, Nat.sub_self, Nat.mul_zero, Nat.add_zero, hh]
      refine ⟨mkInv _ _ _ _ _ (by omega) (by omega) hL, ?_, ?_⟩
      · simp only [hL]; exact Nat.ne_of_gt (Nat.mul_pos (by omega) (by omega))
      · (try simp only [true_and]); omega
  · simp only [hc, if_false]
    by_cases hr : r.er < row
    · simp only [hr, if_true]
      have hL : (r.inner ++ List.replicate ((row - r.er) * r.width) default).length =
          (row - r.sr + 1) * (r.ec - r.sc + 1) := by
        rw [List.length_append, List.length_replicate, hlen, hh, hw, ← Nat.add_mul]
        congr 1; omega
      refine ⟨mkInv _ _ _ _ _ (by omega) (by omega) hL, ?_, ?_⟩
      · simp only [hL]; exact Nat.ne_of_gt (Nat.mul_pos (by omega) (by omega))
      · (try simp only [true_and]); omega
    · simp only [hr, if_false]
      exact ⟨hi, hne, by (try simp only [true_and]); omega⟩

theorem inv_setValue (r : Rng α) (row col : Nat) (v : α) (hi : Inv r) (r2 : Rng α)
    (h : setValue r row col v = .ok r2) : Inv r2 := by
  unfold setValue at h
  split at h; · cases h
  rename_i hpre
  split at h; · cases h
  rename_i hne
  split at h; · cases h
  have hpre' : r.sr ≤ row ∧ r.sc ≤ col := Classical.not_not.mp hpre
  simp only at h
  split at h
  · injection h with h; subst h
    exact inv_set _ _ _ (inv_grow r row col hi hne hpre').1
  · cases h

/-! ## `range` -/

/-- `range(s, e)` yields a consistent rectangle whose bounds are exactly `(s, e)` (and is never empty) -/
theorem inv_range (r : Rng α) (hi : Inv r) (sr sc er ec : Nat) (r' : Rng α)
    (h : range r sr sc er ec = .ok r') :
    Inv r' ∧ r'.inner.length ≠ 0 ∧ r'.start = some (sr, sc) ∧ r'.end_ = some (er, ec) := by
  obtain ⟨e1, e2, e3, e4, h1, h2, hl, _⟩ := range_core r hi sr sc er ec r' h
  obtain ⟨a, b, c, d, inner⟩ := r'
  simp only at e1 e2 e3 e4 hl; subst e1 e2 e3 e4
  have hpos : inner.length ≠ 0 := by
    rw [hl]; exact Nat.ne_of_gt (Nat.mul_pos (by omega) (by omega))
  exact ⟨mkInv _ _ _ _ _ h1 h2 hl, hpos, by simp [Rng.start, hpos], by simp [Rng.end_, hpos]⟩

/-- `range(s, e)` equals the source wherever they overlap and the default value elsewhere
    (for empty and non-empty sources alike) -/
theorem range_spec (r : Rng α) (hi : Inv r) (sr sc er ec : Nat) (r' : Rng α)
    (h : range r sr sc er ec = .ok r') (p q : Nat) :
    r'.valAt p q = if sr ≤ p ∧ p ≤ er ∧ sc ≤ q ∧ q ≤ ec then r.valAt p q else default := by
  obtain ⟨hinv, hne, _, _⟩ := inv_range r hi sr sc er ec r' h
  obtain ⟨e1, e2, e3, e4, h1, h2, hl, hv⟩ := range_core r hi sr sc er ec r' h
  by_cases hin : sr ≤ p ∧ p ≤ er ∧ sc ≤ q ∧ q ≤ ec
  · rw [if_pos hin, valAt_of_in r' p q hne (by omega), hinv.width_eq hne, e1, e2, e4]
    exact hv p q hin.1 hin.2.1 hin.2.2.1 hin.2.2.2
  · rw [if_neg hin, valAt_of_out r' p q (by omega)]

/-! ## `from_sparse` (any cell order, after fix D40) -/

/-- `from_sparse` yields a consistent rectangle (empty iff there are no cells) -/
theorem inv_fromSparse (cells : List (Nat × Nat × α)) (r : Rng α) (h : fromSparse cells = .ok r) :
    Inv r ∧ (r.inner.length = 0 ↔ cells = []) := by
  cases cells with
  | nil =>
    simp only [fromSparse] at h; injection h with h; subst h
    exact ⟨⟨by simp [empty, Rng.height, Rng.width], by simp [empty]⟩, by simp [empty]⟩
  | cons c0 rest =>
    obtain ⟨_, _, _, _, h1, h2, hl, _, _⟩ := fromSparse_core c0 rest r h
    obtain ⟨a, b, c, d, inner⟩ := r
    simp only at h1 h2 hl
    have hpos : inner.length ≠ 0 := by
      rw [hl]; exact Nat.ne_of_gt (Nat.mul_pos (by omega) (by omega))
    exact ⟨mkInv _ _ _ _ _ h1 h2 hl, by simp [hpos]⟩

/-- `from_sparse` on cells in ANY order: the bounds are the tight bounding box — (min row, min col)–(max row,
    max col), each attained by an input cell —, every position holds the value of the *last* input cell at
    that position (last writer wins), every other position the default. No cell is dropped. -/
theorem fromSparse_spec_any (cells : List (Nat × Nat × α)) (hne : cells ≠ []) (r : Rng α)
    (h : fromSparse cells = .ok r) :
    r.inner.length ≠ 0 ∧
    (∀ c ∈ cells, r.sr ≤ c.1 ∧ c.1 ≤ r.er ∧ r.sc ≤ c.2.1 ∧ c.2.1 ≤ r.ec) ∧
    (∃ c ∈ cells, c.1 = r.sr) ∧ (∃ c ∈ cells, c.1 = r.er) ∧
    (∃ c ∈ cells, c.2.1 = r.sc) ∧ (∃ c ∈ cells, c.2.1 = r.ec) ∧
    ∀ p q, r.valAt p q = (lastAt cells p q).getD default := by
  obtain ⟨hinv, hemp⟩ := inv_fromSparse cells r h
  have hpos : r.inner.length ≠ 0 := fun h0 => hne (hemp.mp h0)
  cases cells with
  | nil => exact absurd rfl hne
  | cons c0 rest =>
    obtain ⟨_, _, _, _, h1, h2, hl, hmem, hv⟩ := fromSparse_core c0 rest r h
    obtain ⟨t1, t2, t3, t4⟩ := fromSparse_attained c0 rest r h
    refine ⟨hpos, hmem, t1, t2, t3, t4, fun p q => ?_⟩
    by_cases hin : r.sr ≤ p ∧ p ≤ r.er ∧ r.sc ≤ q ∧ q ≤ r.ec
    · rw [valAt_of_in r p q hpos hin, hinv.width_eq hpos]
      exact hv p q hin.1 hin.2.1 hin.2.2.1 hin.2.2.2
    · rw [valAt_of_out r p q (by omega)]
      have : lastAt (c0 :: rest) p q = none := by
        unfold lastAt
        rw [Option.map_eq_none_iff, List.find?_eq_none]
        intro c hc
        have := hmem c (List.mem_reverse.mp hc)
        simp only [decide_eq_true_eq]; omega
      rw [this]; rfl

/-- the statement for row-sorted input (the precondition documented before fix D40: every row lies between
    the first cell's and the last cell's): the row bounds are the first and the last cell's rows. Kept in
    this form for the readers' theorems, which hand `from_sparse` cells in document order. -/
theorem fromSparse_spec (cells : List (Nat × Nat × α)) (hne : cells ≠ []) (r : Rng α)
    (h : fromSparse cells = .ok r)
    (hs : ∀ c ∈ cells, (cells.head hne).1 ≤ c.1 ∧ c.1 ≤ (cells.getLast hne).1) :
    r.inner.length ≠ 0 ∧ r.sr = (cells.head hne).1 ∧ r.er = (cells.getLast hne).1 ∧
    (∀ c ∈ cells, r.sr ≤ c.1 ∧ r.sc ≤ c.2.1 ∧ c.2.1 ≤ r.ec) ∧
    (∃ c ∈ cells, c.2.1 = r.ec) ∧ ((∀ c ∈ cells, c.2.1 < U32) → ∃ c ∈ cells, c.2.1 = r.sc) ∧
    ∀ p q, r.valAt p q = if p ≤ r.er then (lastAt cells p q).getD default else default := by
  obtain ⟨hpos, hmem, ⟨c1, hc1, e1⟩, ⟨c2, hc2, e2⟩, hsc, hec, hv⟩ := fromSparse_spec_any cells hne r h
  have hsr : r.sr = (cells.head hne).1 := by
    have a := (hmem _ (List.head_mem hne)).1
    have b := (hs c1 hc1).1
    omega
  have her : r.er = (cells.getLast hne).1 := by
    have a := (hmem _ (List.getLast_mem hne)).2.1
    have b := (hs c2 hc2).2
    omega
  refine ⟨hpos, hsr, her, fun c hc => ⟨(hmem c hc).1, (hmem c hc).2.2.1, (hmem c hc).2.2.2⟩, hec,
    fun _ => hsc, fun p q => ?_⟩
  rw [hv p q]
  split
  · rfl
  · have : lastAt cells p q = none := by
      unfold lastAt
      rw [Option.map_eq_none_iff, List.find?_eq_none]
      intro c hc
      have := (hmem c (List.mem_reverse.mp hc)).2.1
      simp only [decide_eq_true_eq]; omega
    rw [this]; rfl

theorem lastAt_append_cons (l1 l2 : List (Nat × Nat × α)) (c : Nat × Nat × α)
    (hl2 : ∀ c' ∈ l2, ¬ (c'.1 = c.1 ∧ c'.2.1 = c.2.1)) :
    lastAt (l1 ++ c :: l2) c.1 c.2.1 = some c.2.2 := by
  unfold lastAt
  rw [List.reverse_append, List.reverse_cons, List.append_assoc, List.find?_append]
  have : l2.reverse.find? (fun c' => decide (c'.1 = c.1 ∧ c'.2.1 = c.2.1)) = none := by
    rw [List.find?_eq_none]; intro x hx; simpa using hl2 x (List.mem_reverse.mp hx)
  rw [this]; simp

/-- every position holds the last cell written there, or the default (the row-order hypothesis is no longer
    needed after fix D40; kept so that existing callers still type-check) -/
theorem fromSparse_spec_sorted (cells : List (Nat × Nat × α)) (hne : cells ≠ []) (r : Rng α)
    (h : fromSparse cells = .ok r) (_hs : ∀ c ∈ cells, c.1 ≤ (cells.getLast hne).1) (p q : Nat) :
    r.valAt p q = (lastAt cells p q).getD default :=
  (fromSparse_spec_any cells hne r h).2.2.2.2.2.2 p q

/-- every input cell is at its position unless a later cell overwrites it (any cell order) -/
theorem fromSparse_last_wins (l1 l2 : List (Nat × Nat × α)) (c : Nat × Nat × α) (r : Rng α)
    (h : fromSparse (l1 ++ c :: l2) = .ok r)
    (hl2 : ∀ c' ∈ l2, ¬ (c'.1 = c.1 ∧ c'.2.1 = c.2.1)) : r.valAt c.1 c.2.1 = c.2.2 := by
  rw [(fromSparse_spec_any (l1 ++ c :: l2) (by simp) r h).2.2.2.2.2.2, lastAt_append_cons l1 l2 c hl2]; rfl

/-- a position no input cell addresses holds the default value -/
theorem fromSparse_untouched (cells : List (Nat × Nat × α)) (r : Rng α) (h : fromSparse cells = .ok r)
    (p q : Nat) (hno : ∀ c ∈ cells, ¬ (c.1 = p ∧ c.2.1 = q)) : r.valAt p q = default := by
  cases cells with
  | nil =>
    simp only [fromSparse] at h; injection h with h; subst h
    exact valAt_of_out _ _ _ (by simp [empty])
  | cons c0 rest =>
    rw [(fromSparse_spec_any (c0 :: rest) (by simp) r h).2.2.2.2.2.2]
    have : lastAt (c0 :: rest) p q = none := by
      unfold lastAt
      rw [Option.map_eq_none_iff, List.find?_eq_none]
      intro c hc
      simpa using hno c (List.mem_reverse.mp hc)
    rw [this]; rfl

/-- **`from_sparse` never panics on `u32` cells in any order** whose row and column spans `+ 1` fit `u32`
    (no order hypothesis) -/
theorem fromSparse_no_panic (cells : List (Nat × Nat × α))
    (hb : ∀ c ∈ cells, c.1 < 4294967296 ∧ c.2.1 < 4294967296)
    (hspan : ∀ c ∈ cells, ∀ c' ∈ cells, c'.1 - c.1 + 1 < 4294967296 ∧ c'.2.1 - c.2.1 + 1 < 4294967296) :
    ∃ r, fromSparse cells = .ok r :=
  fromSparse_of_pre cells ⟨hb, hspan⟩

/-! ## `set_value` -/

/-- growing only pads with default cells: no visible value changes -/
theorem grow_valAt (r : Rng α) (row col : Nat) (hi : Inv r) (hne : r.inner.length ≠ 0)
    (hpre : r.sr ≤ row ∧ r.sc ≤ col) (p q : Nat) : (grow r row col).valAt p q = r.valAt p q := by
  obtain ⟨hgi, hgne, g1, g2, g3, g4⟩ := inv_grow r row col hi hne hpre
  obtain ⟨hord1, hord2⟩ := hi.ord hne
  have hw : r.width = r.ec - r.sc + 1 := hi.width_eq hne
  have hh : r.height = r.er - r.sr + 1 := hi.height_eq hne
  have hgw := hgi.width_eq hgne
  rw [g2, g4] at hgw
  have hlen := hi.len
  have hwpos : 0 < r.width := by omega
  have hnc : nChunks r.inner.length r.width = r.height := by rw [hlen]; exact nChunks_mul _ _ hwpos
  by_cases hing : r.sr ≤ p ∧ p ≤ max r.er row ∧ r.sc ≤ q ∧ q ≤ max r.ec col
  · rw [valAt_of_in _ p q hgne (by rw [g1, g2, g3, g4]; exact hing), g1, g2, hgw]
    by_cases hc : r.ec < col
    · have hg : (grow r row col).inner = padRows r.width (col - r.sc + 1 - r.width) r.height r.inner
          ++ List.replicate ((col - r.sc + 1) * ((if r.er < row then row - r.sr + 1 else r.height) - r.height)) default := by
        simp only [grow, hc, if_true, hnc]
      rw [hg, getD_append_replicate_default]
      have hmx : max r.ec col - r.sc + 1 = r.width + (col - r.sc + 1 - r.width) := by omega
      rw [hmx, padRows_getD _ _ _ _ hlen _ _ (by omega)]
      by_cases hin : p ≤ r.er ∧ q ≤ r.ec
      · rw [if_pos (by omega), valAt_of_in r p q hne (by omega)]
      · rw [if_neg (by omega), valAt_of_out r p q (by omega)]
    · by_cases hr : r.er < row
      · have hg : (grow r row col).inner = r.inner ++ List.replicate ((row - r.er) * r.width) default := by
          simp only [grow, hc, hr, if_true, if_false]
        rw [hg, getD_append_replicate_default]
        have hmx : max r.ec col - r.sc + 1 = r.width := by omega
        rw [hmx]
        by_cases hin : p ≤ r.er
        · rw [valAt_of_in r p q hne (by omega)]
        · rw [valAt_of_out r p q (by omega), List.getD_eq_getElem?_getD, List.getElem?_eq_none]; · rfl
          rw [hlen]
          have : r.height * r.width ≤ (p - r.sr) * r.width := Nat.mul_le_mul_right _ (by omega)
          omega
      · have hg : grow r row col = r := by simp only [grow, hc, hr, if_false]
        rw [hg, valAt_of_in r p q hne (by omega)]
        have hmx : max r.ec col - r.sc + 1 = r.width := by omega
        rw [hmx]
  · rw [valAt_of_out _ p q (by rw [g1, g2, g3, g4]; omega), valAt_of_out r p q (by omega)]

/-- `set_value` (when it returns: non-empty range, position at or beyond the start corner): the rectangle grows
    to the bounding box of the old rectangle and the position, the addressed cell holds the value, every
    other position is unchanged (default outside the old rectangle) -/
theorem setValue_spec (r : Rng α) (row col : Nat) (v : α) (hi : Inv r) (r2 : Rng α)
    (h : setValue r row col v = .ok r2) :
    r.inner.length ≠ 0 ∧ r.sr ≤ row ∧ r.sc ≤ col ∧
    r2.start = some (r.sr, r.sc) ∧ r2.end_ = some (max r.er row, max r.ec col) ∧
    r2.valAt row col = v ∧ ∀ p q, ¬ (p = row ∧ q = col) → r2.valAt p q = r.valAt p q := by
  have hinv2 := inv_setValue r row col v hi r2 h
  unfold setValue at h
  split at h; · cases h
  rename_i hpre
  split at h; · cases h
  rename_i hne
  split at h; · cases h
  have hpre' : r.sr ≤ row ∧ r.sc ≤ col := Classical.not_not.mp hpre
  obtain ⟨hgi, hgne, g1, g2, g3, g4⟩ := inv_grow r row col hi hne hpre'
  have hgv := grow_valAt r row col hi hne hpre'
  generalize grow r row col = g at *
  simp only at h
  split at h
  · rename_i hidx
    injection h with h
    have e1 : r2.sr = g.sr := by rw [← h]
    have e2 : r2.sc = g.sc := by rw [← h]
    have e3 : r2.er = g.er := by rw [← h]
    have e4 : r2.ec = g.ec := by rw [← h]
    have e5 : r2.inner = g.inner.set ((row - g.sr) * g.width + (col - g.sc)) v := by rw [← h]
    clear h
    have hne2 : r2.inner.length ≠ 0 := by rw [e5, List.length_set]; exact hgne
    have hgw := hgi.width_eq hgne
    have hw2 := hinv2.width_eq hne2
    refine ⟨hne, hpre'.1, hpre'.2, ?_, ?_, ?_, ?_⟩
    · simp only [Rng.start, hne2, if_false, e1, e2, g1, g2]
    · simp only [Rng.end_, hne2, if_false, e3, e4, g3, g4]
    · rw [valAt_of_in r2 row col hne2 (by omega), hw2, e1, e2, e4, ← hgw, e5,
        List.getD_eq_getElem?_getD, List.getElem?_set]
      simp [hidx]
    · intro p q hpq
      rw [← hgv p q]
      by_cases hin : g.sr ≤ p ∧ p ≤ g.er ∧ g.sc ≤ q ∧ q ≤ g.ec
      · rw [valAt_of_in r2 p q hne2 (by omega), valAt_of_in g p q hgne hin, hw2, e1, e2, e4, ← hgw, e5,
          List.getD_eq_getElem?_getD, List.getElem?_set, if_neg, ← List.getD_eq_getElem?_getD]
        intro heq
        have := rowmajor_inj (by rw [hgw]; omega) (by rw [hgw]; omega) heq
        omega
      · rw [valAt_of_out r2 p q (by omega), valAt_of_out g p q (by omega)]
  · cases h

/-! ## no panic under the documented preconditions -/

theorem setValue_of_pre (r : Rng α) (row col : Nat) (v : α) (hi : Inv r)
    (h : Pre r (.setValue row col v)) : ∃ r', setValue r row col v = .ok r' := by
  obtain ⟨hne, h1, h2, h3, h4⟩ := h
  obtain ⟨hgi, hgne, g1, g2, g3, g4⟩ := inv_grow r row col hi hne ⟨h1, h2⟩
  have hgw := hgi.width_eq hgne
  have hgh := hgi.height_eq hgne
  have hgl := hgi.len
  unfold setValue
  rw [if_neg (by omega), if_neg hne, if_neg (by omega)]
  simp only
  rw [if_pos]; · exact ⟨_, rfl⟩
  rw [hgl]
  apply mul_add_lt_mul <;> omega

/-! ## every history -/

/-- every operation preserves the rectangle invariant -/
theorem inv_step (r : Rng α) (hi : Inv r) (op : Op α) (r' : Rng α) (h : step r op = .ok r') : Inv r' := by
  cases op with
  | new sr sc er ec => exact (inv_new sr sc er ec r' h).1
  | empty => simp only [step] at h; injection h with h; subst h; exact inv_empty
  | fromSparse cells => exact (inv_fromSparse cells r' h).1
  | setValue row col v => exact inv_setValue r row col v hi r' h
  | range sr sc er ec => exact (inv_range r hi sr sc er ec r' h).1

theorem inv_runFrom : ∀ (ops : List (Op α)) (r : Rng α), Inv r → ∀ r', runFrom r ops = .ok r' → Inv r'
  | [], r, hi, r', h => by simp only [runFrom] at h; injection h with h; subst h; exact hi
  | op :: ops, r, hi, r', h => by
    simp only [runFrom] at h
    split at h
    · rename_i r1 hs
      exact inv_runFrom ops r1 (inv_step r hi op r1 hs) r' h
    all_goals cases h

/-- **the rectangle invariant holds after every history** of constructions and mutations that returns
    (whatever the arguments: a violated precondition makes the history panic, never corrupts the range) -/
theorem inv_reachable (ops : List (Op α)) (r : Rng α) (h : run ops = .ok r) : Inv r :=
  inv_runFrom ops empty inv_empty r h

/-- an operation whose documented precondition holds in a consistent range returns (no panic) and the result
    is consistent -/
theorem step_ok (r : Rng α) (hi : Inv r) (op : Op α) (hp : Pre r op) : ∃ r', step r op = .ok r' ∧ Inv r' := by
  have : ∃ r', step r op = .ok r' := by
    cases op with
    | new sr sc er ec => exact ⟨_, new_of_pre sr sc er ec hp⟩
    | empty => exact ⟨_, rfl⟩
    | fromSparse cells => exact fromSparse_of_pre cells hp
    | setValue row col v => exact setValue_of_pre r row col v hi hp
    | range sr sc er ec => exact range_of_pre r sr sc er ec hp
  obtain ⟨r', h⟩ := this
  exact ⟨r', h, inv_step r hi op r' h⟩

theorem runFrom_ok : ∀ (ops : List (Op α)) (r : Rng α), Inv r → Safe r ops →
    ∃ r', runFrom r ops = .ok r' ∧ Inv r'
  | [], r, hi, _ => ⟨r, rfl, hi⟩
  | op :: ops, r, hi, hs => by
    obtain ⟨r1, h1, hi1⟩ := step_ok r hi op hs.1
    obtain ⟨r', h', hi'⟩ := runFrom_ok ops r1 hi1 (hs.2 r1 h1)
    exact ⟨r', by simp only [runFrom, h1, h'], hi'⟩

/-- **no panic under the documented preconditions**: a history in which every operation meets its
    precondition in the state it is applied to runs to completion and ends in a consistent rectangle -/
theorem run_ok (ops : List (Op α)) (hs : Safe empty ops) : ∃ r, run ops = .ok r ∧ Inv r :=
  runFrom_ok ops empty inv_empty hs

/-! ## read accessors and iterators -/

/-- `start`, `end`, `height`, `width`, `is_empty` are consistent with each other -/
theorem bounds_agree (r : Rng α) (hi : Inv r) :
    (r.isEmpty = true ↔ r.inner.length = 0) ∧
    (r.inner.length = 0 → r.start = none ∧ r.end_ = none ∧ r.height = 0 ∧ r.width = 0) ∧
    (r.inner.length ≠ 0 → r.start = some (r.sr, r.sc) ∧ r.end_ = some (r.er, r.ec) ∧
      r.sr ≤ r.er ∧ r.sc ≤ r.ec ∧ r.height = r.er - r.sr + 1 ∧ r.width = r.ec - r.sc + 1) ∧
    r.inner.length = r.height * r.width := by
  refine ⟨by simp [Rng.isEmpty], fun h => ?_, fun h => ?_, hi.len⟩
  · simp [Rng.start, Rng.end_, Rng.height, Rng.width, h]
  · obtain ⟨a, b⟩ := hi.ord h
    simp [Rng.start, Rng.end_, Rng.height, Rng.width, h, a, b]

/-- `get` (relative position) returns the cell inside the rectangle and `None` outside -/
theorem get_spec (r : Rng α) (hi : Inv r) (i j : Nat) :
    get r i j = if i < r.height ∧ j < r.width then some (r.valAt (r.sr + i) (r.sc + j)) else none := by
  unfold get
  by_cases h : i < r.height ∧ j < r.width
  · rw [if_neg (by omega), if_pos h]
    have hne : r.inner.length ≠ 0 := by
      intro h0; have : r.height = 0 := by simp [Rng.height, h0]
      omega
    have hh := hi.height_eq hne
    have hw := hi.width_eq hne
    obtain ⟨o1, o2⟩ := hi.ord hne
    have hlt : i * r.width + j < r.inner.length := by
      rw [hi.len]; exact mul_add_lt_mul h.2 h.1
    rw [valAt_of_in r _ _ hne (by omega), List.getD_eq_getElem?_getD]
    have e1 : r.sr + i - r.sr = i := by omega
    have e2 : r.sc + j - r.sc = j := by omega
    rw [e1, e2, List.getElem?_eq_getElem hlt]; rfl
  · rw [if_pos (by omega), if_neg h]

/-- `get_value` (absolute position) returns the cell inside the rectangle and `None` outside -/
theorem getValue_spec (r : Rng α) (hi : Inv r) (p q : Nat) :
    getValue r p q = if r.inner.length ≠ 0 ∧ r.sr ≤ p ∧ p ≤ r.er ∧ r.sc ≤ q ∧ q ≤ r.ec
      then some (r.valAt p q) else none := by
  unfold getValue
  by_cases hin : r.sr ≤ p ∧ p ≤ r.er ∧ r.sc ≤ q ∧ q ≤ r.ec
  · rw [if_pos (by omega), get_spec r hi]
    by_cases hne : r.inner.length ≠ 0
    · have hh := hi.height_eq hne
      have hw := hi.width_eq hne
      rw [if_pos (by omega), if_pos ⟨hne, hin⟩]
      have e1 : r.sr + (p - r.sr) = p := by omega
      have e2 : r.sc + (q - r.sc) = q := by omega
      rw [e1, e2]
    · have : r.height = 0 := by simp only [Rng.height]; rw [if_pos (by omega)]
      rw [if_neg (by omega), if_neg (by omega)]
  · rw [if_neg (by omega), if_neg (by omega)]

/-- indexing `range[(i, j)]` returns the cell inside the rectangle and panics outside -/
theorem index_spec (r : Rng α) (hi : Inv r) (i j : Nat) :
    index r i j = if i < r.height ∧ j < r.width then .ok (r.valAt (r.sr + i) (r.sc + j))
      else .panic "index out of bounds" := by
  have hg := get_spec r hi i j
  unfold get at hg
  unfold index
  by_cases h : i < r.height ∧ j < r.width
  · rw [if_neg (by omega)] at hg; rw [if_pos h] at hg
    rw [if_neg (by omega), if_pos h, hg]
  · rw [if_pos (by omega), if_neg h]

/-- `get`, `get_value` and indexing agree with each other -/
theorem accessors_agree (r : Rng α) (hi : Inv r) (i j : Nat) :
    getValue r (r.sr + i) (r.sc + j) = get r i j ∧
    (index r i j = match get r i j with | some v => .ok v | none => .panic "index out of bounds") ∧
    (∀ p q, getValue r p q = if r.sr ≤ p ∧ r.sc ≤ q then get r (p - r.sr) (q - r.sc) else none) := by
  refine ⟨?_, ?_, fun p q => ?_⟩
  · rw [getValue_spec r hi, get_spec r hi]
    by_cases h : i < r.height ∧ j < r.width
    · have hne : r.inner.length ≠ 0 := by
        intro h0; have : r.height = 0 := by simp [Rng.height, h0]
        omega
      have hh := hi.height_eq hne
      have hw := hi.width_eq hne
      obtain ⟨o1, o2⟩ := hi.ord hne
      rw [if_pos (by omega), if_pos h]
    · rw [if_neg h]
      by_cases hne : r.inner.length ≠ 0
      · have hh := hi.height_eq hne
        have hw := hi.width_eq hne
        obtain ⟨o1, o2⟩ := hi.ord hne
        rw [if_neg (by omega)]
      · rw [if_neg (by omega)]
  · rw [index_spec r hi, get_spec r hi]; split <;> rfl
  · rw [getValue_spec r hi, get_spec r hi]
    by_cases hne : r.inner.length ≠ 0
    · have hh := hi.height_eq hne
      have hw := hi.width_eq hne
      obtain ⟨o1, o2⟩ := hi.ord hne
      by_cases hin : r.sr ≤ p ∧ p ≤ r.er ∧ r.sc ≤ q ∧ q ≤ r.ec
      · rw [if_pos ⟨hne, hin⟩, if_pos (by omega), if_pos (by omega)]
        have e1 : r.sr + (p - r.sr) = p := by omega
        have e2 : r.sc + (q - r.sc) = q := by omega
        rw [e1, e2]
      · rw [if_neg (by omega)]
        split
        · rw [if_neg (by omega)]
        · rfl
    · have : r.height = 0 := by simp only [Rng.height]; rw [if_pos (by omega)]
      rw [if_neg (by omega)]
      split
      · rw [if_neg (by omega)]
      · rfl

/-- `rows()` yields `height` rows of `width` cells each, and cell `j` of row `i` is `get((i, j))` -/
theorem rows_spec (r : Rng α) (hi : Inv r) :
    (rows r).length = r.height ∧ (∀ row ∈ rows r, row.length = r.width) ∧
    (∀ i, i < r.height → (rows r)[i]? = some ((r.inner.drop (i * r.width)).take r.width)) ∧
    ∀ i j, (rows r)[i]?.bind (·[j]?) = get r i j := by
  by_cases hne : r.inner.length ≠ 0
  · have hh := hi.height_eq hne
    have hw := hi.width_eq hne
    have hlen := hi.len
    have hwpos : 0 < r.width := by omega
    have hnc : nChunks r.inner.length r.width = r.height := by rw [hlen]; exact nChunks_mul _ _ hwpos
    have hrows : rows r = chunksN r.width r.height r.inner := by
      unfold rows; rw [if_neg hne, hnc]
    have hget : ∀ i, i < r.height → (rows r)[i]? = some ((r.inner.drop (i * r.width)).take r.width) :=
      fun i h => by rw [hrows]; exact chunksN_get _ _ _ _ h
    have hrowlen : ∀ i, i < r.height → ((r.inner.drop (i * r.width)).take r.width).length = r.width := by
      intro i h
      have := Nat.mul_le_mul_right r.width (Nat.succ_le_of_lt h)
      rw [Nat.succ_mul] at this
      rw [List.length_take, List.length_drop, hlen]; omega
    refine ⟨by rw [hrows, chunksN_length], ?_, hget, ?_⟩
    · intro row hrow
      obtain ⟨i, hlt, he⟩ := List.getElem_of_mem hrow
      have hlt' : i < r.height := by rw [hrows, chunksN_length] at hlt; exact hlt
      have := hget i hlt'
      rw [List.getElem?_eq_getElem hlt, he] at this
      injection this with this
      rw [this]; exact hrowlen i hlt'
    · intro i j
      unfold get
      by_cases h : i < r.height
      · rw [hget i h]
        simp only [Option.bind_some]
        rw [List.getElem?_take, List.getElem?_drop]
        by_cases hj : j < r.width
        · rw [if_pos hj, if_neg (by omega)]
        · rw [if_neg hj, if_pos (by omega)]
      · rw [List.getElem?_eq_none (by rw [hrows, chunksN_length]; omega), if_pos (by omega)]; rfl
  · have h0 : r.inner.length = 0 := by omega
    have hh : r.height = 0 := by simp [Rng.height, h0]
    have hrows : rows r = [] := by unfold rows; rw [if_pos h0]
    rw [hrows, hh]
    refine ⟨rfl, fun _ h => (by cases h), fun i h => (by omega), fun i j => ?_⟩
    unfold get; rw [if_pos (by omega)]; rfl

/-- `cells()` enumerates exactly the `height * width` cells in row-major order with their relative
    coordinates: entry `i` is `(i / width, i % width, inner[i])`, i.e. entry `i * width + j` is
    `(i, j, get((i, j)))` -/
theorem cells_spec (r : Rng α) (hi : Inv r) :
    (cells r).length = r.height * r.width ∧
    (∀ i, (cells r)[i]? = r.inner[i]?.map (fun v => (i / r.width, i % r.width, v))) ∧
    ∀ i j, i < r.height → j < r.width →
      (cells r)[i * r.width + j]? = some (i, j, r.valAt (r.sr + i) (r.sc + j)) := by
  have hget : ∀ i, (cells r)[i]? = r.inner[i]?.map (fun v => (i / r.width, i % r.width, v)) := by
    intro i; unfold cells; rw [cellsFrom_get, Nat.zero_add]
  refine ⟨by unfold cells; rw [cellsFrom_length, hi.len], hget, fun i j h1 h2 => ?_⟩
  have hg := get_spec r hi i j
  unfold get at hg
  rw [if_neg (by omega), if_pos ⟨h1, h2⟩] at hg
  rw [hget, hg]
  simp only [Option.map_some]
  have e1 : (i * r.width + j) / r.width = i := by
    rw [Nat.add_comm, Nat.add_mul_div_right _ _ (by omega), Nat.div_eq_of_lt h2, Nat.zero_add]
  have e2 : (i * r.width + j) % r.width = j := by
    rw [Nat.add_comm, Nat.add_mul_mod_self_right, Nat.mod_eq_of_lt h2]
  rw [e1, e2]

/-- `used_cells()` enumerates exactly the non-default cells among `cells()`, in the same order -/
theorem usedCells_spec [DecidableEq α] (r : Rng α) :
    usedCells r = (cells r).filter (fun c => decide (c.2.2 ≠ default)) ∧
    (usedCells r).Sublist (cells r) ∧
    ∀ c, c ∈ usedCells r ↔ c ∈ cells r ∧ c.2.2 ≠ default := by
  refine ⟨rfl, List.filter_sublist, fun c => ?_⟩
  unfold usedCells
  rw [List.mem_filter]; simp

/-! ## the remaining accessors: row indexing, indexed assignment, `headers` -/

/-- `range[i]` (a row) inside the rectangle is row `i` of `rows()`; past the last row of a non-empty range it
    panics; on an empty range every index gives the empty slice (width 0) -/
theorem indexRow_spec (r : Rng α) (hi : Inv r) (i : Nat) :
    (i < r.height → ∃ row, indexRow r i = .ok row ∧ (rows r)[i]? = some row ∧ row.length = r.width) ∧
    (r.inner.length ≠ 0 → r.height ≤ i → ∃ m, indexRow r i = .panic m) ∧
    (r.inner.length = 0 → indexRow r i = .ok []) := by
  obtain ⟨_, r2, r3, _⟩ := rows_spec r hi
  have hlen := hi.len
  refine ⟨fun h => ?_, fun hne h => ?_, fun he => ?_⟩
  · have hle : (i + 1) * r.width ≤ r.inner.length := by
      rw [hlen]; exact Nat.mul_le_mul_right _ h
    refine ⟨_, by unfold indexRow; rw [if_pos hle], r3 i h, ?_⟩
    exact r2 _ (List.mem_of_getElem? (r3 i h))
  · have hw := hi.width_eq hne
    have hwpos : 0 < r.width := by omega
    have : ¬ (i + 1) * r.width ≤ r.inner.length := by
      rw [hlen]
      have : r.height * r.width < (i + 1) * r.width := Nat.mul_lt_mul_of_pos_right (by omega) hwpos
      omega
    exact ⟨_, by unfold indexRow; rw [if_neg this]⟩
  · have hw : r.width = 0 := by unfold Rng.width; rw [if_pos he]
    unfold indexRow
    rw [hw, he]
    simp

/-- `range[(i, j)] = v` inside the rectangle IS `set_value` at the absolute position of that cell — so it changes
    exactly that cell and nothing else (`setValue_spec`) and keeps the rectangle; outside it panics -/
theorem indexSet_eq_setValue (r : Rng α) (hi : Inv r) (i j : Nat) (v : α) (h1 : i < r.height) (h2 : j < r.width) :
    indexSet r i j v = setValue r (r.sr + i) (r.sc + j) v := by
  have hne : r.inner.length ≠ 0 := by
    intro he; unfold Rng.height at h1; rw [if_pos he] at h1; omega
  have hh := hi.height_eq hne
  have hw := hi.width_eq hne
  have ho := hi.ord hne
  have hlen := hi.len
  have hidx : i * r.width + j < r.inner.length := by
    rw [hlen]
    calc i * r.width + j < i * r.width + r.width := by omega
      _ = (i + 1) * r.width := by rw [Nat.add_mul, Nat.one_mul]
      _ ≤ r.height * r.width := Nat.mul_le_mul_right _ h1
  have hg : grow r (r.sr + i) (r.sc + j) = r := by
    unfold grow
    rw [if_neg (by omega), if_neg (by omega)]
  unfold indexSet setValue
  rw [if_neg (by simp [h1, h2]), if_pos hidx, if_neg (by omega), if_neg hne, if_neg (by omega), hg]
  simp only [Nat.add_sub_cancel_left]
  rw [if_pos hidx]

theorem indexSet_out_of_bounds (r : Rng α) (i j : Nat) (v : α) (h : ¬ (j < r.width ∧ i < r.height)) :
    indexSet r i j v = .panic "index out of bounds" := by
  unfold indexSet; rw [if_pos h]

/-- `headers()` is the first row of `rows()`: `None` exactly for the empty range, otherwise `width` cells -/
theorem firstRow_spec (r : Rng α) (hi : Inv r) :
    (r.inner.length = 0 → firstRow r = none) ∧
    (r.inner.length ≠ 0 → ∃ row, firstRow r = some row ∧ (rows r)[0]? = some row ∧ row.length = r.width) := by
  obtain ⟨r1, r2, _, _⟩ := rows_spec r hi
  refine ⟨fun he => ?_, fun hne => ?_⟩
  · unfold firstRow rows; rw [if_pos he]; rfl
  · have hh := hi.height_eq hne
    have hpos : 0 < (rows r).length := by rw [r1]; omega
    obtain ⟨row, tl, hrt⟩ := List.exists_cons_of_length_pos hpos
    refine ⟨row, by unfold firstRow; rw [hrt]; rfl, by rw [hrt]; rfl, r2 row (by rw [hrt]; exact List.mem_cons_self ..)⟩

/-! ## the iterators are double-ended: consumption from both ends, in any interleaving

    `Cells`, `UsedCells` and `Rows` implement `DoubleEndedIterator`. For ANY sequence of `next` / `next_back`
    calls (`true` = `next`), the items returned from the front (in call order), the items still in the
    iterator, and the items returned from the back (in reverse call order) are together exactly the forward
    enumeration: every cell once, in row-major order, with the coordinates of `cells()`. -/

theorem cells_double_ended (r : Rng α) (pat : List Bool) :
    fronts (CellIt.consume CellIt.next CellIt.nextBack pat (cellsIter r)).1 ++
      (CellIt.consume CellIt.next CellIt.nextBack pat (cellsIter r)).2.rest.map
        (CellIt.consume CellIt.next CellIt.nextBack pat (cellsIter r)).2.yield ++
      (backs (CellIt.consume CellIt.next CellIt.nextBack pat (cellsIter r)).1).reverse = cells r := by
  have h := consume_split selAll CellIt.next CellIt.nextBack next_ok nextBack_ok pat (cellsIter r)
  rw [pending_all, pending_all, cellsIter_items] at h
  exact h

/-- `ExactSizeIterator::len` of `Cells` after any consumption history: what is left is what was not yielded -/
theorem cells_len_exact (r : Rng α) (pat : List Bool) :
    (CellIt.consume CellIt.next CellIt.nextBack pat (cellsIter r)).2.len +
      (fronts (CellIt.consume CellIt.next CellIt.nextBack pat (cellsIter r)).1).length +
      (backs (CellIt.consume CellIt.next CellIt.nextBack pat (cellsIter r)).1).length = (cells r).length := by
  have h := congrArg List.length (cells_double_ended r pat)
  simp only [List.length_append, List.length_map, List.length_reverse] at h
  unfold CellIt.len
  omega

theorem used_cells_double_ended [DecidableEq α] (r : Rng α) (pat : List Bool) :
    fronts (CellIt.consume CellIt.nextUsed CellIt.nextBackUsed pat (cellsIter r)).1 ++
      ((CellIt.consume CellIt.nextUsed CellIt.nextBackUsed pat (cellsIter r)).2.rest.map
        (CellIt.consume CellIt.nextUsed CellIt.nextBackUsed pat (cellsIter r)).2.yield).filter
          (fun c => decide (c.2.2 ≠ default)) ++
      (backs (CellIt.consume CellIt.nextUsed CellIt.nextBackUsed pat (cellsIter r)).1).reverse = usedCells r := by
  have h := consume_split selUsed CellIt.nextUsed CellIt.nextBackUsed nextUsed_ok nextBackUsed_ok pat (cellsIter r)
  have e : (fun c : Nat × Nat × α => decide (c.2.2 ≠ default)) = selUsed := by
    funext c; simp [selUsed]
  unfold CellIt.pending at h
  rw [cellsIter_items] at h
  unfold usedCells
  rw [e]
  exact h

/-- once `next` or `next_back` of `UsedCells` has returned `None`, no later call from either end returns a cell -/
theorem used_cells_fused [DecidableEq α] (it : CellIt α) (d : Bool) (pat : List Bool)
    (h : (if d then it.nextUsed else it.nextBackUsed).1 = none) :
    fronts (CellIt.consume CellIt.nextUsed CellIt.nextBackUsed pat (if d then it.nextUsed else it.nextBackUsed).2).1 = [] ∧
    backs (CellIt.consume CellIt.nextUsed CellIt.nextBackUsed pat (if d then it.nextUsed else it.nextBackUsed).2).1 = [] := by
  cases d
  · exact consume_done selUsed _ _ nextUsed_ok nextBackUsed_ok _ (nextBackUsed_ok.done it (by simpa using h)) pat
  · exact consume_done selUsed _ _ nextUsed_ok nextBackUsed_ok _ (nextUsed_ok.done it (by simpa using h)) pat

theorem rows_double_ended (r : Rng α) (pat : List Bool) :
    fronts (rowsConsume pat (rows r)).1 ++ (rowsConsume pat (rows r)).2 ++
      (backs (rowsConsume pat (rows r)).1).reverse = rows r := rowsConsume_split pat (rows r)

/-! ## the property as stated: every history -/

/-- the headline: after **any** history that returns, the range is a full rectangle — `height × width` cells,
    `rows()` yields `height` rows of `width` cells, `cells()` has `height × width` entries, entry `i·width + j`
    of `cells()` and cell `j` of row `i` are both the cell `get((i, j))` = `get_value((start.0 + i, start.1 + j))`,
    and outside the rectangle `get`/`get_value` return `None` -/
theorem history_consistent (ops : List (Op α)) (r : Rng α) (h : run ops = .ok r) :
    r.inner.length = r.height * r.width ∧ (rows r).length = r.height ∧
    (∀ row ∈ rows r, row.length = r.width) ∧ (cells r).length = r.height * r.width ∧
    (∀ i j, i < r.height → j < r.width →
      get r i j = some (r.valAt (r.sr + i) (r.sc + j)) ∧
      getValue r (r.sr + i) (r.sc + j) = get r i j ∧
      (rows r)[i]?.bind (·[j]?) = get r i j ∧
      (cells r)[i * r.width + j]? = (get r i j).map (fun v => (i, j, v))) ∧
    (∀ i j, ¬ (i < r.height ∧ j < r.width) → get r i j = none ∧ getValue r (r.sr + i) (r.sc + j) = none) := by
  have hi := inv_reachable ops r h
  obtain ⟨r1, r2, _, r4⟩ := rows_spec r hi
  obtain ⟨c1, _, c3⟩ := cells_spec r hi
  refine ⟨hi.len, r1, r2, c1, fun i j h1 h2 => ?_, fun i j hn => ?_⟩
  · have hg : get r i j = some (r.valAt (r.sr + i) (r.sc + j)) := by
      rw [get_spec r hi, if_pos ⟨h1, h2⟩]
    exact ⟨hg, (accessors_agree r hi i j).1, r4 i j, by rw [c3 i j h1 h2, hg]; rfl⟩
  · have hg : get r i j = none := by rw [get_spec r hi, if_neg hn]
    exact ⟨hg, by rw [(accessors_agree r hi i j).1, hg]⟩

/-! ## non-vacuity: concrete instances (values are `Nat`, default `0`) -/

/-- a 2×2 range satisfies the invariant -/
example : Inv (⟨3, 4, 4, 5, [1, 2, 3, 4]⟩ : Rng Nat) := mkInv _ _ _ _ _ (by decide) (by decide) rfl

/-- the D01 witness after the fix: growing downwards only yields 8 × 3 = 24 cells -/
example : (run [Op.new 0 0 5 2, Op.setValue 7 1 (3 : Nat)]).isOk = true ∧
    ∀ r, run [Op.new 0 0 5 2, Op.setValue 7 1 (3 : Nat)] = .ok r →
      r.inner.length = 24 ∧ r.height = 8 ∧ r.width = 3 ∧ r.valAt 7 1 = 3 := by
  refine ⟨rfl, fun r h => ?_⟩
  cases h; exact ⟨rfl, rfl, rfl, rfl⟩

/-- growth in both directions, then a partially overlapping window -/
example : run [Op.new 1 1 2 2, Op.setValue 1 1 (7 : Nat), Op.setValue 3 4 9, Op.range 0 0 1 2] =
    .ok ⟨0, 0, 1, 2, [0, 0, 0, 0, 7, 0]⟩ := rfl

example : setValue (⟨1, 1, 2, 2, [7, 0, 0, 0]⟩ : Rng Nat) 3 4 9 =
    .ok ⟨1, 1, 3, 4, [7, 0, 0, 0, 0, 0, 0, 0, 0, 0, 0, 9]⟩ := rfl

/-- `from_sparse`: duplicates (last writer wins) and a gap -/
example : fromSparse [(2, 5, (1 : Nat)), (2, 3, 2), (3, 5, 3), (3, 5, 4)] =
    .ok ⟨2, 3, 3, 5, [2, 0, 1, 0, 0, 4]⟩ := rfl

example : lastAt [(2, 5, (1 : Nat)), (2, 3, 2), (3, 5, 3), (3, 5, 4)] 3 5 = some 4 := rfl

/-- the preconditions are decidable and satisfiable; a history that meets them (`Safe`) exists -/
example : Pre (⟨1, 1, 2, 2, [7, 0, 0, 0]⟩ : Rng Nat) (Op.setValue 3 4 9) := by decide
example : sparsePre [(2, 5, (1 : Nat)), (2, 3, 2), (3, 5, 3), (3, 5, 4)] := by decide
example : Safe (empty : Rng Nat) [Op.new 0 0 5 2, Op.setValue 7 1 3, Op.range 1 1 8 8] := by
  refine ⟨by decide, fun r1 h1 => ?_⟩
  cases h1
  refine ⟨by decide, fun r2 h2 => ?_⟩
  cases h2
  exact ⟨by decide, fun _ _ => trivial⟩

/-- … and violated preconditions do panic (the hypotheses of `step_ok` are not redundant) -/
example : setValue (empty : Rng Nat) 0 0 1 = .panic "empty range" := rfl
example : setValue (⟨1, 1, 2, 2, [7, 0, 0, 0]⟩ : Rng Nat) 0 1 9 = .panic "absolute_position out of bounds" := rfl
example : (new 0 0 65535 65535 : Res (Rng Nat)) = .panic "u32 mul overflow" := by
  unfold new; rfl
/-- cells out of row order (the D40 witnesses): no panic, nothing dropped -/
example : fromSparse [(2, 0, (1 : Nat)), (1, 0, 2), (3, 0, 3)] = .ok ⟨1, 0, 3, 0, [2, 1, 3]⟩ := rfl
example : fromSparse [(3, 259, (0 : Nat)), (0, 261, 4)] =
    .ok ⟨0, 259, 3, 261, [0, 0, 4, 0, 0, 0, 0, 0, 0, 0, 0, 0]⟩ := rfl
example : fromSparse [(0, 4294967295, (1 : Nat)), (0, 0, 2)] = .panic "u32 add overflow" := rfl

/-- iterators and accessors on a concrete range -/
example : rows (⟨3, 4, 4, 6, [1, 0, 3, 4, 5, 0]⟩ : Rng Nat) = [[1, 0, 3], [4, 5, 0]] := rfl
example : cells (⟨3, 4, 4, 6, [1, 0, 3, 4, 5, 0]⟩ : Rng Nat) =
    [(0, 0, 1), (0, 1, 0), (0, 2, 3), (1, 0, 4), (1, 1, 5), (1, 2, 0)] := rfl
example : usedCells (⟨3, 4, 4, 6, [1, 0, 3, 4, 5, 0]⟩ : Rng Nat) =
    [(0, 0, 1), (0, 2, 3), (1, 0, 4), (1, 1, 5)] := by decide
example : getValue (⟨3, 4, 4, 6, [1, 0, 3, 4, 5, 0]⟩ : Rng Nat) 4 5 = some 5 ∧
    get (⟨3, 4, 4, 6, [1, 0, 3, 4, 5, 0]⟩ : Rng Nat) 1 1 = some 5 ∧
    index (⟨3, 4, 4, 6, [1, 0, 3, 4, 5, 0]⟩ : Rng Nat) 1 1 = .ok 5 ∧
    getValue (⟨3, 4, 4, 6, [1, 0, 3, 4, 5, 0]⟩ : Rng Nat) 5 5 = none := ⟨rfl, rfl, rfl, rfl⟩

/-- double-ended consumption on a concrete range: front, back, back, front, then both ends are empty -/
example : (CellIt.consume CellIt.next CellIt.nextBack [true, false, false, true, true, false]
      (cellsIter (⟨3, 4, 4, 5, [1, 2, 3, 4]⟩ : Rng Nat))).1 =
    [(true, some (0, 0, 1)), (false, some (1, 1, 4)), (false, some (1, 0, 3)), (true, some (0, 1, 2)),
     (true, none), (false, none)] := rfl
example : (CellIt.consume CellIt.nextUsed CellIt.nextBackUsed [false, true, true, false]
      (cellsIter (⟨3, 4, 4, 6, [1, 0, 3, 4, 5, 0]⟩ : Rng Nat))).1 =
    [(false, some (1, 1, 5)), (true, some (0, 0, 1)), (true, some (0, 2, 3)), (false, some (1, 0, 4))] := by decide

end Range
