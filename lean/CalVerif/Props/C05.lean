import CalVerif.Lemmas.Range
/-! # C05 — Range stays a consistent rectangle under every sequence of operations
    Property theorems only (helper lemmas live in `Lemmas/Range.lean`). -/
namespace Range
set_option linter.unusedSectionVars false
variable {α : Type} [Inhabited α]

/-! ## one-step invariant preservation -/

theorem inv_empty : Inv (empty : Rng α) := by
  constructor <;> simp [empty, Rng.height, Rng.width]

theorem inv_new (sr sc er ec : Nat) (r : Rng α) (h : new sr sc er ec = .ok r) :
    Inv r ∧ r.inner.length ≠ 0 ∧ r.sr = sr ∧ r.sc = sc ∧ r.er = er ∧ r.ec = ec := by
  unfold new at h
  split at h; · cases h
  split at h; · cases h
  split at h; · cases h
  split at h; · cases h
  rename_i h1 h2 _ _
  injection h with h; subst h
  have ho1 : sr ≤ er := by omega
  have ho2 : sc ≤ ec := by omega
  refine ⟨mkInv _ _ _ _ _ ho1 ho2 (by simp), ?_, rfl, rfl, rfl, rfl⟩
  simp only [List.length_replicate]
  exact Nat.ne_of_gt (Nat.mul_pos (by omega) (by omega))

theorem inv_grow (r : Rng α) (row col : Nat) (hi : Inv r) (hne : r.inner.length ≠ 0)
    (hpre : r.sr ≤ row ∧ r.sc ≤ col) :
    Inv (grow r row col) ∧ (grow r row col).inner.length ≠ 0 ∧ (grow r row col).sr = r.sr ∧
    (grow r row col).sc = r.sc ∧ (grow r row col).er = max r.er row ∧ (grow r row col).ec = max r.ec col := by
  obtain ⟨hord1, hord2⟩ := hi.ord hne
  have hw : r.width = r.ec - r.sc + 1 := hi.width_eq hne
  have hh : r.height = r.er - r.sr + 1 := hi.height_eq hne
  have hlen := hi.len
  have hwpos : 0 < r.width := by omega
  have hnc : nChunks r.inner.length r.width = r.height := by rw [hlen]; exact nChunks_mul _ _ hwpos
  unfold grow
  by_cases hc : r.ec < col
  · simp only [hc, if_true]
    rw [hnc]
    have hpl := padRows_length r.width (col - r.sc + 1 - r.width) r.height r.inner hlen
    have hwe : r.width + (col - r.sc + 1 - r.width) = col - r.sc + 1 := by omega
    by_cases hr : r.er < row
    · simp only [hr, if_true]
      have hL : (padRows r.width (col - r.sc + 1 - r.width) r.height r.inner ++
          List.replicate ((col - r.sc + 1) * (row - r.sr + 1 - r.height)) default).length =
          (row - r.sr + 1) * (col - r.sc + 1) := by
        rw [List.length_append, hpl, List.length_replicate, hwe, Nat.mul_comm (col - r.sc + 1), ← Nat.add_mul]
        congr 1; omega
      refine ⟨mkInv _ _ _ _ _ (by omega) (by omega) hL, ?_, ?_⟩
      · simp only [hL]; exact Nat.ne_of_gt (Nat.mul_pos (by omega) (by omega))
      · (try simp only [true_and]); omega
    · simp only [hr, if_false]
      have hL : (padRows r.width (col - r.sc + 1 - r.width) r.height r.inner ++
          List.replicate ((col - r.sc + 1) * (r.height - r.height)) default).length =
          (r.er - r.sr + 1) * (col - r.sc + 1) := by
        rw [List.length_append, hpl, List.length_replicate, hwe, Nat.sub_self, Nat.mul_zero, Nat.add_zero, hh]
      refine ⟨mkInv _ _ _ _ _ (by omega) (by omega) hL, ?_, ?_⟩
      · simp only [hL]; exact Nat.ne_of_gt (Nat.mul_pos (by omega) (by omega))
      · (try simp only [true_and]); omega
  · simp only [hc, if_false]
    by_cases hr : r.er < row
    · simp only [hr, if_true]
      have hL : (r.inner ++ List.replicate ((row - r.er) * r.width) default).length =
          (row - r.sr + 1) * (r.ec - r.sc + 1) := by
        rw [List.length_append, List.length_replicate, hlen, hh, hw, ← Nat.add_mul]
        congr 1; omega
      refine ⟨mkInv _ _ _ _ _ (by omega) (by omega) hL, ?_, ?_⟩
      · simp only [hL]; exact Nat.ne_of_gt (Nat.mul_pos (by omega) (by omega))
      · (try simp only [true_and]); omega
    · simp only [hr, if_false]
      exact ⟨hi, hne, by (try simp only [true_and]); omega⟩

theorem inv_setValue (r : Rng α) (row col : Nat) (v : α) (hi : Inv r) (r2 : Rng α)
    (h : setValue r row col v = .ok r2) : Inv r2 := by
  unfold setValue at h
  split at h; · cases h
  rename_i hpre
  split at h; · cases h
  rename_i hne
  split at h; · cases h
  have hpre' : r.sr ≤ row ∧ r.sc ≤ col := Classical.not_not.mp hpre
  simp only at h
  split at h
  · injection h with h; subst h
    exact inv_set _ _ _ (inv_grow r row col hi hne hpre').1
  · cases h

end Range
