import CalVerif.Lemmas.Metadata
import CalVerif.Lemmas.MetadataFormula
import CalVerif.Lemmas.MetadataCompose
import CalVerif.Props.C01
import CalVerif.Props.C02
import CalVerif.Props.C03
/-! # C16 — workbook metadata is reported faithfully and in workbook order

    Theorems about the model `CalVerif/Model/Metadata.lean` (tied to /repo by `harness/src/bin/c16.rs`) and the
    encoders `CalVerif/Spec/MetadataEnc.lean` (the layouts the harness writes; checked against the files by the
    `encbs` / `encbundle` requests). The code tables are the generated ones (`Gen/SheetCodes.lean`).

    For xlsx and ods the XML layer (text → events, quick-xml) is trusted: those theorems speak about event
    lists and the assurance is chiefly the correspondence run. -/

open Meta MetaEnc MetaLemmas
open Biff (byte le16 le32)

namespace C16

/-! ## the generated code tables -/

/-- two codes that decode to the same visibility are the same code (xls BoundSheet8 hsState, after masking) -/
theorem vis_table_injective_xls (a b : Nat) (v : SheetVisible)
    (ha : Gen.xlsVisTable.lookup a = some v) (hb : Gen.xlsVisTable.lookup b = some v) : a = b := by
  have h1 := lookup_mem _ _ _ ha
  have h2 := lookup_mem _ _ _ hb
  simp [Gen.xlsVisTable] at h1 h2
  rcases h1 with ⟨rfl, rfl⟩ | ⟨rfl, rfl⟩ | ⟨rfl, rfl⟩ <;> simp at h2 <;> omega

/-- every visibility has a code, and the code fits the 6 bits the reader keeps -/
theorem vis_table_surjective_xls (v : SheetVisible) : ∃ c, c < 64 ∧ Gen.xlsVisTable.lookup c = some v :=
  ⟨xlsVisCode v, by cases v <;> decide⟩

theorem vis_table_injective_xlsb (a b : Nat) (v : SheetVisible)
    (ha : Gen.xlsbVisTable.lookup a = some v) (hb : Gen.xlsbVisTable.lookup b = some v) : a = b := by
  have h1 := lookup_mem _ _ _ ha
  have h2 := lookup_mem _ _ _ hb
  simp [Gen.xlsbVisTable] at h1 h2
  rcases h1 with ⟨rfl, rfl⟩ | ⟨rfl, rfl⟩ | ⟨rfl, rfl⟩ <;> simp at h2 <;> omega

theorem vis_table_surjective_xlsb (v : SheetVisible) : ∃ c, c < 4294967296 ∧ Gen.xlsbVisTable.lookup c = some v :=
  ⟨xlsbVisCode v, by cases v <;> decide⟩

theorem vis_table_injective_xlsx (a b : String) (v : SheetVisible)
    (ha : Gen.xlsxVisTable.lookup a = some v) (hb : Gen.xlsxVisTable.lookup b = some v) : a = b := by
  have h1 := lookup_mem _ _ _ ha
  have h2 := lookup_mem _ _ _ hb
  simp [Gen.xlsxVisTable] at h1 h2
  rcases h1 with ⟨rfl, rfl⟩ | ⟨rfl, rfl⟩ | ⟨rfl, rfl⟩ <;> simp at h2 <;> simp [h2]

theorem vis_table_surjective_xlsx (v : SheetVisible) : ∃ s, Gen.xlsxVisTable.lookup s = some v :=
  ⟨xlsxVisName v, by cases v <;> decide⟩

/-- the three formats with numeric / named states agree on the meaning of a state (0/1/2 ↔ visible/hidden/veryHidden) -/
theorem vis_tables_agree (v : SheetVisible) :
    xlsVisCode v = xlsbVisCode v ∧ Gen.xlsxVisTable.lookup (xlsxVisName v) = Gen.xlsVisTable.lookup (xlsVisCode v) := by
  cases v <;> decide

/-- xls sheet types: the four dt values MS-XLS 2.4.28 defines, one kind each, no two codes for one kind -/
theorem kind_table_xls :
    Gen.xlsKindTable.lookup 0 = some .workSheet ∧ Gen.xlsKindTable.lookup 1 = some .macroSheet ∧
    Gen.xlsKindTable.lookup 2 = some .chartSheet ∧ Gen.xlsKindTable.lookup 6 = some .vba ∧
    (∀ a b k, Gen.xlsKindTable.lookup a = some k → Gen.xlsKindTable.lookup b = some k → a = b) := by
  refine ⟨by decide, by decide, by decide, by decide, ?_⟩
  intro a b k ha hb
  have h1 := lookup_mem _ _ _ ha
  have h2 := lookup_mem _ _ _ hb
  simp [Gen.xlsKindTable] at h1 h2
  rcases h1 with ⟨rfl, rfl⟩ | ⟨rfl, rfl⟩ | ⟨rfl, rfl⟩ | ⟨rfl, rfl⟩ <;> simp at h2 <;> omega

/-- xlsx / xlsb sheet kinds after fix D27: the four folders Excel uses, one kind each (no folder for VBA modules,
    which these formats keep in `vbaProject.bin`), and no two folders for one kind -/
theorem kind_table_xlsx :
    xlsxFolder .workSheet = some "worksheets" ∧ xlsxFolder .chartSheet = some "chartsheets" ∧
    xlsxFolder .dialogSheet = some "dialogsheets" ∧ xlsxFolder .macroSheet = some "macrosheets" ∧ xlsxFolder .vba = none ∧
    (∀ a b k, Gen.xlsxKindTable.lookup a = some k → Gen.xlsxKindTable.lookup b = some k → a = b) := by
  refine ⟨by decide, by decide, by decide, by decide, by decide, ?_⟩
  intro a b k ha hb
  have h1 := lookup_mem _ _ _ ha
  have h2 := lookup_mem _ _ _ hb
  simp [Gen.xlsxKindTable] at h1 h2
  rcases h1 with ⟨rfl, rfl⟩ | ⟨rfl, rfl⟩ | ⟨rfl, rfl⟩ | ⟨rfl, rfl⟩ <;> simp at h2 <;> simp [h2]

/-- xlsx and xlsb derive the kind from the same path segments -/
theorem kind_tables_xlsx_xlsb_agree : Gen.xlsxKindTable = Gen.xlsbKindTable := by decide

/-- the kind of a sheet part `xl/<folder>/<file>`: the table entry of the folder -/
theorem kind_of_part_path (tbl : List (String × SheetType)) (folder file : List Char)
    (hf : '/' ∉ folder) :
    kindOfPath tbl ("xl/".toList ++ folder ++ '/' :: file) = tbl.lookup (String.ofList folder) := by
  have h2 : ∀ (f : List Char), '/' ∉ f → (f ++ '/' :: file).takeWhile (· != '/') = f := by
    intro f
    induction f with
    | nil => intro _; simp
    | cons c cs ih =>
      intro hf
      have hc : c ≠ '/' := fun h => hf (by simp [h])
      have := ih (fun h => hf (by simp [h]))
      simp [hc, this]
  have h1 : afterSlash ("xl/".toList ++ folder ++ '/' :: file) = some (folder ++ '/' :: file) := by
    simp [afterSlash]
  unfold kindOfPath seg1
  rw [h1]
  simp only [Option.map_some, h2 folder hf]

/-! ## xls: BoundSheet8 -/

/-- **BoundSheet8 round trip.** For every stream offset below 2^32, every visibility (with any value of the two
    reserved bits of the hsState byte), every kind BIFF8 can express, and every name of at most 255 UTF-16
    units stored 8-bit (all units < 256) or 16-bit, the reader returns the offset, the kind, the visibility and
    the name (decoded from UTF-16, NUL characters removed as the code does). -/
theorem boundsheet_roundtrip (off : Nat) (hoff : off < 4294967296) (vis : SheetVisible) (reserved : Nat)
    (kind : SheetType) (dt : Nat) (hk : xlsKindCode kind = some dt)
    (us : List Nat) (hlen : us.length < 256) (wide : Bool) (hunits : ∀ u ∈ us, u < (if wide then 65536 else 256)) :
    parseSheetMetadata (encodeBoundSheet off (xlsVisCode vis + 64 * reserved) dt us wide) true
      = .ok (off, ⟨(Biff.decodeUtf16 us).filter (· != 0), kind, vis⟩) :=
  parseSheetMetadata_encode off hoff vis reserved kind dt hk us hlen wide hunits

/-- the hypotheses of `boundsheet_roundtrip` are satisfiable: a very hidden chart sheet "Aé" stored 8-bit -/
example :
    parseSheetMetadata (encodeBoundSheet 0x1234 (xlsVisCode .veryHidden + 64 * 3) 2 [65, 233] false) true
      = .ok (0x1234, ⟨[65, 233], .chartSheet, .veryHidden⟩) := by
  have := boundsheet_roundtrip 0x1234 (by omega) .veryHidden 3 .chartSheet 2 (by decide) [65, 233] (by decide) false (by decide)
  simpa [Biff.decodeUtf16, Biff.isHigh, Biff.isLow] using this

/-- **names are exact.** A sheet name given as Unicode scalar values (none of them NUL, at most 255 UTF-16 units —
    non-BMP characters count two), stored 16-bit, comes back character for character -/
theorem boundsheet_name_exact (off : Nat) (hoff : off < 4294967296) (vis : SheetVisible) (reserved : Nat)
    (kind : SheetType) (dt : Nat) (hk : xlsKindCode kind = some dt)
    (name : Text) (hs : ∀ c ∈ name, isScalar c) (hz : ∀ c ∈ name, c ≠ 0) (hlen : (utf16 name).length < 256) :
    parseSheetMetadata (encodeBoundSheet off (xlsVisCode vis + 64 * reserved) dt (utf16 name) true) true
      = .ok (off, ⟨name, kind, vis⟩) := by
  rw [boundsheet_roundtrip off hoff vis reserved kind dt hk (utf16 name) hlen true (by simpa using utf16_lt name hs)]
  rw [decodeUtf16_utf16 name hs, filter_ne_zero name hz]

/-- satisfiable with a non-BMP character and XML specials: "A&<😀" -/
example :
    parseSheetMetadata (encodeBoundSheet 7 (xlsVisCode .hidden) 0 (utf16 [65, 38, 60, 0x1F600]) true) true
      = .ok (7, ⟨[65, 38, 60, 0x1F600], .workSheet, .hidden⟩) := by
  have := boundsheet_name_exact 7 (by omega) .hidden 0 .workSheet 0 (by decide) [65, 38, 60, 0x1F600]
    (by intro c hc; simp at hc; unfold isScalar; omega) (by decide) (by decide)
  simpa using this

/-- a state the table does not know is an error, never a silent default (here hsState = 3) -/
theorem boundsheet_unknown_state_rejected (off dt : Nat) (us : List Nat) (wide : Bool) :
    ∃ e, parseSheetMetadata (encodeBoundSheet off 3 dt us wide) true = .err e := by
  refine ⟨unrec "BoundSheet8:hsState" "3", ?_⟩
  unfold parseSheetMetadata encodeBoundSheet
  have hlen5 : ¬ ((le32 off ++ [byte 3, byte dt] ++ shortString us wide).length < 6) := by simp [le32]
  have hb4 : byteAt (le32 off ++ [byte 3, byte dt] ++ shortString us wide) 4 = 3 := by
    simp [byteAt, le32, byte_toNat]
  simp only [hlen5, if_false, hb4]
  have : Gen.xlsVisTable.lookup (3 &&& Gen.xlsVisMask) = none := by decide
  rw [this]
  rfl

/-! ## xls: the globals substream -/

/-- **xls: sheets and defined names in stream order.** A globals substream is BOF, any sequence of BoundSheet8
    records (each with a 32-bit offset inside the stream, any visibility and reserved bits, any sheet type of
    MS-XLS 2.4.28, a name of up to 255 UTF-16 units in either packing), DATEMODE records, Lbl records (name in
    either packing, any formula bytes the formula decoder `pd` accepts), ExternSheet records and records the
    loop does not interpret, then EOF and the rest of the stream (which must not begin with a CONTINUE record).
    `parse_workbook` then reports exactly the declared sheets in stream order with their names (UTF-16 decoded,
    NULs removed), kinds and visibilities; the defined names in stream order, each with the text of `pd`,
    prefixed by `<sheet>!` where `pd` found a 3-D reference — the sheet being the `itab_first`-th declared sheet
    of the referenced XTI entry (`#REF` when the entry or the sheet does not exist); and the 1904 flag iff a
    DATEMODE record carries 1. `pd` (`parse_defined_names`, C14) is arbitrary. -/
theorem sheets_in_order_xls (pd : Bytes → Res (Option Nat × Text))
    (recs : List GRec) (hall : ∀ r ∈ recs, r.ok pd) (tail : Bytes) (htail : Biff.notCont tail)
    (hoff : ∀ s ∈ declaredSheets recs, s.offset ≤ (encodeGlobals recs tail).length) :
    parseWorkbookXls pd (encodeGlobals recs tail) =
      .ok ⟨(declaredSheets recs).map (fun s => s.decoded.2),
           (declaredNames pd recs).map (resolveName (declaredXtis recs) ((declaredSheets recs).map XlsSheet.decoded)),
           declared1904 recs⟩ := by
  obtain ⟨fuel, hf⟩ := encodeGlobals_fuel recs tail
  have hg := xlsGlobals_encode pd recs hall tail htail fuel
  rw [← hf, foldl_applyRec] at hg
  have := parseWorkbookXlsWith_of_globals readUnicodeStringNoCch pd _ _ hg (by
    intro x hx
    simp only [List.nil_append] at hx
    obtain ⟨s, hs, rfl⟩ := List.mem_map.mp hx
    exact hoff s hs)
  unfold parseWorkbookXls
  rw [this]
  simp [List.map_map, Function.comp_def]

/-- the defined names alone -/
theorem defined_names_in_order_xls (pd : Bytes → Res (Option Nat × Text))
    (recs : List GRec) (hall : ∀ r ∈ recs, r.ok pd) (tail : Bytes) (htail : Biff.notCont tail)
    (hoff : ∀ s ∈ declaredSheets recs, s.offset ≤ (encodeGlobals recs tail).length) :
    ∀ wb, parseWorkbookXls pd (encodeGlobals recs tail) = .ok wb →
      wb.names = (declaredNames pd recs).map (resolveName (declaredXtis recs) ((declaredSheets recs).map XlsSheet.decoded)) := by
  intro wb h
  rw [sheets_in_order_xls pd recs hall tail htail hoff] at h
  cases h
  rfl

/-- **the XTI → sheet resolution against an independent specification.** `Refers` / `NameMeets` (Spec/MetadataEnc) are
    written from MS-XLS 2.4.105 / 2.4.150 / 2.5.198.x, not from the code: a 3-D reference through XTI entry `ixti`
    designates the sheet with BoundSheet8 index `itabFirst` (signed 16 bit) of that entry; a reference that designates
    no sheet of the workbook (no such entry, `itabFirst` = −1 / −2 / beyond the last sheet) reads `#REF`. For every
    declared Lbl, whatever its scope `itab` (global or sheet-local: the encoder takes any value and the result does
    not mention it), the reader reports at the same position the name and the text the specification demands. -/
theorem defined_names_xls_meet_spec (pd : Bytes → Res (Option Nat × Text))
    (recs : List GRec) (hall : ∀ r ∈ recs, r.ok pd) (tail : Bytes) (htail : Biff.notCont tail)
    (hoff : ∀ s ∈ declaredSheets recs, s.offset ≤ (encodeGlobals recs tail).length)
    (wb : Workbook Text) (h : parseWorkbookXls pd (encodeGlobals recs tail) = .ok wb) :
    wb.names.length = (declaredNames pd recs).length ∧
    ∀ (i : Nat) (decl : Text × Option Nat × Text), (declaredNames pd recs)[i]? = some decl → ∃ got : Text × Text, wb.names[i]? = some got ∧
      NameMeets ((declaredSheets recs).map (fun s => s.decoded.2.name)) (declaredXtiTriples recs) decl got := by
  have hn := defined_names_in_order_xls pd recs hall tail htail hoff wb h
  rw [hn, declaredXtis_eq]
  refine ⟨by simp, ?_⟩
  intro i decl hd
  refine ⟨_, by rw [List.getElem?_map, hd]; rfl, ?_⟩
  have := resolveName_meets ((declaredSheets recs).map XlsSheet.decoded) (declaredXtiTriples recs) decl
  simpa [List.map_map, Function.comp_def] using this

/-- **defined names decoded (formula decoder instantiated with C14's model).** With `pd` = C14's model of
    `parse_defined_names`: a Lbl whose formula is a 3-D cell reference (`PtgRef3d`, any operand class) through XTI
    entry `ixti` to the cell `a` (row below 2^16, column below 2^14, absolute or relative row / column) is acceptable
    to the decoder, and when the reference designates the sheet named `s` it is reported, at the position of the Lbl
    among the Lbl records, as `<name>` ↦ `s!<A1 text of a>` — `$` exactly before the absolute parts (C14
    `ref_text_flags`), e.g. `S1!$B$3`, `S1!A1` — by `parse_workbook`. -/
theorem defined_names_xls_decoded
    (pre post : List GRec) (us : List Nat) (wide : Bool) (itab : Nat) (op : UInt8) (hop : op = 0x3A ∨ op = 0x5A ∨ op = 0x7A)
    (ixti : Nat) (hi : ixti < 65536) (a : Formula.CellRef) (hr : a.row < 65536) (hcol : a.col < 16384)
    (hall : ∀ r ∈ pre ++ .lbl us wide itab (op :: (Biff.le16 ixti ++ (Biff.le16 a.row ++ Biff.le16 (Formula.colRel a)))) :: post, r.ok pdC14)
    (tail : Bytes) (htail : Biff.notCont tail)
    (hoff : ∀ s ∈ declaredSheets (pre ++ .lbl us wide itab (op :: (Biff.le16 ixti ++ (Biff.le16 a.row ++ Biff.le16 (Formula.colRel a)))) :: post),
      s.offset ≤ (encodeGlobals (pre ++ .lbl us wide itab (op :: (Biff.le16 ixti ++ (Biff.le16 a.row ++ Biff.le16 (Formula.colRel a)))) :: post) tail).length)
    (s : Text)
    (href : Refers ((declaredSheets (pre ++ .lbl us wide itab (op :: (Biff.le16 ixti ++ (Biff.le16 a.row ++ Biff.le16 (Formula.colRel a)))) :: post)).map (fun s => s.decoded.2.name))
      (declaredXtiTriples (pre ++ .lbl us wide itab (op :: (Biff.le16 ixti ++ (Biff.le16 a.row ++ Biff.le16 (Formula.colRel a)))) :: post)) ixti s)
    (wb : Workbook Text)
    (h : parseWorkbookXls pdC14 (encodeGlobals (pre ++ .lbl us wide itab (op :: (Biff.le16 ixti ++ (Biff.le16 a.row ++ Biff.le16 (Formula.colRel a)))) :: post) tail) = .ok wb) :
    wb.names[(declaredNames pdC14 pre).length]? = some (Biff.decodeUtf16 us, s ++ 33 :: textOfChars (Formula.cellText a)) := by
  obtain ⟨_, hsp⟩ := defined_names_xls_meet_spec pdC14 _ hall tail htail hoff wb h
  have hpd := pdC14_ref3d op hop ixti hi a hr hcol
  have hdecl : (declaredNames pdC14 (pre ++ .lbl us wide itab (op :: (Biff.le16 ixti ++ (Biff.le16 a.row ++ Biff.le16 (Formula.colRel a)))) :: post))[(declaredNames pdC14 pre).length]? =
      some (Biff.decodeUtf16 us, some ixti, textOfChars (Formula.cellText a)) := by
    rw [declaredNames_append]
    simp [declaredNames, pdValue, hpd]
  obtain ⟨got, hg, hname, hrest⟩ := hsp _ _ hdecl
  rw [hg]
  simp only at hrest hname
  have := hrest.1 s href
  obtain ⟨g1, g2⟩ := got
  simp only at hname this
  rw [hname, this]

/-- the decoder hypothesis of `defined_names_xls_decoded` holds for concrete tokens: `PtgRef3d` (value class) through
    XTI 0 to `$B$3`, and to the relative `B3` -/
example :
    pdC14 (0x5A :: (Biff.le16 0 ++ (Biff.le16 2 ++ Biff.le16 (Formula.colRel ⟨2, 1, true, true⟩)))) =
      .ok (some 0, textOfChars (Formula.cellText ⟨2, 1, true, true⟩)) ∧
    pdC14 (0x3A :: (Biff.le16 0 ++ (Biff.le16 2 ++ Biff.le16 (Formula.colRel ⟨2, 1, false, false⟩)))) =
      .ok (some 0, textOfChars (Formula.cellText ⟨2, 1, false, false⟩)) :=
  ⟨pdC14_ref3d 0x5A (by decide) 0 (by decide) ⟨2, 1, true, true⟩ (by decide) (by decide),
   pdC14_ref3d 0x3A (by decide) 0 (by decide) ⟨2, 1, false, false⟩ (by decide) (by decide)⟩

/-- **xls: the date-system flag** read from the globals is the one DATEMODE declares -/
theorem date1904_flag_xls (pd : Bytes → Res (Option Nat × Text))
    (recs : List GRec) (hall : ∀ r ∈ recs, r.ok pd) (tail : Bytes) (htail : Biff.notCont tail)
    (hoff : ∀ s ∈ declaredSheets recs, s.offset ≤ (encodeGlobals recs tail).length) :
    ∀ wb, parseWorkbookXls pd (encodeGlobals recs tail) = .ok wb → wb.is1904 = declared1904 recs := by
  intro wb h
  rw [sheets_in_order_xls pd recs hall tail htail hoff] at h
  cases h
  rfl

set_option maxRecDepth 8000 in
/-- satisfiable: WRITEACCESS noise, DATEMODE 1, a hidden macro sheet stored 16-bit and a very hidden chart sheet
    stored 8-bit with reserved bits set, an ExternSheet whose second entry points at the first sheet, a 16-bit
    defined name "Жы" (the case of ledger D35) whose formula the decoder reads as a reference through XTI 1, and a
    name without sheet -/
example :
    parseWorkbookXls (fun rg => .ok (if rg = [1] then (some 1, [36, 65, 36, 49]) else (none, [55])))
      (encodeGlobals [.neutral 0x005C [1, 2, 3], .date 1, .sheet ⟨40, 0, .hidden, 1, [0x416, 0x44B], true⟩,
                      .neutral 0x0293 [], .sheet ⟨60, 3, .veryHidden, 2, [65, 233], false⟩,
                      .extern [(0, 1, 1), (0, 0, 0), (0, 0xFFFE, 0xFFFE)],
                      .lbl [0x416, 0x44B] true 0 [1], .lbl [110] false 0 [2], .lbl [98] false 0 [1]] []) =
      .ok ⟨[⟨[0x416, 0x44B], .macroSheet, .hidden⟩, ⟨[65, 233], .chartSheet, .veryHidden⟩],
           [([0x416, 0x44B], [0x416, 0x44B, 33, 36, 65, 36, 49]), ([110], [55]), ([98], [0x416, 0x44B, 33, 36, 65, 36, 49])],
           true⟩ := by
  decide

/-! ## xlsb: `xl/workbook.bin` -/

/-- **BrtBundleSh round trip.** For every visibility, tab id below 2^32, relationship id and sheet name of
    fewer than 2^31 UTF-16 units each, with a relationship that resolves to a part in a known folder: the record
    decodes to the declared name (UTF-16 decoded), visibility, the kind of the folder, and the part path. -/
theorem bundlesh_roundtrip (rels : List (Text × String)) (s : XlsbSheet) (hs : s.ok rels) :
    bundleSh rels (encodeBundleSh (xlsbVisCode s.vis) s.tabId s.relUnits s.nameUnits) = .ok (some (s.decoded rels)) :=
  bundleSh_encode rels s hs

/-- xlsb names are exact: a BrtBundleSh whose name is the UTF-16 encoding of a text of scalar values decodes to that text -/
theorem bundlesh_name_exact (rels : List (Text × String)) (vis : SheetVisible) (tabId : Nat) (relUnits : List Nat) (name : Text)
    (hn : ∀ c ∈ name, isScalar c) (hs : XlsbSheet.ok rels ⟨vis, tabId, relUnits, utf16 name⟩) :
    ∃ kind path, bundleSh rels (encodeBundleSh (xlsbVisCode vis) tabId relUnits (utf16 name)) = .ok (some (⟨name, kind, vis⟩, path)) := by
  refine ⟨((XlsbSheet.decoded rels ⟨vis, tabId, relUnits, utf16 name⟩).1).typ, (XlsbSheet.decoded rels ⟨vis, tabId, relUnits, utf16 name⟩).2, ?_⟩
  have := bundlesh_roundtrip rels ⟨vis, tabId, relUnits, utf16 name⟩ hs
  simp only at this
  rw [this]
  simp only [XlsbSheet.decoded, decodeUtf16_utf16 name hn]

/-- **xlsb: sheets in part order, whatever the framing.** `workbook.bin` is any sequence of BrtBundleSh records,
    BrtWbProp records and records the loop does not interpret (any id below 2^14 other than the three it knows,
    any payload — BrtBookView, BrtFileVersion, future records), each framed with any legal id width and length
    width, then BrtEndBundleShs and one of the records that follow the defined names. `read_workbook` (after fix
    C16-a) reports exactly the declared sheets in order, and bit 0 of the last BrtWbProp as the date system.
    `pf` (the formula decoder, C14) is arbitrary; the defined names are described by `defined_names_in_order_xlsb`. -/
theorem sheets_in_order_xlsb (pf : Bytes → List Text → List (Text × Text) → Res Text) (rels : List (Text × String))
    (recs : List WRec) (hall : ∀ r ∈ recs, r.ok rels) (ew : Bool) (el : Nat)
    (nrecs : List NRec) (hok : namesOk pf ((declaredW recs).map (XlsbSheet.decoded rels)) ([], []) nrecs)
    (t : Nat) (ht : isAfterNames t = true) (tw : Bool) (tl : Nat) (rest : Bytes) :
    readWorkbookXlsb pf rels (encodeWorkbookBin recs ew el (nrecs.flatMap NRec.bytes ++ (Xlsb.frame t [] tw tl ++ rest))) =
      .ok (⟨(declaredW recs).map (fun s => (s.decoded rels).1),
            (nrecs.foldl (applyN pf ((declaredW recs).map (XlsbSheet.decoded rels))) ([], [])).2, flagW recs⟩,
           (declaredW recs).map (fun s => (s.decoded rels).2)) := by
  obtain ⟨fuel, hf⟩ := encodeWorkbookBin_fuel recs ew el (nrecs.flatMap NRec.bytes ++ (Xlsb.frame t [] tw tl ++ rest))
  unfold readWorkbookXlsb readWorkbookXlsbWith
  have h1 := loop1_encode rels recs hall ew el (nrecs.flatMap NRec.bytes ++ (Xlsb.frame t [] tw tl ++ rest)) fuel
  unfold xlsbLoop1 at h1
  rw [hf, h1]
  simp only
  rw [foldl_applyW]
  simp only [List.nil_append]
  rw [loop2_encode pf _ nrecs hok t ht tw tl rest]
  simp [flagW, List.map_map, Function.comp_def]

/-- **xlsb: defined names in part order.** After the sheet list: any sequence of BrtExternSheet records, BrtName
    records (any flags, scope, name, formula bytes the formula decoder accepts in the state reached so far,
    anything after the formula) and records the loop does not interpret, under any framing, up to one of the
    records that follow the names. The reader reports one entry per BrtName, in order: the name (UTF-16 decoded)
    and the text `pf` gives for the formula bytes, the extern-sheet names current at that point (each XTI's first
    sheet resolved against the sheet list) and the names defined before it. -/
theorem defined_names_in_order_xlsb (pf : Bytes → List Text → List (Text × Text) → Res Text) (rels : List (Text × String))
    (recs : List WRec) (hall : ∀ r ∈ recs, r.ok rels) (ew : Bool) (el : Nat)
    (nrecs : List NRec) (hok : namesOk pf ((declaredW recs).map (XlsbSheet.decoded rels)) ([], []) nrecs)
    (t : Nat) (ht : isAfterNames t = true) (tw : Bool) (tl : Nat) (rest : Bytes) :
    ∀ wb p, readWorkbookXlsb pf rels (encodeWorkbookBin recs ew el (nrecs.flatMap NRec.bytes ++ (Xlsb.frame t [] tw tl ++ rest))) = .ok (wb, p) →
      wb.names = (nrecs.foldl (applyN pf ((declaredW recs).map (XlsbSheet.decoded rels))) ([], [])).2 := by
  intro wb p h
  rw [sheets_in_order_xlsb pf rels recs hall ew el nrecs hok t ht tw tl rest] at h
  cases h
  rfl

set_option maxRecDepth 8000 in
/-- satisfiable: one sheet "A", an ExternSheet whose entries point at this workbook, at sheet 0 and at a missing
    sheet, an unknown record with payload, and two names; the stand-in formula decoder shows which extern-sheet
    table and how many earlier names it was handed -/
example :
    readWorkbookXlsb (fun rg ext names => .ok ((ext.getD 1 []) ++ [33] ++ rg.map (·.toNat) ++ [48 + names.length]))
      [([114, 73, 100, 49], "worksheets/sheet1.bin")]
      (encodeWorkbookBin [.sheet ⟨.visible, 1, [114, 73, 100, 49], [65]⟩ false 0] false 0
        ([NRec.extern [(0, 0xFFFFFFFE, 0xFFFFFFFE), (0, 0, 0), (0, 7, 7)] false 0, .other 0x0C00 [0x27, 0x6A] true 2,
          .name ⟨0, 0xFFFFFFFF, [110, 0x416], [7], [0, 0, 0, 0]⟩ false 0,
          .name ⟨2, 0, [98], [8, 9], []⟩ true 4].flatMap NRec.bytes ++ Xlsb.frame 0x0084 [] false 0)) =
      .ok (⟨[⟨[65], .workSheet, .visible⟩], [([110, 0x416], [65, 33, 7, 48]), ([98], [65, 33, 8, 9, 49])], false⟩,
           ["xl/worksheets/sheet1.bin".toList]) := by
  decide

/-- **xlsb: the date-system flag** is bit 0 of BrtWbProp -/
theorem date1904_flag_xlsb (pf : Bytes → List Text → List (Text × Text) → Res Text) (rels : List (Text × String))
    (recs : List WRec) (hall : ∀ r ∈ recs, r.ok rels) (ew : Bool) (el : Nat)
    (t : Nat) (ht : isAfterNames t = true) (tw : Bool) (tl : Nat) (rest : Bytes) :
    ∀ wb p, readWorkbookXlsb pf rels (encodeWorkbookBin recs ew el (Xlsb.frame t [] tw tl ++ rest)) = .ok (wb, p) →
      wb.is1904 = flagW recs := by
  intro wb p h
  have := sheets_in_order_xlsb pf rels recs hall ew el [] trivial t ht tw tl rest
  simp only [List.flatMap_nil, List.nil_append] at this
  rw [this] at h
  cases h
  rfl

/-- satisfiable: BrtBeginBook, BrtWbProp with f1904, a BrtBookView whose window geometry holds the bytes `90 01`
    and `9C 01` (the pinned reader lost every sheet on it, finding C16-a), two sheets (hidden chart sheet,
    very hidden work sheet) under mixed framings, BrtEndBundleShs, BrtEndBook -/
def bookViewPayload : Bytes :=
  [0x9C, 0x01, 0, 0, 0, 0, 0, 0, 0x90, 0x01, 0, 0, 0x0C, 0x30, 0, 0, 0x58, 0x02, 0, 0, 0, 0, 0, 0, 0, 0, 0, 0, 0x78]

def c16aRels : List (Text × String) := [([114, 73, 100, 49], "chartsheets/sheet1.bin"), ([114, 73, 100, 50], "worksheets/sheet2.bin")]

def c16aBook : Bytes :=
  encodeWorkbookBin
    [.other 0x0083 [] false 0, .wbprop 1 false 0, .other 0x0087 [] false 0, .other 0x009E bookViewPayload true 3,
     .other 0x0088 [] false 0, .other 0x008F [] false 0,
     .sheet ⟨.hidden, 1, [114, 73, 100, 49], [0x416, 0xD83D, 0xDE00]⟩ false 0,
     .sheet ⟨.veryHidden, 2, [114, 73, 100, 50], [65]⟩ true 4]
    false 0 (Xlsb.frame 0x0084 [] false 0)

set_option maxRecDepth 8000 in
example :
    readWorkbookXlsb (fun _ _ _ => .ok []) c16aRels c16aBook =
      .ok (⟨[⟨[0x416, 0x1F600], .chartSheet, .hidden⟩, ⟨[65], .workSheet, .veryHidden⟩], [], true⟩,
           ["xl/chartsheets/sheet1.bin".toList, "xl/worksheets/sheet2.bin".toList]) := by
  decide

set_option maxRecDepth 8000 in
/-- finding C16-a as a checked statement: on the same part the pinned reader (payload bytes of unknown records
    read as record ids) ends the sheet list at the bytes `90 01` inside BrtBookView and reports no sheet at all -/
theorem c16a_witness :
    readWorkbookXlsbPinned (fun _ _ _ => .ok []) c16aRels
      (encodeWorkbookBin
        [.other 0x0083 [] false 0, .wbprop 1 false 0, .other 0x0087 [] false 0,
         .other 0x009E ([0, 0, 0, 0, 0, 0, 0, 0, 0x90, 0x01, 0, 0] ++ List.replicate 17 0) false 0,
         .other 0x0088 [] false 0, .other 0x008F [] false 0,
         .sheet ⟨.hidden, 1, [114, 73, 100, 49], [65]⟩ false 0]
        false 0 (Xlsb.frame 0x0084 [] false 0)) = .ok (⟨[], [], true⟩, []) := by
  decide

/-! ## xlsx: `xl/workbook.xml` (event level; quick-xml trusted) -/

def d22Events : List Ev :=
  [.start "x:workbook" [], .start "x:workbookPr" [("date1904", "1")], .end_ "x:workbookPr",
   .start "x:sheets" [], .start "x:sheet" [("name", "S1"), ("sheetId", "1"), ("r:id", "rId1")], .end_ "x:sheet",
   .end_ "x:sheets", .end_ "x:workbook"]

def d22Rels : List (String × String) := [("rId1", "worksheets/sheet1.xml")]



/-- **xlsx: sheets, defined names and the date flag in document order.** For every element prefix (`q` with
    `local_name (q s) = s`), every spelling of the relationship-id attribute with a prefix and local name `id`,
    every list of declared sheets whose relationship resolves to a part in a known folder, every list of
    defined names (character data in any number of pieces, each ordinary text or a CDATA section — both count
    alike after fix 5d9aab9) and every `workbookPr` attribute list:
    the reader reports exactly the declared sheets in order (name, kind from the folder, visibility from
    `state`, default visible), the defined names in order with their concatenated text, and
    `date1904 ∈ {"1","true"}` — and an `<extLst>` at the end of the workbook element changes nothing of this,
    whatever it contains (elements of any namespace and local name, text, comments; only a nested element with
    the list's own qualified name is excluded): after fix 4dbff9e its subtree is skipped. Between these children
    (five positions, `Gaps`) any inert events may occur: start tags whose local name is not one of the four the
    reader interprets (`fileVersion`, `bookViews`, `calcPr`, `mc:AlternateContent`, `externalReferences`,
    `pivotCaches`, … with any attributes and nesting), foreign `workbookPr` twins without a `date1904` attribute
    (before or after the real element), end tags other than the workbook's, text, comments, PIs. -/
theorem sheets_in_order_xlsx (rels : List (String × String)) (q : String → String) (hq : QOk q)
    (ridKey : String) (hk : ridKeyOk ridKey) (pr : Option (List (String × String)))
    (sheets : List XSheet) (hs : ∀ s ∈ sheets, s.ok rels) (names : List (String × List (Bool × String)))
    (ext : Option (List Ev)) (hext : ∀ body, ext = some body → ExtOk (q "extLst") body)
    (g : Gaps) (hg : g.ok) :
    readWorkbookXlsx rels (workbookEvents q ridKey pr sheets names ext g) =
      .ok (⟨sheets.map (fun s => ⟨s.name, s.kind, s.vis⟩), names.map dnValue, (pr.map date1904Attr).getD false⟩,
           sheets.map (fun s => xlsxPath s.target.toList)) := by
  unfold readWorkbookXlsx xlsxLoop workbookEvents
  have e1 : ∀ (n : String), n ∈ xlsxNames → n ≠ "extLst" → n ≠ "sheet" → n ≠ "workbookPr" → n ≠ "definedName" →
      ∀ (a : List (String × String)) (rest : List Ev) (st : XlsxSt), st.cur = none → st.skip = none →
      xlsxLoopWith cfgNow rels (.start (q n) a :: rest) st = xlsxLoopWith cfgNow rels rest st :=
    fun n hm h0 h1 h2 h3 a rest st hc hk =>
      loop_start_skip _ _ _ _ _ _ hc hk (by rw [hq n hm]; exact h0) (by rw [hq n hm]; exact h1)
        (by rw [pm_q q hq n hm]; simp [h2]) (by rw [hq n hm]; exact h3)
  have e4 : ∀ (n : String), n ∈ xlsxNames → n ≠ "workbook" → ∀ (rest : List Ev) (st : XlsxSt), st.cur = none → st.skip = none →
      xlsxLoopWith cfgNow rels (.end_ (q n) :: rest) st = xlsxLoopWith cfgNow rels rest st :=
    fun n hm hn rest st hc hk => loop_end_skip _ _ _ _ _ hc hk (by rw [hq n hm]; exact hn)
  rw [e1 "workbook" (by decide) (by decide) (by decide) (by decide) (by decide) _ _ _ rfl rfl]
  -- the optional <workbookPr/>
  have hpr : ∀ (rest : List Ev),
      xlsxLoopWith cfgNow rels (prEvents q pr ++ rest) ⟨[], [], false, none, none⟩ =
      xlsxLoopWith cfgNow rels rest ⟨[], [], (pr.map date1904Attr).getD false, none, none⟩ := by
    intro rest
    cases pr with
    | none => rfl
    | some attrs =>
      simp only [prEvents, List.cons_append, List.nil_append, Option.map_some, Option.getD_some]
      rw [loop_start_pr _ _ _ _ _ _ _ _ (by rw [hq "workbookPr" (by decide)]; decide) (by rw [hq "workbookPr" (by decide)]; decide)
        (by rw [pm_q q hq "workbookPr" (by decide)]; decide)]
      rw [e4 "workbookPr" (by decide) (by decide) _ _ rfl rfl]
      have : cfgNow.keepFlag = true := rfl
      rw [this, date1904Upd_false]
  -- the optional <extLst>…</extLst>: skipped whatever it holds
  have hx : ∀ (rest : List Ev) (sh : List (Sheet String × List Char)) (nm : List (String × String)) (d : Bool),
      xlsxLoopWith cfgNow rels (extEvents q ext ++ rest) ⟨sh, nm, d, none, none⟩ =
      xlsxLoopWith cfgNow rels rest ⟨sh, nm, d, none, none⟩ := by
    intro rest sh nm d
    cases hE : ext with
    | none => rfl
    | some body =>
      simp only [extEvents, List.cons_append, List.append_assoc, List.nil_append]
      rw [loop_start_ext _ _ rfl _ _ _ _ _ _ (hq "extLst" (by decide))]
      rw [loop_skip_body _ _ (q "extLst") 0 body (hext body hE) _ _ rfl, loop_skip_end]
  have h0 : ({} : XlsxSt) = ⟨[], [], false, none, none⟩ := rfl
  obtain ⟨hg0, hg1, hg2, hg3, hg4⟩ := hg
  rw [h0, loop_inert rels g.g0 hg0 _ _ rfl rfl, hpr, loop_inert rels g.g1 hg1 _ _ rfl rfl,
    e1 "sheets" (by decide) (by decide) (by decide) (by decide) (by decide) _ _ _ rfl rfl,
    loop_sheets _ _ q hq ridKey hk sheets hs, e4 "sheets" (by decide) (by decide) _ _ rfl rfl, loop_inert rels g.g2 hg2 _ _ rfl rfl,
    e1 "definedNames" (by decide) (by decide) (by decide) (by decide) (by decide) _ _ _ rfl rfl,
    loop_names _ _ q hq (by rw [pm_q q hq "definedName" (by decide)]; decide) rfl, e4 "definedNames" (by decide) (by decide) _ _ rfl rfl,
    loop_inert rels g.g3 hg3 _ _ rfl rfl, hx, loop_inert rels g.g4 hg4 _ _ rfl rfl,
    loop_end_workbook _ _ _ _ _ rfl rfl (hq "workbook" (by decide))]
  simp [xlsxFinish, xsheetDecoded, List.map_map, Function.comp_def]

/-- the hypotheses of `sheets_in_order_xlsx` are satisfiable: prefix `x:`, `rel:id`, a hidden chart sheet and a
    very hidden macro sheet (kind known after fix D27), a defined name with XML specials split over a text event and a CDATA section -/
example :
    readWorkbookXlsx [("rId1", "chartsheets/sheet1.xml"), ("rId2", "/xl/macrosheets/sheet2.xml")]
      (workbookEvents (fun s => "x:" ++ s) "rel:id" (some [("date1904", "true")])
        [⟨"A & <B>", "1", .hidden, true, "rId1", "chartsheets/sheet1.xml", .chartSheet⟩,
         ⟨"😀", "2", .veryHidden, true, "rId2", "/xl/macrosheets/sheet2.xml", .macroSheet⟩]
        [("n", [(false, "1<2"), (true, "&\"x\"")])]) =
      .ok (⟨[⟨"A & <B>", .chartSheet, .hidden⟩, ⟨"😀", .macroSheet, .veryHidden⟩], [("n", "1<2&\"x\"")], true⟩,
           ["xl/chartsheets/sheet1.xml".toList, "xl/macrosheets/sheet2.xml".toList]) := by
  decide

/-- the hypotheses on the name qualifier and on the relationship-id attribute are satisfiable without a prefix
    (`q = id`: what Excel writes), with the prefix `x:`, and with the relationship prefixes `r`, `relationships`,
    `rel` — and even with a prefix literally named `id` (`id:id`), while the declaration `xmlns:id` of that prefix
    is NOT taken for the relationship id (fix f69fe90, finding C16-f) -/
example : QOk id ∧ QOk (fun s => "x:" ++ s) ∧ ridKeyOk "r:id" ∧ ridKeyOk "relationships:id" ∧ ridKeyOk "rel:id" ∧
    ridKeyOk "id:id" ∧ ¬ ridKeyOk "xmlns:id" := by
  unfold ridKeyOk
  refine ⟨?_, ?_, by decide, by decide, by decide, by decide, by decide⟩ <;>
    (intro n hn; simp [xlsxNames] at hn; rcases hn with rfl | rfl | rfl | rfl | rfl | rfl | rfl <;> decide)

/-- finding C16-f as a concrete run: every `<sheet>` declares the relationships namespace itself under the prefix `id`;
    the attribute list is `name, sheetId, xmlns:id, id:id` and the sheet is read through `id:id` -/
example :
    readWorkbookXlsx d22Rels
      [.start "workbook" [], .start "sheets" [],
       .start "sheet" [("name", "S1"), ("sheetId", "1"),
                       ("xmlns:id", "http://schemas.openxmlformats.org/officeDocument/2006/relationships"), ("id:id", "rId1")],
       .end_ "sheet", .end_ "sheets", .end_ "workbook"] =
      .ok (⟨[⟨"S1", .workSheet, .visible⟩], [], false⟩, ["xl/worksheets/sheet1.xml".toList]) := by
  decide

/-- **xlsx: defined names in document order; text and CDATA contribute alike.** The value reported for a name is
    the concatenation of all its character-data pieces in order, whether a piece is ordinary text or a CDATA
    section (`dnValue` ignores the flag) -/
theorem defined_names_in_order_xlsx (rels : List (String × String)) (q : String → String) (hq : QOk q)
    (ridKey : String) (hk : ridKeyOk ridKey) (pr : Option (List (String × String)))
    (sheets : List XSheet) (hs : ∀ s ∈ sheets, s.ok rels) (names : List (String × List (Bool × String))) :
    (readWorkbookXlsx rels (workbookEvents q ridKey pr sheets names)).isOk = true ∧
    ∀ wb p, readWorkbookXlsx rels (workbookEvents q ridKey pr sheets names) = .ok (wb, p) →
      wb.names = names.map (fun n => (n.1, n.2.foldl (fun acc c => acc ++ c.2) "")) := by
  rw [sheets_in_order_xlsx rels q hq ridKey hk pr sheets hs names none (by intro _ h; cases h) {} gaps_ok_empty]
  refine ⟨rfl, ?_⟩
  intro wb p h
  cases h
  rfl

/-- finding C16-d as a checked statement: `<definedName name="N">Sheet1!<![CDATA[$A$1]]></definedName>` — the reader
    before 5d9aab9 dropped the CDATA part, the current one reports the whole text -/
theorem c16d_witness :
    readWorkbookXlsxNoCData [] (workbookEvents id "r:id" none [] [("N", [(false, "Sheet1!"), (true, "$A$1")])]) =
      .ok (⟨[], [("N", "Sheet1!")], false⟩, []) ∧
    readWorkbookXlsx [] (workbookEvents id "r:id" none [] [("N", [(false, "Sheet1!"), (true, "$A$1")])]) =
      .ok (⟨[], [("N", "Sheet1!$A$1")], false⟩, []) := by
  decide

/-- **xlsx: the date-system flag** is `true` exactly for `date1904="1"` / `"true"` on the main-namespace
    `workbookPr`, whatever prefix that element has (fix D22), and inert foreign content does not change it: an
    extension list holding, e.g., `<x15:workbookPr chartTrackingRefBase="1"/>` (no `date1904` attribute; written
    by Excel 2013+), `x14:definedName` or any other element whose local name collides with one the reader
    interprets leaves the flag — and the sheets and names — as declared (fix 4dbff9e; finding C16-b) -/
theorem date1904_flag_xlsx (rels : List (String × String)) (q : String → String) (hq : QOk q)
    (ridKey : String) (hk : ridKeyOk ridKey) (v : String)
    (sheets : List XSheet) (hs : ∀ s ∈ sheets, s.ok rels) (names : List (String × List (Bool × String)))
    (ext : Option (List Ev)) (hext : ∀ body, ext = some body → ExtOk (q "extLst") body) (g : Gaps) (hg : g.ok) :
    ∀ wb p, readWorkbookXlsx rels (workbookEvents q ridKey (some [("date1904", v)]) sheets names ext g) = .ok (wb, p) →
      wb.is1904 = (v = "1" || v = "true") := by
  rw [sheets_in_order_xlsx rels q hq ridKey hk _ sheets hs names ext hext g hg]
  intro wb p h
  cases h
  simp [date1904Attr, List.lookup]

/-- the extension list Excel 2013+ writes, plus an Excel-2010 function description and a foreign `sheet` -/
def x15Ext : List Ev :=
  [.start "ext" [("uri", "{140A7094-0E35-4892-8432-C4D2E57EDEB5}")], .start "x15:workbookPr" [("chartTrackingRefBase", "1")],
   .end_ "x15:workbookPr", .end_ "ext",
   .start "ext" [("uri", "{46BE6895-7355-4a93-B00E-2C351335B9C9}")], .start "x14:definedName" [("name", "ExtFn")],
   .text "first argument", .end_ "x14:definedName", .start "x15:sheet" [("name", "shadow")], .end_ "x15:sheet", .end_ "ext"]

/-- `x15Ext` meets the hypothesis of the two theorems above -/
example : ExtOk "extLst" x15Ext := by
  intro e he
  simp [x15Ext] at he
  rcases he with rfl | rfl | rfl | rfl | rfl | rfl | rfl | rfl | rfl | rfl | rfl <;> simp

/-- the inert content Excel really writes around the interpreted children meets `Gaps.ok` … -/
def excelGaps : Gaps :=
  { g0 := [.start "fileVersion" [("appName", "xl")], .end_ "fileVersion"],
    g1 := [.start "mc:AlternateContent" [], .start "mc:Choice" [("Requires", "x15")], .start "x15ac:absPath" [("url", "C:\\")],
           .end_ "x15ac:absPath", .end_ "mc:Choice", .end_ "mc:AlternateContent",
           .start "bookViews" [], .start "workbookView" [("xWindow", "0")], .end_ "workbookView", .end_ "bookViews"],
    g2 := [.start "mc:AlternateContent" [], .start "x15:workbookPr" [("chartTrackingRefBase", "1")], .end_ "x15:workbookPr",
           .end_ "mc:AlternateContent", .other, .start "externalReferences" [], .start "externalReference" [("r:id", "rId9")], .end_ "externalReference",
           .end_ "externalReferences"],
    g3 := [.start "calcPr" [("calcId", "191029")], .end_ "calcPr", .start "pivotCaches" [], .text "\n", .end_ "pivotCaches"],
    g4 := [.other] }

example : excelGaps.ok := by
  refine ⟨?_, ?_, ?_, ?_, ?_⟩ <;> intro e he <;> simp [excelGaps] at he <;>
    (first | (rcases he with rfl | rfl | rfl | rfl | rfl | rfl | rfl | rfl | rfl | rfl <;> decide)
           | (rcases he with rfl | rfl | rfl | rfl | rfl | rfl | rfl | rfl | rfl <;> decide)
           | (rcases he with rfl | rfl | rfl | rfl | rfl <;> decide)
           | (rcases he with rfl | rfl <;> decide)
           | (subst he; decide))

/-- … and the full workbook with them reads as declared (concrete run of the model) -/
example :
    readWorkbookXlsx d22Rels
      (workbookEvents id "r:id" (some [("date1904", "1")]) [⟨"S1", "1", .hidden, true, "rId1", "worksheets/sheet1.xml", .workSheet⟩]
        [("N", [(false, "S1!$A$1")])] (some x15Ext) excelGaps) =
      .ok (⟨[⟨"S1", .workSheet, .hidden⟩], [("N", "S1!$A$1")], true⟩, ["xl/worksheets/sheet1.xml".toList]) := by
  decide

/-- finding C16-b as a checked statement. On a 1904-system workbook that carries `x15Ext`: the reader between the
    D22 fix and 4dbff9e (local-name match, flag reset, no skipping) opens the workbook, loses the flag, lists the
    function description as a defined name — and fails on the foreign `sheet`; restricted to the element Excel
    really writes it silently reports `is_1904 = false`. The current reader reports what the workbook declares. -/
theorem c16b_witness :
    readWorkbookXlsxD22Fix d22Rels
      (workbookEvents id "r:id" (some [("date1904", "1")]) [⟨"S1", "1", .visible, false, "rId1", "worksheets/sheet1.xml", .workSheet⟩] []
        (some (x15Ext.take 4))) = .ok (⟨[⟨"S1", .workSheet, .visible⟩], [], false⟩, ["xl/worksheets/sheet1.xml".toList]) ∧
    readWorkbookXlsx d22Rels
      (workbookEvents id "r:id" (some [("date1904", "1")]) [⟨"S1", "1", .visible, false, "rId1", "worksheets/sheet1.xml", .workSheet⟩] []
        (some x15Ext)) = .ok (⟨[⟨"S1", .workSheet, .visible⟩], [], true⟩, ["xl/worksheets/sheet1.xml".toList]) := by
  decide

/-! ## ods: `content.xml` (event level; quick-xml trusted) -/

/-- **ods: sheets and named ranges in document order**, whatever inert elements (`InertO`: any start tag the reader
    does not interpret, any end tag, text, comments, PIs) sit at the five positions between the interpreted parts. -/
theorem sheets_in_order_ods (styles : List (String × Option Bool)) (tables : List OTable) (ht : ∀ t ∈ tables, t.ok)
    (names : List (String × String)) (g : Gaps) (hg : g.okO) :
    parseContentOds (contentEvents styles tables names g) =
      .ok ⟨tables.map (fun t => ⟨t.name, .workSheet, tableVis styles t⟩), names, false⟩ := by
  unfold parseContentOds contentEvents
  obtain ⟨hg0, hg1, hg2, hg3, hg4⟩ := hg
  have h0 : ({} : OdsSt) = ⟨[], [], [], none, .top⟩ := rfl
  rw [h0]
  rw [ods_top_start_skip _ _ _ _ _ _ _ (by decide) (by decide) (by decide) (by decide), ods_inert g.g0 hg0]
  rw [ods_top_start_skip _ _ _ _ _ _ _ (by decide) (by decide) (by decide) (by decide), ods_inert g.g1 hg1]
  obtain ⟨sn', hst⟩ := ods_styles styles
    (Ev.end_ "office:automatic-styles" :: Ev.start "office:body" [] :: Ev.start "office:spreadsheet" [] :: (g.g2 ++
      (tables.flatMap tableEvents ++ (g.g3 ++ (Ev.start "table:named-expressions" [] :: (names.flatMap namedRangeEvents ++
        (Ev.end_ "table:named-expressions" :: (g.g4 ++
          [Ev.end_ "office:spreadsheet", Ev.end_ "office:body", Ev.end_ "office:document-content"]))))))))
    [] [] [] none
  rw [hst, List.append_nil, ods_top_end]
  rw [ods_top_start_skip _ _ _ _ _ _ _ (by decide) (by decide) (by decide) (by decide)]
  rw [ods_top_start_skip _ _ _ _ _ _ _ (by decide) (by decide) (by decide) (by decide), ods_inert g.g2 hg2]
  rw [ods_tables styles tables ht, ods_inert g.g3 hg3]
  -- <table:named-expressions>
  rw [odsLoop]
  have h1 : ("table:named-expressions" : String) ≠ "style:style" := by decide
  have h2 : ("table:named-expressions" : String) ≠ "style:table-properties" := by decide
  have h3 : ("table:named-expressions" : String) ≠ "table:table" := by decide
  simp only [h1, h2, h3, if_false, and_false, if_true]
  rw [ods_named]
  rw [odsLoop]
  have h4 : isNamedElem "table:named-expressions" = false := by decide
  simp only [h4, if_true, Bool.false_eq_true, if_false, List.nil_append]
  rw [ods_inert g.g4 hg4, ods_top_end, ods_top_end, ods_top_end]
  simp [odsLoop]

/-- satisfiable: two tables sharing a hidden style, one without style, a redefined style name (the later
    definition wins), named ranges with XML specials -/
example :
    parseContentOds (contentEvents [("ta1", some false), ("ta2", some false), ("ta2", none)]
        [⟨"A & <B>", some "ta1", [.start "table:table-row" [], .end_ "table:table-row"]⟩, ⟨"b", some "ta2", []⟩, ⟨"c", none, []⟩, ⟨"d", some "nope", []⟩]
        [("n1", "$'A & <B>'.$A$1"), ("n2", "")]) =
      .ok ⟨[⟨"A & <B>", .workSheet, .hidden⟩, ⟨"b", .workSheet, .visible⟩, ⟨"c", .workSheet, .visible⟩, ⟨"d", .workSheet, .visible⟩],
           [("n1", "$'A & <B>'.$A$1"), ("n2", "")], false⟩ := by
  decide

/-! ## the date-system flag reaches the date cells: open, then read a sheet

    The workbook-level model of this property composed with the cell-reader models of C03 (xlsb), C02 (xls) and C01
    (xlsx) — `Model/MetadataCompose.lean`: the cell readers take their flag from the state that opening the workbook
    produced. The theorems below are about the bytes / events of generated workbooks (the encoders of this property for
    the workbook level, those of C03 / C02 / C01 for the sheet) and cover every numeric record kind and encoding,
    because the sheet-level theorems they rest on (`xlsb_sheet_roundtrip`, `biff_sheet_date_typing`,
    `xlsx_range_spec`, `numeric_cell_by_style`) do. -/

/-- **xlsb hand-over: open, then read a sheet.** The workbook part declares the date system `d = flagW recs`
    (bit 0 of BrtWbProp); `worksheet_range` builds the cell reader's context from the state `read_workbook` left
    (`xlsbCtx`). For every sheet part laid out by C03's encoder (any prologue, any framing, any cell records), reading
    it through the composed model succeeds with C03's range, and
    (a) the range holds at every cell position the value the sheet specification lists for it (distinct positions),
    (b) no `DateTime` anywhere in the sheet carries a flag other than `d`,
    (c) a numeric cell of ANY record kind and encoding — BrtCellReal, BrtFmlaNum (`real`), BrtCellRk integer,
        integer÷100, float, float÷100 (`rk w`, all `w`) — under a date/time style is listed as a `DateTime` with
        flag `d`. -/
theorem date1904_reaches_cells_xlsb (pf : Bytes → List Text → List (Text × Text) → Res Text) (rels : List (Text × String))
    (recs : List WRec) (hall : ∀ r ∈ recs, r.ok rels) (ew : Bool) (el : Nat)
    (nrecs : List NRec) (hok : namesOk pf ((declaredW recs).map (XlsbSheet.decoded rels)) ([], []) nrecs)
    (t : Nat) (ht : isAfterNames t = true) (tw : Bool) (tl : Nat) (rest : Bytes)
    (formats : List Nat) (strings : List (List Nat))
    (pre1 pre2 : List Xlsb.Seg) (dims : Bytes) (dw : Bool) (dl : Nat) (bp : Bytes) (bw : Bool) (bl : Nat)
    (data : List Xlsb.Framed) (ew' : Bool) (el' : Nat) (post : Bytes)
    (h1 : ∀ s ∈ pre1, s.OK 0x0094 Xlsb.bounds1) (h2 : ∀ s ∈ pre2, s.OK 0x0091 Xlsb.bounds2)
    (hd : 16 ≤ dims.length ∧ dims.length < 268435456) (hb : bp.length < 268435456)
    (hokd : ∀ d ∈ data, d.item.OK ⟨formats, strings, flagW recs⟩)
    (hS : ∀ c ∈ Xlsb.specCells ⟨formats, strings, flagW recs⟩ (data.map (·.item)) 0, c.1 < 1048576 ∧ c.2.1 < 16384)
    (hdist : (Xlsb.specCells ⟨formats, strings, flagW recs⟩ (data.map (·.item)) 0).Pairwise (fun a b => ¬ (a.1 = b.1 ∧ a.2.1 = b.2.1))) :
    ∃ r, openReadXlsb pf rels (encodeWorkbookBin recs ew el (nrecs.flatMap NRec.bytes ++ (Xlsb.frame t [] tw tl ++ rest)))
          formats strings (Xlsb.sheetBytes pre1 dims dw dl pre2 bp bw bl data ew' el' post) = .ok r ∧
      (∀ c ∈ Xlsb.specCells ⟨formats, strings, flagW recs⟩ (data.map (·.item)) 0, r.valAt c.1 c.2.1 = c.2.2) ∧
      (∀ c ∈ Xlsb.specCells ⟨formats, strings, flagW recs⟩ (data.map (·.item)) 0, ∀ (b : Nat) (td f : Bool),
          c.2.2 = .dateTime b td f → f = flagW recs) ∧
      (∀ (style : Nat) (content : Xlsb.Content), xlsbNumeric content →
          (formats[style % 16777216]? = some 1 ∨ formats[style % 16777216]? = some 2) →
          ∃ bits td, Xlsb.valueOf ⟨formats, strings, flagW recs⟩ style content = some (.dateTime bits td (flagW recs))) := by
  obtain ⟨r, hr, _, _, _, _, _, hat, _⟩ :=
    Xlsb.xlsb_sheet_roundtrip ⟨formats, strings, flagW recs⟩ pre1 pre2 dims dw dl bp bw bl data ew' el' post h1 h2 hd hb hokd hS
  refine ⟨r, ?_, hat hdist, ?_, ?_⟩
  · unfold openReadXlsb
    rw [sheets_in_order_xlsb pf rels recs hall ew el nrecs hok t ht tw tl rest]
    exact hr
  · intro c hc b td f hv
    exact xlsb_specCells_flag ⟨formats, strings, flagW recs⟩ _ 0 c hc b td f hv
  · intro style content hn hf
    exact xlsb_valueOf_date ⟨formats, strings, flagW recs⟩ style content hn hf

/-- **xls hand-over: open, then read a sheet.** The globals declare the date system `d = declared1904 recs` (a DATEMODE
    record with 1); the substream of a sheet follows at the stream offset `pos` right behind the globals (any logical
    sheet and any record layout of C02's encoder: NUMBER, every RK word that denotes the number — integer, integer÷100,
    float, float÷100 —, MULRK runs, FORMULA results, any XF per cell). `parse_workbook` reads that substream with the
    environment built from the state the globals loop left (`xlsEnv`): every numeric cell whose XF's format is a
    date/time (elapsed time) format reads `DateTime(x, DateTime (TimeDelta), d)` — the serial is the cell's number, the
    date system the one the globals declare; under any other XF it is not a `DateTime`. -/
theorem date1904_reaches_cells_xls (pd : Bytes → Res (Option Nat × Text)) (recs : List GRec) (hall : ∀ r ∈ recs, r.ok pd)
    (ops : BiffCells.FOps) (fmts : List CellFormat) (strings : List (List Nat))
    (S : List BiffCells.LCell) (lays : List BiffCells.Lay) (hS : ∀ c ∈ S, BiffCells.cellOk c) (hsorted : S.Pairwise BiffCells.cellLt)
    (hoff : ∀ s ∈ declaredSheets recs,
      s.offset ≤ (encodeGlobals recs (BiffCells.substream ⟨ops, fmts, declared1904 recs, strings⟩ S lays)).length)
    (i : Nat) (hi : i < S.length) (x : Nat) (hv : S[i].val = .num x) :
    ∃ r, openReadXls pd (encodeGlobals recs (BiffCells.substream ⟨ops, fmts, declared1904 recs, strings⟩ S lays))
          ops fmts strings (encodeGlobals recs []).length = .ok r ∧
      (fmts[(lays[i]?.getD default).xf % 65536]? = some .dateTime →
        r.valAt S[i].row S[i].col = .dt x .dateTime (declared1904 recs)) ∧
      (fmts[(lays[i]?.getD default).xf % 65536]? = some .timeDelta →
        r.valAt S[i].row S[i].col = .dt x .timeDelta (declared1904 recs)) ∧
      (fmts[(lays[i]?.getD default).xf % 65536]? ≠ some .dateTime → fmts[(lays[i]?.getD default).xf % 65536]? ≠ some .timeDelta →
        ∀ b k d, r.valAt S[i].row S[i].col ≠ .dt b k d) := by
  obtain ⟨r, hr, h1, h2, h3⟩ :=
    BiffCells.biff_sheet_date_typing ⟨ops, fmts, declared1904 recs, strings⟩ S lays hS hsorted i hi x hv
  refine ⟨r, ?_, h1, h2, h3⟩
  unfold openReadXls
  rw [sheets_in_order_xls pd recs hall _ (notCont_substream _ S lays) hoff]
  simp only [xlsEnv]
  rw [encodeGlobals_tail recs (BiffCells.substream _ S lays), List.drop_left' rfl]
  exact hr

open XlsxCells XlsxSheet in
/-- **xlsx hand-over: open, then read a sheet.** `xl/workbook.xml` declares the date system through
    `<workbookPr date1904="d"/>` (any prefix, inert siblings, any extension list); the cell reader of a worksheet part
    (any logical sheet, any legal layout of C01's encoder) types its numbers with the flag of the state `read_workbook`
    left (`xlsxEnv`). Every numeric cell — `<v>` with or without `t="n"`, with or without a formula (cached number) —
    whose style selects a date/time (elapsed-time) format reads, at its own position, `DateTime(b, DateTime (TimeDelta),
    d ∈ {"1","true"})` where `b` is the parsed number. -/
theorem date1904_reaches_cells_xlsx (rels : List (String × String)) (qf : String → String) (hq : QOk qf)
    (ridKey : String) (hk : ridKeyOk ridKey) (d : String)
    (sheets : List XSheet) (hs : ∀ s ∈ sheets, s.ok rels) (names : List (String × List (Bool × String)))
    (ext : Option (List Meta.Ev)) (hext : ∀ body, ext = some body → ExtOk (qf "extLst") body) (g : Gaps) (hg : g.ok)
    (cfg : Cfg) (parse : XlsxCells.Bytes → Option UInt64) (s : Sheet) (lay : Layout) (hl : lay.Legal) (hwf : s.WF)
    (hok : s.ContentOk cfg) (hnum : s.NumOk ⟨parse, (d = "1" || d = "true")⟩)
    (row : RowSpec) (hrow : row ∈ s) (cell : Nat × CellSpec) (hcell : cell ∈ row.2)
    (t : XlsxCells.Bytes) (tn : Bool) (style f : Option XlsxCells.Bytes) (b : UInt64)
    (hc : cell.2 = ⟨.num t tn, style, f⟩) (ht : t ≠ []) (hp : parse t = some b) :
    (styleFmt cfg style = .dateTime →
      openReadXlsx rels (workbookEvents qf ridKey (some [("date1904", d)]) sheets names ext g) cfg parse (renderSheet s lay) row.1 cell.1 =
        .ok (.num (.dateTime (.bits b) .dateTime (d = "1" || d = "true")))) ∧
    (styleFmt cfg style = .timeDelta →
      openReadXlsx rels (workbookEvents qf ridKey (some [("date1904", d)]) sheets names ext g) cfg parse (renderSheet s lay) row.1 cell.1 =
        .ok (.num (.dateTime (.bits b) .timeDelta (d = "1" || d = "true")))) := by
  have hwb := sheets_in_order_xlsx rels qf hq ridKey hk (some [("date1904", d)]) sheets hs names ext hext g hg
  have hflag : date1904Attr [("date1904", d)] = (d = "1" || d = "true") := by simp [date1904Attr, List.lookup]
  have key : ∀ (dv : Data), expectData ⟨parse, (d = "1" || d = "true")⟩ cfg cell.2 = dv → dv ≠ .empty →
      openReadXlsx rels (workbookEvents qf ridKey (some [("date1904", d)]) sheets names ext g) cfg parse (renderSheet s lay) row.1 cell.1 = .ok dv := by
    intro dv hdv hne
    have hspec := (XlsxCells.xlsx_range_spec ⟨parse, (d = "1" || d = "true")⟩ cfg s lay hl hwf hok hnum).2
    have hmem : (row.1, cell.1, dv) ∈ dataOf ⟨parse, (d = "1" || d = "true")⟩ cfg s :=
      (mem_dataOf _ cfg s _).mpr ⟨row, hrow, cell, hcell, by rw [hdv]⟩
    obtain ⟨rg, hrg, _, _, _, _, _, _, hval, _⟩ := hspec ⟨_, hmem, hne⟩
    unfold openReadXlsx
    rw [hwb]
    simp only [Option.map_some, Option.getD_some, hflag, xlsxEnv, hrg]
    exact hval _ hmem
  obtain ⟨_, _, hdt, htd⟩ := XlsxCells.numeric_cell_by_style ⟨parse, (d = "1" || d = "true")⟩ cfg t tn style f b ht hp
  constructor
  · intro hst
    exact key _ (by rw [hc]; exact hdt hst) (by simp)
  · intro hst
    exact key _ (by rw [hc]; exact htd hst) (by simp)

/-! ## xlsx: the date-system flag under a namespace prefix (ledger D22) -/

/-- the pinned snapshot (`e.name() == "workbookPr"`) opens the prefixed workbook but loses the flag; the code
    after fix D22 (`local_name`) reports it -/
theorem d22_witness :
    readWorkbookXlsxD22 d22Rels d22Events = .ok (⟨[⟨"S1", .workSheet, .visible⟩], [], false⟩, ["xl/worksheets/sheet1.xml".toList]) ∧
    readWorkbookXlsx d22Rels d22Events = .ok (⟨[⟨"S1", .workSheet, .visible⟩], [], true⟩, ["xl/worksheets/sheet1.xml".toList]) := by
  decide

end C16
