import CalVerif.Lemmas.Metadata
/-! # C16 — workbook metadata is reported faithfully and in workbook order

    Theorems about the model `CalVerif/Model/Metadata.lean` (tied to /repo by `harness/src/bin/c16.rs`) and the
    encoders `CalVerif/Spec/MetadataEnc.lean` (the layouts the harness writes; checked against the files by the
    `encbs` / `encbundle` requests). The code tables are the generated ones (`Gen/SheetCodes.lean`).

    For xlsx and ods the XML layer (text → events, quick-xml) is trusted: those theorems speak about event
    lists and the assurance is chiefly the correspondence run. -/

open Meta MetaEnc MetaLemmas

namespace C16

/-! ## the generated code tables -/

/-- two codes that decode to the same visibility are the same code (xls BoundSheet8 hsState, after masking) -/
theorem vis_table_injective_xls (a b : Nat) (v : SheetVisible)
    (ha : Gen.xlsVisTable.lookup a = some v) (hb : Gen.xlsVisTable.lookup b = some v) : a = b := by
  have h1 := lookup_mem _ _ _ ha
  have h2 := lookup_mem _ _ _ hb
  simp [Gen.xlsVisTable] at h1 h2
  rcases h1 with ⟨rfl, rfl⟩ | ⟨rfl, rfl⟩ | ⟨rfl, rfl⟩ <;> simp at h2 <;> omega

/-- every visibility has a code, and the code fits the 6 bits the reader keeps -/
theorem vis_table_surjective_xls (v : SheetVisible) : ∃ c, c < 64 ∧ Gen.xlsVisTable.lookup c = some v :=
  ⟨xlsVisCode v, by cases v <;> decide⟩

theorem vis_table_injective_xlsb (a b : Nat) (v : SheetVisible)
    (ha : Gen.xlsbVisTable.lookup a = some v) (hb : Gen.xlsbVisTable.lookup b = some v) : a = b := by
  have h1 := lookup_mem _ _ _ ha
  have h2 := lookup_mem _ _ _ hb
  simp [Gen.xlsbVisTable] at h1 h2
  rcases h1 with ⟨rfl, rfl⟩ | ⟨rfl, rfl⟩ | ⟨rfl, rfl⟩ <;> simp at h2 <;> omega

theorem vis_table_surjective_xlsb (v : SheetVisible) : ∃ c, c < 4294967296 ∧ Gen.xlsbVisTable.lookup c = some v :=
  ⟨xlsbVisCode v, by cases v <;> decide⟩

theorem vis_table_injective_xlsx (a b : String) (v : SheetVisible)
    (ha : Gen.xlsxVisTable.lookup a = some v) (hb : Gen.xlsxVisTable.lookup b = some v) : a = b := by
  have h1 := lookup_mem _ _ _ ha
  have h2 := lookup_mem _ _ _ hb
  simp [Gen.xlsxVisTable] at h1 h2
  rcases h1 with ⟨rfl, rfl⟩ | ⟨rfl, rfl⟩ | ⟨rfl, rfl⟩ <;> simp at h2 <;> simp [h2]

theorem vis_table_surjective_xlsx (v : SheetVisible) : ∃ s, Gen.xlsxVisTable.lookup s = some v :=
  ⟨xlsxVisName v, by cases v <;> decide⟩

/-- the three formats with numeric / named states agree on the meaning of a state (0/1/2 ↔ visible/hidden/veryHidden) -/
theorem vis_tables_agree (v : SheetVisible) :
    xlsVisCode v = xlsbVisCode v ∧ Gen.xlsxVisTable.lookup (xlsxVisName v) = Gen.xlsVisTable.lookup (xlsVisCode v) := by
  cases v <;> decide

/-- xls sheet types: the four dt values MS-XLS 2.4.28 defines, one kind each, no two codes for one kind -/
theorem kind_table_xls :
    Gen.xlsKindTable.lookup 0 = some .workSheet ∧ Gen.xlsKindTable.lookup 1 = some .macroSheet ∧
    Gen.xlsKindTable.lookup 2 = some .chartSheet ∧ Gen.xlsKindTable.lookup 6 = some .vba ∧
    (∀ a b k, Gen.xlsKindTable.lookup a = some k → Gen.xlsKindTable.lookup b = some k → a = b) := by
  refine ⟨by decide, by decide, by decide, by decide, ?_⟩
  intro a b k ha hb
  have h1 := lookup_mem _ _ _ ha
  have h2 := lookup_mem _ _ _ hb
  simp [Gen.xlsKindTable] at h1 h2
  rcases h1 with ⟨rfl, rfl⟩ | ⟨rfl, rfl⟩ | ⟨rfl, rfl⟩ | ⟨rfl, rfl⟩ <;> simp at h2 <;> omega

/-- xlsx and xlsb derive the kind from the same path segments -/
theorem kind_tables_xlsx_xlsb_agree : Gen.xlsxKindTable = Gen.xlsbKindTable := by decide

/-- the kind of a sheet part `xl/<folder>/<file>`: the table entry of the folder -/
theorem kind_of_part_path (tbl : List (String × SheetType)) (folder file : List Char)
    (hf : '/' ∉ folder) :
    kindOfPath tbl ("xl/".toList ++ folder ++ '/' :: file) = tbl.lookup (String.ofList folder) := by
  have h2 : ∀ (f : List Char), '/' ∉ f → (f ++ '/' :: file).takeWhile (· != '/') = f := by
    intro f
    induction f with
    | nil => intro _; simp
    | cons c cs ih =>
      intro hf
      have hc : c ≠ '/' := fun h => hf (by simp [h])
      have := ih (fun h => hf (by simp [h]))
      simp [hc, this]
  have h1 : afterSlash ("xl/".toList ++ folder ++ '/' :: file) = some (folder ++ '/' :: file) := by
    simp [afterSlash]
  unfold kindOfPath seg1
  rw [h1]
  simp only [Option.map_some, h2 folder hf]

/-! ## xls: BoundSheet8 -/

/-- **BoundSheet8 round trip.** For every stream offset below 2^32, every visibility (with any value of the two
    reserved bits of the hsState byte), every kind BIFF8 can express, and every name of at most 255 UTF-16
    units stored 8-bit (all units < 256) or 16-bit, the reader returns the offset, the kind, the visibility and
    the name (decoded from UTF-16, NUL characters removed as the code does). -/
theorem boundsheet_roundtrip (off : Nat) (hoff : off < 4294967296) (vis : SheetVisible) (reserved : Nat)
    (kind : SheetType) (dt : Nat) (hk : xlsKindCode kind = some dt)
    (us : List Nat) (hlen : us.length < 256) (wide : Bool) (hunits : ∀ u ∈ us, u < (if wide then 65536 else 256)) :
    parseSheetMetadata (encodeBoundSheet off (xlsVisCode vis + 64 * reserved) dt us wide) true
      = .ok (off, ⟨(Biff.decodeUtf16 us).filter (· != 0), kind, vis⟩) := by
  obtain ⟨hdt, hkl⟩ := xlsKind_lookup kind dt hk
  unfold parseSheetMetadata encodeBoundSheet
  have hlen5 : ¬ ((le32 off ++ [byte (xlsVisCode vis + 64 * reserved), byte dt] ++ shortString us wide).length < 5) := by
    simp [le32]
  have hlen6 : ¬ ((le32 off ++ [byte (xlsVisCode vis + 64 * reserved), byte dt] ++ shortString us wide).length < 6) := by
    simp [le32]
  have hb4 : byteAt (le32 off ++ [byte (xlsVisCode vis + 64 * reserved), byte dt] ++ shortString us wide) 4
      = (xlsVisCode vis + 64 * reserved) % 256 := by
    simp [byteAt, le32, byte_toNat]
  have hb5 : byteAt (le32 off ++ [byte (xlsVisCode vis + 64 * reserved), byte dt] ++ shortString us wide) 5 = dt := by
    simp [byteAt, le32, byte_toNat]; omega
  have hdrop : (le32 off ++ [byte (xlsVisCode vis + 64 * reserved), byte dt] ++ shortString us wide).drop 6 = shortString us wide := by
    simp [le32]
  have hu32 : Biff.u32 (le32 off ++ [byte (xlsVisCode vis + 64 * reserved), byte dt] ++ shortString us wide) = off := by
    rw [List.append_assoc]; exact u32_le32 off _ hoff
  simp only [hlen5, hlen6, if_false, hb4, hb5, xlsVis_lookup, hkl, hdrop, hu32]
  have := parseShortString_shortString us wide [] hlen hunits
  rw [List.append_nil] at this
  rw [this]

/-- the hypotheses of `boundsheet_roundtrip` are satisfiable: a very hidden chart sheet "Aé" stored 8-bit -/
example :
    parseSheetMetadata (encodeBoundSheet 0x1234 (xlsVisCode .veryHidden + 64 * 3) 2 [65, 233] false) true
      = .ok (0x1234, ⟨[65, 233], .chartSheet, .veryHidden⟩) := by
  have := boundsheet_roundtrip 0x1234 (by omega) .veryHidden 3 .chartSheet 2 (by decide) [65, 233] (by decide) false (by decide)
  simpa [Biff.decodeUtf16, Biff.isHigh, Biff.isLow] using this

/-- a state the table does not know is an error, never a silent default (here hsState = 3) -/
theorem boundsheet_unknown_state_rejected (off dt : Nat) (us : List Nat) (wide : Bool) :
    ∃ e, parseSheetMetadata (encodeBoundSheet off 3 dt us wide) true = .err e := by
  refine ⟨unrec "BoundSheet8:hsState" "3", ?_⟩
  unfold parseSheetMetadata encodeBoundSheet
  have hlen5 : ¬ ((le32 off ++ [byte 3, byte dt] ++ shortString us wide).length < 5) := by simp [le32]
  have hb4 : byteAt (le32 off ++ [byte 3, byte dt] ++ shortString us wide) 4 = 3 := by
    simp [byteAt, le32, byte_toNat]
  simp only [hlen5, if_false, hb4]
  have : Gen.xlsVisTable.lookup (3 &&& Gen.xlsVisMask) = none := by decide
  rw [this]
  rfl

/-! ## xlsx: the date-system flag under a namespace prefix (ledger D22) -/

def d22Events : List Ev :=
  [.start "x:workbook" [], .start "x:workbookPr" [("date1904", "1")], .end_ "x:workbookPr",
   .start "x:sheets" [], .start "x:sheet" [("name", "S1"), ("sheetId", "1"), ("r:id", "rId1")], .end_ "x:sheet",
   .end_ "x:sheets", .end_ "x:workbook"]

def d22Rels : List (String × String) := [("rId1", "worksheets/sheet1.xml")]

/-- the pinned snapshot (`e.name() == "workbookPr"`) opens the prefixed workbook but loses the flag; the code
    after fix D22 (`local_name`) reports it -/
theorem d22_witness :
    readWorkbookXlsxD22 d22Rels d22Events = .ok (⟨[⟨"S1", .workSheet, .visible⟩], [], false⟩, ["xl/worksheets/sheet1.xml".toList]) ∧
    readWorkbookXlsx d22Rels d22Events = .ok (⟨[⟨"S1", .workSheet, .visible⟩], [], true⟩, ["xl/worksheets/sheet1.xml".toList]) := by
  decide

end C16
