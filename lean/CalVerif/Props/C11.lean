import CalVerif.Lemmas.Dates
/-! # C11 — serial date-times convert to the right calendar date, time and duration

The theorems are about `Model/Dates.lean`, the model of `ExcelDateTime::{as_datetime, as_duration}`
and of the trait-level conversions.  Two kinds of statement, marked [serial] and [ms]:

* [serial] — about cells that carry the SERIAL and the date-system flag.  The model derives the
  day number itself (1462-day offset, leap-year shim, choice of the 1900 path for plain numbers);
  for whole-day serials nothing comes from outside (`whole_days_exact`: the float step is exact
  there), for fractional serials only the ROUNDED millisecond-of-day of the fraction does.
* [ms] — about the integer millisecond count after the float step
  `round((serial [+ 1462] [+ 1]) * 86 400 000)`.  That step is NOT proved: it is validated by the
  correspondence run (exhaustively on whole days, densely on fractions) against exact integer
  arithmetic.  "Rounded to the millisecond" and "monotone in the fraction" are therefore
  statements about the rounded fraction / the millisecond count, not about the f64 serial.

`Spec/Dates.lean` is the calendar these theorems are stated against: the Gregorian leap rule,
month lengths, `nextDay`, and `addDays k d` = `k` times `nextDay`. -/

namespace Dates

/-! ## the calendar arithmetic is the calendar -/

/-- one more day is the next calendar day — for every day number, negative ones included -/
theorem civil_step (n : Int) : civilOfDays (n + 1) = nextDay (civilOfDays n) :=
  civilOfDays_succ n

/-- 146 097 days are exactly 400 years -/
theorem civil_period (n : Int) :
    civilOfDays (n + 146097) = { civilOfDays n with y := (civilOfDays n).y + 400 } :=
  civilOfDays_add_era n

/-- day number `n` is the date reached by stepping `n` times from the epoch 1899-12-30 -/
theorem civil_correct (n : Nat) : civilOfDays (n : Int) = dateOfDays n := by
  have h := civilOfDays_add 0 n
  rw [civilOfDays_zero] at h
  simpa [dateOfDays] using h

/-- more generally: `k` days after day `n` is `k` calendar steps after its date -/
theorem civil_add (n : Int) (k : Nat) : civilOfDays (n + k) = addDays k (civilOfDays n) :=
  civilOfDays_add n k

/-- every day number is a well-formed date (month 1..12, day within the month's length) -/
theorem civil_valid (n : Int) : (civilOfDays n).Valid := civilOfDays_valid n

/-- distinct day numbers are distinct dates, in chronological order -/
theorem civil_strict_mono {a b : Int} (h : a < b) : (civilOfDays a).lt (civilOfDays b) :=
  civilOfDays_lt h

/-! ## the two date systems on whole-day serials -/

/-- 1900 system: serial 1 is 1900-01-01; serials 1..59 count days from 1899-12-31 (so 59 is
    1900-02-28, the day before the fictitious 1900-02-29); serial 61 is 1900-03-01; from serial
    60 on each unit is one calendar day; from 61 on the serial counts days from 1900-03-01. -/
theorem serial_1900 :
    dateOfSerial false 1 = { y := 1900, m := 1, d := 1 } ∧
    (∀ n : Nat, n ≤ 59 → dateOfSerial false n = addDays n { y := 1899, m := 12, d := 31 }) ∧
    dateOfSerial false 59 = { y := 1900, m := 2, d := 28 } ∧
    dateOfSerial false 61 = { y := 1900, m := 3, d := 1 } ∧
    (∀ n : Int, 60 ≤ n → dateOfSerial false (n + 1) = nextDay (dateOfSerial false n)) ∧
    (∀ k : Nat, dateOfSerial false (61 + k) = addDays k { y := 1900, m := 3, d := 1 }) := by
  refine ⟨by decide, ?_, by decide, by decide, ?_, ?_⟩
  · intro n hn
    have e : dayNumber false (n : Int) = (1 : Int) + n := by
      rw [dayNumber_false]; split <;> omega
    have h1 : civilOfDays 1 = { y := 1899, m := 12, d := 31 } := by decide
    rw [dateOfSerial, e, civilOfDays_add, h1]
  · intro n hn
    have e1 : dayNumber false (n + 1) = n + 1 := by
      rw [dayNumber_false]; split <;> omega
    have e2 : dayNumber false n = n := by
      rw [dayNumber_false]; split <;> omega
    rw [dateOfSerial, dateOfSerial, e1, e2]
    exact civilOfDays_succ n
  · intro k
    have e : dayNumber false (61 + (k : Int)) = (61 : Int) + k := by
      rw [dayNumber_false]; split <;> omega
    have h61 : civilOfDays 61 = { y := 1900, m := 3, d := 1 } := by decide
    rw [dateOfSerial, e, civilOfDays_add, h61]

/-- the last supported serial, 2 958 465, is 9999-12-31 -/
theorem serial_1900_last : dateOfSerial false 2958465 = { y := 9999, m := 12, d := 31 } := by
  decide

/-- 1904 system: serial 0 is 1904-01-01 and every unit is one calendar day -/
theorem serial_1904 :
    dateOfSerial true 0 = { y := 1904, m := 1, d := 1 } ∧
    (∀ n : Nat, dateOfSerial true n = addDays n { y := 1904, m := 1, d := 1 }) ∧
    (∀ n : Int, -1402 ≤ n → dateOfSerial true (n + 1) = nextDay (dateOfSerial true n)) := by
  refine ⟨by decide, ?_, ?_⟩
  · intro n
    have e : dayNumber true (n : Int) = (1462 : Int) + n := by
      rw [dayNumber_true]; split <;> omega
    have h0 : civilOfDays 1462 = { y := 1904, m := 1, d := 1 } := by decide
    rw [dateOfSerial, e, civilOfDays_add, h0]
  · intro n hn
    have e1 : dayNumber true (n + 1) = n + 1462 + 1 := by
      rw [dayNumber_true]; split <;> omega
    have e2 : dayNumber true n = n + 1462 := by
      rw [dayNumber_true]; split <;> omega
    rw [dateOfSerial, dateOfSerial, e1, e2]
    exact civilOfDays_succ _

/-- on whole-day serials of the supported range every number the float step touches (the serial,
    the serial plus the 1462 offset, plus the shim's 1, and the millisecond product) is a
    non-negative integer below 2^53, hence exactly representable: the step is exact there -/
theorem whole_days_exact (is1904 : Bool) (n : Int) (h0 : 0 ≤ n) (h1 : n ≤ 2958465) :
    0 ≤ dayNumber is1904 n ∧ dayNumber is1904 n ≤ 2958465 + 1462 ∧
    0 ≤ msOfWholeDay is1904 n ∧ msOfWholeDay is1904 n < 9007199254740992 := by
  unfold msOfWholeDay
  cases is1904
  · rw [dayNumber_false]; split <;> omega
  · rw [dayNumber_true]; split <;> omega

/-! ## date-time of a millisecond count -/

/-- `civilOfMs` in closed form: the date is the calendar date of `⌊ms / 1 day⌋`, `None` exactly
    outside chrono's span -/
theorem civilOfMs_eq (ms : Int) :
    civilOfMs ms =
      if minDay ≤ ms / 86400000 ∧ ms / 86400000 ≤ maxDay then
        some { date := civilOfDays (ms / 86400000),
               time := timeOfSecs (ms / 1000 % 86400).toNat (ms % 1000).toNat }
      else none := by
  unfold civilOfMs
  simp only [days_of_ms, addDaysChecked_eq]
  by_cases h : minDay ≤ ms / 86400000 ∧ ms / 86400000 ≤ maxDay
  · rw [if_pos h, if_pos h]
  · rw [if_neg h, if_neg h]

/-- **as_date / as_time are the components of as_datetime**, and they are what they should be:
    the date is the calendar date of the whole days in `ms`, the time of day is the remaining
    milliseconds split into h/m/s/ms, both well-formed -/
theorem date_time_components (ms : Int) (dt : DateTime) (h : civilOfMs ms = some dt) :
    dt.date = civilOfDays (ms / 86400000) ∧ dt.date.Valid ∧
    dt.time.toMs = (ms % 86400000).toNat ∧ dt.time.Valid := by
  rw [civilOfMs_eq] at h
  split at h
  · injection h with h
    subst h
    have hs0 : 0 ≤ ms / 1000 % 86400 := Int.emod_nonneg _ (by decide)
    have hs1 : ms / 1000 % 86400 < 86400 := Int.emod_lt_of_pos _ (by decide)
    have hm0 : 0 ≤ ms % 1000 := Int.emod_nonneg _ (by decide)
    have hm1 : ms % 1000 < 1000 := Int.emod_lt_of_pos _ (by decide)
    refine ⟨rfl, civilOfDays_valid _, ?_, ?_⟩
    · rw [← tod_of_ms]
      simp only [Time.toMs, timeOfSecs]
      omega
    · simp only [Time.Valid, timeOfSecs]
      omega
  · cases h

/-- whole-day serials of the supported range convert to midnight of their calendar date -/
theorem whole_day_datetime (is1904 : Bool) (n : Int) (h0 : 0 ≤ n) (h1 : n ≤ 2958465) :
    datetimeOfSerial is1904 n =
      some { date := dateOfSerial is1904 n, time := { h := 0, mi := 0, s := 0, ms := 0 } } := by
  obtain ⟨a, b, c, d⟩ := whole_days_exact is1904 n h0 h1
  unfold datetimeOfSerial asDatetimeOfMs dateOfSerial
  simp only [tryMilliseconds_eq]
  unfold msOfWholeDay at *
  generalize dayNumber is1904 n = k at *
  rw [if_neg (by omega)]
  simp only [civilOfMs_eq]
  have e1 : k * 86400000 / 86400000 = k := by omega
  have e2 : k * 86400000 / 1000 % 86400 = 0 := by omega
  have e3 : k * 86400000 % 1000 = 0 := by omega
  have hk : minDay ≤ k ∧ k ≤ maxDay := by unfold minDay maxDay; omega
  rw [e1, e2, e3, if_pos hk]
  rfl

/-! ## monotonicity -/

/-- a later millisecond count never gives an earlier date-time -/
theorem monotone_ms {a b : Int} (h : a ≤ b) {x y : DateTime}
    (hx : civilOfMs a = some x) (hy : civilOfMs b = some y) : x.le y := by
  obtain ⟨dx, _, tx, _⟩ := date_time_components a x hx
  obtain ⟨dy, _, ty, _⟩ := date_time_components b y hy
  unfold DateTime.le
  by_cases hd : a / 86400000 = b / 86400000
  · right
    refine ⟨by rw [dx, dy, hd], ?_⟩
    rw [tx, ty]
    omega
  · left
    rw [dx, dy]
    exact civilOfDays_lt (by omega)

/-- whole-day serials: a larger serial never gives an earlier date (non-strict: in the 1900
    system serials 59 and 60 share 1900-02-28) -/
theorem monotone_whole_days (is1904 : Bool) {n m : Int} (h : n ≤ m) :
    (dateOfSerial is1904 n).le (dateOfSerial is1904 m) := by
  apply civilOfDays_le
  cases is1904
  · rw [dayNumber_false, dayNumber_false]; split <;> split <;> omega
  · rw [dayNumber_true, dayNumber_true]; split <;> split <;> omega

theorem shim_collision : dateOfSerial false 59 = dateOfSerial false 60 := by decide

/-- [serial] fractional serials of one date system, compared by (whole day, rounded
    millisecond-of-day): a larger serial never converts to an earlier date-time — except from the
    day before the fictitious 1900-02-29 into it (day numbers 59 → 60 of the 1900 numbering,
    i.e. serials −1403 → −1402 of the 1904 system) -/
theorem monotone_serials (is1904 : Bool) (d1 d2 : Int) (a1 b1 c1 a2 b2 c2 : Nat) (k1 k2 : Kind)
    (hr1 : (if is1904 then b1 else a1) ≤ 86400000)
    (hle : d1 < d2 ∨ (d1 = d2 ∧ (if is1904 then b1 else a1) ≤ (if is1904 then b2 else a2)))
    (hfict : ¬ ((if is1904 then d1 + 1462 else d1) = 59 ∧ (if is1904 then d2 + 1462 else d2) = 60))
    {x y : DateTime}
    (hx : (Cell.dateTime (.frac d1 a1 b1 c1) is1904 k1).asDatetime = some x)
    (hy : (Cell.dateTime (.frac d2 a2 b2 c2) is1904 k2).asDatetime = some y) : x.le y := by
  simp only [Cell.asDatetime, edtAsDatetime, dateStep] at hx hy
  refine monotone_ms ?_ (asDatetimeOfMs_some hx) (asDatetimeOfMs_some hy)
  cases is1904
  · simp only [Bool.false_eq_true, if_false] at *
    rw [dayNumber_false, dayNumber_false]
    split <;> split <;> omega
  · simp only [if_true] at *
    rw [dayNumber_true, dayNumber_true]
    split <;> split <;> omega

/-- [serial] **Known finding C11-a, proved of the model:** the conversion is NOT monotone across
    serial 60.  The day [60,61) is the fictitious 1900-02-29; the shim maps it onto the same
    calendar day as [59,60), so serial 59.5 (1900-02-28 12:00) converts to a later instant than
    serial 60 (1900-02-28 00:00). -/
theorem fictitious_day_not_monotone :
    edtAsDatetime (.frac 59 43200000 43200000 43200000) false =
      some { date := { y := 1900, m := 2, d := 28 }, time := { h := 12, mi := 0, s := 0, ms := 0 } } ∧
    edtAsDatetime (.whole 60) false =
      some { date := { y := 1900, m := 2, d := 28 }, time := { h := 0, mi := 0, s := 0, ms := 0 } } := by
  decide

/-! ## cells: the date system is decided inside the model -/

/-- [serial] a whole-day serial cell of the supported range converts to midnight of the date its
    own system assigns to it -/
theorem cell_whole_day (is1904 : Bool) (n : Int) (h0 : 0 ≤ n) (h1 : n ≤ 2958465) (k : Kind) :
    (Cell.dateTime (.whole n) is1904 k).asDatetime =
      some { date := dateOfSerial is1904 n, time := { h := 0, mi := 0, s := 0, ms := 0 } } :=
  whole_day_datetime is1904 n h0 h1

/-- [serial] a fractional serial cell: the date is the date of its whole day in its own system and
    the time of day is the rounded millisecond-of-day `r` of the fraction (the one number taken
    from the float step); `r = 86 400 000` is midnight of the next calendar day -/
theorem cell_fractional (is1904 : Bool) (day : Int) (h0 : 0 ≤ day) (h1 : day ≤ 2958465)
    (r0 r4 rd : Nat) (k : Kind) (hr : (if is1904 then r4 else r0) ≤ 86400000) :
    ∃ dt, (Cell.dateTime (.frac day r0 r4 rd) is1904 k).asDatetime = some dt ∧ dt.time.Valid ∧
      ((if is1904 then r4 else r0) < 86400000 →
        dt.date = dateOfSerial is1904 day ∧ dt.time.toMs = (if is1904 then r4 else r0)) ∧
      ((if is1904 then r4 else r0) = 86400000 →
        dt.date = nextDay (dateOfSerial is1904 day) ∧ dt.time.toMs = 0) := by
  obtain ⟨a, b, _, _⟩ := whole_days_exact is1904 day h0 h1
  simp only [Cell.asDatetime, edtAsDatetime, dateStep, asDatetimeOfMs, tryMilliseconds_eq, dateOfSerial]
  generalize dayNumber is1904 day = q at *
  generalize (if is1904 = true then r4 else r0) = r at *
  rw [if_neg (by omega)]
  simp only []
  have hin : minDay ≤ (q * 86400000 + (r : Int)) / 86400000 ∧ (q * 86400000 + (r : Int)) / 86400000 ≤ maxDay := by
    unfold minDay maxDay; omega
  have hsome := civilOfMs_eq (q * 86400000 + (r : Int))
  rw [if_pos hin] at hsome
  refine ⟨_, hsome, ?_, ?_, ?_⟩
  · exact (date_time_components _ _ hsome).2.2.2
  · intro hlt
    obtain ⟨hd, _, ht, _⟩ := date_time_components _ _ hsome
    refine ⟨?_, ?_⟩
    · rw [hd]; congr 1; omega
    · rw [ht]; omega
  · intro heq
    obtain ⟨hd, _, ht, _⟩ := date_time_components _ _ hsome
    refine ⟨?_, ?_⟩
    · rw [hd, ← civilOfDays_succ]; congr 1; omega
    · rw [ht]; omega

/-- [serial] **as_date / as_time are the components of as_datetime** for every cell, ISO cells
    included (where the code falls back to the date-only / time-only parsers only when the
    date-time parser fails) -/
theorem cell_date_time_components (c : Cell) (dt : DateTime) (h : c.asDatetime = some dt) :
    c.asDate = some dt.date ∧ c.asTime = some dt.time := by
  cases c <;> simp_all [Cell.asDate, Cell.asTime, Cell.asDatetime]

/-- [serial] **plain Int/Float cells convert like 1900-system date-times** — and NOT like
    1904-system ones: on every whole-day serial of the supported range the 1904 reading is a
    different date.  Plain numbers have no duration. -/
theorem plain_number_is_1900 :
    (∀ n k, (Cell.int n).asDatetime = (Cell.dateTime (.whole n) false k).asDatetime) ∧
    (∀ s k, (Cell.float s).asDatetime = (Cell.dateTime s false k).asDatetime) ∧
    (∀ n : Int, 0 ≤ n → n ≤ 2958465 → ∀ k,
        (Cell.int n).asDatetime ≠ (Cell.dateTime (.whole n) true k).asDatetime) ∧
    (∀ n, (Cell.int n).asDuration = none) ∧ (∀ s, (Cell.float s).asDuration = none) := by
  refine ⟨fun _ _ => rfl, fun _ _ => rfl, ?_, fun _ => rfl, fun _ => rfl⟩
  intro n h0 h1 k heq
  have e1 : (Cell.int n).asDatetime = _ := whole_day_datetime false n h0 h1
  have e2 := cell_whole_day true n h0 h1 k
  rw [e1, e2] at heq
  injection heq with heq
  injection heq with hdate _
  have := civilOfDays_injective hdate
  rw [dayNumber_false, dayNumber_true] at this
  split at this <;> split at this <;> omega

/-- [serial] "a duration is the serial times 24 h": whatever the date system and the type flag,
    with no offset and no shim — whole days exactly, fractional serials up to the rounded
    millisecond-of-day `rd` -/
theorem duration_is_serial_times_24h (is1904 : Bool) (k : Kind) :
    (∀ n : Int, -100000000 ≤ n →
        (Cell.dateTime (.whole n) is1904 k).asDuration = some (n * 86400000)) ∧
    (∀ (day : Int) (r0 r4 rd : Nat), -100000000 ≤ day →
        (Cell.dateTime (.frac day r0 r4 rd) is1904 k).asDuration = some (day * 86400000 + rd)) := by
  refine ⟨?_, ?_⟩
  · intro n hn
    simp only [Cell.asDuration, edtAsDuration, durStep, durationOfMs, tryMilliseconds_eq]
    rw [if_neg (by omega)]
  · intro day r0 r4 rd hn
    simp only [Cell.asDuration, edtAsDuration, durStep, durationOfMs, tryMilliseconds_eq]
    rw [if_neg (by omega)]

/-! ## the serde helpers `deserialize_as_*` (known findings C11-b/c/d as theorems) -/

/-- [serial] **C11-b:** for plain numbers and 1900-system date-time cells the helpers see what the
    direct conversion sees; a 1904-system cell is converted as if it were a 1900-system one — a
    different date on every whole-day serial of the supported range, e.g. serial 0:
    1899-12-31 instead of 1904-01-01 -/
theorem helper_drops_1904 :
    (∀ s k, (Cell.dateTime s false k).viaSerde.asDatetime = (Cell.dateTime s false k).asDatetime) ∧
    (∀ n : Int, 0 ≤ n → n ≤ 2958465 → ∀ k,
        (Cell.dateTime (.whole n) true k).viaSerde.asDatetime ≠ (Cell.dateTime (.whole n) true k).asDatetime) ∧
    (Cell.dateTime (.whole 0) true .dateTime).asDatetime =
      some { date := { y := 1904, m := 1, d := 1 }, time := { h := 0, mi := 0, s := 0, ms := 0 } } ∧
    (Cell.dateTime (.whole 0) true .dateTime).viaSerde.asDatetime =
      some { date := { y := 1899, m := 12, d := 31 }, time := { h := 0, mi := 0, s := 0, ms := 0 } } := by
  refine ⟨fun _ _ => rfl, ?_, by decide, by decide⟩
  intro n h0 h1 k
  exact plain_number_is_1900.2.2.1 n h0 h1 k

/-- [serial] **C11-c:** through the helpers no cell ever yields a duration, although date-time
    cells have one (serial 0.5 of type TimeDelta: 12 h) -/
theorem helper_never_duration :
    (∀ c : Cell, c.viaSerde.asDuration = none) ∧
    (Cell.dateTime (.frac 0 43200000 43200000 43200000) false .timeDelta).asDuration = some 43200000 := by
  refine ⟨?_, by decide⟩
  intro c; cases c <;> rfl

/-- [serial] **C11-d:** through the helpers ISO cells convert to nothing, although the cell itself
    converts whenever chrono parses its text -/
theorem helper_iso_none :
    (∀ pdt pd pt, (Cell.dateTimeIso pdt pd pt).viaSerde.asDatetime = none ∧
        (Cell.dateTimeIso pdt pd pt).viaSerde.asDate = none ∧
        (Cell.dateTimeIso pdt pd pt).viaSerde.asTime = none) ∧
    (∀ pt, (Cell.durationIso pt).viaSerde.asTime = none ∧ (Cell.durationIso pt).viaSerde.asDuration = none) ∧
    (∀ dt pd pt, (Cell.dateTimeIso (some dt) pd pt).asDatetime = some dt) ∧
    (∀ t, (Cell.durationIso (some t)).asDuration = some (t.toMs : Int)) :=
  ⟨fun _ _ _ => ⟨rfl, rfl, rfl⟩, fun _ => ⟨rfl, rfl⟩, fun _ _ _ => rfl, fun _ => rfl⟩

/-! ## durations -/

/-- [ms] a duration is the millisecond count itself; the only integer refused is `i64::MIN`,
    which chrono's `TimeDelta` cannot hold; a non-finite product gives `None` -/
theorem duration_is_ms (v : Int) :
    durationOfMs (.ms v) = (if v < -9223372036854775807 then none else some v) ∧
    durationOfMs .nonFinite = none :=
  ⟨tryMilliseconds_eq v, rfl⟩

/-! ## beyond the representable calendar -/

/-- `as_datetime` is `None` exactly when the float step was non-finite or the millisecond count
    lies outside chrono's span −262143-01-01T00:00 ..= +262142-12-31T23:59:59.999; otherwise it is
    the (right, see `date_time_components`) date-time.  Never a panic, never the epoch by
    default (fix D26). -/
theorem out_of_span_none :
    asDatetimeOfMs .nonFinite = none ∧
    (∀ v : Int, asDatetimeOfMs (.ms v) = none ↔
        (v < -8332392067200000 ∨ 8212476038400000 ≤ v)) := by
  refine ⟨rfl, ?_⟩
  intro v
  simp only [asDatetimeOfMs, tryMilliseconds_eq]
  by_cases hmin : v < -9223372036854775807
  · rw [if_pos hmin]
    simp only [true_iff]
    omega
  · rw [if_neg hmin]
    simp only [civilOfMs_eq]
    by_cases hin : minDay ≤ v / 86400000 ∧ v / 86400000 ≤ maxDay
    · rw [if_pos hin]
      unfold minDay maxDay at hin
      simp only [reduceCtorEq, false_iff]
      omega
    · rw [if_neg hin]
      unfold minDay maxDay at hin
      simp only [true_iff]
      omega

/-! ## the hypotheses are satisfiable: concrete non-trivial instances -/

/-- 2021-10-15T19:00:00 (serial 44484.791666…, the repository's own regression value) -/
example : asDatetimeOfMs (.ms 3843486000000) =
    some { date := { y := 2021, m := 10, d := 15 }, time := { h := 19, mi := 0, s := 0, ms := 0 } } := by
  decide

/-- a negative count: one millisecond before the epoch -/
example : civilOfMs (-1) =
    some { date := { y := 1899, m := 12, d := 29 }, time := { h := 23, mi := 59, s := 59, ms := 999 } } := by
  decide

/-- leap days exist where they should: 2000-02-29 and 1904-02-29, and not in 1900 -/
example : civilOfDays 36585 = { y := 2000, m := 2, d := 29 } ∧
    dateOfSerial true 59 = { y := 1904, m := 2, d := 29 } ∧
    nextDay { y := 1900, m := 2, d := 28 } = { y := 1900, m := 3, d := 1 } := by decide

/-- the hypotheses of `monotone_ms` and `date_time_components` are met across a day boundary -/
example : ∃ x y, civilOfMs 86399999 = some x ∧ civilOfMs 86400000 = some y ∧ x.le y ∧ x ≠ y :=
  ⟨_, _, rfl, rfl, by decide, by decide⟩

/-- the spec calendar itself behaves: February has 29 days in 2000 and 1904, 28 in 1900 and 1901,
    December is followed by January of the next year -/
example : addDays 29 { y := 2000, m := 2, d := 1 } = { y := 2000, m := 3, d := 1 } ∧
    addDays 28 { y := 1900, m := 2, d := 1 } = { y := 1900, m := 3, d := 1 } ∧
    addDays 29 { y := 1904, m := 2, d := 1 } = { y := 1904, m := 3, d := 1 } ∧
    addDays 28 { y := 1901, m := 2, d := 1 } = { y := 1901, m := 3, d := 1 } ∧
    addDays 31 { y := 1999, m := 12, d := 1 } = { y := 2000, m := 1, d := 1 } := by decide +kernel

/-- `serial_1900` / `serial_1904` instances: 1970-01-01 is serial 25569 resp. 24107 -/
example : dateOfSerial false 25569 = { y := 1970, m := 1, d := 1 } ∧
    dateOfSerial true 24107 = { y := 1970, m := 1, d := 1 } := by decide

/-- both edges of the span -/
example : asDatetimeOfMs (.ms (-8332392067200000)) ≠ none ∧ asDatetimeOfMs (.ms (-8332392067200001)) = none ∧
    asDatetimeOfMs (.ms 8212476038399999) ≠ none ∧ asDatetimeOfMs (.ms 8212476038400000) = none := by
  decide

end Dates
