import CalVerif.Lemmas.Dates
/-! # C11 — serial date-times convert to the right calendar date, time and duration

The theorems are about `Model/Dates.lean`, the model of `ExcelDateTime::{as_datetime, as_duration}`
and of the trait-level conversions, from the millisecond count on.  The float step
`round((serial [+ 1462] [+ 1]) * 86 400 000)` is NOT part of the model: it is validated by the
correspondence run (exhaustively on whole days, densely on fractions) against exact integer
arithmetic; `whole_days_exact` shows that on whole days it involves no rounding at all.

`Spec/Dates.lean` is the calendar these theorems are stated against: the Gregorian leap rule,
month lengths, `nextDay`, and `addDays k d` = `k` times `nextDay`. -/

namespace Dates

/-! ## the calendar arithmetic is the calendar -/

/-- one more day is the next calendar day — for every day number, negative ones included -/
theorem civil_step (n : Int) : civilOfDays (n + 1) = nextDay (civilOfDays n) :=
  civilOfDays_succ n

/-- 146 097 days are exactly 400 years -/
theorem civil_period (n : Int) :
    civilOfDays (n + 146097) = { civilOfDays n with y := (civilOfDays n).y + 400 } :=
  civilOfDays_add_era n

/-- day number `n` is the date reached by stepping `n` times from the epoch 1899-12-30 -/
theorem civil_correct (n : Nat) : civilOfDays (n : Int) = dateOfDays n := by
  have h := civilOfDays_add 0 n
  rw [civilOfDays_zero] at h
  simpa [dateOfDays] using h

/-- more generally: `k` days after day `n` is `k` calendar steps after its date -/
theorem civil_add (n : Int) (k : Nat) : civilOfDays (n + k) = addDays k (civilOfDays n) :=
  civilOfDays_add n k

/-- every day number is a well-formed date (month 1..12, day within the month's length) -/
theorem civil_valid (n : Int) : (civilOfDays n).Valid := civilOfDays_valid n

/-- distinct day numbers are distinct dates, in chronological order -/
theorem civil_strict_mono {a b : Int} (h : a < b) : (civilOfDays a).lt (civilOfDays b) :=
  civilOfDays_lt h

/-! ## the two date systems on whole-day serials -/

/-- 1900 system: serial 1 is 1900-01-01; serials 1..59 count days from 1899-12-31 (so 59 is
    1900-02-28, the day before the fictitious 1900-02-29); serial 61 is 1900-03-01; from serial
    60 on each unit is one calendar day; from 61 on the serial counts days from 1900-03-01. -/
theorem serial_1900 :
    dateOfSerial false 1 = { y := 1900, m := 1, d := 1 } ∧
    (∀ n : Nat, n ≤ 59 → dateOfSerial false n = addDays n { y := 1899, m := 12, d := 31 }) ∧
    dateOfSerial false 59 = { y := 1900, m := 2, d := 28 } ∧
    dateOfSerial false 61 = { y := 1900, m := 3, d := 1 } ∧
    (∀ n : Int, 60 ≤ n → dateOfSerial false (n + 1) = nextDay (dateOfSerial false n)) ∧
    (∀ k : Nat, dateOfSerial false (61 + k) = addDays k { y := 1900, m := 3, d := 1 }) := by
  refine ⟨by decide, ?_, by decide, by decide, ?_, ?_⟩
  · intro n hn
    have e : dayNumber false (n : Int) = (1 : Int) + n := by
      rw [dayNumber_false]; split <;> omega
    have h1 : civilOfDays 1 = { y := 1899, m := 12, d := 31 } := by decide
    rw [dateOfSerial, e, civilOfDays_add, h1]
  · intro n hn
    have e1 : dayNumber false (n + 1) = n + 1 := by
      rw [dayNumber_false]; split <;> omega
    have e2 : dayNumber false n = n := by
      rw [dayNumber_false]; split <;> omega
    rw [dateOfSerial, dateOfSerial, e1, e2]
    exact civilOfDays_succ n
  · intro k
    have e : dayNumber false (61 + (k : Int)) = (61 : Int) + k := by
      rw [dayNumber_false]; split <;> omega
    have h61 : civilOfDays 61 = { y := 1900, m := 3, d := 1 } := by decide
    rw [dateOfSerial, e, civilOfDays_add, h61]

/-- the last supported serial, 2 958 465, is 9999-12-31 -/
theorem serial_1900_last : dateOfSerial false 2958465 = { y := 9999, m := 12, d := 31 } := by
  decide

/-- 1904 system: serial 0 is 1904-01-01 and every unit is one calendar day -/
theorem serial_1904 :
    dateOfSerial true 0 = { y := 1904, m := 1, d := 1 } ∧
    (∀ n : Nat, dateOfSerial true n = addDays n { y := 1904, m := 1, d := 1 }) ∧
    (∀ n : Int, -1402 ≤ n → dateOfSerial true (n + 1) = nextDay (dateOfSerial true n)) := by
  refine ⟨by decide, ?_, ?_⟩
  · intro n
    have e : dayNumber true (n : Int) = (1462 : Int) + n := by
      rw [dayNumber_true]; split <;> omega
    have h0 : civilOfDays 1462 = { y := 1904, m := 1, d := 1 } := by decide
    rw [dateOfSerial, e, civilOfDays_add, h0]
  · intro n hn
    have e1 : dayNumber true (n + 1) = n + 1462 + 1 := by
      rw [dayNumber_true]; split <;> omega
    have e2 : dayNumber true n = n + 1462 := by
      rw [dayNumber_true]; split <;> omega
    rw [dateOfSerial, dateOfSerial, e1, e2]
    exact civilOfDays_succ _

/-- on whole-day serials of the supported range every number the float step touches (the serial,
    the serial plus the 1462 offset, plus the shim's 1, and the millisecond product) is a
    non-negative integer below 2^53, hence exactly representable: the step is exact there -/
theorem whole_days_exact (is1904 : Bool) (n : Int) (h0 : 0 ≤ n) (h1 : n ≤ 2958465) :
    0 ≤ dayNumber is1904 n ∧ dayNumber is1904 n ≤ 2958465 + 1462 ∧
    0 ≤ msOfWholeDay is1904 n ∧ msOfWholeDay is1904 n < 9007199254740992 := by
  unfold msOfWholeDay
  cases is1904
  · rw [dayNumber_false]; split <;> omega
  · rw [dayNumber_true]; split <;> omega

/-! ## date-time of a millisecond count -/

/-- `civilOfMs` in closed form: the date is the calendar date of `⌊ms / 1 day⌋`, `None` exactly
    outside chrono's span -/
theorem civilOfMs_eq (ms : Int) :
    civilOfMs ms =
      if minDay ≤ ms / 86400000 ∧ ms / 86400000 ≤ maxDay then
        some { date := civilOfDays (ms / 86400000),
               time := timeOfSecs (ms / 1000 % 86400).toNat (ms % 1000).toNat }
      else none := by
  unfold civilOfMs
  simp only [days_of_ms, addDaysChecked_eq]
  by_cases h : minDay ≤ ms / 86400000 ∧ ms / 86400000 ≤ maxDay
  · rw [if_pos h, if_pos h]
  · rw [if_neg h, if_neg h]

/-- **as_date / as_time are the components of as_datetime**, and they are what they should be:
    the date is the calendar date of the whole days in `ms`, the time of day is the remaining
    milliseconds split into h/m/s/ms, both well-formed -/
theorem date_time_components (ms : Int) (dt : DateTime) (h : civilOfMs ms = some dt) :
    dt.date = civilOfDays (ms / 86400000) ∧ dt.date.Valid ∧
    dt.time.toMs = (ms % 86400000).toNat ∧ dt.time.Valid := by
  rw [civilOfMs_eq] at h
  split at h
  · injection h with h
    subst h
    have hs0 : 0 ≤ ms / 1000 % 86400 := Int.emod_nonneg _ (by decide)
    have hs1 : ms / 1000 % 86400 < 86400 := Int.emod_lt_of_pos _ (by decide)
    have hm0 : 0 ≤ ms % 1000 := Int.emod_nonneg _ (by decide)
    have hm1 : ms % 1000 < 1000 := Int.emod_lt_of_pos _ (by decide)
    refine ⟨rfl, civilOfDays_valid _, ?_, ?_⟩
    · rw [← tod_of_ms]
      simp only [Time.toMs, timeOfSecs]
      omega
    · simp only [Time.Valid, timeOfSecs]
      omega
  · cases h

/-- trait level: `as_date` and `as_time` are by construction the two halves of `as_datetime`,
    a plain number converts like a 1900-system date-time and has no duration, non-numeric cells
    convert to nothing -/
theorem cell_conversions (c : Cell) :
    c.asDate = c.asDatetime.map (·.date) ∧ c.asTime = c.asDatetime.map (·.time) ∧
    (∀ m d, (Cell.num m).asDatetime = (Cell.dateTime m d).asDatetime) ∧
    (∀ m, (Cell.num m).asDuration = none) ∧
    Cell.other.asDatetime = none ∧ Cell.other.asDuration = none :=
  ⟨rfl, rfl, fun _ _ => rfl, fun _ => rfl, rfl, rfl⟩

/-- the serde helpers (`deserialize_as_*`): for plain numbers and for 1900-system date-time cells
    (`ms1900 = msDt`) they give what the direct conversion gives for date, time and date-time;
    **known findings, proved of the model:** a 1904-system cell is converted as if it were a
    1900-system one (`ms1900` instead of `msDt`), and no cell ever yields a duration -/
theorem serde_helpers (c : Cell) (ms1900 : MsIn) :
    (∀ m, (Cell.num m).viaSerde ms1900 = Cell.num m) ∧
    (∀ m d, ((Cell.dateTime m d).viaSerde m).asDatetime = (Cell.dateTime m d).asDatetime) ∧
    (∀ m d, ((Cell.dateTime m d).viaSerde ms1900).asDatetime = asDatetimeOfMs ms1900) ∧
    (c.viaSerde ms1900).asDuration = none := by
  refine ⟨fun _ => rfl, fun _ _ => rfl, fun _ _ => rfl, ?_⟩
  cases c <;> rfl

/-- whole-day serials of the supported range convert to midnight of their calendar date -/
theorem whole_day_datetime (is1904 : Bool) (n : Int) (h0 : 0 ≤ n) (h1 : n ≤ 2958465) :
    datetimeOfSerial is1904 n =
      some { date := dateOfSerial is1904 n, time := { h := 0, mi := 0, s := 0, ms := 0 } } := by
  obtain ⟨a, b, c, d⟩ := whole_days_exact is1904 n h0 h1
  unfold datetimeOfSerial asDatetimeOfMs dateOfSerial
  simp only [tryMilliseconds_eq]
  unfold msOfWholeDay at *
  generalize dayNumber is1904 n = k at *
  rw [if_neg (by omega)]
  simp only [civilOfMs_eq]
  have e1 : k * 86400000 / 86400000 = k := by omega
  have e2 : k * 86400000 / 1000 % 86400 = 0 := by omega
  have e3 : k * 86400000 % 1000 = 0 := by omega
  have hk : minDay ≤ k ∧ k ≤ maxDay := by unfold minDay maxDay; omega
  rw [e1, e2, e3, if_pos hk]
  rfl

/-! ## monotonicity -/

/-- a later millisecond count never gives an earlier date-time -/
theorem monotone_ms {a b : Int} (h : a ≤ b) {x y : DateTime}
    (hx : civilOfMs a = some x) (hy : civilOfMs b = some y) : x.le y := by
  obtain ⟨dx, _, tx, _⟩ := date_time_components a x hx
  obtain ⟨dy, _, ty, _⟩ := date_time_components b y hy
  unfold DateTime.le
  by_cases hd : a / 86400000 = b / 86400000
  · right
    refine ⟨by rw [dx, dy, hd], ?_⟩
    rw [tx, ty]
    omega
  · left
    rw [dx, dy]
    exact civilOfDays_lt (by omega)

/-- whole-day serials: a larger serial never gives an earlier date (non-strict: in the 1900
    system serials 59 and 60 share 1900-02-28) -/
theorem monotone_whole_days (is1904 : Bool) {n m : Int} (h : n ≤ m) :
    (dateOfSerial is1904 n).le (dateOfSerial is1904 m) := by
  apply civilOfDays_le
  cases is1904
  · rw [dayNumber_false, dayNumber_false]; split <;> split <;> omega
  · rw [dayNumber_true, dayNumber_true]; split <;> split <;> omega

theorem shim_collision : dateOfSerial false 59 = dateOfSerial false 60 := by decide

/-- The shim on a millisecond-valued serial when no rounding occurs (what the float step computes
    for serials that are exact multiples of 1 ms). -/
def shimMs (ms : Int) : Int := if ms ≥ 60 * 86400000 then ms else ms + 86400000

/-- **Known finding, proved of the model:** on fractional serials the conversion is NOT monotone
    across serial 60.  The day [60,61) is the fictitious 1900-02-29; the shim maps it onto the
    same calendar day as [59,60), so serial 59.5 (1900-02-28 12:00) converts to a later instant
    than serial 60.0 (1900-02-28 00:00). -/
theorem fictitious_day_not_monotone :
    ∃ a b : Int, a < b ∧
      civilOfMs (shimMs a) = some { date := { y := 1900, m := 2, d := 28 }, time := { h := 12, mi := 0, s := 0, ms := 0 } } ∧
      civilOfMs (shimMs b) = some { date := { y := 1900, m := 2, d := 28 }, time := { h := 0, mi := 0, s := 0, ms := 0 } } :=
  ⟨5140800000, 5184000000, by decide, by decide, by decide⟩

/-- … and that is the only place: the shim is monotone below serial 59, on [60, ∞), and from
    below 60 to 61 and beyond -/
theorem shimMs_monotone {a b : Int} (h : a ≤ b)
    (hfict : ¬ (59 * 86400000 < a ∧ a < 60 * 86400000 ∧ 60 * 86400000 ≤ b ∧ b < 61 * 86400000)) :
    shimMs a ≤ shimMs b := by
  unfold shimMs; split <;> split <;> omega

/-! ## durations -/

/-- a duration is the millisecond count itself (serial × 24 h after the float step); the only
    integer refused is `i64::MIN`, which chrono's `TimeDelta` cannot hold -/
theorem duration_is_ms (v : Int) :
    durationOfMs (.ms v) = (if v < -9223372036854775807 then none else some v) ∧
    durationOfMs .nonFinite = none ∧
    (∀ n : Int, -100000000000 ≤ n → durationOfMs (.ms (n * 86400000)) = some (n * 24 * 3600000)) := by
  refine ⟨tryMilliseconds_eq v, rfl, ?_⟩
  intro n hn
  simp only [durationOfMs, tryMilliseconds_eq]
  rw [if_neg (by omega)]
  congr 1
  omega

/-! ## beyond the representable calendar -/

/-- `as_datetime` is `None` exactly when the float step was non-finite or the millisecond count
    lies outside chrono's span −262143-01-01T00:00 ..= +262142-12-31T23:59:59.999; otherwise it is
    the (right, see `date_time_components`) date-time.  Never a panic, never the epoch by
    default (fix D26). -/
theorem out_of_span_none :
    asDatetimeOfMs .nonFinite = none ∧
    (∀ v : Int, asDatetimeOfMs (.ms v) = none ↔
        (v < -8332392067200000 ∨ 8212476038400000 ≤ v)) := by
  refine ⟨rfl, ?_⟩
  intro v
  simp only [asDatetimeOfMs, tryMilliseconds_eq]
  by_cases hmin : v < -9223372036854775807
  · rw [if_pos hmin]
    simp only [true_iff]
    omega
  · rw [if_neg hmin]
    simp only [civilOfMs_eq]
    by_cases hin : minDay ≤ v / 86400000 ∧ v / 86400000 ≤ maxDay
    · rw [if_pos hin]
      unfold minDay maxDay at hin
      simp only [reduceCtorEq, false_iff]
      omega
    · rw [if_neg hin]
      unfold minDay maxDay at hin
      simp only [true_iff]
      omega

/-! ## the hypotheses are satisfiable: concrete non-trivial instances -/

/-- 2021-10-15T19:00:00 (serial 44484.791666…, the repository's own regression value) -/
example : asDatetimeOfMs (.ms 3843486000000) =
    some { date := { y := 2021, m := 10, d := 15 }, time := { h := 19, mi := 0, s := 0, ms := 0 } } := by
  decide

/-- a negative count: one millisecond before the epoch -/
example : civilOfMs (-1) =
    some { date := { y := 1899, m := 12, d := 29 }, time := { h := 23, mi := 59, s := 59, ms := 999 } } := by
  decide

/-- leap days exist where they should: 2000-02-29 and 1904-02-29, and not in 1900 -/
example : civilOfDays 36585 = { y := 2000, m := 2, d := 29 } ∧
    dateOfSerial true 59 = { y := 1904, m := 2, d := 29 } ∧
    nextDay { y := 1900, m := 2, d := 28 } = { y := 1900, m := 3, d := 1 } := by decide

/-- the hypotheses of `monotone_ms` and `date_time_components` are met across a day boundary -/
example : ∃ x y, civilOfMs 86399999 = some x ∧ civilOfMs 86400000 = some y ∧ x.le y ∧ x ≠ y :=
  ⟨_, _, rfl, rfl, by decide, by decide⟩

/-- the spec calendar itself behaves: February has 29 days in 2000 and 1904, 28 in 1900 and 1901,
    December is followed by January of the next year -/
example : addDays 29 { y := 2000, m := 2, d := 1 } = { y := 2000, m := 3, d := 1 } ∧
    addDays 28 { y := 1900, m := 2, d := 1 } = { y := 1900, m := 3, d := 1 } ∧
    addDays 29 { y := 1904, m := 2, d := 1 } = { y := 1904, m := 3, d := 1 } ∧
    addDays 28 { y := 1901, m := 2, d := 1 } = { y := 1901, m := 3, d := 1 } ∧
    addDays 31 { y := 1999, m := 12, d := 1 } = { y := 2000, m := 1, d := 1 } := by decide +kernel

/-- `serial_1900` / `serial_1904` instances: 1970-01-01 is serial 25569 resp. 24107 -/
example : dateOfSerial false 25569 = { y := 1970, m := 1, d := 1 } ∧
    dateOfSerial true 24107 = { y := 1970, m := 1, d := 1 } := by decide

/-- both edges of the span -/
example : asDatetimeOfMs (.ms (-8332392067200000)) ≠ none ∧ asDatetimeOfMs (.ms (-8332392067200001)) = none ∧
    asDatetimeOfMs (.ms 8212476038399999) ≠ none ∧ asDatetimeOfMs (.ms 8212476038400000) = none := by
  decide

end Dates
