import CalVerif.Props.C01
import CalVerif.Props.C02
import CalVerif.Props.C03
import CalVerif.Props.C05
import CalVerif.Props.C08
import CalVerif.Props.C10
import CalVerif.Props.C12
import CalVerif.Props.C13
import CalVerif.Props.C14
import CalVerif.Props.C15
import CalVerif.Props.C17
import CalVerif.Props.C18
import CalVerif.Props.C19
/-! # C06 — malformed or hostile input yields an error, never a panic, a hang or a memory blow-up

    What is PROVED for C06 is collected here: for the modelled pure cores, on ARBITRARY input (not only
    on encodings of valid objects), the model returns `ok` or `err` — never `panic`, never `outOfFuel`
    (termination within a budget that is a function of the input length). Each statement below is a
    theorem about the model of the named Rust function; the models are tied to the code by the
    correspondence runs of the property that owns them (outcome CLASS included: a removed length check
    makes the implementation panic where the model returns `err`).

    Where the full statement is false of the code as it is, the theorem is the `_partial` form under the
    exact missing guard, and the remaining panic site is a KNOWN-FINDING of this property
    (findings/C06.json), matched by call site.

    What is NOT proved (and is searched, not proved, by the file-level part of `./check C06`): the zip,
    quick-xml and encoding_rs layers, real time and real memory. -/
namespace C06

/-! ## xlsx: references, dimensions, the cell reader, shared strings, shared formulas -/

/-- `get_row_and_optional_column` on any byte string: a position or an error -/
theorem a1_total (s : XlsxCells.Bytes) :
    (∃ v, XlsxCells.getRowCol s = .ok v) ∨ (∃ e, XlsxCells.getRowCol s = .err e) := XlsxCells.a1_no_panic s

/-- `get_dimension` on any byte string (reversed rectangles included) -/
theorem dimension_total (s : XlsxCells.Bytes) :
    (∃ v, XlsxCells.getDimension s = .ok v) ∨ (∃ e, XlsxCells.getDimension s = .err e) :=
  XlsxCells.dimension_no_panic s

/-- `XlsxCellReader::new` + `next_cell` on any XML event list -/
theorem xlsx_cell_reader_total (cfg : XlsxCells.Cfg) (evs : List XlsxCells.Ev) :
    (∃ v, XlsxCells.readCells cfg evs = .ok v) ∨ (∃ e, XlsxCells.readCells cfg evs = .err e) :=
  XlsxCells.reader_no_panic cfg evs

/-- `read_string`, `read_shared_strings` and the `<c>` children loop on any XML event list -/
theorem xlsx_text_readers_total (closing : XmlText.Name) (t : Option String) (strings : List XmlText.Txt)
    (evs : List XmlText.Ev) :
    ((∃ r, XmlText.readString closing evs = .ok r) ∨ (∃ e, XmlText.readString closing evs = .err e)) ∧
    ((∃ r, XmlText.readSharedStrings evs = .ok r) ∨ (∃ e, XmlText.readSharedStrings evs = .err e)) ∧
    ((∃ r, XmlText.cellText t strings evs = .ok r) ∨ (∃ e, XmlText.cellText t strings evs = .err e)) :=
  XmlText.xlsx_readers_total closing t strings evs

/-- `replace_cell_names` on any text and any offset: always `Ok` (no error, no panic, fuel suffices) -/
theorem shared_formula_translation_total (s : List Char) (d : Int × Int) :
    ∃ r, SharedFormula.replaceCellNames s d = .ok r := C15.replace_never_fails s d

/-! ## ods -/

/-- the `text:p` / `text:s` / annotation loop of `get_datatype` never panics -/
theorem ods_text_no_panic (evs : List XmlText.Ev) (x : String) : XmlText.odsCellText evs ≠ .panic x :=
  XmlText.ods_reader_no_panic evs x

/-- the whole ods text loop is TOTAL: `Ok` or `Err` on every event list (an unterminated annotation is
    `Err(Eof)` since /repo d6b5c9c, where it used to spin) -/
theorem ods_text_total (evs : List XmlText.Ev) :
    (∃ r, XmlText.odsCellText evs = .ok r) ∨ (∃ e, XmlText.odsCellText evs = .err e) :=
  XmlText.ods_reader_total evs

/-- XML entity / character-reference unescaping on any text: `Ok` or `Err` -/
theorem xml_unescape_total (s : List Char) :
    (∃ r, XmlEscape.unescape s = .ok r) ∨ (∃ e, XmlEscape.unescape s = .err e) := XmlEscape.unescape_total s

/-! ## number formats -/

/-- `detect_custom_number_format` is total: it classifies every text (after the bracket counter became a
    `usize`, ledger D30-b) -/
theorem number_format_scanner_total (s : List Char) : ∃ c, Formats.detect s = .ok c := Formats.scanner_total s

theorem number_format_scanner_no_panic (s : List Char) (msg : String) : Formats.detect s ≠ .panic msg :=
  Formats.scanner_no_panic s msg

/-! ## Range and header-row windowing -/

/-- `Range::from_sparse` on cells in ANY order (after the D40 repair): it returns for every list of `u32`
    coordinates whose row and column spans (+1) fit `u32` — no order hypothesis. (What it allocates is the dense
    bounding box: the known finding D37.) -/
theorem from_sparse_no_panic {α : Type} [Inhabited α] (cells : List (Nat × Nat × α))
    (hb : ∀ c ∈ cells, c.1 < 4294967296 ∧ c.2.1 < 4294967296)
    (hspan : ∀ c ∈ cells, ∀ c' ∈ cells, c'.1 - c.1 + 1 < 4294967296 ∧ c'.2.1 - c.2.1 + 1 < 4294967296) :
    ∃ r, Range.fromSparse cells = .ok r := Range.fromSparse_no_panic cells hb hspan

theorem from_sparse_returns {α : Type} [Inhabited α] (cells : List (Nat × Nat × α)) (h : Range.sparsePre cells) :
    ∃ r, Range.fromSparse cells = .ok r := Range.fromSparse_of_pre cells h

/-- header-row windowing of the lazy readers: returns for every option (any `n`) on every in-sheet, row-ordered
    cell list. NOT a hostile-input statement: it holds under those two hypotheses. -/
theorem header_row_lazy_returns {α : Type} [Inhabited α] [DecidableEq α] (cells : List (Nat × Nat × α))
    (hs : HeaderRow.RowSorted cells) (hb : HeaderRow.InSheet cells) (h : HeaderRow.Hdr) :
    ∃ r, HeaderRow.windowLazy cells h = .ok r := HeaderRow.lazy_no_panic cells hs hb h

/-! ## compound files (xls containers, VBA projects, encrypted packages) -/

/-- `get_chain` on ANY allocation table (cycles included): terminates, does not panic -/
theorem cfb_chain_total (s : Cfb.Sectors) (start : Nat) (fats : List Nat) (rd : Cfb.Bytes) (len : Nat) :
    s.getChain start fats rd len ≠ .outOfFuel ∧ ∀ m, s.getChain start fats rd len ≠ .panic m :=
  Cfb.getChain_total s start fats rd len

/-- `Cfb::new` on arbitrary bytes terminates -/
theorem cfb_new_terminates (file : Cfb.Bytes) (len : Nat) : Cfb.new file len ≠ .outOfFuel :=
  Cfb.new_terminates file len

/-- `Cfb::new` on arbitrary bytes never panics (after the `to_u32` repair of the C13 follow-up) -/
theorem cfb_new_no_panic (file : Cfb.Bytes) (len : Nat) (m : String) : Cfb.new file len ≠ .panic m :=
  Cfb.new_no_panic file len m

/-- memory: what `Cfb::new` keeps is bounded by what it has READ of the file (not by the `len` hint, on which
    nothing depends): the allocation table (4 bytes per entry) and the mini stream are no larger than the sector
    cache, and cache plus unread bytes are at most the file -/
theorem cfb_new_alloc_bound (file : Cfb.Bytes) (len : Nat) (c : Cfb.CfbSt) (rd : Cfb.Bytes)
    (h : Cfb.new file len = .ok (c, rd)) :
    c.fats.length * 4 ≤ c.sectors.data.length ∧ c.mini.data.length ≤ c.sectors.data.length ∧
    c.miniFats.length * 4 ≤ c.sectors.data.length ∧ c.sectors.data.length + rd.length ≤ file.length :=
  Cfb.new_alloc_bound file len c rd h

/-- the `len` argument of `Cfb::new` is a capacity hint only -/
theorem cfb_new_len_independent (file : Cfb.Bytes) (len₁ len₂ : Nat) : Cfb.new file len₁ = Cfb.new file len₂ :=
  Cfb.new_len_independent file len₁ len₂

/-- every chain read yields at most the bytes read so far; cache + unread bytes are conserved -/
theorem cfb_chain_alloc_bound (s : Cfb.Sectors) (start : Nat) (fats : List Nat) (rd : Cfb.Bytes) (len : Nat)
    (x : Cfb.Bytes) (s' : Cfb.Sectors) (rd' : Cfb.Bytes) (h : s.getChain start fats rd len = .ok (x, s', rd')) :
    x.length ≤ s'.data.length ∧ s'.data.length + rd'.length = s.data.length + rd.length :=
  Cfb.getChain_alloc_bound s start fats rd len x s' rd' h

/-- a stream is never longer than the bytes the reader state holds (conserved; at most twice the file length
    after `Cfb::new`) -/
theorem cfb_get_stream_alloc_bound (c : Cfb.CfbSt) (name : List Char) (rd : Cfb.Bytes)
    (x : Cfb.Bytes) (c' : Cfb.CfbSt) (rd' : Cfb.Bytes) (h : Cfb.getStream c name rd = .ok (x, c', rd')) :
    x.length ≤ c.bytes rd ∧ c'.bytes rd' = c.bytes rd :=
  Cfb.getStream_alloc_bound c name rd x c' rd' h

theorem cfb_bytes_after_new (file : Cfb.Bytes) (len : Nat) (c : Cfb.CfbSt) (rd : Cfb.Bytes)
    (h : Cfb.new file len = .ok (c, rd)) : c.bytes rd ≤ 2 * file.length :=
  Cfb.bytes_after_new file len c rd h

/-- `get_stream` on arbitrary reader state: no panic, terminates -/
theorem cfb_get_stream_total (c : Cfb.CfbSt) (name : List Char) (rd : Cfb.Bytes) :
    (∀ m, Cfb.getStream c name rd ≠ .panic m) ∧ Cfb.getStream c name rd ≠ .outOfFuel :=
  Cfb.getStream_no_panic c name rd

/-- time: the number of sector reads `Cfb::new` plus one `get_stream` perform is linear in the file length, on
    arbitrary bytes (a GLOBAL step count threaded through the nested loops, not a per-loop budget) -/
theorem cfb_read_cost_linear (file : Cfb.Bytes) (len : Nat) (c : Cfb.CfbSt) (rd : Cfb.Bytes)
    (h : Cfb.new file len = .ok (c, rd)) (name : List Char) :
    Cfb.newCost file + Cfb.getStreamCost c name rd ≤ 3 * file.length + 110 :=
  Cfb.read_cost_linear file len c rd h name

/-! ## xls records, strings, formulas -/

/-- `parse_mul_rk` on any payload: never a panic (after the arithmetic fix) -/
theorem xls_mulrk_no_panic (env : BiffCells.Env) (r : Biff.Bytes) (s : String) :
    BiffCells.parseMulRk env r ≠ .panic s := BiffCells.mulrk_no_panic env r s

/-- record loop + `parse_sst` on any byte stream: terminates within `length + 1` steps -/
theorem xls_sst_reader_terminates (s : Biff.Bytes) : Biff.sstFromStream (s.length + 1) s ≠ .outOfFuel :=
  Biff.sst_reader_never_out_of_fuel s

/-- both formula token decoders and the xls defined-name decoder are total on arbitrary token bytes (after the
    C14 follow-up): never a panic, and the loop budget `rgce.length` is never exhausted -/
theorem xls_formula_decoder_no_panic (ctx : Ptg.Ctx) (rgce : Ptg.Bytes) (m : String) :
    Ptg.parseFormulaXls ctx rgce ≠ .panic m := C14.parseFormulaXls_no_panic ctx rgce m

theorem xls_formula_decoder_terminates (ctx : Ptg.Ctx) (rgce : Ptg.Bytes) :
    Ptg.parseFormulaXls ctx rgce ≠ .outOfFuel := C14.parseFormulaXls_fuel ctx rgce

theorem xlsb_formula_decoder_no_panic (ctx : Ptg.Ctx) (rgce : Ptg.Bytes) (m : String) :
    Ptg.parseFormulaXlsb ctx rgce ≠ .panic m := C14.parseFormulaXlsb_no_panic ctx rgce m

theorem xlsb_formula_decoder_terminates (ctx : Ptg.Ctx) (rgce : Ptg.Bytes) :
    Ptg.parseFormulaXlsb ctx rgce ≠ .outOfFuel := C14.parseFormulaXlsb_fuel ctx rgce

/-- the only recursive arm of the xlsb decoder (PtgMemFunc / PtgMemArea sub-expressions) never goes deeper
    than `MAX_FORMULA_NESTING` = 64 calls, whatever the bytes (after /repo f4b2b00; before it a 10000-level
    formula overflowed the stack) -/
theorem xlsb_formula_decoder_depth_bounded (ctx : Ptg.Ctx) (rgce : Ptg.Bytes) :
    Ptg.depthUsed ctx 0 rgce.length rgce ⟨[], []⟩ ≤ Ptg.maxMemDepth ∧ Ptg.maxMemDepth = 64 :=
  C14.parseFormulaXlsb_depth_bounded ctx rgce

theorem xls_defined_name_decoder_no_panic (rgce : Ptg.Bytes) (m : String) :
    Ptg.definedNameXls rgce ≠ .panic m := C14.definedNameXls_no_panic rgce m

/-- **linear work** of the xls sheet loop on ARBITRARY bytes and BoundSheet8 offsets (after /repo edc415f, which the
    record flood of this check's search found): the body of the per-sheet record loop runs, over ALL sheets together,
    at most `8·len + 65536 + (number of sheets)` times, however the offsets overlap (before the repair:
    `sheets × records`, quadratic). It counts loop bodies, not the cost of one body. -/
theorem xls_sheet_loop_work_linear (env : BiffCells.Env) (stream : Biff.Bytes) (offsets : List Nat) :
    BiffCells.sheetsWork env stream offsets 0 ≤ 8 * stream.length + 65536 + offsets.length :=
  (BiffCells.xls_sheet_loop_work_linear env stream offsets).2

/-- record framing + `parse_sst` on ANY byte stream: `Ok` or `Err` within the budget -/
theorem xls_sst_reader_total (s : Biff.Bytes) :
    (∃ v, Biff.sstFromStream (s.length + 1) s = .ok v) ∨ (∃ e, Biff.sstFromStream (s.length + 1) s = .err e) :=
  Biff.sstFromStream_total s

/-- `parse_merge_cells` on any payload: regions or a `Len` error -/
theorem xls_merge_cells_total (r : Geometry.Bytes) :
    (∃ ds, Geometry.parseMergeCells r = .ok ds) ∨ Geometry.parseMergeCells r = .err "Len:merge cells" :=
  Geometry.parse_merge_cells_no_panic r

/-- xlsx tables: any `ref` text, any header / totals counts, any `insertRow`, any sheet range —
    `read_table_metadata`'s geometry is an `Err` or a rectangle, and `table_by_name` on it returns `Ok`
    whenever the rectangle's cell count fits `u32` (beyond that: the dense allocation of D37) -/
theorem xlsx_table_no_panic {α : Type} [Inhabited α] (m : Geometry.Mode) (hm : m.satArith = true)
    (hd : m.satDim = true) (ref : Geometry.Bytes) (h t : Nat) (ins : Bool) (rng : Range.Rng α) :
    (∃ e, Geometry.tableDims m ref h t ins = .err e) ∨
    (∃ d, Geometry.tableDims m ref h t ins = .ok d ∧
      ((d.er - d.sr + 1) * (d.ec - d.sc + 1) < Range.U32 → ∃ tbl, Geometry.tableData rng d = .ok tbl)) :=
  Geometry.table_by_name_no_panic m hm hd ref h t ins rng

/-! ## xlsb -/

/-- xlsb record framing, the sheet-part cell loop and the shared-string reader on ANY bytes: no panic, budgets
    suffice (after the C03 follow-up) -/
theorem xlsb_records_no_panic (bs : Xlsb.Bytes) (m : String) : Xlsb.records bs ≠ .panic m :=
  Xlsb.records_no_panic bs m

theorem xlsb_records_terminate (bs : Xlsb.Bytes) : Xlsb.records bs ≠ .outOfFuel := Xlsb.records_total bs

theorem xlsb_sheet_cells_no_panic (ctx : Xlsb.Ctx) (bs : Xlsb.Bytes) (m : String) :
    Xlsb.sheetCells ctx bs ≠ .panic m := Xlsb.sheetCells_no_panic ctx bs m

theorem xlsb_sheet_cells_terminate (ctx : Xlsb.Ctx) (bs : Xlsb.Bytes) : Xlsb.sheetCells ctx bs ≠ .outOfFuel :=
  Xlsb.sheetCells_total ctx bs

theorem xlsb_shared_strings_no_panic (bs : Xlsb.Bytes) (m : String) : Xlsb.readSharedStrings bs ≠ .panic m :=
  Xlsb.readSharedStrings_no_panic bs m

/-! ## the container glue and the style tables (collected after the coverage extension) -/

/-- xlsx: the relationships part, the sheet table of `Xlsx::new` and opening a sheet by name are TOTAL on arbitrary
    event lists / archives -/
theorem xlsx_container_total {α : Type} (a : XlsxContainer.Archive α) (evs : List Meta.Ev) (name : String) :
    ((∃ r, XlsxContainer.readRelationships evs = .ok r) ∨ (∃ e, XlsxContainer.readRelationships evs = .err e)) ∧
    ((∃ t, XlsxContainer.sheetTable a = .ok t) ∨ (∃ e, XlsxContainer.sheetTable a = .err e)) ∧
    ((∃ c, XlsxContainer.openSheet a name = .ok c) ∨ (∃ e, XlsxContainer.openSheet a name = .err e)) :=
  ⟨XlsxContainer.relationships_total evs, XlsxContainer.sheet_table_total a, XlsxContainer.open_sheet_total a name⟩

/-- xlsb: the relationships part and resolving a sheet name to its part are TOTAL -/
theorem xlsb_container_total (cfg : Rels.Cfg) (evs : List Rels.Ev) (bk : XlsbBook.Book) (parts : XlsbBook.Parts)
    (name : Meta.Text) :
    ((∃ v, Rels.readRels cfg evs = .ok v) ∨ (∃ e, Rels.readRels cfg evs = .err e)) ∧
    ((∃ b, XlsbBook.sheetPart bk parts name = .ok b) ∨ (∃ e, XlsbBook.sheetPart bk parts name = .err e)) :=
  ⟨XlsbBook.rels_total cfg evs, XlsbBook.sheet_part_total bk parts name⟩

/-- the style-table decoders of the three containers never panic: xls `parse_xf` / `parse_format` and the FORMAT / XF
    arms of the globals loop on any record list and any byte stream, xlsb `read_styles` on any bytes, xlsx
    `read_styles` on any event list (which always ends with a table or an error) -/
theorem style_decoders_no_panic (data stream part : Formats.Bytes) (recs : List (Nat × Formats.Bytes))
    (evs : List Formats.SEv) (m : String) :
    Formats.xlsParseXf data ≠ .panic m ∧ Formats.xlsParseFormat data ≠ .panic m ∧
    Formats.xlsStylesOfRecords recs ≠ .panic m ∧ Formats.xlsStylesOfStream stream ≠ .panic m ∧
    Formats.xlsbStylesOfBytes part ≠ .panic m ∧ Formats.xlsxStylesOfEvents evs ≠ .panic m ∧
    ((∃ t, Formats.xlsxStylesOfEvents evs = .ok t) ∨ (∃ e, Formats.xlsxStylesOfEvents evs = .err e)) :=
  ⟨Formats.xls_parse_xf_no_panic data m, Formats.xls_parse_format_no_panic data m,
   Formats.xls_styles_records_no_panic recs m, Formats.xls_styles_stream_no_panic stream m,
   Formats.xlsb_styles_bytes_no_panic part m, Formats.xlsx_styles_events_no_panic evs m,
   Formats.xlsx_styles_events_total evs⟩

/-- xlsb formula cells (`XlsbCellsReader::next_formula`, `formula_rgce`, `Xlsb::worksheet_formula`) on ANY bytes of a
    sheet part: no panic of the reader, the loop stays within one step per byte; the only panic `worksheet_formula`
    can end in is `Range::from_sparse`'s own on hostile coordinates (the known finding D37) -/
theorem xlsb_formula_cells_total (ctx : Ptg.Ctx) (bs : Xlsb.Bytes) (m : String) :
    XlsbFormula.sheetFormulas ctx bs ≠ .panic m ∧ XlsbFormula.sheetFormulas ctx bs ≠ .outOfFuel ∧
    XlsbFormula.worksheetFormula ctx bs ≠ .outOfFuel :=
  ⟨C14.sheetFormulas_no_panic ctx bs m, C14.sheetFormulas_total ctx bs, (C14.worksheetFormulaXlsb_total ctx bs).1⟩

/-! ## VBA -/

/-- `decompress_stream` is total: bytes or an error on every byte string (after the C18 follow-up repaired the
    unchecked reads, the copy-offset underflow and the signature assertion) -/
theorem vba_decompress_total (s : Ovba.Bytes) :
    (∃ b, Ovba.decompress s = .ok b) ∨ (∃ e, Ovba.decompress s = .err e) := Ovba.C18.decompress_total s

/-- **allocation bound**: whatever the input, `decompress_stream` returns at most 2049 bytes per input byte -/
theorem vba_decompress_alloc_bound (s out : Ovba.Bytes) (h : Ovba.decompress s = .ok out) :
    out.length ≤ 2049 * s.length := Ovba.C18.decompress_output_bound s out h

theorem vba_decompress_terminates (s : Ovba.Bytes) : Ovba.decompress s ≠ .outOfFuel :=
  Ovba.C18.decompress_never_out_of_fuel s

/-- the `dir` stream walk and `VbaProject::from_cfb` never panic, whatever the streams contain -/
theorem vba_dir_walk_no_panic (s : Ovba.Bytes) (m : String) : Ovba.dirWalk s ≠ .panic m :=
  Ovba.C18.dirWalk_no_panic s m

theorem vba_project_no_panic (d : Option Ovba.Bytes) (lookup : Ovba.Bytes → Option Ovba.Bytes) (m : String) :
    Ovba.project d lookup ≠ .panic m := Ovba.C18.project_no_panic d lookup m

end C06
