import CalVerif.Lemmas.XmlText
import CalVerif.Lemmas.XmlEscape
import CalVerif.Lemmas.XmlTextXlsxCells
/-! # C19 — cell text survives every storage form and escaping layer unchanged

    Property theorems only (helper lemmas: `Lemmas/XmlText.lean`; models: `Model/XmlText.lean`; storage forms
    and their rendering as event lists: `Spec/XmlText.lean`).

    The reader theorems start at the XML *event list* (xlsx, ods) and at the UTF-16 *code units* (xlsb).
    Below the event list, entity / character-reference **unescaping** is modelled (`Model/XmlEscape.lean`,
    mirroring quick-xml 0.37 `escape::unescape`) and proved to invert the writer's escaping in every spelling
    (`unescape_escape`), and the writer's CDATA cut is proved to produce terminator-free sections that
    concatenate back (`cdata_sections_roundtrip`).  Still trusted (correspondence run only): quick-xml's
    tokenizer (where elements, text, CDATA sections and comments begin and end; attribute parsing; encoding
    detection) and encoding_rs (UTF-16 → `String`).  The property as a whole is therefore **partially** proved:
    every theorem below is complete for the layer it speaks about.

    Reader configuration assumed by every event-level theorem (it is what `xml_reader` in src/xlsx/mod.rs and
    the two `Reader` set-ups in src/ods.rs establish, for every part and hence for `<t>`, `<v>`, `<f>`, `<is>`,
    `text:p` alike): `trim_text(false)` — a Text event carries the character data between two tags exactly,
    leading / trailing / white-space-only text included, nothing is dropped or trimmed;
    `expand_empty_elements = true` — `<x/>` arrives as `Start x`, `End x`; `check_end_names = false` — an end
    tag is delivered whatever its name (the loops compare names themselves); `check_comments = false`.
    The harness observes these settings through strings with leading, trailing and only white space, empty
    elements written both ways, and white-space text between elements.
    The xls string readers are property C12's model (`Model/BiffStrings.lean`). -/
namespace XmlText

/-! ## xlsx: one string item (`<si>` or `<is>`) -/

/-- A plain item `lead <t>…</t> trail </closing>` reads as the text of its `<t>`, for every prefix of the
    `t` element, every attribute (`xml:space`), every split of the character data into Text / CData events,
    every inert material before the `<t>` and everything (phonetic runs, `phoneticPr`, extensions) between
    the `</t>` and the closing tag; the reader stops exactly after the closing tag. -/
theorem plain_roundtrip (closing : Name) (lead : List Ev) (t : TElem) (trail rest : List Ev)
    (h : (StringForm.plain lead t trail).wf closing = true) :
    readString closing (renderSi closing (.plain lead t trail) ++ rest) = .ok (some t.txt, rest) :=
  runSi_form closing _ rest h

/-- Rich text: the result is the concatenation, in order, of the text of the `<t>` of every run `<r>`;
    phonetic runs `<rPh>` (whatever they contain) and inert material contribute nothing, wherever they are
    interleaved; element prefixes are arbitrary and may differ from element to element.  With no run at all
    (empty item `<si/>`, phonetic-only item) `read_string` returns `None`. -/
theorem rich_concat (closing : Name) (items : List RunItem) (rest : List Ev)
    (h : (StringForm.rich items).wf closing = true) :
    readString closing (renderSi closing (.rich items) ++ rest) =
      .ok (if items.any RunItem.isRun then some (((items.filter RunItem.isRun).map RunItem.txt).flatten) else none, rest) := by
  have hf : ((items.filter RunItem.isRun).map RunItem.txt).flatten = (items.map RunItem.txt).flatten := by
    induction items with
    | nil => rfl
    | cons it is ih =>
      have := ih (by
        simp only [StringForm.wf, List.all_cons, Bool.and_eq_true, decide_eq_true_eq] at h ⊢
        exact ⟨h.1.2, h.2⟩)
      cases it <;> simp_all [List.filter, RunItem.isRun, RunItem.txt]
  rw [hf]
  exact runSi_form closing _ rest h

/-- Both results in one statement: every well-formed form reads as `resultOf` (= `some (textOf form)` as
    soon as the item has a `<t>` or a run). -/
theorem readString_spec (closing : Name) (f : StringForm) (rest : List Ev) (h : f.wf closing = true) :
    readString closing (renderSi closing f ++ rest) = .ok (resultOf f, rest) :=
  runSi_form closing f rest h

/-- Text and CData events contribute alike, in any split (with comments / PIs in between): a `<t>` whose
    character data arrives as the chunk list `cs` reads like the same `<t>` with one Text event. -/
theorem text_kinds (closing : Name) (lead : List Ev) (t : TElem) (cs : List Chunk) (trail rest : List Ev)
    (h : (StringForm.plain lead t trail).wf closing = true) :
    readString closing (renderSi closing (.plain lead { t with body := cs } trail) ++ rest) =
      readString closing (renderSi closing (.plain lead { t with body := [.text (chunksText cs)] } trail) ++ rest) := by
  rw [plain_roundtrip _ _ _ _ _ (by simpa [StringForm.wf] using h), plain_roundtrip _ _ _ _ _ (by simpa [StringForm.wf] using h)]
  simp [TElem.txt, chunksText, Chunk.txt]

/-- the same inside a rich run -/
theorem text_kinds_rich (closing : Name) (pre post : List RunItem) (p : Option String) (props tail : List Ev)
    (t : TElem) (cs : List Chunk) (rest : List Ev)
    (h : (StringForm.rich (pre ++ .run p props { t with body := cs } tail :: post)).wf closing = true) :
    readString closing (renderSi closing (.rich (pre ++ .run p props { t with body := cs } tail :: post)) ++ rest) =
      readString closing
        (renderSi closing (.rich (pre ++ .run p props { t with body := [.text (chunksText cs)] } tail :: post)) ++ rest) := by
  have h' : (StringForm.rich (pre ++ .run p props { t with body := [.text (chunksText cs)] } tail :: post)).wf closing = true := by
    simpa [StringForm.wf, RunItem.wf] using h
  rw [readString_spec _ _ _ h, readString_spec _ _ _ h']
  simp [resultOf, RunItem.txt, RunItem.isRun, TElem.txt, chunksText, Chunk.txt]

/-! ## xlsx: the shared string table -/

/-- `read_shared_strings` yields exactly one entry per `<si>`, in order, equal to the item's text —
    including empty items `<si/>` and phonetic-only items (entry `""`), whatever the prefixes and whatever
    ignorable material lies between the items. -/
theorem sst_strings (sstPre : Option String) (items : List SstItem) (tailGap : List Ev)
    (h : items.all SstItem.wf = true) (hg : tailGap.all gapEv = true) (before rest : List Ev)
    (hb : before.all gapEv = true) :
    readSharedStrings (before ++ renderSst sstPre items tailGap ++ rest) = .ok (items.map fun it => textOf it.form) := by
  have h0 : ∀ acc r, runSst .top acc (.start ⟨sstPre, "sst"⟩ [] :: r) = runSst .top acc r := by
    intro acc r; simp [runSst]
  have h1 : ∀ acc r, runSst .top acc (.end_ ⟨sstPre, "sst"⟩ :: r) = .ok acc := by
    intro acc r; simp [runSst]
  simp only [readSharedStrings, renderSst, List.append_assoc, List.cons_append, List.nil_append]
  rw [runSst_gap _ _ _ hb, h0, runSst_items _ _ _ h, runSst_gap _ _ _ hg, h1]
  simp

/-- Shared-string indices always designate the i-th item of the table, including when some items are
    empty: the i-th entry of the vector is the text of the i-th `<si>`. -/
theorem sst_alignment (sstPre : Option String) (items : List SstItem) (tailGap : List Ev)
    (h : items.all SstItem.wf = true) (hg : tailGap.all gapEv = true) (i : Nat) (hi : i < items.length) :
    ∃ strings, readSharedStrings (renderSst sstPre items tailGap) = .ok strings ∧
      strings.length = items.length ∧ strings[i]? = some (textOf items[i].form) := by
  refine ⟨items.map fun it => textOf it.form, ?_, by simp, by simp [hi]⟩
  have := sst_strings sstPre items tailGap h hg [] [] rfl
  simpa using this

/-! ## xlsx: the three cell kinds that carry text -/

/-- `t="s"`: the cell is the `i`-th shared string (index written in decimal, any split of the digits into
    Text / CData events, any prefix on `v` and `c`). -/
theorem shared_cell (strings : List Txt) (i : Nat) (hi : i < strings.length) (h64 : i < 18446744073709551616)
    (vp cp : Option String) (cs : List Chunk) (hcs : chunksText cs = decimal i) (rest : List Ev) :
    cellText (some "s") strings
      (.start ⟨vp, "v"⟩ [] :: chunksEvs cs ++ [.end_ ⟨vp, "v"⟩, .end_ ⟨cp, "c"⟩] ++ rest)
      = .ok (.shared strings[i], rest) := by
  have h1 : cellStep (some "s") strings (.inC .empty) (.start ⟨vp, "v"⟩ []) = .cont (.inV ⟨vp, "v"⟩ []) := by
    simp [cellStep]
  have h2 : cellStep (some "s") strings (.inV ⟨vp, "v"⟩ (decimal i)) (.end_ ⟨vp, "v"⟩)
      = .cont (.inC (.shared strings[i])) := by
    simp [cellStep, readV, atoiUsize_decimal i h64, hi]
  have h3 : cellStep (some "s") strings (.inC (.shared strings[i])) (.end_ ⟨cp, "c"⟩) = .done (.shared strings[i]) := by
    simp [cellStep]
  simp only [cellText, List.cons_append, List.append_assoc, List.nil_append]
  rw [runCell_cont _ h1, runCell_chunks, List.nil_append, hcs, runCell_cont _ h2, runCell_done _ h3]

/-- `t="str"` (a formula's string result): the cell is the character data of `<v>`, after an optional
    `<f>…</f>` element (skipped whatever it contains). -/
theorem str_cell (strings : List Txt) (fp vp cp : Option String) (fa : List (String × Txt)) (fbody : List Ev)
    (hf : fbody.all (noClosing ⟨fp, "f"⟩) = true) (withF : Bool) (cs : List Chunk) (rest : List Ev) :
    cellText (some "str") strings
      ((if withF then .start ⟨fp, "f"⟩ fa :: fbody ++ [.end_ ⟨fp, "f"⟩] else []) ++
        .start ⟨vp, "v"⟩ [] :: chunksEvs cs ++ [.end_ ⟨vp, "v"⟩, .end_ ⟨cp, "c"⟩] ++ rest)
      = .ok (.str (chunksText cs), rest) := by
  have h1 : ∀ v, cellStep (some "str") strings (.inC v) (.start ⟨vp, "v"⟩ []) = .cont (.inV ⟨vp, "v"⟩ []) := by
    intro v; simp [cellStep]
  have h2 : cellStep (some "str") strings (.inV ⟨vp, "v"⟩ (chunksText cs)) (.end_ ⟨vp, "v"⟩)
      = .cont (.inC (.str (chunksText cs))) := by
    simp [cellStep, readV]
  have h3 : cellStep (some "str") strings (.inC (.str (chunksText cs))) (.end_ ⟨cp, "c"⟩) = .done (.str (chunksText cs)) := by
    simp [cellStep]
  have hv : ∀ v r, runCell (some "str") strings (.inC v)
      (.start ⟨vp, "v"⟩ [] :: (chunksEvs cs ++ .end_ ⟨vp, "v"⟩ :: .end_ ⟨cp, "c"⟩ :: r)) = .ok (.str (chunksText cs), r) := by
    intro v r
    rw [runCell_cont _ (h1 v), runCell_chunks, List.nil_append, runCell_cont _ h2, runCell_done _ h3]
  cases withF with
  | false =>
    simp only [cellText, List.cons_append, List.append_assoc, List.nil_append, Bool.false_eq_true, if_false]
    exact hv _ _
  | true =>
    have f1 : cellStep (some "str") strings (.inC .empty) (.start ⟨fp, "f"⟩ fa) = .cont (.inF ⟨fp, "f"⟩ 0) := by
      simp [cellStep]
    have f2 : ∀ (evs r : List Ev), evs.all (noClosing ⟨fp, "f"⟩) = true →
        runCell (some "str") strings (.inF ⟨fp, "f"⟩ 0) (evs ++ r) = runCell (some "str") strings (.inF ⟨fp, "f"⟩ 0) r := by
      intro evs r hh
      induction evs with
      | nil => rfl
      | cons e es ih =>
        simp only [List.all_cons, Bool.and_eq_true] at hh
        have : cellStep (some "str") strings (.inF ⟨fp, "f"⟩ 0) e = .cont (.inF ⟨fp, "f"⟩ 0) := by
          have := hh.1
          cases e <;> simp_all [cellStep, noClosing]
        rw [List.cons_append, runCell_cont _ this, ih hh.2]
    have f3 : cellStep (some "str") strings (.inF ⟨fp, "f"⟩ 0) (.end_ ⟨fp, "f"⟩) = .cont (.inC .empty) := by
      simp [cellStep]
    simp only [cellText, List.cons_append, List.append_assoc, List.nil_append, if_true]
    rw [runCell_cont _ f1, f2 _ _ hf, runCell_cont _ f3]
    exact hv _ _

/-- Inline string `<is>…</is>`: the cell is the item's text for every storage form of the item (whatever the
    cell's `t` attribute says); an item without `<t>` and without run gives an empty cell. -/
theorem inline_cell (t : Option String) (strings : List Txt) (ip cp : Option String) (ia : List (String × Txt))
    (f : StringForm) (h : f.wf ⟨ip, "is"⟩ = true) (rest : List Ev) :
    cellText t strings (.start ⟨ip, "is"⟩ ia :: renderSi ⟨ip, "is"⟩ f ++ [.end_ ⟨cp, "c"⟩] ++ rest)
      = .ok (CellVal.ofOpt (resultOf f), rest) := by
  have h1 : cellStep t strings (.inC .empty) (.start ⟨ip, "is"⟩ ia) = .cont (.inIs ⟨ip, "is"⟩ (.outer none false)) := by
    simp [cellStep]
  have h3 : ∀ v, cellStep t strings (.inC v) (.end_ ⟨cp, "c"⟩) = .done v := by
    intro v; simp [cellStep]
  simp only [cellText, List.cons_append, List.append_assoc, List.nil_append]
  rw [runCell_cont _ h1, runCell_inIs, runSi_form _ _ _ h]
  simp only
  rw [runCell_done _ (h3 _)]

/-- The formula text of a cell (`worksheet_formula`) is the character data of its `<f>`, Text and CData
    alike, whether the cached value `<v>…</v>` follows or not. -/
theorem formula_text (fp vp cp : Option String) (fa : List (String × Txt)) (cs : List Chunk) (withV : Bool)
    (vbody : List Ev) (hv : vbody.all (noClosing ⟨vp, "v"⟩) = true) (rest : List Ev) :
    formulaText (.start ⟨fp, "f"⟩ fa :: chunksEvs cs ++ [.end_ ⟨fp, "f"⟩] ++
        (if withV then .start ⟨vp, "v"⟩ [] :: vbody ++ [.end_ ⟨vp, "v"⟩] else []) ++ [.end_ ⟨cp, "c"⟩] ++ rest)
      = .ok (chunksText cs, rest) := by
  have step : ∀ {m m' : FmlaMode} {e : Ev} (r : List Ev), fmlaStep m e = .cont m' → runFmla m (e :: r) = runFmla m' r := by
    intro m m' e r h; cases m <;> simp [runFmla, h]
  have fin : ∀ {m : FmlaMode} {e : Ev} {v : Txt} (r : List Ev), fmlaStep m e = .done v → runFmla m (e :: r) = .ok (v, r) := by
    intro m e v r h; cases m <;> simp [runFmla, h]
  have hchunks : ∀ (cs : List Chunk) (acc : Txt) (r : List Ev),
      runFmla (.inF ⟨fp, "f"⟩ acc none) (chunksEvs cs ++ r) = runFmla (.inF ⟨fp, "f"⟩ (acc ++ chunksText cs) none) r := by
    intro cs
    induction cs with
    | nil => intro acc r; simp [chunksEvs, chunksText]
    | cons k ks ih =>
      intro acc r
      have hk : fmlaStep (.inF ⟨fp, "f"⟩ acc none) k.ev = .cont (.inF ⟨fp, "f"⟩ (acc ++ k.txt) none) := by
        cases k <;> simp [fmlaStep, Chunk.ev, Chunk.txt]
      simp only [chunksEvs, List.map_cons, List.cons_append] at ih ⊢
      rw [step _ hk, ih]
      simp [chunksText, List.append_assoc]
  have h1 : fmlaStep (.inC none) (.start ⟨fp, "f"⟩ fa) = .cont (.inF ⟨fp, "f"⟩ [] none) := by simp [fmlaStep]
  have h2 : fmlaStep (.inF ⟨fp, "f"⟩ (chunksText cs) none) (.end_ ⟨fp, "f"⟩) = .cont (.inC (some (chunksText cs))) := by
    simp [fmlaStep]
  have h3 : fmlaStep (.inC (some (chunksText cs))) (.end_ ⟨cp, "c"⟩) = .done (chunksText cs) := by simp [fmlaStep]
  simp only [formulaText, List.cons_append, List.append_assoc, List.nil_append]
  rw [step _ h1, hchunks, List.nil_append, step _ h2]
  cases withV with
  | false =>
    simp only [Bool.false_eq_true, if_false, List.nil_append]
    rw [fin _ h3]
  | true =>
    have v1 : fmlaStep (.inC (some (chunksText cs))) (.start ⟨vp, "v"⟩ []) = .cont (.skip ⟨vp, "v"⟩ 0 (some (chunksText cs))) := by
      simp [fmlaStep]
    have v2 : ∀ (evs r : List Ev), evs.all (noClosing ⟨vp, "v"⟩) = true →
        runFmla (.skip ⟨vp, "v"⟩ 0 (some (chunksText cs))) (evs ++ r) = runFmla (.skip ⟨vp, "v"⟩ 0 (some (chunksText cs))) r := by
      intro evs r hh
      induction evs with
      | nil => rfl
      | cons e es ih =>
        simp only [List.all_cons, Bool.and_eq_true] at hh
        have : fmlaStep (.skip ⟨vp, "v"⟩ 0 (some (chunksText cs))) e = .cont (.skip ⟨vp, "v"⟩ 0 (some (chunksText cs))) := by
          have := hh.1
          cases e <;> simp_all [fmlaStep, noClosing]
        rw [List.cons_append, step _ this, ih hh.2]
    have v3 : fmlaStep (.skip ⟨vp, "v"⟩ 0 (some (chunksText cs))) (.end_ ⟨vp, "v"⟩) = .cont (.inC (some (chunksText cs))) := by
      simp [fmlaStep]
    simp only [if_true, List.cons_append, List.append_assoc, List.nil_append]
    rw [step _ v1, v2 _ _ hv, step _ v3, fin _ h3]

/-! ## no reader panics or spins on any event list (the annotation loop of ods excepted: see `runOds`) -/

/-- `read_string`, `read_shared_strings` and the cell loop return `Ok` or `Err` on every event list. -/
theorem xlsx_readers_total (closing : Name) (t : Option String) (strings : List Txt) (evs : List Ev) :
    ((∃ r, readString closing evs = .ok r) ∨ (∃ e, readString closing evs = .err e)) ∧
    ((∃ r, readSharedStrings evs = .ok r) ∨ (∃ e, readSharedStrings evs = .err e)) ∧
    ((∃ r, cellText t strings evs = .ok r) ∨ (∃ e, cellText t strings evs = .err e)) := by
  have hsi : ∀ (evs : List Ev) (m : SiMode), (∃ r, runSi closing m evs = .ok r) ∨ (∃ e, runSi closing m evs = .err e) := by
    intro evs
    induction evs with
    | nil => intro m; exact Or.inr ⟨_, rfl⟩
    | cons e es ih =>
      intro m
      simp only [runSi]
      cases hs : siStep closing m e with
      | cont m' => exact ih m'
      | done v => exact Or.inl ⟨_, rfl⟩
      | fail x => exact Or.inr ⟨_, rfl⟩
      | panic x => exact absurd hs (siStep_no_panic _ _ _ _)
  have hsst : ∀ (evs : List Ev) (m : SstMode) (acc : List Txt), (∃ r, runSst m acc evs = .ok r) ∨ (∃ e, runSst m acc evs = .err e) := by
    intro evs
    induction evs with
    | nil => intro m acc; cases m <;> exact Or.inr ⟨_, rfl⟩
    | cons e es ih =>
      intro m acc
      cases m with
      | top =>
        cases e <;> simp only [runSst] <;> (try split) <;> first | exact ih _ _ | exact Or.inl ⟨_, rfl⟩
      | inSi c m =>
        simp only [runSst]
        cases hs : siStep c m e with
        | cont m' => exact ih _ _
        | done v => exact ih _ _
        | fail x => exact Or.inr ⟨_, rfl⟩
        | panic x => exact absurd hs (siStep_no_panic _ _ _ _)
  have hcell : ∀ (evs : List Ev) (m : CellMode), (∃ r, runCell t strings m evs = .ok r) ∨ (∃ e, runCell t strings m evs = .err e) := by
    intro evs
    induction evs with
    | nil => intro m; exact Or.inr ⟨_, rfl⟩
    | cons e es ih =>
      intro m
      simp only [runCell]
      cases hs : cellStep t strings m e with
      | cont m' => exact ih m'
      | done v => exact Or.inl ⟨_, rfl⟩
      | fail x => exact Or.inr ⟨_, rfl⟩
      | panic x => exact absurd hs (cellStep_no_panic _ _ _ _ _)
  exact ⟨hsi evs _, hsst evs _ _, hcell evs _⟩

/-- The ods text loop returns `Ok` or `Err` on every event list (an unterminated annotation is `Err(Eof)`
    since /repo d6b5c9c). -/
theorem ods_reader_total (evs : List Ev) :
    (∃ r, odsCellText evs = .ok r) ∨ (∃ e, odsCellText evs = .err e) := by
  have hstep : ∀ (m : OdsMode) (e : Ev) (y : String), odsStep m e ≠ .panic y := by
    intro m e y h
    unfold odsStep at h
    split at h
    all_goals (try split at h)
    all_goals (try split at h)
    all_goals (try split at h)
    all_goals (try split at h)
    all_goals (try split at h)
    all_goals cases h
  have : ∀ (evs : List Ev) (m : OdsMode), (∃ r, runOds m evs = .ok r) ∨ (∃ e, runOds m evs = .err e) := by
    intro evs
    induction evs with
    | nil => intro m; cases m <;> exact Or.inr ⟨_, rfl⟩
    | cons e es ih =>
      intro m
      have hrun : runOds m (e :: es) = (match odsStep m e with
          | .cont m' => runOds m' es
          | .done v => .ok (v, es)
          | .fail x => .err x
          | .panic x => .panic x) := by cases m <;> rfl
      rw [hrun]
      cases hs : odsStep m e with
      | cont m' => exact ih m'
      | done v => exact Or.inl ⟨_, rfl⟩
      | fail x => exact Or.inr ⟨_, rfl⟩
      | panic x => exact absurd hs (hstep _ _ _)
  exact this evs _

/-- corollary kept under its earlier name (re-exported by Props/C06) -/
theorem ods_reader_no_panic (evs : List Ev) (x : String) : odsCellText evs ≠ .panic x := by
  intro h
  rcases ods_reader_total evs with ⟨r, hr⟩ | ⟨e, he⟩
  · rw [hr] at h; cases h
  · rw [he] at h; cases h

/-! ## ods: string cells -/

/-- The text of a string cell is the paragraphs' texts joined by `\n`; inside a paragraph literal character
    data (Text or CData), `<text:s text:c="n"/>` (n spaces), `<text:s/>` (one space) concatenate in order and
    every other element (`text:span`, `text:a`, … nested to any depth) is looked through; an annotation in
    front of the paragraphs contributes nothing, whatever it contains. -/
theorem ods_text (annot : Option (List Ev)) (paras : List Para) (covered : Bool) (rest : List Ev)
    (ha : ∀ c, annot = some c → annotWf c = true) (hp : paras.all Para.wf = true) :
    odsCellText (renderCell annot paras covered ++ rest) = .ok (cellTextOf paras, rest) := by
  have hend : ∀ s first r, runOds (.normal s first) (.end_ (if covered then coveredCell else tableCell) :: r) = .ok (s, r) := by
    intro s first r
    apply runOds_done
    cases covered <;> simp [odsStep]
  have hbody : ∀ r, runOds (.normal [] true) ((paras.map Para.evs).flatten ++ r)
      = runOds (.normal (cellTextOf paras) (paras.isEmpty)) r := by
    intro r
    cases paras with
    | nil => rfl
    | cons p ps =>
      simp only [List.all_cons, Bool.and_eq_true] at hp
      simp only [List.map_cons, List.flatten_cons, List.append_assoc]
      rw [runOds_para p [] true _ hp.1, runOds_paras_tail ps _ _ hp.2]
      simp [cellTextOf, intercalate_cons, Function.comp_def]
  unfold odsCellText renderCell
  cases annot with
  | none =>
    simp only [List.nil_append, List.append_assoc]
    rw [hbody, List.cons_append, List.nil_append, hend]
  | some c =>
    simp only [List.append_assoc]
    rw [runOds_annot c _ _ _ (ha c rfl), hbody, List.cons_append, List.nil_append, hend]

/-- `office:string-value` is the value of the cell wherever it stands among the attributes — before or after
    `office:value-type`, with any other attributes around — as long as no other value attribute precedes it;
    the element content (display text) is then irrelevant. -/
theorem ods_string_value_attr (pre post : List (String × Txt)) (v : Txt) (evs : List Ev)
    (hpre : ∀ kv ∈ pre, kv.1 ≠ "office:value" ∧ kv.1 ≠ "office:string-value" ∧ kv.1 ≠ "office:date-value" ∧
      kv.1 ≠ "office:time-value" ∧ kv.1 ≠ "office:boolean-value") :
    odsCellValue (pre ++ ("office:string-value", v) :: post) evs = .ok (some v) := by
  have hpost : ∀ (l : List (String × Txt)) (b : Bool) (x : OdsAttrVal), odsAttrLoop l b (some x) = (b, some x) := by
    intro l
    induction l with
    | nil => intro b x; rfl
    | cons kv l ih => intro b x; obtain ⟨k, w⟩ := kv; simp [odsAttrLoop, ih]
  have hloop : ∀ (pre : List (String × Txt)) (b : Bool),
      (∀ kv ∈ pre, kv.1 ≠ "office:value" ∧ kv.1 ≠ "office:string-value" ∧ kv.1 ≠ "office:date-value" ∧
        kv.1 ≠ "office:time-value" ∧ kv.1 ≠ "office:boolean-value") →
      ∃ b', odsAttrLoop (pre ++ ("office:string-value", v) :: post) b none = (b', some (.strAttr v)) := by
    intro pre
    induction pre with
    | nil => intro b _; exact ⟨b, by simp [odsAttrLoop, hpost]⟩
    | cons kv l ih =>
      intro b h
      obtain ⟨k, w⟩ := kv
      have hk := h (k, w) (List.mem_cons_self ..)
      have hl := fun x hx => h x (List.mem_cons_of_mem _ hx)
      simp only [List.cons_append, odsAttrLoop, hk.1, hk.2.1, hk.2.2.1, hk.2.2.2.1, hk.2.2.2.2, if_false, or_self]
      by_cases ht : k = "office:value-type"
      · simp only [ht, if_true]; exact ih _ hl
      · simp only [ht, if_false]; exact ih _ hl
  obtain ⟨b', hb⟩ := hloop pre false hpre
  simp [odsCellValue, odsAttrs, hb]

/-! ## xlsb: wide strings -/

/-- `wide_str` returns exactly the stored UTF-16 code units and the number of bytes they occupy, whatever
    follows the string in the record (formula bytes, rich-text runs). -/
theorem widestr_roundtrip (us : List UInt16) (rest : List UInt8) (h : us.length < 4294967296) :
    wideStr (encodeWide us ++ rest) = .ok (us, 4 + us.length * 2) := by
  have hlen : ((us.map unitBytes).flatten).length = us.length * 2 := by
    induction us with
    | nil => rfl
    | cons u us ih =>
      have := ih (by simp at h; omega)
      simp only [List.map_cons, List.flatten_cons, List.length_append, this, unitBytes, List.length_cons, List.length_nil]
      omega
  simp only [encodeWide, List.cons_append, List.nil_append, wideStr, u32le_encode _ h, List.length_cons,
    List.length_append, hlen]
  rw [if_neg (by omega), unitsOf_units]

/-! ## non-vacuity: concrete instances meeting the hypotheses -/

/-- `<si><r><t>ab</t></r><rPh sb="0" eb="1"><t>XY</t></rPh><r><rPr><b/></rPr><t xml:space="preserve"> c</t></r></si>`
    with an `x:` prefix on the second run, the second text split into Text + CData -/
example :
    let si : Name := ⟨some "x", "si"⟩
    let items : List RunItem := [
      .run none [] ⟨none, [], [.text [97, 98]]⟩ [],
      .phonetic none [("sb", [48]), ("eb", [49])] [.start ⟨none, "t"⟩ [], .text [88, 89], .end_ ⟨none, "t"⟩],
      .run (some "x") [.start ⟨some "x", "rPr"⟩ [], .start ⟨some "x", "b"⟩ [], .end_ ⟨some "x", "b"⟩, .end_ ⟨some "x", "rPr"⟩]
        ⟨some "x", [("xml:space", [112])], [.text [32], .noise, .cdata [99]]⟩ []]
    (StringForm.rich items).wf si = true ∧
    readString si (renderSi si (.rich items)) = .ok (some [97, 98, 32, 99], []) := by
  decide

/-- a table `<sst><si><t>a</t></si><si/><si><rPh><t>p</t></rPh></si><si><t>b</t><phoneticPr/></si></sst>`:
    four entries, the empty and the phonetic-only item keep their index -/
example :
    let items : List SstItem := [
      ⟨[], none, [], .plain [] ⟨none, [], [.text [97]]⟩ []⟩,
      ⟨[.text [10]], none, [], .rich []⟩,
      ⟨[], none, [], .rich [.phonetic none [] [.start ⟨none, "t"⟩ [], .text [112], .end_ ⟨none, "t"⟩]]⟩,
      ⟨[], none, [], .plain [] ⟨none, [], [.text [98]]⟩ [.start ⟨none, "phoneticPr"⟩ [], .end_ ⟨none, "phoneticPr"⟩]⟩]
    items.all SstItem.wf = true ∧
    readSharedStrings (renderSst none items []) = .ok [[97], [], [], [98]] := by
  decide

/-- `<text:p>a<text:s text:c="3"/><text:span>b</text:span></text:p><text:p><text:s/></text:p>` behind an
    annotation holding its own paragraph: "a   b\n " -/
example :
    let paras : List Para := [
      ⟨[], [.lit (.text [97]), .spaces 3, .mark (.start ⟨some "text", "span"⟩ []), .lit (.cdata [98]),
            .mark (.end_ ⟨some "text", "span"⟩)]⟩,
      ⟨[], [.space1]⟩]
    let annot : List Ev := [.start textP [], .text [110], .end_ textP]
    annotWf annot = true ∧ paras.all Para.wf = true ∧
    odsCellText (renderCell (some annot) paras false) = .ok ([97, 32, 32, 32, 98, 10, 32], []) := by
  intro paras annot
  have ha : annotWf annot = true := by decide
  have hp : paras.all Para.wf = true := by decide
  refine ⟨ha, hp, ?_⟩
  have := ods_text (some annot) paras false [] (by intro c hc; cases hc; exact ha) hp
  rw [List.append_nil] at this
  rw [this]
  decide

example : wideStr (encodeWide [0x41, 0xD83D, 0xDE00] ++ [7, 7]) = .ok ([0x41, 0xD83D, 0xDE00], 10) := by
  decide

end XmlText

/-! ## below the event list: unescaping (quick-xml `escape::unescape`) and CDATA sections -/
namespace XmlEscape

/-- **Round trip of escaping.**  Whatever spelling the writer chooses for each character — the character
    itself (anything but `&`), its predefined entity, a decimal or a hexadecimal character reference with any
    number of leading zeros and either digit case (anything but U+0000) — unescaping gives the text back. -/
theorem unescape_escape (cs : List (Char × Spelling)) (h : ∀ p ∈ cs, okSpelling p = true) :
    unescape (escape cs) = .ok (cs.map Prod.fst) := by
  unfold unescape escape
  induction cs with
  | nil => rfl
  | cons p ps ih =>
    have hp := h p (List.mem_cons_self ..)
    have := ih (fun q hq => h q (List.mem_cons_of_mem _ hq))
    simp only [List.map_cons, List.flatten_cons]
    rw [escape1_spec p.1 p.2 _ hp, this]
    rfl

/-- the same under the hypothesis of the property: every character is an XML 1.0 `Char` (so none is U+0000)
    and `&` is not written literally -/
theorem unescape_escape_xmlchar (cs : List (Char × Spelling)) (hx : ∀ p ∈ cs, XmlChar p.1 = true)
    (hamp : ∀ p ∈ cs, p.2 = .lit → p.1 ≠ '&') :
    unescape (escape cs) = .ok (cs.map Prod.fst) := by
  apply unescape_escape
  intro p hp
  have hc := hx p hp
  have h0 : p.1.toNat ≠ 0 := by
    intro e
    simp [XmlChar, e] at hc
  obtain ⟨c, sp⟩ := p
  cases sp with
  | lit => simpa [okSpelling] using hamp (c, .lit) hp rfl
  | named => rfl
  | dec z => simpa [okSpelling] using h0
  | hex z up => simpa [okSpelling] using h0

/-- a text without `&` is returned unchanged (`;` is an ordinary character outside a reference) -/
theorem unescape_no_amp_identity (s : List Char) (h : ∀ c ∈ s, c ≠ '&') : unescape s = .ok s := by
  unfold unescape
  induction s with
  | nil => rfl
  | cons c r ih =>
    rw [unesc_lit c r (h c (List.mem_cons_self ..)), ih (fun d hd => h d (List.mem_cons_of_mem _ hd))]
    rfl

/-- `unescape` returns `Ok` or `Err` on every input (no panic, no loop) -/
theorem unescape_total (s : List Char) : (∃ r, unescape s = .ok r) ∨ (∃ e, unescape s = .err e) := by
  have hfs : ∀ (src : List Char) (r : Nat), (∃ n, fromStrRadix src r = .ok n) ∨ (∃ e, fromStrRadix src r = .err e) := by
    intro src r
    cases src with
    | nil => exact Or.inr ⟨_, rfl⟩
    | cons c cs =>
      simp only [fromStrRadix]
      by_cases h1 : c = '+' ∨ c = '-'
      · rw [if_pos h1]; exact Or.inr ⟨_, rfl⟩
      · rw [if_neg h1]
        by_cases h2 : (c :: cs).all (if r = 16 then isHex else isDec) = true ∧ numVal r (c :: cs) < 4294967296
        · rw [if_pos h2]; exact Or.inl ⟨_, rfl⟩
        · rw [if_neg h2]; exact Or.inr ⟨_, rfl⟩
  have hpn : ∀ num, (∃ c, parseNumber num = .ok c) ∨ (∃ e, parseNumber num = .err e) := by
    intro num
    have hc : (∃ n, parseCode num = .ok n) ∨ (∃ e, parseCode num = .err e) := by
      unfold parseCode; split <;> exact hfs _ _
    unfold parseNumber
    rcases hc with ⟨n, hn⟩ | ⟨e, he⟩
    · rw [hn]
      simp only [checkCode]
      by_cases h0 : n = 0
      · rw [if_pos h0]; exact Or.inr ⟨_, rfl⟩
      · rw [if_neg h0]
        by_cases hs : isScalar n = true
        · rw [if_pos hs]; exact Or.inl ⟨_, rfl⟩
        · rw [if_neg hs]; exact Or.inr ⟨_, rfl⟩
    · rw [he]; exact Or.inr ⟨_, rfl⟩
  have hres : ∀ pat, (∃ v, resolve pat = .ok v) ∨ (∃ e, resolve pat = .err e) := by
    intro pat
    unfold resolve
    split
    · rename_i num
      rcases hpn num with ⟨c, hc⟩ | ⟨e, he⟩
      · rw [hc]; exact Or.inl ⟨_, rfl⟩
      · rw [he]; exact Or.inr ⟨_, rfl⟩
    · split
      · exact Or.inl ⟨_, rfl⟩
      · exact Or.inr ⟨_, rfl⟩
  have hpre : ∀ (a : List Char) (x : Res (List Char)), ((∃ r, x = .ok r) ∨ (∃ e, x = .err e)) →
      ((∃ r, prepend a x = .ok r) ∨ (∃ e, prepend a x = .err e)) := by
    intro a x hx
    rcases hx with ⟨r, rfl⟩ | ⟨e, rfl⟩
    · exact Or.inl ⟨_, rfl⟩
    · exact Or.inr ⟨_, rfl⟩
  have : ∀ (s : List Char) (m : Option (List Char)), (∃ r, unesc m s = .ok r) ∨ (∃ e, unesc m s = .err e) := by
    intro s
    induction s with
    | nil => intro m; cases m <;> simp [unesc]
    | cons c r ih =>
      intro m
      cases m with
      | none =>
        simp only [unesc]
        split
        · exact ih _
        · exact hpre _ _ (ih _)
      | some pat =>
        simp only [unesc]
        split
        · rcases hres pat with ⟨v, hv⟩ | ⟨e, he⟩
          · rw [hv]; exact hpre _ _ (ih _)
          · rw [he]; exact Or.inr ⟨_, rfl⟩
        · split
          · exact Or.inr ⟨_, rfl⟩
          · exact ih _
  exact this s none

/-- **What quick-xml does with a numeric reference**, for every value below 2^32 written in decimal with any
    number of leading zeros: 0 is refused, surrogates and values above U+10FFFF are refused, and *every other
    scalar value is accepted* — also the ones outside the XML `Char` production (`&#1;`, `&#xFFFE;`): quick-xml
    is more permissive than XML 1.0 here, which is harmless for reading (property C19 quantifies over `Char`). -/
theorem charref_semantics (z n : Nat) (h : n < 4294967296) :
    unescape ('&' :: '#' :: (List.replicate z '0' ++ digits 10 false n ++ [';'])) =
      if n = 0 then .err "InvalidCharRef(IllegalCharacter)"
      else if isScalar n then .ok [Char.ofNat n]
      else .err "InvalidCharRef(InvalidCodepoint)" := by
  have hbody := refbody_clean _ (zeros_digits_hex z 10 (Or.inl rfl) false n)
  have hb2 : ('#' :: (List.replicate z '0' ++ digits 10 false n)).all (fun c => c ≠ '&' ∧ c ≠ ';') = true := by
    simp only [List.all_cons, hbody, Bool.and_true]; decide
  have := unesc_ref ('#' :: (List.replicate z '0' ++ digits 10 false n)) [] [] hb2
  simp only [List.cons_append, List.append_assoc, List.nil_append] at this
  unfold unescape
  rw [unesc_amp]
  simp only [List.append_assoc]
  rw [this]
  simp only [resolve, parseNumber, parseCode_dec z n h, checkCode]
  by_cases h0 : n = 0
  · simp [h0, thenRest]
  · by_cases hs : isScalar n = true
    · simp [h0, hs, thenRest, prepend, unesc]
    · simp [h0, hs, thenRest]

/-- the malformed shapes: a lone or unterminated `&`, an unknown entity, an empty or signed number,
    an upper-case `X`, a number that does not fit 32 bits, U+0000, a surrogate -/
example :
    unescape "a&".toList = .err "UnterminatedEntity" ∧
    unescape "&amp".toList = .err "UnterminatedEntity" ∧
    unescape "&a&b;".toList = .err "UnterminatedEntity" ∧
    unescape "&unknown;".toList = .err "UnrecognizedEntity" ∧
    unescape "&;".toList = .err "UnrecognizedEntity" ∧
    unescape "&#;".toList = .err "InvalidCharRef(InvalidNumber)" ∧
    unescape "&#x;".toList = .err "InvalidCharRef(InvalidNumber)" ∧
    unescape "&#X41;".toList = .err "InvalidCharRef(InvalidNumber)" ∧
    unescape "&#+65;".toList = .err "InvalidCharRef(UnexpectedSign)" ∧
    unescape "&#99999999999;".toList = .err "InvalidCharRef(InvalidNumber)" ∧
    unescape "&#0;".toList = .err "InvalidCharRef(IllegalCharacter)" ∧
    unescape "&#xD800;".toList = .err "InvalidCharRef(InvalidCodepoint)" ∧
    unescape "&#1;;&#x0041;&#065;&lt;".toList = .ok [Char.ofNat 1, ';', 'A', 'A', '<'] := by
  decide

/-- non-vacuity of `unescape_escape`: `a & <😀` spelled five ways -/
example :
    let cs : List (Char × Spelling) := [('a', .lit), (' ', .dec 2), ('&', .named), (' ', .hex 0 true), ('<', .hex 1 false), ('😀', .dec 0), ('>', .named), ('x', .named)]
    (∀ p ∈ cs, okSpelling p = true) ∧ (∀ p ∈ cs, XmlChar p.1 = true) := by
  decide

end XmlEscape

namespace XmlText

/-- **CDATA sections, writer against reader.**  The writer cuts a text into sections before every `>` that
    follows `]]`; no section then contains the terminator `]]>` (so each is delimited unambiguously, whatever
    the text), the sections concatenate back to the text, and the reader — which appends CData events like
    Text events — returns exactly the text.  (Where the tokenizer ends a section is quick-xml's part.) -/
theorem cdata_sections_roundtrip (closing : Name) (lead : List Ev) (t : TElem) (s : Txt) (trail rest : List Ev)
    (h : (StringForm.plain lead t trail).wf closing = true) :
    (∀ sec ∈ cdataSplit s, NoCdataEnd sec) ∧ (cdataSplit s).flatten = s ∧
    readString closing (renderSi closing (.plain lead { t with body := (cdataSplit s).map Chunk.cdata } trail) ++ rest)
      = .ok (some s, rest) := by
  refine ⟨cdataSplitAux_noEnd s [] (noCdataEnd_short _ (by simp)), by simp [cdataSplit, cdataSplitAux_flatten], ?_⟩
  rw [plain_roundtrip _ _ _ _ _ (by simpa [StringForm.wf] using h)]
  simp [TElem.txt, chunksText_cdata, cdataSplit, cdataSplitAux_flatten]

/-- `read_shared_strings` is modelled twice (property C01: `Model/XlsxCells`, property C19: `Model/XmlText`):
    on the converted events the two models return the same table (and fail together; only the error names
    differ). `Ev.wf`: every element name is split at its first colon, as the tokenizer delivers it. -/
theorem readSharedStrings_eq_XlsxCells (evs : List Ev) (hev : ∀ e ∈ evs, e.wf) :
    XlsxCells.readSharedStrings (evs.map convEv) = convRes (readSharedStrings evs) := by
  have := sstLoop_conv evs hev .top trivial []
  simpa [XlsxCells.readSharedStrings, readSharedStrings, convSst] using this


/-- non-vacuity: prefixed and unprefixed names are well-formed, `x:si` has local name `si` in both models -/
example : (Ev.start ⟨some "x", "si"⟩ []).wf ∧ XlsxCells.localName (nameBytes ⟨some "x", "si"⟩) = XlsxCells.nSi := by
  refine ⟨?_, ?_⟩
  · show (58 : Nat) ∉ sb "x"
    decide
  · rfl

/-- `a]]>b]]` is written as the sections `a]]` and `>b]]` -/
example : cdataSplit [97, 93, 93, 62, 98, 93, 93] = [[97, 93, 93], [62, 98, 93, 93]] := by decide

end XmlText
