import CalVerif.Lemmas.XmlText
/-! # C19 — cell text survives every storage form and escaping layer unchanged

    Property theorems only (helper lemmas: `Lemmas/XmlText.lean`; models: `Model/XmlText.lean`; storage forms
    and their rendering as event lists: `Spec/XmlText.lean`).

    The theorems start at the XML *event list* (xlsx, ods) and at the UTF-16 *code units* (xlsb): entity /
    character-reference unescaping, CDATA delimiting (quick-xml) and UTF-16 → `String` (encoding_rs) are not
    modelled; for those layers the assurance is the correspondence run only.  The property as a whole is
    therefore **partially** proved: every theorem below is complete for the layer it speaks about.
    The xls string readers are property C12's model (`Model/BiffStrings.lean`). -/
namespace XmlText

/-! ## xlsx: one string item (`<si>` or `<is>`) -/

/-- A plain item `lead <t>…</t> trail </closing>` reads as the text of its `<t>`, for every prefix of the
    `t` element, every attribute (`xml:space`), every split of the character data into Text / CData events,
    every inert material before the `<t>` and everything (phonetic runs, `phoneticPr`, extensions) between
    the `</t>` and the closing tag; the reader stops exactly after the closing tag. -/
theorem plain_roundtrip (closing : Name) (lead : List Ev) (t : TElem) (trail rest : List Ev)
    (h : (StringForm.plain lead t trail).wf closing = true) :
    readString closing (renderSi closing (.plain lead t trail) ++ rest) = .ok (some t.txt, rest) :=
  runSi_form closing _ rest h

/-- Rich text: the result is the concatenation, in order, of the text of the `<t>` of every run `<r>`;
    phonetic runs `<rPh>` (whatever they contain) and inert material contribute nothing, wherever they are
    interleaved; element prefixes are arbitrary and may differ from element to element.  With no run at all
    (empty item `<si/>`, phonetic-only item) `read_string` returns `None`. -/
theorem rich_concat (closing : Name) (items : List RunItem) (rest : List Ev)
    (h : (StringForm.rich items).wf closing = true) :
    readString closing (renderSi closing (.rich items) ++ rest) =
      .ok (if items.any RunItem.isRun then some (((items.filter RunItem.isRun).map RunItem.txt).flatten) else none, rest) := by
  have hf : ((items.filter RunItem.isRun).map RunItem.txt).flatten = (items.map RunItem.txt).flatten := by
    induction items with
    | nil => rfl
    | cons it is ih =>
      have := ih (by
        simp only [StringForm.wf, List.all_cons, Bool.and_eq_true, decide_eq_true_eq] at h ⊢
        exact ⟨h.1.2, h.2⟩)
      cases it <;> simp_all [List.filter, RunItem.isRun, RunItem.txt]
  rw [hf]
  exact runSi_form closing _ rest h

/-- Both results in one statement: every well-formed form reads as `resultOf` (= `some (textOf form)` as
    soon as the item has a `<t>` or a run). -/
theorem readString_spec (closing : Name) (f : StringForm) (rest : List Ev) (h : f.wf closing = true) :
    readString closing (renderSi closing f ++ rest) = .ok (resultOf f, rest) :=
  runSi_form closing f rest h

/-- Text and CData events contribute alike, in any split (with comments / PIs in between): a `<t>` whose
    character data arrives as the chunk list `cs` reads like the same `<t>` with one Text event. -/
theorem text_kinds (closing : Name) (lead : List Ev) (t : TElem) (cs : List Chunk) (trail rest : List Ev)
    (h : (StringForm.plain lead t trail).wf closing = true) :
    readString closing (renderSi closing (.plain lead { t with body := cs } trail) ++ rest) =
      readString closing (renderSi closing (.plain lead { t with body := [.text (chunksText cs)] } trail) ++ rest) := by
  rw [plain_roundtrip _ _ _ _ _ (by simpa [StringForm.wf] using h), plain_roundtrip _ _ _ _ _ (by simpa [StringForm.wf] using h)]
  simp [TElem.txt, chunksText, Chunk.txt]

/-- the same inside a rich run -/
theorem text_kinds_rich (closing : Name) (pre post : List RunItem) (p : Option String) (props tail : List Ev)
    (t : TElem) (cs : List Chunk) (rest : List Ev)
    (h : (StringForm.rich (pre ++ .run p props { t with body := cs } tail :: post)).wf closing = true) :
    readString closing (renderSi closing (.rich (pre ++ .run p props { t with body := cs } tail :: post)) ++ rest) =
      readString closing
        (renderSi closing (.rich (pre ++ .run p props { t with body := [.text (chunksText cs)] } tail :: post)) ++ rest) := by
  have h' : (StringForm.rich (pre ++ .run p props { t with body := [.text (chunksText cs)] } tail :: post)).wf closing = true := by
    simpa [StringForm.wf, RunItem.wf] using h
  rw [readString_spec _ _ _ h, readString_spec _ _ _ h']
  simp [resultOf, RunItem.txt, RunItem.isRun, TElem.txt, chunksText, Chunk.txt]

/-! ## xlsx: the shared string table -/

/-- `read_shared_strings` yields exactly one entry per `<si>`, in order, equal to the item's text —
    including empty items `<si/>` and phonetic-only items (entry `""`), whatever the prefixes and whatever
    ignorable material lies between the items. -/
theorem sst_strings (sstPre : Option String) (items : List SstItem) (tailGap : List Ev)
    (h : items.all SstItem.wf = true) (hg : tailGap.all gapEv = true) (before rest : List Ev)
    (hb : before.all gapEv = true) :
    readSharedStrings (before ++ renderSst sstPre items tailGap ++ rest) = .ok (items.map fun it => textOf it.form) := by
  have h0 : ∀ acc r, runSst .top acc (.start ⟨sstPre, "sst"⟩ [] :: r) = runSst .top acc r := by
    intro acc r; simp [runSst]
  have h1 : ∀ acc r, runSst .top acc (.end_ ⟨sstPre, "sst"⟩ :: r) = .ok acc := by
    intro acc r; simp [runSst]
  simp only [readSharedStrings, renderSst, List.append_assoc, List.cons_append, List.nil_append]
  rw [runSst_gap _ _ _ hb, h0, runSst_items _ _ _ h, runSst_gap _ _ _ hg, h1]
  simp

/-- Shared-string indices always designate the i-th item of the table, including when some items are
    empty: the i-th entry of the vector is the text of the i-th `<si>`. -/
theorem sst_alignment (sstPre : Option String) (items : List SstItem) (tailGap : List Ev)
    (h : items.all SstItem.wf = true) (hg : tailGap.all gapEv = true) (i : Nat) (hi : i < items.length) :
    ∃ strings, readSharedStrings (renderSst sstPre items tailGap) = .ok strings ∧
      strings.length = items.length ∧ strings[i]? = some (textOf items[i].form) := by
  refine ⟨items.map fun it => textOf it.form, ?_, by simp, by simp [hi]⟩
  have := sst_strings sstPre items tailGap h hg [] [] rfl
  simpa using this

/-! ## xlsx: the three cell kinds that carry text -/

/-- `t="s"`: the cell is the `i`-th shared string (index written in decimal, any split of the digits into
    Text / CData events, any prefix on `v` and `c`). -/
theorem shared_cell (strings : List Txt) (i : Nat) (hi : i < strings.length) (h64 : i < 18446744073709551616)
    (vp cp : Option String) (cs : List Chunk) (hcs : chunksText cs = decimal i) (rest : List Ev) :
    cellText (some "s") strings
      (.start ⟨vp, "v"⟩ [] :: chunksEvs cs ++ [.end_ ⟨vp, "v"⟩, .end_ ⟨cp, "c"⟩] ++ rest)
      = .ok (.shared strings[i], rest) := by
  have h1 : cellStep (some "s") strings (.inC .empty) (.start ⟨vp, "v"⟩ []) = .cont (.inV ⟨vp, "v"⟩ []) := by
    simp [cellStep]
  have h2 : cellStep (some "s") strings (.inV ⟨vp, "v"⟩ (decimal i)) (.end_ ⟨vp, "v"⟩)
      = .cont (.inC (.shared strings[i])) := by
    simp [cellStep, readV, atoiUsize_decimal i h64, hi]
  have h3 : cellStep (some "s") strings (.inC (.shared strings[i])) (.end_ ⟨cp, "c"⟩) = .done (.shared strings[i]) := by
    simp [cellStep]
  simp only [cellText, List.cons_append, List.append_assoc, List.nil_append]
  rw [runCell_cont _ h1, runCell_chunks, List.nil_append, hcs, runCell_cont _ h2, runCell_done _ h3]

/-- `t="str"` (a formula's string result): the cell is the character data of `<v>`, after an optional
    `<f>…</f>` element (skipped whatever it contains). -/
theorem str_cell (strings : List Txt) (fp vp cp : Option String) (fa : List (String × Txt)) (fbody : List Ev)
    (hf : fbody.all (noClosing ⟨fp, "f"⟩) = true) (withF : Bool) (cs : List Chunk) (rest : List Ev) :
    cellText (some "str") strings
      ((if withF then .start ⟨fp, "f"⟩ fa :: fbody ++ [.end_ ⟨fp, "f"⟩] else []) ++
        .start ⟨vp, "v"⟩ [] :: chunksEvs cs ++ [.end_ ⟨vp, "v"⟩, .end_ ⟨cp, "c"⟩] ++ rest)
      = .ok (.str (chunksText cs), rest) := by
  have h1 : ∀ v, cellStep (some "str") strings (.inC v) (.start ⟨vp, "v"⟩ []) = .cont (.inV ⟨vp, "v"⟩ []) := by
    intro v; simp [cellStep]
  have h2 : cellStep (some "str") strings (.inV ⟨vp, "v"⟩ (chunksText cs)) (.end_ ⟨vp, "v"⟩)
      = .cont (.inC (.str (chunksText cs))) := by
    simp [cellStep, readV]
  have h3 : cellStep (some "str") strings (.inC (.str (chunksText cs))) (.end_ ⟨cp, "c"⟩) = .done (.str (chunksText cs)) := by
    simp [cellStep]
  have hv : ∀ v r, runCell (some "str") strings (.inC v)
      (.start ⟨vp, "v"⟩ [] :: (chunksEvs cs ++ .end_ ⟨vp, "v"⟩ :: .end_ ⟨cp, "c"⟩ :: r)) = .ok (.str (chunksText cs), r) := by
    intro v r
    rw [runCell_cont _ (h1 v), runCell_chunks, List.nil_append, runCell_cont _ h2, runCell_done _ h3]
  cases withF with
  | false =>
    simp only [cellText, List.cons_append, List.append_assoc, List.nil_append, Bool.false_eq_true, if_false]
    exact hv _ _
  | true =>
    have f1 : cellStep (some "str") strings (.inC .empty) (.start ⟨fp, "f"⟩ fa) = .cont (.inF ⟨fp, "f"⟩ 0) := by
      simp [cellStep]
    have f2 : ∀ (evs r : List Ev), evs.all (noClosing ⟨fp, "f"⟩) = true →
        runCell (some "str") strings (.inF ⟨fp, "f"⟩ 0) (evs ++ r) = runCell (some "str") strings (.inF ⟨fp, "f"⟩ 0) r := by
      intro evs r hh
      induction evs with
      | nil => rfl
      | cons e es ih =>
        simp only [List.all_cons, Bool.and_eq_true] at hh
        have : cellStep (some "str") strings (.inF ⟨fp, "f"⟩ 0) e = .cont (.inF ⟨fp, "f"⟩ 0) := by
          have := hh.1
          cases e <;> simp_all [cellStep, noClosing]
        rw [List.cons_append, runCell_cont _ this, ih hh.2]
    have f3 : cellStep (some "str") strings (.inF ⟨fp, "f"⟩ 0) (.end_ ⟨fp, "f"⟩) = .cont (.inC .empty) := by
      simp [cellStep]
    simp only [cellText, List.cons_append, List.append_assoc, List.nil_append, if_true]
    rw [runCell_cont _ f1, f2 _ _ hf, runCell_cont _ f3]
    exact hv _ _

/-- Inline string `<is>…</is>`: the cell is the item's text for every storage form of the item (whatever the
    cell's `t` attribute says); an item without `<t>` and without run gives an empty cell. -/
theorem inline_cell (t : Option String) (strings : List Txt) (ip cp : Option String) (ia : List (String × Txt))
    (f : StringForm) (h : f.wf ⟨ip, "is"⟩ = true) (rest : List Ev) :
    cellText t strings (.start ⟨ip, "is"⟩ ia :: renderSi ⟨ip, "is"⟩ f ++ [.end_ ⟨cp, "c"⟩] ++ rest)
      = .ok (CellVal.ofOpt (resultOf f), rest) := by
  have h1 : cellStep t strings (.inC .empty) (.start ⟨ip, "is"⟩ ia) = .cont (.inIs ⟨ip, "is"⟩ (.outer none false)) := by
    simp [cellStep]
  have h3 : ∀ v, cellStep t strings (.inC v) (.end_ ⟨cp, "c"⟩) = .done v := by
    intro v; simp [cellStep]
  simp only [cellText, List.cons_append, List.append_assoc, List.nil_append]
  rw [runCell_cont _ h1, runCell_inIs, runSi_form _ _ _ h]
  simp only
  rw [runCell_done _ (h3 _)]

/-- The formula text of a cell (`worksheet_formula`) is the character data of its `<f>`, Text and CData
    alike, whether the cached value `<v>…</v>` follows or not. -/
theorem formula_text (fp vp cp : Option String) (fa : List (String × Txt)) (cs : List Chunk) (withV : Bool)
    (vbody : List Ev) (hv : vbody.all (noClosing ⟨vp, "v"⟩) = true) (rest : List Ev) :
    formulaText (.start ⟨fp, "f"⟩ fa :: chunksEvs cs ++ [.end_ ⟨fp, "f"⟩] ++
        (if withV then .start ⟨vp, "v"⟩ [] :: vbody ++ [.end_ ⟨vp, "v"⟩] else []) ++ [.end_ ⟨cp, "c"⟩] ++ rest)
      = .ok (chunksText cs, rest) := by
  have step : ∀ {m m' : FmlaMode} {e : Ev} (r : List Ev), fmlaStep m e = .cont m' → runFmla m (e :: r) = runFmla m' r := by
    intro m m' e r h; cases m <;> simp [runFmla, h]
  have fin : ∀ {m : FmlaMode} {e : Ev} {v : Txt} (r : List Ev), fmlaStep m e = .done v → runFmla m (e :: r) = .ok (v, r) := by
    intro m e v r h; cases m <;> simp [runFmla, h]
  have hchunks : ∀ (cs : List Chunk) (acc : Txt) (r : List Ev),
      runFmla (.inF ⟨fp, "f"⟩ acc none) (chunksEvs cs ++ r) = runFmla (.inF ⟨fp, "f"⟩ (acc ++ chunksText cs) none) r := by
    intro cs
    induction cs with
    | nil => intro acc r; simp [chunksEvs, chunksText]
    | cons k ks ih =>
      intro acc r
      have hk : fmlaStep (.inF ⟨fp, "f"⟩ acc none) k.ev = .cont (.inF ⟨fp, "f"⟩ (acc ++ k.txt) none) := by
        cases k <;> simp [fmlaStep, Chunk.ev, Chunk.txt]
      simp only [chunksEvs, List.map_cons, List.cons_append] at ih ⊢
      rw [step _ hk, ih]
      simp [chunksText, List.append_assoc]
  have h1 : fmlaStep (.inC none) (.start ⟨fp, "f"⟩ fa) = .cont (.inF ⟨fp, "f"⟩ [] none) := by simp [fmlaStep]
  have h2 : fmlaStep (.inF ⟨fp, "f"⟩ (chunksText cs) none) (.end_ ⟨fp, "f"⟩) = .cont (.inC (some (chunksText cs))) := by
    simp [fmlaStep]
  have h3 : fmlaStep (.inC (some (chunksText cs))) (.end_ ⟨cp, "c"⟩) = .done (chunksText cs) := by simp [fmlaStep]
  simp only [formulaText, List.cons_append, List.append_assoc, List.nil_append]
  rw [step _ h1, hchunks, List.nil_append, step _ h2]
  cases withV with
  | false =>
    simp only [Bool.false_eq_true, if_false, List.nil_append]
    rw [fin _ h3]
  | true =>
    have v1 : fmlaStep (.inC (some (chunksText cs))) (.start ⟨vp, "v"⟩ []) = .cont (.skip ⟨vp, "v"⟩ 0 (some (chunksText cs))) := by
      simp [fmlaStep]
    have v2 : ∀ (evs r : List Ev), evs.all (noClosing ⟨vp, "v"⟩) = true →
        runFmla (.skip ⟨vp, "v"⟩ 0 (some (chunksText cs))) (evs ++ r) = runFmla (.skip ⟨vp, "v"⟩ 0 (some (chunksText cs))) r := by
      intro evs r hh
      induction evs with
      | nil => rfl
      | cons e es ih =>
        simp only [List.all_cons, Bool.and_eq_true] at hh
        have : fmlaStep (.skip ⟨vp, "v"⟩ 0 (some (chunksText cs))) e = .cont (.skip ⟨vp, "v"⟩ 0 (some (chunksText cs))) := by
          have := hh.1
          cases e <;> simp_all [fmlaStep, noClosing]
        rw [List.cons_append, step _ this, ih hh.2]
    have v3 : fmlaStep (.skip ⟨vp, "v"⟩ 0 (some (chunksText cs))) (.end_ ⟨vp, "v"⟩) = .cont (.inC (some (chunksText cs))) := by
      simp [fmlaStep]
    simp only [if_true, List.cons_append, List.append_assoc, List.nil_append]
    rw [step _ v1, v2 _ _ hv, step _ v3, fin _ h3]

/-! ## no reader panics or spins on any event list (the annotation loop of ods excepted: see `runOds`) -/

/-- `read_string`, `read_shared_strings` and the cell loop return `Ok` or `Err` on every event list. -/
theorem xlsx_readers_total (closing : Name) (t : Option String) (strings : List Txt) (evs : List Ev) :
    ((∃ r, readString closing evs = .ok r) ∨ (∃ e, readString closing evs = .err e)) ∧
    ((∃ r, readSharedStrings evs = .ok r) ∨ (∃ e, readSharedStrings evs = .err e)) ∧
    ((∃ r, cellText t strings evs = .ok r) ∨ (∃ e, cellText t strings evs = .err e)) := by
  have hsi : ∀ (evs : List Ev) (m : SiMode), (∃ r, runSi closing m evs = .ok r) ∨ (∃ e, runSi closing m evs = .err e) := by
    intro evs
    induction evs with
    | nil => intro m; exact Or.inr ⟨_, rfl⟩
    | cons e es ih =>
      intro m
      simp only [runSi]
      cases hs : siStep closing m e with
      | cont m' => exact ih m'
      | done v => exact Or.inl ⟨_, rfl⟩
      | fail x => exact Or.inr ⟨_, rfl⟩
      | panic x => exact absurd hs (siStep_no_panic _ _ _ _)
  have hsst : ∀ (evs : List Ev) (m : SstMode) (acc : List Txt), (∃ r, runSst m acc evs = .ok r) ∨ (∃ e, runSst m acc evs = .err e) := by
    intro evs
    induction evs with
    | nil => intro m acc; cases m <;> exact Or.inr ⟨_, rfl⟩
    | cons e es ih =>
      intro m acc
      cases m with
      | top =>
        cases e <;> simp only [runSst] <;> (try split) <;> first | exact ih _ _ | exact Or.inl ⟨_, rfl⟩
      | inSi c m =>
        simp only [runSst]
        cases hs : siStep c m e with
        | cont m' => exact ih _ _
        | done v => exact ih _ _
        | fail x => exact Or.inr ⟨_, rfl⟩
        | panic x => exact absurd hs (siStep_no_panic _ _ _ _)
  have hcell : ∀ (evs : List Ev) (m : CellMode), (∃ r, runCell t strings m evs = .ok r) ∨ (∃ e, runCell t strings m evs = .err e) := by
    intro evs
    induction evs with
    | nil => intro m; exact Or.inr ⟨_, rfl⟩
    | cons e es ih =>
      intro m
      simp only [runCell]
      cases hs : cellStep t strings m e with
      | cont m' => exact ih m'
      | done v => exact Or.inl ⟨_, rfl⟩
      | fail x => exact Or.inr ⟨_, rfl⟩
      | panic x => exact absurd hs (cellStep_no_panic _ _ _ _ _)
  exact ⟨hsi evs _, hsst evs _ _, hcell evs _⟩

/-- The ods text loop never panics; it fails to return only inside an unclosed annotation (no `Eof` arm in
    the skipping loop: the real reader spins forever there — a robustness finding of property C06). -/
theorem ods_reader_no_panic (evs : List Ev) (x : String) : odsCellText evs ≠ .panic x := by
  have hstep : ∀ (m : OdsMode) (e : Ev) (y : String), odsStep m e ≠ .panic y := by
    intro m e y h
    unfold odsStep at h
    split at h
    all_goals (try split at h)
    all_goals (try split at h)
    all_goals (try split at h)
    all_goals (try split at h)
    all_goals (try split at h)
    all_goals cases h
  have : ∀ (evs : List Ev) (m : OdsMode), runOds m evs ≠ .panic x := by
    intro evs
    induction evs with
    | nil => intro m h; cases m <;> simp [runOds] at h
    | cons e es ih =>
      intro m h
      cases m <;> simp only [runOds] at h <;>
        (split at h <;> first | exact ih _ h | (cases h; done) | (rename_i hs; cases h; exact hstep _ _ _ hs))
  exact this evs _

/-! ## ods: string cells -/

/-- The text of a string cell is the paragraphs' texts joined by `\n`; inside a paragraph literal character
    data (Text or CData), `<text:s text:c="n"/>` (n spaces), `<text:s/>` (one space) concatenate in order and
    every other element (`text:span`, `text:a`, … nested to any depth) is looked through; an annotation in
    front of the paragraphs contributes nothing, whatever it contains. -/
theorem ods_text (annot : Option (List Ev)) (paras : List Para) (covered : Bool) (rest : List Ev)
    (ha : ∀ c, annot = some c → annotWf c = true) (hp : paras.all Para.wf = true) :
    odsCellText (renderCell annot paras covered ++ rest) = .ok (cellTextOf paras, rest) := by
  have hend : ∀ s first r, runOds (.normal s first) (.end_ (if covered then coveredCell else tableCell) :: r) = .ok (s, r) := by
    intro s first r
    apply runOds_done
    cases covered <;> simp [odsStep]
  have hbody : ∀ r, runOds (.normal [] true) ((paras.map Para.evs).flatten ++ r)
      = runOds (.normal (cellTextOf paras) (paras.isEmpty)) r := by
    intro r
    cases paras with
    | nil => rfl
    | cons p ps =>
      simp only [List.all_cons, Bool.and_eq_true] at hp
      simp only [List.map_cons, List.flatten_cons, List.append_assoc]
      rw [runOds_para p [] true _ hp.1, runOds_paras_tail ps _ _ hp.2]
      simp [cellTextOf, intercalate_cons, Function.comp_def]
  unfold odsCellText renderCell
  cases annot with
  | none =>
    simp only [List.nil_append, List.append_assoc]
    rw [hbody, List.cons_append, List.nil_append, hend]
  | some c =>
    simp only [List.append_assoc]
    rw [runOds_annot c _ _ _ (ha c rfl), hbody, List.cons_append, List.nil_append, hend]

/-! ## xlsb: wide strings -/

/-- `wide_str` returns exactly the stored UTF-16 code units and the number of bytes they occupy, whatever
    follows the string in the record (formula bytes, rich-text runs). -/
theorem widestr_roundtrip (us : List UInt16) (rest : List UInt8) (h : us.length < 4294967296) :
    wideStr (encodeWide us ++ rest) = .ok (us, 4 + us.length * 2) := by
  have hlen : ((us.map unitBytes).flatten).length = us.length * 2 := by
    induction us with
    | nil => rfl
    | cons u us ih =>
      have := ih (by simp at h; omega)
      simp only [List.map_cons, List.flatten_cons, List.length_append, this, unitBytes, List.length_cons, List.length_nil]
      omega
  simp only [encodeWide, List.cons_append, List.nil_append, wideStr, u32le_encode _ h, List.length_cons,
    List.length_append, hlen]
  rw [if_neg (by omega), unitsOf_units]

/-! ## non-vacuity: concrete instances meeting the hypotheses -/

/-- `<si><r><t>ab</t></r><rPh sb="0" eb="1"><t>XY</t></rPh><r><rPr><b/></rPr><t xml:space="preserve"> c</t></r></si>`
    with an `x:` prefix on the second run, the second text split into Text + CData -/
example :
    let si : Name := ⟨some "x", "si"⟩
    let items : List RunItem := [
      .run none [] ⟨none, [], [.text [97, 98]]⟩ [],
      .phonetic none [("sb", [48]), ("eb", [49])] [.start ⟨none, "t"⟩ [], .text [88, 89], .end_ ⟨none, "t"⟩],
      .run (some "x") [.start ⟨some "x", "rPr"⟩ [], .start ⟨some "x", "b"⟩ [], .end_ ⟨some "x", "b"⟩, .end_ ⟨some "x", "rPr"⟩]
        ⟨some "x", [("xml:space", [112])], [.text [32], .noise, .cdata [99]]⟩ []]
    (StringForm.rich items).wf si = true ∧
    readString si (renderSi si (.rich items)) = .ok (some [97, 98, 32, 99], []) := by
  decide

/-- a table `<sst><si><t>a</t></si><si/><si><rPh><t>p</t></rPh></si><si><t>b</t><phoneticPr/></si></sst>`:
    four entries, the empty and the phonetic-only item keep their index -/
example :
    let items : List SstItem := [
      ⟨[], none, [], .plain [] ⟨none, [], [.text [97]]⟩ []⟩,
      ⟨[.text [10]], none, [], .rich []⟩,
      ⟨[], none, [], .rich [.phonetic none [] [.start ⟨none, "t"⟩ [], .text [112], .end_ ⟨none, "t"⟩]]⟩,
      ⟨[], none, [], .plain [] ⟨none, [], [.text [98]]⟩ [.start ⟨none, "phoneticPr"⟩ [], .end_ ⟨none, "phoneticPr"⟩]⟩]
    items.all SstItem.wf = true ∧
    readSharedStrings (renderSst none items []) = .ok [[97], [], [], [98]] := by
  decide

/-- `<text:p>a<text:s text:c="3"/><text:span>b</text:span></text:p><text:p><text:s/></text:p>` behind an
    annotation holding its own paragraph: "a   b\n " -/
example :
    let paras : List Para := [
      ⟨[], [.lit (.text [97]), .spaces 3, .mark (.start ⟨some "text", "span"⟩ []), .lit (.cdata [98]),
            .mark (.end_ ⟨some "text", "span"⟩)]⟩,
      ⟨[], [.space1]⟩]
    let annot : List Ev := [.start textP [], .text [110], .end_ textP]
    annotWf annot = true ∧ paras.all Para.wf = true ∧
    odsCellText (renderCell (some annot) paras false) = .ok ([97, 32, 32, 32, 98, 10, 32], []) := by
  intro paras annot
  have ha : annotWf annot = true := by decide
  have hp : paras.all Para.wf = true := by decide
  refine ⟨ha, hp, ?_⟩
  have := ods_text (some annot) paras false [] (by intro c hc; cases hc; exact ha) hp
  rw [List.append_nil] at this
  rw [this]
  decide

example : wideStr (encodeWide [0x41, 0xD83D, 0xDE00] ++ [7, 7]) = .ok ([0x41, 0xD83D, 0xDE00], 10) := by
  decide

end XmlText
