import CalVerif.Lemmas.OdsRange
import CalVerif.Lemmas.OdsCell
/-! # C04 — ODS: cells read back at their position; repeat counts expand faithfully

    Property theorems only (helper lemmas live in `Lemmas/OdsRange.lean`).

    * model: `collect` (= `read_table` + `read_row`: the flat `cells`, the offsets `cols`, `rows_repeats`,
      with the pending-blank-run logic) and `getRange` (= `get_range`, both passes) of `Model/OdsRange.lean`;
    * spec: `expand runs r c` — the value the run-length encoded table stores at `(r, c)` — and `IsBBox`,
      the tight bounding rectangle of the non-default positions (`Spec/OdsRange.lean`).

    Hypotheses of every theorem (`WF`): row repeat counts are ≥ 1 (ODF: `positiveInteger`; with a
    `number-rows-repeated="0"` the code returns one row too many) and every stored position fits `u32`
    (the final `as u32` casts truncate otherwise). Column repeat counts are arbitrary (0 included). -/
namespace OdsRange
open Range (Rng Inv)
set_option linter.unusedSectionVars false
variable {α : Type} [Inhabited α] [DecidableEq α]

/-- well-formed run list: positive row repeats, every non-default position is a `u32` position -/
def WF (runs : List (RowRun α)) : Prop :=
  (∀ r ∈ runs, 1 ≤ r.1) ∧ ∀ p q, expand runs p q ≠ default → p < U32 ∧ q < U32

/-! ## `get_range` on the vectors of `read_table` (explicit rows) -/

/-- `get_range` never panics on the vectors `read_table` builds, and its result is `getRangeRows` -/
theorem getRange_flatten (rows : List (Nat × List α)) :
    getRange (flatten rows) = .ok (getRangeRows true (rows.map (·.2)) (rows.map (·.1))) := by
  unfold getRange getRangeG
  rw [slices_flatten]
  rfl

/-- **bounds pass + expansion pass, explicit rows**: for rows given cell by cell (any mixture of leading,
    interior, trailing default cells; first used column anywhere) with positive repeat counts the result is a
    consistent rectangle, it is the tight bounding box of the non-default cells of the expansion, and it
    holds the expansion's value at every absolute position -/
theorem getRange_rows_spec (rows : List (Nat × List α)) (hrep : ∀ x ∈ rows, 1 ≤ x.1)
    (hfit : ∀ r c, gridF rows r c ≠ default → r < U32 ∧ c < U32) :
    ∃ R, getRange (flatten rows) = .ok R ∧ Inv R ∧ (∀ p q, R.valAt p q = gridF rows p q) ∧
      (R.inner.length = 0 ↔ ∀ p q, gridF rows p q = default) ∧
      (R.inner.length ≠ 0 → IsBBox (gridF rows) R.sr R.sc R.er R.ec) ∧
      (R.inner.length = 0 → R = Range.empty) := by
  obtain ⟨h1, h2, h3, h4, h5⟩ := getRangeRows_spec rows hrep hfit
  exact ⟨_, getRange_flatten rows, h1, h2, h3, h4, h5⟩

/-! ## through `read_row`: cell events with `number-columns-repeated` -/

/-- generic form (any payload `ε`; `pend` = "value and formula are empty", `val` = the component pushed to
    the vector): `read_row`'s pending-run logic never displaces a value and never materialises a trailing
    blank run, whatever the repeat counts -/
theorem ods_range_spec_gen {ε : Type} (pend : ε → Bool) (val : ε → α)
    (hp : ∀ e, pend e = true → val e = default) (runs : List (Nat × List (ε × Nat))) (hwf : WF (runsOf val runs)) :
    ∃ R, getRange (flatten (collectG pend val runs)) = .ok R ∧ Inv R ∧
      (∀ p q, R.valAt p q = expand (runsOf val runs) p q) ∧
      (R.inner.length = 0 ↔ ∀ p q, expand (runsOf val runs) p q = default) ∧
      (R.inner.length ≠ 0 → IsBBox (expand (runsOf val runs)) R.sr R.sc R.er R.ec) ∧
      (R.inner.length = 0 → R = Range.empty) := by
  have hg : gridF (collectG pend val runs) = expand (runsOf val runs) := by
    funext r c; exact gridF_collectG pend val hp runs r c
  have hrep : ∀ x ∈ collectG pend val runs, 1 ≤ x.1 := by
    intro x hx
    obtain ⟨r, hr, rfl⟩ := List.mem_map.1 hx
    exact hwf.1 (r.1, r.2.map fun x => (val x.1, x.2)) (List.mem_map.2 ⟨r, hr, rfl⟩)
  have := getRange_rows_spec (collectG pend val runs) hrep (by rw [hg]; exact hwf.2)
  rw [hg] at this
  exact this

theorem runsOf_id (runs : List (RowRun α)) : runsOf id runs = runs := by
  unfold runsOf
  conv => rhs; rw [← List.map_id runs]
  apply List.map_congr_left
  intro r _
  obtain ⟨k, evs⟩ := r
  simp

/-- **C04, main statement**: for every well-formed run list — leading, interior and trailing empty runs of
    any length, repeated non-empty rows and cells, first used row/column anywhere — `get_range` applied to what
    `read_table` collected is the bounding rectangle of the non-empty cells of the semantic expansion and
    holds at every absolute position the value the content stores there (`abs (getRange (collect runs)) =
    (bbox (expand runs), valAt (expand runs))`; the empty table gives the empty range) -/
theorem ods_range_spec (runs : List (RowRun α)) (hwf : WF runs) :
    ∃ R, getRange (collect runs) = .ok R ∧
      (∀ p q, R.valAt p q = expand runs p q) ∧
      (R.inner.length = 0 ↔ ∀ p q, expand runs p q = default) ∧
      (R.inner.length ≠ 0 → IsBBox (expand runs) R.sr R.sc R.er R.ec) ∧
      (R.inner.length = 0 → R = Range.empty) := by
  have h := ods_range_spec_gen (fun v : α => decide (v = default)) id (by intro e he; simpa using he) runs
    (by rw [runsOf_id]; exact hwf)
  rw [runsOf_id] at h
  obtain ⟨R, h0, _, h2, h3, h4, h5⟩ := h
  exact ⟨R, h0, h2, h3, h4, h5⟩

/-- the result satisfies C05's rectangle invariant (the statement D19 violated, see below) -/
theorem ods_inv (runs : List (RowRun α)) (hwf : WF runs) :
    ∃ R, getRange (collect runs) = .ok R ∧ Inv R := by
  have h := ods_range_spec_gen (fun v : α => decide (v = default)) id (by intro e he; simpa using he) runs
    (by rw [runsOf_id]; exact hwf)
  obtain ⟨R, h0, h1, _⟩ := h
  exact ⟨R, h0, h1⟩

/-- **encoding independence**: two run lists with the same expansion — a run of identical cells or rows
    written as one repeated element or as explicit copies, blank runs grouped in any way, trailing blank
    runs of any length present or not — give the same `Range` -/
theorem ods_encoding_independent (rs₁ rs₂ : List (RowRun α)) (h₁ : WF rs₁) (h₂ : WF rs₂)
    (he : expand rs₁ = expand rs₂) : getRange (collect rs₁) = getRange (collect rs₂) := by
  obtain ⟨R1, e1, i1, v1, z1, b1, m1⟩ :=
    ods_range_spec_gen (fun v : α => decide (v = default)) id (by intro e he; simpa using he) rs₁
      (by rw [runsOf_id]; exact h₁)
  obtain ⟨R2, e2, i2, v2, z2, b2, m2⟩ :=
    ods_range_spec_gen (fun v : α => decide (v = default)) id (by intro e he; simpa using he) rs₂
      (by rw [runsOf_id]; exact h₂)
  rw [runsOf_id] at v1 z1 b1 v2 z2 b2
  have e1' : getRange (collect rs₁) = .ok R1 := e1
  have e2' : getRange (collect rs₂) = .ok R2 := e2
  rw [e1', e2']
  congr 1
  by_cases hz : R1.inner.length = 0
  · have hz2 : R2.inner.length = 0 := z2.2 (by rw [← he]; exact z1.1 hz)
    rw [m1 hz, m2 hz2]
  · have hz2 : R2.inner.length ≠ 0 := fun h => hz (z1.2 (by rw [he]; exact z2.1 h))
    have hb := IsBBox.unique (b1 hz) (by rw [he]; exact b2 hz2)
    exact rng_ext R1 R2 i1 i2 hz hz2 hb (fun p q => by rw [v1, v2, he])

/-- the computable bounding box of `Spec/OdsRange.lean` (the one the driver prints as the spec) is the
    tight bounding box of the expansion: first/last row and column holding a non-default value -/
theorem bbox_spec (runs : List (RowRun α)) :
    match bbox runs with
    | none => ∀ p q, expand runs p q = default
    | some (r0, c0, r1, c1) => IsBBox (expand runs) r0 c0 r1 c1 := by
  have h := bboxFrom_spec runs 0
  unfold bbox
  cases hb : bboxFrom runs 0 none with
  | none => rw [hb] at h; exact h
  | some x =>
    obtain ⟨r0, c0, r1, c1⟩ := x
    rw [hb] at h
    simp only [Nat.zero_le, Nat.sub_zero, Nat.zero_add, true_and] at h
    obtain ⟨_, h2, h3, h4, h5, h6⟩ := h
    exact ⟨fun p q hpq => h6 p q hpq, h2, h3, h4, h5⟩

/-- `start`/`end` of the result are exactly the computed bounding box of the expansion (and the range is
    empty exactly when there is none): `abs (getRange (collect runs)) = (bbox runs, valAt (expand runs))` -/
theorem ods_range_bbox (runs : List (RowRun α)) (hwf : WF runs) :
    ∃ R, getRange (collect runs) = .ok R ∧ (∀ p q, R.valAt p q = expand runs p q) ∧
      match bbox runs with
      | none => R = Range.empty
      | some (r0, c0, r1, c1) => R.inner.length ≠ 0 ∧ R.sr = r0 ∧ R.sc = c0 ∧ R.er = r1 ∧ R.ec = c1 := by
  obtain ⟨R, h0, h1, h2, h3, h4⟩ := ods_range_spec runs hwf
  refine ⟨R, h0, h1, ?_⟩
  have hb := bbox_spec runs
  cases hbb : bbox runs with
  | none =>
    rw [hbb] at hb
    exact h4 (h2.2 hb)
  | some x =>
    obtain ⟨r0, c0, r1, c1⟩ := x
    rw [hbb] at hb
    simp only at hb ⊢
    have hne : R.inner.length ≠ 0 := by
      intro hz
      obtain ⟨c, hc⟩ := hb.top
      exact hc (h2.1 hz _ _)
    exact ⟨hne, IsBBox.unique (h3 hne) hb⟩

/-! ## cells that carry a value and a formula (`cells` and `formulas` vectors of `read_table`) -/

/-- the values range when cells also carry formulas: a cell is *pending* only if value and formula are both
    empty, so a formula-only cell is materialised as an empty value — positions and bounds are unaffected -/
theorem ods_range_spec_values {β : Type} [Inhabited β] [DecidableEq β] (runs : List (RowRunVF α β))
    (hwf : WF (runsOf (fun e : α × β => e.1) runs)) :
    ∃ R, getRange (collectV runs) = .ok R ∧ Inv R ∧
      (∀ p q, R.valAt p q = expand (runsOf (fun e : α × β => e.1) runs) p q) ∧
      (R.inner.length ≠ 0 → IsBBox (expand (runsOf (fun e : α × β => e.1) runs)) R.sr R.sc R.er R.ec) := by
  obtain ⟨R, h0, h1, h2, _, h4, _⟩ := ods_range_spec_gen (pendVF (α := α) (β := β)) (fun e => e.1)
    (by intro e he; simp only [pendVF, Bool.and_eq_true, decide_eq_true_eq] at he; exact he.1) runs hwf
  exact ⟨R, h0, h1, h2, h4⟩

/-- the formulas range (`worksheet_formula`): bounding box of the non-empty formulas, each at its cell -/
theorem ods_range_spec_formulas {β : Type} [Inhabited β] [DecidableEq β] (runs : List (RowRunVF α β))
    (hwf : WF (runsOf (fun e : α × β => e.2) runs)) :
    ∃ R, getRange (collectF runs) = .ok R ∧ Inv R ∧
      (∀ p q, R.valAt p q = expand (runsOf (fun e : α × β => e.2) runs) p q) ∧
      (R.inner.length ≠ 0 → IsBBox (expand (runsOf (fun e : α × β => e.2) runs)) R.sr R.sc R.er R.ec) := by
  obtain ⟨R, h0, h1, h2, _, h4, _⟩ := ods_range_spec_gen (pendVF (α := α) (β := β)) (fun e => e.2)
    (by intro e he; simp only [pendVF, Bool.and_eq_true, decide_eq_true_eq] at he; exact he.2) runs hwf
  exact ⟨R, h0, h1, h2, h4⟩

/-! ## D19 and non-vacuity -/

/-- the D19 witness rows `[_,1,2] / [] / [_,3]` as cell events -/
def d19rows : List (RowRun Nat) := [(1, [(0, 1), (1, 1), (2, 1)]), (1, []), (1, [(0, 1), (3, 1)])]

/-- D19: before the fix (`extend_from_slice(&empty_cells)` for the pending empty rows) `get_range` returned
    7 cells for the 3×2 rectangle of the witness: the rectangle invariant fails -/
theorem d19_unfixed_violates_inv :
    ∃ r, getRangeUnfixed (collect d19rows) = .ok r ∧ ¬ Inv r := by
  refine ⟨_, rfl, ?_⟩
  intro h
  have := h.len
  revert this
  decide

/-- a sufficient, decidable condition for `WF`: positive row repeats, at most 2^32 rows and columns -/
theorem wf_of_small (runs : List (RowRun α)) (h1 : ∀ r ∈ runs, 1 ≤ r.1) (h2 : total runs ≤ U32)
    (h3 : ∀ r ∈ runs, (r.2.map (·.2)).sum ≤ U32) : WF runs := by
  refine ⟨h1, ?_⟩
  intro p q h
  unfold expand at h
  rw [runAt_eq] at h
  cases hr : (expR runs)[p]? with
  | none => rw [hr] at h; exact absurd rfl h
  | some evs =>
    rw [hr] at h
    simp only at h
    have hp : p < (expR runs).length := by
      apply Classical.byContradiction; intro hn
      rw [List.getElem?_eq_none (by omega)] at hr; cases hr
    rw [expR_length] at hp
    obtain ⟨x, hx, rfl⟩ := mem_expR runs evs (List.mem_of_getElem? hr)
    have hq : ∀ (evs : List (α × Nat)) (c : Nat), cellAt evs c ≠ default → c < (evs.map (·.2)).sum := by
      intro evs
      induction evs with
      | nil => intro c hc; exact absurd rfl hc
      | cons e rest ih =>
        intro c hc
        obtain ⟨v, k⟩ := e
        simp only [cellAt] at hc
        simp only [List.map_cons, List.sum_cons]
        by_cases hk : c < k
        · omega
        · rw [if_neg hk] at hc; have := ih (c - k) hc; omega
    have := hq x.2 q h
    have := h3 x hx
    exact ⟨by omega, by omega⟩

/-- non-vacuity: the witness rows are well formed, and on them the fixed code returns the 3×2 rectangle
    `B1:C3` with `3` at its place -/
example : WF d19rows ∧
    getRange (collect d19rows) = .ok ⟨0, 1, 2, 2, [1, 2, 0, 0, 3, 0]⟩ ∧
    IsBBox (expand d19rows) 0 1 2 2 := by
  have hwf : WF d19rows := wf_of_small d19rows (by decide) (by decide) (by decide)
  refine ⟨hwf, rfl, ?_⟩
  obtain ⟨R, h0, _, _, h3, _⟩ := ods_range_spec d19rows hwf
  have : R = ⟨0, 1, 2, 2, [1, 2, 0, 0, 3, 0]⟩ := by
    have e : getRange (collect d19rows) = .ok ⟨0, 1, 2, 2, [1, 2, 0, 0, 3, 0]⟩ := rfl
    rw [e] at h0; injection h0 with h0; exact h0.symm
  subst this
  exact h3 (by decide)

/-- non-vacuity of encoding independence: repeated elements vs explicit copies, blank runs regrouped, a huge
    trailing blank run and 1 048 573 trailing blank rows — the same range -/
example :
    getRange (collect ([(2, [(0, 2), (7, 2)]), (3, []), (1, [(0, 1), (0, 2), (5, 1)])] : List (RowRun Nat))) =
    getRange (collect [(1, [(0, 1), (0, 1), (7, 1), (7, 1), (0, 16380)]), (1, [(0, 2), (7, 2)]), (1, [(0, 5)]),
      (2, []), (1, [(0, 3), (5, 1), (0, 1)]), (1048569, [(0, 16384)])]) := by
  rfl

end OdsRange

/-! ## value typing from the cell's attributes (`get_datatype`, attribute loop) -/
namespace OdsCell

/-- **the first value attribute decides, whatever the attribute order**: if `a` is the first value-carrying
    attribute of the element (`office:value` that parses, `office:string-value`, `office:date-value`,
    `office:time-value`, `office:boolean-value`), the cell's value is `a`'s value — float, percentage and currency
    cells (all `office:value`) as `Float`, `string-value` as `String`, `date-value` as `DateTimeIso`, `time-value`
    as `DurationIso`, `boolean-value` as `Bool` — wherever `office:value-type`, `table:formula`, the repeat
    counts and any other attributes stand; the formula is the last `table:formula`; the text content is not used -/
theorem datatype_first_value (pre post : List Attr) (a : Attr) (ha : a.isValue = true) (hp : a ≠ .value none)
    (hpre : ∀ x ∈ pre, x.isValue = false) :
    getDatatype (pre ++ a :: post) = some ⟨a.valOf, formulaAfter "" (pre ++ a :: post), false⟩ := by
  unfold getDatatype
  rw [loop_append, loop_unset pre {} rfl hpre]
  simp only [Option.bind_some, loop]
  have hstep : step { formula := formulaAfter "" pre, isString := stringAfter false pre } a =
      some { val := a.valOf, isValueSet := true, isString := stringAfter false pre, formula := formulaAfter "" pre } := by
    cases a with
    | value parsed =>
      cases parsed with
      | none => exact absurd rfl hp
      | some bits => rfl
    | stringValue t => rfl
    | dateValue t => rfl
    | timeValue t => rfl
    | boolValue raw => rfl
    | valueType raw => simp [Attr.isValue] at ha
    | formula f => simp [Attr.isValue] at ha
    | other => simp [Attr.isValue] at ha
  rw [hstep]
  simp only
  rw [loop_set post _ rfl]
  simp only [Bool.not_true, Bool.false_and, Option.some.injEq, Out.mk.injEq, true_and, and_true]
  rw [formulaAfter_append]
  have : formulaAfter (formulaAfter "" pre) (a :: post) = formulaAfter (formulaAfter "" pre) post := by
    cases a <;> first | rfl | (simp [Attr.isValue] at ha; done)
  rw [this]

/-- **order independence**: an element with exactly one value-carrying attribute reads as that attribute's
    value under every ordering of its attributes -/
theorem datatype_order_independent (attrs : List Attr) (a : Attr) (h : attrs.filter Attr.isValue = [a])
    (hp : a ≠ .value none) : ∃ f, getDatatype attrs = some ⟨a.valOf, f, false⟩ := by
  obtain ⟨pre, post, rfl, hpre, ha, _⟩ := List.filter_eq_cons_iff.1 h
  exact ⟨_, datatype_first_value pre post a ha hp (fun x hx => by simpa using hpre x hx)⟩

/-- without a value attribute the cell is empty, unless its (last) `office:value-type` is `string`: then the
    value is the element's text content -/
theorem datatype_no_value (attrs : List Attr) (h : ∀ x ∈ attrs, x.isValue = false) :
    getDatatype attrs = some ⟨.empty, formulaAfter "" attrs, stringAfter false attrs⟩ := by
  unfold getDatatype
  rw [loop_unset attrs {} rfl h]
  simp

/-- non-vacuity: a currency cell with its attributes in an unusual order, a display style and a formula -/
example : getDatatype [.other, .formula "of:=[.A1]*2", .value (some 4614253070214989087), .valueType "currency", .other] =
    some ⟨.float 4614253070214989087, "of:=[.A1]*2", false⟩ := by decide

end OdsCell

