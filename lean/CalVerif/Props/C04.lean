import CalVerif.Spec.OdsRange
import CalVerif.Lemmas.Range
/-! # C04 — ODS: cells read back at their position; repeat counts expand faithfully -/
namespace OdsRange
open Range (Rng Inv)

/-- the D19 witness rows `[_,1,2] / [] / [_,3]` as cell events -/
def d19rows : List (RowRun Nat) := [(1, [(0, 1), (1, 1), (2, 1)]), (1, []), (1, [(0, 1), (3, 1)])]

/-- D19: before the fix `get_range` returned 7 cells for the 3×2 rectangle of the witness -/
theorem d19_unfixed_violates_inv :
    ∃ r, getRangeUnfixed (collect d19rows) = .ok r ∧ ¬ Inv r := by
  refine ⟨_, rfl, ?_⟩
  intro h
  have := h.len
  revert this
  decide

end OdsRange
