import CalVerif.Lemmas.OdsRange
import CalVerif.Lemmas.OdsCell
import CalVerif.Lemmas.OdsSheet
import CalVerif.Lemmas.OdsCount
/-! # C04 — ODS: cells read back at their position; repeat counts expand faithfully

    Property theorems only (helper lemmas live in `Lemmas/OdsRange.lean`).

    * model: `collect` (= `read_table` + `read_row`: the flat `cells`, the offsets `cols`, `rows_repeats`,
      with the pending-blank-run logic) and `getRange` (= `get_range`, both passes) of `Model/OdsRange.lean`;
    * spec: `expand runs r c` — the value the run-length encoded table stores at `(r, c)` — and `IsBBox`,
      the tight bounding rectangle of the non-default positions (`Spec/OdsRange.lean`).

    Hypotheses of every theorem (`WF`): row repeat counts are ≥ 1 (ODF: `positiveInteger`; with a
    `number-rows-repeated="0"` the code returns one row too many) and every stored position fits `u32`
    (the final `as u32` casts truncate otherwise). Column repeat counts are arbitrary (0 included). -/
namespace OdsRange
open Range (Rng Inv)
set_option linter.unusedSectionVars false
variable {α : Type} [Inhabited α] [DecidableEq α]

/-- well-formed run list: positive row repeats, every non-default position is a `u32` position -/
def WF (runs : List (RowRun α)) : Prop :=
  (∀ r ∈ runs, 1 ≤ r.1) ∧ ∀ p q, expand runs p q ≠ default → p < U32 ∧ q < U32

/-! ## `get_range` on the vectors of `read_table` (explicit rows) -/

/-- `get_range` never panics on the vectors `read_table` builds, and its result is `getRangeRows` -/
theorem getRange_flatten (rows : List (Nat × List α)) :
    getRange (flatten rows) = .ok (getRangeRows true (rows.map (·.2)) (rows.map (·.1))) := by
  unfold getRange getRangeG
  rw [slices_flatten]
  rfl

/-- **bounds pass + expansion pass, explicit rows**: for rows given cell by cell (any mixture of leading,
    interior, trailing default cells; first used column anywhere) with positive repeat counts the result is a
    consistent rectangle, it is the tight bounding box of the non-default cells of the expansion, and it
    holds the expansion's value at every absolute position -/
theorem getRange_rows_spec (rows : List (Nat × List α)) (hrep : ∀ x ∈ rows, 1 ≤ x.1)
    (hfit : ∀ r c, gridF rows r c ≠ default → r < U32 ∧ c < U32) :
    ∃ R, getRange (flatten rows) = .ok R ∧ Inv R ∧ (∀ p q, R.valAt p q = gridF rows p q) ∧
      (R.inner.length = 0 ↔ ∀ p q, gridF rows p q = default) ∧
      (R.inner.length ≠ 0 → IsBBox (gridF rows) R.sr R.sc R.er R.ec) ∧
      (R.inner.length = 0 → R = Range.empty) := by
  obtain ⟨h1, h2, h3, h4, h5⟩ := getRangeRows_spec rows hrep hfit
  exact ⟨_, getRange_flatten rows, h1, h2, h3, h4, h5⟩

/-! ## through `read_row`: cell events with `number-columns-repeated` -/

/-- generic form (any payload `ε`; `pend` = "value and formula are empty", `val` = the component pushed to
    the vector): `read_row`'s pending-run logic never displaces a value and never materialises a trailing
    blank run, whatever the repeat counts -/
theorem ods_range_spec_gen {ε : Type} (pend : ε → Bool) (val : ε → α)
    (hp : ∀ e, pend e = true → val e = default) (runs : List (Nat × List (ε × Nat))) (hwf : WF (runsOf val runs)) :
    ∃ R, getRange (flatten (collectG pend val runs)) = .ok R ∧ Inv R ∧
      (∀ p q, R.valAt p q = expand (runsOf val runs) p q) ∧
      (R.inner.length = 0 ↔ ∀ p q, expand (runsOf val runs) p q = default) ∧
      (R.inner.length ≠ 0 → IsBBox (expand (runsOf val runs)) R.sr R.sc R.er R.ec) ∧
      (R.inner.length = 0 → R = Range.empty) := by
  have hg : gridF (collectG pend val runs) = expand (runsOf val runs) := by
    funext r c; exact gridF_collectG pend val hp runs r c
  have hrep : ∀ x ∈ collectG pend val runs, 1 ≤ x.1 := by
    intro x hx
    obtain ⟨r, hr, rfl⟩ := List.mem_map.1 hx
    exact hwf.1 (r.1, r.2.map fun x => (val x.1, x.2)) (List.mem_map.2 ⟨r, hr, rfl⟩)
  have := getRange_rows_spec (collectG pend val runs) hrep (by rw [hg]; exact hwf.2)
  rw [hg] at this
  exact this

theorem runsOf_id (runs : List (RowRun α)) : runsOf id runs = runs := by
  unfold runsOf
  conv => rhs; rw [← List.map_id runs]
  apply List.map_congr_left
  intro r _
  obtain ⟨k, evs⟩ := r
  simp

/-- **C04, main statement**: for every well-formed run list — leading, interior and trailing empty runs of
    any length, repeated non-empty rows and cells, first used row/column anywhere — `get_range` applied to what
    `read_table` collected is the bounding rectangle of the non-empty cells of the semantic expansion and
    holds at every absolute position the value the content stores there (`abs (getRange (collect runs)) =
    (bbox (expand runs), valAt (expand runs))`; the empty table gives the empty range) -/
theorem ods_range_spec (runs : List (RowRun α)) (hwf : WF runs) :
    ∃ R, getRange (collect runs) = .ok R ∧
      (∀ p q, R.valAt p q = expand runs p q) ∧
      (R.inner.length = 0 ↔ ∀ p q, expand runs p q = default) ∧
      (R.inner.length ≠ 0 → IsBBox (expand runs) R.sr R.sc R.er R.ec) ∧
      (R.inner.length = 0 → R = Range.empty) := by
  have h := ods_range_spec_gen (fun v : α => decide (v = default)) id (by intro e he; simpa using he) runs
    (by rw [runsOf_id]; exact hwf)
  rw [runsOf_id] at h
  obtain ⟨R, h0, _, h2, h3, h4, h5⟩ := h
  exact ⟨R, h0, h2, h3, h4, h5⟩

/-- the result satisfies C05's rectangle invariant (the statement D19 violated, see below) -/
theorem ods_inv (runs : List (RowRun α)) (hwf : WF runs) :
    ∃ R, getRange (collect runs) = .ok R ∧ Inv R := by
  have h := ods_range_spec_gen (fun v : α => decide (v = default)) id (by intro e he; simpa using he) runs
    (by rw [runsOf_id]; exact hwf)
  obtain ⟨R, h0, h1, _⟩ := h
  exact ⟨R, h0, h1⟩

/-- **encoding independence**: two run lists with the same expansion — a run of identical cells or rows
    written as one repeated element or as explicit copies, blank runs grouped in any way, trailing blank
    runs of any length present or not — give the same `Range` -/
theorem ods_encoding_independent (rs₁ rs₂ : List (RowRun α)) (h₁ : WF rs₁) (h₂ : WF rs₂)
    (he : expand rs₁ = expand rs₂) : getRange (collect rs₁) = getRange (collect rs₂) := by
  obtain ⟨R1, e1, i1, v1, z1, b1, m1⟩ :=
    ods_range_spec_gen (fun v : α => decide (v = default)) id (by intro e he; simpa using he) rs₁
      (by rw [runsOf_id]; exact h₁)
  obtain ⟨R2, e2, i2, v2, z2, b2, m2⟩ :=
    ods_range_spec_gen (fun v : α => decide (v = default)) id (by intro e he; simpa using he) rs₂
      (by rw [runsOf_id]; exact h₂)
  rw [runsOf_id] at v1 z1 b1 v2 z2 b2
  have e1' : getRange (collect rs₁) = .ok R1 := e1
  have e2' : getRange (collect rs₂) = .ok R2 := e2
  rw [e1', e2']
  congr 1
  by_cases hz : R1.inner.length = 0
  · have hz2 : R2.inner.length = 0 := z2.2 (by rw [← he]; exact z1.1 hz)
    rw [m1 hz, m2 hz2]
  · have hz2 : R2.inner.length ≠ 0 := fun h => hz (z1.2 (by rw [he]; exact z2.1 h))
    have hb := IsBBox.unique (b1 hz) (by rw [he]; exact b2 hz2)
    exact rng_ext R1 R2 i1 i2 hz hz2 hb (fun p q => by rw [v1, v2, he])

/-- the computable bounding box of `Spec/OdsRange.lean` (the one the driver prints as the spec) is the
    tight bounding box of the expansion: first/last row and column holding a non-default value -/
theorem bbox_spec (runs : List (RowRun α)) :
    match bbox runs with
    | none => ∀ p q, expand runs p q = default
    | some (r0, c0, r1, c1) => IsBBox (expand runs) r0 c0 r1 c1 := by
  have h := bboxFrom_spec runs 0
  unfold bbox
  cases hb : bboxFrom runs 0 none with
  | none => rw [hb] at h; exact h
  | some x =>
    obtain ⟨r0, c0, r1, c1⟩ := x
    rw [hb] at h
    simp only [Nat.zero_le, Nat.sub_zero, Nat.zero_add, true_and] at h
    obtain ⟨_, h2, h3, h4, h5, h6⟩ := h
    exact ⟨fun p q hpq => h6 p q hpq, h2, h3, h4, h5⟩

/-- `start`/`end` of the result are exactly the computed bounding box of the expansion (and the range is
    empty exactly when there is none): `abs (getRange (collect runs)) = (bbox runs, valAt (expand runs))` -/
theorem ods_range_bbox (runs : List (RowRun α)) (hwf : WF runs) :
    ∃ R, getRange (collect runs) = .ok R ∧ (∀ p q, R.valAt p q = expand runs p q) ∧
      match bbox runs with
      | none => R = Range.empty
      | some (r0, c0, r1, c1) => R.inner.length ≠ 0 ∧ R.sr = r0 ∧ R.sc = c0 ∧ R.er = r1 ∧ R.ec = c1 := by
  obtain ⟨R, h0, h1, h2, h3, h4⟩ := ods_range_spec runs hwf
  refine ⟨R, h0, h1, ?_⟩
  have hb := bbox_spec runs
  cases hbb : bbox runs with
  | none =>
    rw [hbb] at hb
    exact h4 (h2.2 hb)
  | some x =>
    obtain ⟨r0, c0, r1, c1⟩ := x
    rw [hbb] at hb
    simp only at hb ⊢
    have hne : R.inner.length ≠ 0 := by
      intro hz
      obtain ⟨c, hc⟩ := hb.top
      exact hc (h2.1 hz _ _)
    exact ⟨hne, IsBBox.unique (h3 hne) hb⟩

/-! ## cells that carry a value and a formula (`cells` and `formulas` vectors of `read_table`) -/

/-- the values range when cells also carry formulas: a cell is *pending* only if value and formula are both
    empty, so a formula-only cell is materialised as an empty value — positions and bounds are unaffected -/
theorem ods_range_spec_values {β : Type} [Inhabited β] [DecidableEq β] (runs : List (RowRunVF α β))
    (hwf : WF (runsOf (fun e : α × β => e.1) runs)) :
    ∃ R, getRange (collectV runs) = .ok R ∧ Inv R ∧
      (∀ p q, R.valAt p q = expand (runsOf (fun e : α × β => e.1) runs) p q) ∧
      (R.inner.length ≠ 0 → IsBBox (expand (runsOf (fun e : α × β => e.1) runs)) R.sr R.sc R.er R.ec) := by
  obtain ⟨R, h0, h1, h2, _, h4, _⟩ := ods_range_spec_gen (pendVF (α := α) (β := β)) (fun e => e.1)
    (by intro e he; simp only [pendVF, Bool.and_eq_true, decide_eq_true_eq] at he; exact he.1) runs hwf
  exact ⟨R, h0, h1, h2, h4⟩

/-- the formulas range (`worksheet_formula`): bounding box of the non-empty formulas, each at its cell -/
theorem ods_range_spec_formulas {β : Type} [Inhabited β] [DecidableEq β] (runs : List (RowRunVF α β))
    (hwf : WF (runsOf (fun e : α × β => e.2) runs)) :
    ∃ R, getRange (collectF runs) = .ok R ∧ Inv R ∧
      (∀ p q, R.valAt p q = expand (runsOf (fun e : α × β => e.2) runs) p q) ∧
      (R.inner.length ≠ 0 → IsBBox (expand (runsOf (fun e : α × β => e.2) runs)) R.sr R.sc R.er R.ec) := by
  obtain ⟨R, h0, h1, h2, _, h4, _⟩ := ods_range_spec_gen (pendVF (α := α) (β := β)) (fun e => e.2)
    (by intro e he; simp only [pendVF, Bool.and_eq_true, decide_eq_true_eq] at he; exact he.2) runs hwf
  exact ⟨R, h0, h1, h2, h4⟩

/-! ## covered cells: the element kind is part of the row events -/

/-- well-formed run list with element kinds (payload seen through `val`) -/
def WFK {ε : Type} (val : ε → α) (runs : List (RowRunK ε)) : Prop :=
  (∀ r ∈ runs, 1 ≤ r.1) ∧ ∀ p q, expandK val runs p q ≠ default → p < U32 ∧ q < U32

/-- generic form over events `(kind, payload, repeat)`: `expandK` counts an event of either kind — a
    `table:table-cell` or a `table:covered-table-cell` — as `repeat` columns holding the event's content -/
theorem ods_range_spec_kinds {ε : Type} (pend : ε → Bool) (val : ε → α)
    (hp : ∀ e, pend e = true → val e = default) (runs : List (RowRunK ε)) (hwf : WFK val runs) :
    ∃ R, getRange (flatten (collectKG pend val runs)) = .ok R ∧ Inv R ∧
      (∀ p q, R.valAt p q = expandK val runs p q) ∧
      (R.inner.length = 0 ↔ ∀ p q, expandK val runs p q = default) ∧
      (R.inner.length ≠ 0 → IsBBox (expandK val runs) R.sr R.sc R.er R.ec) ∧
      (R.inner.length = 0 → R = Range.empty) := by
  have hexp : expand (runsOf val (eraseKinds runs)) = expandK val runs := by
    funext r c; exact (expandK_eq val runs r c).symm
  have hwf' : WF (runsOf val (eraseKinds runs)) := by
    refine ⟨?_, by rw [hexp]; exact hwf.2⟩
    intro r hr
    simp only [runsOf, eraseKinds, List.map_map, List.mem_map] at hr
    obtain ⟨x, hx, rfl⟩ := hr
    exact hwf.1 x hx
  have := ods_range_spec_gen pend val hp (eraseKinds runs) hwf'
  rw [hexp, ← collectKG_eq] at this
  exact this

/-- **C04 with covered cells**: the main statement for run lists whose cell events are ordinary or covered
    cells, each with its repeat count and whatever value it carries. Rows and columns are counted through every
    covered cell: it occupies `repeat` columns exactly like an ordinary cell, and a covered cell with content is
    stored like any cell (`expandK`) -/
theorem ods_range_spec_covered (runs : List (RowRunK α)) (hwf : WFK id runs) :
    ∃ R, getRange (collectK runs) = .ok R ∧ Inv R ∧
      (∀ p q, R.valAt p q = expandK id runs p q) ∧
      (R.inner.length = 0 ↔ ∀ p q, expandK id runs p q = default) ∧
      (R.inner.length ≠ 0 → IsBBox (expandK id runs) R.sr R.sc R.er R.ec) ∧
      (R.inner.length = 0 → R = Range.empty) :=
  ods_range_spec_kinds (fun v : α => decide (v = default)) id (by intro e he; simpa using he) runs hwf

/-- turning ordinary cells into covered cells or back (same contents, same repeat counts) changes nothing -/
theorem ods_kind_irrelevant (runs₁ runs₂ : List (RowRunK α)) (h : eraseKinds runs₁ = eraseKinds runs₂) :
    getRange (collectK runs₁) = getRange (collectK runs₂) ∧ expandK id runs₁ = expandK id runs₂ := by
  constructor
  · unfold collectK; rw [collectKG_eq, collectKG_eq, h]
  · funext r c; rw [expandK_eq, expandK_eq, h]

/-- non-vacuity: `[covered, 7 (covered, ×2), _, 5]` / 3 blank covered cells / `[_ ×4, 5]` -/
example : getRange (collectK ([(1, [(.covered, 0, 1), (.covered, 7, 2), (.cell, 0, 1), (.cell, 5, 1)]),
      (1, [(.covered, 0, 3)]), (1, [(.cell, 0, 4), (.covered, 5, 1)])] : List (RowRunK Nat))) =
    .ok ⟨0, 1, 2, 4, [7, 7, 0, 5, 0, 0, 0, 0, 0, 0, 0, 5]⟩ := by rfl

/-! ## D19 and non-vacuity -/

/-- the D19 witness rows `[_,1,2] / [] / [_,3]` as cell events -/
def d19rows : List (RowRun Nat) := [(1, [(0, 1), (1, 1), (2, 1)]), (1, []), (1, [(0, 1), (3, 1)])]

/-- D19: before the fix (`extend_from_slice(&empty_cells)` for the pending empty rows) `get_range` returned
    7 cells for the 3×2 rectangle of the witness: the rectangle invariant fails -/
theorem d19_unfixed_violates_inv :
    ∃ r, getRangeUnfixed (collect d19rows) = .ok r ∧ ¬ Inv r := by
  refine ⟨_, rfl, ?_⟩
  intro h
  have := h.len
  revert this
  decide

/-- a sufficient, decidable condition for `WF`: positive row repeats, at most 2^32 rows and columns -/
theorem wf_of_small (runs : List (RowRun α)) (h1 : ∀ r ∈ runs, 1 ≤ r.1) (h2 : total runs ≤ U32)
    (h3 : ∀ r ∈ runs, (r.2.map (·.2)).sum ≤ U32) : WF runs := by
  refine ⟨h1, ?_⟩
  intro p q h
  unfold expand at h
  rw [runAt_eq] at h
  cases hr : (expR runs)[p]? with
  | none => rw [hr] at h; exact absurd rfl h
  | some evs =>
    rw [hr] at h
    simp only at h
    have hp : p < (expR runs).length := by
      apply Classical.byContradiction; intro hn
      rw [List.getElem?_eq_none (by omega)] at hr; cases hr
    rw [expR_length] at hp
    obtain ⟨x, hx, rfl⟩ := mem_expR runs evs (List.mem_of_getElem? hr)
    have hq : ∀ (evs : List (α × Nat)) (c : Nat), cellAt evs c ≠ default → c < (evs.map (·.2)).sum := by
      intro evs
      induction evs with
      | nil => intro c hc; exact absurd rfl hc
      | cons e rest ih =>
        intro c hc
        obtain ⟨v, k⟩ := e
        simp only [cellAt] at hc
        simp only [List.map_cons, List.sum_cons]
        by_cases hk : c < k
        · omega
        · rw [if_neg hk] at hc; have := ih (c - k) hc; omega
    have := hq x.2 q h
    have := h3 x hx
    exact ⟨by omega, by omega⟩

/-- non-vacuity: the witness rows are well formed, and on them the fixed code returns the 3×2 rectangle
    `B1:C3` with `3` at its place -/
example : WF d19rows ∧
    getRange (collect d19rows) = .ok ⟨0, 1, 2, 2, [1, 2, 0, 0, 3, 0]⟩ ∧
    IsBBox (expand d19rows) 0 1 2 2 := by
  have hwf : WF d19rows := wf_of_small d19rows (by decide) (by decide) (by decide)
  refine ⟨hwf, rfl, ?_⟩
  obtain ⟨R, h0, _, _, h3, _⟩ := ods_range_spec d19rows hwf
  have : R = ⟨0, 1, 2, 2, [1, 2, 0, 0, 3, 0]⟩ := by
    have e : getRange (collect d19rows) = .ok ⟨0, 1, 2, 2, [1, 2, 0, 0, 3, 0]⟩ := rfl
    rw [e] at h0; injection h0 with h0; exact h0.symm
  subst this
  exact h3 (by decide)

/-- non-vacuity of encoding independence: repeated elements vs explicit copies, blank runs regrouped, a huge
    trailing blank run and 1 048 573 trailing blank rows — the same range -/
example :
    getRange (collect ([(2, [(0, 2), (7, 2)]), (3, []), (1, [(0, 1), (0, 2), (5, 1)])] : List (RowRun Nat))) =
    getRange (collect [(1, [(0, 1), (0, 1), (7, 1), (7, 1), (0, 16380)]), (1, [(0, 2), (7, 2)]), (1, [(0, 5)]),
      (2, []), (1, [(0, 3), (5, 1), (0, 1)]), (1048569, [(0, 16384)])]) := by
  rfl

end OdsRange

/-! ## value typing from the cell's attributes (`get_datatype`, attribute loop) -/
namespace OdsCell

/-- **the first value attribute decides, whatever the attribute order**: if `a` is the first value-carrying
    attribute of the element (`office:value` that parses, `office:string-value`, `office:date-value`,
    `office:time-value`, `office:boolean-value`), the cell's value is `a`'s value, wherever `office:value-type`,
    `table:formula`, the repeat counts and any other attributes stand; the formula is the last `table:formula`;
    the text content is not used.

    Reading note: "the *first* value attribute wins" describes what the code does on elements that carry several
    value attributes of different kinds, or a value attribute that contradicts `office:value-type`. Such elements are
    not well-formed ODF; for well-formed ODF (exactly one value attribute, the one that belongs to the element's
    `office:value-type`) the statement is unambiguous and is spelled out kind by kind in `datatype_wellformed_*`
    below — that is what the property text lists. -/
theorem datatype_first_value (pre post : List Attr) (a : Attr) (ha : a.isValue = true) (hp : a ≠ .value none)
    (hpre : ∀ x ∈ pre, x.isValue = false) :
    getDatatype (pre ++ a :: post) = some ⟨a.valOf, formulaAfter "" (pre ++ a :: post), false⟩ :=
  getDatatype_first_value pre post a ha hp hpre

/-- **order independence**: an element with exactly one value-carrying attribute reads as that attribute's
    value under every ordering of its attributes -/
theorem datatype_order_independent (attrs : List Attr) (a : Attr) (h : attrs.filter Attr.isValue = [a])
    (hp : a ≠ .value none) : ∃ f, getDatatype attrs = some ⟨a.valOf, f, false⟩ := by
  obtain ⟨pre, post, rfl, hpre, ha, _⟩ := List.filter_eq_cons_iff.1 h
  exact ⟨_, datatype_first_value pre post a ha hp (fun x hx => by simpa using hpre x hx)⟩

/-- without a value attribute the cell is empty, unless its (last) `office:value-type` is `string`: then the
    value is the element's text content -/
theorem datatype_no_value (attrs : List Attr) (h : ∀ x ∈ attrs, x.isValue = false) :
    getDatatype attrs = some ⟨.empty, formulaAfter "" attrs, stringAfter false attrs⟩ :=
  getDatatype_no_value attrs h

/-! ### well-formed ODF cells, kind by kind (what the property text lists)

    `WellFormed attrs vt` : the element has exactly one `office:value-type`, namely `vt`. Together with "exactly one
    value attribute, the one belonging to `vt`" (or none, for a string cell whose text is its content) this is the
    shape ODF 1.2 §19.385 prescribes; the attribute order and any further attributes are free. -/

/-- the element's only `office:value-type` is `vt` -/
def WellFormed (attrs : List Attr) (vt : String) : Prop :=
  Attr.valueType vt ∈ attrs ∧ ∀ raw, Attr.valueType raw ∈ attrs → raw = vt

theorem wf_value (attrs : List Attr) (a : Attr) (h : attrs.filter Attr.isValue = [a]) (hp : a ≠ .value none) :
    getDatatype attrs = some ⟨a.valOf, cellFormula attrs, false⟩ := by
  obtain ⟨pre, post, rfl, hpre, ha, _⟩ := List.filter_eq_cons_iff.1 h
  exact getDatatype_first_value pre post a ha hp (fun x hx => by simpa using hpre x hx)

/-- float, percentage and currency cells (`office:value="…"`, parsed by `f64::from_str` to `bits`) read as `Float` -/
theorem datatype_wellformed_float (attrs : List Attr) (vt : String) (bits : Nat)
    (_hvt : vt = "float" ∨ vt = "percentage" ∨ vt = "currency") (_hwf : WellFormed attrs vt)
    (h : attrs.filter Attr.isValue = [.value (some bits)]) :
    getDatatype attrs = some ⟨.float bits, cellFormula attrs, false⟩ :=
  wf_value attrs _ h (by simp)

/-- string cells with `office:string-value` read as `String` of the attribute -/
theorem datatype_wellformed_string_attr (attrs : List Attr) (t : String) (_hwf : WellFormed attrs "string")
    (h : attrs.filter Attr.isValue = [.stringValue t]) :
    getDatatype attrs = some ⟨.str t, cellFormula attrs, false⟩ :=
  wf_value attrs _ h (by simp)

/-- string cells without a value attribute take their text content (`useText`; the content is what
    `XmlText.odsCellText` of C19 reads from the children, see `sheet_spec`) -/
theorem datatype_wellformed_string_text (attrs : List Attr) (hwf : WellFormed attrs "string")
    (h : attrs.filter Attr.isValue = []) :
    getDatatype attrs = some ⟨.empty, cellFormula attrs, true⟩ ∧ ∀ content, cellValue attrs content = .str content := by
  have hall : ∀ x ∈ attrs, x.isValue = false := by
    intro x hx
    cases hv : x.isValue with
    | false => rfl
    | true =>
      have : x ∈ attrs.filter Attr.isValue := List.mem_filter.2 ⟨hx, hv⟩
      rw [h] at this; simp at this
  have hs : stringAfter false attrs = true := stringAfter_of_all attrs false hwf.2 (Or.inr hwf.1)
  refine ⟨by rw [getDatatype_no_value attrs hall, hs]; rfl, ?_⟩
  intro content
  have hf : attrs.find? Attr.isValue = none := List.find?_eq_none.2 (fun x hx => by simp [hall x hx])
  simp only [cellValue, hf, hs, if_true]

/-- boolean cells (`office:boolean-value="true"` / `"false"`) read as `Bool` -/
theorem datatype_wellformed_boolean (attrs : List Attr) (b : Bool) (_hwf : WellFormed attrs "boolean")
    (h : attrs.filter Attr.isValue = [.boolValue (if b then "true" else "false")]) :
    getDatatype attrs = some ⟨.bool b, cellFormula attrs, false⟩ := by
  rw [wf_value attrs _ h (by simp)]
  cases b <;> rfl

/-- date cells (`office:date-value`) read as `DateTimeIso` of the attribute text -/
theorem datatype_wellformed_date (attrs : List Attr) (t : String) (_hwf : WellFormed attrs "date")
    (h : attrs.filter Attr.isValue = [.dateValue t]) :
    getDatatype attrs = some ⟨.dateIso t, cellFormula attrs, false⟩ :=
  wf_value attrs _ h (by simp)

/-- time cells (`office:time-value`) read as `DurationIso` of the attribute text -/
theorem datatype_wellformed_time (attrs : List Attr) (t : String) (_hwf : WellFormed attrs "time")
    (h : attrs.filter Attr.isValue = [.timeValue t]) :
    getDatatype attrs = some ⟨.durIso t, cellFormula attrs, false⟩ :=
  wf_value attrs _ h (by simp)

/-- non-vacuity: a currency cell with its attributes in an unusual order, a display style and a formula -/
example : getDatatype [.other, .formula "of:=[.A1]*2", .value (some 4614253070214989087), .valueType "currency", .other] =
    some ⟨.float 4614253070214989087, "of:=[.A1]*2", false⟩ := by decide

end OdsCell

/-! ## the whole sheet: from row / cell events to the two ranges -/
namespace OdsSheet
open OdsRange OdsCell Range

/-- **sheet_spec** — `read_table` from EVENTS to ranges. Row events carry `number-rows-repeated`; cell events
    carry the element kind (ordinary / covered), the attributes, `number-columns-repeated` and the child events.
    If every cell types (`CellOk`: a leading `office:value` parses; the text of a string cell without value
    attribute is readable by C19's `XmlText.odsCellText`), row repeats are ≥ 1 and positions fit `u32`, then
    `worksheet_range` is the tight bounding box of the non-empty TYPED values with every value at its absolute
    position, and `worksheet_formula` likewise for the formulas — typing by `OdsCell.cellValue` / `cellFormula`
    (= `get_datatype`, `datatype_first_value` / `datatype_no_value`), positions counted through every row repeat,
    column repeat and covered cell (`sheetValue` / `sheetFormula` = `expandK` of `typedRuns`). -/
theorem sheet_spec (rows : List (Nat × List CellEv)) (hok : ∀ row ∈ rows, ∀ ev ∈ row.2, CellOk ev)
    (hv : WFK (fun e : Val × String => e.1) (typedRuns rows))
    (hf : WFK (fun e : Val × String => e.2) (typedRuns rows)) :
    ∃ V F, readTable rows = .ok (V, F) ∧
      Inv V ∧ (∀ p q, V.valAt p q = sheetValue rows p q) ∧
      (V.inner.length = 0 ↔ ∀ p q, sheetValue rows p q = .empty) ∧
      (V.inner.length ≠ 0 → IsBBox (sheetValue rows) V.sr V.sc V.er V.ec) ∧
      Inv F ∧ (∀ p q, F.valAt p q = sheetFormula rows p q) ∧
      (F.inner.length = 0 ↔ ∀ p q, sheetFormula rows p q = "") ∧
      (F.inner.length ≠ 0 → IsBBox (sheetFormula rows) F.sr F.sc F.er F.ec) := by
  obtain ⟨V, v0, v1, v2, v3, v4, _⟩ := ods_range_spec_kinds (pendVF (α := Val) (β := String)) (fun e => e.1)
    (by intro e he; simp only [pendVF, Bool.and_eq_true, decide_eq_true_eq] at he; exact he.1) (typedRuns rows) hv
  obtain ⟨F, f0, f1, f2, f3, f4, _⟩ := ods_range_spec_kinds (pendVF (α := Val) (β := String)) (fun e => e.2)
    (by intro e he; simp only [pendVF, Bool.and_eq_true, decide_eq_true_eq] at he; exact he.2) (typedRuns rows) hf
  refine ⟨V, F, ?_, v1, v2, v3, v4, f1, f2, f3, f4⟩
  unfold readTable
  rw [typeRows_eq rows hok]
  have v0' : getRange (collectKV (typedRuns rows)) = .ok V := v0
  have f0' : getRange (collectKF (typedRuns rows)) = .ok F := f0
  simp only [v0', f0']

/-- non-vacuity: a covered blank, a float cell written `value` before `value-type` and repeated twice, a string
    cell whose text is its content; second row: a date in column D -/
example :
    let txt : List XmlText.Ev :=
      [.start XmlText.textP [], .text "hi".toUTF8.toList, .end_ XmlText.textP, .end_ XmlText.tableCell]
    let rows : List (Nat × List CellEv) :=
      [(1, [⟨.covered, [], 1, []⟩, ⟨.cell, [.value (some 7), .valueType "float"], 2, []⟩,
            ⟨.cell, [.valueType "string"], 1, txt⟩]),
       (2, [⟨.cell, [], 3, []⟩, ⟨.covered, [.other, .dateValue "2021-03-04", .valueType "date"], 1, []⟩])]
    (∀ row ∈ rows, ∀ ev ∈ row.2, CellOk ev) ∧
    (readTable rows).isOk = true ∧ sheetValue rows 0 3 = .str (txtToString "hi".toUTF8.toList) ∧
    sheetValue rows 0 2 = .float 7 ∧ sheetValue rows 2 3 = .dateIso "2021-03-04" ∧ sheetValue rows 2 0 = .empty := by
  refine ⟨?_, rfl, rfl, rfl, rfl, rfl⟩
  intro row hrow ev hev
  simp only [List.mem_cons, List.mem_nil_iff, or_false] at hrow
  rcases hrow with rfl | rfl <;> simp only [List.mem_cons, List.mem_nil_iff, or_false] at hev <;>
    rcases hev with rfl | rfl | rfl <;> refine ⟨by decide, fun h1 h2 => ?_⟩ <;>
    first
    | exact absurd h1 (by decide)
    | exact absurd h2 (by decide)
    | exact ⟨_, _, rfl⟩

end OdsSheet

/-! ## lexing of the repeat counts (`number-rows-repeated`, `number-columns-repeated`) -/
namespace OdsCount

/-- **every spelling of a count parses to the count**: any white space, an optional `+`, the decimal digits with any
    number of leading zeros, any white space — the lexical space of xsd:positiveInteger as far as it fits `usize` —
    is read as the number the digits denote (`valOf`). Character references are resolved before (`unescape`, trusted).
    This is the reader after fix ddcfda3 (`…unescape…trim().parse()`); before it, blanks were rejected on both axes
    and the column count was not unescaped. -/
theorem count_spellings (pre post ds : List Char) (plus : Bool)
    (hpre : ∀ c ∈ pre, isWs c = true) (hpost : ∀ c ∈ post, isWs c = true)
    (hne : ds ≠ []) (hd : ∀ c ∈ ds, IsDigit c) (hv : valOf ds < USIZE) :
    parseCount (pre ++ ((if plus then ['+'] else []) ++ ds) ++ post) = some (valOf ds) := by
  obtain ⟨c0, r0, rfl⟩ : ∃ c r, ds = c :: r := by
    cases ds with
    | nil => exact absurd rfl hne
    | cons c r => exact ⟨c, r, rfl⟩
  have hc0 : IsDigit c0 := hd c0 (by simp)
  have hlastd : ∃ z, (c0 :: r0).getLast? = some z ∧ IsDigit z := by
    refine ⟨(c0 :: r0).getLast (by simp), List.getLast?_eq_some_getLast (by simp), ?_⟩
    exact hd _ (List.getLast_mem _)
  obtain ⟨z, hz, hzd⟩ := hlastd
  have hval : parseDigits (c0 :: r0) 0 = some (valOf (c0 :: r0)) := parseDigits_digits _ 0 hd
  unfold parseCount
  cases plus with
  | true =>
    have ht : trim (pre ++ (['+'] ++ (c0 :: r0)) ++ post) = '+' :: c0 :: r0 := by
      apply trim_core pre _ post hpre hpost '+' z (c0 :: r0) (Or.inl rfl) ?_ isWs_plus (isWs_digit z hzd)
      simpa using hz
    simp only [if_true, ht, stripPlus]
    rw [if_neg (by simp), hval]
    simp only [hv, if_true]
  | false =>
    have ht : trim (pre ++ ([] ++ (c0 :: r0)) ++ post) = c0 :: r0 := by
      apply trim_core pre _ post hpre hpost c0 z r0 (Or.inl rfl) ?_ (isWs_digit c0 hc0) (isWs_digit z hzd)
      simpa using hz
    have hplus : c0 ≠ '+' := by
      intro h; subst h
      obtain ⟨h1, _⟩ := hc0
      revert h1; decide
    simp only [Bool.false_eq_true, if_false, ht]
    have hm : stripPlus (c0 :: r0) = c0 :: r0 := by
      unfold stripPlus
      split
      · rename_i r heq; injection heq with h1 _; exact absurd h1 hplus
      · rfl
    rw [hm, if_neg (by simp), hval]
    simp only [hv, if_true]

/-- the same for the column count (an `i32` in the code): every spelling of a count below 2^31 parses to it -/
theorem colcount_spellings (pre post ds : List Char) (plus : Bool)
    (hpre : ∀ c ∈ pre, isWs c = true) (hpost : ∀ c ∈ post, isWs c = true)
    (hne : ds ≠ []) (hd : ∀ c ∈ ds, IsDigit c) (hv : valOf ds < 2147483648) :
    parseColCount (pre ++ ((if plus then ['+'] else []) ++ ds) ++ post) = some (valOf ds : Int) := by
  obtain ⟨c0, r0, rfl⟩ : ∃ c r, ds = c :: r := by
    cases ds with
    | nil => exact absurd rfl hne
    | cons c r => exact ⟨c, r, rfl⟩
  have hc0 : IsDigit c0 := hd c0 (by simp)
  obtain ⟨z, hz, hzd⟩ : ∃ z, (c0 :: r0).getLast? = some z ∧ IsDigit z :=
    ⟨(c0 :: r0).getLast (by simp), List.getLast?_eq_some_getLast (by simp), hd _ (List.getLast_mem _)⟩
  have hval : parseDigits (c0 :: r0) 0 = some (valOf (c0 :: r0)) := parseDigits_digits _ 0 hd
  have hplus : c0 ≠ '+' := by
    intro h; subst h; obtain ⟨h1, _⟩ := hc0; revert h1; decide
  have hminus : c0 ≠ '-' := by
    intro h; subst h; obtain ⟨h1, _⟩ := hc0; revert h1; decide
  unfold parseColCount
  cases plus with
  | true =>
    have ht : trim (pre ++ (['+'] ++ (c0 :: r0)) ++ post) = '+' :: c0 :: r0 := by
      apply trim_core pre _ post hpre hpost '+' z (c0 :: r0) (Or.inl rfl) ?_ isWs_plus (isWs_digit z hzd)
      simpa using hz
    simp only [if_true, ht, stripPlus, List.head?_cons]
    rw [if_neg (by decide), if_neg (by simp), hval]
    simp only [hv, if_true]
  | false =>
    have ht : trim (pre ++ ([] ++ (c0 :: r0)) ++ post) = c0 :: r0 := by
      apply trim_core pre _ post hpre hpost c0 z r0 (Or.inl rfl) ?_ (isWs_digit c0 hc0) (isWs_digit z hzd)
      simpa using hz
    have hm : stripPlus (c0 :: r0) = c0 :: r0 := by
      unfold stripPlus
      split
      · rename_i r heq; injection heq with h1 _; exact absurd h1 hplus
      · rfl
    simp only [Bool.false_eq_true, if_false, ht, List.head?_cons]
    rw [if_neg (by intro h; injection h with h; exact hminus h), hm, if_neg (by simp), hval]
    simp only [hv, if_true]

/-- what is not a count is an error (`ParseInt`), never a guess: nothing, a sign alone, a minus sign, inner blanks,
    letters, an exponent, a value of 2^64 -/
theorem count_rejects :
    parseCount [] = none ∧ parseCount [' '] = none ∧ parseCount ['+'] = none ∧ parseCount ['-', '1'] = none ∧
    parseCount ['1', ' ', '2'] = none ∧ parseCount ['a'] = none ∧ parseCount ['1', 'e', '2'] = none ∧
    parseCount ['+', '+', '1'] = none ∧
    parseCount ['1','8','4','4','6','7','4','4','0','7','3','7','0','9','5','5','1','6','1','6'] = none := by
  decide

/-- non-vacuity: ` +0016384 ` (blank, sign, leading zeros, trailing tab) is 16384; `0` is 0; and the one difference
    between the two axes inside the sheet limits: a column count may carry a minus sign (an `i32`; it then repeats nothing) -/
example : parseCount [' ', '+', '0', '0', '1', '6', '3', '8', '4', '\t'] = some 16384 ∧ parseCount ['0'] = some 0 ∧
    parseColCount [' ', '+', '0', '0', '1', '6', '3', '8', '4', '\t'] = some 16384 ∧
    parseColCount ['-', '1'] = some (-1) ∧ parseColCount ['2', '1', '4', '7', '4', '8', '3', '6', '4', '8'] = none ∧
    parseColCount ['-'] = none ∧ parseColCount ['1', ' ', '2'] = none := by
  decide

end OdsCount

