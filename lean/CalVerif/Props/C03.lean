import CalVerif.Lemmas.Xlsb
import CalVerif.Lemmas.XlsbCross
import CalVerif.Lemmas.XlsbBook
import CalVerif.Props.C05
/-! # C03 — XLSB: every cell record reads back at its position with its value

    Property theorems only (helper lemmas: `Lemmas/Xlsb.lean`; model: `Model/Xlsb.lean`, `Model/Range.lean`;
    encoder and logical meaning of a sheet part: `Spec/XlsbEnc.lean`). -/

namespace Xlsb

/-! ## record framing -/

/-- every 14-bit record id, written in one byte (ids below 128) or in two bytes (any id, also the
    non-minimal two-byte form of a small id), is read back by `read_type`, and reading stops exactly behind it -/
theorem varint_id_roundtrip (t : Nat) (ht : t < 16384) (wide : Bool) (rest : Bytes) :
    readType (encId t wide ++ rest) = .ok (t, rest) :=
  readType_encId t ht wide rest

/-- every length below 2^28 in every width 1..4 that can hold it — non-minimal encodings included — is read
    back by the varint loop of `fill_buffer` -/
theorem varint_len_roundtrip (n w : Nat) (hw1 : 1 ≤ w) (hw4 : w ≤ 4) (hn : n < 2 ^ (7 * w)) (rest : Bytes) :
    readLen (encLenW w n ++ rest) = .ok (n, rest) :=
  readLen_encLenW n w hw1 hw4 hn rest

/-- one framed record (any id width, any length width) is read back as `(id, payload)` and the reader is
    positioned on the next record -/
theorem record_roundtrip1 (t : Nat) (ht : t < 16384) (p : Bytes) (hp : p.length < 268435456) (wide : Bool)
    (w : Nat) (rest : Bytes) : readRecord (frame t p wide w ++ rest) = .ok (t, p, rest) :=
  readRecord_frame t ht p hp wide w rest

/-! ## strings -/

/-- an XLWideString is read back unit by unit whatever follows it -/
theorem widestr_roundtrip (us : List Nat) (hl : us.length < 4294967296) (h : ∀ u ∈ us, u < 65536) (rest : Bytes) :
    wideStr (wideBytes us ++ rest) = .ok (us, 4 + us.length * 2) :=
  wideStr_wideBytes us hl h rest

/-- The shared string table part is read back as exactly the texts of its items, in order: BrtBeginSst with any
    total count, any records in front of it; per item the flags byte with `fRichStr` / `fExtStr` set or not, the
    rich-text runs and the phonetic string with its runs behind the text, any foreign records (and skipped
    0x23 … 0x24 blocks) in front of the item, every record framed with any widths; whatever follows the last item
    is not read. Rich runs and phonetic data contribute nothing to the text, and indices stay aligned — so a
    `BrtCellIsst` index resolves to the stored string. -/
theorem sst_roundtrip (pre0 : List Seg) (total : Nat) (hw : Bool) (hl : Nat) (entries : List SstEntry) (post : Bytes)
    (hp0 : ∀ s ∈ pre0, s.OK 0x009F []) (hn : entries.length < 4294967296) (h : ∀ e ∈ entries, e.OK) :
    readSharedStrings (sstBytes pre0 total hw hl entries post) = .ok (entries.map (·.text)) :=
  readSharedStrings_enc pre0 total hw hl entries post hp0 hn h

/-- non-vacuity: a plain item, a rich-text item behind a foreign record, an item with phonetic data behind a
    skipped block of future records -/
example :
    let entries : List SstEntry :=
      [⟨[104, 105], none, none, [], false, 0⟩,
       ⟨[0x6F22, 0x5B57], some [(0, 1), (1, 2)], none, [.one ⟨.raw 0x3FFF [1, 2], true, 3⟩], true, 4⟩,
       ⟨[0x6771], some [(0, 0)], some ([0x30D2, 0x30AC, 0x30B7], [(0, 0, 1)]),
        [.block ⟨.raw 0x23 [0xFF], false, 0⟩ [⟨.raw 0x13 [0, 9, 9, 9, 9], false, 0⟩] ⟨.raw 0x24 [], false, 0⟩], false, 2⟩]
    (∀ e ∈ entries, e.OK) ∧ entries.map (·.flags) = [0, 1, 3] := by
  refine ⟨?_, rfl⟩
  intro e he
  simp only [List.mem_cons, List.not_mem_nil, or_false] at he
  rcases he with rfl | rfl | rfl
  · exact ⟨by decide, by decide, by decide, fun _ h => nomatch h⟩
  · refine ⟨by decide, by decide, by decide, ?_⟩
    intro s hs
    simp only [List.mem_cons, List.not_mem_nil, or_false] at hs
    subst hs
    exact ⟨⟨by decide, by decide⟩, by decide, by decide⟩
  · refine ⟨by decide, by decide, by decide, ?_⟩
    intro s hs
    simp only [List.mem_cons, List.not_mem_nil, or_false] at hs
    subst hs
    refine ⟨⟨by decide, by decide⟩, by decide, by decide, ⟨by decide, by decide⟩, ?_⟩
    intro x hx
    simp only [List.mem_cons, List.not_mem_nil, or_false] at hx
    subst hx
    exact ⟨⟨by decide, by decide⟩, by decide⟩

/-- G3 (`wide_str` is modelled twice): the copy in `Model/XmlText.lean` (C19) and this property's `wideStr`
    agree on every buffer that holds the 4-byte count (units compared as numbers) -/
theorem widestr_models_agree (buf : Bytes) (h : 4 ≤ buf.length) :
    (match XmlText.wideStr buf with
      | .ok (us, n) => Res.ok (us.map (·.toNat), n)
      | .err e => .err e
      | .panic s => .panic s
      | .outOfFuel => .outOfFuel) = wideStr buf :=
  xmlText_wideStr_eq buf h

/-! ## cell records -/

/-- each of the ten value records (BrtCellRk/Error/Bool/Real/St/Isst, BrtFmlaString/Num/Bool/Error) is read
    as its column and the value it stores: RK as in BIFF8 (integer or the high 30 bits of a double, optionally
    /100; date/time styles give `DateTime`), errors by code, booleans, doubles, inline strings by units, shared
    strings through the table -/
theorem cell_record_roundtrip (ctx : Ctx) (c : CellRec) (hwf : c.WF) (v : Val)
    (hv : valueOf ctx c.style c.content = some v) :
    interpret ctx c.recId c.payload = .value c.col v :=
  interpret_cell ctx c hwf v hv

/-- For the four kinds that HAVE a formula record (error, boolean, number, string: BrtFmlaError / BrtFmlaBool /
    BrtFmlaNum / BrtFmlaString against BrtCellError / BrtCellBool / BrtCellReal / BrtCellSt) the formula record —
    a different record id, the same cell part, then any formula bytes — contributes exactly what the constant
    record contributes (also when that is a rejection: an error code outside the BErr table) -/
theorem fmla_equals_const (ctx : Ctx) (col style : Nat) (content : Content) (f : Bytes)
    (hf : content.hasFmla = true) (hwf : (CellRec.mk col style content none).WF) :
    (CellRec.mk col style content (some f)).recId ≠ (CellRec.mk col style content none).recId ∧
    interpret ctx (CellRec.mk col style content (some f)).recId (CellRec.mk col style content (some f)).payload
      = interpret ctx (CellRec.mk col style content none).recId (CellRec.mk col style content none).payload := by
  refine ⟨?_, fmla_eq_const ctx col style content f hf hwf⟩
  cases content <;> simp [Content.hasFmla] at hf <;> simp [CellRec.recId]

/-! ## error values -/

/-- The byte of an error record is read through the BErr table of the specification (0x00 #NULL!, 0x07 #DIV/0!,
    0x0F #VALUE!, 0x17 #REF!, 0x1D #NAME?, 0x24 #NUM!, 0x2A #N/A, 0x2B #GETTING_DATA): the table translated from the
    `match self.buf[8]` of `next_cell` on every run IS that table, the table of xls `parse_err` is the same one,
    and it is one-to-one (a code stands for a kind exactly when it is that kind's code; kinds have distinct codes) -/
theorem berr_table :
    Gen.xlsbErrTable = berrTable ∧ Gen.xlsErrTable = berrTable ∧
    (∀ c k, berrKind c = some k ↔ c = berrCode k) ∧ (∀ k k', berrCode k = berrCode k' → k = k') ∧
    (∀ k, berrCode k < 256) ∧
    (berrTable.map fun r => (r.1, berrText r.2)) =
      [(0x00, "#NULL!"), (0x07, "#DIV/0!"), (0x0F, "#VALUE!"), (0x17, "#REF!"), (0x1D, "#NAME?"), (0x24, "#NUM!"),
       (0x2A, "#N/A"), (0x2B, "#GETTING_DATA")] :=
  ⟨xlsbErrTable_eq_berr, xlsErrTable_eq_berr, berrTable_bijective.1, berrTable_bijective.2.1, berrTable_bijective.2.2, rfl⟩

/-- an error record (constant or formula form) holding the code of kind `k` reads as that error value; any byte
    outside the table is rejected with `Err(CellError)` -/
theorem error_record_kind (ctx : Ctx) (col style : Nat) (fmla : Option Bytes) (hcol : col < 4294967296) :
    (∀ k, interpret ctx (CellRec.mk col style (.err (berrCode k)) fmla).recId
        (CellRec.mk col style (.err (berrCode k)) fmla).payload = .value col (.error (berrCode k))) ∧
    (∀ c, c < 256 → berrKind c = none →
      interpret ctx (CellRec.mk col style (.err c) fmla).recId (CellRec.mk col style (.err c) fmla).payload
        = .fail (.err "CellError")) := by
  refine ⟨fun k => ?_, fun c hc hn => ?_⟩
  · exact interpret_cell ctx ⟨col, style, .err (berrCode k), fmla⟩ ⟨hcol, berrTable_bijective.2.2 k⟩ _
      (by simp only [valueOf]; rw [berrKind_berrCode]; rfl)
  · exact interpret_err_invalid ctx col style c fmla hc (by rw [isErrCode_eq_berr, hn]; rfl)

/-- xls BOOLERR (`parse_err`, C02's model and its `boolerr_bijective`) uses the same table -/
theorem berr_table_xls (e : Nat) (k : BiffCells.ErrKind) :
    BiffCells.parseErr e = .ok (.error k) ↔ berrKind e = some (ofBiffErr k) :=
  biff_parseErr_eq_berr e k

/-- a record whose id the cell loop does not interpret (any id but 0, 2..11 and 0x92; 1- or 2-byte id, 1..4-byte
    length), placed before ANY remaining byte stream, changes nothing: the loop continues behind it in the same row -/
theorem ignorable_record_step (ctx : Ctx) (id : Nat) (hid : id < 16384) (hni : interpretedId id = false)
    (p : Bytes) (hp : p.length < 268435456) (wide : Bool) (w : Nat) (rest : Bytes) (f row : Nat) :
    readCells ctx (f + 1) (frame id p wide w ++ rest) row = readCells ctx f rest row := by
  rw [readCells, readRecord_frame id hid p hp]
  simp only [interpret_skip ctx id p hni]

/-- the sheet data written by the encoder — any mix of row headers, cell records of the eleven kinds and
    ignorable records, any framing widths, ended by BrtEndSheetData, whatever follows — is read as exactly the
    cells the items denote, in order -/
theorem sheet_data_roundtrip (ctx : Ctx) (data : List Framed) (endWide : Bool) (endLenW : Nat) (post : Bytes)
    (f row : Nat) (hok : ∀ d ∈ data, d.item.OK ctx) (hf : data.length < f) :
    readCells ctx f (encodeItems data ++ (frame 0x92 [] endWide endLenW ++ post)) row
      = .ok (specCells ctx (data.map (·.item)) row) :=
  readCells_data ctx endWide endLenW post data f row hok hf

/-! ## whole records lists -/

/-- a whole part: the framed records (every id and length width chosen per record) are read back as the same
    list of `(id, payload)` -/
theorem record_roundtrip (l : List Framed) (h : ∀ x ∈ l, x.Fits) :
    records (encodeItems l) = .ok (l.map fun x => (x.id, x.pay)) := by
  have := encodeItems_length_ge l
  exact recordsGo_enc l _ h (by omega)

/-! ## whole sheets -/

/-- inserting any record whose id the cell loop does not interpret (1- or 2-byte id, 1..4-byte length, any
    payload) anywhere in the sheet data — before a row header, between two cells of a row, before
    BrtEndSheetData — changes nothing: no neighbouring cell is shifted or dropped -/
theorem ignorable_records (ctx : Ctx) (pre1 pre2 : List Seg) (dims : Bytes) (dw : Bool) (dl : Nat) (bp : Bytes)
    (bw : Bool) (bl : Nat) (d1 d2 : List Framed) (ew : Bool) (el : Nat) (post : Bytes)
    (id : Nat) (p : Bytes) (wide : Bool) (lw : Nat)
    (h1 : ∀ s ∈ pre1, s.OK 0x0094 bounds1) (h2 : ∀ s ∈ pre2, s.OK 0x0091 bounds2)
    (hd : 16 ≤ dims.length ∧ dims.length < 268435456) (hb : bp.length < 268435456)
    (hok : ∀ d ∈ d1 ++ d2, d.item.OK ctx)
    (hid : id < 16384) (hni : interpretedId id = false) (hp : p.length < 268435456) :
    decodeSheet ctx (sheetBytes pre1 dims dw dl pre2 bp bw bl (d1 ++ ⟨.raw id p, wide, lw⟩ :: d2) ew el post)
      = decodeSheet ctx (sheetBytes pre1 dims dw dl pre2 bp bw bl (d1 ++ d2) ew el post) := by
  have hok' : ∀ d ∈ d1 ++ ⟨.raw id p, wide, lw⟩ :: d2, d.item.OK ctx := by
    intro d hd'
    rcases List.mem_append.mp hd' with h | h
    · exact hok d (List.mem_append_left _ h)
    · rcases List.mem_cons.mp h with rfl | h
      · exact ⟨hid, hni, hp⟩
      · exact hok d (List.mem_append_right _ h)
  rw [decodeSheet_enc ctx pre1 pre2 dims dw dl bp bw bl _ ew el post h1 h2 hd hb hok',
    decodeSheet_enc ctx pre1 pre2 dims dw dl bp bw bl _ ew el post h1 h2 hd hb hok]
  simp only [List.map_append, List.map_cons]
  rw [specCells_insert_raw]

/-- **C03, main theorem.** For every sheet part the encoder writes — any prologue (records and skipped blocks
    around a BrtWsDim of at least 16 bytes), sheet data made of row headers, cell records of all eleven kinds
    (constant or formula form) and ignorable records in any interleaving, every record framed with a 1- or 2-byte
    id and a 1..4-byte length, BrtEndSheetData, then anything — whose cells lie in rows < 2^20 and columns < 2^14
    (in ANY row order, since `from_sparse` takes min / max over all cells), the reader returns a range that
    * is empty iff the sheet has no value cell,
    * otherwise is exactly the bounding rectangle of the value cells (every cell inside, every side touched),
    * holds at every absolute position the value of the (last) cell record addressing it, `Empty` elsewhere;
      in particular, when no two cell records address the same position, every cell is read back at its position
      with its value, and every position no cell record addresses reads `Empty`. -/
theorem xlsb_sheet_roundtrip (ctx : Ctx) (pre1 pre2 : List Seg) (dims : Bytes) (dw : Bool) (dl : Nat) (bp : Bytes)
    (bw : Bool) (bl : Nat) (data : List Framed) (ew : Bool) (el : Nat) (post : Bytes)
    (h1 : ∀ s ∈ pre1, s.OK 0x0094 bounds1) (h2 : ∀ s ∈ pre2, s.OK 0x0091 bounds2)
    (hd : 16 ≤ dims.length ∧ dims.length < 268435456) (hb : bp.length < 268435456)
    (hok : ∀ d ∈ data, d.item.OK ctx)
    (hS : ∀ c ∈ specCells ctx (data.map (·.item)) 0, c.1 < 1048576 ∧ c.2.1 < 16384) :
    ∃ r, decodeSheet ctx (sheetBytes pre1 dims dw dl pre2 bp bw bl data ew el post) = .ok r ∧ Range.Inv r ∧
      (r.inner.length = 0 ↔ specCells ctx (data.map (·.item)) 0 = []) ∧
      (∀ c ∈ specCells ctx (data.map (·.item)) 0, r.sr ≤ c.1 ∧ c.1 ≤ r.er ∧ r.sc ≤ c.2.1 ∧ c.2.1 ≤ r.ec) ∧
      (specCells ctx (data.map (·.item)) 0 ≠ [] →
        (∃ c ∈ specCells ctx (data.map (·.item)) 0, c.1 = r.sr) ∧ (∃ c ∈ specCells ctx (data.map (·.item)) 0, c.1 = r.er) ∧
        (∃ c ∈ specCells ctx (data.map (·.item)) 0, c.2.1 = r.sc) ∧ (∃ c ∈ specCells ctx (data.map (·.item)) 0, c.2.1 = r.ec)) ∧
      (∀ p q, r.valAt p q = (Range.lastAt (specCells ctx (data.map (·.item)) 0) p q).getD Val.empty) ∧
      ((specCells ctx (data.map (·.item)) 0).Pairwise (fun a b => ¬ (a.1 = b.1 ∧ a.2.1 = b.2.1)) →
        ∀ c ∈ specCells ctx (data.map (·.item)) 0, r.valAt c.1 c.2.1 = c.2.2) ∧
      (∀ p q, (∀ c ∈ specCells ctx (data.map (·.item)) 0, ¬ (c.1 = p ∧ c.2.1 = q)) → r.valAt p q = Val.empty) := by
  rw [decodeSheet_enc ctx pre1 pre2 dims dw dl bp bw bl data ew el post h1 h2 hd hb hok]
  generalize specCells ctx (data.map (·.item)) 0 = S at hS ⊢
  have hpre : Range.sparsePre S :=
    ⟨fun c hc => by have := hS c hc; unfold Range.U32; omega,
     fun c hc c' hc' => by have := hS c hc; have := hS c' hc'; unfold Range.U32; omega⟩
  obtain ⟨r, hr⟩ := Range.fromSparse_of_pre S hpre
  obtain ⟨hinv, hemp⟩ := Range.inv_fromSparse S r hr
  have hval : ∀ p q, r.valAt p q = (Range.lastAt S p q).getD Val.empty := by
    by_cases hne : S = []
    · subst hne
      intro p q
      rw [Range.fromSparse_untouched [] r hr p q (fun c hc => nomatch hc)]
      rfl
    · exact (Range.fromSparse_spec_any S hne r hr).2.2.2.2.2.2
  refine ⟨r, hr, hinv, hemp, ?_, ?_, hval, valAt_of_lastAt_mem S r hval, valAt_of_lastAt_none S r hval⟩
  · by_cases hne : S = []
    · subst hne; exact fun c hc => nomatch hc
    · exact (Range.fromSparse_spec_any S hne r hr).2.1
  · intro hne
    obtain ⟨_, _, t1, t2, t3, t4, _⟩ := Range.fromSparse_spec_any S hne r hr
    exact ⟨t1, t2, t3, t4⟩

/-! ## totality: no hang, no panic (C06 for the xlsb sheet, string-table and record readers) -/

/-- **termination**: with the fuel the model gives itself (one unit per byte of the part, plus one) reading a
    worksheet part never runs out of fuel, whatever the bytes: every loop of `XlsbCellsReader::new` and of the
    cell loop consumes at least two bytes per iteration -/
theorem decodeSheet_total (ctx : Ctx) (bs : Bytes) : decodeSheet ctx bs ≠ .outOfFuel := by
  unfold decodeSheet
  have h := sheetCells_ne_fuel ctx bs
  cases hc : sheetCells ctx bs with
  | ok cells => exact fromSparse_ne_fuel _
  | err e => simp
  | panic s => simp
  | outOfFuel => exact absurd hc h

/-- **the sheet reader never panics** (after the `fix:` commits that turned the unchecked slices of
    `XlsbCellsReader::new`, `next_cell`, `wide_str` into errors): on every byte string, with every style table,
    string table and date system, reading the cells of a worksheet part ends in `Ok` or `Err` -/
theorem sheetCells_no_panic (ctx : Ctx) (bs : Bytes) (m : String) : sheetCells ctx bs ≠ .panic m :=
  sheetCells_ne_panic ctx bs m

theorem sheetCells_total (ctx : Ctx) (bs : Bytes) : sheetCells ctx bs ≠ .outOfFuel :=
  sheetCells_ne_fuel ctx bs

/-- `decodeSheet_no_panic`, the part that holds today: a panic of `worksheet_range_ref` on an xlsb sheet can only
    be the panic of `Range::from_sparse` on the cells that were read without any error — i.e. the recorded
    finding "from_sparse subtracts the first cell's row" (row headers out of order), which is dealt with in
    `lib.rs`, outside the xlsb reader. Missing for the full statement `∀ ctx bs m, decodeSheet ctx bs ≠ .panic m`:
    a `from_sparse` that does not panic on unsorted rows — available since fix D40, see
    `decodeSheet_no_panic_any_order` below; the only panic left in `Range.fromSparse` is the `u32` overflow of a
    span `+ 1`, so the full statement now needs a bound on the coordinates of the cells read. -/
theorem decodeSheet_no_panic_partial (ctx : Ctx) (bs : Bytes) (m : String) (h : decodeSheet ctx bs = .panic m) :
    ∃ cells, sheetCells ctx bs = .ok cells ∧ Range.fromSparse cells = .panic m := by
  unfold decodeSheet at h
  cases hc : sheetCells ctx bs with
  | ok cells => rw [hc] at h; exact ⟨cells, rfl, h⟩
  | err e => rw [hc] at h; cases h
  | panic s => exact absurd hc (sheetCells_ne_panic ctx bs s)
  | outOfFuel => rw [hc] at h; cases h

/-- … and since `Range::from_sparse` takes its row bounds as min / max over all cells (fix D40) the row order
    does not matter any more: whenever the cells read have `u32` coordinates whose row and column spans `+ 1`
    fit `u32` (`Range.sparsePre`; in any order) there is no panic. What is still missing for the unconditional
    `∀ ctx bs m, decodeSheet ctx bs ≠ .panic m` is that bound for the cells `sheetCells` returns (the remaining
    panic of `from_sparse` is the `u32` overflow of `col_end - col_start + 1` for columns 0 and 0xFFFFFFFF). -/
theorem decodeSheet_no_panic_any_order (ctx : Ctx) (bs : Bytes) (cells : List (Nat × Nat × Val))
    (hc : sheetCells ctx bs = .ok cells) (hb : Range.sparsePre cells) : ∃ r, decodeSheet ctx bs = .ok r := by
  unfold decodeSheet
  rw [hc]
  exact Range.fromSparse_of_pre cells hb

/-- every cell the sheet reader yields has a row of at most 0x100000 (`next_cell` ends the sheet at a larger
    BrtRowHdr) and a `u32` column -/
theorem sheetCells_coordinates (ctx : Ctx) (bs : Bytes) (cells : List (Nat × Nat × Val))
    (h : sheetCells ctx bs = .ok cells) : ∀ c ∈ cells, c.1 ≤ 0x100000 ∧ c.2.1 < 4294967296 :=
  sheetCells_bounds ctx bs cells h

/-- **Totality on hostile input, strongest statement that holds today.** On EVERY byte string, with every style
    table, string table and date system, `worksheet_range_ref` on an xlsb sheet ends in `Ok` or `Err` — no hang,
    no panic — under one remaining hypothesis: no two value cells read are `u32::MAX` columns apart.
    Which bytes can violate it: a cell record whose column field (payload bytes 0..4) is 0x00000000 together with
    one whose column field is 0xFFFFFFFF; then `col_end − col_start + 1` in `Range::from_sparse` overflows `u32`
    (panic with overflow checks, wrap to 0 without). Rows cannot violate it: a BrtRowHdr above 0x100000 ends the
    sheet (`sheetCells_coordinates`), so row spans are at most 0x100001. -/
theorem decodeSheet_total_hostile (ctx : Ctx) (bs : Bytes)
    (hcol : ∀ cells, sheetCells ctx bs = .ok cells →
      ∀ c ∈ cells, ∀ c' ∈ cells, c'.2.1 - c.2.1 + 1 < 4294967296) :
    (∃ r, decodeSheet ctx bs = .ok r) ∨ (∃ e, decodeSheet ctx bs = .err e) := by
  unfold decodeSheet
  cases hc : sheetCells ctx bs with
  | ok cells =>
    have hb := sheetCells_bounds ctx bs cells hc
    have hpre : Range.sparsePre cells :=
      ⟨fun c hm => by have := hb c hm; unfold Range.U32; omega,
       fun c hm c' hm' => ⟨by have := hb c hm; have := hb c' hm'; unfold Range.U32; omega,
                           by have := hcol cells hc c hm c' hm'; unfold Range.U32; omega⟩⟩
    exact Or.inl (Range.fromSparse_of_pre cells hpre)
  | err e => exact Or.inr ⟨e, rfl⟩
  | panic s => exact absurd hc (sheetCells_ne_panic ctx bs s)
  | outOfFuel => exact absurd hc (sheetCells_ne_fuel ctx bs)

/-- the record iterator never panics and never hangs, whatever the bytes -/
theorem records_no_panic (bs : Bytes) (m : String) : records bs ≠ .panic m :=
  recordsGo_ne_panic m _ bs

theorem records_total (bs : Bytes) : records bs ≠ .outOfFuel :=
  recordsGo_fuel _ bs (by omega)

/-- the shared-string reader never panics and never hangs, whatever the bytes -/
theorem readSharedStrings_no_panic (bs : Bytes) (m : String) : readSharedStrings bs ≠ .panic m :=
  readSharedStrings_ne_panic bs m

theorem readSharedStrings_total (bs : Bytes) : readSharedStrings bs ≠ .outOfFuel :=
  readSharedStrings_ne_fuel bs

/-- non-vacuity: a row header, an RK date cell, an ignorable record, a formula-error cell -/
example :
    let ctx : Ctx := { formats := [0, 1], strings := [[104, 105]], is1904 := false }
    let data : List Framed :=
      [⟨.row 1048575 [], false, 0⟩,
       ⟨.cell ⟨16383, 1, .rk 176790, none⟩, true, 3⟩,
       ⟨.raw 0x3FFF [1, 2, 3], false, 4⟩,
       ⟨.cell ⟨3, 0, .err 7, some [0, 0]⟩, false, 0⟩,
       ⟨.cell ⟨4, 0, .isst 0, none⟩, false, 2⟩]
    (∀ d ∈ data, d.item.OK ctx) ∧
    specCells ctx (data.map (·.item)) 0 =
      [(1048575, 16383, .dateTime (i2f 44197) false false), (1048575, 3, .error 7), (1048575, 4, .str [104, 105])] := by
  refine ⟨?_, ?_⟩
  · intro d hd
    simp only [List.mem_cons, List.not_mem_nil, or_false] at hd
    rcases hd with rfl | rfl | rfl | rfl | rfl
    · exact ⟨by decide, by decide⟩
    · exact ⟨⟨by decide, by simp [Content.WF]⟩, by decide, Or.inr (by simp [valueOf, styled, rkIntSpec])⟩
    · exact ⟨by decide, by decide, by decide⟩
    · exact ⟨⟨by decide, by simp [Content.WF]⟩, by decide, Or.inr (by simp [valueOf, (by decide : berrKind 7 = some CellErrorType.div0)])⟩
    · exact ⟨⟨by decide, by simp [Content.WF]⟩, by decide, Or.inr (by simp [valueOf])⟩
  · simp [specCells, valueOf, styled, rkIntSpec, (by decide : berrKind 7 = some CellErrorType.div0)]

/-- non-vacuity of the main theorem: a prologue with a skipped view block (containing a stray
    BrtBeginSheetData) and a BrtWsFmtInfo, two rows at the far corner of the grid, all hypotheses hold and the
    logical sheet has four cells -/
example :
    let ctx : Ctx := { formats := [0, 1], strings := [[104, 105]], is1904 := true }
    let pre1 : List Seg := [.one ⟨.raw 0x81 [], false, 0⟩, .one ⟨.raw 0x93 [1, 2, 3], true, 2⟩]
    let pre2 : List Seg :=
      [.block ⟨.raw 0x85 [], true, 2⟩ [⟨.raw 0x89 [0, 0], false, 0⟩, ⟨.raw 0x91 [], false, 0⟩] ⟨.raw 0x86 [], false, 0⟩,
       .one ⟨.raw 0x1E5 [1], false, 4⟩]
    let data : List Framed :=
      [⟨.row 1048574 [], false, 0⟩,
       ⟨.cell ⟨16383, 1, .rk 176790, none⟩, true, 3⟩,
       ⟨.raw 0x3FFF [1, 2, 3], false, 4⟩,
       ⟨.row 1048575 [0, 0], true, 1⟩,
       ⟨.cell ⟨3, 0, .err 7, some [0, 0]⟩, false, 0⟩,
       ⟨.cell ⟨4, 0, .isst 0, none⟩, false, 2⟩,
       ⟨.cell ⟨5, 0, .blank, none⟩, false, 0⟩,
       ⟨.cell ⟨16383, 7, .str [0xFEFF, 65], some [9]⟩, true, 4⟩]
    (∀ s ∈ pre1, s.OK 0x0094 bounds1) ∧ (∀ s ∈ pre2, s.OK 0x0091 bounds2) ∧ (∀ d ∈ data, d.item.OK ctx) ∧
    GridSorted (specCells ctx (data.map (·.item)) 0) ∧ (specCells ctx (data.map (·.item)) 0).length = 4 := by
  refine ⟨?_, ?_, ?_, ?_, ?_⟩
  · intro s hs
    simp only [List.mem_cons, List.not_mem_nil, or_false] at hs
    rcases hs with rfl | rfl <;> exact ⟨⟨by decide, by decide⟩, by decide, by decide⟩
  · intro s hs
    simp only [List.mem_cons, List.not_mem_nil, or_false] at hs
    rcases hs with rfl | rfl
    · refine ⟨⟨by decide, by decide⟩, by decide, by decide, ⟨by decide, by decide⟩, ?_⟩
      intro x hx
      simp only [List.mem_cons, List.not_mem_nil, or_false] at hx
      rcases hx with rfl | rfl <;> exact ⟨⟨by decide, by decide⟩, by decide⟩
    · exact ⟨⟨by decide, by decide⟩, by decide, by decide⟩
  · intro d hd
    simp only [List.mem_cons, List.not_mem_nil, or_false] at hd
    rcases hd with rfl | rfl | rfl | rfl | rfl | rfl | rfl | rfl
    · exact ⟨by decide, by decide⟩
    · exact ⟨⟨by decide, by simp [Content.WF]⟩, by decide, Or.inr (by simp [valueOf, styled, rkIntSpec])⟩
    · exact ⟨by decide, by decide, by decide⟩
    · exact ⟨by decide, by decide⟩
    · exact ⟨⟨by decide, by simp [Content.WF]⟩, by decide, Or.inr (by simp [valueOf, (by decide : berrKind 7 = some CellErrorType.div0)])⟩
    · exact ⟨⟨by decide, by simp [Content.WF]⟩, by decide, Or.inr (by simp [valueOf])⟩
    · exact ⟨⟨by decide, by simp [Content.WF]⟩, by decide, Or.inl rfl⟩
    · exact ⟨⟨by decide, by simp [Content.WF]⟩, by decide, Or.inr (by simp [valueOf])⟩
  · simp [GridSorted, specCells, valueOf, styled, rkIntSpec, (by decide : berrKind 7 = some CellErrorType.div0)]
  · simp [specCells, valueOf, styled, rkIntSpec, (by decide : berrKind 7 = some CellErrorType.div0)]

end Xlsb

/-! ## container: relationships part, the join in `read_workbook`, part lookup (`Model/XlsbBook.lean`)

    From "the cells of the part" to "the cells of the sheet named n". The zip archive is a list of (name, bytes)
    entries and the XML tokeniser delivers events (both trusted); everything between them and the part-level
    models is modelled. -/

namespace XlsbBook
open Meta MetaEnc

/-- `read_relationships` on a described part — relationship elements whose `Id` and `Target` attributes come in
    either order among any other attributes, elements with other names, end tags, text — returns the declared
    (id, target) pairs, a later one with the same id winning -/
theorem rels_roundtrip (items : List RelItem) (h : ∀ i ∈ items, i.OK) :
    Rels.readRels Rels.xlsbCfg (relEvents items) = .ok (declaredRels items []) :=
  readRelsGo_items items [] h

/-- the join compares bytes: looking the decoded BrtBundleSh relationship id up in the table the workbook model
    uses (ids as texts) is `relationships.get(relid.as_bytes())` — equality of the UTF-8 bytes of the id with the
    raw `Id` attribute bytes, for every spelling of the id (non-ASCII included) -/
theorem rels_join_is_byte_comparison (cs : List Char) (rels : List (Rels.B × Rels.B))
    (h : ∀ r ∈ rels, (∀ b ∈ r.1, b < 256) ∧ (Utf8.utf8Decode r.2).isSome) :
    (relsTable rels).lookup (cs.map Char.toNat) =
      (rels.lookup (Utf8.utf8Encode cs)).map (fun tg => String.ofList ((Utf8.utf8Decode tg).getD [])) :=
  relsTable_lookup cs rels h

/-- **the sheet named n is the part holding its cells.** A workbook description: a relationships part (any
    elements, extra relationships, repeated ids), a `workbook.bin` whose sheet list declares sheets with any
    relationship-id spelling and any `Target` under a known folder (C16's record encoder, any framing, any other
    records, any defined-name section), the parts of the archive. When every declared sheet's id resolves (last
    relationship with these id bytes) to its target and the archive holds the sheet's bytes under `xl/<Target>`,
    and sheet names are distinct, then `Xlsb::new` succeeds, lists the sheets in order with these paths, and
    `worksheet_range(name)` reads exactly the cells of that sheet's part, under the book's string table and date
    system. -/
theorem xlsb_sheet_resolution (pf : Bytes → List Text → List (Text × Text) → Res Text) (parts : Parts)
    (relItems : List RelItem) (hrel : ∀ i ∈ relItems, i.OK)
    (hbytes : ∀ r ∈ declaredRels relItems [], ∀ b ∈ r.1, b < 256)
    (items : List WItem) (hitems : ∀ it ∈ items, it.OK (declaredRels relItems []))
    (ew : Bool) (el : Nat) (nrecs : List NRec)
    (hok : namesOk pf ((declsOf items).map fun d => d.sheet.decoded (relsTable (declaredRels relItems []))) ([], []) nrecs)
    (t : Nat) (ht : isAfterNames t = true) (tw : Bool) (tl : Nat) (rest : Bytes)
    (hwb : partOf parts wbPath = some (encodeWorkbookBin (items.map WItem.toRec) ew el
      (nrecs.flatMap NRec.bytes ++ (Xlsb.frame t [] tw tl ++ rest))))
    (hparts : ∀ d ∈ declsOf items, partOf parts d.path = some d.cells)
    (hdist : (declsOf items).Pairwise (fun a b => a.name ≠ b.name))
    (strs : List (List Nat)) (hs : stringsOf parts = .ok strs) (formats : List Nat) :
    ∃ bk, openBook pf parts (some (relEvents relItems)) = .ok bk ∧ bk.strings = strs ∧
      bk.wb.is1904 = flagW (items.map WItem.toRec) ∧
      bk.wb.sheets.map (·.name) = (declsOf items).map SheetDecl.name ∧ bk.paths = (declsOf items).map SheetDecl.path ∧
      ∀ d ∈ declsOf items, sheetPart bk parts d.name = .ok d.cells ∧
        worksheetRange formats bk parts d.name
          = Xlsb.decodeSheet ⟨formats, strs, flagW (items.map WItem.toRec)⟩ d.cells := by
  have hr : ∀ r ∈ declaredRels relItems [], (∀ b ∈ r.1, b < 256) ∧ (Utf8.utf8Decode r.2).isSome :=
    fun r hm => ⟨hbytes r hm, declaredRels_targets relItems [] hrel (fun _ h => nomatch h) r hm⟩
  have hall : ∀ r ∈ items.map WItem.toRec, r.ok (relsTable (declaredRels relItems [])) := by
    intro r hm
    obtain ⟨it, hit, rfl⟩ := List.mem_map.mp hm
    exact toRec_ok _ hr it (hitems it hit)
  have hres : ∀ d ∈ declsOf items, d.resolves (declaredRels relItems []) := by
    intro d hd
    have : ∀ (l : List WItem), (∀ it ∈ l, it.OK (declaredRels relItems [])) → ∀ d ∈ declsOf l, d.resolves (declaredRels relItems []) := by
      intro l
      induction l with
      | nil => intro _ d hd; cases hd
      | cons x l ih =>
        intro hl d hd
        cases x with
        | sheet d' w l' =>
          simp only [declsOf] at hd
          rcases List.mem_cons.mp hd with rfl | hd'
          · exact (hl _ (List.mem_cons_self ..)).2.2.2.2.1
          · exact ih (fun y hy => hl y (List.mem_cons_of_mem _ hy)) d hd'
        | wbprop f w l' => exact ih (fun y hy => hl y (List.mem_cons_of_mem _ hy)) d (by simpa [declsOf] using hd)
        | other i p w l' => exact ih (fun y hy => hl y (List.mem_cons_of_mem _ hy)) d (by simpa [declsOf] using hd)
    exact this items hitems d hd
  have hdw := declaredW_recs items
  have hwork := readWorkbookXlsb_encoded pf (relsTable (declaredRels relItems [])) (items.map WItem.toRec) hall ew el nrecs
    (by rw [hdw, List.map_map]; exact hok) t ht tw tl rest
  refine ⟨⟨⟨(declaredW (items.map WItem.toRec)).map (fun s => (s.decoded (relsTable (declaredRels relItems []))).1),
      (nrecs.foldl (applyN pf ((declaredW (items.map WItem.toRec)).map (XlsbSheet.decoded (relsTable (declaredRels relItems []))))) ([], [])).2,
      flagW (items.map WItem.toRec)⟩,
    (declaredW (items.map WItem.toRec)).map (fun s => (s.decoded (relsTable (declaredRels relItems []))).2), strs⟩, ?_, rfl, rfl, ?_, ?_, ?_⟩
  · unfold openBook
    rw [hs, relsOf_items relItems hrel]
    simp only [hwb, hwork]
  · simp only [hdw, List.map_map]
    apply List.map_congr_left
    intro d hd
    exact (decl_decoded _ hr d (hres d hd)).2
  · simp only [hdw, List.map_map]
    apply List.map_congr_left
    intro d hd
    exact (decl_decoded _ hr d (hres d hd)).1
  · intro d hd
    have hfind := find_decl _ hr (declsOf items) hres hdist d hd
    have hsp : ∀ (nm : List (Text × Text)), sheetPart ⟨⟨(declaredW (items.map WItem.toRec)).map (fun s => (s.decoded (relsTable (declaredRels relItems []))).1), nm, flagW (items.map WItem.toRec)⟩,
        (declaredW (items.map WItem.toRec)).map (fun s => (s.decoded (relsTable (declaredRels relItems []))).2), strs⟩ parts d.name = .ok d.cells := by
      intro nm
      unfold sheetPart
      simp only [hdw, List.map_map]
      have : (List.map ((fun s => (XlsbSheet.decoded (relsTable (declaredRels relItems [])) s).fst) ∘ SheetDecl.sheet) (declsOf items)).zip
          (List.map ((fun s => (XlsbSheet.decoded (relsTable (declaredRels relItems [])) s).snd) ∘ SheetDecl.sheet) (declsOf items))
          = ((declsOf items).map fun x => (x.sheet.decoded (relsTable (declaredRels relItems []))).1).zip
            ((declsOf items).map fun x => (x.sheet.decoded (relsTable (declaredRels relItems []))).2) := rfl
      rw [this, hfind]
      simp only [hparts d hd]
    refine ⟨hsp _, ?_⟩
    unfold worksheetRange
    rw [hsp]


/-- `read_relationships` never panics and never hangs: on arbitrary events, in both configurations -/
theorem rels_total (cfg : Rels.Cfg) (evs : List Rels.Ev) :
    (∃ v, Rels.readRels cfg evs = .ok v) ∨ (∃ e, Rels.readRels cfg evs = .err e) :=
  readRelsGo_cases cfg evs []

/-- `read_workbook` (both loops, C16's model) on arbitrary bytes and an arbitrary relationship table: `Ok` or `Err`,
    given a formula decoder that is total -/
theorem read_workbook_total (pf : Bytes → List Text → List (Text × Text) → Res Text) (hpf : PfTotal pf)
    (rels : List (Text × String)) (bs : Bytes) :
    (∃ v, readWorkbookXlsb pf rels bs = .ok v) ∨ (∃ e, readWorkbookXlsb pf rels bs = .err e) :=
  readWorkbookXlsb_cases pf hpf rels bs

/-- `Xlsb::new` (without the style table) on an arbitrary archive and arbitrary relationship events: `Ok` or `Err` -/
theorem open_total (pf : Bytes → List Text → List (Text × Text) → Res Text) (hpf : PfTotal pf) (parts : Parts)
    (relsEvents : Option (List Rels.Ev)) :
    (∃ bk, openBook pf parts relsEvents = .ok bk) ∨ (∃ e, openBook pf parts relsEvents = .err e) :=
  openBook_cases pf hpf parts relsEvents

/-- resolving a sheet name to its part: `Ok`, `WorksheetNotFound` or `FileNotFound` -/
theorem sheet_part_total (bk : Book) (parts : Parts) (name : Text) :
    (∃ b, sheetPart bk parts name = .ok b) ∨ (∃ e, sheetPart bk parts name = .err e) :=
  sheetPart_cases bk parts name

/-- non-vacuity of `xlsb_sheet_resolution`: two sheets, a non-ASCII relationship id ("rIdé"), an absolute `Target`,
    a relationship element under a namespace prefix, the relationships in the other order with an extra
    relationship, a repeated id (the later one wins) and `Target` before `Id` -/
example :
    let d1 : SheetDecl := ⟨.visible, 1, [65], "rIdé".toList, "worksheets/sheet1.bin".toList, [1, 2, 3]⟩
    let d2 : SheetDecl := ⟨.hidden, 2, [66], "rId2".toList, "/xl/chartsheets/sheet2.bin".toList, [4, 5]⟩
    let relItems : List RelItem :=
      [.elem (Rels.nmRelationships) [],
       .rel ⟨Rels.nmRelationship, Utf8.utf8Encode "rId2".toList, Utf8.utf8Encode "worksheets/old.bin".toList, [], [], [], true⟩,
       .rel ⟨[112, 114, 58] ++ Rels.nmRelationship, Utf8.utf8Encode "rId2".toList, Utf8.utf8Encode "/xl/chartsheets/sheet2.bin".toList, [([84, 121, 112, 101], [120])], [], [], false⟩,
       .close Rels.nmRelationship,
       .rel ⟨Rels.nmRelationship, Utf8.utf8Encode "rId9".toList, Utf8.utf8Encode "styles.bin".toList, [], [], [], true⟩,
       .rel ⟨Rels.nmRelationship, Utf8.utf8Encode "rIdé".toList, Utf8.utf8Encode "worksheets/sheet1.bin".toList, [], [([84, 121, 112, 101], [120])], [], true⟩,
       .other]
    let items : List WItem := [.other 0x83 [] false 0, .sheet d1 false 0, .wbprop 1 true 3, .sheet d2 true 4]
    (∀ i ∈ relItems, i.OK) ∧ (∀ it ∈ items, it.OK (declaredRels relItems [])) ∧
    (declsOf items).Pairwise (fun a b => a.name ≠ b.name) ∧
    (declsOf items).map SheetDecl.path = ["xl/worksheets/sheet1.bin".toList, "xl/chartsheets/sheet2.bin".toList] := by
  refine ⟨?_, ?_, ?_, by decide⟩
  · intro i hi
    simp only [List.mem_cons, List.not_mem_nil, or_false] at hi
    rcases hi with rfl | rfl | rfl | rfl | rfl | rfl | rfl
    · show Rels.localName Rels.nmRelationships ≠ Rels.nmRelationship; decide
    · exact ⟨by decide, fun _ h => (nomatch h), fun _ h => (nomatch h), fun _ h => (nomatch h), by decide⟩
    · refine ⟨by decide, ?_, fun _ h => (nomatch h), fun _ h => (nomatch h), by decide⟩
      intro a ha; simp only [List.mem_cons, List.not_mem_nil, or_false] at ha; subst ha; exact ⟨by decide, by decide⟩
    · trivial
    · exact ⟨by decide, fun _ h => (nomatch h), fun _ h => (nomatch h), fun _ h => (nomatch h), by decide⟩
    · refine ⟨by decide, fun _ h => (nomatch h), ?_, fun _ h => (nomatch h), by decide⟩
      intro a ha; simp only [List.mem_cons, List.not_mem_nil, or_false] at ha; subst ha; exact ⟨by decide, by decide⟩
    · trivial
  · intro it hit
    simp only [List.mem_cons, List.not_mem_nil, or_false] at hit
    rcases hit with rfl | rfl | rfl | rfl
    · exact ⟨by decide, by decide, by decide, by decide, by decide⟩
    · exact ⟨by decide, by decide, by decide, by decide, by (unfold SheetDecl.resolves; decide), ⟨.workSheet, by decide⟩, by decide⟩
    · show (1 : Nat) < 4294967296; decide
    · exact ⟨by decide, by decide, by decide, by decide, by (unfold SheetDecl.resolves; decide), ⟨.chartSheet, by decide⟩, by decide⟩
  · simp [declsOf, SheetDecl.name]
    decide

end XlsbBook
