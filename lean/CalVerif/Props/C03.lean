import CalVerif.Lemmas.Xlsb
/-! # C03 — XLSB: every cell record reads back at its position with its value

    Property theorems only (helper lemmas: `Lemmas/Xlsb.lean`; model: `Model/Xlsb.lean`, `Model/Range.lean`;
    encoder and logical meaning of a sheet part: `Spec/XlsbEnc.lean`). -/

namespace Xlsb

/-! ## record framing -/

/-- every 14-bit record id, written in one byte (ids below 128) or in two bytes (any id, also the
    non-minimal two-byte form of a small id), is read back by `read_type`, and reading stops exactly behind it -/
theorem varint_id_roundtrip (t : Nat) (ht : t < 16384) (wide : Bool) (rest : Bytes) :
    readType (encId t wide ++ rest) = .ok (t, rest) :=
  readType_encId t ht wide rest

/-- every length below 2^28 in every width 1..4 that can hold it — non-minimal encodings included — is read
    back by the varint loop of `fill_buffer` -/
theorem varint_len_roundtrip (n w : Nat) (hw1 : 1 ≤ w) (hw4 : w ≤ 4) (hn : n < 2 ^ (7 * w)) (rest : Bytes) :
    readLen (encLenW w n ++ rest) = .ok (n, rest) :=
  readLen_encLenW n w hw1 hw4 hn rest

/-- one framed record (any id width, any length width) is read back as `(id, payload)` and the reader is
    positioned on the next record -/
theorem record_roundtrip1 (t : Nat) (ht : t < 16384) (p : Bytes) (hp : p.length < 268435456) (wide : Bool)
    (w : Nat) (rest : Bytes) : readRecord (frame t p wide w ++ rest) = .ok (t, p, rest) :=
  readRecord_frame t ht p hp wide w rest

/-! ## strings -/

/-- an XLWideString is read back unit by unit whatever follows it -/
theorem widestr_roundtrip (us : List Nat) (hl : us.length < 4294967296) (h : ∀ u ∈ us, u < 65536) (rest : Bytes) :
    wideStr (wideBytes us ++ rest) = .ok (us, 4 + us.length * 2) :=
  wideStr_wideBytes us hl h rest

/-! ## cell records -/

/-- each of the ten value records (BrtCellRk/Error/Bool/Real/St/Isst, BrtFmlaString/Num/Bool/Error) is read
    as its column and the value it stores: RK as in BIFF8 (integer or the high 30 bits of a double, optionally
    /100; date/time styles give `DateTime`), errors by code, booleans, doubles, inline strings by units, shared
    strings through the table -/
theorem cell_record_roundtrip (ctx : Ctx) (c : CellRec) (hwf : c.WF) (v : Val)
    (hv : valueOf ctx c.style c.content = some v) :
    interpret ctx c.recId c.payload = .value c.col v :=
  interpret_cell ctx c hwf v hv

/-- a formula record contributes exactly what the constant record of the same type contributes, whatever the
    formula bytes are -/
theorem fmla_equals_const (ctx : Ctx) (col style : Nat) (content : Content) (f : Bytes)
    (hwf : (CellRec.mk col style content none).WF) (v : Val) (hv : valueOf ctx style content = some v) :
    interpret ctx (CellRec.mk col style content (some f)).recId (CellRec.mk col style content (some f)).payload
      = interpret ctx (CellRec.mk col style content none).recId (CellRec.mk col style content none).payload := by
  rw [interpret_cell ctx ⟨col, style, content, some f⟩ hwf v hv, interpret_cell ctx ⟨col, style, content, none⟩ hwf v hv]

/-- a record whose id the cell loop does not interpret (any id but 0, 2..11 and 0x92; 1- or 2-byte id, 1..4-byte
    length), placed before ANY remaining byte stream, changes nothing: the loop continues behind it in the same row -/
theorem ignorable_record_step (ctx : Ctx) (id : Nat) (hid : id < 16384) (hni : interpretedId id = false)
    (p : Bytes) (hp : p.length < 268435456) (wide : Bool) (w : Nat) (rest : Bytes) (f row : Nat) :
    readCells ctx (f + 1) (frame id p wide w ++ rest) row = readCells ctx f rest row := by
  rw [readCells, readRecord_frame id hid p hp]
  simp only [interpret_skip ctx id p hni]

/-- the sheet data written by the encoder — any mix of row headers, cell records of the eleven kinds and
    ignorable records, any framing widths, ended by BrtEndSheetData, whatever follows — is read as exactly the
    cells the items denote, in order -/
theorem sheet_data_roundtrip (ctx : Ctx) (data : List Framed) (endWide : Bool) (endLenW : Nat) (post : Bytes)
    (f row : Nat) (hok : ∀ d ∈ data, d.item.OK ctx) (hf : data.length < f) :
    readCells ctx f (encodeItems data ++ (frame 0x92 [] endWide endLenW ++ post)) row
      = .ok (specCells ctx (data.map (·.item)) row) :=
  readCells_data ctx endWide endLenW post data f row hok hf

/-- non-vacuity: a row header, an RK date cell, an ignorable record, a formula-error cell -/
example :
    let ctx : Ctx := { formats := [0, 1], strings := [[104, 105]], is1904 := false }
    let data : List Framed :=
      [⟨.row 1048575 [], false, 0⟩,
       ⟨.cell ⟨16383, 1, .rk 176790, none⟩, true, 3⟩,
       ⟨.raw 0x3FFF [1, 2, 3], false, 4⟩,
       ⟨.cell ⟨3, 0, .err 7, some [0, 0]⟩, false, 0⟩,
       ⟨.cell ⟨4, 0, .isst 0, none⟩, false, 2⟩]
    (∀ d ∈ data, d.item.OK ctx) ∧
    specCells ctx (data.map (·.item)) 0 =
      [(1048575, 16383, .dateTime (i2f 44197) false false), (1048575, 3, .error 7), (1048575, 4, .str [104, 105])] := by
  refine ⟨?_, ?_⟩
  · intro d hd
    simp only [List.mem_cons, List.not_mem_nil, or_false] at hd
    rcases hd with rfl | rfl | rfl | rfl | rfl
    · exact ⟨by decide, by decide⟩
    · exact ⟨⟨by decide, by simp [Content.WF]⟩, by decide, Or.inr (by simp [valueOf, styled, rkIntSpec])⟩
    · exact ⟨by decide, by decide, by decide⟩
    · exact ⟨⟨by decide, by simp [Content.WF]⟩, by decide, Or.inr (by simp [valueOf, isErrCode])⟩
    · exact ⟨⟨by decide, by simp [Content.WF]⟩, by decide, Or.inr (by simp [valueOf])⟩
  · simp [specCells, valueOf, styled, rkIntSpec, isErrCode]

end Xlsb
