import CalVerif.Lemmas.BiffSheet
import CalVerif.Lemmas.BiffRange
import CalVerif.Lemmas.BiffFuel
import CalVerif.Lemmas.BiffFormulas
/-! C02 — XLS (BIFF8): every cell record reads back at its position with its value.

    Property theorems about the model `Model/Biff.lean` (namespace `BiffCells`) and the encoder
    `Spec/BiffEnc.lean`. Everything is parametric in the two float operations `FOps` (`v as f64`, `x / 100.0`),
    which are never reasoned about. Helper lemmas: `Lemmas/Biff*.lean`.

    * `rk_spec`, `rkInt_roundtrip`, `rkInt100_roundtrip`, `rkFloat_roundtrip` — RK numbers
    * `boolerr_bijective` (`parseErr_code/_inj/_other`), `boolerr_bool`, `boolerr_error`, `boolerr_other` — BOOLERR one-to-one
    * `mulrk_columns`, `mulrk_rejects`, `mulrk_no_panic`, `mulrk_run` — MULRK column arithmetic (after D31)
    * `parse_merge_cells_no_panic`, `parse_merge_cells_rejects` — MERGECELLS length checks (after b5774ce)
    * `record_framing_roundtrip` — `RecordIter` over framed records
    * `formula_cached_value` — the FormulaValue shapes, string results from the next STRING record
    * `number_encodings_equal`, `biff_encoding_independent` — NUMBER / RK / MULRK / FORMULA agree numerically
    * `sheetRange_total` — the model's loop budgets suffice on every input (no `outOfFuel`)
    * `biff_sheet_roundtrip` — the range of an encoded sheet is its bounding box with every value in place,
      for every layout (record choice, MULRK grouping, ignorable records) -/

namespace BiffCells
open Biff

/-! ### RK numbers -/

/-- `rk_num`'s bit manipulation (`rk[2] & 1`, `rk[2] & 2`, `v[4] &= 0xFC`, `read_i32 >> 2`, truncating `%` and `/`,
    the zero-extended double) computes the RkNumber of [MS-XLS] 2.5.217 — for every word, with no bound needed. -/
theorem rk_spec (ops : FOps) (w : Nat) : rkNum ops w = rkSpec ops w := rkNum_eq_rkSpec ops w

theorem encodeRkInt_lt (v : Int) (x : Bool) : encodeRkInt v x < 4294967296 := by
  unfold encodeRkInt; split <;> omega

theorem rkInt_roundtrip (ops : FOps) (v : Int) (h1 : -536870912 ≤ v) (h2 : v < 536870912) :
    rkNum ops (encodeRkInt v false) = .int v := by
  rw [rk_spec]
  unfold rkSpec encodeRkInt
  have e0 : ((v % 1073741824).toNat * 4 + 2 + if false = true then 1 else 0) = (v % 1073741824).toNat * 4 + 2 := by simp
  rw [e0]
  have e1 : ((v % 1073741824).toNat * 4 + 2) / 2 % 2 = 1 := by omega
  have e2 : ¬ ((v % 1073741824).toNat * 4 + 2) % 2 = 1 := by omega
  have e3 : ((v % 1073741824).toNat * 4 + 2) / 4 = (v % 1073741824).toNat := by omega
  simp only [e1, e2, e3, if_true, if_false]
  congr 1
  split <;> omega

theorem rkInt100_roundtrip (ops : FOps) (v : Int) (h1 : -536870912 ≤ v) (h2 : v < 536870912) :
    rkNum ops (encodeRkInt v true) =
      if v % 100 = 0 then .int (v / 100) else .float (ops.div100 (ops.i2f v)) := by
  rw [rk_spec]
  unfold rkSpec encodeRkInt
  have e0 : ((v % 1073741824).toNat * 4 + 2 + if true = true then 1 else 0) = (v % 1073741824).toNat * 4 + 3 := by simp
  rw [e0]
  have e1 : ((v % 1073741824).toNat * 4 + 3) / 2 % 2 = 1 := by omega
  have e2 : ((v % 1073741824).toNat * 4 + 3) % 2 = 1 := by omega
  have e3 : ((v % 1073741824).toNat * 4 + 3) / 4 = (v % 1073741824).toNat := by omega
  have e4 : (if (v % 1073741824).toNat < 536870912 then (((v % 1073741824).toNat : Nat) : Int)
      else (((v % 1073741824).toNat : Nat) : Int) - 1073741824) = v := by split <;> omega
  simp only [e1, e2, e3, if_true, e4]

theorem rkFloat_roundtrip (ops : FOps) (bits : Nat) (_h1 : bits < 18446744073709551616) (h2 : bits % 17179869184 = 0)
    (x100 : Bool) :
    rkNum ops (encodeRkFloat bits x100) = .float (if x100 then ops.div100 bits else bits) := by
  rw [rk_spec]
  unfold rkSpec encodeRkFloat
  cases x100
  · have e0 : (bits / 17179869184 * 4 + if false = true then 1 else 0) = bits / 17179869184 * 4 := by simp
    rw [e0]
    have e1 : ¬ (bits / 17179869184 * 4) / 2 % 2 = 1 := by omega
    have e2 : ¬ (bits / 17179869184 * 4) % 2 = 1 := by omega
    have e3 : (bits / 17179869184 * 4) / 4 * 17179869184 = bits := by omega
    simp only [e1, e2, if_false, e3, Bool.false_eq_true]
  · have e0 : (bits / 17179869184 * 4 + if true = true then 1 else 0) = bits / 17179869184 * 4 + 1 := by simp
    rw [e0]
    have e1 : ¬ (bits / 17179869184 * 4 + 1) / 2 % 2 = 1 := by omega
    have e2 : (bits / 17179869184 * 4 + 1) % 2 = 1 := by omega
    have e3 : (bits / 17179869184 * 4 + 1) / 4 * 17179869184 = bits := by omega
    simp only [e1, e2, if_false, if_true, e3]

/-! ### BOOLERR: error codes -/

theorem parseErr_code (k : ErrKind) : parseErr (errCode k) = .ok (.error k) := by
  cases k <;> rfl

theorem parseErr_inj (e : Nat) (k : ErrKind) (h : parseErr e = .ok (.error k)) : e = errCode k := by
  unfold parseErr at h
  repeat' split at h
  all_goals first | (injection h with h; injection h with h; subst h; simp_all [errCode]) | cases h

theorem parseErr_other (e : Nat) (h : ∀ k, e ≠ errCode k) : parseErr e = .err "Unrecognized:error" := by
  have h0 := h .null; have h1 := h .div0; have h2 := h .value; have h3 := h .ref
  have h4 := h .name; have h5 := h .num; have h6 := h .na; have h7 := h .gettingData
  simp only [errCode] at h0 h1 h2 h3 h4 h5 h6 h7
  simp [parseErr, h0, h1, h2, h3, h4, h5, h6, h7]



/-- the 8 error codes and the 8 error kinds correspond one-to-one: a code decodes to a kind exactly when it is
    that kind's code, distinct kinds have distinct codes, every other byte is rejected -/
theorem boolerr_bijective :
    (∀ e k, parseErr e = .ok (.error k) ↔ e = errCode k) ∧
    (∀ k k', errCode k = errCode k' → k = k') ∧
    (∀ e, (∀ k, e ≠ errCode k) → parseErr e = .err "Unrecognized:error") := by
  refine ⟨fun e k => ⟨parseErr_inj e k, fun h => by rw [h]; exact parseErr_code k⟩, ?_, parseErr_other⟩
  intro k k' h
  have h1 := parseErr_code k
  rw [h, parseErr_code k'] at h1
  injection h1 with h1; injection h1 with h1; exact h1.symm

/-- BOOLERR with `fError = 0`: a boolean -/
theorem boolerr_bool (row col xf : Nat) (b : Bool) (hr : row < 65536) (hc : col < 65536) (hx : xf < 65536) :
    parseBoolErr (le16 row ++ le16 col ++ le16 xf ++ [byte (if b then 1 else 0), byte 0]) =
      .ok (row, col, .bool b) := by
  obtain ⟨h0, h2, _, hl, _, hb⟩ := hdr_reads row col xf [byte (if b then 1 else 0), byte 0] hr hc hx
  have h6 := hb 0; have h7 := hb 1
  simp only [Nat.add_zero] at h6
  simp only [parseBoolErr, hl, h0, h2, h6, h7]
  cases b <;> simp [byteAt, byte_toNat]

/-- BOOLERR with `fError = 1`: each of the 8 error codes gives its error kind -/
theorem boolerr_error (row col xf : Nat) (k : ErrKind) (hr : row < 65536) (hc : col < 65536) (hx : xf < 65536) :
    parseBoolErr (le16 row ++ le16 col ++ le16 xf ++ [byte (errCode k), byte 1]) =
      .ok (row, col, .error k) := by
  obtain ⟨h0, h2, _, hl, _, hb⟩ := hdr_reads row col xf [byte (errCode k), byte 1] hr hc hx
  have h6 := hb 0; have h7 := hb 1
  simp only [Nat.add_zero] at h6
  have e6 : byteAt [byte (errCode k), byte 1] 0 = errCode k := by
    simp [byteAt, byte_toNat]; have := errCode_lt k; omega
  simp only [parseBoolErr, hl, h0, h2, h6, h7, e6]
  simp [byteAt, byte_toNat, parseErr_code]

/-- any other error code or `fError` value is an error, not a value -/
theorem boolerr_other (r : Bytes) (hl : 8 ≤ r.length)
    (h : (byteAt r 7 ≠ 0 ∧ byteAt r 7 ≠ 1) ∨ (byteAt r 7 = 1 ∧ ∀ k, byteAt r 6 ≠ errCode k)) :
    ∃ e, parseBoolErr r = .err e := by
  unfold parseBoolErr
  rw [if_neg (by omega)]
  rcases h with ⟨h0, h1⟩ | ⟨h1, hk⟩
  · exact ⟨"Unrecognized:fError", by simp [h0, h1]⟩
  · exact ⟨"Unrecognized:error", by simp [h1, parseErr_other _ hk]⟩

/-! ### MULRK -/

/-- a MULRK record the reader accepts names `last − first + 1` columns, holds exactly that many `(ixfe, rk)` pairs,
    and yields one cell per pair at `(row, first + i)` -/
theorem mulrk_columns (env : Env) (r : Bytes) (cs : List Cell) (h : parseMulRk env r = .ok cs) :
    u16At r 2 ≤ u16At r (r.length - 2) ∧
    r.length = 6 + 6 * (u16At r (r.length - 2) + 1 - u16At r 2) ∧
    cs.length = u16At r (r.length - 2) + 1 - u16At r 2 ∧
    ∀ i, i < cs.length → cs[i]? = some (u16At r 0, u16At r 2 + i, rkNumAt env r (4 + 6 * i)) := by
  unfold parseMulRk at h
  split at h
  · cases h
  · simp only at h
    split at h
    · cases h
    · next hcond =>
      injection h with h
      subst h
      have hlen := mulRkLoop_length env r (u16At r 0) (u16At r (r.length - 2) + 1 - u16At r 2) 4 (u16At r 2)
      refine ⟨by omega, by omega, hlen, ?_⟩
      intro i hi
      rw [hlen] at hi
      exact mulRkLoop_get env r (u16At r 0) _ 4 (u16At r 2) i hi

/-- (after D31) a last column before the first, or a length that disagrees with the column span, is a `Len` error -/
theorem mulrk_rejects (env : Env) (r : Bytes)
    (h : r.length < 6 ∨ u16At r (r.length - 2) < u16At r 2 ∨
      r.length ≠ 6 + 6 * (u16At r (r.length - 2) + 1 - u16At r 2)) :
    parseMulRk env r = .err "Len:rk" := by
  unfold parseMulRk
  by_cases h6 : r.length < 6
  · simp [h6]
  · rcases h with h | h | h
    · exact absurd h h6
    · simp [h6, h]
    · simp [h6, h]

/-- … and never a panic, whatever the bytes -/
theorem mulrk_no_panic (env : Env) (r : Bytes) (s : String) : parseMulRk env r ≠ .panic s := by
  unfold parseMulRk
  split
  · simp
  · simp only; split <;> simp

/-- (after the robustness fix b5774ce) `parse_merge_cells` answers `Ok` or `Len` on every payload: a record
    shorter than its count field or than the `2 + 8·count` bytes the count announces is an error, not a panic -/
theorem parse_merge_cells_no_panic (r : Bytes) (s : String) : parseMergeCells r ≠ .panic s := by
  unfold parseMergeCells
  split
  · simp
  · split <;> simp

theorem parse_merge_cells_rejects (r : Bytes) (h : r.length < 2 ∨ r.length < 2 + 8 * u16At r 0) :
    parseMergeCells r = .err "Len:merge cells" := by
  unfold parseMergeCells
  by_cases h2 : r.length < 2
  · simp [h2]
  · rcases h with h | h
    · exact absurd h h2
    · simp [h2, h]

/-- the MULRK record the encoder writes for a run of RK cells reads back as those cells, column by column -/
theorem mulrk_run (env : Env) (row c0 : Nat) (g : List PC) (hne : g ≠ []) (hr : row < 65536)
    (hc : c0 + g.length ≤ 65536) (hg : ∀ q ∈ g, q.xf < 65536 ∧ rkWord q < 4294967296) :
    parseMulRk env (mulRkData row c0 g) = .ok (runCells env row c0 g) :=
  parseMulRk_run env row c0 g hne hr hc hg

/-! ### framing -/

/-- `RecordIter` over `frame rs` yields exactly `rs`: for records with a 16-bit id other than CONTINUE, a
    payload that fits the 16-bit length field (BIFF8 allows ≤ 8224 bytes) and no CONTINUE chunks
    (CONTINUE gathering is C12's `frame_roundtrip`) -/
theorem record_framing_roundtrip (rs : List Rec) (h : ∀ r ∈ rs, plainRec r) :
    items (frame rs) = rs.map .record :=
  items_frame rs h

/-- whatever the bytes, the worksheet model terminates within its loop budgets: `RecordIter` consumes at least
    four bytes per record, the CONTINUE loop as well, nothing else loops -/
theorem sheetRange_total (env : Env) (s : Bytes) : sheetRange env s ≠ .outOfFuel := by
  unfold sheetRange withFormulaRange rangeOf decodeSheet
  have h := sheetLoop_ne_fuel env (items s) ⟨[], (0, 0)⟩ (items_fuel s)
  cases hc : sheetLoop env (items s) ⟨[], (0, 0)⟩ with
  | ok cs =>
    simp only
    have h1 := fromSparse_ne_fuel cs
    cases hr : Range.fromSparse cs with
    | ok r =>
      simp only
      have h2 := fromSparse_ne_fuel (formulaCells (items s))
      cases hf : (Range.fromSparse (formulaCells (items s)) : Res (Range.Rng Nat)) with
      | ok _ => simp
      | err e => simp
      | panic e => simp
      | outOfFuel => exact absurd hf h2
    | err e => simp
    | panic e => simp
    | outOfFuel => exact absurd hr h1
  | err e => simp
  | panic e => simp
  | outOfFuel => exact absurd hc h

/-! ### FORMULA -/

/-- the value a cached result stands for (a number is typed by the cell's XF like NUMBER / RK cells) -/
def cachedVal (env : Env) (xf : Nat) : Cached → Val
  | .num x => fmtF64 x env.fmts[xf]? env.is1904
  | .str _ s _ => .str s
  | .bool b => .bool b
  | .err k => .error k
  | .blank => .str []

/-- the FORMULA record (followed, for a string result, by ignorable records and the STRING record) puts exactly
    the cached value at the formula's cell: number, boolean, error, blank string from the FormulaValue field,
    a string from the STRING record that follows -/
theorem formula_cached_value (env : Env) (st : St) (p : PC) (c : Cached) (rgce : Bytes)
    (hp : p.phys = .formula c rgce) (hok : PCok env p) :
    ∃ f, runRecs env (physRecs p) st = .ok ⟨st.cells ++ [(p.row, p.col, cachedVal env p.xf c)], f⟩ := by
  obtain ⟨f, hf⟩ := runRecs_phys env st p hok
  refine ⟨f, ?_⟩
  rw [hf]
  simp only [pcCell, pcVal, hp]
  cases c <;> rfl

/-! ### the whole sheet -/

theorem biff_sheet_roundtrip (env : Env) (S : List LCell) (lays : List Lay)
    (hS : ∀ c ∈ S, cellOk c) (hsorted : S.Pairwise cellLt)
    (hfmt : ∀ l, (l ∈ lays ∨ l = default) → plainFmt env (l.xf % 65536)) :
    ∃ r, sheetRange env (substream env S lays) = .ok r ∧
      (S = [] → r.inner.length = 0) ∧
      (S ≠ [] → r.inner.length ≠ 0 ∧
        (∀ c ∈ S, r.sr ≤ c.row ∧ c.row ≤ r.er ∧ r.sc ≤ c.col ∧ c.col ≤ r.ec) ∧
        (∃ c ∈ S, c.row = r.sr) ∧ (∃ c ∈ S, c.row = r.er) ∧
        (∃ c ∈ S, c.col = r.sc) ∧ (∃ c ∈ S, c.col = r.ec)) ∧
      (∀ c ∈ S, numView env.ops (r.valAt c.row c.col) = c.val.toVal) ∧
      (∀ p q, (∀ c ∈ S, ¬ (c.row = p ∧ c.col = q)) → r.valAt p q = Val.empty) := by
  -- the planned cells and what the loop makes of them
  have hplan := plan_mem env S lays
  have hok : ∀ p ∈ plan env S lays, PCok env p := by
    intro p hp
    obtain ⟨c, hc, l, _, e⟩ := hplan p hp
    rw [e]; exact planCell_ok env c l (hS c hc)
  have hdec : decodeSheet env (items (substream env S lays)) = .ok ((plan env S lays).map (pcCell env)) :=
    decode_substream env (plan env S lays) hok
  have hpos : ((plan env S lays).map (pcCell env)).map (fun x => (x.1, x.2.1)) = S.map (fun c => (c.row, c.col)) := by
    rw [List.map_map, ← plan_pos env S lays]; rfl
  -- cells → S and back
  have toS : ∀ x ∈ (plan env S lays).map (pcCell env), ∃ c ∈ S, c.row = x.1 ∧ c.col = x.2.1 := by
    intro x hx
    have : (x.1, x.2.1) ∈ S.map (fun c => (c.row, c.col)) := by
      rw [← hpos]; exact List.mem_map.mpr ⟨x, hx, rfl⟩
    obtain ⟨c, hc, e⟩ := List.mem_map.mp this
    simp only [Prod.mk.injEq] at e
    exact ⟨c, hc, e.1, e.2⟩
  have ofS : ∀ c ∈ S, ∃ x ∈ (plan env S lays).map (pcCell env), x.1 = c.row ∧ x.2.1 = c.col ∧
      numView env.ops x.2.2 = c.val.toVal := by
    intro c hc
    have : (c.row, c.col) ∈ ((plan env S lays).map (pcCell env)).map (fun x => (x.1, x.2.1)) := by
      rw [hpos]; exact List.mem_map.mpr ⟨c, hc, rfl⟩
    obtain ⟨x, hx, e⟩ := List.mem_map.mp this
    simp only [Prod.mk.injEq] at e
    refine ⟨x, hx, e.1, e.2, ?_⟩
    obtain ⟨p, hp, rfl⟩ := List.mem_map.mp hx
    obtain ⟨c', hc', l, hl, rfl⟩ := hplan p hp
    have : c' = c := pairwise_inj S hsorted c' hc' c hc e.1 e.2
    subst this
    exact planCell_val env c' l (hfmt l hl)
  have hpw : ((plan env S lays).map (pcCell env)).Pairwise Range.posLt := by
    have h1 : (S.map (fun c => (c.row, c.col))).Pairwise
        (fun a b : Nat × Nat => a.1 < b.1 ∨ (a.1 = b.1 ∧ a.2 < b.2)) := by
      rw [List.pairwise_map]; exact hsorted
    rw [← hpos, List.pairwise_map] at h1
    exact h1
  have hb : ∀ x ∈ (plan env S lays).map (pcCell env), x.1 < 65536 ∧ x.2.1 < 256 := by
    intro x hx
    obtain ⟨p, hp, rfl⟩ := List.mem_map.mp hx
    exact ⟨(hok p hp).1, (hok p hp).2.1⟩
  obtain ⟨r, hr, hemp, hbox, hval, hout⟩ := Range.fromSparse_sorted _ hpw hb
  refine ⟨r, ?_, ?_, ?_, ?_, ?_⟩
  · obtain ⟨fr, hfr⟩ := formulaRange_ok env (plan env S lays) hok hpw
    have hfc : formulaCells (items (substream env S lays)) = ((plan env S lays).filter isFmla).map pos3 :=
      formulaCells_substream env (plan env S lays) hok
    simp only [sheetRange, hdec, rangeOf, hr, withFormulaRange, hfc, hfr]
  · intro hnil; apply hemp; rw [hnil]; simp [plan]
  · intro hne
    have hne' : (plan env S lays).map (pcCell env) ≠ [] := by
      intro h0
      have := congrArg List.length hpos
      rw [h0] at this; simp at this
      exact hne (List.eq_nil_of_length_eq_zero this.symm)
    obtain ⟨h0, h1, ⟨a, ha, ea⟩, ⟨b, hb', eb⟩, ⟨c, hc, ec⟩, ⟨d, hd, ed⟩⟩ := hbox hne'
    refine ⟨h0, ?_, ?_, ?_, ?_, ?_⟩
    · intro c hc
      obtain ⟨x, hx, e1, e2, _⟩ := ofS c hc
      have := h1 x hx
      rw [e1, e2] at this; exact this
    · obtain ⟨s, hs, e1, _⟩ := toS a ha; exact ⟨s, hs, by rw [e1, ea]⟩
    · obtain ⟨s, hs, e1, _⟩ := toS b hb'; exact ⟨s, hs, by rw [e1, eb]⟩
    · obtain ⟨s, hs, _, e2⟩ := toS c hc; exact ⟨s, hs, by rw [e2, ec]⟩
    · obtain ⟨s, hs, _, e2⟩ := toS d hd; exact ⟨s, hs, by rw [e2, ed]⟩
  · intro c hc
    obtain ⟨x, hx, e1, e2, e3⟩ := ofS c hc
    rw [← e1, ← e2, hval x hx]; exact e3
  · intro p q hno
    apply hout
    intro x hx ⟨e1, e2⟩
    obtain ⟨s, hs, f1, f2⟩ := toS x hx
    exact hno s hs ⟨by rw [f1, e1], by rw [f2, e2]⟩


/-- an empty sheet (BOF, ignorable records, EOF) reads as the empty range -/
theorem biff_sheet_empty (env : Env) (lays : List Lay) :
    sheetRange env (substream env [] lays) = .ok Range.empty := by
  have hdec : decodeSheet env (items (substream env [] lays)) = .ok (([] : List PC).map (pcCell env)) :=
    decode_substream env [] (by simp)
  have hfc : formulaCells (items (substream env [] lays)) = (([] : List PC).filter isFmla).map pos3 :=
    formulaCells_substream env [] (by simp)
  simp only [sheetRange, hdec, rangeOf, List.map_nil, Range.fromSparse, withFormulaRange, hfc, List.filter_nil]

/-- the same number stored as NUMBER, as any RK word that denotes it (integer, float, ×100 variants), inside a
    MULRK run or as a cached FORMULA value reads as a numerically equal value at the same cell -/
theorem number_encodings_equal (env : Env) (c : LCell) (x : Nat) (l1 l2 : Lay) (hv : c.val = .num x)
    (h1 : plainFmt env (l1.xf % 65536)) (h2 : plainFmt env (l2.xf % 65536)) :
    pcCell env (planCell env c l1) = (c.row, c.col, pcVal env (planCell env c l1)) ∧
    pcCell env (planCell env c l2) = (c.row, c.col, pcVal env (planCell env c l2)) ∧
    numView env.ops (pcVal env (planCell env c l1)) = .float x ∧
    numView env.ops (pcVal env (planCell env c l2)) = .float x := by
  refine ⟨rfl, rfl, ?_, ?_⟩
  · rw [planCell_val env c l1 h1, hv]; rfl
  · rw [planCell_val env c l2 h2, hv]; rfl

/-- two layouts of the same sheet (any record choices, MULRK grouping, ignorable records) give ranges with the same
    bounds and numerically equal values at every position -/
theorem biff_encoding_independent (env : Env) (S : List LCell) (lays1 lays2 : List Lay)
    (hS : ∀ c ∈ S, cellOk c) (hsorted : S.Pairwise cellLt)
    (hf1 : ∀ l, (l ∈ lays1 ∨ l = default) → plainFmt env (l.xf % 65536))
    (hf2 : ∀ l, (l ∈ lays2 ∨ l = default) → plainFmt env (l.xf % 65536)) :
    ∃ r1 r2, sheetRange env (substream env S lays1) = .ok r1 ∧ sheetRange env (substream env S lays2) = .ok r2 ∧
      (r1.inner.length = 0 ↔ r2.inner.length = 0) ∧
      (S ≠ [] → r1.sr = r2.sr ∧ r1.er = r2.er ∧ r1.sc = r2.sc ∧ r1.ec = r2.ec) ∧
      ∀ p q, numView env.ops (r1.valAt p q) = numView env.ops (r2.valAt p q) := by
  obtain ⟨r1, e1, z1, n1, v1, o1⟩ := biff_sheet_roundtrip env S lays1 hS hsorted hf1
  obtain ⟨r2, e2, z2, n2, v2, o2⟩ := biff_sheet_roundtrip env S lays2 hS hsorted hf2
  refine ⟨r1, r2, e1, e2, ?_, ?_, ?_⟩
  · by_cases hS0 : S = []
    · simp [z1 hS0, z2 hS0]
    · have a := (n1 hS0).1; have b := (n2 hS0).1
      simp [a, b]
  · intro hne
    obtain ⟨_, b1, ⟨a1, ha1, ea1⟩, ⟨c1, hc1, ec1⟩, ⟨d1, hd1, ed1⟩, ⟨f1, hf1', ef1⟩⟩ := n1 hne
    obtain ⟨_, b2, ⟨a2, ha2, ea2⟩, ⟨c2, hc2, ec2⟩, ⟨d2, hd2, ed2⟩, ⟨f2, hf2', ef2⟩⟩ := n2 hne
    have := b1 a2 ha2; have := b2 a1 ha1; have := b1 c2 hc2; have := b2 c1 hc1
    have := b1 d2 hd2; have := b2 d1 hd1; have := b1 f2 hf2'; have := b2 f1 hf1'
    refine ⟨?_, ?_, ?_, ?_⟩ <;> omega
  · intro p q
    by_cases h : ∃ c ∈ S, c.row = p ∧ c.col = q
    · obtain ⟨c, hc, rfl, rfl⟩ := h
      rw [v1 c hc, v2 c hc]
    · have hno : ∀ c ∈ S, ¬ (c.row = p ∧ c.col = q) := fun c hc hpq => h ⟨c, hc, hpq⟩
      rw [o1 p q hno, o2 p q hno]

/-- non-vacuity: −5 as an RK integer (the word 0xFFFFFFEE), 12.34 as 1234 with fX100, 1.5 as an RK float -/
example (ops : FOps) : rkNum ops 0xFFFFFFEE = .int (-5) ∧ encodeRkInt (-5) false = 0xFFFFFFEE
    ∧ rkNum ops (encodeRkInt 1234 true) = .float (ops.div100 (ops.i2f 1234))
    ∧ rkNum ops (encodeRkInt 1200 true) = .int 12
    ∧ rkNum ops (encodeRkFloat 0x3FF8000000000000 false) = .float 0x3FF8000000000000 := by
  refine ⟨?_, by decide, ?_, ?_, ?_⟩
  · have := rkInt_roundtrip ops (-5) (by decide) (by decide)
    simpa [encodeRkInt] using this
  · simpa using rkInt100_roundtrip ops 1234 (by decide) (by decide)
  · simpa using rkInt100_roundtrip ops 1200 (by decide) (by decide)
  · simpa using rkFloat_roundtrip ops 0x3FF8000000000000 (by decide) (by decide) false


/-- non-vacuity of `biff_sheet_roundtrip`: a sheet with a number (stored as the RK integer 5 inside a MULRK run),
    its neighbour, a shared string, an error and a formula string meets every hypothesis -/
example (ops : FOps) (h5 : ops.i2f 5 = 0x4014000000000000) :
    let env : Env := { ops := ops, fmts := [.other, .dateTime], is1904 := false, strings := [[0x61, 0x62]] }
    let S : List LCell := [⟨0, 1, .num 0x4014000000000000⟩, ⟨0, 2, .num 0x4014000000000000⟩,
      ⟨3, 0, .str [0x61, 0x62]⟩, ⟨65535, 255, .err .na⟩]
    let lays : List Lay := [{ enc := .num (.rk 22) }, { enc := .num (.rk 22), join := true },
      { enc := .labelSst 0, before := [⟨0x0201, [0, 0, 0, 0, 0, 0], []⟩] }, { enc := .formula [0x1E, 1, 0] false [] false }]
    (∀ c ∈ S, cellOk c) ∧ S.Pairwise cellLt ∧ (∀ l, (l ∈ lays ∨ l = default) → plainFmt env (l.xf % 65536)) ∧
    choose env (.num 0x4014000000000000) (.num (.rk 22)) = .rk 22 := by
  intro env S lays
  refine ⟨?_, ?_, ?_, ?_⟩
  · intro c hc
    simp only [S, List.mem_cons, List.not_mem_nil, or_false] at hc
    rcases hc with rfl | rfl | rfl | rfl <;>
      simp [cellOk, lvalOk, textOk, validText, toUnits]
  · simp [S, cellLt]
  · intro l hl
    have : l.xf = 0 := by
      rcases hl with hl | hl
      · simp only [lays, List.mem_cons, List.not_mem_nil, or_false] at hl
        rcases hl with rfl | rfl | rfl | rfl <;> rfl
      · rw [hl]; rfl
    rw [this]; right; rfl
  · simp [choose, rkSpec, numBits, env, h5]

end BiffCells
