import CalVerif.Lemmas.Biff
/-! C02 — XLS (BIFF8): every cell record reads back at its position with its value.
    Property theorems about the model `Model/Biff.lean` (namespace `BiffCells`), parametric in the two float
    operations `FOps` (`v as f64`, `x / 100.0`), which are never reasoned about. -/

namespace BiffCells
open Biff

/-! ### RK numbers -/

/-- `rk_num`'s bit manipulation (`rk[2] & 1`, `rk[2] & 2`, `v[4] &= 0xFC`, `read_i32 >> 2`, truncating `%` and `/`,
    the zero-extended double) computes the RkNumber of [MS-XLS] 2.5.217 — for every word, with no bound needed. -/
theorem rk_spec (ops : FOps) (w : Nat) : rkNum ops w = rkSpec ops w := rkNum_eq_rkSpec ops w

theorem encodeRkInt_lt (v : Int) (x : Bool) : encodeRkInt v x < 4294967296 := by
  unfold encodeRkInt; split <;> omega

theorem rkInt_roundtrip (ops : FOps) (v : Int) (h1 : -536870912 ≤ v) (h2 : v < 536870912) :
    rkNum ops (encodeRkInt v false) = .int v := by
  rw [rk_spec]
  unfold rkSpec encodeRkInt
  have e0 : ((v % 1073741824).toNat * 4 + 2 + if false = true then 1 else 0) = (v % 1073741824).toNat * 4 + 2 := by simp
  rw [e0]
  have e1 : ((v % 1073741824).toNat * 4 + 2) / 2 % 2 = 1 := by omega
  have e2 : ¬ ((v % 1073741824).toNat * 4 + 2) % 2 = 1 := by omega
  have e3 : ((v % 1073741824).toNat * 4 + 2) / 4 = (v % 1073741824).toNat := by omega
  simp only [e1, e2, e3, if_true, if_false]
  congr 1
  split <;> omega

theorem rkInt100_roundtrip (ops : FOps) (v : Int) (h1 : -536870912 ≤ v) (h2 : v < 536870912) :
    rkNum ops (encodeRkInt v true) =
      if v % 100 = 0 then .int (v / 100) else .float (ops.div100 (ops.i2f v)) := by
  rw [rk_spec]
  unfold rkSpec encodeRkInt
  have e0 : ((v % 1073741824).toNat * 4 + 2 + if true = true then 1 else 0) = (v % 1073741824).toNat * 4 + 3 := by simp
  rw [e0]
  have e1 : ((v % 1073741824).toNat * 4 + 3) / 2 % 2 = 1 := by omega
  have e2 : ((v % 1073741824).toNat * 4 + 3) % 2 = 1 := by omega
  have e3 : ((v % 1073741824).toNat * 4 + 3) / 4 = (v % 1073741824).toNat := by omega
  have e4 : (if (v % 1073741824).toNat < 536870912 then (((v % 1073741824).toNat : Nat) : Int)
      else (((v % 1073741824).toNat : Nat) : Int) - 1073741824) = v := by split <;> omega
  simp only [e1, e2, e3, if_true, e4]

theorem rkFloat_roundtrip (ops : FOps) (bits : Nat) (_h1 : bits < 18446744073709551616) (h2 : bits % 17179869184 = 0)
    (x100 : Bool) :
    rkNum ops (encodeRkFloat bits x100) = .float (if x100 then ops.div100 bits else bits) := by
  rw [rk_spec]
  unfold rkSpec encodeRkFloat
  cases x100
  · have e0 : (bits / 17179869184 * 4 + if false = true then 1 else 0) = bits / 17179869184 * 4 := by simp
    rw [e0]
    have e1 : ¬ (bits / 17179869184 * 4) / 2 % 2 = 1 := by omega
    have e2 : ¬ (bits / 17179869184 * 4) % 2 = 1 := by omega
    have e3 : (bits / 17179869184 * 4) / 4 * 17179869184 = bits := by omega
    simp only [e1, e2, if_false, e3, Bool.false_eq_true]
  · have e0 : (bits / 17179869184 * 4 + if true = true then 1 else 0) = bits / 17179869184 * 4 + 1 := by simp
    rw [e0]
    have e1 : ¬ (bits / 17179869184 * 4 + 1) / 2 % 2 = 1 := by omega
    have e2 : (bits / 17179869184 * 4 + 1) % 2 = 1 := by omega
    have e3 : (bits / 17179869184 * 4 + 1) / 4 * 17179869184 = bits := by omega
    simp only [e1, e2, if_false, if_true, e3]

/-! ### BOOLERR: error codes -/

theorem parseErr_code (k : ErrKind) : parseErr (errCode k) = .ok (.error k) := by
  cases k <;> rfl

theorem parseErr_inj (e : Nat) (k : ErrKind) (h : parseErr e = .ok (.error k)) : e = errCode k := by
  unfold parseErr at h
  repeat' split at h
  all_goals first | (injection h with h; injection h with h; subst h; simp_all [errCode]) | cases h

theorem parseErr_other (e : Nat) (h : ∀ k, e ≠ errCode k) : parseErr e = .err "Unrecognized:error" := by
  have h0 := h .null; have h1 := h .div0; have h2 := h .value; have h3 := h .ref
  have h4 := h .name; have h5 := h .num; have h6 := h .na; have h7 := h .gettingData
  simp only [errCode] at h0 h1 h2 h3 h4 h5 h6 h7
  simp [parseErr, h0, h1, h2, h3, h4, h5, h6, h7]


/-- non-vacuity: −5 as an RK integer (the word 0xFFFFFFEE), 12.34 as 1234 with fX100, 1.5 as an RK float -/
example (ops : FOps) : rkNum ops 0xFFFFFFEE = .int (-5) ∧ encodeRkInt (-5) false = 0xFFFFFFEE
    ∧ rkNum ops (encodeRkInt 1234 true) = .float (ops.div100 (ops.i2f 1234))
    ∧ rkNum ops (encodeRkInt 1200 true) = .int 12
    ∧ rkNum ops (encodeRkFloat 0x3FF8000000000000 false) = .float 0x3FF8000000000000 := by
  refine ⟨?_, by decide, ?_, ?_, ?_⟩
  · have := rkInt_roundtrip ops (-5) (by decide) (by decide)
    simpa [encodeRkInt] using this
  · simpa using rkInt100_roundtrip ops 1234 (by decide) (by decide)
  · simpa using rkInt100_roundtrip ops 1200 (by decide) (by decide)
  · simpa using rkFloat_roundtrip ops 0x3FF8000000000000 (by decide) (by decide) false

end BiffCells
