import CalVerif.Lemmas.BiffSheet
import CalVerif.Lemmas.BiffRange
import CalVerif.Lemmas.BiffFuel
import CalVerif.Lemmas.BiffFormulas
import CalVerif.Lemmas.BiffScan
/-! C02 — XLS (BIFF8): every cell record reads back at its position with its value.

    Property theorems about the model `Model/Biff.lean` (namespace `BiffCells`) and the encoder
    `Spec/BiffEnc.lean`. `v as f64` is `De.intToF64` (exact, Model/De.lean); the one float operation that is NOT
    modelled is `x / 100.0` (`FOps.div100`, IEEE division): every theorem is parametric in it. Number formats are
    C10's `CellFormat` (`env.fmts` = the table `Formats.xlsStyles` builds from the FORMAT / XF records).
    Helper lemmas: `Lemmas/Biff*.lean`.

    * `rk_spec`, `rkInt_roundtrip`, `rkInt100_roundtrip`, `rkFloat_roundtrip` — RK numbers
    * `fmtF64_formatF64`, `fmtI64_formatI64` — the wrap decision of the sheet loop is C10's `formatF64/formatI64`
    * `boolerr_bijective` (`parseErr_code/_inj/_other`), `boolerr_bool`, `boolerr_error`, `boolerr_other` — BOOLERR one-to-one
    * `mulrk_columns`, `mulrk_rejects`, `mulrk_no_panic`, `mulrk_run` — MULRK column arithmetic (after D31)
    * `parse_merge_cells_no_panic`, `parse_merge_cells_rejects` — MERGECELLS length checks (after b5774ce)
      (a `_no_panic` theorem says the MODEL has no panic branch there; that the code has none either is what the
      outcome-class correspondence of the harness checks)
    * `record_framing_roundtrip` — `RecordIter` over framed records
    * `formula_cached_value` — the FormulaValue shapes, string results from the next STRING record
    * `xls_workbook_encoded`, `xls_single_sheet_exact`, `xls_sheet_loop_work_linear` — the workbook-wide scan counter of
      the sheet loop (fix edc415f): never reached on an encoded workbook (any physical order of the substreams) nor by
      a single sheet; on arbitrary bytes the loop bodies over all sheets are linear in the stream
    * `sheetRange_total` — the model's per-loop budgets (`RecordIter`, CONTINUE gathering) suffice on every input
    * `biff_sheet_roundtrip` — the range of an encoded sheet is its bounding box and the value at every cell is
      `expectVal` (the specification's reading of the cell under its layout entry), for every layout (record choice,
      MULRK grouping, ignorable records) and every XF table
    * `expectVal_rkInt/_rkFloat/_number`, `biff_sheet_rk_int` — Int versus Float is observable: an integer RK reads
      `Int`, NUMBER / RK-float / FORMULA read `Float`
    * `expectVal_date_typing`, `biff_sheet_date_typing` — a numeric cell reads `DateTime(serial, kind, is1904)` exactly
      when its XF's format is DateTime / TimeDelta (kind = duration iff TimeDelta), serial and date system unchanged
    * `number_encodings_equal`, `biff_encoding_independent` — through `sheetRange`: NUMBER / RK / MULRK / FORMULA
      encodings of a number read as numerically equal values at the same cell -/

namespace BiffCells
open Biff

/-! ### RK numbers -/

/-- `rk_num`'s bit manipulation (`rk[2] & 1`, `rk[2] & 2`, `v[4] &= 0xFC`, `read_i32 >> 2`, truncating `%` and `/`,
    the zero-extended double) computes the RkNumber of [MS-XLS] 2.5.217 — for every word, with no bound needed. -/
theorem rk_spec (ops : FOps) (w : Nat) : rkNum ops w = rkSpec ops w := rkNum_eq_rkSpec ops w

theorem encodeRkInt_lt (v : Int) (x : Bool) : encodeRkInt v x < 4294967296 := by
  unfold encodeRkInt; split <;> omega

theorem rkInt_roundtrip (ops : FOps) (v : Int) (h1 : -536870912 ≤ v) (h2 : v < 536870912) :
    rkNum ops (encodeRkInt v false) = .int v := by
  rw [rk_spec]
  unfold rkSpec encodeRkInt
  have e0 : ((v % 1073741824).toNat * 4 + 2 + if false = true then 1 else 0) = (v % 1073741824).toNat * 4 + 2 := by simp
  rw [e0]
  have e1 : ((v % 1073741824).toNat * 4 + 2) / 2 % 2 = 1 := by omega
  have e2 : ¬ ((v % 1073741824).toNat * 4 + 2) % 2 = 1 := by omega
  have e3 : ((v % 1073741824).toNat * 4 + 2) / 4 = (v % 1073741824).toNat := by omega
  simp only [e1, e2, e3, if_true, if_false]
  congr 1
  split <;> omega

theorem rkInt100_roundtrip (ops : FOps) (v : Int) (h1 : -536870912 ≤ v) (h2 : v < 536870912) :
    rkNum ops (encodeRkInt v true) =
      if v % 100 = 0 then .int (v / 100) else .float (ops.div100 (i2f v)) := by
  rw [rk_spec]
  unfold rkSpec encodeRkInt
  have e0 : ((v % 1073741824).toNat * 4 + 2 + if true = true then 1 else 0) = (v % 1073741824).toNat * 4 + 3 := by simp
  rw [e0]
  have e1 : ((v % 1073741824).toNat * 4 + 3) / 2 % 2 = 1 := by omega
  have e2 : ((v % 1073741824).toNat * 4 + 3) % 2 = 1 := by omega
  have e3 : ((v % 1073741824).toNat * 4 + 3) / 4 = (v % 1073741824).toNat := by omega
  have e4 : (if (v % 1073741824).toNat < 536870912 then (((v % 1073741824).toNat : Nat) : Int)
      else (((v % 1073741824).toNat : Nat) : Int) - 1073741824) = v := by split <;> omega
  simp only [e1, e2, e3, if_true, e4]

theorem rkFloat_roundtrip (ops : FOps) (bits : Nat) (_h1 : bits < 18446744073709551616) (h2 : bits % 17179869184 = 0)
    (x100 : Bool) :
    rkNum ops (encodeRkFloat bits x100) = .float (if x100 then ops.div100 bits else bits) := by
  rw [rk_spec]
  unfold rkSpec encodeRkFloat
  cases x100
  · have e0 : (bits / 17179869184 * 4 + if false = true then 1 else 0) = bits / 17179869184 * 4 := by simp
    rw [e0]
    have e1 : ¬ (bits / 17179869184 * 4) / 2 % 2 = 1 := by omega
    have e2 : ¬ (bits / 17179869184 * 4) % 2 = 1 := by omega
    have e3 : (bits / 17179869184 * 4) / 4 * 17179869184 = bits := by omega
    simp only [e1, e2, if_false, e3, Bool.false_eq_true]
  · have e0 : (bits / 17179869184 * 4 + if true = true then 1 else 0) = bits / 17179869184 * 4 + 1 := by simp
    rw [e0]
    have e1 : ¬ (bits / 17179869184 * 4 + 1) / 2 % 2 = 1 := by omega
    have e2 : (bits / 17179869184 * 4 + 1) % 2 = 1 := by omega
    have e3 : (bits / 17179869184 * 4 + 1) / 4 * 17179869184 = bits := by omega
    simp only [e1, e2, if_false, if_true, e3]

/-! ### BOOLERR: error codes -/

theorem parseErr_code (k : ErrKind) : parseErr (errCode k) = .ok (.error k) := by
  cases k <;> rfl

theorem parseErr_inj (e : Nat) (k : ErrKind) (h : parseErr e = .ok (.error k)) : e = errCode k := by
  unfold parseErr at h
  repeat' split at h
  all_goals first | (injection h with h; injection h with h; subst h; simp_all [errCode]) | cases h

theorem parseErr_other (e : Nat) (h : ∀ k, e ≠ errCode k) : parseErr e = .err "Unrecognized:error" := by
  have h0 := h .null; have h1 := h .div0; have h2 := h .value; have h3 := h .ref
  have h4 := h .name; have h5 := h .num; have h6 := h .na; have h7 := h .gettingData
  simp only [errCode] at h0 h1 h2 h3 h4 h5 h6 h7
  simp [parseErr, h0, h1, h2, h3, h4, h5, h6, h7]



/-- the 8 error codes and the 8 error kinds correspond one-to-one: a code decodes to a kind exactly when it is
    that kind's code, distinct kinds have distinct codes, every other byte is rejected -/
theorem boolerr_bijective :
    (∀ e k, parseErr e = .ok (.error k) ↔ e = errCode k) ∧
    (∀ k k', errCode k = errCode k' → k = k') ∧
    (∀ e, (∀ k, e ≠ errCode k) → parseErr e = .err "Unrecognized:error") := by
  refine ⟨fun e k => ⟨parseErr_inj e k, fun h => by rw [h]; exact parseErr_code k⟩, ?_, parseErr_other⟩
  intro k k' h
  have h1 := parseErr_code k
  rw [h, parseErr_code k'] at h1
  injection h1 with h1; injection h1 with h1; exact h1.symm

/-- BOOLERR with `fError = 0`: a boolean -/
theorem boolerr_bool (row col xf : Nat) (b : Bool) (hr : row < 65536) (hc : col < 65536) (hx : xf < 65536) :
    parseBoolErr (le16 row ++ le16 col ++ le16 xf ++ [byte (if b then 1 else 0), byte 0]) =
      .ok (row, col, .bool b) := by
  obtain ⟨h0, h2, _, hl, _, hb⟩ := hdr_reads row col xf [byte (if b then 1 else 0), byte 0] hr hc hx
  have h6 := hb 0; have h7 := hb 1
  simp only [Nat.add_zero] at h6
  simp only [parseBoolErr, hl, h0, h2, h6, h7]
  cases b <;> simp [byteAt, byte_toNat]

/-- BOOLERR with `fError = 1`: each of the 8 error codes gives its error kind -/
theorem boolerr_error (row col xf : Nat) (k : ErrKind) (hr : row < 65536) (hc : col < 65536) (hx : xf < 65536) :
    parseBoolErr (le16 row ++ le16 col ++ le16 xf ++ [byte (errCode k), byte 1]) =
      .ok (row, col, .error k) := by
  obtain ⟨h0, h2, _, hl, _, hb⟩ := hdr_reads row col xf [byte (errCode k), byte 1] hr hc hx
  have h6 := hb 0; have h7 := hb 1
  simp only [Nat.add_zero] at h6
  have e6 : byteAt [byte (errCode k), byte 1] 0 = errCode k := by
    simp [byteAt, byte_toNat]; have := errCode_lt k; omega
  simp only [parseBoolErr, hl, h0, h2, h6, h7, e6]
  simp [byteAt, byte_toNat, parseErr_code]

/-- any other error code or `fError` value is an error, not a value -/
theorem boolerr_other (r : Bytes) (hl : 8 ≤ r.length)
    (h : (byteAt r 7 ≠ 0 ∧ byteAt r 7 ≠ 1) ∨ (byteAt r 7 = 1 ∧ ∀ k, byteAt r 6 ≠ errCode k)) :
    ∃ e, parseBoolErr r = .err e := by
  unfold parseBoolErr
  rw [if_neg (by omega)]
  rcases h with ⟨h0, h1⟩ | ⟨h1, hk⟩
  · exact ⟨"Unrecognized:fError", by simp [h0, h1]⟩
  · exact ⟨"Unrecognized:error", by simp [h1, parseErr_other _ hk]⟩

/-! ### MULRK -/

/-- a MULRK record the reader accepts names `last − first + 1` columns, holds exactly that many `(ixfe, rk)` pairs,
    and yields one cell per pair at `(row, first + i)` -/
theorem mulrk_columns (env : Env) (r : Bytes) (cs : List Cell) (h : parseMulRk env r = .ok cs) :
    u16At r 2 ≤ u16At r (r.length - 2) ∧
    r.length = 6 + 6 * (u16At r (r.length - 2) + 1 - u16At r 2) ∧
    cs.length = u16At r (r.length - 2) + 1 - u16At r 2 ∧
    ∀ i, i < cs.length → cs[i]? = some (u16At r 0, u16At r 2 + i, rkNumAt env r (4 + 6 * i)) := by
  unfold parseMulRk at h
  split at h
  · cases h
  · simp only at h
    split at h
    · cases h
    · next hcond =>
      injection h with h
      subst h
      have hlen := mulRkLoop_length env r (u16At r 0) (u16At r (r.length - 2) + 1 - u16At r 2) 4 (u16At r 2)
      refine ⟨by omega, by omega, hlen, ?_⟩
      intro i hi
      rw [hlen] at hi
      exact mulRkLoop_get env r (u16At r 0) _ 4 (u16At r 2) i hi

/-- (after D31) a last column before the first, or a length that disagrees with the column span, is a `Len` error -/
theorem mulrk_rejects (env : Env) (r : Bytes)
    (h : r.length < 6 ∨ u16At r (r.length - 2) < u16At r 2 ∨
      r.length ≠ 6 + 6 * (u16At r (r.length - 2) + 1 - u16At r 2)) :
    parseMulRk env r = .err "Len:rk" := by
  unfold parseMulRk
  by_cases h6 : r.length < 6
  · simp [h6]
  · rcases h with h | h | h
    · exact absurd h h6
    · simp [h6, h]
    · simp [h6, h]

/-- … and never a panic, whatever the bytes -/
theorem mulrk_no_panic (env : Env) (r : Bytes) (s : String) : parseMulRk env r ≠ .panic s := by
  unfold parseMulRk
  split
  · simp
  · simp only; split <;> simp

/-- (after the robustness fix b5774ce) `parse_merge_cells` answers `Ok` or `Len` on every payload: a record
    shorter than its count field or than the `2 + 8·count` bytes the count announces is an error, not a panic -/
theorem parse_merge_cells_no_panic (r : Bytes) (s : String) : parseMergeCells r ≠ .panic s := by
  unfold parseMergeCells
  split
  · simp
  · split <;> simp

theorem parse_merge_cells_rejects (r : Bytes) (h : r.length < 2 ∨ r.length < 2 + 8 * u16At r 0) :
    parseMergeCells r = .err "Len:merge cells" := by
  unfold parseMergeCells
  by_cases h2 : r.length < 2
  · simp [h2]
  · rcases h with h | h
    · exact absurd h h2
    · simp [h2, h]

/-- the MULRK record the encoder writes for a run of RK cells reads back as those cells, column by column -/
theorem mulrk_run (env : Env) (row c0 : Nat) (g : List PC) (hne : g ≠ []) (hr : row < 65536)
    (hc : c0 + g.length ≤ 65536) (hg : ∀ q ∈ g, q.xf < 65536 ∧ rkWord q < 4294967296) :
    parseMulRk env (mulRkData row c0 g) = .ok (runCells env row c0 g) :=
  parseMulRk_run env row c0 g hne hr hc hg

/-! ### framing -/

/-- `RecordIter` over `frame rs` yields exactly `rs`: for records with a 16-bit id other than CONTINUE, a
    payload that fits the 16-bit length field (BIFF8 allows ≤ 8224 bytes) and no CONTINUE chunks
    (CONTINUE gathering is C12's `frame_roundtrip`) -/
theorem record_framing_roundtrip (rs : List Rec) (h : ∀ r ∈ rs, plainRec r) :
    items (frame rs) = rs.map .record :=
  items_frame rs h

/-- whatever the bytes, the worksheet model terminates within its loop budgets: `RecordIter` consumes at least
    four bytes per record, the CONTINUE loop as well, nothing else loops -/
theorem sheetRange_total (env : Env) (s : Bytes) : sheetRange env s ≠ .outOfFuel := by
  unfold sheetRange withFormulaRange rangeOf decodeSheet
  have h := sheetLoop_ne_fuel env (items s) ⟨[], (0, 0)⟩ (items_fuel s)
  cases hc : sheetLoop env (items s) ⟨[], (0, 0)⟩ with
  | ok cs =>
    simp only
    have h1 := fromSparse_ne_fuel cs
    cases hr : Range.fromSparse cs with
    | ok r =>
      simp only
      have h2 := fromSparse_ne_fuel (formulaCells (items s))
      cases hf : (Range.fromSparse (formulaCells (items s)) : Res (Range.Rng Nat)) with
      | ok _ => simp
      | err e => simp
      | panic e => simp
      | outOfFuel => exact absurd hf h2
    | err e => simp
    | panic e => simp
    | outOfFuel => exact absurd hr h1
  | err e => simp
  | panic e => simp
  | outOfFuel => exact absurd hc h

/-! ### FORMULA -/

/-- the value a cached result stands for (a number is typed by the cell's XF like NUMBER / RK cells) -/
def cachedVal (env : Env) (xf : Nat) : Cached → Val
  | .num x => fmtF64 x env.fmts[xf]? env.is1904
  | .str _ s _ => .str s
  | .bool b => .bool b
  | .err k => .error k
  | .blank => .str []

/-- the FORMULA record (followed, for a string result, by ignorable records and the STRING record) puts exactly
    the cached value at the formula's cell: number, boolean, error, blank string from the FormulaValue field,
    a string from the STRING record that follows -/
theorem formula_cached_value (env : Env) (st : St) (p : PC) (c : Cached) (rgce : Bytes)
    (hp : p.phys = .formula c rgce) (hok : PCok env p) :
    ∃ f, runRecs env (physRecs p) st = .ok ⟨st.cells ++ [(p.row, p.col, cachedVal env p.xf c)], f⟩ := by
  obtain ⟨f, hf⟩ := runRecs_phys env st p hok
  refine ⟨f, ?_⟩
  rw [hf]
  simp only [pcCell, pcVal, hp]
  cases c <;> rfl

/-! ### typing by the XF: the wrap decision is C10's -/

/-- C10's `NumData` (Model/Formats.lean) as a cell value: a serial given as an `i64` is `v as f64` -/
def ofNumData : Formats.NumData → Val
  | .int v => .int v
  | .float b => .float b.toNat
  | .dateTime (.bits b) k d => .dt b.toNat k d
  | .dateTime (.ofI64 v) k d => .dt (i2f v) k d

/-- `fmtF64` (what `parse_number`, the RK float arm and the FORMULA arm apply) is `Formats.formatF64` -/
theorem fmtF64_formatF64 (bits : Nat) (h : bits < 18446744073709551616) (fmt : Option CellFormat) (d : Bool) :
    fmtF64 bits fmt d = ofNumData (Formats.formatF64 (UInt64.ofNat bits) fmt d) := by
  have e : (UInt64.ofNat bits).toNat = bits := by
    rw [UInt64.toNat_ofNat']; exact Nat.mod_eq_of_lt h
  cases fmt with
  | none => simp [fmtF64, Formats.formatF64, ofNumData, e]
  | some f => cases f <;> simp [fmtF64, Formats.formatF64, ofNumData, e]

/-- `fmtI64` (the RK integer arm) is `Formats.formatI64` -/
theorem fmtI64_formatI64 (v : Int) (fmt : Option CellFormat) (d : Bool) :
    fmtI64 v fmt d = ofNumData (Formats.formatI64 v fmt d) := by
  cases fmt with
  | none => rfl
  | some f => cases f <;> rfl

/-! ### what the specification expects of one cell -/

/-- whatever the layout, the content of a numeric cell denotes the cell's number -/
theorem numContent_bits (env : Env) (x : Nat) (e : Enc) : numBits (numContent env x e) = x := by
  unfold numContent
  cases e with
  | num ne =>
    cases ne with
    | number => rfl
    | rk w =>
      simp only
      split
      · next h => exact h.2
      · rfl
  | label w => rfl
  | labelSst i => rfl
  | boolerr => rfl
  | formula a b c d => rfl

/-- every reading of a numeric cell — `Int`, `Float` or `DateTime` — stands for the cell's number -/
theorem expectVal_numOf (env : Env) (c : LCell) (l : Lay) (x : Nat) (hv : c.val = .num x) :
    numOf (expectVal env c l) = some x := by
  have hb := numContent_bits env x l.enc
  simp only [expectVal, hv, typeNum]
  cases hf : env.fmts[l.xf % 65536]? with
  | none => cases hn : numContent env x l.enc <;> simp_all [numOf, numBits]
  | some f =>
    cases f with
    | other => cases hn : numContent env x l.enc <;> simp_all [numOf, numBits]
    | dateTime => simp [numOf, hb]
    | timeDelta => simp [numOf, hb]

/-- date typing, per cell: under an XF whose format is DateTime / TimeDelta a numeric cell is
    `DateTime(x, kind, is1904)` with the cell's own number as serial and the workbook's date system; under any other
    XF (or an ixfe beyond the table) it is never a `DateTime` -/
theorem expectVal_date_typing (env : Env) (c : LCell) (l : Lay) (x : Nat) (hv : c.val = .num x) :
    (env.fmts[l.xf % 65536]? = some .dateTime → expectVal env c l = .dt x .dateTime env.is1904) ∧
    (env.fmts[l.xf % 65536]? = some .timeDelta → expectVal env c l = .dt x .timeDelta env.is1904) ∧
    (env.fmts[l.xf % 65536]? ≠ some .dateTime → env.fmts[l.xf % 65536]? ≠ some .timeDelta →
      ∀ b k d, expectVal env c l ≠ .dt b k d) := by
  have hb := numContent_bits env x l.enc
  simp only [expectVal, hv, typeNum]
  refine ⟨fun h => by simp [h, hb], fun h => by simp [h, hb], fun h1 h2 b k d => ?_⟩
  cases hf : env.fmts[l.xf % 65536]? with
  | none => cases hn : numContent env x l.enc <;> simp
  | some f =>
    cases f with
    | other => cases hn : numContent env x l.enc <;> simp
    | dateTime => exact absurd hf h1
    | timeDelta => exact absurd hf h2

/-- the XF does not ask for a date/time -/
def plainFmt (env : Env) (xf : Nat) : Prop :=
  env.fmts[xf]? ≠ some CellFormat.dateTime ∧ env.fmts[xf]? ≠ some CellFormat.timeDelta

theorem typeNum_plain (env : Env) (xf : Nat) (n : Num) (h : plainFmt env xf) :
    typeNum env.fmts[xf]? env.is1904 n = match n with | .int v => .int v | .float b => .float b := by
  unfold typeNum
  cases hf : env.fmts[xf]? with
  | none => rfl
  | some f => cases f with
    | other => rfl
    | dateTime => exact absurd hf h.1
    | timeDelta => exact absurd hf h.2

/-- "30-bit RK integers as Int": the cell whose layout is the RK integer word of `v` reads `Int v` -/
theorem expectVal_rkInt (env : Env) (c : LCell) (l : Lay) (v : Int) (h1 : -536870912 ≤ v) (h2 : v < 536870912)
    (hv : c.val = .num (i2f v)) (he : l.enc = .num (.rk (encodeRkInt v false)))
    (hf : plainFmt env (l.xf % 65536)) : expectVal env c l = .int v := by
  have hs : rkSpec env.ops (encodeRkInt v false) = .int v := by
    rw [← rk_spec]; exact rkInt_roundtrip env.ops v h1 h2
  simp only [expectVal, hv, he, numContent, hs, numBits, encodeRkInt_lt, true_and, if_true]
  rw [typeNum_plain env _ _ hf]

/-- the ×100 integer word of `v` with `100 ∣ v` reads `Int (v / 100)` -/
theorem expectVal_rkInt100 (env : Env) (c : LCell) (l : Lay) (v : Int) (h1 : -536870912 ≤ v) (h2 : v < 536870912)
    (hd : v % 100 = 0) (hv : c.val = .num (i2f (v / 100))) (he : l.enc = .num (.rk (encodeRkInt v true)))
    (hf : plainFmt env (l.xf % 65536)) : expectVal env c l = .int (v / 100) := by
  have hs : rkSpec env.ops (encodeRkInt v true) = .int (v / 100) := by
    rw [← rk_spec, rkInt100_roundtrip env.ops v h1 h2, if_pos hd]
  simp only [expectVal, hv, he, numContent, hs, numBits, encodeRkInt_lt, true_and, if_true]
  rw [typeNum_plain env _ _ hf]

/-- a double stored as an RK float word reads `Float` -/
theorem expectVal_rkFloat (env : Env) (c : LCell) (l : Lay) (x : Nat) (hx : x < 18446744073709551616)
    (h34 : x % 17179869184 = 0) (hv : c.val = .num x) (he : l.enc = .num (.rk (encodeRkFloat x false)))
    (hf : plainFmt env (l.xf % 65536)) : expectVal env c l = .float x := by
  have hs : rkSpec env.ops (encodeRkFloat x false) = .float x := by
    rw [← rk_spec]; simpa using rkFloat_roundtrip env.ops x hx h34 false
  have hlt : encodeRkFloat x false < 4294967296 := by unfold encodeRkFloat; simp; omega
  simp only [expectVal, hv, he, numContent, hs, numBits, hlt, true_and, if_true]
  rw [typeNum_plain env _ _ hf]

/-- NUMBER and FORMULA results read `Float` -/
theorem expectVal_number (env : Env) (c : LCell) (l : Lay) (x : Nat) (hv : c.val = .num x)
    (he : l.enc = .num .number ∨ ∃ a b c' d, l.enc = .formula a b c' d)
    (hf : plainFmt env (l.xf % 65536)) : expectVal env c l = .float x := by
  rcases he with he | ⟨a, b, c', d, he⟩ <;>
    · simp only [expectVal, hv, he, numContent]
      rw [typeNum_plain env _ _ hf]

/-- strings, booleans and errors do not depend on the layout -/
theorem expectVal_other (env : Env) (c : LCell) (l : Lay) (h : ∀ x, c.val ≠ .num x) :
    expectVal env c l = c.val.toVal := by
  unfold expectVal
  cases hv : c.val with
  | num x => exact absurd hv (h x)
  | str s => rfl
  | bool b => rfl
  | err k => rfl

/-! ### the whole sheet -/

/-- For every logical sheet inside the BIFF8 grid (cells sorted row-major, distinct positions), every layout and every
    XF table: reading the encoded substream succeeds, the range is the tight bounding box of the cells, the value at
    the i-th cell is what the specification expects of it under the i-th layout entry (`expectVal`: the RkNumber
    reading for an RK word that denotes the number — integers as `Int` —, the double for NUMBER / FORMULA, typed as
    `DateTime` by a date/time XF; strings — the empty shared string included —, booleans, errors as they are), and
    every other position is `Empty`. -/
theorem biff_sheet_roundtrip (env : Env) (S : List LCell) (lays : List Lay)
    (hS : ∀ c ∈ S, cellOk c) (hsorted : S.Pairwise cellLt) :
    ∃ r, sheetRange env (substream env S lays) = .ok r ∧
      (S = [] → r.inner.length = 0) ∧
      (S ≠ [] → r.inner.length ≠ 0 ∧
        (∀ c ∈ S, r.sr ≤ c.row ∧ c.row ≤ r.er ∧ r.sc ≤ c.col ∧ c.col ≤ r.ec) ∧
        (∃ c ∈ S, c.row = r.sr) ∧ (∃ c ∈ S, c.row = r.er) ∧
        (∃ c ∈ S, c.col = r.sc) ∧ (∃ c ∈ S, c.col = r.ec)) ∧
      (∀ i (h : i < S.length), r.valAt S[i].row S[i].col = expectVal env S[i] (lays[i]?.getD default)) ∧
      (∀ p q, (∀ c ∈ S, ¬ (c.row = p ∧ c.col = q)) → r.valAt p q = Val.empty) := by
  -- the planned cells and what the loop makes of them
  have hplan := plan_mem env S lays
  have hok : ∀ p ∈ plan env S lays, PCok env p := by
    intro p hp
    obtain ⟨c, hc, l, _, e⟩ := hplan p hp
    rw [e]; exact planCell_ok env c l (hS c hc)
  have hdec : decodeSheet env (items (substream env S lays)) = .ok ((plan env S lays).map (pcCell env)) :=
    decode_substream env (plan env S lays) hok
  have hpos : ((plan env S lays).map (pcCell env)).map (fun x => (x.1, x.2.1)) = S.map (fun c => (c.row, c.col)) := by
    rw [List.map_map, ← plan_pos env S lays]; rfl
  -- cells → S and back
  have toS : ∀ x ∈ (plan env S lays).map (pcCell env), ∃ c ∈ S, c.row = x.1 ∧ c.col = x.2.1 := by
    intro x hx
    have : (x.1, x.2.1) ∈ S.map (fun c => (c.row, c.col)) := by
      rw [← hpos]; exact List.mem_map.mpr ⟨x, hx, rfl⟩
    obtain ⟨c, hc, e⟩ := List.mem_map.mp this
    simp only [Prod.mk.injEq] at e
    exact ⟨c, hc, e.1, e.2⟩
  have ofS : ∀ c ∈ S, ∃ x ∈ (plan env S lays).map (pcCell env), x.1 = c.row ∧ x.2.1 = c.col := by
    intro c hc
    have : (c.row, c.col) ∈ ((plan env S lays).map (pcCell env)).map (fun x => (x.1, x.2.1)) := by
      rw [hpos]; exact List.mem_map.mpr ⟨c, hc, rfl⟩
    obtain ⟨x, hx, e⟩ := List.mem_map.mp this
    simp only [Prod.mk.injEq] at e
    exact ⟨x, hx, e.1, e.2⟩
  have hpw : ((plan env S lays).map (pcCell env)).Pairwise Range.posLt := by
    have h1 : (S.map (fun c => (c.row, c.col))).Pairwise
        (fun a b : Nat × Nat => a.1 < b.1 ∨ (a.1 = b.1 ∧ a.2 < b.2)) := by
      rw [List.pairwise_map]; exact hsorted
    rw [← hpos, List.pairwise_map] at h1
    exact h1
  have hb : ∀ x ∈ (plan env S lays).map (pcCell env), x.1 < 65536 ∧ x.2.1 < 256 := by
    intro x hx
    obtain ⟨p, hp, rfl⟩ := List.mem_map.mp hx
    exact ⟨(hok p hp).1, (hok p hp).2.1⟩
  obtain ⟨r, hr, hemp, hbox, hval, hout⟩ := Range.fromSparse_sorted _ hpw hb
  refine ⟨r, ?_, ?_, ?_, ?_, ?_⟩
  · obtain ⟨fr, hfr⟩ := formulaRange_ok env (plan env S lays) hok hpw
    have hfc : formulaCells (items (substream env S lays)) = ((plan env S lays).filter isFmla).map pos3 :=
      formulaCells_substream env (plan env S lays) hok
    simp only [sheetRange, hdec, rangeOf, hr, withFormulaRange, hfc, hfr]
  · intro hnil; apply hemp; rw [hnil]; simp [plan]
  · intro hne
    have hne' : (plan env S lays).map (pcCell env) ≠ [] := by
      intro h0
      have := congrArg List.length hpos
      rw [h0] at this; simp at this
      exact hne (List.eq_nil_of_length_eq_zero this.symm)
    obtain ⟨h0, h1, ⟨a, ha, ea⟩, ⟨b, hb', eb⟩, ⟨c, hc, ec⟩, ⟨d, hd, ed⟩⟩ := hbox hne'
    refine ⟨h0, ?_, ?_, ?_, ?_, ?_⟩
    · intro c hc
      obtain ⟨x, hx, e1, e2⟩ := ofS c hc
      have := h1 x hx
      rw [e1, e2] at this; exact this
    · obtain ⟨s, hs, e1, _⟩ := toS a ha; exact ⟨s, hs, by rw [e1, ea]⟩
    · obtain ⟨s, hs, e1, _⟩ := toS b hb'; exact ⟨s, hs, by rw [e1, eb]⟩
    · obtain ⟨s, hs, _, e2⟩ := toS c hc; exact ⟨s, hs, by rw [e2, ec]⟩
    · obtain ⟨s, hs, _, e2⟩ := toS d hd; exact ⟨s, hs, by rw [e2, ed]⟩
  · intro i hi
    have hg : (plan env S lays)[i]? = some (planCell env S[i] (lays[i]?.getD default)) := by
      rw [plan_getElem, List.getElem?_eq_getElem hi]; rfl
    have hmem : planCell env S[i] (lays[i]?.getD default) ∈ plan env S lays := List.mem_of_getElem? hg
    have := hval _ (List.mem_map.mpr ⟨_, hmem, rfl⟩)
    simp only [pcCell] at this
    rw [← planCell_expect]
    exact this
  · intro p q hno
    apply hout
    intro x hx ⟨e1, e2⟩
    obtain ⟨s, hs, f1, f2⟩ := toS x hx
    exact hno s hs ⟨by rw [f1, e1], by rw [f2, e2]⟩

/-- an empty sheet (BOF, ignorable records, EOF) reads as the empty range -/
theorem biff_sheet_empty (env : Env) (lays : List Lay) :
    sheetRange env (substream env [] lays) = .ok Range.empty := by
  have hdec : decodeSheet env (items (substream env [] lays)) = .ok (([] : List PC).map (pcCell env)) :=
    decode_substream env [] (by simp)
  have hfc : formulaCells (items (substream env [] lays)) = (([] : List PC).filter isFmla).map pos3 :=
    formulaCells_substream env [] (by simp)
  simp only [sheetRange, hdec, rangeOf, List.map_nil, Range.fromSparse, withFormulaRange, hfc, List.filter_nil]

/-! ### the scan counter of `parse_workbook` -/

/-- An encoded workbook never reaches the scan limit. `stream` = any globals, the substreams of `sheets` stored one after
    the other in ANY physical order `phys` (a permutation of the BoundSheet8 order), any padding; every BoundSheet8 offset
    points at its own substream and no substream is followed by a CONTINUE record. Then the sheet part of
    `parse_workbook` (`workbookSheets`, counter shared by all sheets) returns exactly the per-sheet readings
    `sheetRange` of the substreams — the ones `biff_sheet_roundtrip` and its corollaries are about — so every
    per-sheet statement holds for the sheets of the workbook as the reader returns them. -/
theorem xls_workbook_encoded (env : Env) (stream pre trail : Bytes) (sheets phys : List SheetAt)
    (hS : ∀ sh ∈ sheets, ∀ c ∈ sh.S, cellOk c)
    (hplace : ∀ sh ∈ sheets, ∃ tail, stream.drop sh.pos = sh.bytes env ++ tail ∧ noCont tail)
    (hperm : sheets.Perm phys)
    (hlay : stream = pre ++ ((phys.map (fun sh => sh.bytes env)).flatten ++ trail)) :
    workbookSheets env stream (sheets.map (·.pos)) =
      collect (sheets.map (fun sh => sheetRange env (substream env sh.S sh.lays))) := by
  have hsum := layout_sum_le env stream pre trail sheets phys hperm hlay
  exact sheetsFrom_encoded env stream sheets 0 hS hplace (by omega)

/-- … with sorted cells every one of them succeeds: the workbook opens and has one range per sheet -/
theorem xls_workbook_encoded_ok (env : Env) (stream pre trail : Bytes) (sheets phys : List SheetAt)
    (hS : ∀ sh ∈ sheets, (∀ c ∈ sh.S, cellOk c) ∧ sh.S.Pairwise cellLt)
    (hplace : ∀ sh ∈ sheets, ∃ tail, stream.drop sh.pos = sh.bytes env ++ tail ∧ noCont tail)
    (hperm : sheets.Perm phys)
    (hlay : stream = pre ++ ((phys.map (fun sh => sh.bytes env)).flatten ++ trail)) :
    ∃ rs, workbookSheets env stream (sheets.map (·.pos)) = .ok rs ∧ rs.length = sheets.length := by
  rw [xls_workbook_encoded env stream pre trail sheets phys (fun sh h => (hS sh h).1) hplace hperm hlay]
  clear hplace hperm hlay
  induction sheets with
  | nil => exact ⟨[], rfl, rfl⟩
  | cons sh rest ih =>
    obtain ⟨r, hr, _⟩ := biff_sheet_roundtrip env sh.S sh.lays (hS sh (by simp)).1 (hS sh (by simp)).2
    obtain ⟨rs, hrs, hl⟩ := ih (fun x hx => hS x (by simp [hx]))
    exact ⟨r :: rs, by simp only [List.map_cons, collect, hr, hrs], by simp [hl]⟩

/-- a single sheet (the common case, and every per-sheet `dec` of the harness): whatever the bytes, the counter cannot
    trip, the counted loop is the plain one -/
theorem xls_single_sheet_exact (env : Env) (stream : Bytes) (pos : Nat) (hp : pos ≤ stream.length) :
    workbookSheets env stream [pos] =
      match sheetRange env (stream.drop pos) with
      | .ok r => .ok [r]
      | .err e => .err e
      | .panic m => .panic m
      | .outOfFuel => .outOfFuel := by
  have hlen : (stream.drop pos).length ≤ stream.length := by simp
  simp only [workbookSheets, sheetsFrom, if_neg (Nat.not_lt.mpr hp)]
  rw [sheetRangeS_eq env _ _ 0 (by simp only [scanLimit]; omega)]
  cases sheetRange env (stream.drop pos) <;> rfl

/-- work bound for ARBITRARY bytes and offsets: the body of the record loop runs, over all sheets together, at most
    `(8·len + 65536)/4 + 1` times — in particular at most `8·len + 65536 + (number of sheets)` times: linear in the
    stream, however the BoundSheet8 offsets overlap (before fix edc415f: `sheets × records`) -/
theorem xls_sheet_loop_work_linear (env : Env) (stream : Bytes) (offsets : List Nat) :
    4 * sheetsWork env stream offsets 0 ≤ 8 * stream.length + 65536 + 4 ∧
    sheetsWork env stream offsets 0 ≤ 8 * stream.length + 65536 + offsets.length := by
  have h := sheetsWork_bound env stream offsets 0 (by simp [scanLimit])
  simp only [scanLimit] at h
  exact ⟨by omega, by omega⟩

/-- "30-bit RK integers as Int", through the reader: in a sheet whose i-th cell holds the integer `v` and is laid out
    as the RK integer word of `v` (alone or inside a MULRK run) under a non-date XF, the value read at that cell is
    `Int v` — not `Float` -/
theorem biff_sheet_rk_int (env : Env) (S : List LCell) (lays : List Lay)
    (hS : ∀ c ∈ S, cellOk c) (hsorted : S.Pairwise cellLt) (i : Nat) (hi : i < S.length) (l : Lay)
    (hl : lays[i]? = some l) (v : Int) (h1 : -536870912 ≤ v) (h2 : v < 536870912)
    (hv : S[i].val = .num (i2f v)) (he : l.enc = .num (.rk (encodeRkInt v false)))
    (hf : plainFmt env (l.xf % 65536)) :
    ∃ r, sheetRange env (substream env S lays) = .ok r ∧ r.valAt S[i].row S[i].col = .int v := by
  obtain ⟨r, e, _, _, hv', _⟩ := biff_sheet_roundtrip env S lays hS hsorted
  refine ⟨r, e, ?_⟩
  rw [hv' i hi, hl]
  exact expectVal_rkInt env S[i] l v h1 h2 hv he hf

/-- xls date typing at sheet level (the xls third of C10's "exactly when"): a numeric cell — NUMBER, RK, inside a MULRK
    run, or a FORMULA result — whose XF's format class is DateTime (TimeDelta) reads `DateTime(x, DateTime (TimeDelta),
    is1904)`: the serial is the cell's number, the date system the workbook's; under any other XF it is not a DateTime -/
theorem biff_sheet_date_typing (env : Env) (S : List LCell) (lays : List Lay)
    (hS : ∀ c ∈ S, cellOk c) (hsorted : S.Pairwise cellLt) (i : Nat) (hi : i < S.length) (x : Nat)
    (hv : S[i].val = .num x) :
    ∃ r, sheetRange env (substream env S lays) = .ok r ∧
      (env.fmts[(lays[i]?.getD default).xf % 65536]? = some .dateTime →
        r.valAt S[i].row S[i].col = .dt x .dateTime env.is1904) ∧
      (env.fmts[(lays[i]?.getD default).xf % 65536]? = some .timeDelta →
        r.valAt S[i].row S[i].col = .dt x .timeDelta env.is1904) ∧
      (env.fmts[(lays[i]?.getD default).xf % 65536]? ≠ some .dateTime →
        env.fmts[(lays[i]?.getD default).xf % 65536]? ≠ some .timeDelta →
        ∀ b k d, r.valAt S[i].row S[i].col ≠ .dt b k d) := by
  obtain ⟨r, e, _, _, hv', _⟩ := biff_sheet_roundtrip env S lays hS hsorted
  refine ⟨r, e, ?_⟩
  rw [hv' i hi]
  exact expectVal_date_typing env S[i] _ x hv

/-- "The same number encoded as NUMBER, RK or inside a MULRK run reads as a numerically equal value at the same cell",
    through the reader: two layouts of the same sheet (any record choice per cell — NUMBER, any RK word denoting the
    number, MULRK grouping, FORMULA — and any XFs) give, at every numeric cell, values that stand for the cell's own
    double (`numOf`: an `Int` counts as `v as f64`, a `DateTime` as its serial) -/
theorem number_encodings_equal (env : Env) (S : List LCell) (lays1 lays2 : List Lay)
    (hS : ∀ c ∈ S, cellOk c) (hsorted : S.Pairwise cellLt) :
    ∃ r1 r2, sheetRange env (substream env S lays1) = .ok r1 ∧ sheetRange env (substream env S lays2) = .ok r2 ∧
      ∀ i (h : i < S.length) x, S[i].val = .num x →
        numOf (r1.valAt S[i].row S[i].col) = some x ∧ numOf (r2.valAt S[i].row S[i].col) = some x := by
  obtain ⟨r1, e1, _, _, v1, _⟩ := biff_sheet_roundtrip env S lays1 hS hsorted
  obtain ⟨r2, e2, _, _, v2, _⟩ := biff_sheet_roundtrip env S lays2 hS hsorted
  refine ⟨r1, r2, e1, e2, ?_⟩
  intro i hi x hx
  rw [v1 i hi, v2 i hi]
  exact ⟨expectVal_numOf env S[i] _ x hx, expectVal_numOf env S[i] _ x hx⟩

/-- two values agree up to the encoding of a number -/
def sameNum (a b : Val) : Prop := a = b ∨ ∃ x, numOf a = some x ∧ numOf b = some x

/-- two layouts of the same sheet (any record choices, MULRK grouping, ignorable records, XFs) give ranges with the same
    bounds, equal strings / booleans / errors / empties and numerically equal numbers at every position -/
theorem biff_encoding_independent (env : Env) (S : List LCell) (lays1 lays2 : List Lay)
    (hS : ∀ c ∈ S, cellOk c) (hsorted : S.Pairwise cellLt) :
    ∃ r1 r2, sheetRange env (substream env S lays1) = .ok r1 ∧ sheetRange env (substream env S lays2) = .ok r2 ∧
      (r1.inner.length = 0 ↔ r2.inner.length = 0) ∧
      (S ≠ [] → r1.sr = r2.sr ∧ r1.er = r2.er ∧ r1.sc = r2.sc ∧ r1.ec = r2.ec) ∧
      ∀ p q, sameNum (r1.valAt p q) (r2.valAt p q) := by
  obtain ⟨r1, e1, z1, n1, v1, o1⟩ := biff_sheet_roundtrip env S lays1 hS hsorted
  obtain ⟨r2, e2, z2, n2, v2, o2⟩ := biff_sheet_roundtrip env S lays2 hS hsorted
  refine ⟨r1, r2, e1, e2, ?_, ?_, ?_⟩
  · by_cases hS0 : S = []
    · simp [z1 hS0, z2 hS0]
    · have a := (n1 hS0).1; have b := (n2 hS0).1
      simp [a, b]
  · intro hne
    obtain ⟨_, b1, ⟨a1, ha1, ea1⟩, ⟨c1, hc1, ec1⟩, ⟨d1, hd1, ed1⟩, ⟨f1, hf1', ef1⟩⟩ := n1 hne
    obtain ⟨_, b2, ⟨a2, ha2, ea2⟩, ⟨c2, hc2, ec2⟩, ⟨d2, hd2, ed2⟩, ⟨f2, hf2', ef2⟩⟩ := n2 hne
    have := b1 a2 ha2; have := b2 a1 ha1; have := b1 c2 hc2; have := b2 c1 hc1
    have := b1 d2 hd2; have := b2 d1 hd1; have := b1 f2 hf2'; have := b2 f1 hf1'
    refine ⟨?_, ?_, ?_, ?_⟩ <;> omega
  · intro p q
    by_cases h : ∃ c ∈ S, c.row = p ∧ c.col = q
    · obtain ⟨c, hc, rfl, rfl⟩ := h
      obtain ⟨i, hi, rfl⟩ := List.getElem_of_mem hc
      rw [v1 i hi, v2 i hi]
      by_cases hn : ∃ x, S[i].val = .num x
      · obtain ⟨x, hx⟩ := hn
        exact Or.inr ⟨x, expectVal_numOf env S[i] _ x hx, expectVal_numOf env S[i] _ x hx⟩
      · have hn' : ∀ x, S[i].val ≠ .num x := fun x hx => hn ⟨x, hx⟩
        rw [expectVal_other env S[i] _ hn', expectVal_other env S[i] _ hn']
        exact Or.inl rfl
    · have hno : ∀ c ∈ S, ¬ (c.row = p ∧ c.col = q) := fun c hc hpq => h ⟨c, hc, hpq⟩
      rw [o1 p q hno, o2 p q hno]
      exact Or.inl rfl

/-- non-vacuity: −5 as an RK integer (the word 0xFFFFFFEE), 12.34 as 1234 with fX100, 1.5 as an RK float -/
example (ops : FOps) : rkNum ops 0xFFFFFFEE = .int (-5) ∧ encodeRkInt (-5) false = 0xFFFFFFEE
    ∧ rkNum ops (encodeRkInt 1234 true) = .float (ops.div100 (i2f 1234))
    ∧ rkNum ops (encodeRkInt 1200 true) = .int 12
    ∧ rkNum ops (encodeRkFloat 0x3FF8000000000000 false) = .float 0x3FF8000000000000 := by
  refine ⟨?_, by decide, ?_, ?_, ?_⟩
  · have := rkInt_roundtrip ops (-5) (by decide) (by decide)
    simpa [encodeRkInt] using this
  · simpa using rkInt100_roundtrip ops 1234 (by decide) (by decide)
  · simpa using rkInt100_roundtrip ops 1200 (by decide) (by decide)
  · simpa using rkFloat_roundtrip ops 0x3FF8000000000000 (by decide) (by decide) false


/-- `v as f64` is computed, not assumed: 5 ↦ 0x4014000000000000, −5 ↦ 0xC014000000000000 -/
example : i2f 5 = 0x4014000000000000 ∧ i2f (-5) = 0xC014000000000000 ∧ i2f 0 = 0 := by decide

/-- non-vacuity of the sheet theorems: a sheet with the number 5 (stored as the RK integer word 22 inside a MULRK
    run, under a plain XF), its neighbour under a date XF, a LABELSST naming the EMPTY shared string, an error and
    a formula string meets every hypothesis; the first cell is expected to read `Int 5`, the second
    `DateTime(5.0, DateTime, 1900)`, the third `String("")` -/
example (ops : FOps) :
    let env : Env := { ops := ops, fmts := [.other, .dateTime], is1904 := false, strings := [[]] }
    let S : List LCell := [⟨0, 1, .num 0x4014000000000000⟩, ⟨0, 2, .num 0x4014000000000000⟩,
      ⟨3, 0, .str []⟩, ⟨65535, 255, .err .na⟩]
    let lays : List Lay := [{ enc := .num (.rk 22) }, { enc := .num (.rk 22), join := true, xf := 1 },
      { enc := .labelSst 0, before := [⟨0x0201, [0, 0, 0, 0, 0, 0], []⟩] }, { enc := .formula [0x1E, 1, 0] false [] false }]
    (∀ c ∈ S, cellOk c) ∧ S.Pairwise cellLt ∧
    expectVal env S[0] lays[0] = .int 5 ∧ expectVal env S[1] lays[1] = .dt 0x4014000000000000 .dateTime false ∧
    expectVal env S[2] lays[2] = .str [] ∧ choose env S[2].val lays[2].enc = .labelSst 0 := by
  intro env S lays
  have h5 : i2f 5 = 0x4014000000000000 := by decide
  refine ⟨?_, ?_, ?_, ?_, ?_, ?_⟩
  · intro c hc
    simp only [S, List.mem_cons, List.not_mem_nil, or_false] at hc
    rcases hc with rfl | rfl | rfl | rfl <;>
      simp [cellOk, lvalOk, textOk, validText, toUnits]
  · simp [S, cellLt]
  · simp [expectVal, numContent, typeNum, rkSpec, numBits, env, S, lays, h5]
  · simp [expectVal, numContent, typeNum, rkSpec, numBits, env, S, lays, h5]
  · simp [expectVal, LVal.toVal, S]
  · simp [choose, env, S, lays]

end BiffCells
