import CalVerif.Lemmas.Geometry
import CalVerif.Props.C05
/-! # C17 — merged regions and tables are reported with the geometry the file declares
    Property theorems only (helper lemmas live in `Lemmas/Geometry.lean`).

    Every theorem about `get_dimension` and its callers is stated for an arbitrary `Mode`, i.e. for the
    checked-arithmetic and for the saturating-arithmetic variant of the code alike (see `Model/Geometry.lean`).
    The XML layer is not modelled: the statements start at the event list (`Spec/Geometry.lean` renders the
    declarations as events under any namespace prefix and between arbitrary inert events). -/
namespace Geometry
set_option linter.unusedSectionVars false

/-! ## reference texts -/

/-- every cell name of the grid `A1 … XFD1048576` parses to its 0-based coordinates -/
theorem cell_roundtrip (m : Mode) (row col : Nat) (hr : row < 1048576) (hc : col < 16384) :
    getRowColumn m (renderCell row col) = .ok (row, col) :=
  getRowColumn_renderCell m row col hr hc

/-- `get_dimension` maps the reference text of every well-ordered rectangle up to `XFD1048576` back to that
    rectangle: in the form Excel writes (`B2` for one cell, `B2:D7` otherwise) and in the two-corner form
    (`B2:B2` for one cell) -/
theorem dimension_roundtrip (m : Mode) (d : Rect) (hv : d.Valid) :
    getDimension m (renderRef d) = .ok d ∧ getDimension m (renderRef2 d) = .ok d :=
  ⟨getDimension_renderRef m d hv, getDimension_renderRef2 m d hv⟩

/-- a single-cell reference denotes the one-cell rectangle -/
theorem dimension_single_cell (m : Mode) (row col : Nat) (hr : row < 1048576) (hc : col < 16384) :
    getDimension m (renderCell row col) = .ok ⟨row, col, row, col⟩ :=
  getDimension_renderCell m row col hr hc

example : (⟨0, 26, 1048575, 16383⟩ : Rect).Valid := by decide
example : renderRef ⟨0, 26, 1048575, 16383⟩ = [65, 65, 49, 58, 88, 70, 68, 49, 48, 52, 56, 53, 55, 54] := by decide
example : renderRef ⟨6, 701, 6, 701⟩ = [90, 90, 55] := by decide

/-! ## xlsx merged regions -/

/-- `read_merged_regions` (one sheet) and `worksheet_merge_cells` both return exactly the regions the sheet
    declares — same count, same order, same corners — whatever the namespace prefix, the other attributes of
    the `mergeCell` elements, the spelling of a one-cell region and the (inert) events around and between them;
    a sheet without a `mergeCells` element has none -/
theorem merge_regions_exact (m : Mode) (s : SheetDecl) (hs : s.Ok) :
    regionsOfSheet m s.events = .ok s.regions ∧ worksheetMergeCells m s.events = .ok s.regions := by
  obtain ⟨hp, hb, ha, hd, hmc⟩ := hs
  have hl := localName_qn s.pre nMergeCells hp nMergeCells_noColon
  unfold SheetDecl.events SheetDecl.regions
  by_cases hmc' : s.mc = true
  · simp only [hmc', if_true, renderSheet, List.append_assoc, List.cons_append]
    constructor
    · rw [regionsOfSheet_inert m s.before _ hb]
      simp only [regionsOfSheet, hl, nMergeCell_ne.symm, if_false]
      exact regionsOfSheet_render m s.pre hp s.after ha s.merges hd
    · rw [worksheetMergeCells_inert m s.before _ hb]
      simp only [worksheetMergeCells, hl, if_true]
      rw [readMergeCells_render m s.pre hp s.after s.merges hd]
  · have hf : s.mc = false := by simpa using hmc'
    have hnil := hmc hf
    simp only [hf, Bool.false_eq_true, if_false, hnil, List.map_nil]
    have hall : ∀ e ∈ s.before ++ s.after, e.Inert := by
      intro e he
      rcases List.mem_append.mp he with h | h
      · exact hb e h
      · exact ha e h
    have h1 := regionsOfSheet_inert m (s.before ++ s.after) [] hall
    have h2 := worksheetMergeCells_inert m (s.before ++ s.after) [] hall
    simp only [List.append_nil] at h1 h2
    rw [h1, h2]
    exact ⟨rfl, rfl⟩

/-- `read_merged_regions` over the workbook: the list is the declared regions of every sheet in sheet order,
    each attributed to the name and part path of the sheet that declares it -/
theorem merged_regions_attribution (m : Mode) : ∀ (sheets : List SheetDecl), (∀ s ∈ sheets, s.Ok) →
    mergedRegions m (sheets.map (·.part)) =
      .ok (sheets.flatMap (fun s => s.regions.map (fun d => (s.name, s.path, d))))
  | [], _ => rfl
  | s :: rest, h => by
    have ih := merged_regions_attribution m rest (fun x hx => h x (List.mem_cons_of_mem _ hx))
    have hs := (merge_regions_exact m s (h s (List.mem_cons_self ..))).1
    have hpart : s.part = ⟨s.name, s.path, some s.events⟩ := rfl
    simp only [List.map_cons, hpart, mergedRegions, hs, ih, List.flatMap_cons]

/-- `merged_regions_by_sheet`: for a sheet whose name no other sheet bears, exactly its own declared regions -/
theorem merged_regions_by_sheet_exact (m : Mode) (pre post : List SheetDecl) (s : SheetDecl)
    (hok : ∀ x ∈ pre ++ s :: post, x.Ok) (huniq : ∀ x ∈ pre ++ post, x.name ≠ s.name)
    (all : List (Bytes × Bytes × Rect)) (h : mergedRegions m ((pre ++ s :: post).map (·.part)) = .ok all) :
    mergedRegionsBySheet all s.name = s.regions.map (fun d => (s.name, s.path, d)) := by
  rw [merged_regions_attribution m _ hok] at h
  injection h with h
  subst h
  unfold mergedRegionsBySheet
  have hnone : ∀ (l : List SheetDecl), (∀ x ∈ l, x.name ≠ s.name) →
      (l.flatMap (fun s' => s'.regions.map (fun d => (s'.name, s'.path, d)))).filter (fun r => r.1 = s.name) = [] := by
    intro l hl
    rw [List.filter_eq_nil_iff]
    intro r hr
    obtain ⟨x, hx, hr⟩ := List.mem_flatMap.mp hr
    obtain ⟨d, _, rfl⟩ := List.mem_map.mp hr
    simpa using hl x hx
  have hself : (s.regions.map (fun d => (s.name, s.path, d))).filter (fun r => r.1 = s.name) =
      s.regions.map (fun d => (s.name, s.path, d)) := by
    rw [List.filter_eq_self]
    intro r hr
    obtain ⟨d, _, rfl⟩ := List.mem_map.mp hr
    simp
  rw [List.flatMap_append, List.flatMap_cons, List.filter_append, List.filter_append,
    hnone pre (fun x hx => huniq x (List.mem_append_left _ hx)),
    hnone post (fun x hx => huniq x (List.mem_append_right _ hx)), hself]
  simp

/-- a non-trivial sheet declaration meeting `SheetDecl.Ok`: prefix `x`, a text node before, two regions, the
    second a single cell spelled with two corners after an unrelated attribute -/
example : (⟨[83], [112], ['x'], [.text [10]], true,
    [{ rect := ⟨1, 1, 3, 2⟩ }, { rect := ⟨1048575, 16383, 1048575, 16383⟩, two := true, a1 := [(['i', 'd'], [49])], gap := [.text [32]] }],
    [.end_ ['x', ':', 'w', 'o', 'r', 'k', 's', 'h', 'e', 'e', 't']]⟩ : SheetDecl).Ok := by
  refine ⟨by decide, ?_, ?_, ?_, by decide⟩
  · intro e he; simp at he; subst he; trivial
  · intro e he; simp at he; subst he; simp [Ev.Inert, localName, nMergeCells]
  · intro d hd
    simp at hd
    rcases hd with rfl | rfl
    · exact ⟨by decide, by simp, by simp⟩
    · refine ⟨by decide, ?_, ?_⟩
      · intro a ha; simp at ha; subst ha; decide
      · intro e he; simp at he; subst he; trivial

/-! ## xls merged regions -/

/-- `parse_merge_cells` decodes the payload of a MERGEDCELLS record to exactly the encoded regions (count,
    order, corners), for any number of regions a record can hold and every `u16` coordinate (so in particular
    up to `IV65536`); bytes after the last entry are ignored -/
theorem mergecells_roundtrip (ds : List Rect) (hn : ds.length < 8192) (hfit : ∀ d ∈ ds, d.Fits16)
    (tail : Bytes) : parseMergeCells (encodeMergedCells ds ++ tail) = .ok ds := by
  unfold parseMergeCells encodeMergedCells
  have h0 : readU16At (u16le ds.length ++ ds.flatMap encodeRef8 ++ tail) 0 = .ok ds.length := by
    have := readU16At_u16le [] (ds.flatMap encodeRef8 ++ tail) ds.length 0 (by omega) rfl
    simpa [List.append_assoc] using this
  have hlen : (u16le ds.length ++ ds.flatMap encodeRef8 ++ tail).length = 2 + 8 * ds.length + tail.length := by
    simp only [List.length_append, u16le_length, flatMap_encodeRef8_length]
  rw [if_neg (by omega), h0]
  simp only []
  rw [if_neg (by omega)]
  have := mcLoop_encode (u16le ds.length) rfl tail ds [] (by simpa using hn) hfit
  simpa [List.append_assoc] using this

/-- `parse_merge_cells` answers `Ok` or `Err` on every payload, never a panic (true since the length checks
    of the robustness fix): a record shorter than its count or than the entries it announces is `Len`, any
    other record yields its regions -/
theorem parse_merge_cells_no_panic (r : Bytes) :
    (∃ ds, parseMergeCells r = .ok ds) ∨ parseMergeCells r = .err "Len:merge cells" := by
  unfold parseMergeCells
  by_cases h2 : r.length < 2
  · exact Or.inr (by simp [h2])
  · obtain ⟨c, hc⟩ := readU16At_ok r 0 (by omega)
    simp only [h2, if_false, hc]
    by_cases h8 : r.length < 2 + 8 * c
    · exact Or.inr (by simp [h8])
    · obtain ⟨ds, hds⟩ := mcLoop_ok r c 0 (by omega)
      exact Or.inl ⟨ds, by simp [h8, hds]⟩

/-- the sheet record loop: the regions of all MERGEDCELLS records before the EOF record, concatenated in
    record order; other records contribute nothing -/
theorem sheet_mergecells_exact : ∀ (recs : List (Nat × Bytes)) (blocks : List (List Rect)),
    (∀ r ∈ recs, r.1 ≠ 0x000A) →
    (recs.filter (fun r => r.1 = 0x00E5)).map (·.2) = blocks.map encodeMergedCells →
    (∀ b ∈ blocks, b.length < 8192 ∧ ∀ d ∈ b, d.Fits16) →
    ∀ (after : List (Nat × Bytes)), sheetMergeCells (recs ++ (0x000A, []) :: after) = .ok blocks.flatten
  | [], blocks, _, hb, _, after => by
    cases blocks with
    | nil => simp [sheetMergeCells]
    | cons b bs => simp at hb
  | (typ, data) :: rest, blocks, hne, hb, hfit, after => by
    have hne' : ∀ r ∈ rest, r.1 ≠ 0x000A := fun r hr => hne r (List.mem_cons_of_mem _ hr)
    have htyp : typ ≠ 0x000A := hne (typ, data) (List.mem_cons_self ..)
    by_cases hm : typ = 0x00E5
    · subst hm
      cases blocks with
      | nil => simp at hb
      | cons b bs =>
        simp only [List.filter_cons, decide_true, if_true, List.map_cons, List.cons.injEq] at hb
        obtain ⟨hdata, hrest⟩ := hb
        have hbfit := hfit b (List.mem_cons_self ..)
        have ih := sheet_mergecells_exact rest bs hne' hrest (fun x hx => hfit x (List.mem_cons_of_mem _ hx)) after
        have hp : parseMergeCells data = .ok b := by
          have := mergecells_roundtrip b hbfit.1 hbfit.2 []
          rw [List.append_nil] at this
          rw [hdata]; exact this
        simp only [List.cons_append, sheetMergeCells, hp, ih, List.flatten_cons]
        simp
    · have hf : (List.filter (fun r => decide (r.1 = 0x00E5)) ((typ, data) :: rest)) =
          List.filter (fun r => decide (r.1 = 0x00E5)) rest := by
        rw [List.filter_cons]; simp [hm]
      rw [hf] at hb
      have ih := sheet_mergecells_exact rest blocks hne' hb hfit after
      simp only [List.cons_append, sheetMergeCells, htyp, hm, if_false, ih]

example : parseMergeCells (encodeMergedCells [⟨0, 0, 1, 1⟩, ⟨65535, 255, 65535, 255⟩]) =
    .ok [⟨0, 0, 1, 1⟩, ⟨65535, 255, 65535, 255⟩] := by decide

/-! ## tables -/

/-- the geometry arithmetic (after D17): with `header, totals ∈ {0, 1}` counted rows, no insert row and a
    reference that has room for them, the data rectangle is the reference minus `header` rows at the top
    and `totals` rows at the bottom -/
theorem table_geometry_of (d : Rect) (h t : Nat) (_hh : h ≤ 1) (_ht : t ≤ 1) (hroom : t ≤ d.er)
    (hbig : d.sr + h < U32) :
    tableDimsOf d h t false = .ok ⟨d.sr + h, d.sc, d.er - t, d.ec⟩ := by
  unfold tableDimsOf
  have h1 : ¬ (h ≠ 0 ∧ d.sr + h ≥ U32) := by omega
  have h2 : ¬ (t ≠ 0 ∧ d.er < t) := by omega
  simp only [h1, h2, if_false, Bool.false_eq_true, false_and]
  congr 1
  have e1 : (if h ≠ 0 then d.sr + h else d.sr) = d.sr + h := by split <;> omega
  have e2 : (if t ≠ 0 then d.er - t else d.er) = d.er - t := by split <;> omega
  rw [e1, e2]

/-- `table_geometry`: for every table reference inside the grid, `headerRowCount ∈ {0, 1}` and
    `totalsRowCount ∈ {0, 1}` independently (and no insert row), the data rectangle computed from the `ref`
    text is the reference minus its header rows at the top and its totals rows at the bottom. (A totals row
    on a reference ending in row 1 is `table_geometry_totals_underflow`.) -/
theorem table_geometry (m : Mode) (d : Rect) (hv : d.Valid) (h t : Nat) (hh : h ≤ 1) (ht : t ≤ 1)
    (hroom : t ≤ d.er) :
    tableDims m (renderRef d) h t false = .ok ⟨d.sr + h, d.sc, d.er - t, d.ec⟩ ∧
    tableDims m (renderRef2 d) h t false = .ok ⟨d.sr + h, d.sc, d.er - t, d.ec⟩ := by
  obtain ⟨h1, h2, h3, h4⟩ := hv
  have hbig : d.sr + h < U32 := by simp only [U32]; omega
  unfold tableDims
  rw [getDimension_renderRef m d ⟨h1, h2, h3, h4⟩, getDimension_renderRef2 m d ⟨h1, h2, h3, h4⟩]
  exact ⟨table_geometry_of d h t hh ht hroom hbig, table_geometry_of d h t hh ht hroom hbig⟩

/-- a totals row declared on a reference that ends in row 0 underflows (`u32` subtraction) -/
theorem table_geometry_totals_underflow (d : Rect) (h t : Nat) (ht : t ≠ 0) (hlt : d.er < t)
    (hbig : d.sr + h < U32) (ins : Bool) : ∃ s, tableDimsOf d h t ins = .panic s := by
  unfold tableDimsOf
  have h1 : ¬ (h ≠ 0 ∧ d.sr + h ≥ U32) := by omega
  have h2 : t ≠ 0 ∧ d.er < t := ⟨ht, hlt⟩
  rw [if_neg h1]
  simp only []
  rw [if_pos h2]
  exact ⟨_, rfl⟩

/-- `table_by_name`: the data range has exactly the table's data rectangle as bounds and shows the sheet's
    value at every position of it (the default value where the sheet's used range does not reach) — wherever
    the table lies relative to the used range, for an empty sheet too -/
theorem table_data_spec {α : Type} [Inhabited α] (rng : Range.Rng α) (hi : Range.Inv rng) (d : Rect)
    (t : Range.Rng α) (h : tableData rng d = .ok t) :
    t.start = some (d.sr, d.sc) ∧ t.end_ = some (d.er, d.ec) ∧
    ∀ p q, t.valAt p q = if d.contains p q then rng.valAt p q else default := by
  unfold tableData at h
  obtain ⟨_, _, hs, he⟩ := Range.inv_range rng hi d.sr d.sc d.er d.ec t h
  refine ⟨hs, he, fun p q => ?_⟩
  rw [Range.range_spec rng hi d.sr d.sc d.er d.ec t h p q]
  simp only [Rect.contains, Bool.and_eq_true, decide_eq_true_eq, ge_iff_le]
  by_cases hc : d.sr ≤ p ∧ p ≤ d.er ∧ d.sc ≤ q ∧ q ≤ d.ec
  · rw [if_pos hc, if_pos ⟨⟨⟨hc.1, hc.2.1⟩, hc.2.2.1⟩, hc.2.2.2⟩]
  · rw [if_neg hc, if_neg (fun h' => hc ⟨h'.1.1.1, h'.1.1.2, h'.1.2, h'.2⟩)]

/-- a table without a data row (only header and/or totals rows: the data rectangle would end above its
    start) makes `table_by_name` panic (`Range::new` asserts `start <= end`) -/
theorem table_data_degenerate {α : Type} [Inhabited α] (rng : Range.Rng α) (d : Rect) (hdeg : d.er < d.sr) :
    ∃ s, tableData rng d = .panic s := by
  unfold tableData Range.range Range.new
  have : ¬ (d.sr < d.er ∨ d.sr = d.er ∧ d.sc ≤ d.ec) := by omega
  simp only [this, not_false_eq_true, if_true]
  exact ⟨_, rfl⟩

/-- end to end for one table: a reference inside the grid, 0/1 header rows, 0/1 totals rows, at least one
    data row, fewer than 2^32 data cells; whatever the sheet's range is (any consistent `Range`, empty or
    not, overlapping the table or not): the table's data range is the reference minus header and totals
    rows and shows the sheet's values over it -/
theorem table_exact {α : Type} [Inhabited α] (m : Mode) (rng : Range.Rng α) (hi : Range.Inv rng)
    (d : Rect) (hv : d.Valid) (h t : Nat) (hh : h ≤ 1) (ht : t ≤ 1) (hrows : d.sr + h + t ≤ d.er)
    (harea : (d.er - t - (d.sr + h) + 1) * (d.ec - d.sc + 1) < Range.U32) :
    ∃ dims tbl, tableDims m (renderRef d) h t false = .ok dims ∧ tableData rng dims = .ok tbl ∧
      tbl.start = some (d.sr + h, d.sc) ∧ tbl.end_ = some (d.er - t, d.ec) ∧
      ∀ p q, tbl.valAt p q =
        if d.sr + h ≤ p ∧ p ≤ d.er - t ∧ d.sc ≤ q ∧ q ≤ d.ec then rng.valAt p q else default := by
  have hg := (table_geometry m d hv h t hh ht (by omega)).1
  obtain ⟨h1, h2, h3, h4⟩ := hv
  have hpre : Range.rectPre (d.sr + h) d.sc (d.er - t) d.ec := by
    refine ⟨by omega, h2, ?_, ?_, harea⟩ <;> simp only [Range.U32] <;> omega
  obtain ⟨tbl, htbl⟩ := Range.range_of_pre rng (d.sr + h) d.sc (d.er - t) d.ec hpre
  have hd : tableData rng ⟨d.sr + h, d.sc, d.er - t, d.ec⟩ = .ok tbl := htbl
  obtain ⟨hs, he, hval⟩ := table_data_spec rng hi _ tbl hd
  refine ⟨_, tbl, hg, hd, hs, he, fun p q => ?_⟩
  rw [hval p q]
  simp only [Rect.contains, Bool.and_eq_true, decide_eq_true_eq, ge_iff_le]
  by_cases hc : d.sr + h ≤ p ∧ p ≤ d.er - t ∧ d.sc ≤ q ∧ q ≤ d.ec
  · rw [if_pos hc, if_pos ⟨⟨⟨hc.1, hc.2.1⟩, hc.2.2.1⟩, hc.2.2.2⟩]
  · rw [if_neg hc, if_neg (fun h' => hc ⟨h'.1.1.1, h'.1.1.2, h'.1.2, h'.2⟩)]

/-- the table part reader returns what the part declares: display name, reference text, header/totals
    row counts (schema defaults 1 / 0 when omitted) and the column names in order — under any namespace
    prefix, with unrelated attributes and child elements (an `autoFilter` carrying its own `ref`) around -/
theorem table_part_exact (t : TableDecl) (ht : t.Ok) :
    readTablePart (renderTablePart t) {} [] = .ok (⟨t.name, renderRef2 t.rect, t.h, false, t.t⟩, t.cols) :=
  readTablePart_decl t ht

/-- where a table relationship of a sheet in folder `root/dir` points: `../tables/t.xml` resolves against
    `root`, an absolute part name `/xl/tables/t.xml` is the archive entry `xl/tables/t.xml` -/
theorem table_target_resolution (root dir p : Bytes) (hd : ∀ b ∈ dir, b ≠ 47) :
    tableLocation (root ++ 47 :: dir) (46 :: 46 :: 47 :: p) = .ok (some (root ++ 47 :: p)) ∧
    tableLocation (root ++ 47 :: dir) (47 :: p) = .ok (some p) := by
  rw [tableLocation_resolve root dir _ hd, tableLocation_resolve root dir _ hd]
  exact ⟨by simp [resolveTarget], by simp [resolveTarget]⟩

/-- `read_table_metadata` over the workbook: `Xlsx::tables` holds exactly the declared tables — in sheet
    order, then in the order of the sheet's table relationships —, each with its declared name, the name of
    the sheet that declares it, its column names, and as dimensions the reference minus header and totals
    rows; relationships of other types are ignored, relative and absolute targets are followed -/
theorem table_metadata_exact (m : Mode) (parts : List (Bytes × List Ev)) :
    ∀ (sheets : List SheetTablesDecl), (∀ s ∈ sheets, s.Ok parts) →
      readTableMetadata m parts (sheets.map (fun s => (s.name, s.path))) = .ok (sheets.flatMap (·.entries))
  | [], _ => rfl
  | s :: rest, h => by
    have ih := table_metadata_exact m parts rest (fun x hx => h x (List.mem_cons_of_mem _ hx))
    obtain ⟨hd, hf, hrels, htabs⟩ := h s (List.mem_cons_self ..)
    have hpath := relsPathOf_file (s.root ++ 47 :: s.dir) s.file hf
    simp only [List.map_cons, readTableMetadata, SheetTablesDecl.path, hpath, List.flatMap_cons]
    cases hr : s.rels with
    | none =>
      rw [hr] at hrels
      have hnone : findPart parts ((s.root ++ 47 :: s.dir) ++ [47, 95, 114, 101, 108, 115] ++ (47 :: s.file) ++
          [46, 114, 101, 108, 115]) = none := hrels.1
      simp only [hnone, SheetTablesDecl.entries, hrels.2, List.map_nil, List.nil_append]
      exact ih
    | some ra =>
      obtain ⟨rootAttrs, rs⟩ := ra
      rw [hr] at hrels
      obtain ⟨hfind, hok, hlocs⟩ := hrels
      have hsome : findPart parts ((s.root ++ 47 :: s.dir) ++ [47, 95, 114, 101, 108, 115] ++ (47 :: s.file) ++
          [46, 114, 101, 108, 115]) = some (renderSheetRels rootAttrs rs) := hfind
      have hskip : localName nRelationships ≠ nRelationship := by decide
      have hlocations : tableLocations (s.root ++ 47 :: s.dir) (renderSheetRels rootAttrs rs) =
          .ok (s.tables.map (·.1)) := by
        unfold renderSheetRels
        simp only [tableLocations, hskip, if_false]
        rw [tableLocations_decl s.root s.dir hd rootAttrs rs hok, hlocs]
      simp only [hsome, hlocations, readTables_decl m parts s.name s.tables htabs]
      have ih' : readTableMetadata m parts
          (List.map (fun s => (s.name, s.root ++ 47 :: s.dir ++ 47 :: s.file)) rest) =
          .ok (rest.flatMap (·.entries)) := ih
      rw [ih']
      rfl

/-- the accessors over the loaded list: `table_names` lists the declared names in that order,
    `table_names_in_sheet` those of one sheet, and a table is found under its name with the sheet that
    declares it (`get_table_meta`) when no earlier table bears the same name -/
theorem table_lookup_exact (before after : List TableEntry) (t : TableEntry)
    (huniq : ∀ x ∈ before, x.name ≠ t.name) :
    getTableMeta (before ++ t :: after) t.name = .ok t ∧
    tableNames (before ++ t :: after) = before.map (·.name) ++ t.name :: after.map (·.name) := by
  constructor
  · unfold getTableMeta
    rw [List.find?_append]
    have : before.find? (fun x => decide (x.name = t.name)) = none := by
      rw [List.find?_eq_none]; intro x hx; simpa using huniq x hx
    rw [this]
    simp
  · simp [tableNames]

/-- a table declaration meeting `TableDecl.Ok`: prefix-less, `id`/`name` attributes before `displayName`,
    an `autoFilter` child with its own `ref`, no header row, one totals row, two columns -/
def exTable : TableDecl :=
  { name := [84], rect := ⟨1, 1, 4, 2⟩, hdr := some 0, tot := some 1, cols := [[97], [82, 38, 68]],
    extra := [(['i', 'd'], [49]), (nName, [84])], colExtra := [(['i', 'd'], [49])],
    inner := [.start ['a', 'u', 't', 'o', 'F', 'i', 'l', 't', 'e', 'r'] [(nRef, [66, 50, 58, 67, 52])],
              .end_ ['a', 'u', 't', 'o', 'F', 'i', 'l', 't', 'e', 'r']],
    tail := [.text [10]] }

theorem exTable_ok : exTable.Ok := by
  refine ⟨by decide, by decide, by decide, by decide, ?_, ?_, ?_, ?_, ?_⟩
  · intro e he
    simp only [exTable, List.mem_cons, List.not_mem_nil, or_false] at he
    rcases he with rfl | rfl
    · exact ⟨by decide, by decide⟩
    · show localName _ ≠ nTable; decide
  · intro e he; simp [exTable] at he
  · intro e he
    simp only [exTable, List.mem_cons, List.not_mem_nil, or_false] at he
    subst he; trivial
  · intro h hh; simp only [exTable, Option.some.injEq] at hh; omega
  · intro n hn; simp only [exTable, Option.some.injEq] at hn; subst hn; exact ⟨by omega, by decide⟩

/-- a sheet `x/w/s` whose relationship part lists a hyperlink and a table relationship `../t`, with the
    archive holding both parts: the hypotheses of `table_metadata_exact` are satisfiable -/
example : ∃ parts, (⟨[83], [120], [119], [115],
    some ([], [⟨[104], [46, 46, 47, 116], [], false⟩, ⟨tableRelType, [46, 46, 47, 116], [(nId, [114])], true⟩]),
    [([120, 47, 116], exTable)]⟩ : SheetTablesDecl).Ok parts := by
  refine ⟨[([120, 47, 87, 47, 95, 114, 101, 108, 115, 47, 115, 46, 114, 101, 108, 115],
      renderSheetRels [] [⟨[104], [46, 46, 47, 116], [], false⟩, ⟨tableRelType, [46, 46, 47, 116], [(nId, [114])], true⟩]),
    ([120, 47, 116], renderTablePart exTable)], by decide, by decide, ?_, ?_⟩
  · refine ⟨by decide, ?_, by decide⟩
    intro r hr
    simp only [List.mem_cons, List.not_mem_nil, or_false] at hr
    rcases hr with rfl | rfl
    · intro a ha; simp at ha
    · intro a ha
      simp only [List.mem_cons, List.not_mem_nil, or_false] at ha
      subst ha; exact ⟨by decide, by decide⟩
  · intro p hp
    simp only [List.mem_cons, List.not_mem_nil, or_false] at hp
    subst hp
    exact ⟨by decide, exTable_ok⟩

/-- the ledger's D17 input: `ref="B2:C5"`, no header row, one totals row: the data are rows 2–4 -/
example (m : Mode) : tableDims m (renderRef ⟨1, 1, 4, 2⟩) 0 1 false = .ok ⟨1, 1, 3, 2⟩ :=
  (table_geometry m ⟨1, 1, 4, 2⟩ (by decide) 0 1 (by decide) (by decide) (by decide)).1

end Geometry
