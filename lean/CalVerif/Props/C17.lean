import CalVerif.Lemmas.Geometry
import CalVerif.Lemmas.GeometryXls
import CalVerif.Lemmas.GeometryTable
import CalVerif.Props.C05
/-! # C17 — merged regions and tables are reported with the geometry the file declares
    Property theorems only (helper lemmas live in `Lemmas/Geometry.lean`).

    Every theorem about `get_dimension` and its callers is stated for an arbitrary `Mode`, i.e. for the
    checked-arithmetic and for the saturating-arithmetic variant of the code alike (see `Model/Geometry.lean`).
    The XML layer is not modelled: the statements start at the event list (`Spec/Geometry.lean` renders the
    declarations as events under any namespace prefix and between arbitrary inert events). -/
namespace Geometry
set_option linter.unusedSectionVars false

/-! ## reference texts -/

/-- every cell name of the grid `A1 … XFD1048576` parses to its 0-based coordinates -/
theorem cell_roundtrip (m : Mode) (row col : Nat) (hr : row < 1048576) (hc : col < 16384) :
    getRowColumn m (renderCell row col) = .ok (row, col) :=
  getRowColumn_renderCell m row col hr hc

/-- `get_dimension` maps the reference text of every well-ordered rectangle up to `XFD1048576` back to that
    rectangle: in the form Excel writes (`B2` for one cell, `B2:D7` otherwise) and in the two-corner form
    (`B2:B2` for one cell) -/
theorem dimension_roundtrip (m : Mode) (d : Rect) (hv : d.Valid) :
    getDimension m (renderRef d) = .ok d ∧ getDimension m (renderRef2 d) = .ok d :=
  ⟨getDimension_renderRef m d hv, getDimension_renderRef2 m d hv⟩

/-- a single-cell reference denotes the one-cell rectangle -/
theorem dimension_single_cell (m : Mode) (row col : Nat) (hr : row < 1048576) (hc : col < 16384) :
    getDimension m (renderCell row col) = .ok ⟨row, col, row, col⟩ :=
  getDimension_renderCell m row col hr hc

example : (⟨0, 26, 1048575, 16383⟩ : Rect).Valid := by decide
example : renderRef ⟨0, 26, 1048575, 16383⟩ = [65, 65, 49, 58, 88, 70, 68, 49, 48, 52, 56, 53, 55, 54] := by decide
example : renderRef ⟨6, 701, 6, 701⟩ = [90, 90, 55] := by decide

/-! ## xlsx merged regions -/

/-- `read_merged_regions` (one sheet) and `worksheet_merge_cells` both return exactly the regions the sheet
    declares — same count, same order, same corners — whatever the namespace prefix, the other attributes of
    the `mergeCell` elements, the spelling of a one-cell region and the (inert) events around and between them;
    a sheet without a `mergeCells` element has none -/
theorem merge_regions_exact (m : Mode) (s : SheetDecl) (hs : s.Ok) :
    regionsOfSheet m s.events = .ok s.regions ∧ worksheetMergeCells m s.events = .ok s.regions := by
  obtain ⟨hp, hb, ha, hd, hmc⟩ := hs
  have hl := localName_qn s.pre nMergeCells hp nMergeCells_noColon
  unfold SheetDecl.events SheetDecl.regions
  by_cases hmc' : s.mc = true
  · simp only [hmc', if_true, renderSheet, List.append_assoc, List.cons_append]
    constructor
    · rw [regionsOfSheet_inert m s.before _ hb]
      simp only [regionsOfSheet, hl, nMergeCell_ne.symm, if_false]
      exact regionsOfSheet_render m s.pre hp s.after ha s.merges hd
    · rw [worksheetMergeCells_inert m s.before _ hb]
      simp only [worksheetMergeCells, hl, if_true]
      rw [readMergeCells_render m s.pre hp s.after s.merges hd]
  · have hf : s.mc = false := by simpa using hmc'
    have hnil := hmc hf
    simp only [hf, Bool.false_eq_true, if_false, hnil, List.map_nil]
    have hall : ∀ e ∈ s.before ++ s.after, e.Inert := by
      intro e he
      rcases List.mem_append.mp he with h | h
      · exact hb e h
      · exact ha e h
    have h1 := regionsOfSheet_inert m (s.before ++ s.after) [] hall
    have h2 := worksheetMergeCells_inert m (s.before ++ s.after) [] hall
    simp only [List.append_nil] at h1 h2
    rw [h1, h2]
    exact ⟨rfl, rfl⟩

/-- `read_merged_regions` over the workbook: the list is the declared regions of every sheet in sheet order,
    each attributed to the name and part path of the sheet that declares it -/
theorem merged_regions_attribution (m : Mode) : ∀ (sheets : List SheetDecl), (∀ s ∈ sheets, s.Ok) →
    mergedRegions m (sheets.map (·.part)) =
      .ok (sheets.flatMap (fun s => s.regions.map (fun d => (s.name, s.path, d))))
  | [], _ => rfl
  | s :: rest, h => by
    have ih := merged_regions_attribution m rest (fun x hx => h x (List.mem_cons_of_mem _ hx))
    have hs := (merge_regions_exact m s (h s (List.mem_cons_self ..))).1
    have hpart : s.part = ⟨s.name, s.path, some s.events⟩ := rfl
    simp only [List.map_cons, hpart, mergedRegions, hs, ih, List.flatMap_cons]

/-- `merged_regions_by_sheet`: for a sheet whose name no other sheet bears, exactly its own declared regions -/
theorem merged_regions_by_sheet_exact (m : Mode) (pre post : List SheetDecl) (s : SheetDecl)
    (hok : ∀ x ∈ pre ++ s :: post, x.Ok) (huniq : ∀ x ∈ pre ++ post, x.name ≠ s.name)
    (all : List (Bytes × Bytes × Rect)) (h : mergedRegions m ((pre ++ s :: post).map (·.part)) = .ok all) :
    mergedRegionsBySheet all s.name = s.regions.map (fun d => (s.name, s.path, d)) := by
  rw [merged_regions_attribution m _ hok] at h
  injection h with h
  subst h
  unfold mergedRegionsBySheet
  have hnone : ∀ (l : List SheetDecl), (∀ x ∈ l, x.name ≠ s.name) →
      (l.flatMap (fun s' => s'.regions.map (fun d => (s'.name, s'.path, d)))).filter (fun r => r.1 = s.name) = [] := by
    intro l hl
    rw [List.filter_eq_nil_iff]
    intro r hr
    obtain ⟨x, hx, hr⟩ := List.mem_flatMap.mp hr
    obtain ⟨d, _, rfl⟩ := List.mem_map.mp hr
    simpa using hl x hx
  have hself : (s.regions.map (fun d => (s.name, s.path, d))).filter (fun r => r.1 = s.name) =
      s.regions.map (fun d => (s.name, s.path, d)) := by
    rw [List.filter_eq_self]
    intro r hr
    obtain ⟨d, _, rfl⟩ := List.mem_map.mp hr
    simp
  rw [List.flatMap_append, List.flatMap_cons, List.filter_append, List.filter_append,
    hnone pre (fun x hx => huniq x (List.mem_append_left _ hx)),
    hnone post (fun x hx => huniq x (List.mem_append_right _ hx)), hself]
  simp

/-- a non-trivial sheet declaration meeting `SheetDecl.Ok`: prefix `x`, a text node before, two regions, the
    second a single cell spelled with two corners after an unrelated attribute -/
example : (⟨[83], [112], ['x'], [.text [10]], true,
    [{ rect := ⟨1, 1, 3, 2⟩ }, { rect := ⟨1048575, 16383, 1048575, 16383⟩, two := true, a1 := [(['i', 'd'], [49])], gap := [.text [32]] }],
    [.end_ ['x', ':', 'w', 'o', 'r', 'k', 's', 'h', 'e', 'e', 't']]⟩ : SheetDecl).Ok := by
  refine ⟨by decide, ?_, ?_, ?_, by decide⟩
  · intro e he; simp at he; subst he; trivial
  · intro e he; simp at he; subst he; simp [Ev.Inert, localName, nMergeCells]
  · intro d hd
    simp at hd
    rcases hd with rfl | rfl
    · exact ⟨by decide, by simp, by simp⟩
    · refine ⟨by decide, ?_, ?_⟩
      · intro a ha; simp at ha; subst ha; decide
      · intro e he; simp at he; subst he; trivial

/-- `Xlsx::worksheet_merge_cells(name)` and `worksheet_merge_cells_at(n)`: the first sheet bearing the name
    (`n` = its index in the metadata) yields exactly its declared regions; a name no sheet bears yields `None` -/
theorem worksheet_merge_cells_at_exact (m : Mode) (pre post : List SheetDecl) (s : SheetDecl) (hok : s.Ok)
    (huniq : ∀ x ∈ pre, x.name ≠ s.name) :
    worksheetMergeCellsByName m ((pre ++ s :: post).map (·.part)) s.name = some (.ok s.regions) ∧
    worksheetMergeCellsAt ((pre ++ s :: post).map (·.name))
      (worksheetMergeCellsByName m ((pre ++ s :: post).map (·.part))) pre.length = some (.ok s.regions) ∧
    ∀ other, (∀ x ∈ pre ++ s :: post, x.name ≠ other) →
      worksheetMergeCellsByName m ((pre ++ s :: post).map (·.part)) other = none := by
  have hby : worksheetMergeCellsByName m ((pre ++ s :: post).map (·.part)) s.name = some (.ok s.regions) := by
    unfold worksheetMergeCellsByName
    rw [List.map_append, List.find?_append]
    have hnone : (pre.map (·.part)).find? (fun p => decide (p.name = s.name)) = none := by
      rw [List.find?_eq_none]
      intro p hp
      obtain ⟨x, hx, rfl⟩ := List.mem_map.mp hp
      have := huniq x hx
      intro hd
      exact this (of_decide_eq_true hd)
    rw [hnone]
    simp only [List.map_cons, Option.none_or]
    rw [List.find?_cons_of_pos (by simp [SheetDecl.part])]
    simp only [SheetDecl.part, Option.map_some, (merge_regions_exact m s hok).2]
  refine ⟨hby, ?_, ?_⟩
  · have := worksheetMergeCellsAt_nth (pre.map (·.name)) (post.map (·.name)) s.name
      (worksheetMergeCellsByName m ((pre ++ s :: post).map (·.part)))
    rw [hby, List.length_map] at this
    rw [List.map_append, List.map_cons]
    exact this
  · intro other hother
    unfold worksheetMergeCellsByName
    have : ((pre ++ s :: post).map (·.part)).find? (fun p => decide (p.name = other)) = none := by
      rw [List.find?_eq_none]
      intro p hp
      obtain ⟨x, hx, rfl⟩ := List.mem_map.mp hp
      have := hother x hx
      intro hd
      exact this (of_decide_eq_true hd)
    rw [this]

/-! ## xls merged regions -/

/-- `parse_merge_cells` decodes the payload of a MERGEDCELLS record to exactly the encoded regions (count,
    order, corners), for any number of regions a record can hold and every `u16` coordinate (so in particular
    up to `IV65536`); bytes after the last entry are ignored -/
theorem mergecells_roundtrip (ds : List Rect) (hn : ds.length < 8192) (hfit : ∀ d ∈ ds, d.Fits16)
    (tail : Bytes) : parseMergeCells (encodeMergedCells ds ++ tail) = .ok ds := by
  unfold parseMergeCells encodeMergedCells
  have h0 : readU16At (u16le ds.length ++ ds.flatMap encodeRef8 ++ tail) 0 = .ok ds.length := by
    have := readU16At_u16le [] (ds.flatMap encodeRef8 ++ tail) ds.length 0 (by omega) rfl
    simpa [List.append_assoc] using this
  have hlen : (u16le ds.length ++ ds.flatMap encodeRef8 ++ tail).length = 2 + 8 * ds.length + tail.length := by
    simp only [List.length_append, u16le_length, flatMap_encodeRef8_length]
  rw [if_neg (by omega), h0]
  simp only []
  rw [if_neg (by omega)]
  have := mcLoop_encode (u16le ds.length) rfl tail ds [] (by simpa using hn) hfit
  simpa [List.append_assoc] using this

/-- `parse_merge_cells` answers `Ok` or `Err` on every payload, never a panic (true since the length checks
    of the robustness fix): a record shorter than its count or than the entries it announces is `Len`, any
    other record yields its regions -/
theorem parse_merge_cells_no_panic (r : Bytes) :
    (∃ ds, parseMergeCells r = .ok ds) ∨ parseMergeCells r = .err "Len:merge cells" := by
  unfold parseMergeCells
  by_cases h2 : r.length < 2
  · exact Or.inr (by simp [h2])
  · obtain ⟨c, hc⟩ := readU16At_ok r 0 (by omega)
    simp only [h2, if_false, hc]
    by_cases h8 : r.length < 2 + 8 * c
    · exact Or.inr (by simp [h8])
    · obtain ⟨ds, hds⟩ := mcLoop_ok r c 0 (by omega)
      exact Or.inl ⟨ds, by simp [h8, hds]⟩

/-- the sheet record loop: the regions of all MERGEDCELLS records before the EOF record, concatenated in
    record order; other records contribute nothing -/
theorem sheet_mergecells_exact : ∀ (recs : List (Nat × Bytes)) (blocks : List (List Rect)),
    (∀ r ∈ recs, r.1 ≠ 0x000A) →
    (recs.filter (fun r => r.1 = 0x00E5)).map (·.2) = blocks.map encodeMergedCells →
    (∀ b ∈ blocks, b.length < 8192 ∧ ∀ d ∈ b, d.Fits16) →
    ∀ (after : List (Nat × Bytes)), sheetMergeCells (recs ++ (0x000A, []) :: after) = .ok blocks.flatten
  | [], blocks, _, hb, _, after => by
    cases blocks with
    | nil => simp [sheetMergeCells]
    | cons b bs => simp at hb
  | (typ, data) :: rest, blocks, hne, hb, hfit, after => by
    have hne' : ∀ r ∈ rest, r.1 ≠ 0x000A := fun r hr => hne r (List.mem_cons_of_mem _ hr)
    have htyp : typ ≠ 0x000A := hne (typ, data) (List.mem_cons_self ..)
    by_cases hm : typ = 0x00E5
    · subst hm
      cases blocks with
      | nil => simp at hb
      | cons b bs =>
        simp only [List.filter_cons, decide_true, if_true, List.map_cons, List.cons.injEq] at hb
        obtain ⟨hdata, hrest⟩ := hb
        have hbfit := hfit b (List.mem_cons_self ..)
        have ih := sheet_mergecells_exact rest bs hne' hrest (fun x hx => hfit x (List.mem_cons_of_mem _ hx)) after
        have hp : parseMergeCells data = .ok b := by
          have := mergecells_roundtrip b hbfit.1 hbfit.2 []
          rw [List.append_nil] at this
          rw [hdata]; exact this
        simp only [List.cons_append, sheetMergeCells, hp, ih, List.flatten_cons]
        simp
    · have hf : (List.filter (fun r => decide (r.1 = 0x00E5)) ((typ, data) :: rest)) =
          List.filter (fun r => decide (r.1 = 0x00E5)) rest := by
        rw [List.filter_cons]; simp [hm]
      rw [hf] at hb
      have ih := sheet_mergecells_exact rest blocks hne' hb hfit after
      simp only [List.cons_append, sheetMergeCells, htyp, hm, if_false, ih]

example : parseMergeCells (encodeMergedCells [⟨0, 0, 1, 1⟩, ⟨65535, 255, 65535, 255⟩]) =
    .ok [⟨0, 0, 1, 1⟩, ⟨65535, 255, 65535, 255⟩] := by decide

/-- workbook level: `Xls::worksheet_merge_cells(name)` — and `worksheet_merge_cells_at(n)` for the sheet's index `n`
    in the metadata — returns the regions of the substream that starts at
    the BoundSheet8 offset of the sheet bearing that name — the declared regions of *that* sheet, in record
    order —, for a sheet list `(lbPlyPos, name)` in which no later sheet repeats the name (a `BTreeMap` keeps the
    last). Hypotheses: every substream's loop ends normally (otherwise `Xls::new` fails as a whole), and the
    records `RecordIter` yields at that offset are `recs` followed by an EOF record (`BiffCells.items_frame`
    shows this for every framed sequence of CONTINUE-free records), whose MERGEDCELLS records carry the blocks. -/
theorem xls_merge_attribution {κ : Type} [DecidableEq κ] (stream : Bytes) (pre post : List (Nat × κ))
    (pos : Nat) (name : κ)
    (hall : ∀ s ∈ pre ++ (pos, name) :: post, s.1 ≤ stream.length ∧
      ∃ ds, sheetMergeItems (BiffCells.items (stream.drop s.1)) = .ok ds)
    (huniq : ∀ s ∈ post, s.2 ≠ name)
    (recs : List Biff.Rec) (d : Bytes) (c : List Bytes) (tail : List BiffCells.Item)
    (hitems : BiffCells.items (stream.drop pos) = recs.map .record ++ .record ⟨0x000A, d, c⟩ :: tail)
    (hne : ∀ r ∈ recs, r.typ ≠ 0x000A) (blocks : List (List Rect))
    (hb : ((recs.map (fun r => (r.typ, r.data))).filter (fun r => r.1 = 0x00E5)).map (·.2) =
      blocks.map encodeMergedCells)
    (hfit : ∀ b ∈ blocks, b.length < 8192 ∧ ∀ x ∈ b, x.Fits16) :
    ∃ map, xlsSheetsMerges stream (pre ++ (pos, name) :: post) [] = .ok map ∧
      xlsWorksheetMergeCells map name = some blocks.flatten ∧
      worksheetMergeCellsAt ((pre ++ (pos, name) :: post).map (·.2)) (xlsWorksheetMergeCells map) pre.length =
        some blocks.flatten := by
  obtain ⟨map, hmap, hA, _⟩ := xlsSheetsMerges_lookup stream (pre ++ (pos, name) :: post) [] hall
  obtain ⟨ds, hds, hlook⟩ := hA pre pos name post rfl huniq
  suffices hby : xlsWorksheetMergeCells map name = some blocks.flatten by
    refine ⟨map, hmap, hby, ?_⟩
    have := worksheetMergeCellsAt_nth (pre.map (·.2)) (post.map (·.2)) name (xlsWorksheetMergeCells map)
    simpa [hby] using this
  rw [hlook]
  rw [hitems, sheetMergeItems_records d c tail recs] at hds
  have hne' : ∀ r ∈ recs.map (fun r => (r.typ, r.data)), r.1 ≠ 0x000A := by
    intro r hr
    obtain ⟨x, hx, rfl⟩ := List.mem_map.mp hr
    exact hne x hx
  rw [sheet_mergecells_exact _ blocks hne' hb hfit []] at hds
  injection hds with hds
  rw [hds]

/-! ## tables -/

/-- `table_geometry`: for every table reference inside the grid, `headerRowCount ∈ {0, 1}` and, independently,
    `totalsRowCount ∈ {0, 1}` — indeed any totals count — (and no insert row): the data rectangle computed from the `ref`
    text is the reference minus its header rows at the top and its totals rows at the bottom when that
    leaves a data row, and the empty rectangle otherwise (after D17 and the robustness fix) -/
theorem table_geometry (m : Mode) (d : Rect) (hv : d.Valid) (h t : Nat) (hh : h ≤ 1) :
    let data : Rect := if d.sr + h + t ≤ d.er then ⟨d.sr + h, d.sc, d.er - t, d.ec⟩ else emptyRect d
    tableDims m (renderRef d) h t false = .ok data ∧ tableDims m (renderRef2 d) h t false = .ok data := by
  obtain ⟨h1, h2, h3, h4⟩ := hv
  have hbig : d.sr + h < U32 := by simp only [U32]; omega
  intro data
  have hd : tableDimsOf d h t false = data := by
    show _ = if d.sr + h + t ≤ d.er then _ else _
    by_cases hrow : d.sr + h + t ≤ d.er
    · rw [if_pos hrow]; exact tableDimsOf_data d h t hrow hbig
    · rw [if_neg hrow]
      unfold tableDimsOf
      simp only [Bool.false_eq_true, if_false, Nat.add_zero, Nat.sub_zero]
      rw [if_neg (by omega)]
  unfold tableDims
  rw [getDimension_renderRef m d ⟨h1, h2, h3, h4⟩, getDimension_renderRef2 m d ⟨h1, h2, h3, h4⟩]
  simp only [hd, and_self]

/-- `table_by_name` on a table with a data row: the data range has exactly the data rectangle as bounds
    and shows the sheet's value at every position of it (the default value where the sheet's used range does
    not reach) — wherever the table lies relative to the used range, for an empty sheet too; on an empty or
    reversed rectangle the result is the empty range. In both cases `valAt` is the sheet's value inside the
    rectangle and the default outside. -/
theorem table_data_spec {α : Type} [Inhabited α] (rng : Range.Rng α) (hi : Range.Inv rng) (d : Rect)
    (t : Range.Rng α) (h : tableData rng d = .ok t) :
    (d.sr ≤ d.er ∧ d.sc ≤ d.ec → t.start = some (d.sr, d.sc) ∧ t.end_ = some (d.er, d.ec)) ∧
    (¬ (d.sr ≤ d.er ∧ d.sc ≤ d.ec) → t = Range.empty) ∧
    ∀ p q, t.valAt p q = if d.contains p q then rng.valAt p q else default := by
  by_cases hord : d.sr ≤ d.er ∧ d.sc ≤ d.ec
  · rw [tableData_range rng d hord] at h
    obtain ⟨_, _, hs, he⟩ := Range.inv_range rng hi d.sr d.sc d.er d.ec t h
    refine ⟨fun _ => ⟨hs, he⟩, fun hn => absurd hord hn, fun p q => ?_⟩
    rw [Range.range_spec rng hi d.sr d.sc d.er d.ec t h p q]
    simp only [Rect.contains, Bool.and_eq_true, decide_eq_true_eq, ge_iff_le]
    by_cases hc : d.sr ≤ p ∧ p ≤ d.er ∧ d.sc ≤ q ∧ q ≤ d.ec
    · rw [if_pos hc, if_pos ⟨⟨⟨hc.1, hc.2.1⟩, hc.2.2.1⟩, hc.2.2.2⟩]
    · rw [if_neg hc, if_neg (fun h' => hc ⟨h'.1.1.1, h'.1.1.2, h'.1.2, h'.2⟩)]
  · rw [tableData_empty rng d (by omega)] at h
    injection h with h
    subst h
    refine ⟨fun hn => absurd hn hord, fun _ => rfl, fun p q => ?_⟩
    have hout : ¬ (d.contains p q = true) := by
      simp only [Rect.contains, Bool.and_eq_true, decide_eq_true_eq, ge_iff_le]
      omega
    rw [if_neg hout]
    simp [Range.Rng.valAt, Range.empty]

/-- `table_degenerate_empty`: a table whose header rows, totals rows and insert row leave no data row —
    whatever the counts, including a totals row on a reference ending in row 1 (the former `u32` underflow) and
    counts larger than the reference — gets the empty rectangle, and `table_by_name` returns it with an empty
    data range: `Ok`, never a panic -/
theorem table_degenerate_empty {α : Type} [Inhabited α] (rng : Range.Rng α) (d : Rect) (h t : Nat) (ins : Bool)
    (hdeg : d.er < d.sr + h + t + (if ins then 1 else 0)) :
    tableDimsOf d h t ins = emptyRect d ∧ tableData rng (tableDimsOf d h t ins) = .ok Range.empty := by
  have hd : tableDimsOf d h t ins = emptyRect d := by
    unfold tableDimsOf
    simp only
    rw [if_neg (by omega)]
  rw [hd]
  exact ⟨rfl, tableData_empty rng _ (.inl (by simp [emptyRect]))⟩

/-- `table_by_name_no_panic`: for the code of the tree (saturating reference parser), any `ref` text
    whatsoever, any header/totals counts, any `insertRow`, any sheet range: `read_table_metadata`'s geometry
    step returns `Err` (unparsable reference) or a rectangle, and `table_by_name` on that rectangle returns
    `Ok` provided its cell count fits `u32` — the dense allocation of `Range::new` beyond that is the known
    memory finding D37 (C06), not a property of the table code -/
theorem table_by_name_no_panic {α : Type} [Inhabited α] (m : Mode) (hm : m.satArith = true) (hd : m.satDim = true)
    (ref : Bytes) (h t : Nat) (ins : Bool) (rng : Range.Rng α) :
    (∃ e, tableDims m ref h t ins = .err e) ∨
    (∃ d, tableDims m ref h t ins = .ok d ∧
      ((d.er - d.sr + 1) * (d.ec - d.sc + 1) < Range.U32 → ∃ tbl, tableData rng d = .ok tbl)) := by
  unfold tableDims
  rcases getDimension_fine m hm hd ref with ⟨d0, h0⟩ | ⟨e, h0⟩
  · rw [h0]
    refine .inr ⟨_, rfl, fun harea => ?_⟩
    generalize tableDimsOf d0 h t ins = d at harea ⊢
    by_cases hord : d.sr ≤ d.er ∧ d.sc ≤ d.ec
    · rw [tableData_range rng d hord]
      have hr : 1 ≤ d.er - d.sr + 1 := by omega
      have hc : 1 ≤ d.ec - d.sc + 1 := by omega
      have h1 : d.er - d.sr + 1 ≤ (d.er - d.sr + 1) * (d.ec - d.sc + 1) := Nat.le_mul_of_pos_right _ hc
      have h2 : d.ec - d.sc + 1 ≤ (d.er - d.sr + 1) * (d.ec - d.sc + 1) := Nat.le_mul_of_pos_left _ hr
      exact Range.range_of_pre rng d.sr d.sc d.er d.ec ⟨hord.1, hord.2, by omega, by omega, harea⟩
    · exact ⟨_, tableData_empty rng d (by omega)⟩
  · rw [h0]; exact .inl ⟨e, rfl⟩

/-- end to end for one table: a reference inside the grid, 0/1 header rows, any number of totals rows, at least one
    data row, fewer than 2^32 data cells; whatever the sheet's range is (any consistent `Range`, empty or
    not, overlapping the table or not): the table's data range is the reference minus header and totals
    rows and shows the sheet's values over it -/
theorem table_exact {α : Type} [Inhabited α] (m : Mode) (rng : Range.Rng α) (hi : Range.Inv rng)
    (d : Rect) (hv : d.Valid) (h t : Nat) (hh : h ≤ 1) (hrows : d.sr + h + t ≤ d.er)
    (harea : (d.er - t - (d.sr + h) + 1) * (d.ec - d.sc + 1) < Range.U32) :
    ∃ dims tbl, tableDims m (renderRef d) h t false = .ok dims ∧ tableData rng dims = .ok tbl ∧
      tbl.start = some (d.sr + h, d.sc) ∧ tbl.end_ = some (d.er - t, d.ec) ∧
      ∀ p q, tbl.valAt p q =
        if d.sr + h ≤ p ∧ p ≤ d.er - t ∧ d.sc ≤ q ∧ q ≤ d.ec then rng.valAt p q else default := by
  have hg := (table_geometry m d hv h t hh).1
  simp only [if_pos hrows] at hg
  obtain ⟨h1, h2, h3, h4⟩ := hv
  have hpre : Range.rectPre (d.sr + h) d.sc (d.er - t) d.ec := by
    refine ⟨by omega, h2, ?_, ?_, harea⟩ <;> simp only [Range.U32] <;> omega
  obtain ⟨tbl, htbl⟩ := Range.range_of_pre rng (d.sr + h) d.sc (d.er - t) d.ec hpre
  have hd : tableData rng ⟨d.sr + h, d.sc, d.er - t, d.ec⟩ = .ok tbl := by
    have hord : (⟨d.sr + h, d.sc, d.er - t, d.ec⟩ : Rect).sr ≤ (⟨d.sr + h, d.sc, d.er - t, d.ec⟩ : Rect).er ∧
        (⟨d.sr + h, d.sc, d.er - t, d.ec⟩ : Rect).sc ≤ (⟨d.sr + h, d.sc, d.er - t, d.ec⟩ : Rect).ec :=
      ⟨by show d.sr + h ≤ d.er - t; omega, h2⟩
    rw [tableData_range rng ⟨d.sr + h, d.sc, d.er - t, d.ec⟩ hord]; exact htbl
  obtain ⟨hse, _, hval⟩ := table_data_spec rng hi _ tbl hd
  obtain ⟨hs, he⟩ := hse ⟨by show d.sr + h ≤ d.er - t; omega, h2⟩
  refine ⟨_, tbl, hg, hd, hs, he, fun p q => ?_⟩
  rw [hval p q]
  simp only [Rect.contains, Bool.and_eq_true, decide_eq_true_eq, ge_iff_le]
  by_cases hc : d.sr + h ≤ p ∧ p ≤ d.er - t ∧ d.sc ≤ q ∧ q ≤ d.ec
  · rw [if_pos hc, if_pos ⟨⟨⟨hc.1, hc.2.1⟩, hc.2.2.1⟩, hc.2.2.2⟩]
  · rw [if_neg hc, if_neg (fun h' => hc ⟨h'.1.1.1, h'.1.1.2, h'.1.2, h'.2⟩)]

/-- the table part reader returns what the part declares: display name, reference text, header/totals
    row counts (schema defaults 1 / 0 when omitted) and the column names in order — under any namespace
    prefix, with unrelated attributes and child elements (an `autoFilter` carrying its own `ref`) around -/
theorem table_part_exact (t : TableDecl) (ht : t.Ok) :
    readTablePart (renderTablePart t) {} [] = .ok (⟨t.name, renderRef2 t.rect, t.h, false, t.t⟩, t.cols) :=
  readTablePart_decl t ht

/-- where a table relationship of a sheet in folder `root/dir` points: `../tables/t.xml` resolves against
    `root`, an absolute part name `/xl/tables/t.xml` is the archive entry `xl/tables/t.xml` -/
theorem table_target_resolution (root dir p : Bytes) (hd : ∀ b ∈ dir, b ≠ 47) :
    tableLocation (root ++ 47 :: dir) (46 :: 46 :: 47 :: p) = .ok (some (root ++ 47 :: p)) ∧
    tableLocation (root ++ 47 :: dir) (47 :: p) = .ok (some p) := by
  rw [tableLocation_resolve root dir _ hd, tableLocation_resolve root dir _ hd]
  exact ⟨by simp [resolveTarget], by simp [resolveTarget]⟩

/-- `table_location_no_panic`: the resolution of a table relationship target returns for arbitrary byte
    strings — sheet folder and target — and a `../` target of a sheet part stored directly in a top-level
    folder (no parent inside the part name) resolves against the package root (since fix d0ab106; the pinned
    code panicked with "Must be a parent folder") -/
theorem table_location_no_panic (base target : Bytes) :
    (∃ o, tableLocation base target = .ok o) ∧
    ((∀ b ∈ base, b ≠ 47) → ∀ p, tableLocation base (46 :: 46 :: 47 :: p) = .ok (some p)) := by
  constructor
  · unfold tableLocation
    split
    · cases rfindSlash base <;> exact ⟨_, rfl⟩
    · split
      · exact ⟨_, rfl⟩
      · split <;> exact ⟨_, rfl⟩
  · intro hb p
    unfold tableLocation
    simp [rfindSlash_noSlash base hb]

/-- `rels_path_no_panic`: every sheet path `read_workbook` stores starts with `xl/` (its three arms produce
    `xl/…`), so the `rfind('/').expect("should be in a folder")` of `read_table_metadata` cannot fail -/
theorem rels_path_no_panic (rest : Bytes) : ∃ r, relsPathOf (120 :: 108 :: 47 :: rest) = .ok r := by
  unfold relsPathOf
  have hsome := rfindSlash_xl rest
  obtain ⟨i, hi⟩ := hsome
  rw [hi]
  exact ⟨_, rfl⟩

/-- `read_table_metadata` over the workbook: `Xlsx::tables` holds exactly the declared tables — in sheet
    order, then in the order of the sheet's table relationships —, each with its declared name, the name of
    the sheet that declares it, its column names, and as dimensions the reference minus header and totals
    rows; relationships of other types are ignored, relative and absolute targets are followed -/
theorem table_metadata_exact (m : Mode) (parts : List (Bytes × List Ev)) :
    ∀ (sheets : List SheetTablesDecl), (∀ s ∈ sheets, s.Ok parts) →
      readTableMetadata m parts (sheets.map (fun s => (s.name, s.path))) = .ok (sheets.flatMap (·.entries))
  | [], _ => rfl
  | s :: rest, h => by
    have ih := table_metadata_exact m parts rest (fun x hx => h x (List.mem_cons_of_mem _ hx))
    obtain ⟨hd, hf, hrels, htabs⟩ := h s (List.mem_cons_self ..)
    have hpath := relsPathOf_file (s.root ++ 47 :: s.dir) s.file hf
    simp only [List.map_cons, readTableMetadata, SheetTablesDecl.path, hpath, List.flatMap_cons]
    cases hr : s.rels with
    | none =>
      rw [hr] at hrels
      have hnone : findPart parts ((s.root ++ 47 :: s.dir) ++ [47, 95, 114, 101, 108, 115] ++ (47 :: s.file) ++
          [46, 114, 101, 108, 115]) = none := hrels.1
      simp only [hnone, SheetTablesDecl.entries, hrels.2, List.map_nil, List.nil_append]
      exact ih
    | some ra =>
      obtain ⟨rootAttrs, rs⟩ := ra
      rw [hr] at hrels
      obtain ⟨hfind, hok, hlocs⟩ := hrels
      have hsome : findPart parts ((s.root ++ 47 :: s.dir) ++ [47, 95, 114, 101, 108, 115] ++ (47 :: s.file) ++
          [46, 114, 101, 108, 115]) = some (renderSheetRels rootAttrs rs) := hfind
      have hskip : localName nRelationships ≠ nRelationship := by decide
      have hlocations : tableLocations (s.root ++ 47 :: s.dir) (renderSheetRels rootAttrs rs) =
          .ok (s.tables.map (·.1)) := by
        unfold renderSheetRels
        simp only [tableLocations, hskip, if_false]
        rw [tableLocations_decl s.root s.dir hd rootAttrs rs hok, hlocs]
      simp only [hsome, hlocations, readTables_decl m parts s.name s.tables htabs]
      have ih' : readTableMetadata m parts
          (List.map (fun s => (s.name, s.root ++ 47 :: s.dir ++ 47 :: s.file)) rest) =
          .ok (rest.flatMap (·.entries)) := ih
      rw [ih']
      rfl

/-- `table_names_in_sheet(s)`: the names of the tables the sheet `s` declares, in load order — for the list
    `read_table_metadata` produces (`table_metadata_exact`) and a sheet name no other sheet bears -/
theorem table_names_in_sheet_exact (pre post : List SheetTablesDecl) (s : SheetTablesDecl)
    (huniq : ∀ x ∈ pre ++ post, x.name ≠ s.name) :
    tableNamesInSheet ((pre ++ s :: post).flatMap (·.entries)) s.name = s.tables.map (·.2.name) ∧
    tableNames ((pre ++ s :: post).flatMap (·.entries)) =
      (pre ++ s :: post).flatMap (fun x => x.tables.map (·.2.name)) := by
  constructor
  · unfold tableNamesInSheet
    have hnone : ∀ (l : List SheetTablesDecl), (∀ x ∈ l, x.name ≠ s.name) →
        (l.flatMap (·.entries)).filter (fun t => t.sheet = s.name) = [] := by
      intro l hl
      rw [List.filter_eq_nil_iff]
      intro t ht
      obtain ⟨x, hx, ht⟩ := List.mem_flatMap.mp ht
      obtain ⟨p, _, rfl⟩ := List.mem_map.mp ht
      simpa using hl x hx
    have hself : s.entries.filter (fun t => t.sheet = s.name) = s.entries := by
      rw [List.filter_eq_self]
      intro t ht
      obtain ⟨p, _, rfl⟩ := List.mem_map.mp ht
      simp
    rw [List.flatMap_append, List.flatMap_cons, List.filter_append, List.filter_append,
      hnone pre (fun x hx => huniq x (List.mem_append_left _ hx)),
      hnone post (fun x hx => huniq x (List.mem_append_right _ hx)), hself]
    simp [SheetTablesDecl.entries]
  · simp only [tableNames, SheetTablesDecl.entries, List.map_flatMap, List.map_map]
    rfl

/-- `table_by_name` / `table_by_name_ref` and the getters of `Table`: the table found under a name carries the
    name, sheet name and column names of its entry of the loaded list (the declared ones, `table_metadata_exact`),
    its `data()` is the data window of that sheet's range (`table_data_spec`), and `Range::from(table)` is that
    `data` -/
theorem table_by_name_accessors {α : Type} [Inhabited α] (ts : List TableEntry)
    (sheetRange : Bytes → Res (Range.Rng α)) (name : Bytes) (t : Table α)
    (h : tableByName ts sheetRange name = .ok t) :
    ∃ e r, getTableMeta ts name = .ok e ∧ sheetRange e.sheet = .ok r ∧ tableData r e.dims = .ok t.data ∧
      t.name = e.name ∧ t.sheetName = e.sheet ∧ t.columns = e.columns ∧ t.toRange = t.data := by
  unfold tableByName at h
  cases he : getTableMeta ts name with
  | ok e =>
    rw [he] at h
    cases hr : sheetRange e.sheet with
    | ok r =>
      simp only [hr] at h
      cases hd : tableData r e.dims with
      | ok d =>
        simp only [hd] at h
        injection h with h
        subst h
        exact ⟨e, r, rfl, hr, hd, rfl, rfl, rfl, rfl⟩
      | err x => simp [hd] at h
      | panic x => simp [hd] at h
      | outOfFuel => simp [hd] at h
    | err x => simp [hr] at h
    | panic x => simp [hr] at h
    | outOfFuel => simp [hr] at h
  | err x => simp [he] at h
  | panic x => simp [he] at h
  | outOfFuel => simp [he] at h

/-- `table_by_name_ref` vs `table_by_name`: when every sheet's owned range is the cell-wise `Data::from` of its
    borrowed range (`DataConv.toOwnedRange`, C07 `owned_range_cells`), the owned table is the borrowed table
    with the same name, sheet and columns and with `data` converted cell by cell — same outcome class, same
    corners, every cell `toData` of the borrowed cell -/
theorem table_by_name_ref_agrees (ts : List TableEntry) (refRange : Bytes → Res (Range.Rng DataConv.DataRef))
    (name : Bytes) :
    tableByName ts (fun s => mapRes DataConv.toOwnedRange (refRange s)) name =
      mapRes (fun t => ⟨t.name, t.sheetName, t.columns, DataConv.toOwnedRange t.data⟩)
        (tableByName ts refRange name) := by
  unfold tableByName
  cases getTableMeta ts name with
  | ok e =>
    simp only
    cases refRange e.sheet with
    | ok r =>
      simp only [mapRes]
      rw [toOwnedRange_eq, tableData_map DataConv.toData rfl r e.dims]
      cases tableData r e.dims <;> rfl
    | err x => rfl
    | panic x => rfl
    | outOfFuel => rfl
  | err x => rfl
  | panic x => rfl
  | outOfFuel => rfl

/-- a sheet `x/w/s` whose relationship part lists a hyperlink and a table relationship `../t`, with the
    archive holding both parts: the hypotheses of `table_metadata_exact` are satisfiable -/
example : ∃ parts, (⟨[83], [120], [119], [115],
    some ([], [⟨[104], [46, 46, 47, 116], [], false⟩, ⟨tableRelType, [46, 46, 47, 116], [(nId, [114])], true⟩]),
    [([120, 47, 116], exTable)]⟩ : SheetTablesDecl).Ok parts := by
  refine ⟨[([120, 47, 87, 47, 95, 114, 101, 108, 115, 47, 115, 46, 114, 101, 108, 115],
      renderSheetRels [] [⟨[104], [46, 46, 47, 116], [], false⟩, ⟨tableRelType, [46, 46, 47, 116], [(nId, [114])], true⟩]),
    ([120, 47, 116], renderTablePart exTable)], by decide, by decide, ?_, ?_⟩
  · refine ⟨by decide, ?_, by decide⟩
    intro r hr
    simp only [List.mem_cons, List.not_mem_nil, or_false] at hr
    rcases hr with rfl | rfl
    · intro a ha; simp at ha
    · intro a ha
      simp only [List.mem_cons, List.not_mem_nil, or_false] at ha
      subst ha; exact ⟨by decide, by decide⟩
  · intro p hp
    simp only [List.mem_cons, List.not_mem_nil, or_false] at hp
    subst hp
    exact ⟨by decide, exTable_ok⟩

/-- the ledger's D17 input: `ref="B2:C5"`, no header row, one totals row: the data are rows 2–4 -/
example (m : Mode) : tableDims m (renderRef ⟨1, 1, 4, 2⟩) 0 1 false = .ok ⟨1, 1, 3, 2⟩ :=
  (table_geometry m ⟨1, 1, 4, 2⟩ (by decide) 0 1 (by decide)).1

/-- C06's fault-search input: a header row and a totals row on `A1:A2` leave no data row -/
example (m : Mode) : tableDims m (renderRef ⟨0, 0, 1, 0⟩) 1 1 false = .ok ⟨1, 0, 0, 0⟩ :=
  (table_geometry m ⟨0, 0, 1, 0⟩ (by decide) 1 1 (by decide)).1

end Geometry
