import CalVerif.Lemmas.Geometry
import CalVerif.Props.C05
/-! # C17 — merged regions and tables are reported with the geometry the file declares
    Property theorems only (helper lemmas live in `Lemmas/Geometry.lean`). -/
namespace Geometry
set_option linter.unusedSectionVars false

/-! ## tables -/

/-- the geometry arithmetic (after D17): with `header, totals ∈ {0, 1}` counted rows, no insert row and a
    reference that has room for them, the data rectangle is the reference minus `header` rows at the top
    and `totals` rows at the bottom -/
theorem table_geometry_of (d : Rect) (h t : Nat) (_hh : h ≤ 1) (_ht : t ≤ 1) (hroom : t ≤ d.er)
    (hbig : d.sr + h < U32) :
    tableDimsOf d h t false = .ok ⟨d.sr + h, d.sc, d.er - t, d.ec⟩ := by
  unfold tableDimsOf
  have h1 : ¬ (h ≠ 0 ∧ d.sr + h ≥ U32) := by omega
  have h2 : ¬ (t ≠ 0 ∧ d.er < t) := by omega
  simp only [h1, h2, if_false, Bool.false_eq_true, false_and]
  congr 1
  have e1 : (if h ≠ 0 then d.sr + h else d.sr) = d.sr + h := by split <;> omega
  have e2 : (if t ≠ 0 then d.er - t else d.er) = d.er - t := by split <;> omega
  rw [e1, e2]

/-- a totals row declared on a reference that ends in row 0 underflows (`u32` subtraction) -/
theorem table_geometry_totals_underflow (d : Rect) (h t : Nat) (ht : t ≠ 0) (hlt : d.er < t)
    (hbig : d.sr + h < U32) (ins : Bool) : ∃ s, tableDimsOf d h t ins = .panic s := by
  unfold tableDimsOf
  have h1 : ¬ (h ≠ 0 ∧ d.sr + h ≥ U32) := by omega
  have h2 : t ≠ 0 ∧ d.er < t := ⟨ht, hlt⟩
  rw [if_neg h1]
  simp only []
  rw [if_pos h2]
  exact ⟨_, rfl⟩

/-- `table_by_name`: the data range has exactly the table's data rectangle as bounds and shows the sheet's
    value at every position of it (the default value where the sheet's used range does not reach) — wherever
    the table lies relative to the used range, for an empty sheet too -/
theorem table_data_spec {α : Type} [Inhabited α] (rng : Range.Rng α) (hi : Range.Inv rng) (d : Rect)
    (t : Range.Rng α) (h : tableData rng d = .ok t) :
    t.start = some (d.sr, d.sc) ∧ t.end_ = some (d.er, d.ec) ∧
    ∀ p q, t.valAt p q = if d.contains p q then rng.valAt p q else default := by
  unfold tableData at h
  obtain ⟨_, _, hs, he⟩ := Range.inv_range rng hi d.sr d.sc d.er d.ec t h
  refine ⟨hs, he, fun p q => ?_⟩
  rw [Range.range_spec rng hi d.sr d.sc d.er d.ec t h p q]
  simp only [Rect.contains, Bool.and_eq_true, decide_eq_true_eq, ge_iff_le]
  by_cases hc : d.sr ≤ p ∧ p ≤ d.er ∧ d.sc ≤ q ∧ q ≤ d.ec
  · rw [if_pos hc, if_pos ⟨⟨⟨hc.1, hc.2.1⟩, hc.2.2.1⟩, hc.2.2.2⟩]
  · rw [if_neg hc, if_neg (fun h' => hc ⟨h'.1.1.1, h'.1.1.2, h'.1.2, h'.2⟩)]

/-- a table without a data row (only header and/or totals rows: the data rectangle would end above its
    start) makes `table_by_name` panic (`Range::new` asserts `start <= end`) -/
theorem table_data_degenerate {α : Type} [Inhabited α] (rng : Range.Rng α) (d : Rect) (hdeg : d.er < d.sr) :
    ∃ s, tableData rng d = .panic s := by
  unfold tableData Range.range Range.new
  have : ¬ (d.sr < d.er ∨ d.sr = d.er ∧ d.sc ≤ d.ec) := by omega
  simp only [this, not_false_eq_true, if_true]
  exact ⟨_, rfl⟩

end Geometry
