import CalVerif.Lemmas.Formats
/-! # C10 — a number is typed DateTime exactly when its cell style is a date/time format
    Property theorems (unit level: the format classifier, the built-in id tables, the value wrapping). -/
namespace Formats
open NumFmt

/-! ## built-in ids (tables regenerated from `src/formats.rs` on every run) -/

/-- the table keyed by the decimal text of the id (xlsx `numFmtId="…"`) and the table keyed by the number
    (xls `ifmt`, xlsb `iFmt`) agree on every id — in particular on all 65536 16-bit ids -/
theorem builtin_tables_agree (n : Nat) : builtinById (decimal n) = builtinByCode n := by
  by_cases hn : n < 1000
  · have h : (List.range 1000).all (fun n => builtinById (decimal n) == builtinByCode n) = true := by decide +kernel
    exact eq_of_beq (List.all_eq_true.mp h n (List.mem_range.mpr hn))
  · have hlen : 3 < (decimal n).length := by
      have := Nat.length_toDigits_le_iff (b := 10) (n := n) (k := 3) (by omega) (by omega)
      simp only [decimal, List.length_map]
      omega
    have hk : ∀ row ∈ Gen.builtinByIdTable, row.1.length ≤ 3 := by decide
    have hc : ∀ row ∈ Gen.builtinByCodeTable, row.2.1 < 1000 := by decide
    have hd : Gen.builtinByIdDefault = Gen.builtinByCodeDefault := by decide
    unfold builtinById builtinByCode
    rw [lookupId_default _ _ _ (fun row hr => by have := hk row hr; omega),
        lookupCode_default _ _ _ (fun row hr => by have := hc row hr; omega), hd]

/-- every id is classified as ECMA-376 §18.8.30 documents it: 14–22, 45, 47 date/time, 46 elapsed time, every
    other id (in particular every id outside 0–49) not a date -/
theorem builtin_matches_documented (n : Nat) : builtinByCode n = documentedClass n := by
  by_cases h : n < 1000
  · have hh : (List.range 1000).all (fun n => builtinByCode n == documentedClass n) = true := by decide +kernel
    exact eq_of_beq (List.all_eq_true.mp hh n (List.mem_range.mpr h))
  · have hc : ∀ row ∈ Gen.builtinByCodeTable, row.2.1 < 1000 := by decide
    have hd : Gen.builtinByCodeDefault = .other := by decide
    have h2 : documentedClass n = .other := by
      unfold documentedClass
      rw [if_neg (by omega), if_neg (by omega)]
    unfold builtinByCode
    rw [lookupCode_default _ _ _ (fun row hr => by have := hc row hr; omega), hd, h2]

/-- each language-independent built-in id classifies exactly like its documented format string under the scanner
    (so a workbook that spells a built-in format out as a custom format gets the same typing) -/
theorem builtin_matches_format_strings :
    ∀ row ∈ ecmaTable, detect row.2.toList = .ok (builtinByCode row.1) := by decide +kernel

/-! ## value wrapping (`format_excel_f64`, `format_excel_i64`) -/

/-- a float becomes `DateTime` iff the style's format is DateTime/TimeDelta; duration flavour iff TimeDelta; the
    value (bit pattern) and the date system are carried through unchanged; otherwise it stays the same float -/
theorem wrap_iff_f64 (v : UInt64) (fmt : Option CellFormat) (d : Bool) :
    (fmt = some .dateTime → formatF64 v fmt d = .dateTime (.bits v) .dateTime d) ∧
    (fmt = some .timeDelta → formatF64 v fmt d = .dateTime (.bits v) .timeDelta d) ∧
    (fmt ≠ some .dateTime → fmt ≠ some .timeDelta → formatF64 v fmt d = .float v) := by
  refine ⟨?_, ?_, ?_⟩
  · rintro rfl; rfl
  · rintro rfl; rfl
  · intro h1 h2
    match fmt, h1, h2 with
    | none, _, _ => rfl
    | some .other, _, _ => rfl
    | some .dateTime, h1, _ => exact absurd rfl h1
    | some .timeDelta, _, h2 => exact absurd rfl h2

/-- the same for integers (xls RK/MULRK integers): `DateTime(value as f64, kind, is_1904)` or the integer itself -/
theorem wrap_iff_i64 (v : Int) (fmt : Option CellFormat) (d : Bool) :
    (fmt = some .dateTime → formatI64 v fmt d = .dateTime (.ofI64 v) .dateTime d) ∧
    (fmt = some .timeDelta → formatI64 v fmt d = .dateTime (.ofI64 v) .timeDelta d) ∧
    (fmt ≠ some .dateTime → fmt ≠ some .timeDelta → formatI64 v fmt d = .int v) := by
  refine ⟨?_, ?_, ?_⟩
  · rintro rfl; rfl
  · rintro rfl; rfl
  · intro h1 h2
    match fmt, h1, h2 with
    | none, _, _ => rfl
    | some .other, _, _ => rfl
    | some .dateTime, h1, _ => exact absurd rfl h1
    | some .timeDelta, _, h2 => exact absurd rfl h2

/-- `wrap_iff` in the "exactly when" form of the property: the result is a DateTime iff the format is a date format -/
theorem wrap_iff (v : UInt64) (fmt : Option CellFormat) (d : Bool) :
    (∃ s k d', formatF64 v fmt d = .dateTime s k d') ↔ (fmt = some .dateTime ∨ fmt = some .timeDelta) := by
  match fmt with
  | none => simp [formatF64]
  | some .other => simp [formatF64]
  | some .dateTime => simp [formatF64]
  | some .timeDelta => simp [formatF64]

/-! ## ledger D14 (fixed): the pinned snapshot tested the escape arm before the in-quote arms -/

/-- the concrete witness: `"Date_"dd/mm/yyyy` is a well-formed date format, the pinned scanner answered `Other`,
    the current arm order answers `DateTime` -/
theorem d14_witness :
    let f : Fmt := { first := [.lit "Date_".toList, .dateTok "dd".toList, .num '/', .dateTok "mm".toList, .num '/',
                               .dateTok "yyyy".toList], rest := [] }
    WF f ∧ render f = "\"Date_\"dd/mm/yyyy".toList ∧ classify f = .dateTime ∧
    detectD14 (render f) = .ok .other ∧ detect (render f) = .ok .dateTime := by decide +kernel

end Formats
