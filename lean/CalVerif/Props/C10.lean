import CalVerif.Lemmas.FormatsDecode
/-! # C10 — a number is typed DateTime exactly when its cell style is a date/time format
    Property theorems (unit level: the format classifier, the built-in id tables, the value wrapping). -/
namespace Formats
open NumFmt StylesEnc

/-! ## built-in ids (tables regenerated from `src/formats.rs` on every run) -/

/-- the table keyed by the decimal text of the id (xlsx `numFmtId="…"`) and the table keyed by the number
    (xls `ifmt`, xlsb `iFmt`) agree on every id — in particular on all 65536 16-bit ids -/
theorem builtin_tables_agree (n : Nat) : builtinById (decimal n) = builtinByCode n := by
  by_cases hn : n < 1000
  · have h : (List.range 1000).all (fun n => builtinById (decimal n) == builtinByCode n) = true := by decide +kernel
    exact eq_of_beq (List.all_eq_true.mp h n (List.mem_range.mpr hn))
  · have hlen : 3 < (decimal n).length := by
      have := Nat.length_toDigits_le_iff (b := 10) (n := n) (k := 3) (by omega) (by omega)
      simp only [decimal, List.length_map]
      omega
    have hk : ∀ row ∈ Gen.builtinByIdTable, row.1.length ≤ 3 := by decide
    have hc : ∀ row ∈ Gen.builtinByCodeTable, row.2.1 < 1000 := by decide
    have hd : Gen.builtinByIdDefault = Gen.builtinByCodeDefault := by decide
    unfold builtinById builtinByCode
    rw [lookupId_default _ _ _ (fun row hr => by have := hk row hr; omega),
        lookupCode_default _ _ _ (fun row hr => by have := hc row hr; omega), hd]

/-- every id is classified as ECMA-376 §18.8.30 documents it: 14–22, 45, 47 date/time, 46 elapsed time, every
    other id (in particular every id outside 0–49) not a date -/
theorem builtin_matches_documented (n : Nat) : builtinByCode n = documentedClass n := builtinByCode_documented n

/-- each language-independent built-in id classifies exactly like its documented format string under the scanner
    (so a workbook that spells a built-in format out as a custom format gets the same typing) -/
theorem builtin_matches_format_strings :
    ∀ row ∈ ecmaTable, detect row.2.toList = .ok (builtinByCode row.1) := by decide +kernel

/-! ## value wrapping (`format_excel_f64`, `format_excel_i64`) -/

/-- a float becomes `DateTime` iff the style's format is DateTime/TimeDelta; duration flavour iff TimeDelta; the
    value (bit pattern) and the date system are carried through unchanged; otherwise it stays the same float -/
theorem wrap_iff_f64 (v : UInt64) (fmt : Option CellFormat) (d : Bool) :
    (fmt = some .dateTime → formatF64 v fmt d = .dateTime (.bits v) .dateTime d) ∧
    (fmt = some .timeDelta → formatF64 v fmt d = .dateTime (.bits v) .timeDelta d) ∧
    (fmt ≠ some .dateTime → fmt ≠ some .timeDelta → formatF64 v fmt d = .float v) := by
  refine ⟨?_, ?_, ?_⟩
  · rintro rfl; rfl
  · rintro rfl; rfl
  · intro h1 h2
    match fmt, h1, h2 with
    | none, _, _ => rfl
    | some .other, _, _ => rfl
    | some .dateTime, h1, _ => exact absurd rfl h1
    | some .timeDelta, _, h2 => exact absurd rfl h2

/-- the same for integers (xls RK/MULRK integers): `DateTime(value as f64, kind, is_1904)` or the integer itself -/
theorem wrap_iff_i64 (v : Int) (fmt : Option CellFormat) (d : Bool) :
    (fmt = some .dateTime → formatI64 v fmt d = .dateTime (.ofI64 v) .dateTime d) ∧
    (fmt = some .timeDelta → formatI64 v fmt d = .dateTime (.ofI64 v) .timeDelta d) ∧
    (fmt ≠ some .dateTime → fmt ≠ some .timeDelta → formatI64 v fmt d = .int v) := by
  refine ⟨?_, ?_, ?_⟩
  · rintro rfl; rfl
  · rintro rfl; rfl
  · intro h1 h2
    match fmt, h1, h2 with
    | none, _, _ => rfl
    | some .other, _, _ => rfl
    | some .dateTime, h1, _ => exact absurd rfl h1
    | some .timeDelta, _, h2 => exact absurd rfl h2

/-- `wrap_iff` in the "exactly when" form of the property: the result is a DateTime iff the format is a date format -/
theorem wrap_iff (v : UInt64) (fmt : Option CellFormat) (d : Bool) :
    (∃ s k d', formatF64 v fmt d = .dateTime s k d') ↔ (fmt = some .dateTime ∨ fmt = some .timeDelta) := by
  match fmt with
  | none => simp [formatF64]
  | some .other => simp [formatF64]
  | some .dateTime => simp [formatF64]
  | some .timeDelta => simp [formatF64]

/-! ## ledger D14 (fixed): the pinned snapshot tested the escape arm before the in-quote arms -/

/-- the concrete witness: `"Date_"dd/mm/yyyy` is a well-formed date format, the pinned scanner answered `Other`,
    the current arm order answers `DateTime` -/
theorem d14_witness :
    let f : Fmt := { first := [.lit "Date_".toList, .dateTok "dd".toList, .num '/', .dateTok "mm".toList, .num '/',
                               .dateTok "yyyy".toList], rest := [] }
    WF f ∧ render f = "\"Date_\"dd/mm/yyyy".toList ∧ classify f = .dateTime ∧
    detectD14 (render f) = .ok .other ∧ detect (render f) = .ok .dateTime := by decide +kernel

/-! ## the scanner against the number-format grammar -/

/-- **scanner_grammar** (holds after fix D14): for every well-formed format of the number-format grammar the
    scanner returns the class the grammar assigns — DateTime / TimeDelta when the first section's first date or
    elapsed token is a date token / an elapsed-time unit, Other when it has none; it never panics on such a text -/
theorem scanner_grammar (f : Fmt) (h : WF f) : detect (render f) = .ok (classify f) :=
  scan_wf_section f.first h (renderRest f.rest) (stops_renderRest f.rest)

/-- everything after the first `;` is ignored — even text that is no list of sections at all -/
theorem later_sections_ignored (sec : List Tok) (h : wfSection sec = true) (tail : List Char) :
    detect (renderSection sec ++ ';' :: tail) = detect (renderSection sec) := by
  have h1 := scan_wf_section sec h (';' :: tail) (Or.inr ⟨tail, rfl⟩)
  have h2 := scan_wf_section sec h [] (Or.inl rfl)
  rw [List.append_nil] at h2
  exact h1.trans h2.symm

/-- quoted text is ignored: deleting `"s"` (for any `s` without a quote — date letters, `_`, `\`, `;`, brackets
    included) from in front of ANY remaining text does not change the result -/
theorem quoted_ignored (s : List Char) (hs : '"' ∉ s) (post : List Char) :
    detect ('"' :: (s ++ '"' :: post)) = detect post := by
  have hw : wfTok (.lit s) = true := by simpa [wfTok] using hs
  have := scan_neutral_tok St.init quiet_init rfl (.lit s) hw rfl post
  simpa [renderTok, detect] using this

/-- an escaped character (`\c`) or a padding character (`_c`) is ignored, whatever `c` is -/
theorem escaped_ignored (c : Char) (post : List Char) :
    detect ('\\' :: c :: post) = detect post ∧ detect ('_' :: c :: post) = detect post :=
  ⟨scan_neutral_tok St.init quiet_init rfl (.esc c) rfl rfl post,
   scan_neutral_tok St.init quiet_init rfl (.pad c) rfl rfl post⟩

/-- a bracketed prefix (colour, condition, locale / currency, DBNum …) that is not an elapsed-time unit is ignored -/
theorem bracketed_ignored (body : List Char) (hb : ∀ c ∈ body, isStructural c = false)
    (hne : isElapsedBody body = false) (post : List Char) :
    detect ('[' :: (body ++ ']' :: post)) = detect post := by
  have hw : wfTok (.brk body) = true := by
    simp only [wfTok, Bool.and_eq_true, List.all_eq_true, Bool.not_eq_true']
    exact ⟨hb, hne⟩
  have := scan_neutral_tok St.init quiet_init rfl (.brk body) hw rfl post
  simpa [renderTok, detect] using this

/-- any run of well-formed neutral tokens (literals, escapes, padding, fill, bracketed prefixes, placeholders) in
    front of ANY text is ignored -/
theorem neutral_tokens_ignored (ts : List Tok) (hw : ∀ t ∈ ts, wfTok t = true) (hn : ∀ t ∈ ts, isNeutralTok t = true)
    (post : List Char) : detect (renderSection ts ++ post) = detect post := by
  induction ts with
  | nil => rfl
  | cons t ts ih =>
    rw [renderSection, List.append_assoc]
    have := scan_neutral_tok St.init quiet_init rfl t (hw t (by simp)) (hn t (by simp)) (renderSection ts ++ post)
    exact this.trans (ih (fun t ht => hw t (by simp [ht])) (fun t ht => hn t (by simp [ht])))

/-- beyond the placeholder characters the grammar lists: EVERY character other than the twenty-two the scanner
    reacts to (`" ; [ ] _ \`, `a A`, `d D m M h H y Y s S`) — digits, `e`, `g`, `b`, currency signs, CJK text … — is
    ignored when it stands unquoted at the start of the remaining text -/
theorem unreserved_char_ignored (c : Char) (hc : isPlain c = true) (post : List Char) :
    detect (c :: post) = detect post := by
  have h := scan_append St.init [c] post
  rw [run_plain St.init quiet_init rfl c hc] at h
  exact h.trans (scan_prev_irrelevant St.init quiet_init rfl c post)

/-- `[h]`, `[mm]`, `[SS]` … after neutral tokens is an elapsed-time format whatever follows; a date token after
    neutral tokens makes a date format whatever follows -/
theorem first_date_token_decides (ts : List Tok) (hw : ∀ t ∈ ts, wfTok t = true) (hn : ∀ t ∈ ts, isNeutralTok t = true)
    (post : List Char) :
    (∀ b, isElapsedBody b = true → detect (renderSection ts ++ renderTok (.elapsed b) ++ post) = .ok .timeDelta) ∧
    (∀ s, (isDateRun s || isAmPm s) = true → detect (renderSection ts ++ renderTok (.dateTok s) ++ post) = .ok .dateTime) := by
  refine ⟨fun b hb => ?_, fun s hs => ?_⟩
  · rw [List.append_assoc, neutral_tokens_ignored ts hw hn]
    have := scan_plain_section [.elapsed b] (by simpa [wfTok] using hb) (by simp [isGeneral]) St.init quiet_init rfl post
    simpa [renderSection, detect, classifySection] using this
  · rw [List.append_assoc, neutral_tokens_ignored ts hw hn]
    have := scan_plain_section [.dateTok s] (by simpa [wfTok] using hs) (by simp [isGeneral]) St.init quiet_init rfl post
    simpa [renderSection, detect, classifySection] using this

/-- **scanner_no_panic** (after fix 8b86d6e, ledger D30-b): the scanner panics on no text at all. Until that fix
    the nesting depth was a `u8` and `brackets += 1` overflowed on the 256th unclosed `[`. -/
theorem scanner_no_panic (s : List Char) (msg : String) : detect s ≠ .panic msg :=
  scan_no_panic St.init s msg

/-- `detect` is total: every text gets a classification -/
theorem scanner_total (s : List Char) : ∃ c, detect s = .ok c := scan_total St.init s

/-- deep nesting is read as nesting: 300 `[`, 300 `]`, then `d` is a date format; 256 or 300 unclosed `[` are
    classified (`Other`: an `h]` at depth 300 closes nothing at depth 1), not a panic; `[h` + 300 balanced pairs + `]`
    still closes the elapsed unit at depth 1 (the bracket arms leave the `hms` flag alone) -/
theorem deep_nesting_witness :
    detect (List.replicate 300 '[' ++ List.replicate 300 ']' ++ ['d']) = .ok .dateTime ∧
    detect (List.replicate 256 '[') = .ok .other ∧
    detect (List.replicate 300 '[' ++ ['h', ']']) = .ok .other ∧
    detect ('[' :: 'h' :: List.replicate 300 '[' ++ List.replicate 300 ']' ++ [']']) = .ok .timeDelta := by
  decide +kernel

/-! ## style tables: `formats[i]` is the class of the format the i-th cell XF refers to

    The custom definitions are given as grammar formats (`defs`, in file order; an id defined twice takes its last
    definition). Documented precedence: xlsx and xls look an id up among the custom definitions first and fall back
    to the built-in table; xlsb consults the built-in table first and the custom definitions only for ids the
    built-in table calls `Other`. With `builtin_matches_documented` the built-in side is the ECMA-376 table. -/

theorem style_lookup_xlsx (defs : List (List UInt8 × Fmt)) (hwf : ∀ d ∈ defs, WF d.2)
    (hne : ∀ d ∈ defs, render d.2 ≠ []) (xfs : List (Option (List UInt8))) :
    xlsxStyles (defs.map fun d => (d.1, render d.2)) xfs =
      .ok (xfs.map fun xf =>
        match xf with
        | none => .other
        | some id =>
          match lastDef defs id with
          | some f => classify f
          | none => builtinById id) := xlsxStyles_wf defs hwf hne xfs

theorem style_lookup_xlsb (defs : List (Nat × Fmt)) (hwf : ∀ d ∈ defs, WF d.2) (xfs : List Nat) :
    xlsbStyles (defs.map fun d => (d.1, render d.2)) xfs =
      .ok (xfs.map fun code =>
        match builtinByCode code with
        | .other => ((lastDef defs code).map classify).getD .other
        | f => f) := xlsbStyles_wf defs hwf xfs

theorem style_lookup_xls (defs : List (Nat × Fmt)) (hwf : ∀ d ∈ defs, WF d.2) (xfs : List Nat) :
    xlsStyles (defs.map fun d => (d.1, render d.2)) xfs =
      .ok (xfs.map fun code =>
        match lastDef defs code with
        | some f => classify f
        | none => builtinByCode code) := xlsStyles_wf defs hwf xfs

/-! ## the property's sentence: a numeric cell is DateTime exactly when its style's format is a date format

    `Lemmas/FormatsCompose.lean` composes the style-table builders with the value wrapping
    (`cell_typed_by_style_{xlsx,xlsb,xls}` and their `_i64` twins, on the logical style table, including built-in
    ids, doubly defined ids and out-of-range style indices). Here the statement is specialised to the case the
    property names: XF `i` refers to a custom format `f` of the grammar. -/

/-- **datetime_iff_style**: in each of the three containers, for every well-formed custom format `f` of the
    number-format grammar that cell XF `i` refers to (the last definition of its id; for xlsb the id must not be a
    built-in date id, which xlsb never lets a custom definition override), a float cell with style index `i` comes
    back as DateTime iff `classify f ≠ Other`, with the duration flavour iff `classify f = TimeDelta`, the same bits
    and the workbook's date system; otherwise as the same float (`TypedBy`). The quantification is over the
    grammar (`classify`), not over scanner outputs. -/
theorem datetime_iff_style :
    (∀ (defs : List (List UInt8 × Fmt)) (xfs : List (Option (List UInt8))) (formats : List CellFormat),
      (∀ d ∈ defs, WF d.2) → (∀ d ∈ defs, render d.2 ≠ []) →
      xlsxStyles (defs.map fun d => (d.1, render d.2)) xfs = .ok formats →
      ∀ (i : Nat) (id : List UInt8) (f : Fmt), xfs[i]? = some (some id) → lastDef defs id = some f →
      ∀ (v : UInt64) (d1904 : Bool), TypedBy f (formatF64 v formats[i]? d1904) v d1904) ∧
    (∀ (defs : List (Nat × Fmt)) (xfs : List Nat) (formats : List CellFormat),
      (∀ d ∈ defs, WF d.2) → xlsbStyles (defs.map fun d => (d.1, render d.2)) xfs = .ok formats →
      ∀ (i code : Nat) (f : Fmt), xfs[i]? = some code → lastDef defs code = some f → documentedClass code = .other →
      ∀ (v : UInt64) (d1904 : Bool), TypedBy f (formatF64 v formats[i]? d1904) v d1904) ∧
    (∀ (defs : List (Nat × Fmt)) (xfs : List Nat) (formats : List CellFormat),
      (∀ d ∈ defs, WF d.2) → xlsStyles (defs.map fun d => (d.1, render d.2)) xfs = .ok formats →
      ∀ (i code : Nat) (f : Fmt), xfs[i]? = some code → lastDef defs code = some f →
      ∀ (v : UInt64) (d1904 : Bool), TypedBy f (formatF64 v formats[i]? d1904) v d1904) := by
  refine ⟨?_, ?_, ?_⟩
  · intro defs xfs formats hwf hne h i id f hx hf v d
    apply typedBy_of_eq
    rw [(cell_typed_by_style_xlsx defs hwf hne xfs formats h i v d).2, hx]
    simp [logicalXlsx, hf]
  · intro defs xfs formats hwf h i code f hx hf hb v d
    apply typedBy_of_eq
    rw [(cell_typed_by_style_xlsb defs hwf xfs formats h i v d).2, hx]
    simp [logicalXlsb, hf, hb]
  · intro defs xfs formats hwf h i code f hx hf v d
    apply typedBy_of_eq
    rw [(cell_typed_by_style_xls defs hwf xfs formats h i v d).2, hx]
    simp [logicalXls, hf]

/-- **style_index_xlsx**: the style index of an xlsx cell is the whole number its `s` attribute spells (any size:
    a table of more than 65 536 cell XFs is addressed correctly); a cell with `s="i"` whose XF `i` refers to the
    well-formed custom format `f` is typed by `f`; an index past the table leaves the number plain -/
theorem style_index_xlsx (defs : List (List UInt8 × Fmt)) (hwf : ∀ d ∈ defs, WF d.2)
    (hne : ∀ d ∈ defs, render d.2 ≠ []) (xfs : List (Option (List UInt8))) (formats : List CellFormat)
    (h : xlsxStyles (defs.map fun d => (d.1, render d.2)) xfs = .ok formats) (t : List UInt8) (i : Nat)
    (ht : parseUsize t = some i) (v : UInt64) (d1904 : Bool) :
    (∀ id f, xfs[i]? = some (some id) → lastDef defs id = some f →
      TypedBy f (formatF64 v (xlsxCellFormat formats (some t)) d1904) v d1904) ∧
    (xfs.length ≤ i → formatF64 v (xlsxCellFormat formats (some t)) d1904 = .float v) := by
  have hc := (cell_typed_by_style_xlsx_attr defs hwf hne xfs formats h v d1904).2.1 t i ht
  refine ⟨fun id f hx hf => ?_, fun hi => ?_⟩
  · apply typedBy_of_eq
    rw [hc, hx]
    simp [logicalXlsx, hf]
  · rw [hc, List.getElem?_eq_none hi]; rfl

/-- the attribute texts the correspondence run pins: `65536` is index 65 536 (not 0), leading zeros are digits, a
    sign, a blank, the empty text and a value of 2^64 do not parse (the reader then uses XF 0) -/
example : parseUsize (decimal 65536) = some 65536 ∧ parseUsize [48, 48, 50] = some 2 ∧ parseUsize [43, 49] = none ∧
    parseUsize [32, 49] = none ∧ parseUsize [] = none ∧ parseUsize (decimal 18446744073709551616) = none ∧
    parseUsize (decimal 18446744073709551615) = some 18446744073709551615 := by decide +kernel

/-- a cell whose XF uses a built-in id with no custom definition is typed by the documented table, and a style
    index past the XF list leaves the number plain (xls shown; the other two are the same lemma) -/
theorem datetime_iff_builtin_style_xls (defs : List (Nat × Fmt)) (hwf : ∀ d ∈ defs, WF d.2) (xfs : List Nat)
    (formats : List CellFormat) (h : xlsStyles (defs.map fun d => (d.1, render d.2)) xfs = .ok formats)
    (i : Nat) (v : UInt64) (d1904 : Bool) :
    (∀ code, xfs[i]? = some code → lastDef defs code = none →
      formatF64 v formats[i]? d1904 = typedF64 (documentedClass code) v d1904) ∧
    (xfs.length ≤ i → formatF64 v formats[i]? d1904 = .float v) := by
  have hc := (cell_typed_by_style_xls defs hwf xfs formats h i v d1904).2
  refine ⟨fun code hx hn => ?_, fun hi => ?_⟩
  · rw [hc, hx]; simp [logicalXls, hn]
  · rw [hc, List.getElem?_eq_none hi]; rfl

/-- non-vacuity of `datetime_iff_style`: format 164 = `[Red]"Due _"dd/mm/yyyy`, 165 = `[h]:mm`, XFs (0, 164, 165),
    in all three containers: the styled cells are a DateTime and a duration, the General cell stays a float -/
example :
    let due : Fmt := { first := [.brk "Red".toList, .lit "Due _".toList, .dateTok "dd".toList, .num '/',
                                 .dateTok "mm".toList, .num '/', .dateTok "yyyy".toList], rest := [] }
    let el : Fmt := { first := [.elapsed "h".toList, .num ':', .dateTok "mm".toList], rest := [] }
    let defs : List (Nat × Fmt) := [(164, due), (165, el)]
    (∀ d ∈ defs, WF d.2) ∧
    xlsStyles (defs.map fun d => (d.1, render d.2)) [0, 164, 165] = .ok [.other, .dateTime, .timeDelta] ∧
    xlsbStyles (defs.map fun d => (d.1, render d.2)) [0, 164, 165] = .ok [.other, .dateTime, .timeDelta] ∧
    xlsxStyles (defs.map fun d => (decimal d.1, render d.2)) [some (decimal 0), some (decimal 164), some (decimal 165)]
      = .ok [.other, .dateTime, .timeDelta] ∧
    lastDef defs 165 = some el ∧ documentedClass 165 = .other ∧
    formatF64 7 ([CellFormat.other, .dateTime, .timeDelta])[2]? true = .dateTime (.bits 7) .timeDelta true := by
  decide +kernel

/-- a workbook with `[h]:mm` as format 164, `"Due _"dd/mm/yyyy` as 165 and id 14 redefined as `0.0`:
    XFs (0, 14, 164, 165, 22, 200) are typed as the property says; xlsb keeps the built-in meaning of 14 -/
example :
    let defs : List (Nat × Fmt) :=
      [(164, { first := [.elapsed "h".toList, .num ':', .dateTok "mm".toList], rest := [] }),
       (165, { first := [.lit "Due _".toList, .dateTok "dd".toList, .num '/', .dateTok "mm".toList, .num '/',
                         .dateTok "yyyy".toList], rest := [] }),
       (14, { first := [.num '0', .num '.', .num '0'], rest := [] })]
    (∀ d ∈ defs, WF d.2) ∧
    xlsStyles (defs.map fun d => (d.1, render d.2)) [0, 14, 164, 165, 22, 200]
      = .ok [.other, .other, .timeDelta, .dateTime, .dateTime, .other] ∧
    xlsbStyles (defs.map fun d => (d.1, render d.2)) [0, 14, 164, 165, 22, 200]
      = .ok [.other, .dateTime, .timeDelta, .dateTime, .dateTime, .other] := by decide +kernel

/-! ## the decoders of the style tables: from the bytes / records / events of the styles part

    `Model/FormatsDecode.lean` models what stands in front of the style-table builders: xls `parse_xf` /
    `parse_format` and the FORMAT / XF arms of the globals loop, the record loop of xlsb `read_styles`, the event loop
    of xlsx `read_styles`. (a) none of them panics, on any input; (b) on the encoding of a style table
    (`Spec/StylesEnc.lean`) they return the table the builders make from the logical lists, whatever stands in the
    inert places; (c) so the property's sentence starts at the styles part. -/

/-- (a) xls: `parse_xf`, `parse_format`, the globals loop over any record list / any stream never panic -/
theorem xls_parse_xf_no_panic (data : Bytes) (m : String) : xlsParseXf data ≠ .panic m := xlsParseXf_ne_panic data m
theorem xls_parse_format_no_panic (data : Bytes) (m : String) : xlsParseFormat data ≠ .panic m :=
  xlsParseFormat_ne_panic data m
theorem xls_styles_records_no_panic (recs : List (Nat × Bytes)) (m : String) : xlsStylesOfRecords recs ≠ .panic m :=
  xlsStylesOfRecords_ne_panic recs m
theorem xls_styles_stream_no_panic (stream : Bytes) (m : String) : xlsStylesOfStream stream ≠ .panic m :=
  xlsStylesOfStream_ne_panic stream m

/-- (a) xlsb: `read_styles` panics on no byte string (short records, wrong counts, truncated parts are errors) -/
theorem xlsb_styles_bytes_no_panic (part : Bytes) (m : String) : xlsbStylesOfBytes part ≠ .panic m :=
  xlsbStylesOfBytes_ne_panic part m

/-- (a) xlsx: `read_styles` panics on no event list, and always ends with a table or an error -/
theorem xlsx_styles_events_no_panic (evs : List SEv) (m : String) : xlsxStylesOfEvents evs ≠ .panic m :=
  xlsxStylesOfEvents_ne_panic evs m
theorem xlsx_styles_events_total (evs : List SEv) :
    (∃ t, xlsxStylesOfEvents evs = .ok t) ∨ (∃ e, xlsxStylesOfEvents evs = .err e) :=
  xlsxStylesLoop_total evs .top [] []


/-- **leading zeros of a `numFmtId` are not significant** (after fix 6b28a55): `format_id` maps every decimal
    spelling of `n` with leading zeros to the canonical one … -/
theorem format_id_leading_zeros (z n : Nat) : formatId (padId z n) = decimal n := formatId_padId z n

/-- … so `read_styles` on attribute texts with ANY mixture of spellings — each `<numFmt>` and each `<xf>` with its
    own number of leading zeros, built-in and custom ids alike — builds the table of the canonical spellings:
    `numFmtId="014"` is the date format 14, `<numFmt numFmtId="164" …>` is found by `<xf numFmtId="0164">` and vice
    versa. (The generated table `builtinById` is unchanged: it is asked with the canonical text.) -/
theorem leading_zeros_classify_alike (defs : List (Nat × Nat × List Char)) (xfs : List (Nat × Nat)) :
    xlsxStylesRaw (defs.map fun d => (padId d.1 d.2.1, d.2.2)) (xfs.map fun x => some (padId x.1 x.2)) =
      xlsxStyles (defs.map fun d => (decimal d.2.1, d.2.2)) (xfs.map fun x => some (decimal x.2)) := by
  unfold xlsxStylesRaw
  simp only [List.map_map, Function.comp_def, Option.map_some, formatId_padId]

example : xlsxStylesRaw [] [some (padId 1 14), some (padId 0 14), some (padId 3 46), some (padId 2 0)]
    = .ok [.dateTime, .dateTime, .timeDelta, .other] ∧
    xlsxStylesRaw [(padId 0 164, "yyyy".toList)] [some (padId 1 164)] = .ok [.dateTime] ∧
    xlsxStylesRaw [(padId 2 164, "yyyy".toList)] [some (padId 0 164)] = .ok [.dateTime] ∧
    formatId [48, 48] = [48] ∧ formatId [43, 49] = [43, 49] ∧ formatId [] = [] := by decide +kernel

/-- (b) xls: FORMAT / XF records in any interleaving with other records (narrow or wide strings, any XF tail), up to
    the EOF record: the decoded table is `xlsStyles` of the formats and XF ids in file order -/
theorem xls_styles_roundtrip (items : List XlsItem) (hwf : ∀ i ∈ items, i.WF) (after : List (Nat × Bytes)) :
    xlsStylesOfRecords (xlsEncode items after) = xlsStyles (xlsFormatsOf items) (xlsXfsOf items) :=
  xlsStylesOfRecords_enc items hwf after

/-- (b) xlsb: the bytes of a styles part — any records before the format table, between it and the cell XFs (the
    cell-STYLE XF block with its own BrtXF records among them) and after the cell XFs, any legal framing — decode
    to `xlsbStyles` of the description -/
theorem xlsb_styles_roundtrip (d : StyleDesc) (l : XlsbLayout) (hd : d.WFb) (hl : l.WF) :
    xlsbStylesOfBytes (xlsbEncode d l) = xlsbStyles d.formats d.xfs := xlsbStylesOfBytes_enc d l hd hl

/-- (b) xlsx: the events of a styles part — anything without a `numFmts` / `cellXfs` start tag in the inert places
    (cellStyleXfs with `<xf numFmtId=…>`, dxfs with `<numFmt>` elements of clashing ids, fonts, extLst), other
    attributes and children of `<xf>`, either attribute order of `<numFmt>`, any namespace prefix — decode to
    `xlsxStyles` of the description (ids as their decimal text) -/
theorem xlsx_styles_roundtrip (d : StyleDesc) (l : XlsxLayout) (hl : l.WF) :
    xlsxStylesOfEvents (xlsxEncode d l) =
      xlsxStyles (d.formats.map fun f => (decimal f.1, f.2)) (d.xfs.map fun x => some (decimal x)) :=
  xlsxStylesOfEvents_enc d l hl

/-- (c) **from the styles part to the cell**: custom formats of the grammar written into a styles part of each
    container, the table decoded from that part, a float cell with style index `i`: it is typed by the logical style
    table (`logicalXlsx / logicalXlsb / logicalXls`: last definition of the id, else the documented built-in class;
    xlsb built-in first; index past the table = plain number) -/
theorem cell_typed_from_styles_part :
    (∀ (defs : List (Nat × Fmt)) (xfs : List Nat) (l : XlsxLayout) (formats : List CellFormat),
      (∀ d ∈ defs, WF d.2) → (∀ d ∈ defs, render d.2 ≠ []) → l.WF →
      xlsxStylesOfEvents (xlsxEncode ⟨defs.map fun d => (d.1, render d.2), xfs⟩ l) = .ok formats →
      ∀ (i : Nat) (v : UInt64) (d1904 : Bool), formatF64 v formats[i]? d1904 =
        typedF64 (((xfs.map fun x => some (decimal x))[i]?.map
          (logicalXlsx (defs.map fun d => (decimal d.1, d.2)))).getD .other) v d1904) ∧
    (∀ (defs : List (Nat × Fmt)) (xfs : List Nat) (l : XlsbLayout) (formats : List CellFormat),
      (∀ d ∈ defs, WF d.2) → (StyleDesc.mk (defs.map fun d => (d.1, render d.2)) xfs).WFb → l.WF →
      xlsbStylesOfBytes (xlsbEncode ⟨defs.map fun d => (d.1, render d.2), xfs⟩ l) = .ok formats →
      ∀ (i : Nat) (v : UInt64) (d1904 : Bool), formatF64 v formats[i]? d1904 =
        typedF64 ((xfs[i]?.map (logicalXlsb defs)).getD .other) v d1904) ∧
    (∀ (defs : List (Nat × Fmt)) (items : List XlsItem) (after : List (Nat × Bytes)) (formats : List CellFormat),
      (∀ d ∈ defs, WF d.2) → (∀ i ∈ items, i.WF) → xlsFormatsOf items = (defs.map fun d => (d.1, render d.2)) →
      xlsStylesOfRecords (xlsEncode items after) = .ok formats →
      ∀ (i : Nat) (v : UInt64) (d1904 : Bool), formatF64 v formats[i]? d1904 =
        typedF64 (((xlsXfsOf items)[i]?.map (logicalXls defs)).getD .other) v d1904) := by
  refine ⟨?_, ?_, ?_⟩
  · intro defs xfs l formats hwf hne hl h i v d
    rw [xlsx_styles_roundtrip _ l hl] at h
    have h' : xlsxStyles ((defs.map fun d => (decimal d.1, d.2)).map fun d => (d.1, render d.2))
        (xfs.map fun x => some (decimal x)) = .ok formats := by
      simpa [List.map_map, Function.comp_def] using h
    exact (cell_typed_by_style_xlsx (defs.map fun d => (decimal d.1, d.2))
      (by intro d hd; obtain ⟨d0, hd0, rfl⟩ := List.mem_map.mp hd; exact hwf d0 hd0)
      (by intro d hd; obtain ⟨d0, hd0, rfl⟩ := List.mem_map.mp hd; exact hne d0 hd0)
      _ formats h' i v d).2
  · intro defs xfs l formats hwf hd hl h i v d
    rw [xlsb_styles_roundtrip _ l hd hl] at h
    exact (cell_typed_by_style_xlsb defs hwf xfs formats h i v d).2
  · intro defs items after formats hwf hi hf h i v d
    rw [xls_styles_roundtrip items hi after, hf] at h
    exact (cell_typed_by_style_xls defs hwf _ formats h i v d).2

/-- non-vacuity: a styles part of each kind with inert material that carries date formats — a cell-STYLE XF with
    format 14 which every cell `<xf>` points at (`xfId="0"`) while saying `applyNumberFormat="0"` (the cell xf's own
    `numFmtId` decides all the same), and a differential format `<numFmt numFmtId="164" formatCode="yyyy">` next to the real 164 = `0.0` —
    decodes to the real table -/
example :
    let d : StyleDesc := ⟨[(164, "0.0".toList), (165, "[h]:mm".toList)], [0, 164, 165, 14]⟩
    let mid : List SEv := [.start "x:cellStyleXfs".toList [], .start "x:xf".toList [("numFmtId".toList, decimal 14)],
      .end_ "x:xf".toList, .end_ "x:cellStyleXfs".toList]
    let post : List SEv := [.start "x:dxfs".toList [],
      .start "x:numFmt".toList [("numFmtId".toList, decimal 164), ("formatCode".toList, utf8Bytes "yyyy".toList)],
      .end_ "x:numFmt".toList, .end_ "x:dxfs".toList]
    let lx : XlsxLayout := ⟨some "x".toList, false, [], [.other], mid, post, [("fontId".toList, decimal 0)],
      [("xfId".toList, decimal 0), ("applyNumberFormat".toList, decimal 0)],
      [.start "x:alignment".toList [], .end_ "x:alignment".toList], [], 2, 1⟩
    let lb : XlsbLayout := ⟨[⟨0x0116, [], false, 0⟩, ⟨0x0263, [0xE7, 0x04, 1, 0], true, 2⟩],
      [⟨0x0272, Xlsb.le32 1, false, 0⟩, ⟨0x002F, brtXfPayload 14 0xFFFF [], false, 0⟩, ⟨0x0273, [], false, 0⟩],
      [0x97, 0x02, 0x00], [⟨true, 3⟩], [], ⟨false, 0⟩⟩
    lx.WF ∧ lb.WF ∧ d.WFb ∧
    xlsxStylesOfEvents (xlsxEncode d lx) = .ok [.other, .other, .timeDelta, .dateTime] ∧
    xlsbStylesOfBytes (xlsbEncode d lb) = .ok [.other, .other, .timeDelta, .dateTime] ∧
    xlsStylesOfRecords (xlsEncode [.other 0x0031 [1, 2], .format 164 "0.0".toList false, .xf 0 0 [], .xf 164 5 [9],
      .format 165 "[h]:mm".toList true, .xf 165 0 [], .xf 14 0 []] [(0x041E, [])])
        = .ok [.other, .other, .timeDelta, .dateTime] := by
  refine ⟨?_, ?_, ?_, ?_, ?_, ?_⟩
  · refine ⟨?_, by decide, by decide, by decide, by decide, by decide⟩
    intro p hp; cases hp; decide
  · constructor <;> (intro r hr; simp at hr; rcases hr with rfl | rfl | rfl <;> exact ⟨⟨by decide, by decide⟩, by decide, by decide⟩)
  · refine ⟨?_, ?_, by decide, by decide⟩
    · intro f hf; simp at hf; rcases hf with rfl | rfl <;> exact ⟨by decide, by decide⟩
    · intro x hx; simp at hx; rcases hx with rfl | rfl | rfl | rfl <;> decide
  · decide +kernel
  · decide +kernel
  · decide +kernel


/-! ## non-vacuity: the hypotheses above are met by non-trivial formats -/

/-- `[Red][$-409]"Due _"\ dd/mm/yyyy\ hh:mm AM/PM;"late;"[h]:mm` — colour, locale, a quoted literal containing an
    underscore, escapes, several date tokens, a second section with a quoted `;` and an elapsed unit -/
example :
    let f : Fmt := { first := [.brk "Red".toList, .brk "$-409".toList, .lit "Due _".toList, .esc ' ',
                               .dateTok "dd".toList, .num '/', .dateTok "mm".toList, .num '/', .dateTok "yyyy".toList,
                               .esc ' ', .dateTok "hh".toList, .num ':', .dateTok "mm".toList, .num ' ',
                               .dateTok "AM/PM".toList],
                     rest := [[.lit "late;".toList, .elapsed "h".toList, .num ':', .dateTok "mm".toList]] }
    WF f ∧ classify f = .dateTime ∧
    render f = "[Red][$-409]\"Due _\"\\ dd/mm/yyyy\\ hh:mm AM/PM;\"late;\"[h]:mm".toList := by decide +kernel

example : WF { first := [.brk "Blue".toList, .general "GENERAL".toList, .lit " d".toList, .pad ')'], rest := [] } := by
  decide +kernel

example : WF { first := [.fill '-', .brk "hm".toList, .brk [], .elapsed "SS".toList, .num '.', .num '0'], rest := [[]] } ∧
    classify { first := [.fill '-', .brk "hm".toList, .brk [], .elapsed "SS".toList, .num '.', .num '0'], rest := [[]] }
      = .timeDelta := by decide +kernel

end Formats
