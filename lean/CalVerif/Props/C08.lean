import CalVerif.Lemmas.HeaderRow
/-! # C08 — the header-row option selects the first row without altering any cell
    Theorems about `Model/HeaderRow.lean` (the windowing code of the four readers), built on the
    `Range` contracts of C05 (`range_spec`, `fromSparse_spec`). -/
namespace HeaderRow
open Range
set_option linter.unusedSectionVars false
variable {α : Type} [Inhabited α]

/-! ## eager readers (xls, ods) -/

/-- default option: the range built at open time is returned as it is -/
theorem eager_default (r : Rng α) : windowEager r .firstNonEmpty = .ok r := rfl

/-- an empty sheet stays empty under every option, without panic -/
theorem eager_empty_sheet (r : Rng α) (h : r.inner.length = 0) (hd : Hdr) : windowEager r hd = .ok r := by
  cases hd <;> simp [windowEager, h]

/-- header row after the last row: empty range, no panic (after ledger fix D03) -/
theorem eager_after_last (r : Rng α) (n : Nat) (hne : r.inner.length ≠ 0) (h : n > r.er) :
    windowEager r (.row n) = .ok empty := by
  simp [windowEager, hne, h]

/-- header row at or before the last row: no panic (as long as the window fits `u32` arithmetic —
    a window of ≥ 2^32 cells cannot be allocated anyway), the range starts exactly at row `n`, keeps the
    sheet's column extent and last row, holds the sheet's values at every position with row ≥ n and
    nothing from a row < n. -/
theorem eager_window (r : Rng α) (hi : Inv r) (hne : r.inner.length ≠ 0) (n : Nat) (hn : n ≤ r.er)
    (hfit : rectPre n r.sc r.er r.ec) :
    ∃ r', windowEager r (.row n) = .ok r' ∧ Inv r' ∧
      r'.start = some (n, r.sc) ∧ r'.end_ = some (r.er, r.ec) ∧
      ∀ p q, r'.valAt p q = if n ≤ p then r.valAt p q else default := by
  obtain ⟨r', hr'⟩ := range_of_pre r n r.sc r.er r.ec hfit
  refine ⟨r', ?_, ?_⟩
  · simp [windowEager, hne, Nat.not_lt.mpr hn, hr']
  · obtain ⟨hinv, _, hs, he⟩ := inv_range r hi n r.sc r.er r.ec r' hr'
    refine ⟨hinv, hs, he, ?_⟩
    intro p q
    rw [range_spec r hi n r.sc r.er r.ec r' hr' p q]
    by_cases hp : n ≤ p
    · simp only [hp, true_and, if_true]
      split
      · rfl
      · rename_i hout
        rw [valAt_of_out r p q (by omega)]
    · simp [hp]

/-- the eager window never shows a value from a row before `n` -/
theorem eager_no_earlier_rows (r : Rng α) (hi : Inv r) (hne : r.inner.length ≠ 0) (n : Nat) (hn : n ≤ r.er)
    (hfit : rectPre n r.sc r.er r.ec) (r' : Rng α) (h : windowEager r (.row n) = .ok r') (p q : Nat)
    (hp : p < n) : r'.valAt p q = default := by
  obtain ⟨r'', h2, _, _, _, hv⟩ := eager_window r hi hne n hn hfit
  rw [h] at h2; injection h2 with h2; subst h2
  rw [hv p q, if_neg (by omega)]

/-! ## lazy readers (xlsx, xlsb) -/
section lazy
variable [DecidableEq α]

/-- default option, lazy readers: the range holds, at every position, the last non-empty cell stored there -/
theorem lazy_default_values (cells : List (Nat × Nat × α)) (hs : RowSorted cells) (r0 : Rng α)
    (h : windowLazy cells .firstNonEmpty = .ok r0) (p q : Nat) :
    r0.valAt p q = (lastAt (K0 cells) p q).getD default := by
  unfold windowLazy keepLazy at h
  by_cases hne : K0 cells = []
  · have e : K0 cells = [] := hne
    simp only [K0] at hne
    rw [hne] at h; simp only [fromSparse] at h; injection h with h; subst h
    rw [e]; simp [Rng.valAt, empty, lastAt]
  · have hsK0 : RowSorted (K0 cells) := List.Pairwise.filter _ hs
    obtain ⟨_, _, her, _, _, _, hv⟩ := fromSparse_spec (K0 cells) hne r0 h
      (fun c hc => ⟨sorted_head_le _ hne hsK0 c hc, sorted_le_last _ hne hsK0 c hc⟩)
    rw [hv p q]
    split
    · rfl
    · rename_i hgt
      have hsK : RowSorted (K0 cells) := List.Pairwise.filter _ hs
      rw [lastAt_none_of (K0 cells) p q]; · rfl
      intro c hc
      have := sorted_le_last (K0 cells) hne hsK c hc
      omega

/-- explicit header row `n`, lazy readers, no non-empty cell in a row ≥ n: the range is empty -/
theorem lazy_empty (cells : List (Nat × Nat × α)) (n : Nat)
    (h : ∀ c ∈ cells, c.2.2 ≠ default → c.1 < n) : windowLazy cells (.row n) = .ok empty := by
  have : Kn cells n = [] := by
    simp only [Kn, List.filter_eq_nil_iff]
    intro c hc; simp only [decide_eq_true_eq]; intro ⟨h1, h2⟩; have := h c hc h1; omega
  unfold windowLazy keepLazy
  simp only [Kn] at this
  simp only [this, fromSparse]

/-- explicit header row `n`, lazy readers, some non-empty cell in a row ≥ n: the range starts exactly
    at row `n`, ends at the last non-empty row, and holds at every position with row ≥ n the last
    non-empty cell stored there — nothing from a row < n -/
theorem lazy_window (cells : List (Nat × Nat × α)) (hs : RowSorted cells) (n : Nat)
    (hex : Kn cells n ≠ []) (r' : Rng α) (h : windowLazy cells (.row n) = .ok r') :
    r'.inner.length ≠ 0 ∧ r'.sr = n ∧ (∀ c ∈ Kn cells n, c.1 ≤ r'.er) ∧ (∃ c ∈ Kn cells n, c.1 = r'.er) ∧
    ∀ p q, r'.valAt p q = if n ≤ p then (lastAt (K0 cells) p q).getD default else default := by
  have hsK : RowSorted (Kn cells n) := List.Pairwise.filter _ hs
  have hge : ∀ c ∈ Kn cells n, n ≤ c.1 := by
    intro c hc; have := (List.mem_filter.mp hc).2; simp only [decide_eq_true_eq] at this; exact this.2
  have hK : ∀ p q, n ≤ p → (lastAt (Kn cells n) p q) = lastAt (K0 cells) p q := by
    intro p q hp
    rw [Kn_eq]; apply lastAt_filter
    intro c _ h1 _; simp only [decide_eq_true_eq]; omega
  obtain ⟨c, rest, hk⟩ := List.exists_cons_of_ne_nil hex
  have hk' : cells.filter (fun c => decide (c.2.2 ≠ default ∧ c.1 ≥ n)) = c :: rest := hk
  have hmax := sorted_le_last (Kn cells n) hex hsK
  have hlastmem : (c :: rest).getLast (by simp) ∈ Kn cells n := by rw [hk]; exact List.getLast_mem _
  have hmax' : ∀ x ∈ Kn cells n, x.1 ≤ ((c :: rest).getLast (by simp)).1 := by
    intro x hx; have := hmax x hx; simpa only [hk] using this
  -- the list handed to `from_sparse` is `Kn`, preceded by an empty anchor cell when its first row is not `n`
  have key : ∀ (L : List (Nat × Nat × α)) (hne : L ≠ []), (L.head hne).1 = n →
      (L.getLast hne).1 = ((c :: rest).getLast (by simp)).1 →
      (∀ p q, (lastAt L p q).getD default = (lastAt (Kn cells n) p q).getD default) →
      (∀ x ∈ L, n ≤ x.1) → (∀ x ∈ L, x.1 ≤ (L.getLast hne).1) → fromSparse L = .ok r' →
      r'.inner.length ≠ 0 ∧ r'.sr = n ∧ (∀ c ∈ Kn cells n, c.1 ≤ r'.er) ∧ (∃ c ∈ Kn cells n, c.1 = r'.er) ∧
      ∀ p q, r'.valAt p q = if n ≤ p then (lastAt (K0 cells) p q).getD default else default := by
    intro L hLne hhead hlast hlastAt hLge hLle hfs
    obtain ⟨hpos, hsr, her, _, _, _, hv⟩ := fromSparse_spec L hLne r' hfs
      (fun x hx => ⟨by rw [hhead]; exact hLge x hx, hLle x hx⟩)
    refine ⟨hpos, by rw [hsr, hhead], ?_, ⟨_, hlastmem, by rw [her, hlast]⟩, ?_⟩
    · intro x hx; rw [her, hlast]; exact hmax' x hx
    · intro p q
      rw [hv p q]
      by_cases hp : n ≤ p
      · simp only [hp, if_true]
        split
        · rw [hlastAt, hK p q hp]
        · rename_i hgt
          rw [← hK p q hp, lastAt_none_of (Kn cells n) p q]; · rfl
          intro x hx
          have := hmax' x hx
          rw [her, hlast] at hgt
          omega
      · simp only [hp, if_false]
        split
        · rw [lastAt_none_of L p q]; · rfl
          intro x hx; have := hLge x hx; omega
        · rfl
  simp only [windowLazy, keepLazy, hk'] at h
  by_cases hc : c.1 ≠ n
  · rw [if_pos hc] at h
    refine key _ (by simp) (by simp) ?_ ?_ ?_ ?_ h
    · rw [List.getLast_cons (by simp)]
    · intro p q; rw [hk]; exact lastAt_cons_default _ _ _ _ _
    · intro x hx
      rcases List.mem_cons.mp hx with rfl | hx'
      · simp
      · exact hge x (by rw [hk]; exact hx')
    · intro x hx
      rw [List.getLast_cons (by simp)]
      rcases List.mem_cons.mp hx with rfl | hx'
      · have h1 := hge c (by rw [hk]; exact List.mem_cons_self ..)
        have h2 := hmax' c (by rw [hk]; exact List.mem_cons_self ..)
        simp only; omega
      · exact hmax' x (by rw [hk]; exact hx')
  · rw [if_neg hc] at h
    refine key _ (by simp) (by simp only [List.head_cons]; omega) rfl ?_ ?_ ?_ h
    · intro p q; rw [hk]
    · intro x hx; exact hge x (by rw [hk]; exact hx)
    · intro x hx; exact hmax' x (by rw [hk]; exact hx)

/-- **hr_values (lazy)**: every position with row ≥ n holds the same value as under the default option,
    and no value from a row < n appears -/
theorem lazy_agrees_with_default (cells : List (Nat × Nat × α)) (hs : RowSorted cells) (n : Nat)
    (r0 r' : Rng α) (h0 : windowLazy cells .firstNonEmpty = .ok r0) (h : windowLazy cells (.row n) = .ok r')
    (p q : Nat) : r'.valAt p q = if n ≤ p then r0.valAt p q else default := by
  rw [lazy_default_values cells hs r0 h0 p q]
  by_cases hex : Kn cells n = []
  · have hall : ∀ c ∈ cells, c.2.2 ≠ default → c.1 < n := by
      intro c hc hnd
      have := List.filter_eq_nil_iff.mp hex c hc
      simp only [decide_eq_true_eq] at this
      by_cases hlt : c.1 < n
      · exact hlt
      · exact absurd ⟨hnd, by omega⟩ this
    rw [lazy_empty cells n hall] at h; injection h with h; subst h
    have : (empty : Rng α).valAt p q = default := by simp [Rng.valAt, empty]
    rw [this]
    split
    · rename_i hp
      rw [lastAt_none_of (K0 cells) p q]; · rfl
      intro c hc
      have hm := List.mem_filter.mp hc
      have := hall c hm.1 (by simpa using hm.2)
      omega
    · rfl
  · exact (lazy_window cells hs n hex r' h).2.2.2.2 p q

/-- **hr_no_panic (lazy)**: for every sheet with rows in document order and every option
    (any `n`, in particular beyond the data), the lazy readers return a range -/
theorem lazy_no_panic (cells : List (Nat × Nat × α)) (hs : RowSorted cells) (hb : InSheet cells) (h : Hdr) :
    ∃ r, windowLazy cells h = .ok r := by
  obtain ⟨h1, h2⟩ := keepLazy_sorted cells hs hb h
  exact fromSparse_of_pre _ (sparsePre_of_sorted _ h1 h2)


/-- **hr_lazy_eager_agree**: on the same sheet the two implementations show the same value at every
    position (their column extents may differ, values may not) -/
theorem lazy_eager_agree (cells : List (Nat × Nat × α)) (hs : RowSorted cells) (n : Nat)
    (r0 rl re : Rng α) (h0 : windowLazy cells .firstNonEmpty = .ok r0)
    (hl : windowLazy cells (.row n) = .ok rl) (he : windowEager r0 (.row n) = .ok re) (p q : Nat) :
    rl.valAt p q = re.valAt p q := by
  rw [lazy_agrees_with_default cells hs n r0 rl h0 hl p q]
  have hi : Inv r0 := (inv_fromSparse _ r0 h0).1
  simp only [windowEager] at he
  split at he
  · rename_i hemp
    injection he with he; subst he
    have : r0.valAt p q = default := by simp [Rng.valAt, hemp]
    simp [this]
  · rename_i hne
    split at he
    · rename_i hgt
      injection he with he; subst he
      have e : (empty : Rng α).valAt p q = default := by simp [Rng.valAt, empty]
      rw [e]
      split
      · exact valAt_of_out r0 p q (by omega)
      · rfl
    · rename_i hle
      rw [range_spec r0 hi n r0.sc r0.er r0.ec re he p q]
      by_cases hp : n ≤ p
      · simp only [hp, true_and, if_true]
        split
        · rfl
        · exact valAt_of_out r0 p q (by omega)
      · simp [hp]

end lazy

/-! ## stronger forms: cells in any order, emptiness as an "exactly when", agreement of the bounds
    (added after an independent audit of the statements: `eager_after_last` alone proves "empty when n > r.er" for
    an ARBITRARY rectangle `r`, which is the property's "otherwise it is empty" only for a range that is tight at
    the bottom — the counter-instance is kept as an `example` below) -/
section strong
variable [DecidableEq α]

/-- **lazy readers, explicit header row, cells in ANY order** (no hypothesis on the order in which the part lists
    its cells): if some non-empty cell lies in a row ≥ n, the range starts exactly at row `n`, ends at the largest
    row holding a non-empty cell, and every position with row ≥ n shows the last non-empty cell stored there —
    nothing from a row < n -/
theorem lazy_window_any_order (cells : List (Nat × Nat × α)) (n : Nat)
    (hex : Kn cells n ≠ []) (r' : Rng α) (h : windowLazy cells (.row n) = .ok r') :
    r'.inner.length ≠ 0 ∧ r'.sr = n ∧ (∀ c ∈ Kn cells n, c.1 ≤ r'.er) ∧ (∃ c ∈ Kn cells n, c.1 = r'.er) ∧
    ∀ p q, r'.valAt p q = if n ≤ p then (lastAt (K0 cells) p q).getD default else default := by
  obtain ⟨hLne, hLge, ⟨xn, hxn, hxn1⟩, hsub, hsup, hlast⟩ := keepLazy_row_facts cells n hex
  have hge : ∀ c ∈ Kn cells n, n ≤ c.1 := by
    intro c hc; have := (List.mem_filter.mp hc).2; simp only [decide_eq_true_eq] at this; exact this.2
  unfold windowLazy at h
  obtain ⟨hpos, hmem, ⟨c1, hc1, e1⟩, ⟨c2, hc2, e2⟩, _, _, hv⟩ := fromSparse_spec_any _ hLne r' h
  have hsr : r'.sr = n := by
    have a := (hmem xn hxn).1
    have b := hLge c1 hc1
    omega
  refine ⟨hpos, hsr, fun c hc => (hmem c (hsub c hc)).2.1, ?_, ?_⟩
  · -- the largest row is attained by a kept cell: by c2 itself, or — if c2 is the anchor — by any kept cell
    rcases hsup c2 hc2 with hk | ⟨hrow, _⟩
    · exact ⟨c2, hk, e2⟩
    · obtain ⟨c, rest, hk⟩ := List.exists_cons_of_ne_nil hex
      have hcm : c ∈ Kn cells n := by rw [hk]; exact List.mem_cons_self ..
      have a := (hmem c (hsub c hcm)).2.1
      have b := hge c hcm
      exact ⟨c, hcm, by omega⟩
  · intro p q
    rw [hv p q, hlast p q]
    by_cases hp : n ≤ p
    · rw [if_pos hp, Kn_eq]
      congr 1
      apply lastAt_filter
      intro c _ h1 _; simp only [decide_eq_true_eq]; omega
    · rw [if_neg hp, lastAt_none_of (Kn cells n) p q]; · rfl
      intro c hc; have := hge c hc; omega

/-- **lazy readers: empty exactly when no non-empty cell lies in a row ≥ n** -/
theorem lazy_empty_iff (cells : List (Nat × Nat × α)) (n : Nat) (r' : Rng α)
    (h : windowLazy cells (.row n) = .ok r') :
    r'.inner.length = 0 ↔ ∀ c ∈ cells, c.2.2 ≠ default → c.1 < n := by
  constructor
  · intro hemp c hc hnd
    by_cases hex : Kn cells n = []
    · have := List.filter_eq_nil_iff.mp hex c hc
      simp only [decide_eq_true_eq] at this
      by_cases hlt : c.1 < n
      · exact hlt
      · exact absurd ⟨hnd, by omega⟩ this
    · exact absurd hemp (lazy_window_any_order cells n hex r' h).1
  · intro hall
    rw [lazy_empty cells n hall] at h; injection h with h; subst h; rfl

/-- **default option, lazy readers, any order**: the range starts at the FIRST ROW THAT CONTAINS A NON-EMPTY CELL
    (the smallest such row), ends at the largest, and shows at every position the last non-empty cell stored there -/
theorem lazy_default_any_order (cells : List (Nat × Nat × α)) (hne : K0 cells ≠ []) (r0 : Rng α)
    (h : windowLazy cells .firstNonEmpty = .ok r0) :
    r0.inner.length ≠ 0 ∧ (∀ c ∈ K0 cells, r0.sr ≤ c.1 ∧ c.1 ≤ r0.er) ∧
    (∃ c ∈ K0 cells, c.1 = r0.sr) ∧ (∃ c ∈ K0 cells, c.1 = r0.er) ∧
    ∀ p q, r0.valAt p q = (lastAt (K0 cells) p q).getD default := by
  unfold windowLazy keepLazy at h
  obtain ⟨hpos, hmem, t1, t2, _, _, hv⟩ := fromSparse_spec_any (K0 cells) hne r0 h
  exact ⟨hpos, fun c hc => ⟨(hmem c hc).1, (hmem c hc).2.1⟩, t1, t2, hv⟩

/-- values under `Row(n)` vs the default option, cells in any order -/
theorem lazy_agrees_with_default_any_order (cells : List (Nat × Nat × α)) (n : Nat)
    (r0 r' : Rng α) (h0 : windowLazy cells .firstNonEmpty = .ok r0) (h : windowLazy cells (.row n) = .ok r')
    (p q : Nat) : r'.valAt p q = if n ≤ p then r0.valAt p q else default := by
  have hv0 : r0.valAt p q = (lastAt (K0 cells) p q).getD default := by
    by_cases hne : K0 cells = []
    · have e : K0 cells = [] := hne
      unfold windowLazy keepLazy at h0
      simp only [K0] at hne
      rw [hne] at h0; simp only [fromSparse] at h0; injection h0 with h0; subst h0
      rw [e]; simp [Rng.valAt, empty, lastAt]
    · exact (lazy_default_any_order cells hne r0 h0).2.2.2.2 p q
  rw [hv0]
  by_cases hex : Kn cells n = []
  · have hall : ∀ c ∈ cells, c.2.2 ≠ default → c.1 < n := by
      intro c hc hnd
      have := List.filter_eq_nil_iff.mp hex c hc
      simp only [decide_eq_true_eq] at this
      by_cases hlt : c.1 < n
      · exact hlt
      · exact absurd ⟨hnd, by omega⟩ this
    rw [lazy_empty cells n hall] at h; injection h with h; subst h
    have : (empty : Rng α).valAt p q = default := by simp [Rng.valAt, empty]
    rw [this]
    split
    · rename_i hp
      rw [lastAt_none_of (K0 cells) p q]; · rfl
      intro c hc
      have hm := List.mem_filter.mp hc
      have := hall c hm.1 (by simpa using hm.2)
      omega
    · rfl
  · exact (lazy_window_any_order cells n hex r' h).2.2.2.2 p q

end strong

/-- the sheet's range is tight at the bottom: its last row holds a non-default cell — what the readers build
    (the bounding box of the non-empty cells: C02 `biff_sheet_roundtrip`, C04 `ods_range_spec`) -/
def TightBottom (r : Rng α) : Prop := ∃ q, r.valAt r.er q ≠ default

/-- **eager readers: empty exactly when no non-empty cell lies in a row ≥ n** (for a sheet range that is
    tight at the bottom; for an arbitrary rectangle only `→` would hold) -/
theorem eager_empty_iff (r : Rng α) (hi : Inv r) (hne : r.inner.length ≠ 0) (ht : TightBottom r) (n : Nat)
    (r' : Rng α) (h : windowEager r (.row n) = .ok r') :
    r'.inner.length = 0 ↔ ∀ p q, n ≤ p → r.valAt p q = default := by
  simp only [windowEager, hne, if_false] at h
  by_cases hgt : n > r.er
  · rw [if_pos hgt] at h; injection h with h; subst h
    refine ⟨fun _ p q hp => valAt_of_out r p q (by omega), fun _ => rfl⟩
  · rw [if_neg hgt] at h
    obtain ⟨_, hpos, _, _⟩ := inv_range r hi n r.sc r.er r.ec r' h
    obtain ⟨q, hq⟩ := ht
    constructor
    · intro h0; exact absurd h0 hpos
    · intro hall; exact absurd (hall r.er q (by omega)) hq

/-- when it is not empty the eager window starts exactly at row `n` and ends at the sheet's last row -/
theorem eager_bounds (r : Rng α) (hi : Inv r) (hne : r.inner.length ≠ 0) (n : Nat) (hn : n ≤ r.er)
    (r' : Rng α) (h : windowEager r (.row n) = .ok r') :
    r'.inner.length ≠ 0 ∧ r'.start = some (n, r.sc) ∧ r'.end_ = some (r.er, r.ec) := by
  simp only [windowEager, hne, if_false, Nat.not_lt.mpr hn] at h
  obtain ⟨_, hpos, hs, he⟩ := inv_range r hi n r.sc r.er r.ec r' h
  exact ⟨hpos, hs, he⟩

section strong2
variable [DecidableEq α]

/-- the range the lazy readers build under the default option is tight at the bottom -/
theorem lazy_default_tight (cells : List (Nat × Nat × α)) (hne : K0 cells ≠ []) (r0 : Rng α)
    (h : windowLazy cells .firstNonEmpty = .ok r0) : TightBottom r0 := by
  obtain ⟨_, _, _, ⟨c, hc, hce⟩, hv⟩ := lazy_default_any_order cells hne r0 h
  refine ⟨c.2.1, ?_⟩
  rw [hv, ← hce]
  -- some cell of K0 sits at (c.1, c.2.1): the last one there carries a non-default value
  unfold lastAt
  have hex : ∃ x ∈ (K0 cells).reverse, decide (x.1 = c.1 ∧ x.2.1 = c.2.1) = true :=
    ⟨c, List.mem_reverse.mpr hc, by simp⟩
  obtain ⟨x, hx⟩ := Option.isSome_iff_exists.mp (List.find?_isSome.mpr hex)
  rw [hx]
  have hxm : x ∈ K0 cells := List.mem_reverse.mp (List.mem_of_find?_eq_some hx)
  have := (List.mem_filter.mp hxm).2
  simpa using this

/-- **hr_lazy_eager_agree, bounds and emptiness**: on the same sheet (cells in any order) the lazy window and the
    eager window of the default range are empty together, and otherwise have the same first row `n` and the same
    last row (their column extents may differ: the lazy one is tight on the kept cells) -/
theorem lazy_eager_bounds_agree (cells : List (Nat × Nat × α)) (n : Nat) (r0 rl re : Rng α)
    (h0 : windowLazy cells .firstNonEmpty = .ok r0) (hl : windowLazy cells (.row n) = .ok rl)
    (he : windowEager r0 (.row n) = .ok re) :
    (rl.inner.length = 0 ↔ re.inner.length = 0) ∧
    (rl.inner.length ≠ 0 → rl.sr = n ∧ re.sr = n ∧ rl.er = re.er) := by
  have hi : Inv r0 := (inv_fromSparse _ r0 h0).1
  by_cases hk0 : K0 cells = []
  · -- no non-empty cell at all: everything is empty
    have hall : ∀ c ∈ cells, c.2.2 ≠ default → c.1 < n := by
      intro c hc hnd
      have := List.filter_eq_nil_iff.mp hk0 c hc
      simp at this; exact absurd this hnd
    have e0 : r0.inner.length = 0 := by
      unfold windowLazy keepLazy at h0
      have e : cells.filter (fun c => decide (c.2.2 ≠ default)) = [] := hk0
      rw [e] at h0; simp only [fromSparse] at h0; injection h0 with h0; subst h0; rfl
    rw [eager_empty_sheet r0 e0] at he; injection he with he; subst he
    rw [lazy_empty cells n hall] at hl; injection hl with hl; subst hl
    exact ⟨⟨fun _ => e0, fun _ => rfl⟩, fun h => absurd rfl h⟩
  · obtain ⟨hpos0, hmem0, _, ⟨cmax, hcmax, hcm⟩, _⟩ := lazy_default_any_order cells hk0 r0 h0
    have ht := lazy_default_tight cells hk0 r0 h0
    by_cases hex : Kn cells n = []
    · -- every non-empty cell is above row n
      have hall : ∀ c ∈ cells, c.2.2 ≠ default → c.1 < n := by
        intro c hc hnd
        have := List.filter_eq_nil_iff.mp hex c hc
        simp only [decide_eq_true_eq] at this
        by_cases hlt : c.1 < n
        · exact hlt
        · exact absurd ⟨hnd, by omega⟩ this
      have hlt : r0.er < n := by
        have hm := List.mem_filter.mp hcmax
        have := hall cmax hm.1 (by simpa using hm.2)
        omega
      rw [lazy_empty cells n hall] at hl; injection hl with hl; subst hl
      rw [eager_after_last r0 n hpos0 hlt] at he; injection he with he; subst he
      exact ⟨⟨fun _ => rfl, fun _ => rfl⟩, fun h => absurd rfl h⟩
    · obtain ⟨hposl, hsrl, hlel, ⟨cl, hcl, hcle⟩, _⟩ := lazy_window_any_order cells n hex rl hl
      have hge : ∀ c ∈ Kn cells n, n ≤ c.1 := by
        intro c hc; have := (List.mem_filter.mp hc).2; simp only [decide_eq_true_eq] at this; exact this.2
      have hKsub : ∀ c ∈ Kn cells n, c ∈ K0 cells := by
        intro c hc; rw [Kn_eq] at hc; exact (List.mem_filter.mp hc).1
      -- the largest non-empty row is ≥ n, so it is the largest kept row too
      have hn : n ≤ r0.er := by
        have a := hge cl hcl
        have b := (hmem0 cl (hKsub cl hcl)).2
        omega
      have hcmaxK : cmax ∈ Kn cells n := by
        rw [Kn_eq]; exact List.mem_filter.mpr ⟨hcmax, by simp only [decide_eq_true_eq]; omega⟩
      have her : rl.er = r0.er := by
        have a := hlel cmax hcmaxK
        have b := (hmem0 cl (hKsub cl hcl)).2
        omega
      obtain ⟨hpose, hse, hee⟩ := eager_bounds r0 hi hpos0 n hn re he
      have hsre : re.sr = n := by
        simp only [Rng.start, hpose, if_false] at hse; injection hse with hse; exact (Prod.mk.inj hse).1
      have here : re.er = r0.er := by
        simp only [Rng.end_, hpose, if_false] at hee; injection hee with hee; exact (Prod.mk.inj hee).1
      exact ⟨⟨fun h => absurd h hposl, fun h => absurd h hpose⟩, fun _ => ⟨hsrl, hsre, by rw [her, here]⟩⟩

end strong2

/-- the counter-instance of the audit: on a rectangle that is NOT tight at the bottom the eager window under
    `Row(1)` is a non-empty all-default range, although no non-empty cell lies in a row ≥ 1 -/
example : windowEager (⟨0, 0, 2, 0, [5, 0, 0]⟩ : Rng Nat) (.row 1) = .ok ⟨1, 0, 2, 0, [0, 0]⟩ := by rfl
example : ¬ TightBottom (⟨0, 0, 2, 0, [5, 0, 0]⟩ : Rng Nat) := by
  intro ⟨q, hq⟩
  simp only [Rng.valAt] at hq
  split at hq
  · rename_i h
    have : q = 0 := by omega
    subst this
    exact hq (by decide)
  · exact hq rfl

/-! ## non-vacuity -/

example : windowEager (⟨1, 0, 2, 1, [5, 0, 0, 7]⟩ : Rng Nat) (.row 2) = .ok ⟨2, 0, 2, 1, [0, 7]⟩ := by rfl
example : windowEager (⟨1, 0, 2, 1, [5, 0, 0, 7]⟩ : Rng Nat) (.row 9) = .ok empty := by rfl
example : windowLazy [(1, 1, 5), (4, 2, 7), (6, 0, 9)] (.row 3) =
    (.ok ⟨3, 0, 6, 2, [0, 0, 0, 0, 0, 7, 0, 0, 0, 9, 0, 0]⟩ : Res (Rng Nat)) := by rfl
example : RowSorted [(1, 1, 5), (4, 2, 7), (6, 0, 9)] ∧ InSheet [(1, 1, 5), (4, 2, 7), (6, 0, 9)] := by
  refine ⟨by simp [RowSorted], ?_⟩
  intro c hc; simp at hc; rcases hc with rfl | rfl | rfl <;> decide

end HeaderRow
