import CalVerif.Lemmas.Cfb
/-! # C13 — compound-file streams are recovered whatever the container's physical layout

    Property theorems only (helper lemmas live in `Lemmas/Cfb.lean`).

    * reader model: `Model/Cfb.lean` (`Cfb.new`, `Cfb.getStream`, `Cfb.readStream`, …), mirroring
      `src/cfb.rs` after the fixes D25, D29 and their follow-ups (total `to_u32`, names decoded without
      BOM sniffing, whole DIFAT sectors, chains / DIFAT walk / allocation table bounded by the bytes actually
      read; the `len` argument is a capacity hint only);
    * encoder: `Spec/CfbLayout.lean`: `layoutCfb streams L` lays the streams out as the layout `L`
      (data) says; `Valid streams L` is the decidable consistency condition. It constrains neither
      the sector size (512/4096), nor the allocation (`owner` is an arbitrary array: any injective
      assignment of sector numbers to chain positions, any fragmentation, any free sectors), nor the
      number of FAT sectors (any `nfat` with `nfat * perFat ≥ total`), nor the number of DIFAT
      sectors (any `ndif` with `109 + ndif * (perFat - 1) ≥ nfat`), nor the order of the directory
      entries or the unused entries among them, nor the mini-sector allocation, nor the padding byte.

    Main result: `cfb_roundtrip`. (Remark: the model of `Cfb::new` ignores its `len` argument, a capacity hint in
    the code; `Lemmas/Cfb.lean` records this as `new_len_independent`, true by `rfl`.) -/
namespace Cfb

/-! ## following a chain -/

/-- `chain_follow`: in ANY allocation table in which `ids` is recorded as a chain
    (`fats[ids[i]] = ids[i+1]`, the last one maps to ENDOFCHAIN), the bounded loop of `get_chain`
    started at `ids[0]` returns exactly the sectors `ids[0], …, ids[n-1]` in this order (their
    contents concatenated), whatever the state of the lazy sector cache, provided the sectors are
    distinct and the file holds them entirely (then the accumulation guard of the fixed loop — never
    more bytes than have been read — cannot fire: pigeonhole); `hlazy`: the cache is filled from the file on
    demand (the sectors of the file) or already holds the chain (the mini stream, which never reads the file).
    No ordering assumption on `ids`:
    permuted and fragmented chains are covered. -/
theorem chain_follow (fats : List Nat) (body : Bytes) (ids : List Nat) (rem : Nat) (s : Sectors) (rd : Bytes)
    (hcache : s.data ++ rd = body) (hrem : ids.length ≤ rem) (hss : 0 < s.size)
    (hlazy : s.lazy = true ∨ ∀ x ∈ ids, (x + 1) * s.size ≤ s.data.length)
    (hchain : ∀ i (h : i < ids.length), ids[i] ≠ ENDOFCHAIN ∧ fats[ids[i]]? = some (ids[i+1]?.getD ENDOFCHAIN))
    (hdistinct : ids.Nodup) (hfull : ∀ x ∈ ids, (x + 1) * s.size ≤ body.length) :
    ∃ s' rd', Sectors.chainLoop fats rem (ids[0]?.getD ENDOFCHAIN) s rd 0 =
        .ok ((ids.map (sec body s.size)).flatten, s', rd') ∧ s'.data ++ rd' = body ∧ s'.size = s.size :=
  chainLoop_follow fats body ids rem s rd hcache hrem hss hlazy hchain hdistinct hfull

/-- the lazily filled cache is transparent: `Sectors::get` returns the sector of the underlying sector area
    (clipped at EOF), whatever has been read before; an in-memory `Sectors` (the mini stream) returns the bytes
    it holds and never touches the reader -/
theorem sector_get_cache_independent (s : Sectors) (id : Nat) (rd body : Bytes) (h : s.data ++ rd = body)
    (hlazy : s.lazy = true) :
    (s.get id rd).1 = sec body s.size id ∧ (s.get id rd).2.1.data ++ (s.get id rd).2.2 = body :=
  ⟨(Sectors.get_spec s id rd body h (Or.inl hlazy)).1, (Sectors.get_spec s id rd body h (Or.inl hlazy)).2.1⟩

/-- the mini stream is held in memory: reading a mini sector never advances the file reader, even when the
    sector reaches behind the end of the mini stream (unpadded root size) -/
theorem mini_get_never_reads (s : Sectors) (id : Nat) (rd : Bytes) (h : s.lazy = false) :
    (s.get id rd).2 = (s, rd) ∧ (s.get id rd).1 = (s.data.drop (min (id * s.size) s.data.length)).take
      (min (id * s.size + s.size) s.data.length - min (id * s.size) s.data.length) := by
  obtain ⟨d, z, l⟩ := s
  simp only at h
  subst h
  simp [Sectors.get]

/-- `read_chain_concat`: reading the sectors of chain `c` of a space in chain order yields the
    chain's data cut into sector-sized pieces (the last one padded), for every allocation `sp`
    that passes `chainOK` (owner and chain views agree) -/
theorem read_chain_concat (sp : Space) (ss : Nat) (hss : 0 < ss) (fill : UInt8) (P : Array (Array Bytes))
    (fatSec difSec : Nat → Bytes)
    (hP : UniformP ss P) (hf : ∀ j, (fatSec j).length = ss) (hd : ∀ j, (difSec j).length = ss)
    (c : Nat) (D : Bytes) (hPc : P[c]? = some (pieces ss fill D))
    (hok : chainOK sp c (nsect ss D.length) = true) :
    ((sp.ids c).map (sec (sp.body ss fill P fatSec difSec) ss)).flatten = (padChunks ss fill D.length D).flatten := by
  rw [Space.read_chain sp ss hss fill P fatSec difSec hP hf hd c D hPc hok]

/-- `truncate_to_size`: the padded pieces, concatenated and truncated to the declared size, are the data -/
theorem truncate_to_size (ss : Nat) (fill : UInt8) (hss : 0 < ss) (D : Bytes) :
    ((padChunks ss fill D.length D).flatten).take D.length = D :=
  padChunks_flatten_take ss fill hss D.length D (Nat.le_refl _)

/-- a chain of `n` distinct sectors fits the bound of the fixed loop (`remaining = fats.len()`):
    the pigeonhole step that makes the cycle guard harmless on valid files -/
theorem chain_fits_table (sp : Space) (c n : Nat) (h : chainOK sp c n = true) : n ≤ sp.owner.size :=
  chain_size_le sp c n h

/-- chain read = data, for any chain of any space (main sectors or mini sectors), any `owner` -/
theorem chain_roundtrip (sp : Space) (ss : Nat) (hss : 0 < ss) (fill : UInt8) (P : Array (Array Bytes))
    (fatSec difSec : Nat → Bytes)
    (hP : UniformP ss P) (hf : ∀ j, (fatSec j).length = ss) (hd : ∀ j, (difSec j).length = ss)
    (c : Nat) (D : Bytes) (hPc : P[c]? = some (pieces ss fill D))
    (hok : chainOK sp c (nsect ss D.length) = true)
    (len : Nat) (hlen : sp.owner.size ≤ len) (hres : sp.owner.size ≤ RESERVED)
    (s : Sectors) (rd : Bytes) (hsz : s.size = ss) (hinv : s.data ++ rd = sp.body ss fill P fatSec difSec)
    (hlazy : s.lazy = true ∨ ss * sp.owner.size ≤ s.data.length) :
    ∃ s' rd', s.getChain (chainStart sp c) (sp.fats len) rd D.length = .ok (D, s', rd') ∧
      s'.data ++ rd' = sp.body ss fill P fatSec difSec ∧ s'.size = ss := by
  obtain ⟨s', rd', he, hi, hz⟩ := Space.getChain_gen sp ss hss fill P fatSec difSec hP hf hd c D hPc hok len hlen
    hres s rd [] hsz (by rw [List.append_nil]; exact hinv) hlazy D.length
  rw [stream_read_result ss fill hss] at he
  rw [List.append_nil] at hi
  exact ⟨s', rd', he, hi, hz⟩

/-! ## header and directory entries -/

/-- `header_roundtrip`: the reader recovers every header field and the 109 header DIFAT entries, and
    is positioned at the first sector (512- and 4096-byte sectors) -/
theorem header_roundtrip (streams : List Stream) (L : Layout) (h : Valid streams L) :
    Header.fromReader (layoutCfb streams L) = .ok (hdrOf streams L, hdrDifat L, mainBody streams L) :=
  fromReader_layout streams L (hdrFields_lt streams L (valid_unpack streams L h))
    (hdrDifat_lt streams L (valid_unpack streams L h))

/-- `dir_entry_roundtrip`: name (UTF-16, BMP and astral, up to 31 units), start sector and size
    (32 bits in version 3, 64 bits in version 4) and object type of a directory entry are recovered -/
theorem dir_entry_roundtrip (name : List Char) (typ : UInt8) (start size ss : Nat) (hn : nameEncOK name = true)
    (hs : start < 4294967296)
    (hsz : (ss = 512 ∧ size < 4294967296) ∨ (ss ≠ 512 ∧ size < 18446744073709551616)) :
    Dir.fromSlice (dirEntry name typ start size) ss = .ok ⟨name, start, size, typ.toNat⟩ :=
  fromSlice_dirEntry name typ start size ss hn hs hsz

/-- UTF-16 encoding/decoding of names round-trips (whatever follows) -/
theorem utf16_roundtrip (cs : List Char) (t : List Nat) : decodeUtf16 (utf16Units cs ++ t) = cs ++ decodeUtf16 t :=
  decode_units cs t

/-! ## the container as a whole -/

/-- `Cfb::new` succeeds on every generated container and knows every stream (used by C20) -/
theorem new_ok (streams : List Stream) (L : Layout) (h : Valid streams L) :
    ∃ c rd, Cfb.new (layoutCfb streams L) (layoutCfb streams L).length = .ok (c, rd) ∧
      Good streams L c rd ∧ ∀ st ∈ streams, hasDirectory c st.name = true := by
  have hv := valid_unpack streams L h
  obtain ⟨c, rd, he, hg⟩ := new_layout_good streams L hv
  exact ⟨c, rd, he, hg, fun st hst => hasDirectory_layout streams L hv c rd hg st hst⟩

/-- `get_stream` returns the logical stream and keeps the reader state good: streams can be read
    in any order, any number of times, on the same `Cfb` and reader -/
theorem get_stream_ok (streams : List Stream) (L : Layout) (h : Valid streams L) (c : CfbSt) (rd : Bytes)
    (hg : Good streams L c rd) (st : Stream) (hst : st ∈ streams) :
    ∃ c' rd', getStream c st.name rd = .ok (st.data, c', rd') ∧ Good streams L c' rd' := by
  obtain ⟨s0, hs0, rfl⟩ := List.getElem_of_mem hst
  exact getStream_layout streams L (valid_unpack streams L h) c rd hg s0 streams[s0] (by simp [hs0])

/-- **C13** `cfb_roundtrip`: for every set of streams and every valid physical layout, opening the
    container and reading a stream by name yields the byte-exact logical stream — regular chains
    and mini stream, 512- and 4096-byte sectors, any permutation/fragmentation, any number of FAT and
    DIFAT sectors, any directory order, unused entries and free sectors. -/
theorem cfb_roundtrip (streams : List Stream) (L : Layout) (h : Valid streams L) (st : Stream) (hst : st ∈ streams) :
    readStream (layoutCfb streams L) st.name = .ok st.data := by
  obtain ⟨c, rd, he, hg, _⟩ := new_ok streams L h
  obtain ⟨c', rd', hget, _⟩ := get_stream_ok streams L h c rd hg st hst
  unfold readStream
  rw [he]
  simp only [Res.bind_ok]
  rw [hget]
  rfl

/-- a name lookup reaches the directory entry of that stream whatever the directory order, the unused
    entries and the root entry: `get_stream` continues with the entry's start sector and size -/
theorem get_stream_entry (streams : List Stream) (L : Layout) (h : Valid streams L) (c : CfbSt) (rd : Bytes)
    (hg : Good streams L c rd) (s0 : Nat) (st : Stream) (hst : streams[s0]? = some st) :
    getStream c st.name rd = getStreamAt c (streamDir streams L s0) rd :=
  getStream_entry streams L (valid_unpack streams L h) c rd hg s0 st hst

/-- the mini-stream case: a stream shorter than 4096 bytes is read THROUGH THE MINI STREAM. Its directory entry
    starts at the mini chain `L.mini.ids s0`; `get_stream` follows that chain in the mini FAT the state holds, over
    the mini stream the state holds (the root entry's chain, loaded by `Cfb::new`), reads nothing from the file,
    and the result is the concatenation of those 64-byte mini sectors truncated to the size -/
theorem cfb_roundtrip_mini (streams : List Stream) (L : Layout) (h : Valid streams L) (c : CfbSt) (rd : Bytes)
    (hg : Good streams L c rd) (s0 : Nat) (st : Stream) (hst : streams[s0]? = some st)
    (hmini : st.data.length < 4096) :
    (streamDir streams L s0).start = chainStart L.mini s0 ∧ (streamDir streams L s0).len = st.data.length ∧
    c.mini.getChain (chainStart L.mini s0) c.miniFats rd st.data.length = .ok (st.data, c.mini, rd) ∧
    getStream c st.name rd = .ok (st.data, c, rd) ∧
    st.data = (((L.mini.ids s0).map (sec c.mini.data 64)).flatten).take st.data.length := by
  have hv := valid_unpack streams L h
  have hm : isMini st = true := by simpa [isMini] using hmini
  have hsub := mini_subread streams L hv s0 st hst hm rd
  have hsec := mini_stream_sectors streams L hv s0 st hst hm
  refine ⟨by simp [streamDir, hst, hm], by simp [streamDir, hst], ?_, ?_, ?_⟩
  · rw [hg.mini, hg.miniFats]; exact hsub
  · obtain ⟨d, s, f, m, mf⟩ := c
    obtain ⟨g1, g2, g3, g4, g5, g6, g7⟩ := hg
    simp only at g1 g2 g3 g4 g5 g6 g7
    subst g3 g4
    rw [getStream_entry streams L hv _ rd ⟨g1, g2, rfl, rfl, g5, g6, g7⟩ s0 st hst]
    unfold getStreamAt
    simp only [streamDir, hst, hm, hmini, if_true]
    rw [hsub]
  · rw [hg.mini]; exact hsec

/-- the regular case: a stream of at least 4096 bytes is read THROUGH THE FAT. Its directory entry starts at the
    chain `L.main.ids (3 + s0)`; `get_stream` follows it in the FAT over the sectors of the file, and the result is
    the concatenation of those sectors truncated to the size -/
theorem cfb_roundtrip_regular (streams : List Stream) (L : Layout) (h : Valid streams L) (c : CfbSt) (rd : Bytes)
    (hg : Good streams L c rd) (s0 : Nat) (st : Stream) (hst : streams[s0]? = some st)
    (hreg : 4096 ≤ st.data.length) :
    (streamDir streams L s0).start = chainStart L.main (3 + s0) ∧ (streamDir streams L s0).len = st.data.length ∧
    (∃ s' rd', c.sectors.getChain (chainStart L.main (3 + s0)) c.fats rd st.data.length = .ok (st.data, s', rd') ∧
      getStream c st.name rd = .ok (st.data, { c with sectors := s' }, rd')) ∧
    st.data = (((L.main.ids (3 + s0)).map (sec (mainBody streams L) L.ss)).flatten).take st.data.length := by
  have hv := valid_unpack streams L h
  have hm : isMini st = false := by simp [isMini]; omega
  have hnl : ¬ st.data.length < 4096 := by omega
  obtain ⟨s', rd', he, _, _⟩ := main_subread streams L hv s0 st hst hm c.sectors rd hg.inv hg.size hg.lazy
  refine ⟨by simp [streamDir, hst, hm], by simp [streamDir, hst], ⟨s', rd', ?_, ?_⟩,
    regular_stream_sectors streams L hv s0 st hst hm⟩
  · rw [hg.fats]; exact he
  · rw [getStream_entry streams L hv c rd hg s0 st hst]
    unfold getStreamAt
    simp only [streamDir, hst, hm, hnl, if_false, Bool.false_eq_true]
    rw [hg.fats, he]

/-- the reader as a lookup function (interface used by C18's `project` and by `Xls`): on a generated container it
    returns exactly the streams — every stream by its name, nothing for any other name (the root entry and the
    unused entries are not stream entries: a stream may even be called `Root Entry`) -/
theorem lookup_streams (streams : List Stream) (L : Layout) (h : Valid streams L) (c : CfbSt) (rd : Bytes)
    (hg : Good streams L c rd) :
    (∀ st ∈ streams, lookupOf c rd st.name = some st.data) ∧
    (∀ name, (∀ st ∈ streams, st.name ≠ name) → lookupOf c rd name = none) :=
  ⟨fun st hst => lookupOf_stream streams L (valid_unpack streams L h) c rd hg st hst,
   fun name h3 => lookupOf_absent streams L (valid_unpack streams L h) c rd hg name h3⟩

/-- entry types: `get_stream` looks at STREAM entries only. On ANY reader state, entries of another type —
    storages (a UserForm's designer storage carries the name of the form's module stream), the root, unused
    entries — are invisible to it, whatever their names, start sectors, sizes and positions in the directory -/
theorem get_stream_ignores_non_streams (c : CfbSt) (name : List Char) (rd : Bytes) :
    getStream c name rd =
      match (c.dirs.filter (fun d => d.kind = STREAM_OBJECT)).find? (fun d => d.name = name) with
      | none => .err "notfound"
      | some d => getStreamAt c d rd :=
  getStream_streams_only c name rd

/-- `containers_equal`: two containers holding the same streams read the same, whatever their layouts -/
theorem containers_equal (streams : List Stream) (L₁ L₂ : Layout) (h₁ : Valid streams L₁) (h₂ : Valid streams L₂)
    (st : Stream) (hst : st ∈ streams) :
    readStream (layoutCfb streams L₁) st.name = readStream (layoutCfb streams L₂) st.name := by
  rw [cfb_roundtrip streams L₁ h₁ st hst, cfb_roundtrip streams L₂ h₂ st hst]

/-! ## robustness on ARBITRARY bytes (C06 flavour): total, terminating, bounded by the bytes read -/

theorem chainLoop_total (fats : List Nat) (rem id : Nat) (s : Sectors) (rd : Bytes) (acc : Nat) :
    Sectors.chainLoop fats rem id s rd acc ≠ .outOfFuel :=
  (chainLoop_clean fats rem id s rd acc).2

/-- on ANY allocation table `get_chain` terminates with a result or an error (never out of fuel, never
    a panic): the loop is bounded by `fats.len()` iterations -/
theorem getChain_total (s : Sectors) (start : Nat) (fats : List Nat) (rd : Bytes) (len : Nat) :
    s.getChain start fats rd len ≠ .outOfFuel ∧ ∀ m, s.getChain start fats rd len ≠ .panic m :=
  ⟨(getChain_clean s start fats rd len).2, (getChain_clean s start fats rd len).1⟩

/-- `X_alloc` for `get_chain`: on ANY allocation table (cyclic, corrupt) and for ANY `len` argument the bytes
    it returns never exceed what has been read of the file (the sector cache afterwards), and cache plus unread
    bytes are conserved — so they never exceed the file -/
theorem getChain_alloc_bound (s : Sectors) (start : Nat) (fats : List Nat) (rd : Bytes) (len : Nat)
    (x : Bytes) (s' : Sectors) (rd' : Bytes) (h : s.getChain start fats rd len = .ok (x, s', rd')) :
    x.length ≤ s'.data.length ∧ s'.data.length + rd'.length = s.data.length + rd.length :=
  getChain_alloc s start fats rd len x s' rd' h

/-- `Cfb::new` on ARBITRARY bytes terminates, whatever `len` hint it is given (the DIFAT walk is bounded by
    the bytes read, the chains by the table and the bytes read) -/
theorem new_terminates (file : Bytes) (len : Nat) : Cfb.new file len ≠ .outOfFuel := (new_clean file len).2.1

/-- `Cfb::new` is total: on EVERY byte string and for EVERY `len` hint it returns `Ok` or `Err`, it never panics -/
theorem new_no_panic (file : Bytes) (len : Nat) (m : String) : Cfb.new file len ≠ .panic m :=
  (new_clean file len).1 m

/-- `X_alloc` for `Cfb::new` on ARBITRARY bytes: the allocation tables (4 bytes per entry) and the mini stream are
    no larger than what has been read of the file, which together with the unread rest is at most the file -/
theorem new_alloc_bound (file : Bytes) (len : Nat) (c : CfbSt) (rd : Bytes) (h : Cfb.new file len = .ok (c, rd)) :
    c.fats.length * 4 ≤ c.sectors.data.length ∧ c.mini.data.length ≤ c.sectors.data.length ∧
    c.miniFats.length * 4 ≤ c.sectors.data.length ∧ c.sectors.data.length + rd.length ≤ file.length :=
  (new_clean file len).2.2 c rd h

/-- `get_stream` on ARBITRARY reader state never panics and always terminates -/
theorem getStream_no_panic (c : CfbSt) (name : List Char) (rd : Bytes) :
    (∀ m, getStream c name rd ≠ .panic m) ∧ getStream c name rd ≠ .outOfFuel := getStream_clean c name rd

/-- `X_alloc` for `get_stream`: a stream is never longer than the bytes the state holds (both caches and the
    unread rest), and that quantity is conserved; after `Cfb::new` it is at most twice the file length -/
theorem getStream_alloc_bound (c : CfbSt) (name : List Char) (rd : Bytes) (x : Bytes) (c' : CfbSt) (rd' : Bytes)
    (h : getStream c name rd = .ok (x, c', rd')) :
    x.length ≤ c.bytes rd ∧ c'.bytes rd' = c.bytes rd :=
  getStream_alloc c name rd x c' rd' h

theorem bytes_after_new (file : Bytes) (len : Nat) (c : CfbSt) (rd : Bytes) (h : Cfb.new file len = .ok (c, rd)) :
    c.bytes rd ≤ 2 * file.length := by
  obtain ⟨_, h2, _, h3⟩ := new_alloc_bound file len c rd h
  simp only [CfbSt.bytes]; omega

/-! ### time: sector reads (`Sectors::get` calls), counted by cost functions that mirror the loops of the model
    call by call (`newCost`, `getStreamCost` in `Model/Cfb.lean`). The `≠ outOfFuel` theorems above only say that
    each loop stays within its own budget; the bound below is GLOBAL: all loops of `Cfb::new` and of one
    `get_stream` together perform a number of sector reads linear in the file length, on ARBITRARY bytes. (Not
    counted: the 128-byte directory entries parsed, at most `|file| / 128`, and the linear name search.) -/

theorem new_cost_linear (file : Bytes) : newCost file ≤ 2 * file.length + 110 := newCost_linear file

theorem read_cost_linear (file : Bytes) (len : Nat) (c : CfbSt) (rd : Bytes) (h : Cfb.new file len = .ok (c, rd))
    (name : List Char) : newCost file + getStreamCost c name rd ≤ 3 * file.length + 110 := by
  have h1 := newCost_linear file
  have h2 := getStreamCost_le c name rd
  obtain ⟨a1, _, a3, a4⟩ := new_alloc_bound file len c rd h
  omega

/-- on an acyclic (valid) chain of distinct sectors the bounds are never the reason for an error: a fuel of
    the number of sectors of the chain suffices (statement of `chain_follow` with `rem = ids.length`) -/
theorem chain_fuel_suffices (fats : List Nat) (body : Bytes) (ids : List Nat) (s : Sectors) (rd : Bytes)
    (hcache : s.data ++ rd = body) (hss : 0 < s.size) (hlazy : s.lazy = true)
    (hchain : ∀ i (h : i < ids.length), ids[i] ≠ ENDOFCHAIN ∧ fats[ids[i]]? = some (ids[i+1]?.getD ENDOFCHAIN))
    (hdistinct : ids.Nodup) (hfull : ∀ x ∈ ids, (x + 1) * s.size ≤ body.length) :
    ∃ r, Sectors.chainLoop fats ids.length (ids[0]?.getD ENDOFCHAIN) s rd 0 = .ok r := by
  obtain ⟨s', rd', he, _, _⟩ := chainLoop_follow fats body ids ids.length s rd hcache (Nat.le_refl _) hss
    (Or.inl hlazy) hchain hdistinct hfull
  exact ⟨_, he⟩

/-- a self-referencing chain is an error, not a hang (the D29 input) -/
example : Sectors.getChain ⟨[], 512, true⟩ 0 [0] [1, 2, 3] 0 = .err "io" := by decide

/-! ## a concrete instance -/

/-- a non-trivial instance: version 3, one regular stream of 4100 bytes (9 sectors, fragmented and
    out of order, the last sector stored first), one mini stream of 100 bytes (2 mini sectors in reverse
    order with a free mini sector between them), a free sector, directory order unused/mini/regular -/
def exRegular : Stream := ⟨"Workbook".toList, (List.range 4100).map (fun i => UInt8.ofNat (i * 7 + i / 256))⟩
def exMini : Stream := ⟨"é😀".toList, (List.range 100).map (fun i => UInt8.ofNat (255 - i))⟩
def exStreams : List Stream := [exRegular, exMini]

def exLayout : Layout :=
  { v4 := false
    main := { owner := #[.data 3 8, .fat 0, .data 0 0, .data 3 0, .free, .data 3 2, .data 3 1, .data 2 0,
                          .data 3 3, .data 1 0, .data 3 5, .data 3 4, .data 3 7, .data 3 6]
              chains := #[#[2], #[9], #[7], #[3, 6, 5, 8, 11, 10, 13, 12, 0], #[]] }
    fatIds := #[1]
    difIds := #[]
    mini := { owner := #[.data 1 1, .free, .data 1 0], chains := #[#[], #[2, 0]] }
    dirOrder := [none, some 1, some 0]
    fill := 0xAA }

/-- the hypotheses of `cfb_roundtrip` are satisfiable by a non-trivial instance -/
theorem exValid : Valid exStreams exLayout := by decide +kernel

example : readStream (layoutCfb exStreams exLayout) exMini.name = .ok exMini.data :=
  cfb_roundtrip exStreams exLayout exValid exMini (List.mem_cons_of_mem _ (List.mem_cons_self ..))

/-- the same by plain evaluation of the encoder and the reader model in the kernel -/
example : readStream (layoutCfb exStreams exLayout) exMini.name = .ok exMini.data := by decide +kernel

end Cfb
