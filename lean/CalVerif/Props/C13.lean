import CalVerif.Lemmas.Cfb
/-! # C13 — compound-file streams are recovered whatever the container's physical layout
    Property theorems only (helper lemmas live in `Lemmas/Cfb.lean`). -/
namespace Cfb

/-! ## termination (C06 flavour): the bounded chain walk of the fixed code never runs out of fuel,
    whatever the allocation table contains (cycles included) -/

theorem chainLoop_total (fats : List Nat) (rem id : Nat) (s : Sectors) (rd : Bytes) :
    Sectors.chainLoop fats rem id s rd ≠ .outOfFuel := by
  induction rem generalizing id s rd with
  | zero => unfold Sectors.chainLoop; split <;> simp
  | succ rem ih =>
    unfold Sectors.chainLoop
    split; · simp
    split; · simp
    rename_i next _
    dsimp only
    have := ih next (s.get id rd).2.1 (s.get id rd).2.2
    split <;> simp_all

theorem getChain_total (s : Sectors) (start : Nat) (fats : List Nat) (rd : Bytes) (len : Nat) :
    s.getChain start fats rd len ≠ .outOfFuel := by
  unfold Sectors.getChain
  have := chainLoop_total fats fats.length start s rd
  split <;> simp_all

example : Sectors.getChain ⟨[], 512⟩ 0 [0] [1, 2, 3] 0 = .err "io" := by decide

end Cfb
