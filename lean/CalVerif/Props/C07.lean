import CalVerif.Model.Reader
import CalVerif.Model.Auto
import CalVerif.Model.DataConv
import CalVerif.Props.C05
/-! # C07 — read calls are pure and the alternative access paths agree

    Theorems about the reader state machine of `Model/Reader.lean`. What they carry: the *design*
    (which fields exist and which method writes them) makes every result a function of the file, the
    call's arguments, the header-row option in force and whether `load_merged_regions`/`load_tables`
    were called. That the real methods touch nothing else (zip cursor, buffers) is what the
    correspondence run of this check tests against freshly opened readers — see claims/C07.json. -/
namespace Reader

theorem hdrAfter_append (h : Hdr) (a b : List Op) : hdrAfter h (a ++ b) = hdrAfter (hdrAfter h a) b := by
  induction a generalizing h with
  | nil => rfl
  | cons op rest ih => cases op <;> simp [hdrAfter, ih]

theorem stateAfter_append (F : FileSem) (s : State) (a b : List Op) :
    stateAfter F s (a ++ b) = stateAfter F (stateAfter F s a) b := by
  simp only [stateAfter, hdrAfter_append, List.any_append, State.mk.injEq, true_and]
  constructor
  · cases F.loadMergedErr.isNone <;> simp [Bool.or_assoc]
  · cases F.loadTablesErr.isNone <;> simp [Bool.or_assoc]

/-- reads never change the state: the state after a history is determined by its setter calls -/
theorem run_state (F : FileSem) (s : State) (ops : List Op) : (run F s ops).1 = stateAfter F s ops := by
  induction ops generalizing s with
  | nil => simp [run, stateAfter, hdrAfter]
  | cons op rest ih =>
    simp only [run]
    rw [ih]
    cases op <;> simp [step, stateAfter, hdrAfter, isLoadMerged, isLoadTables]
    · cases F.loadMergedErr <;> simp
    · cases F.loadTablesErr <;> simp

theorem run_length (F : FileSem) (s : State) (ops : List Op) : (run F s ops).2.length = ops.length := by
  induction ops generalizing s with
  | nil => rfl
  | cons op rest ih => simp [run, ih]

/-- **read_pure**: the i-th result of any history is the result a fresh reader gives for that call once
    brought to the option / loaded flags determined by the setter calls before it — a function only of
    the file, the call's arguments, and the option in force. Nothing any earlier *read* did matters. -/
theorem read_pure (F : FileSem) (s : State) (ops : List Op) (i : Nat) (op : Op) (h : ops[i]? = some op) :
    (run F s ops).2[i]? = some (pureResult F (stateAfter F s (ops.take i)) op) := by
  induction ops generalizing s i with
  | nil => simp at h
  | cons o rest ih =>
    cases i with
    | zero =>
      simp at h; subst h
      simp [run, pureResult, stateAfter, hdrAfter]
    | succ j =>
      simp only [List.getElem?_cons_succ] at h
      simp only [run, List.getElem?_cons_succ, List.take_succ_cons]
      rw [ih _ j h]
      have hs : (step F s o).1 = stateAfter F s [o] := by
        have := run_state F s [o]; simpa [run] using this
      rw [hs, ← stateAfter_append]; rfl

/-- re-reading: the same call issued twice with only reads in between gives the same result -/
theorem reread_same (F : FileSem) (s : State) (ops : List Op) (i j : Nat) (op : Op)
    (hi : ops[i]? = some op) (hj : ops[j]? = some op)
    (hsame : stateAfter F s (ops.take i) = stateAfter F s (ops.take j)) :
    (run F s ops).2[i]? = (run F s ops).2[j]? := by
  rw [read_pure F s ops i op hi, read_pure F s ops j op hj, hsame]

/-- the option in force is the last one set; earlier settings leave no trace -/
theorem hdr_last_wins (h h' : Hdr) (ops : List Op) : hdrAfter h (ops ++ [.withHeaderRow h']) = h' := by
  rw [hdrAfter_append]; rfl

/-- the option can be changed back: after `h₁ … h₀` a read sees `h₀` again -/
theorem hdr_change_back (F : FileSem) (s : State) (h1 : Hdr) (name : String) :
    (run F s [.withHeaderRow h1, .withHeaderRow s.hdr, .range name]).2[2]? = some (rangeOut F s.hdr name) := by
  simp [run, step]

/-- `worksheet_range` is `worksheet_range_ref` converted cell by cell -/
theorem range_ref_owned_agree (F : FileSem) (s : State) (name : String) :
    (step F s (.range name)).2 = F.toOwned (step F s (.rangeRef name)).2 := rfl

/-- `worksheet_range_at(n)` is `worksheet_range` of the n-th sheet name; beyond the list it is `None` -/
theorem range_at_agree (F : FileSem) (s : State) (n : Nat) :
    (step F s (.rangeAt n)).2 = match F.sheets[n]? with
      | some name => (step F s (.range name)).2
      | none => unknownSheet := by
  simp only [step]; cases F.sheets[n]? <;> rfl

/-- under the default option (for the lazy readers: under any option), the entries of `worksheets()` are the
    per-name `worksheet_range` results, in the reader's sheet order — for the sheets whose read succeeds; a sheet
    whose read is an error has no entry -/
theorem worksheets_agree (F : FileSem) (s : State) (h : s.hdr = .firstNonEmpty ∨ F.eager = false) :
    (step F s .worksheets).2 = "&".intercalate (F.sheets.filterMap fun n =>
      if F.failed (step F s (.range n)).2 then none else some (n ++ "=" ++ (step F s (.range n)).2)) := by
  simp only [step, worksheetsOut]
  rcases h with h | h
  · simp only [h, ite_self]
  · simp only [h, Bool.false_eq_true, if_false]
    rfl

/-- reads commute: swapping two adjacent non-setter calls swaps their results and changes nothing else -/
def isRead : Op → Bool
  | .withHeaderRow _ | .loadMerged | .loadTables => false
  | _ => true

theorem read_keeps_state (F : FileSem) (s : State) (op : Op) (h : isRead op = true) : (step F s op).1 = s := by
  cases op <;> simp_all [isRead, step]

theorem reads_commute (F : FileSem) (s : State) (a b : Op) (ha : isRead a = true) (hb : isRead b = true)
    (rest : List Op) :
    run F s (a :: b :: rest) = ((run F s rest).1, (step F s a).2 :: (step F s b).2 :: (run F s rest).2) ∧
    run F s (b :: a :: rest) = ((run F s rest).1, (step F s b).2 :: (step F s a).2 :: (run F s rest).2) := by
  simp [run, read_keeps_state F s a ha, read_keeps_state F s b hb]

/-! ## sheet lookup -/

/-- **unknown_sheet_is_error**: a name that is not in the reader's sheet table gives `WorksheetNotFound` for the
    value read, the borrowed read and the formula read — never the content of some other sheet -/
theorem unknown_sheet_is_error (F : FileSem) (s : State) (name : String)
    (h : ∀ e ∈ F.parts, e.1 ≠ name) :
    (step F s (.rangeRef name)).2 = worksheetNotFound ∧
    (step F s (.range name)).2 = F.toOwned worksheetNotFound ∧
    (step F s (.formula name)).2 = worksheetNotFound := by
  have hl : lookupSheet F name = none := by
    unfold lookupSheet
    rw [Option.map_eq_none_iff, List.find?_eq_none]
    intro e he
    have := h e he
    simpa using this
  simp [step, rangeOut, FileSem.rangeRef, FileSem.formula, hl]

/-- a known name reads the part of the FIRST table entry carrying that name (and only that part) -/
theorem known_sheet_reads_its_part (F : FileSem) (s : State) (name part : String) (pre post : List (String × String))
    (hparts : F.parts = pre ++ (name, part) :: post) (hpre : ∀ e ∈ pre, e.1 ≠ name) :
    (step F s (.rangeRef name)).2 = F.partRange part s.hdr ∧ (step F s (.formula name)).2 = F.partFormula part := by
  have hl : lookupSheet F name = some part := by
    unfold lookupSheet
    rw [hparts, List.find?_append]
    have : pre.find? (fun e => e.1 == name) = none := by
      rw [List.find?_eq_none]; intro e he; have := hpre e he; simpa using this
    simp [this]
  simp [step, FileSem.rangeRef, FileSem.formula, hl]

/-- two different names never read each other's part when the table has one entry per name -/
theorem distinct_names_distinct_parts (F : FileSem) (n1 n2 p1 p2 : String)
    (h1 : lookupSheet F n1 = some p1) (h2 : lookupSheet F n2 = some p2) (hne : n1 ≠ n2) :
    (n1, p1) ∈ F.parts ∧ (n2, p2) ∈ F.parts := by
  unfold lookupSheet at h1 h2
  obtain ⟨e1, he1, rfl⟩ := Option.map_eq_some_iff.mp h1
  obtain ⟨e2, he2, rfl⟩ := Option.map_eq_some_iff.mp h2
  have m1 := List.mem_of_find?_eq_some he1
  have m2 := List.mem_of_find?_eq_some he2
  have k1 := List.find?_some he1
  have k2 := List.find?_some he2
  simp only [beq_iff_eq] at k1 k2
  subst k1 k2
  exact ⟨m1, m2⟩

/-- a load that fails leaves the reader as it was: the error is returned, no cache is set -/
theorem failed_load_is_noop (F : FileSem) (s : State) :
    (∀ e, F.loadMergedErr = some e → step F s .loadMerged = (s, e)) ∧
    (∀ e, F.loadTablesErr = some e → step F s .loadTables = (s, e)) := by
  constructor <;> intro e h <;> simp [step, h]

/-- the calls whose result looks at a cache filled by `load_merged_regions` / `load_tables` -/
def usesCaches : Op → Bool
  | .mergedRegions | .mergedBySheet _ | .tableNames | .tableByName _ | .loadMerged | .loadTables => true
  | _ => false

/-- every other call — value, borrowed, indexed and formula reads, `worksheets()`, `worksheet_merge_cells`,
    VBA, sheet names, metadata — returns the same result whether or not the caches were loaded (successfully or
    not, before or after): it depends on the file, its arguments and the header-row option only -/
theorem reads_ignore_caches (F : FileSem) (s s' : State) (op : Op) (hop : usesCaches op = false)
    (hh : s.hdr = s'.hdr) : (step F s op).2 = (step F s' op).2 := by
  cases op <;> simp_all [usesCaches, step]

/-- auto-detection wrapper: `Sheets` is a tagged union whose every method forwards to the wrapped reader -/
inductive Kind where | xls | xlsx | xlsb | ods
def stepAuto (F : FileSem) (_k : Kind) (s : State) (op : Op) : State × Out := step F s op
theorem auto_equals_format_reader (F : FileSem) (k : Kind) (s : State) (op : Op) :
    stepAuto F k s op = step F s op := rfl

/-! non-vacuity: a concrete file and history -/
def demoFile : FileSem :=
  { eager := false, sheets := ["A", "B"], parts := [("A", "A"), ("B", "B")],
    partRange := fun n h => n ++ (match h with | .firstNonEmpty => "@d" | .row k => "@" ++ toString k),
    partFormula := fun n => "f" ++ n,
    toOwned := fun o => "own(" ++ o ++ ")", mergeCells := fun _ => "m",
    mergedAll := "M", mergedBySheet := fun n => "M" ++ n, tableNames := "T",
    tableMeta := fun n => if n = "t1" then .ok ("A", "w") else .error "err:TableNotFound",
    window := fun r w => r ++ "|" ++ w, vba := "v", metadata := "md" }

example : (run demoFile {} [.range "A", .withHeaderRow (.row 3), .range "A", .tableByName "t1", .loadTables,
    .tableByName "t1", .withHeaderRow .firstNonEmpty, .range "A"]).2 =
    ["own(A@d)", "unit", "own(A@3)", "panic:not-loaded", "unit", "own(A@3)|w", "unit", "own(A@d)"] := by decide

end Reader

/-! ## auto-detection: which reader is chosen (`Model/Auto.lean`)

    `auto_equals_format_reader` above says that the wrapper forwards; these say which reader it wraps. The
    hypothesis "no reader earlier in the trial order opens the bytes" is not provable here — it is a fact about
    the four container formats (a compound file is not a zip, an xlsx has no `xl/workbook.bin`, an ods has its
    `mimetype`) — and is MEASURED by the correspondence run on every generated file (all four `new` are called). -/

namespace Auto

/-- auto-detection opens a file iff some reader opens it -/
theorem from_rs_opens_iff (a : Accepts) : (fromRs a).isSome = (a.xls || a.xlsx || a.xlsb || a.ods) := by
  cases a with | mk x1 x2 x3 x4 => cases x1 <;> cases x2 <;> cases x3 <;> cases x4 <;> rfl

/-- the reader it picks does open the file, and no reader earlier in the order does -/
theorem from_rs_first (a : Accepts) (f : Fmt) (h : fromRs a = some f) :
    a.of f = true ∧ ∀ g, (trialOrder.takeWhile (· ≠ f)).contains g = true → a.of g = false := by
  cases a with | mk x1 x2 x3 x4 =>
  cases f <;> cases x1 <;> cases x2 <;> cases x3 <;> cases x4 <;> simp [fromRs, trialOrder, Accepts.of] at h ⊢ <;>
    (intro g hg; cases g <;> simp_all [Accepts.of])

/-- **the property's clause**: if the format's own reader opens the bytes and no reader tried before it does,
    auto-detection wraps exactly that reader (whatever the later readers would say) -/
theorem auto_picks_own_reader (a : Accepts) (f : Fmt) (hown : a.of f = true)
    (hearlier : ∀ g, (trialOrder.takeWhile (· ≠ f)).contains g = true → a.of g = false) : fromRs a = some f := by
  cases a with | mk x1 x2 x3 x4 =>
  cases f <;> simp [Accepts.of] at hown <;> subst hown
  · rfl
  · have := hearlier .xls (by decide); simp [Accepts.of] at this; subst this; rfl
  · have h1 := hearlier .xls (by decide); have h2 := hearlier .xlsx (by decide)
    simp [Accepts.of] at h1 h2; subst h1 h2; rfl
  · have h1 := hearlier .xls (by decide); have h2 := hearlier .xlsx (by decide); have h3 := hearlier .xlsb (by decide)
    simp [Accepts.of] at h1 h2 h3; subst h1 h2 h3; rfl

/-- with a known extension `open_workbook_auto` is that reader and nothing else: its success or ITS error, never a
    fallback to another format -/
theorem from_path_known_extension (ext : String) (f : Fmt) (a : Accepts) (h : byExtension (some ext) = some f) :
    fromPath (some ext) a = if a.of f then .opened f else .readerError f := by
  simp [fromPath, h]

/-- with an unknown (or no, or differently cased) extension it is the trial order of `open_workbook_auto_from_rs` -/
theorem from_path_unknown_extension (ext : Option String) (a : Accepts) (h : byExtension ext = none) :
    fromPath ext a = match fromRs a with | some f => .opened f | none => .cannotDetect := by
  simp only [fromPath, h]
  cases fromRs a <;> rfl

example : fromRs ⟨false, true, false, false⟩ = some .xlsx := rfl
example : fromRs ⟨false, true, true, true⟩ = some .xlsx := rfl
example : fromRs ⟨false, false, false, false⟩ = none := rfl
example : fromPath (some "xlsb") ⟨false, true, false, false⟩ = .readerError .xlsb := rfl
example : fromPath (some "XLSX") ⟨false, true, false, false⟩ = .opened .xlsx := rfl
example : byExtension (some "xlam") = some .xlsx := rfl

end Auto

/-! ## the owned path is the borrowed path converted cell by cell, and the conversion loses nothing observable

    `range_ref_owned_agree` above is an identity of the reader model. These theorems are about the conversion itself
    (`Model/DataConv.lean`: `impl From<DataRef> for Data`, both `impl DataType`, and the range-level map of
    `worksheet_range`). -/

namespace DataConv

/-- every observation of the `DataType` trait gives the same answer on the owned cell as on the borrowed one
    (is_*, get_*, as_string, as_i64, as_f64), whatever std and the number parsers compute -/
theorem view_toData (σ : Std) (v : DataRef) : viewData σ (toData v) = viewRef σ v := by
  cases v <;> rfl

/-- the conversion identifies exactly `String` and `SharedString` of the same text and nothing else -/
theorem toData_eq_iff (a b : DataRef) :
    toData a = toData b ↔
      a = b ∨ (∃ s, (a = .string s ∧ b = .sharedString s) ∨ (a = .sharedString s ∧ b = .string s)) := by
  cases a <;> cases b <;> simp [toData] <;> exact eq_comm

/-- an empty borrowed cell is an empty owned cell and conversely (used cells correspond) -/
theorem toData_empty_iff (v : DataRef) : toData v = .empty ↔ v = .empty := by
  cases v <;> simp [toData]

/-- `worksheet_range` as a whole: same corners, same size, and at EVERY relative position the owned range holds the
    conversion of what the borrowed range holds (`None` outside both) -/
theorem owned_range_cells (r : Range.Rng DataRef) :
    (toOwnedRange r).start = r.start ∧ (toOwnedRange r).end_ = r.end_ ∧
    (toOwnedRange r).height = r.height ∧ (toOwnedRange r).width = r.width ∧
    (∀ i j, Range.get (toOwnedRange r) i j = (Range.get r i j).map toData) ∧
    (∀ p q, Range.getValue (toOwnedRange r) p q = (Range.getValue r p q).map toData) := by
  have hl : (toOwnedRange r).inner.length = r.inner.length := by simp [toOwnedRange]
  have hs : (toOwnedRange r).sr = r.sr ∧ (toOwnedRange r).sc = r.sc ∧ (toOwnedRange r).er = r.er ∧
      (toOwnedRange r).ec = r.ec := ⟨rfl, rfl, rfl, rfl⟩
  have hw : (toOwnedRange r).width = r.width := by unfold Range.Rng.width; rw [hl, hs.2.1, hs.2.2.2]
  have hh : (toOwnedRange r).height = r.height := by unfold Range.Rng.height; rw [hl, hs.1, hs.2.2.1]
  have hget : ∀ i j, Range.get (toOwnedRange r) i j = (Range.get r i j).map toData := by
    intro i j
    unfold Range.get
    rw [hw, hh]
    split
    · rfl
    · simp [toOwnedRange]
  refine ⟨?_, ?_, hh, hw, hget, fun p q => ?_⟩
  · unfold Range.Rng.start; rw [hl]; rfl
  · unfold Range.Rng.end_; rw [hl]; rfl
  · unfold Range.getValue
    rw [hs.1, hs.2.1, hs.2.2.1, hs.2.2.2]
    split
    · exact hget _ _
    · rfl

/-- the invariant of C05 carries over, so everything proved there about rows / cells / accessors holds of the owned
    range too -/
theorem owned_range_inv (r : Range.Rng DataRef) (hi : Range.Inv r) : Range.Inv (toOwnedRange r) := by
  obtain ⟨_, _, hh, hw, _, _⟩ := owned_range_cells r
  have hl : (toOwnedRange r).inner.length = r.inner.length := by simp [toOwnedRange]
  exact ⟨by rw [hl, hh, hw]; exact hi.len, fun hne => hi.ord (by rwa [hl] at hne)⟩

example : toData (.sharedString "ab".toList) = .string "ab".toList := rfl
example : toData (.dateTime ⟨4674916728738455552, false, true⟩) = .dateTime ⟨4674916728738455552, false, true⟩ := rfl

end DataConv
